(* C06 for PERIODIC directions, end to end on the model's own functions: [obj_reverse] followed by [obj_eval].

   The model (Model/Reparam.v, after the fix in /repo: np.roll(controlpoints, periodic+1, direction) after the flip):
     basis_reverse b       mirror the knot list about [a, e], same order, same per1 = periodic + 1
     rev_matrix n per1     new[r] = old[sg r],  sg r = n - 1 - ((r + n - per1 mod n) mod n)   (flip, then roll by per1)

   Index bookkeeping.  A periodic basis with n functions and per1 ghost functions has n + per1 B-splines
   i = 0 .. n + per1 - 1 on its knot list; column c of the dense row collects the indices i = c (mod n) ([wrapl]).
   Spec/Reparam.v reverse_basis: B-spline i of the mirrored knot list at a+e-t is B-spline n + per1 - 1 - i of the old
   list at t (other side).  Modulo n:  (n + per1 - 1 - i) mod n = sg (i mod n)  ([sg_refl]), sg is an involution on
   [0, n) ([sg_invol]) and sg r = (per1 - 1 - r) mod n ([sg_alt]): exactly the permutation written by rev_matrix.
   None of this needs the ghost knots to be exact periodic images: for a parameter of the base period [a, e]
   no wrapping of the parameter happens (obj_eval evaluates from the right, so the seam rule of wrap_t is idle),
   and the result holds for every well-formed periodic direction.  (Exact images, [per_canon], are preserved:
   [reverse_canon].)

   Contents
     Part 1  sg: sg_alt, sg_lt, sg_invol, sg_refl                       (nat arithmetic)
     Part 2  wrapl, rev_matrix_entry_per, row_rel_sg, wrap_rev_rel      (lists / matrices)
     Part 3  ref_row_wrapl, ref_row_reverse (the ROW LEVEL theorem, every t and both sides), basis_row_per_wrap
     Part 4  reverse_canon (KNOT LEVEL: canonical periodic lists stay canonical, same p, per1, n, T, start, end),
             basis_reverse_canon (the same on the output of the model's basis_reverse)
     Part 5  object level:
               reverse_periodic_domain        start, end, order, per1, nfun, other bases, dim, rat unchanged
               reverse_periodic_wf
               reverse_periodic_eval          parameter of the base period [a, e], hypothesis rev_ok as in ReverseEndToEnd.v
               reverse_periodic_eval_upd / _clear / _interior / _start / _end / _knot   corollaries
               reverse_periodic_eval_wrapped  ANY real parameter t = t0 + z (e - a), t0 in (a, e), not snapped
               apply_rev_per_twice, reverse_periodic_involution
     Part 6  non-vacuity: ex_curve (cubic, 8 control points, continuity 2, knots -3 .. 11): ex_curve_wf, ex_curve_canon,
             ex_reverse_interior / _seam / _knot / _wrapped / _involution *)
From Coq Require Import List Arith Reals Lra Lia Bool ZArith.
From SplipyModel Require Import Spec.BSpline Spec.Continuity Spec.Reparam Model.Num Model.BasisDef Model.BasisEval Model.Tensor Model.Obj Model.KnotInsert Model.Interp Model.Reparam
  Proofs.KnotList Proofs.SpanCorrect Proofs.EvaluateSpec Proofs.EvalConsequences Proofs.SnapSpec Proofs.SnapChar Proofs.TensorLemmas Proofs.ObjEval
  Proofs.InsertMatrix Proofs.TensorApply Proofs.OrderRaise Proofs.InsertEndToEnd Proofs.ChangeDirEval Proofs.RestrictDirEval Proofs.ReparamObj
  Proofs.SeamContinuity Proofs.PeriodicInsert Proofs.ReverseEndToEnd.
Import ListNotations.
Open Scope R_scope.

(* ------------------------------------------------------------------------------------------------ *)
(* Part 1: the permutation written by rev_matrix                                                    *)
(* ------------------------------------------------------------------------------------------------ *)
Definition sg (n per1 r : nat) : nat := (n - 1 - ((r + n - per1 mod n) mod n))%nat.

Lemma mod_neg n u v : (0 < n)%nat -> (v < n)%nat -> ((u + v + 1) mod n = 0)%nat -> (u mod n = n - 1 - v)%nat.
Proof.
  intros Hn Hv H. apply Nat.mod_divides in H; [|lia]. destruct H as [m Hm].
  destruct m as [|m]; [lia|]. rewrite Nat.mul_succ_r in Hm.
  symmetry. apply (Nat.mod_unique u n m (n - 1 - v)); lia.
Qed.

Lemma sub_mul_mod x q n : (0 < n)%nat -> (q * n <= x)%nat -> ((x - q * n) mod n = x mod n)%nat.
Proof.
  intros Hn Hq. replace x with ((x - q * n) + q * n)%nat at 2 by lia. rewrite Nat.mod_add by lia. reflexivity.
Qed.

Lemma sg_lt n per1 r : (0 < n)%nat -> (sg n per1 r < n)%nat.
Proof. intros Hn. unfold sg. lia. Qed.

(* sg r = (per1 - 1 - r) mod n *)
Lemma sg_alt n per1 r : (0 < n)%nat -> (r < n)%nat -> sg n per1 r = ((n - 1 - r + per1) mod n)%nat.
Proof.
  intros Hn Hr. unfold sg. symmetry.
  pose proof (Nat.mod_upper_bound per1 n ltac:(lia)) as Hpm.
  pose proof (Nat.div_mod per1 n ltac:(lia)) as E.
  apply mod_neg; [exact Hn|apply Nat.mod_upper_bound; lia|].
  replace (n - 1 - r + per1 + (r + n - per1 mod n) mod n + 1)%nat
     with ((n - 1 - r + per1 + 1) + (r + n - per1 mod n) mod n)%nat by lia.
  rewrite Nat.add_mod_idemp_r by lia.
  replace (n - 1 - r + per1 + 1 + (r + n - per1 mod n))%nat with ((2 + per1 / n) * n)%nat by lia.
  apply Nat.mod_mul. lia.
Qed.

Lemma sg_invol n per1 r : (0 < n)%nat -> (r < n)%nat -> sg n per1 (sg n per1 r) = r.
Proof.
  intros Hn Hr. rewrite (sg_alt n per1 (sg n per1 r)) by (try apply sg_lt; lia).
  pose proof (Nat.mod_upper_bound per1 n ltac:(lia)) as Hpm.
  pose proof (Nat.div_mod per1 n ltac:(lia)) as E.
  unfold sg. pose proof (Nat.mod_upper_bound (r + n - per1 mod n) n ltac:(lia)) as Hx.
  replace (n - 1 - (n - 1 - (r + n - per1 mod n) mod n) + per1)%nat with ((r + n - per1 mod n) mod n + per1)%nat by lia.
  rewrite Nat.add_mod_idemp_l by lia.
  replace (r + n - per1 mod n + per1)%nat with (r + (1 + per1 / n) * n)%nat by lia.
  rewrite Nat.mod_add by lia. apply Nat.mod_small. exact Hr.
Qed.

Lemma sg_inj n per1 r s : (0 < n)%nat -> (r < n)%nat -> (s < n)%nat -> sg n per1 r = sg n per1 s -> r = s.
Proof. intros Hn Hr Hs E. rewrite <- (sg_invol n per1 r), <- (sg_invol n per1 s) by assumption. rewrite E. reflexivity. Qed.

(* the class of the mirrored index *)
Lemma sg_refl n per1 i : (0 < n)%nat -> (i < n + per1)%nat -> ((n + per1 - 1 - i) mod n)%nat = sg n per1 (i mod n).
Proof.
  intros Hn Hi. pose proof (Nat.mod_upper_bound i n ltac:(lia)) as Him.
  pose proof (Nat.div_mod i n ltac:(lia)) as E.
  rewrite sg_alt by assumption.
  replace (n + per1 - 1 - i)%nat with ((n - 1 - i mod n + per1) - (i / n) * n)%nat by lia.
  apply sub_mul_mod; lia.
Qed.

(* ------------------------------------------------------------------------------------------------ *)
(* Part 2: wrapped rows and the matrix                                                              *)
(* ------------------------------------------------------------------------------------------------ *)
(* column c of the wrapped row collects the entries i = c (mod n) *)
Definition wrapl (n : nat) (N : list R) : list R :=
  map (fun c => sumf (fun i => if (i mod n =? c)%nat then nth i N 0 else 0) 0 (length N)) (seq 0 n).

Lemma wrapl_length n N : length (wrapl n N) = n.
Proof. unfold wrapl. rewrite map_length, seq_length. reflexivity. Qed.

Lemma wrapl_nth n N c : (c < n)%nat ->
  nth c (wrapl n N) 0 = sumf (fun i => if (i mod n =? c)%nat then nth i N 0 else 0) 0 (length N).
Proof.
  intros Hc. unfold wrapl. rewrite (nth_map_gen _ _ c 0 0%nat) by (rewrite seq_length; exact Hc).
  rewrite seq_nth by exact Hc. reflexivity.
Qed.

Lemma rev_matrix_len_per n per1 : length (@rev_matrix R NumR n per1) = n.
Proof. unfold rev_matrix. rewrite map_length, seq_length. reflexivity. Qed.

Lemma rev_matrix_entry_per n per1 r j : (r < n)%nat -> (j < n)%nat ->
  nth j (nth r (@rev_matrix R NumR n per1) []) 0 = if (j =? sg n per1 r)%nat then 1 else 0.
Proof.
  intros Hr Hj. unfold rev_matrix.
  rewrite (nth_map_gen _ _ r [] 0%nat) by (rewrite seq_length; exact Hr). rewrite seq_nth by exact Hr.
  rewrite (nth_map_gen _ _ j 0 0%nat) by (rewrite seq_length; exact Hj). rewrite seq_nth by exact Hj.
  cbn [Nat.add]. reflexivity.
Qed.

(* a row permuted by sg is related to the old row through rev_matrix *)
Lemma row_rel_sg (N N' : list R) n per1 : (0 < n)%nat -> length N = n -> length N' = n ->
  (forall j, (j < n)%nat -> nth j N 0 = nth (sg n per1 j) N' 0) ->
  row_rel N N' (@rev_matrix R NumR n per1).
Proof.
  intros Hn HN HN' Hperm. unfold row_rel. rewrite HN, HN'.
  split; [apply rev_matrix_len_per|]. split.
  - apply Forall_forall. intros row Hin. unfold rev_matrix in Hin. apply in_map_iff in Hin. destruct Hin as (r & <- & _).
    rewrite map_length, seq_length. reflexivity.
  - intros j Hj. rewrite (Hperm j Hj).
    rewrite (sumf_ext _ (fun r => if (sg n per1 j =? r)%nat then nth r N' 0 else 0)).
    + symmetry. apply (PeriodicInsert.sumf_indicator (fun r => nth r N' 0)). apply sg_lt. exact Hn.
    + intros r Hr. rewrite rev_matrix_entry_per by lia.
      destruct (Nat.eqb_spec j (sg n per1 r)) as [E|E]; destruct (Nat.eqb_spec (sg n per1 j) r) as [E2|E2]; try ring.
      * exfalso. apply E2. rewrite E. apply sg_invol; lia.
      * exfalso. apply E. rewrite <- E2. symmetry. apply sg_invol; lia.
Qed.

Lemma sumf_mirror f m : sumf f 0 m = sumf (fun i => f (m - 1 - i)%nat) 0 m.
Proof.
  induction m as [|m IH]; [reflexivity|].
  rewrite sumf_snoc. cbn [Nat.add]. rewrite sumf_S. rewrite IH.
  replace (S m - 1 - 0)%nat with m by lia. rewrite <- sumf_shift.
  rewrite Rplus_comm. f_equal. apply sumf_ext. intros i Hi. f_equal. lia.
Qed.

(* the wrapped reversed row is the wrapped row permuted by rev_matrix n per1 *)
Theorem wrap_rev_rel (N : list R) n per1 : (0 < n)%nat -> length N = (n + per1)%nat ->
  row_rel (wrapl n N) (wrapl n (rev N)) (@rev_matrix R NumR n per1).
Proof.
  intros Hn HN. apply row_rel_sg; [exact Hn|apply wrapl_length|apply wrapl_length|].
  intros j Hj. rewrite !wrapl_nth by (try apply sg_lt; lia). rewrite rev_length, HN.
  rewrite (sumf_mirror _ (n + per1)). apply sumf_ext. intros i Hi.
  rewrite sg_refl by lia.
  rewrite rev_nth by lia. rewrite HN. replace (n + per1 - S i)%nat with (n + per1 - 1 - i)%nat by lia.
  pose proof (Nat.mod_upper_bound i n ltac:(lia)) as Him.
  destruct (Nat.eqb_spec (sg n per1 (i mod n)) j) as [E|E]; destruct (Nat.eqb_spec (i mod n) (sg n per1 j)) as [E2|E2]; try reflexivity.
  - exfalso. apply E2. rewrite <- E. symmetry. apply sg_invol; assumption.
  - exfalso. apply E. rewrite E2. apply sg_invol; assumption.
Qed.

(* ------------------------------------------------------------------------------------------------ *)
(* Part 3: rows of a periodic basis                                                                 *)
(* ------------------------------------------------------------------------------------------------ *)
Lemma Brow_length side (k : list R) p t : length (Brow side k p t) = (length k - p)%nat.
Proof. unfold Brow. rewrite map_length, seq_length. reflexivity. Qed.

(* the model's reference row is the wrapped row of all B-spline values *)
Lemma ref_row_wrapl side (k : list R) p per1 t :
  @ref_row R NumR side k p per1 0 t = wrapl (length k - p - per1) (Brow side k p t).
Proof.
  rewrite ref_row_R. unfold wrapl. rewrite Brow_length. apply map_ext. intros c.
  apply sumf_ext. intros i Hi. destruct (_ =? _)%nat; [|reflexivity].
  symmetry. apply Brow_nth'. lia.
Qed.

Section RevRows.
Variable k : list R.
Variables (p per1 : nat).
Hypothesis HK : sorted (@kn R NumR k).
Hypothesis Hp : (1 <= p)%nat.
Hypothesis Hlen : (2 * p <= length k)%nat.
Hypothesis Hn : (0 < length k - p - per1)%nat.
Local Notation a := (@kn R NumR k (p - 1)).
Local Notation e := (@kn R NumR k (length k - p)).
Local Notation k' := (rknots a e k).
Local Notation n := (length k - p - per1)%nat.

Lemma rr_ae : 2 * 0 <= e - a.
Proof. pose proof (HK (p - 1)%nat (length k - p)%nat ltac:(lia)). lra. Qed.

(* ROW LEVEL: the wrapped row of the reversed basis at a+e-t (other side) is the wrapped row of the old basis at t
   permuted by rev_matrix n per1.  Every real t, both sides, no hypothesis on the ghost knots. *)
Theorem ref_row_reverse side t :
  row_rel (@ref_row R NumR side k p per1 0 t) (@ref_row R NumR (negb side) k' p per1 0 (a + e - t))
          (@rev_matrix R NumR n per1).
Proof.
  rewrite !ref_row_wrapl. rewrite rknots_length.
  rewrite (Brow_rev k p 0 HK Hp Hlen rr_ae (negb side) t). rewrite negb_involutive.
  apply wrap_rev_rel; [exact Hn|]. rewrite Brow_length. lia.
Qed.

(* the same statement read with the reversed basis first: its row at t against the old row at a+e-t *)
Corollary ref_row_reverse' side t :
  row_rel (@ref_row R NumR (negb side) k p per1 0 (a + e - t)) (@ref_row R NumR side k' p per1 0 t)
          (@rev_matrix R NumR n per1).
Proof.
  pose proof (ref_row_reverse (negb side) (a + e - t)) as RR. rewrite negb_involutive in RR.
  replace (a + e - (a + e - t)) with t in RR by ring. exact RR.
Qed.
End RevRows.

(* the row obj_eval uses in a periodic direction *)
Lemma hd_nth0 {A} (l : list (list A)) : hd [] l = nth 0 l [].
Proof. destruct l; reflexivity. Qed.

Lemma basis_row_per tol (k : list R) p per1 t :
  sorted (@kn R NumR k) -> (1 <= p)%nat -> (2 * p <= length k)%nat -> 0 < tol ->
  @basis_row R NumR tol (mkBasis p k per1) 0 true t =
    match @normalise R NumR k p per1 tol true (@snap1 R NumR k tol t) with
    | None => repeat 0 (length k - p - per1)
    | Some (t', side) => @ref_row R NumR side k p per1 0 t'
    end.
Proof.
  intros HK Hp Hlen Htol. unfold basis_row. cbn [b_knots b_order b_per1]. rewrite hd_nth0.
  pose proof (basis_evaluate_spec k p per1 HK Hp Hlen tol Htol 0 true [t] 0 ltac:(cbn; lia)) as ES.
  cbv zeta in ES. cbn [nth] in ES. rewrite ES.
  destruct (Nat.leb_spec p 0); [lia|]. reflexivity.
Qed.

(* at a parameter of the base period, evaluation from the right never wraps and the seam rule is idle *)
Lemma normalise_per_true (k : list R) p per1 tol u :
  @kn R NumR k (p - 1) <= u <= @kn R NumR k (length k - p) ->
  @normalise R NumR k p per1 tol true u = @normalise R NumR k p 0 tol true u.
Proof.
  intros Hu. unfold normalise. cbv zeta.
  assert (W : forall b, @wrap_t R NumR (@kn R NumR k (p - 1)) (@kn R NumR k (length k - p)) tol b true u = u).
  { intros b. unfold wrap_t. destruct b; [|reflexivity]. cbn [negb]. rewrite andb_false_r. cbn [nltb NumR].
    destruct (Rltb_spec u (@kn R NumR k (p - 1))); [lra|].
    destruct (Rltb_spec (@kn R NumR k (length k - p)) u); [lra|]. reflexivity. }
  rewrite !W. reflexivity.
Qed.

Lemma basis_row_per_wrap tol (k : list R) p per1 t :
  sorted (@kn R NumR k) -> (1 <= p)%nat -> (2 * p <= length k)%nat -> 0 < tol ->
  2 * tol <= @kn R NumR k (length k - p) - @kn R NumR k (p - 1) ->
  @kn R NumR k (p - 1) <= @snap1 R NumR k tol t <= @kn R NumR k (length k - p) ->
  @basis_row R NumR tol (mkBasis p k per1) 0 true t
  = wrapl (length k - p - per1) (@basis_row R NumR tol (mkBasis p k 0) 0 true t).
Proof.
  intros HK Hp Hlen Htol Hw Hin.
  rewrite (basis_row_per tol k p per1 t HK Hp Hlen Htol), (basis_row_nonper tol k p t HK Hp Hlen Htol).
  rewrite (normalise_per_true k p per1 tol _ Hin).
  rewrite (normalise_nonper_true k p tol _ Htol Hw Hin). apply ref_row_wrapl.
Qed.

(* ------------------------------------------------------------------------------------------------ *)
(* Part 4: KNOT LEVEL, canonical periodic knot lists stay canonical                                 *)
(* ------------------------------------------------------------------------------------------------ *)
Theorem reverse_canon (k : list R) (p per1 n : nat) (T : R) :
  per_canon k p per1 n T ->
  let a := @kn R NumR k (p - 1) in let e := @kn R NumR k (length k - p) in
  per_canon (rknots a e k) p per1 n T /\
  @kn R NumR (rknots a e k) (p - 1) = a /\
  @kn R NumR (rknots a e k) (length (rknots a e k) - p) = e /\
  e = a + T.
Proof.
  intros (HK & Hper1 & Hpp & Hlen & Hreg & HT & Hseam & Himg) a e.
  assert (Hne : k <> []) by (destruct k; [cbn in Hlen; lia|discriminate]).
  assert (Kn : forall j, @kn R NumR (rknots a e k) j = a + e - @kn R NumR k (length k - 1 - j)) by (intros j; apply rknots_kn; exact Hne).
  split; [|split; [|split]].
  - split; [|split; [exact Hper1|split; [exact Hpp|split; [rewrite rknots_length; exact Hlen|split; [exact Hreg|split; [exact HT|split]]]]]].
    + intros i j Hij. rewrite !Kn. pose proof (HK (length k - 1 - j)%nat (length k - 1 - i)%nat ltac:(lia)). lra.
    + rewrite !Kn. rewrite Hlen.
      replace (n + per1 + p - 1 - per1)%nat with ((p - 1) + n)%nat by lia.
      replace (n + per1 + p - 1 - (p - 1))%nat with (per1 + n)%nat by lia.
      rewrite !Himg by lia. rewrite Hseam. reflexivity.
    + intros i Hi. rewrite rknots_length in Hi. rewrite !Kn.
      replace (length k - 1 - i)%nat with ((length k - 1 - (i + n)) + n)%nat by lia.
      rewrite Himg by lia. ring.
  - rewrite Kn. replace (length k - 1 - (p - 1))%nat with (length k - p)%nat by lia. fold e. ring.
  - rewrite rknots_length, Kn. replace (length k - 1 - (length k - p))%nat with (p - 1)%nat by lia. fold a. ring.
  - unfold e, a. rewrite Hlen. replace (n + per1 + p - p)%nat with (per1 + n)%nat by lia.
    rewrite Himg by lia. rewrite Hseam. reflexivity.
Qed.

(* the model's basis_reverse on a canonical periodic basis *)
Corollary basis_reverse_canon (k : list R) (p per1 n : nat) (T : R) :
  per_canon k p per1 n T ->
  let b := mkBasis p k per1 in
  b_order (@basis_reverse R NumR b) = p /\ b_per1 (@basis_reverse R NumR b) = per1 /\
  per_canon (b_knots (@basis_reverse R NumR b)) p per1 n T /\
  @b_start R NumR (@basis_reverse R NumR b) = @b_start R NumR b /\
  @b_end R NumR (@basis_reverse R NumR b) = @b_end R NumR b /\
  @b_nfun R (@basis_reverse R NumR b) = n /\ @b_nfun R b = n.
Proof.
  intros Hcan b. destruct (reverse_canon k p per1 n T Hcan) as (C1 & C2 & C3 & C4). cbv zeta in *.
  pose proof Hcan as (HK & Hper1 & Hpp & Hlen & Hreg & HT & Hseam & Himg).
  assert (Hae : @b_start R NumR b < @b_end R NumR b).
  { unfold b_start, b_end, b. cbn [b_knots b_order]. lra. }
  rewrite (basis_reverse_eq b Hae). unfold b_start, b_end, b_nfun, b. cbn [b_knots b_order b_per1].
  rewrite rknots_length in *.
  split; [reflexivity|]. split; [reflexivity|]. split; [exact C1|]. split; [exact C2|]. split; [exact C3|]. split; lia.
Qed.

(* ------------------------------------------------------------------------------------------------ *)
(* Part 5: object level                                                                             *)
(* ------------------------------------------------------------------------------------------------ *)
Lemma basis_row_nonper_Brow tol (k : list R) p t :
  sorted (@kn R NumR k) -> (1 <= p)%nat -> (2 * p <= length k)%nat -> 0 < tol ->
  2 * tol <= @kn R NumR k (length k - p) - @kn R NumR k (p - 1) ->
  @kn R NumR k (p - 1) <= @snap1 R NumR k tol t <= @kn R NumR k (length k - p) ->
  length (@basis_row R NumR tol (mkBasis p k 0) 0 true t) = (length k - p)%nat.
Proof.
  intros HK Hp Hlen Htol Hw Hin. rewrite (basis_row_nonper tol k p t HK Hp Hlen Htol).
  rewrite (normalise_nonper_true k p tol _ Htol Hw Hin). apply Brow_length.
Qed.

Section RevPerObj.
Variable tol : R.
Hypothesis Htol : 0 < tol.
Variable o : obj R.
Hypothesis Hwf : wf_obj_R tol o.
Variable d : nat.
Hypothesis Hd : (d < length (o_bases o))%nat.
Local Notation bd := (nth d (o_bases o) dflt_basis).
Local Notation k := (b_knots bd).
Local Notation p := (b_order bd).
Local Notation per1 := (b_per1 bd).
Local Notation n := (@b_nfun R bd).
Local Notation a := (@b_start R NumR bd).
Local Notation e := (@b_end R NumR bd).
Local Notation k' := (rknots a e k).
Local Notation b' := (@mkBasis R p k' per1).
Local Notation o' := (@obj_reverse R NumR o d).

Lemma rp_bd_wf : sorted (@kn R NumR k) /\ (1 <= p)%nat /\ (2 * p <= length k)%nat /\ (0 < n)%nat /\ 2 * tol <= e - a.
Proof. exact (bd_wf tol o Hwf d Hd). Qed.
Lemma rp_bd_eq : bd = mkBasis p k per1.
Proof. destruct bd; reflexivity. Qed.
Lemma rp_ae : a < e.
Proof. destruct rp_bd_wf as (_ & _ & _ & _ & Hw). lra. Qed.
Lemma rp_n : n = (length k - p - per1)%nat.
Proof. reflexivity. Qed.

Lemma rpk_sorted : sorted (@kn R NumR k').
Proof. destruct rp_bd_wf as (HK & Hp & Hlen & Hn & Hw). exact (rk_sorted k p tol HK Hp Hlen Hw). Qed.
Lemma rpk_start : @b_start R NumR b' = a.
Proof. destruct rp_bd_wf as (HK & Hp & Hlen & Hn & Hw). exact (rk_start k p tol HK Hp Hlen Hw). Qed.
Lemma rpk_end : @b_end R NumR b' = e.
Proof. destruct rp_bd_wf as (HK & Hp & Hlen & Hn & Hw). exact (rk_end k p tol HK Hp Hlen Hw). Qed.
Lemma rpk_kn j : @kn R NumR k' j = a + e - @kn R NumR k (length k - 1 - j).
Proof. destruct rp_bd_wf as (HK & Hp & Hlen & Hn & Hw). exact (rk_kn k p tol HK Hp Hlen Hw j). Qed.

Lemma rp_basis : @basis_reverse R NumR bd = b'.
Proof. exact (basis_reverse_eq bd rp_ae). Qed.

Lemma rp_obj : o' = mkObj (upd (o_bases o) d b')
    (@apply_dir R NumR (@o_ncomp R o) (@o_shape R o) d (@rev_matrix R NumR n per1) (o_cps o)) (o_dim o) (o_rat o).
Proof. unfold obj_reverse. cbv zeta. change (mkBasis 0 [] 0) with dflt_basis. rewrite rp_basis. reflexivity. Qed.

Lemma rp_nth_bases i : nth i (o_bases o') dflt_basis = if Nat.eq_dec i d then b' else nth i (o_bases o) dflt_basis.
Proof.
  rewrite rp_obj. cbn [o_bases].
  destruct (Nat.eq_dec i d) as [->|Hne]; [apply upd_nth_same; exact Hd|apply upd_nth_other; exact Hne].
Qed.
Lemma rp_len_bases : length (o_bases o') = length (o_bases o).
Proof. rewrite rp_obj. cbn [o_bases]. apply upd_length. Qed.

Lemma rp_nfun : @b_nfun R b' = n.
Proof. unfold b_nfun. cbn [b_knots b_order b_per1]. rewrite rknots_length. reflexivity. Qed.

(* C06 (periodic or not): domain, order, periodicity, number of functions and the other directions are unchanged *)
Theorem reverse_periodic_domain :
  @b_start R NumR (nth d (o_bases o') dflt_basis) = a /\
  @b_end R NumR (nth d (o_bases o') dflt_basis) = e /\
  b_order (nth d (o_bases o') dflt_basis) = p /\
  b_per1 (nth d (o_bases o') dflt_basis) = per1 /\
  @b_nfun R (nth d (o_bases o') dflt_basis) = n /\
  length (o_bases o') = length (o_bases o) /\
  (forall i, i <> d -> nth i (o_bases o') dflt_basis = nth i (o_bases o) dflt_basis) /\
  (forall j, @kn R NumR (b_knots (nth d (o_bases o') dflt_basis)) j = a + e - @kn R NumR k (length k - 1 - j)) /\
  o_dim o' = o_dim o /\ o_rat o' = o_rat o.
Proof.
  rewrite rp_nth_bases. destruct (Nat.eq_dec d d) as [_|N]; [|congruence].
  split; [exact rpk_start|]. split; [exact rpk_end|].
  split; [reflexivity|]. split; [reflexivity|]. split; [exact rp_nfun|]. split; [exact rp_len_bases|].
  split; [intros i Hi; rewrite rp_nth_bases; destruct (Nat.eq_dec i d); [congruence|reflexivity]|].
  split; [intros j; cbn [b_knots]; apply rpk_kn|].
  rewrite rp_obj. split; reflexivity.
Qed.

Lemma rp_shape : @o_shape R o' = @o_shape R o.
Proof.
  rewrite rp_obj. unfold o_shape. cbn [o_bases]. rewrite upd_map, rp_nfun.
  rewrite <- (map_nth (@b_nfun R) (o_bases o) dflt_basis d).
  rewrite (nth_indep _ _ 0%nat) by (rewrite map_length; exact Hd). apply upd_same_id.
Qed.

Theorem reverse_periodic_wf : wf_obj_R tol o'.
Proof.
  destruct Hwf as (HB & HV & HL). destruct rp_bd_wf as (HK & Hp & Hlen & Hn & Hw).
  split; [|split].
  - apply Forall_forall. intros b Hb. destruct (In_nth _ _ dflt_basis Hb) as (i & Hi & <-). rewrite rp_len_bases in Hi.
    rewrite rp_nth_bases. destruct (Nat.eq_dec i d) as [->|_].
    + split; [exact rpk_sorted|]. split; [exact Hp|]. split; [cbn [b_knots b_order]; rewrite rknots_length; exact Hlen|].
      split; [rewrite rp_nfun; exact Hn|].
      rewrite rpk_start, rpk_end. exact Hw.
    + rewrite Forall_forall in HB. apply HB, nth_In, Hi.
  - replace (@o_ncomp R o') with (@o_ncomp R o) by (rewrite rp_obj; reflexivity).
    rewrite rp_obj. cbn [o_cps]. apply Forall_apply_dir. exact HV.
  - rewrite rp_shape. rewrite rp_obj. cbn [o_cps].
    rewrite length_apply_dir; [|unfold o_shape; rewrite map_length; exact Hd|exact HL|exact (cd_pos tol o Hwf)].
    rewrite rev_matrix_len_per. f_equal. unfold o_shape.
    rewrite <- (map_nth (@b_nfun R) (o_bases o) dflt_basis d).
    rewrite (nth_indep _ _ 0%nat) by (rewrite map_length; exact Hd). apply upd_same_id.
Qed.

(* ---------- evaluation, generic step: the d-th rows are the wrapped images of N and rev N ---------- *)
Section Eval.
Hypothesis Hper : (0 < per1)%nat.
Variables ts ts2 : list R.
Hypothesis Hdom : forall i, (i < length (o_bases o))%nat -> in_dom tol (nth i (o_bases o) dflt_basis) (nth i ts 0).
Hypothesis Hts2o : forall i, i <> d -> nth i ts2 0 = nth i ts 0.
Variable N : list R.
Hypothesis HN : length N = (n + per1)%nat.
Hypothesis Hrow : @basis_row R NumR tol bd 0 true (@snap1 R NumR k tol (nth d ts 0)) = wrapl n N.
Hypothesis Hrow' : @basis_row R NumR tol b' 0 true (@snap1 R NumR k' tol (nth d ts2 0)) = wrapl n (rev N).

Lemma rp_dom_new : forall i, (i < length (o_bases o'))%nat -> in_dom tol (nth i (o_bases o') dflt_basis) (nth i ts2 0).
Proof.
  intros i Hi. rewrite rp_len_bases in Hi. rewrite rp_nth_bases. destruct (Nat.eq_dec i d) as [->|Hne].
  - intros Z. cbn [b_per1] in Z. lia.
  - rewrite Hts2o by exact Hne. apply Hdom. exact Hi.
Qed.

Local Notation ts' := (map (fun i => @snap1 R NumR (b_knots (nth i (o_bases o) dflt_basis)) tol (nth i ts 0)) (seq 0 (length (o_bases o)))).
Local Notation ts2' := (map (fun i => @snap1 R NumR (b_knots (nth i (o_bases o') dflt_basis)) tol (nth i ts2 0)) (seq 0 (length (o_bases o')))).
Local Notation rows := (@rows_at R NumR tol (o_bases o) [] [] ts').
Local Notation rows' := (@rows_at R NumR tol (o_bases o') [] [] ts2').

Lemma rp_ts'_nth i : (i < length (o_bases o))%nat -> nth i ts' 0 = @snap1 R NumR (b_knots (nth i (o_bases o) dflt_basis)) tol (nth i ts 0).
Proof. intros Hi. rewrite (nth_map_gen _ _ i 0 0%nat) by (rewrite seq_length; exact Hi). rewrite seq_nth by exact Hi. reflexivity. Qed.
Lemma rp_ts2'_nth i : (i < length (o_bases o))%nat -> nth i ts2' 0 = @snap1 R NumR (b_knots (nth i (o_bases o') dflt_basis)) tol (nth i ts2 0).
Proof. intros Hi. rewrite (nth_map_gen _ _ i 0 0%nat) by (rewrite seq_length, rp_len_bases; exact Hi). rewrite seq_nth by (rewrite rp_len_bases; exact Hi). reflexivity. Qed.

Lemma rp_row_d : nth d rows [] = wrapl n N.
Proof. rewrite rows_at_nth by exact Hd. rewrite !nth_nil_any. rewrite rp_ts'_nth by exact Hd. exact Hrow. Qed.

Lemma rp_rows' : rows' = upd rows d (wrapl n (rev N)).
Proof.
  apply (nth_ext _ _ [] []).
  - rewrite upd_length, !rows_at_length. exact rp_len_bases.
  - intros i Hi. rewrite rows_at_length, rp_len_bases in Hi.
    rewrite rows_at_nth by (rewrite rp_len_bases; exact Hi). rewrite !nth_nil_any. rewrite rp_ts2'_nth by exact Hi.
    rewrite rp_nth_bases. destruct (Nat.eq_dec i d) as [->|Hne].
    + rewrite upd_nth_same by (rewrite rows_at_length; exact Hd). cbn [b_knots]. exact Hrow'.
    + rewrite upd_nth_other by exact Hne. rewrite rows_at_nth by exact Hi. rewrite !nth_nil_any.
      rewrite rp_ts'_nth by exact Hi. rewrite Hts2o by exact Hne. reflexivity.
Qed.

Theorem reverse_periodic_eval_gen : @obj_eval R NumR tol o' ts2 = @obj_eval R NumR tol o ts.
Proof.
  unfold obj_eval.
  destruct (validate_spec tol (o_bases o) ts) as [V1 _]. rewrite (V1 Hdom).
  destruct (validate_spec tol (o_bases o') ts2) as [V2 _]. rewrite (V2 rp_dom_new).
  replace (o_rat o') with (o_rat o) by (rewrite rp_obj; reflexivity).
  replace (o_dim o') with (o_dim o) by (rewrite rp_obj; reflexivity).
  assert (EH : @eval_h R NumR tol o' [] [] ts2' = @eval_h R NumR tol o [] [] ts').
  { unfold eval_h. rewrite rp_rows'.
    replace (@o_ncomp R o') with (@o_ncomp R o) by (rewrite rp_obj; reflexivity).
    replace (o_cps o') with (@apply_dir R NumR (@o_ncomp R o) (@o_shape R o) d (@rev_matrix R NumR n per1) (o_cps o))
      by (rewrite rp_obj; reflexivity).
    destruct Hwf as (HB & HV & HL). destruct rp_bd_wf as (_ & _ & _ & Hn & _).
    assert (Hnet : net_ok (@o_ncomp R o) rows (o_cps o)) by (split; [exact HV|rewrite cd_shape_rows; exact HL]).
    assert (Hpos : (0 < prodl (map (@length R) rows))%nat) by (rewrite cd_shape_rows; exact (cd_pos tol o Hwf)).
    assert (Hdr : (d < length rows)%nat) by (rewrite rows_at_length; exact Hd).
    rewrite <- (cd_shape_rows tol o ts').
    assert (RR : row_rel (nth d rows []) (wrapl n (rev N)) (@rev_matrix R NumR n per1)).
    { rewrite rp_row_d. apply wrap_rev_rel; [exact Hn|exact HN]. }
    assert (Hnet' : net_ok (@o_ncomp R o) (upd rows d (wrapl n (rev N)))
                      (@apply_dir R NumR (@o_ncomp R o) (map (@length R) rows) d (@rev_matrix R NumR n per1) (o_cps o))).
    { destruct Hnet as [Hv Hl]. split; [apply Forall_apply_dir; exact Hv|].
      rewrite length_apply_dir; [| rewrite map_length; exact Hdr | exact Hl | exact Hpos ].
      f_equal. rewrite rev_matrix_len_per, upd_map_length, wrapl_length. reflexivity. }
    apply (nth_ext _ _ 0 0).
    - rewrite (teval_length _ _ _ Hnet'), (teval_length _ _ _ Hnet). reflexivity.
    - intros c Hc. rewrite (teval_length _ _ _ Hnet') in Hc.
      apply (preserves_map_of_row_rel (@o_ncomp R o) c rows d (o_cps o) _ _ Hdr Hc Hnet Hpos RR). }
  rewrite EH. reflexivity.
Qed.
End Eval.
End RevPerObj.

Lemma basis_row_eta tol (b : basis R) t :
  @basis_row R NumR tol b 0 true t = @basis_row R NumR tol (mkBasis (b_order b) (b_knots b) (b_per1 b)) 0 true t.
Proof. destruct b; reflexivity. Qed.

(* C06, periodic direction d, parameter of the base period [a, e]; hypothesis rev_ok exactly as in the non-periodic case
   (the seam a / e is always a "good" knot value: the two one-sided rules of evaluate compensate each other) *)
Theorem reverse_periodic_eval tol (o : obj R) d ts ts2 :
  0 < tol -> wf_obj_R tol o -> (d < length (o_bases o))%nat ->
  let bd := nth d (o_bases o) dflt_basis in
  let a := @b_start R NumR bd in let e := @b_end R NumR bd in
  (0 < b_per1 bd)%nat ->
  (forall i, (i < length (o_bases o))%nat -> in_dom tol (nth i (o_bases o) dflt_basis) (nth i ts 0)) ->
  a <= nth d ts 0 <= e ->
  rev_ok (b_knots bd) (b_order bd) tol (nth d ts 0) ->
  nth d ts2 0 = a + e - nth d ts 0 ->
  (forall i, i <> d -> nth i ts2 0 = nth i ts 0) ->
  @obj_eval R NumR tol (@obj_reverse R NumR o d) ts2 = @obj_eval R NumR tol o ts.
Proof.
  intros Htol Hwf Hd bd a e Hper Hdom Hbase HC Hts2d Hts2o.
  destruct (bd_wf tol o Hwf d Hd) as (HK & Hp & Hlen & Hn & Hw). fold bd in HK, Hp, Hlen, Hn, Hw.
  unfold b_start, b_end in Hw. unfold a, e, b_start, b_end in Hbase, Hts2d.
  set (k := b_knots bd) in *. set (p := b_order bd) in *. set (td := nth d ts 0) in *.
  set (s := @snap1 R NumR k tol td).
  assert (Hin : @kn R NumR k (p - 1) <= s <= @kn R NumR k (length k - p)).
  { apply (snap1_between k _ _ tol td (a_in k p Hp Hlen) (e_in k p Hp Hlen) Htol Hbase HK). }
  assert (Hin2 : @kn R NumR k (p - 1) <= @snap1 R NumR k tol s <= @kn R NumR k (length k - p)).
  { unfold s. rewrite snap1_idem by assumption. exact Hin. }
  pose (N := @basis_row R NumR tol (mkBasis p k 0) 0 true s).
  apply (reverse_periodic_eval_gen tol Htol o Hwf d Hd Hper ts ts2 Hdom Hts2o N).
  - unfold N. rewrite (basis_row_nonper_Brow tol k p s HK Hp Hlen Htol Hw Hin2).
    unfold b_nfun in *. unfold k, p. fold bd. lia.
  - fold bd k td s. rewrite basis_row_eta. fold k p.
    exact (basis_row_per_wrap tol k p (b_per1 bd) s HK Hp Hlen Htol Hw Hin2).
  - fold bd k p. rewrite Hts2d. unfold b_start, b_end. fold k p td.
    set (k' := rknots (@kn R NumR k (p - 1)) (@kn R NumR k (length k - p)) k).
    set (s' := @snap1 R NumR k' tol (@kn R NumR k (p - 1) + @kn R NumR k (length k - p) - td)).
    assert (HK' : sorted (@kn R NumR k')) by exact (rk_sorted k p tol HK Hp Hlen Hw).
    assert (Hlen' : (2 * p <= length k')%nat) by (unfold k'; rewrite rknots_length; exact Hlen).
    assert (Es : @kn R NumR k' (p - 1) = @kn R NumR k (p - 1)) by exact (rk_start k p tol HK Hp Hlen Hw).
    assert (Ee : @kn R NumR k' (length k' - p) = @kn R NumR k (length k - p)) by exact (rk_end k p tol HK Hp Hlen Hw).
    assert (Hin' : @kn R NumR k' (p - 1) <= @snap1 R NumR k' tol s' <= @kn R NumR k' (length k' - p)).
    { unfold s'. rewrite snap1_idem by assumption. rewrite Es, Ee.
      exact (snap_rev_dom k p tol HK Hp Hlen Htol Hw td HC Hin). }
    rewrite (basis_row_per_wrap tol k' p (b_per1 bd) s' HK' Hp Hlen' Htol ltac:(rewrite Es, Ee; exact Hw) Hin').
    unfold k' at 1. rewrite rknots_length. unfold b_nfun. fold k p. f_equal.
    exact (basis_row_reverse k p tol HK Hp Hlen Htol Hw td HC Hin).
Qed.

(* the parameter tuple written with [upd] *)
Theorem reverse_periodic_eval_upd tol (o : obj R) d ts :
  0 < tol -> wf_obj_R tol o -> (d < length (o_bases o))%nat -> (d < length ts)%nat ->
  let bd := nth d (o_bases o) dflt_basis in
  let a := @b_start R NumR bd in let e := @b_end R NumR bd in
  (0 < b_per1 bd)%nat ->
  (forall i, (i < length (o_bases o))%nat -> in_dom tol (nth i (o_bases o) dflt_basis) (nth i ts 0)) ->
  a <= nth d ts 0 <= e ->
  rev_ok (b_knots bd) (b_order bd) tol (nth d ts 0) ->
  @obj_eval R NumR tol (@obj_reverse R NumR o d) (upd ts d (a + e - nth d ts 0)) = @obj_eval R NumR tol o ts.
Proof.
  intros Htol Hwf Hd Hdt bd a e Hper Hdom Hbase HC.
  apply (reverse_periodic_eval tol o d ts _ Htol Hwf Hd Hper Hdom Hbase HC).
  - apply upd_nth_same. exact Hdt.
  - intros i Hi. apply upd_nth_other. exact Hi.
Qed.

(* the only knots the parameter may be near to are the two ends of the base period (the seam) *)
Theorem reverse_periodic_eval_clear tol (o : obj R) d ts :
  0 < tol -> wf_obj_R tol o -> (d < length (o_bases o))%nat -> (d < length ts)%nat ->
  let bd := nth d (o_bases o) dflt_basis in
  let a := @b_start R NumR bd in let e := @b_end R NumR bd in
  (0 < b_per1 bd)%nat ->
  (forall i, (i < length (o_bases o))%nat -> in_dom tol (nth i (o_bases o) dflt_basis) (nth i ts 0)) ->
  a <= nth d ts 0 <= e ->
  (forall v, In v (b_knots bd) -> tol <= Rabs (v - nth d ts 0) \/ v = a \/ v = e) ->
  @obj_eval R NumR tol (@obj_reverse R NumR o d) (upd ts d (a + e - nth d ts 0)) = @obj_eval R NumR tol o ts.
Proof.
  intros Htol Hwf Hd Hdt bd a e Hper Hdom Hbase HC.
  destruct (bd_wf tol o Hwf d Hd) as (HK & Hp & Hlen & Hn & Hw).
  apply (reverse_periodic_eval_upd tol o d ts Htol Hwf Hd Hdt Hper Hdom Hbase).
  apply (rev_clear_ok _ _ tol Htol Hw). exact HC.
Qed.

(* the parameter at distance >= tol from every knot of direction d *)
Theorem reverse_periodic_eval_interior tol (o : obj R) d ts :
  0 < tol -> wf_obj_R tol o -> (d < length (o_bases o))%nat -> (d < length ts)%nat ->
  let bd := nth d (o_bases o) dflt_basis in
  let a := @b_start R NumR bd in let e := @b_end R NumR bd in
  (0 < b_per1 bd)%nat ->
  (forall i, (i < length (o_bases o))%nat -> in_dom tol (nth i (o_bases o) dflt_basis) (nth i ts 0)) ->
  a <= nth d ts 0 <= e ->
  (forall v, In v (b_knots bd) -> tol <= Rabs (v - nth d ts 0)) ->
  @obj_eval R NumR tol (@obj_reverse R NumR o d) (upd ts d (a + e - nth d ts 0)) = @obj_eval R NumR tol o ts.
Proof.
  intros Htol Hwf Hd Hdt bd a e Hper Hdom Hbase HF.
  apply (reverse_periodic_eval_clear tol o d ts Htol Hwf Hd Hdt Hper Hdom Hbase). intros v Hv. left. apply HF, Hv.
Qed.

(* the seam: the old object at the end e (evaluate: from the left) is the new object at the start a (from the right),
   and the old object at a is the new object at e *)
Theorem reverse_periodic_eval_end tol (o : obj R) d ts :
  0 < tol -> wf_obj_R tol o -> (d < length (o_bases o))%nat -> (d < length ts)%nat ->
  let bd := nth d (o_bases o) dflt_basis in
  let a := @b_start R NumR bd in let e := @b_end R NumR bd in
  (0 < b_per1 bd)%nat ->
  (forall i, (i < length (o_bases o))%nat -> in_dom tol (nth i (o_bases o) dflt_basis) (nth i ts 0)) ->
  nth d ts 0 = e ->
  (forall v, In v (b_knots bd) -> v <> a -> v <> e -> tol <= Rabs (v - e)) ->
  @obj_eval R NumR tol (@obj_reverse R NumR o d) (upd ts d a) = @obj_eval R NumR tol o ts.
Proof.
  intros Htol Hwf Hd Hdt bd a e Hper Hdom Ht HF.
  pose proof (rp_ae tol Htol o Hwf d Hd) as Hae. fold bd a e in Hae.
  replace a with (a + e - nth d ts 0) at 1 by (rewrite Ht; ring).
  apply (reverse_periodic_eval_clear tol o d ts Htol Hwf Hd Hdt Hper Hdom); [fold bd a e; rewrite Ht; lra|].
  intros v Hv. rewrite Ht. destruct (Req_dec v a) as [Q|Q]; [right; left; exact Q|].
  destruct (Req_dec v e) as [Q2|Q2]; [right; right; exact Q2|]. left. apply HF; assumption.
Qed.

Theorem reverse_periodic_eval_start tol (o : obj R) d ts :
  0 < tol -> wf_obj_R tol o -> (d < length (o_bases o))%nat -> (d < length ts)%nat ->
  let bd := nth d (o_bases o) dflt_basis in
  let a := @b_start R NumR bd in let e := @b_end R NumR bd in
  (0 < b_per1 bd)%nat ->
  (forall i, (i < length (o_bases o))%nat -> in_dom tol (nth i (o_bases o) dflt_basis) (nth i ts 0)) ->
  nth d ts 0 = a ->
  (forall v, In v (b_knots bd) -> v <> a -> v <> e -> tol <= Rabs (v - a)) ->
  @obj_eval R NumR tol (@obj_reverse R NumR o d) (upd ts d e) = @obj_eval R NumR tol o ts.
Proof.
  intros Htol Hwf Hd Hdt bd a e Hper Hdom Ht HF.
  pose proof (rp_ae tol Htol o Hwf d Hd) as Hae. fold bd a e in Hae.
  replace e with (a + e - nth d ts 0) at 1 by (rewrite Ht; ring).
  apply (reverse_periodic_eval_clear tol o d ts Htol Hwf Hd Hdt Hper Hdom); [fold bd a e; rewrite Ht; lra|].
  intros v Hv. rewrite Ht. destruct (Req_dec v a) as [Q|Q]; [right; left; exact Q|].
  destruct (Req_dec v e) as [Q2|Q2]; [right; right; exact Q2|]. left. apply HF; assumption.
Qed.

(* exactly at an interior knot x = K(m+1) of multiplicity r <= degree, all other knot values at distance >= tol *)
Theorem reverse_periodic_eval_knot tol (o : obj R) d ts m r :
  0 < tol -> wf_obj_R tol o -> (d < length (o_bases o))%nat -> (d < length ts)%nat ->
  let bd := nth d (o_bases o) dflt_basis in
  let a := @b_start R NumR bd in let e := @b_end R NumR bd in
  let K := @kn R NumR (b_knots bd) in
  (0 < b_per1 bd)%nat ->
  (forall i, (i < length (o_bases o))%nat -> in_dom tol (nth i (o_bases o) dflt_basis) (nth i ts 0)) ->
  (1 <= r)%nat -> (r <= b_order bd - 1)%nat -> (b_order bd - 1 <= m)%nat ->
  K m < K (S m) -> K (S m) = K (m + r)%nat -> K (m + r)%nat < K (S (m + r)) ->
  a <= K (S m) <= e ->
  nth d ts 0 = K (S m) ->
  (forall v, In v (b_knots bd) -> v = K (S m) \/ tol <= Rabs (v - K (S m))) ->
  @obj_eval R NumR tol (@obj_reverse R NumR o d) (upd ts d (a + e - K (S m))) = @obj_eval R NumR tol o ts.
Proof.
  intros Htol Hwf Hd Hdt bd a e K Hper Hdom Hr Hrq Hqm Hlo Heq Hhi Hbase Ht HF.
  destruct (bd_wf tol o Hwf d Hd) as (HK & Hp & Hlen & Hn & Hw).
  rewrite <- Ht.
  apply (reverse_periodic_eval_upd tol o d ts Htol Hwf Hd Hdt Hper Hdom); [fold bd a e; rewrite Ht; exact Hbase|].
  intros v Hv. rewrite Ht. destruct (HF v Hv) as [Q|F]; [right|left; exact F].
  split.
  - right. right. rewrite Q. apply (cont_at_mult (b_knots bd) (b_order bd) m r HK Hr Hrq Hqm Hlo Heq Hhi).
  - intros u Hu. destruct (HF u Hu) as [Qu|Fu]; [left; rewrite Qu, Q; reflexivity|right; exact Fu].
Qed.

(* ---------- any real parameter: t = t0 + z (e - a) with t0 strictly inside the base period ---------- *)
Lemma snap1_far (k : list R) tol t : sorted (@kn R NumR k) -> 0 < tol ->
  (forall v, In v k -> tol <= Rabs (v - t)) -> @snap1 R NumR k tol t = t.
Proof.
  intros HK Htol HF. destruct (snap1_spec k HK tol Htol t) as [(i & Hi & _ & N)|[E _]]; cbv zeta in *; [|exact E].
  exfalso. pose proof (HF _ (kn_In' k i Hi)). lra.
Qed.

Lemma Brow_side_any (k : list R) p t0 : k <> [] ->
  (forall v, In v k -> v <> t0) \/ cont_at k p t0 ->
  forall s1 s2, Brow s1 k p t0 = Brow s2 k p t0.
Proof.
  intros Hne HC.
  assert (E : Brow true k p t0 = Brow false k p t0).
  { apply (nth_ext _ _ 0 0); [rewrite !Brow_length; reflexivity|].
    intros i Hi. rewrite Brow_length in Hi. rewrite !Brow_nth' by exact Hi.
    destruct HC as [HC|HC]; [|apply HC; exact Hi].
    apply B_side_indep. intros j. apply HC. apply kn_In_any. exact Hne. }
  intros [|] [|]; first [reflexivity | exact E | symmetry; exact E].
Qed.

(* The raw parameter t is NOT snapped (it is at distance >= tol from every knot of the list); evaluate wraps it to
   t0 = t - z (e - a) in the open base period and evaluates there from the right (from the left within tol of e).
   The reversed object wraps a+e-t to a+e-t0.  t0 itself is never snapped, so it may be an interior knot value:
   then the basis functions must be continuous there (cont_at), otherwise t0 must not be a knot value. *)
Theorem reverse_periodic_eval_wrapped tol (o : obj R) d ts ts2 (t0 : R) (z : Z) :
  0 < tol -> wf_obj_R tol o -> (d < length (o_bases o))%nat ->
  let bd := nth d (o_bases o) dflt_basis in
  let a := @b_start R NumR bd in let e := @b_end R NumR bd in
  (0 < b_per1 bd)%nat ->
  (forall i, (i < length (o_bases o))%nat -> in_dom tol (nth i (o_bases o) dflt_basis) (nth i ts 0)) ->
  nth d ts 0 = t0 + IZR z * (e - a) -> a < t0 < e ->
  (forall v, In v (b_knots bd) -> tol <= Rabs (v - nth d ts 0)) ->
  ((forall v, In v (b_knots bd) -> v <> t0) \/ cont_at (b_knots bd) (b_order bd) t0) ->
  nth d ts2 0 = a + e - nth d ts 0 ->
  (forall i, i <> d -> nth i ts2 0 = nth i ts 0) ->
  @obj_eval R NumR tol (@obj_reverse R NumR o d) ts2 = @obj_eval R NumR tol o ts.
Proof.
  intros Htol Hwf Hd bd a e Hper Hdom Htd Ht0 HF HC Hts2d Hts2o.
  destruct (bd_wf tol o Hwf d Hd) as (HK & Hp & Hlen & Hn & Hw). fold bd in HK, Hp, Hlen, Hn, Hw.
  unfold b_start, b_end in Hw. unfold a, e, b_start, b_end in Htd, Ht0, Hts2d.
  set (k := b_knots bd) in *. set (p := b_order bd) in *. set (td := nth d ts 0) in *.
  assert (Hne : k <> []) by (destruct k; [cbn in Hlen; lia|discriminate]).
  set (A := @kn R NumR k (p - 1)) in *. set (E := @kn R NumR k (length k - p)) in *.
  pose (side := if Rltb (Rabs (t0 - E)) tol then false else true).
  pose (N := Brow side k p t0).
  assert (Esn : @snap1 R NumR k tol td = td) by (apply snap1_far; assumption).
  apply (reverse_periodic_eval_gen tol Htol o Hwf d Hd Hper ts ts2 Hdom Hts2o N).
  - unfold N. rewrite Brow_length. unfold b_nfun in *. unfold k, p. fold bd. lia.
  - fold bd k td. rewrite Esn. rewrite basis_row_eta. fold k p.
    rewrite (basis_row_per tol k p (b_per1 bd) td HK Hp Hlen Htol). rewrite Esn, Htd.
    pose proof (wrap_invariance k p (b_per1 bd) tol true t0 z Hper Ht0) as WI. cbv zeta in WI. fold A E in WI. rewrite WI.
    rewrite (normalise_per_true k p (b_per1 bd) tol t0) by (fold A E; lra).
    rewrite (normalise_nonper_true k p tol t0 Htol Hw) by (fold A E; lra).
    fold E side. unfold N. apply ref_row_wrapl.
  - fold bd k p. rewrite Hts2d. unfold b_start, b_end. fold k p A E td.
    set (k' := rknots A E k).
    assert (HK' : sorted (@kn R NumR k')) by exact (rk_sorted k p tol HK Hp Hlen Hw).
    assert (Hlen' : (2 * p <= length k')%nat) by (unfold k'; rewrite rknots_length; exact Hlen).
    assert (Es : @kn R NumR k' (p - 1) = A) by exact (rk_start k p tol HK Hp Hlen Hw).
    assert (Ee : @kn R NumR k' (length k' - p) = E) by exact (rk_end k p tol HK Hp Hlen Hw).
    assert (Esn' : @snap1 R NumR k' tol (A + E - td) = A + E - td).
    { apply snap1_far; [exact HK'|exact Htol|]. intros v Hv.
      apply (rk_in k p) in Hv. fold A E in Hv. destruct Hv as (u & Hu & ->).
      replace (A + E - u - (A + E - td)) with (- (u - td)) by ring. rewrite Rabs_Ropp. apply HF. exact Hu. }
    rewrite Esn'. rewrite (basis_row_per tol k' p (b_per1 bd) _ HK' Hp Hlen' Htol). rewrite Esn'.
    replace (A + E - td) with ((A + E - t0) + IZR (- z) * (@kn R NumR k' (length k' - p) - @kn R NumR k' (p - 1)))
      by (rewrite Es, Ee, Htd, opp_IZR; ring).
    rewrite (wrap_invariance k' p (b_per1 bd) tol true (A + E - t0) (- z) Hper) by (rewrite Es, Ee; lra).
    rewrite (normalise_per_true k' p (b_per1 bd) tol (A + E - t0)) by (rewrite Es, Ee; lra).
    rewrite (normalise_nonper_true k' p tol (A + E - t0) Htol) by (rewrite Es, Ee; lra).
    rewrite ref_row_wrapl. unfold k' at 1. rewrite rknots_length. unfold b_nfun. fold k p. f_equal.
    unfold k', A, E. rewrite (Brow_rev k p tol HK Hp Hlen Hw). f_equal. unfold N.
    apply Brow_side_any; assumption.
Qed.

(* ------------------------------------------------------------------------------------------------ *)
(* involution                                                                                       *)
(* ------------------------------------------------------------------------------------------------ *)
Definition sg_row (per1 : nat) (N : list R) : list R := map (fun r => nth (sg (length N) per1 r) N 0) (seq 0 (length N)).

Lemma sg_row_length per1 N : length (sg_row per1 N) = length N.
Proof. unfold sg_row. rewrite map_length, seq_length. reflexivity. Qed.

Lemma sg_row_nth per1 N r : (r < length N)%nat -> nth r (sg_row per1 N) 0 = nth (sg (length N) per1 r) N 0.
Proof.
  intros Hr. unfold sg_row. rewrite (nth_map_gen _ _ r 0 0%nat) by (rewrite seq_length; exact Hr).
  rewrite seq_nth by exact Hr. reflexivity.
Qed.

(* matrix level: the permutation of rev_matrix n per1 is an involution on rows *)
Lemma sg_row_rel per1 (N : list R) : (0 < length N)%nat ->
  row_rel N (sg_row per1 N) (@rev_matrix R NumR (length N) per1) /\
  row_rel (sg_row per1 N) N (@rev_matrix R NumR (length N) per1).
Proof.
  intros Hn. split.
  - apply row_rel_sg; [exact Hn|reflexivity|apply sg_row_length|].
    intros j Hj. rewrite sg_row_nth by (apply sg_lt; exact Hn). rewrite sg_invol by assumption. reflexivity.
  - apply row_rel_sg; [exact Hn|apply sg_row_length|reflexivity|].
    intros j Hj. apply sg_row_nth. exact Hj.
Qed.

(* applying the matrix of reverse twice along a direction restores the control net (any per1) *)
Theorem apply_rev_per_twice dim (shape : list nat) d per1 (cps : list (list R)) :
  (d < length shape)%nat -> Forall (fun v => length v = dim) cps -> length cps = prodl shape -> (0 < prodl shape)%nat ->
  (0 < nth d shape 0)%nat ->
  let M := @rev_matrix R NumR (nth d shape 0%nat) per1 in
  @apply_dir R NumR dim shape d M (@apply_dir R NumR dim shape d M cps) = cps.
Proof.
  intros Hd HV HL Hpos Hnd M.
  set (cps1 := @apply_dir R NumR dim shape d M cps). set (cps2 := @apply_dir R NumR dim shape d M cps1).
  assert (Eshape : @upd nat shape d (length M) = shape).
  { unfold M. rewrite rev_matrix_len_per. apply upd_same_id. }
  assert (HV1 : Forall (fun v => length v = dim) cps1) by (apply Forall_apply_dir; exact HV).
  assert (HL1 : length cps1 = prodl shape).
  { unfold cps1. rewrite length_apply_dir by assumption. rewrite Eshape. reflexivity. }
  assert (HV2 : Forall (fun v => length v = dim) cps2) by (apply Forall_apply_dir; exact HV1).
  assert (HL2 : length cps2 = prodl shape).
  { unfold cps2. rewrite length_apply_dir by assumption. rewrite Eshape. reflexivity. }
  assert (Key : forall c, (c < dim)%nat -> forall idx, (idx < prodl shape)%nat -> cnet dim c cps2 idx = cnet dim c cps idx).
  { intros c Hc. apply tsum_sep. intros rows Hsh.
    assert (Hdr : (d < length rows)%nat) by (rewrite <- (map_length (@length R)), Hsh; exact Hd).
    set (N := nth d rows []).
    assert (EN : length N = nth d shape 0%nat).
    { unfold N. rewrite <- Hsh. rewrite (nth_map_gen _ _ d 0%nat []) by exact Hdr. reflexivity. }
    destruct (sg_row_rel per1 N ltac:(rewrite EN; exact Hnd)) as [RR1 RR2]. rewrite EN in RR1, RR2. fold M in RR1, RR2.
    set (rows1 := upd rows d (sg_row per1 N)).
    assert (Hsh1 : map (@length R) rows1 = shape).
    { unfold rows1. rewrite upd_map_length, sg_row_length, Hsh, EN. apply upd_same_id. }
    assert (Hnet : net_ok dim rows cps) by (split; [exact HV|rewrite Hsh; exact HL]).
    assert (Hnet1 : net_ok dim rows1 cps1) by (split; [exact HV1|rewrite Hsh1; exact HL1]).
    assert (E1 : tsum rows1 (cnet dim c cps1) = tsum rows (cnet dim c cps)).
    { unfold rows1, cps1. rewrite <- Hsh at 1.
      apply (tsum_apply_dir dim c M rows d (sg_row per1 N) cps Hdr Hc Hnet ltac:(rewrite Hsh; exact Hpos)). exact RR1. }
    assert (E2 : tsum (upd rows1 d N) (cnet dim c cps2) = tsum rows1 (cnet dim c cps1)).
    { unfold cps2. rewrite <- Hsh1 at 1.
      apply (tsum_apply_dir dim c M rows1 d N cps1 ltac:(unfold rows1; rewrite upd_length; exact Hdr) Hc Hnet1 ltac:(rewrite Hsh1; exact Hpos)).
      unfold rows1. rewrite upd_nth_same by exact Hdr. exact RR2. }
    unfold rows1 in E2 at 1. rewrite upd_upd in E2. unfold N in E2 at 1. rewrite upd_same_id in E2.
    rewrite E2. exact E1. }
  apply (nth_ext _ _ (@vzero R NumR dim) (@vzero R NumR dim)); [rewrite HL2; symmetry; exact HL|].
  intros idx Hidx. fold cps2 in Hidx. rewrite HL2 in Hidx.
  assert (L2 : length (nth idx cps2 (@vzero R NumR dim)) = dim).
  { rewrite Forall_forall in HV2. apply HV2, nth_In. lia. }
  assert (L0 : length (nth idx cps (@vzero R NumR dim)) = dim).
  { rewrite Forall_forall in HV. apply HV, nth_In. lia. }
  apply (nth_ext _ _ 0 0); [lia|]. intros c Hc. rewrite L2 in Hc.
  apply (Key c Hc idx Hidx).
Qed.

(* C06: reverse is an involution on the object itself (bases, control net, everything), periodic direction or not *)
Theorem reverse_periodic_involution tol (o : obj R) d :
  0 < tol -> wf_obj_R tol o -> (d < length (o_bases o))%nat ->
  @obj_reverse R NumR (@obj_reverse R NumR o d) d = o.
Proof.
  intros Htol Hwf Hd.
  destruct (bd_wf tol o Hwf d Hd) as (HK & Hp & Hlen & Hn & Hw).
  pose proof (rp_ae tol Htol o Hwf d Hd) as Hae.
  set (o1 := @obj_reverse R NumR o d).
  assert (E1 : nth d (o_bases o1) (mkBasis 0 [] 0) = @basis_reverse R NumR (nth d (o_bases o) dflt_basis)).
  { unfold o1, obj_reverse. cbv zeta. cbn [o_bases]. change (mkBasis 0 [] 0) with dflt_basis. apply upd_nth_same. exact Hd. }
  unfold obj_reverse at 1. cbv zeta. rewrite E1.
  rewrite (reverse_involution_basis _ Hp ltac:(lia) Hae).
  assert (Enf : @b_nfun R (@basis_reverse R NumR (nth d (o_bases o) dflt_basis)) = @b_nfun R (nth d (o_bases o) dflt_basis)).
  { unfold b_nfun, basis_reverse. cbn [b_knots b_order b_per1]. rewrite map_length, rev_length. reflexivity. }
  assert (Eper : b_per1 (@basis_reverse R NumR (nth d (o_bases o) dflt_basis)) = b_per1 (nth d (o_bases o) dflt_basis)) by reflexivity.
  rewrite Enf, Eper.
  assert (Esh : @o_shape R o1 = @o_shape R o) by (apply (rp_shape tol Htol o Hwf d Hd)).
  rewrite Esh.
  assert (Eb : upd (o_bases o1) d (nth d (o_bases o) dflt_basis) = o_bases o).
  { unfold o1, obj_reverse. cbv zeta. cbn [o_bases]. rewrite upd_upd. apply upd_same_id. }
  rewrite Eb.
  assert (Ec : @apply_dir R NumR (@o_ncomp R o1) (@o_shape R o) d
                 (@rev_matrix R NumR (@b_nfun R (nth d (o_bases o) dflt_basis)) (b_per1 (nth d (o_bases o) dflt_basis))) (o_cps o1) = o_cps o).
  { unfold o1, obj_reverse. cbv zeta. cbn [o_cps]. change (mkBasis 0 [] 0) with dflt_basis.
    match goal with |- @apply_dir _ _ ?nc _ _ _ _ = _ => change nc with (@o_ncomp R o) end.
    pose proof Hwf as (HB & HV & HL).
    assert (Enth : @b_nfun R (nth d (o_bases o) dflt_basis) = nth d (@o_shape R o) 0%nat).
    { unfold o_shape. rewrite (nth_map_gen _ _ d 0%nat dflt_basis) by exact Hd. reflexivity. }
    rewrite Enth.
    apply (apply_rev_per_twice (@o_ncomp R o) (@o_shape R o) d _ (o_cps o)); [unfold o_shape; rewrite map_length; exact Hd|exact HV|exact HL| |].
    - apply (cd_pos tol o Hwf).
    - rewrite <- Enth. exact Hn. }
  rewrite Ec. unfold o1, obj_reverse. cbv zeta. cbn [o_dim o_rat]. destruct o; reflexivity.
Qed.

(* ------------------------------------------------------------------------------------------------ *)
(* Part 6: non-vacuity.  The cubic periodic basis of PeriodicInsert.v (order 4, 8 functions, continuity 2, knots       *)
(* -3 .. 11, base period [0, 8]) and a closed planar curve with 8 control points.                                      *)
(* ------------------------------------------------------------------------------------------------ *)
Definition ex_tol : R := 1 / 1000.
Definition ex_curve : obj R :=
  mkObj [mkBasis 4 ex_knots 3] [[2; 0]; [1; 1]; [0; 2]; [-1; 1]; [-2; 0]; [-1; -1]; [0; -2]; [1; -1]] 2 false.

Lemma ex_tol_pos : 0 < ex_tol. Proof. unfold ex_tol. lra. Qed.

Example ex_curve_wf : wf_obj_R ex_tol ex_curve.
Proof.
  split; [|split].
  - constructor; [|constructor]. split; [exact (proj1 ex_canon)|]. cbn [b_order b_knots ex_curve].
    split; [lia|]. split; [cbn; lia|]. split; [unfold b_nfun; cbn; lia|].
    unfold b_start, b_end, kn, ex_knots, ex_tol. cbn. lra.
  - unfold ex_curve. cbn [o_cps]. repeat constructor.
  - reflexivity.
Qed.

Example ex_curve_canon : per_canon (b_knots (nth 0 (o_bases ex_curve) dflt_basis)) 4 3 8 8 /\
  per_canon (b_knots (nth 0 (o_bases (@obj_reverse R NumR ex_curve 0)) dflt_basis)) 4 3 8 8.
Proof.
  split; [exact ex_canon|].
  destruct (basis_reverse_canon ex_knots 4 3 8 8 ex_canon) as (_ & _ & C & _). cbv zeta in C.
  unfold obj_reverse. cbn [o_bases ex_curve nth upd]. exact C.
Qed.

Lemma ex_in_dom ts : forall i, (i < length (o_bases ex_curve))%nat -> in_dom ex_tol (nth i (o_bases ex_curve) dflt_basis) (nth i ts 0).
Proof. intros i Hi Z. cbn in Hi. destruct i; [cbn in Z; lia|lia]. Qed.

Lemma ex_knots_cases v : In v ex_knots ->
  v = -3 \/ v = -2 \/ v = -1 \/ v = 0 \/ v = 1 \/ v = 2 \/ v = 3 \/ v = 4 \/ v = 5 \/ v = 6 \/ v = 7 \/ v = 8 \/ v = 9 \/ v = 10 \/ v = 11.
Proof. unfold ex_knots. cbn [In]. intros H. decompose [or] H; subst; tauto. Qed.

(* t = 5/2, strictly inside a knot span: the reversed curve at 0 + 8 - 5/2 *)
Example ex_reverse_interior :
  @obj_eval R NumR ex_tol (@obj_reverse R NumR ex_curve 0) [0 + 8 - 5/2] = @obj_eval R NumR ex_tol ex_curve [5/2].
Proof.
  apply (reverse_periodic_eval_interior ex_tol ex_curve 0 [5/2] ex_tol_pos ex_curve_wf ltac:(cbn; lia) ltac:(cbn; lia)
           ltac:(cbn; lia) (ex_in_dom _)).
  - unfold b_start, b_end, kn, ex_knots. cbn. lra.
  - intros v Hv. cbn [nth ex_curve o_bases b_knots] in Hv. apply ex_knots_cases in Hv. cbn [nth]. unfold ex_tol.
    decompose [or] Hv; subst; unfold Rabs; destruct (Rcase_abs _); lra.
Qed.

(* t = 0, the seam: the old curve at the start (from the right) is the reversed curve at the end 8 (from the left) *)
Example ex_reverse_seam :
  @obj_eval R NumR ex_tol (@obj_reverse R NumR ex_curve 0) [8] = @obj_eval R NumR ex_tol ex_curve [0].
Proof.
  apply (reverse_periodic_eval_start ex_tol ex_curve 0 [0] ex_tol_pos ex_curve_wf ltac:(cbn; lia) ltac:(cbn; lia)
           ltac:(cbn; lia) (ex_in_dom _)).
  - reflexivity.
  - intros v Hv Ha He. cbn [nth ex_curve o_bases b_knots] in Hv. apply ex_knots_cases in Hv.
    unfold b_start, b_end, kn, ex_knots in *. cbn in Ha, He |- *. unfold ex_tol.
    decompose [or] Hv; subst; try lra; unfold Rabs; destruct (Rcase_abs _); lra.
Qed.

(* t = 2, exactly an interior knot (multiplicity 1 <= degree 3) *)
Example ex_reverse_knot :
  @obj_eval R NumR ex_tol (@obj_reverse R NumR ex_curve 0) [0 + 8 - 2] = @obj_eval R NumR ex_tol ex_curve [2].
Proof.
  apply (reverse_periodic_eval_knot ex_tol ex_curve 0 [2] 4 1 ex_tol_pos ex_curve_wf ltac:(cbn; lia) ltac:(cbn; lia)
           ltac:(cbn; lia) (ex_in_dom _)); try (cbn; lia); try (unfold b_start, b_end, kn, ex_knots; cbn; lra).
  intros v Hv. cbn [nth ex_curve o_bases b_knots] in Hv. apply ex_knots_cases in Hv.
  unfold kn, ex_knots. cbn. unfold ex_tol.
  decompose [or] Hv; subst; try (left; reflexivity); right; unfold Rabs; destruct (Rcase_abs _); lra.
Qed.

(* t = 5/2 + 2 * 8, two periods away from the base period (not snapped, wrapped by evaluate) *)
Example ex_reverse_wrapped :
  @obj_eval R NumR ex_tol (@obj_reverse R NumR ex_curve 0) [0 + 8 - 37/2] = @obj_eval R NumR ex_tol ex_curve [37/2].
Proof.
  apply (reverse_periodic_eval_wrapped ex_tol ex_curve 0 [37/2] _ (5/2) 2 ex_tol_pos ex_curve_wf ltac:(cbn; lia)
           ltac:(cbn; lia) (ex_in_dom _)).
  - unfold b_start, b_end, kn, ex_knots. cbn. lra.
  - unfold b_start, b_end, kn, ex_knots. cbn. lra.
  - intros v Hv. cbn [nth ex_curve o_bases b_knots] in Hv. apply ex_knots_cases in Hv. cbn [nth]. unfold ex_tol.
    decompose [or] Hv; subst; unfold Rabs; destruct (Rcase_abs _); lra.
  - left. intros v Hv. cbn [nth ex_curve o_bases b_knots] in Hv. apply ex_knots_cases in Hv.
    decompose [or] Hv; subst; lra.
  - reflexivity.
  - intros i Hi. destruct i; [congruence|]. destruct i; reflexivity.
Qed.

Example ex_reverse_involution : @obj_reverse R NumR (@obj_reverse R NumR ex_curve 0) 0 = ex_curve.
Proof. exact (reverse_periodic_involution ex_tol ex_curve 0 ex_tol_pos ex_curve_wf ltac:(cbn; lia)). Qed.

