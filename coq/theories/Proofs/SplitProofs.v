(* C07: a piece cut out of the knot vector (knots a .. a+m+q, functions a .. a+m-1) evaluates, on its own
   domain [k(a+q), k(a+m)], to the original object: the slice of the control net along any direction of an
   object of any pardim, by the lifting lemma with the 0/1 slice matrix. *)
From Coq Require Import List Arith Reals Lra Lia Bool ZArith.
From SplipyModel Require Import Spec.BSpline Model.Num Model.BasisDef Model.Tensor Model.KnotInsert Model.Split
  Proofs.TensorLemmas Proofs.EvalConsequences Proofs.InsertMatrix Proofs.TensorApply.
Import ListNotations.
Open Scope R_scope.

Lemma B_shift_n side (k : nat -> R) a q : forall i t, B side (fun j => k (a + j)%nat) q i t = B side k q (a + i) t.
Proof.
  induction q as [|q IH]; intros i t; cbn [B].
  - replace (a + S i)%nat with (S (a + i)) by lia. reflexivity.
  - rewrite !IH. replace (a + (i + q + 1))%nat with (a + i + q + 1)%nat by lia.
    replace (a + (i + 1))%nat with (a + i + 1)%nat by lia. replace (a + (i + q + 2))%nat with (a + i + q + 2)%nat by lia.
    reflexivity.
Qed.

Lemma slice_matrix_entry n a len i j : (i < len)%nat -> (j < n)%nat ->
  nth j (nth i (@slice_matrix R NumR n a len) []) 0 = if (j =? a + i)%nat then 1 else 0.
Proof.
  intros Hi Hj. unfold slice_matrix.
  rewrite (nth_map_gen _ _ i [] 0%nat) by (rewrite seq_length; exact Hi). rewrite seq_nth by exact Hi.
  rewrite (nth_map_gen _ _ j 0 0%nat) by (rewrite seq_length; exact Hj). rewrite seq_nth by exact Hj. reflexivity.
Qed.

Section Piece.
Variable side : bool.
Variable k : nat -> R.
Hypothesis Hk : sorted k.
Variables (q n a m : nat) (t : R).
Hypothesis Ham : (a + m <= n)%nat.
(* t lies in the domain of the piece, on the side where a span exists *)
Hypothesis Ht : if side then k (a + q)%nat <= t < k (a + m)%nat else k (a + q)%nat < t <= k (a + m)%nat.

Definition Nfull : list R := map (fun j => B side k q j t) (seq 0 n).
Definition Npiece : list R := map (fun i => B side (fun j => k (a + j)%nat) q i t) (seq 0 m).

Lemma outside_piece_vanish j : (j < n)%nat -> ~ (a <= j < a + m)%nat -> B side k q j t = 0.
Proof.
  intros Hj Hn. apply B_support; [exact Hk|]. unfold outside.
  destruct (Nat.lt_ge_cases j a) as [L|L].
  - pose proof (Hk (j + q + 1)%nat (a + q)%nat ltac:(lia)). destruct side; right; lra.
  - pose proof (Hk (a + m)%nat j ltac:(lia)). destruct side; left; lra.
Qed.

(* restriction at basis level *)
Theorem row_rel_slice : row_rel Nfull Npiece (@slice_matrix R NumR n a m).
Proof.
  unfold row_rel, Nfull, Npiece. rewrite !map_length, !seq_length.
  split; [unfold slice_matrix; rewrite map_length, seq_length; reflexivity|]. split.
  - apply Forall_forall. intros row Hin. unfold slice_matrix in Hin. apply in_map_iff in Hin. destruct Hin as (r & <- & _).
    rewrite map_length, seq_length. reflexivity.
  - intros j Hj. rewrite (nth_map_gen _ _ j 0 0%nat) by (rewrite seq_length; exact Hj). rewrite seq_nth by exact Hj. cbn [Nat.add].
    rewrite (sumf_ext _ (fun i => if (j - a =? i)%nat then (if (a <=? j)%nat then B side k q j t else 0) else 0)).
    + destruct (Nat.lt_ge_cases (j - a) m) as [L|L].
      * rewrite sumf_indicator by lia. destruct (Nat.leb_spec a j); [reflexivity|].
        apply outside_piece_vanish; [exact Hj|lia].
      * rewrite sumf_zero.
        -- apply outside_piece_vanish; [exact Hj|lia].
        -- intros i Hi. destruct (Nat.eqb_spec (j - a) i); [lia|reflexivity].
    + intros i Hi. rewrite (nth_map_gen _ _ i 0 0%nat) by (rewrite seq_length; lia). rewrite seq_nth by lia. cbn [Nat.add].
      rewrite slice_matrix_entry by lia. rewrite B_shift_n.
      destruct (Nat.eqb_spec j (a + i)) as [E|E].
      * subst j. replace (a + i - a)%nat with i by lia. rewrite Nat.eqb_refl. destruct (Nat.leb_spec a (a + i)); [ring|lia].
      * destruct (Nat.eqb_spec (j - a) i) as [E2|E2]; [|ring]. destruct (Nat.leb_spec a j); [lia|ring].
Qed.

(* C07.2: the piece (net sliced along direction d, row of the piece's own basis) evaluates to the original *)
Theorem split_piece_is_restriction dim c (rows : list (list R)) d cps :
  (d < length rows)%nat -> (c < dim)%nat -> nth d rows [] = Nfull ->
  net_ok dim rows cps -> (0 < prodl (map (@length R) rows))%nat ->
  tsum (@upd (list R) rows d Npiece) (cnet dim c (@apply_dir R NumR dim (map (@length R) rows) d (@slice_matrix R NumR n a m) cps))
  = tsum rows (cnet dim c cps).
Proof.
  intros Hd Hc Hrow Hnet Hpos. apply tsum_apply_dir; try assumption. rewrite Hrow. apply row_rel_slice.
Qed.
End Piece.
