(* C06, end to end on the model's own functions: [obj_reparam_dir] followed by [obj_eval].

   The evaluator snaps parameters to knots and decides the end-point/side rule with an ABSOLUTE tolerance, and the
   real code uses the same tolerance before and after reparam.  An affine change of parameter x |-> al*x+be scales
   all distances by al, hence
     * with the tolerance scaled by al on the new object every decision of snap/normalise commutes with the map
       (snap1_affine, normalise_affine, basis_row_affine) -- no hypothesis on the parameter;
     * with the SAME tolerance on both sides the statement needs the parameter to be "clear" of the knots:
       equal to a knot value or at distance >= max(tol, tol/al) from it (knot_clear).
   Both formulations are proved for every parametric dimension and for periodic as well as non-periodic
   directions d (periodic directions with the parameter inside the base period in the clear-of-knots variants):
     reparam_dir_eval_scaled  (tolerance al*tol on the new object; directions other than d clear of knots),
     reparam_curve_eval       (pardim 1: no hypothesis on the parameter at all),
     reparam_dir_eval         (same tolerance; direction d clear of knots),
   together with reparam_dir_domain, reparam_dir_wf and reparam_dir_inverse. *)
From Coq Require Import List Arith Reals Lra Lia Bool ZArith.
From SplipyModel Require Import Spec.BSpline Spec.Reparam Spec.Deriv Model.Num Model.BasisDef Model.BasisEval Model.Tensor Model.Obj
  Model.KnotInsert Model.Reparam
  Proofs.Bridge Proofs.KnotList Proofs.SpanCorrect Proofs.EvaluateSpec Proofs.EvalConsequences Proofs.SnapSpec Proofs.SnapChar
  Proofs.TensorLemmas Proofs.ObjEval Proofs.InsertMatrix Proofs.TensorApply Proofs.InsertEndToEnd Proofs.ReparamObj.
Import ListNotations.
Open Scope R_scope.

(* ------------------------------------------------------------------------------------------------ *)
(* small generic facts *)
Lemma B_ext side (k1 k2 : nat -> R) q : (forall j, k1 j = k2 j) -> forall i t, B side k1 q i t = B side k2 q i t.
Proof.
  intros E. induction q as [|q IH]; intros i t; cbn [B].
  - rewrite !E. reflexivity.
  - rewrite !E, !IH. reflexivity.
Qed.

Lemma fold_left_ext' {A B} (g h : A -> B -> A) l : (forall a x, g a x = h a x) -> forall a, fold_left g l a = fold_left h l a.
Proof. intros E. induction l as [|x l IH]; intros a; cbn [fold_left]; [reflexivity|]. rewrite E. apply IH. Qed.

Lemma hd_nth0 {A} (l : list A) d : hd d l = nth 0 l d.
Proof. destruct l; reflexivity. Qed.

Lemma upd_upd_same {A} (l : list A) d v dflt : upd (upd l d v) d (nth d l dflt) = l.
Proof.
  revert d. induction l as [|a l IH]; intros d; [destruct d; reflexivity|].
  destruct d; cbn [upd nth]; [reflexivity|]. f_equal. apply IH.
Qed.

Lemma forall_or_exists (P : nat -> Prop) n : (forall i, (i < n)%nat -> P i \/ ~ P i) ->
  (forall i, (i < n)%nat -> P i) \/ (exists i, (i < n)%nat /\ ~ P i).
Proof.
  induction n as [|n IH]; intros D; [left; intros; lia|].
  destruct IH as [A|(i & Hi & N)]; [intros i Hi; apply D; lia| |right; exists i; split; [lia|exact N]].
  destruct (D n ltac:(lia)) as [Pn|Pn]; [|right; exists n; split; [lia|exact Pn]].
  left. intros i Hi. destruct (Nat.eq_dec i n) as [->|]; [exact Pn|apply A; lia].
Qed.

(* ------------------------------------------------------------------------------------------------ *)
(* 1./2.  snap, wrap and normalise commute with an increasing affine map when the tolerance is scaled *)
Section Affine.
Variables al be : R.
Hypothesis Hal : 0 < al.
Definition aff (x : R) : R := al * x + be.

Lemma Rltb_aff a b : Rltb (aff a) (aff b) = Rltb a b.
Proof. unfold aff. destruct (Rltb_spec a b), (Rltb_spec (al*a+be) (al*b+be)); try reflexivity; nra. Qed.

Lemma near_aff a b tol : Rltb (Rabs (aff a - aff b)) (al * tol) = Rltb (Rabs (a - b)) tol.
Proof.
  unfold aff. replace (al * a + be - (al * b + be)) with (al * (a - b)) by ring.
  rewrite Rabs_mult, (Rabs_right al) by lra.
  destruct (Rltb_spec (Rabs (a - b)) tol), (Rltb_spec (al * Rabs (a - b)) (al * tol)); try reflexivity; nra.
Qed.

Lemma bisect_left_f_aff fuel (K K' : nat -> R) v : (forall i, K' i = aff (K i)) -> forall lo hi,
  @bisect_left_f R NumR fuel K' (aff v) lo hi = @bisect_left_f R NumR fuel K v lo hi.
Proof.
  intros E. induction fuel as [|fuel IH]; intros lo hi; cbn [bisect_left_f]; [reflexivity|].
  destruct (lo <? hi)%nat; [|reflexivity]. cbv zeta. rewrite E. cbn [nltb NumR]. rewrite Rltb_aff.
  destruct (Rltb (K ((lo + hi) / 2)%nat) v); apply IH.
Qed.

Lemma kn_aff (k : list R) i : k <> [] -> @kn R NumR (map aff k) i = aff (@kn R NumR k i).
Proof. apply kn_map. Qed.

Lemma sorted_aff (k : list R) : k <> [] -> sorted (@kn R NumR k) -> sorted (@kn R NumR (map aff k)).
Proof. intros Hne HK i j Hij. rewrite !kn_aff by exact Hne. specialize (HK i j Hij). unfold aff. nra. Qed.

(* 1. snap(): no sortedness needed *)
Theorem snap1_affine (k : list R) tol t : k <> [] ->
  @snap1 R NumR (map aff k) (al * tol) (aff t) = aff (@snap1 R NumR k tol t).
Proof.
  intros Hne. unfold snap1. cbv zeta. rewrite map_length. unfold bisect_left.
  rewrite (bisect_left_f_aff _ (@kn R NumR k) (@kn R NumR (map aff k)) t) by (intros i; apply kn_aff; exact Hne).
  set (i := @bisect_left_f R NumR _ _ _ _ _).
  rewrite !kn_aff by exact Hne. rewrite !nabs_R. cbn [nltb nsub NumR]. rewrite !near_aff.
  destruct ((i <? length k)%nat && Rltb (Rabs (@kn R NumR k i - t)) tol); [reflexivity|].
  destruct ((0 <? i)%nat && Rltb (Rabs (@kn R NumR k (i - 1) - t)) tol); reflexivity.
Qed.

(* Python's float % commutes with a positive scaling of both arguments *)
Lemma nfmod_scale x y : y <> 0 -> @nfmod R NumR (al * x) (al * y) = al * @nfmod R NumR x y.
Proof.
  intros Hy. unfold nfmod. cbn [nsub nmul ndiv nofZ nfloor NumR].
  replace (al * x / (al * y)) with (x / y) by (field; split; lra). ring.
Qed.

Lemma wrap_t_affine st en tol per fr t : st < en ->
  @wrap_t R NumR (aff st) (aff en) (al * tol) per fr (aff t) = aff (@wrap_t R NumR st en tol per fr t).
Proof.
  intros Hse. unfold wrap_t. destruct per; [|reflexivity].
  cbn [nltb nadd nsub NumR]. rewrite !Rltb_aff.
  set (t1 := if Rltb t st || Rltb en t then @nfmod R NumR (t - st) (en - st) + st else t).
  assert (E : (if Rltb t st || Rltb en t then @nfmod R NumR (aff t - aff st) (aff en - aff st) + aff st else aff t) = aff t1).
  { unfold t1. destruct (Rltb t st || Rltb en t); [|reflexivity].
    replace (aff t - aff st) with (al * (t - st)) by (unfold aff; ring).
    replace (aff en - aff st) with (al * (en - st)) by (unfold aff; ring).
    rewrite nfmod_scale by lra. unfold aff. ring. }
  rewrite E. rewrite !nabs_R. cbn [nsub NumR]. rewrite near_aff.
  destruct (Rltb (Rabs (t1 - st)) tol && negb fr); reflexivity.
Qed.

(* 2. normalise (periodic and non-periodic) *)
Theorem normalise_affine (k : list R) p per1 tol fr t : k <> [] ->
  @kn R NumR k (p - 1) < @kn R NumR k (length k - p) ->
  @normalise R NumR (map aff k) p per1 (al * tol) fr (aff t) =
    match @normalise R NumR k p per1 tol fr t with None => None | Some (t', sd) => Some (aff t', sd) end.
Proof.
  intros Hne Hse. unfold normalise. cbv zeta. rewrite map_length, !kn_aff by exact Hne.
  rewrite wrap_t_affine by exact Hse.
  set (t1 := @wrap_t R NumR _ _ _ _ _ _).
  rewrite !nabs_R. cbn [nltb nsub NumR]. rewrite !near_aff, !Rltb_aff.
  destruct (Rltb t1 (@kn R NumR k (p - 1)) || Rltb (@kn R NumR k (length k - p)) t1
            || Rltb (Rabs (t1 - @kn R NumR k (p - 1))) tol
               && negb (if Rltb (Rabs (t1 - @kn R NumR k (length k - p))) tol then false else fr)); reflexivity.
Qed.

(* the row of reference values *)
Lemma ref_row_affine side (k : list R) p per1 t : k <> [] ->
  @ref_row R NumR side (map aff k) p per1 0 (aff t) = @ref_row R NumR side k p per1 0 t.
Proof.
  intros Hne. unfold ref_row. cbv zeta. rewrite map_length. apply map_ext. intros c.
  apply fold_left_ext'. intros a i. destruct (_ =? _)%nat; [|reflexivity]. f_equal.
  cbn [dBq]. rewrite !Bq_R.
  rewrite (B_ext side (@kn R NumR (map aff k)) (fun j => al * @kn R NumR k j + be)) by (intros j; apply kn_aff; exact Hne).
  apply reparam_basis. exact Hal.
Qed.

(* the model's row of basis values: tolerance al*tol on the mapped basis, tol on the old one *)
Theorem basis_row_affine (k : list R) p per1 tol t :
  sorted (@kn R NumR k) -> (1 <= p)%nat -> (2 * p <= length k)%nat -> 0 < tol ->
  @kn R NumR k (p - 1) < @kn R NumR k (length k - p) ->
  @basis_row R NumR (al * tol) (mkBasis p (map aff k) per1) 0 true (aff t) = @basis_row R NumR tol (mkBasis p k per1) 0 true t.
Proof.
  intros HK Hp Hlen Htol Hse.
  assert (Hne : k <> []) by (destruct k; [cbn in Hlen; lia|discriminate]).
  unfold basis_row. cbn [b_knots b_order b_per1]. rewrite !hd_nth0.
  rewrite (basis_evaluate_spec (map aff k) p per1 (sorted_aff k Hne HK) Hp ltac:(rewrite map_length; exact Hlen) (al * tol) ltac:(nra) 0 true [aff t] 0 ltac:(cbn; lia)).
  rewrite (basis_evaluate_spec k p per1 HK Hp Hlen tol Htol 0 true [t] 0 ltac:(cbn; lia)).
  cbv zeta. cbn [nth]. rewrite map_length.
  destruct (p <=? 0)%nat; [reflexivity|].
  rewrite snap1_affine by exact Hne. rewrite normalise_affine by assumption.
  destruct (@normalise R NumR k p per1 tol true (@snap1 R NumR k tol t)) as [[t' sd]|]; [|reflexivity].
  apply ref_row_affine. exact Hne.
Qed.
End Affine.

(* ------------------------------------------------------------------------------------------------ *)
(* parameters that are clear of the knots: every knot value is either hit exactly or at distance >= m *)
Definition knot_clear (k : list R) (m t : R) : Prop := forall v, In v k -> v = t \/ m <= Rabs (v - t).

Lemma knot_clear_le k m m' t : m' <= m -> knot_clear k m t -> knot_clear k m' t.
Proof. intros L H v Hv. destruct (H v Hv) as [E|E]; [left; exact E|right; lra]. Qed.

Lemma snap1_clear (k : list R) tol t : sorted (@kn R NumR k) -> 0 < tol -> knot_clear k tol t -> @snap1 R NumR k tol t = t.
Proof.
  intros HK Htol HC. destruct (snap1_spec k HK tol Htol t) as [(i & Hi & E & N)|[E _]]; cbv zeta in *; [|exact E].
  rewrite E. destruct (HC (@kn R NumR k i) (kn_In' k i Hi)) as [Q|Q]; [exact Q|lra].
Qed.

Lemma near_clear (k : list R) tol t v : 0 < tol -> knot_clear k tol t -> In v k ->
  Rltb (Rabs (t - v)) tol = Reqb t v.
Proof.
  intros Htol HC Hv. destruct (Reqb_spec t v) as [Q|Q].
  - rewrite Q. replace (v - v) with 0 by ring. rewrite Rabs_R0. destruct (Rltb_spec 0 tol); [reflexivity|lra].
  - destruct (HC v Hv) as [E|E]; [congruence|]. rewrite Rabs_minus_sym in E.
    destruct (Rltb_spec (Rabs (t - v)) tol); [lra|reflexivity].
Qed.

(* the (parameter, side) decision does not depend on the tolerance at such a parameter
   (periodic directions: parameter inside the base period, so that no wrapping takes place) *)
Lemma normalise_clear (k : list R) p per1 tol1 tol2 t :
  (1 <= p)%nat -> (2 * p <= length k)%nat -> 0 < tol1 -> 0 < tol2 ->
  knot_clear k tol1 t -> knot_clear k tol2 t ->
  (per1 <> 0%nat -> @kn R NumR k (p - 1) <= t <= @kn R NumR k (length k - p)) ->
  @normalise R NumR k p per1 tol1 true t = @normalise R NumR k p per1 tol2 true t.
Proof.
  intros Hp Hlen H1 H2 C1 C2 Hin. unfold normalise. cbv zeta.
  set (st := @kn R NumR k (p - 1)) in *. set (en := @kn R NumR k (length k - p)) in *.
  assert (Ist : In st k) by (apply kn_In'; lia). assert (Ien : In en k) by (apply kn_In'; lia).
  assert (W : forall tol, @wrap_t R NumR st en tol (negb (per1 =? 0)%nat) true t = t).
  { intros tol. unfold wrap_t. destruct (Nat.eqb_spec per1 0) as [E|E]; cbn [negb]; [reflexivity|].
    specialize (Hin E). cbn [nltb NumR]. rewrite andb_false_r.
    destruct (Rltb_spec t st); [lra|]. destruct (Rltb_spec en t); [lra|]. reflexivity. }
  rewrite !W. rewrite !nabs_R. cbn [nltb nsub NumR].
  rewrite (near_clear k tol1 t st H1 C1 Ist), (near_clear k tol2 t st H2 C2 Ist).
  rewrite (near_clear k tol1 t en H1 C1 Ien), (near_clear k tol2 t en H2 C2 Ien). reflexivity.
Qed.

Lemma basis_row_clear (k : list R) p per1 tol1 tol2 t :
  sorted (@kn R NumR k) -> (1 <= p)%nat -> (2 * p <= length k)%nat -> 0 < tol1 -> 0 < tol2 ->
  knot_clear k tol1 t -> knot_clear k tol2 t ->
  (per1 <> 0%nat -> @kn R NumR k (p - 1) <= t <= @kn R NumR k (length k - p)) ->
  @basis_row R NumR tol1 (mkBasis p k per1) 0 true t = @basis_row R NumR tol2 (mkBasis p k per1) 0 true t.
Proof.
  intros HK Hp Hlen H1 H2 C1 C2 Hin. unfold basis_row. cbn [b_knots b_order b_per1]. rewrite !hd_nth0.
  rewrite (basis_evaluate_spec k p per1 HK Hp Hlen tol1 H1 0 true [t] 0 ltac:(cbn; lia)).
  rewrite (basis_evaluate_spec k p per1 HK Hp Hlen tol2 H2 0 true [t] 0 ltac:(cbn; lia)).
  cbv zeta. cbn [nth]. rewrite !snap1_clear by assumption.
  rewrite (normalise_clear k p per1 tol1 tol2 t) by assumption. reflexivity.
Qed.

(* clearance is transported by the affine map, the distance scaled by al *)
Lemma knot_clear_aff al be (k : list R) m t : 0 < al -> knot_clear k m t -> knot_clear (map (aff al be) k) (al * m) (aff al be t).
Proof.
  intros Hal HC v' Hv'. apply in_map_iff in Hv'. destruct Hv' as (v & <- & Hv).
  destruct (HC v Hv) as [E|E]; [left; rewrite E; reflexivity|right].
  unfold aff. replace (al * v + be - (al * t + be)) with (al * (v - t)) by ring.
  rewrite Rabs_mult, (Rabs_right al) by lra. nra.
Qed.

(* ------------------------------------------------------------------------------------------------ *)
(* plumbing: two objects with the same control net whose rows of basis values agree direction by direction (and whose
   domain tests agree) evaluate to the same result -- the same point, or ValueError on both sides *)
Section Plumb.
Variables tol tol' : R.
Variables bs bs' : list (basis R).
Hypothesis Hlen : length bs' = length bs.
Variable cps : list (list R).
Variable dim : nat.
Variable rat : bool.
Variables ts ts' : list R.
Hypothesis Hdomiff : forall i, (i < length bs)%nat ->
  (in_dom tol' (nth i bs' dflt_basis) (nth i ts' 0) <-> in_dom tol (nth i bs dflt_basis) (nth i ts 0)).
Hypothesis Hrow : forall i, (i < length bs)%nat -> in_dom tol (nth i bs dflt_basis) (nth i ts 0) ->
  @basis_row R NumR tol' (nth i bs' dflt_basis) 0 true (@snap1 R NumR (b_knots (nth i bs' dflt_basis)) tol' (nth i ts' 0))
  = @basis_row R NumR tol (nth i bs dflt_basis) 0 true (@snap1 R NumR (b_knots (nth i bs dflt_basis)) tol (nth i ts 0)).

Theorem eval_rows_same : @obj_eval R NumR tol' (mkObj bs' cps dim rat) ts' = @obj_eval R NumR tol (mkObj bs cps dim rat) ts.
Proof.
  unfold obj_eval. cbn [o_bases o_rat o_dim].
  destruct (forall_or_exists (fun i => in_dom tol (nth i bs dflt_basis) (nth i ts 0)) (length bs)
              ltac:(intros i _; apply in_dom_dec)) as [Hall|(i & Hi & Hn)].
  - destruct (validate_spec tol bs ts) as [V1 _]. rewrite (V1 Hall).
    destruct (validate_spec tol' bs' ts') as [V2 _]. rewrite V2 by (rewrite Hlen; intros i Hi; apply Hdomiff; [exact Hi|apply Hall; exact Hi]).
    f_equal.
    assert (EH : forall X Y, @rows_at R NumR tol' bs' [] [] X = @rows_at R NumR tol bs [] [] Y ->
               @eval_h R NumR tol' (mkObj bs' cps dim rat) [] [] X = @eval_h R NumR tol (mkObj bs cps dim rat) [] [] Y).
    { intros X Y E. unfold eval_h. cbn [o_bases o_cps]. rewrite E. reflexivity. }
    rewrite (EH _ (map (fun i => @snap1 R NumR (b_knots (nth i bs dflt_basis)) tol (nth i ts 0)) (seq 0 (length bs)))); [reflexivity|].
    apply (nth_ext _ _ [] []); [rewrite !rows_at_length; exact Hlen|].
    intros i Hi. rewrite rows_at_length, Hlen in Hi.
    rewrite rows_at_nth by (rewrite Hlen; exact Hi). rewrite rows_at_nth by exact Hi. rewrite !nth_nil_any.
    rewrite (nth_map_gen _ _ i 0 0%nat) by (rewrite seq_length, Hlen; exact Hi). rewrite seq_nth by (rewrite Hlen; exact Hi).
    rewrite (nth_map_gen _ _ i 0 0%nat) by (rewrite seq_length; exact Hi). rewrite seq_nth by exact Hi. cbn [Nat.add].
    apply Hrow; [exact Hi|apply Hall; exact Hi].
  - destruct (validate_spec tol bs ts) as [_ V1]. rewrite V1 by (exists i; split; assumption).
    destruct (validate_spec tol' bs' ts') as [_ V2]. rewrite V2; [reflexivity|].
    exists i. split; [rewrite Hlen; exact Hi|]. intros H. apply Hn. apply Hdomiff; assumption.
Qed.
End Plumb.

(* ------------------------------------------------------------------------------------------------ *)
(* the result of reparam, in closed form *)
Definition rp_al (b : basis R) (s e : R) : R := (e - s) / (@b_end R NumR b - @b_start R NumR b).
Definition rp_map (b : basis R) (s e : R) : R -> R := aff (rp_al b s e) (s - rp_al b s e * @b_start R NumR b).
Definition rp_basis (b : basis R) (s e : R) : basis R := mkBasis (b_order b) (map (rp_map b s e) (b_knots b)) (b_per1 b).
Definition rp_obj (o : obj R) (d : nat) (s e : R) : obj R :=
  mkObj (upd (o_bases o) d (rp_basis (nth d (o_bases o) dflt_basis) s e)) (o_cps o) (o_dim o) (o_rat o).

Lemma rp_map_eq b s e x : rp_map b s e x = rp_al b s e * (x - @b_start R NumR b) + s.
Proof. unfold rp_map, aff. ring. Qed.

Lemma rp_al_pos b s e : @b_start R NumR b < @b_end R NumR b -> s < e -> 0 < rp_al b s e.
Proof. intros H1 H2. unfold rp_al. apply Rdiv_lt_0_compat; lra. Qed.

Lemma basis_eta (b : basis R) : b = mkBasis (b_order b) (b_knots b) (b_per1 b).
Proof. destruct b; reflexivity. Qed.

Section Basis.
Variable b : basis R.
Hypothesis Hne : b_knots b <> [].
Local Notation st := (@b_start R NumR b).
Local Notation en := (@b_end R NumR b).
Hypothesis Hdom : st < en.
Variables s e : R.
Hypothesis Hse : s < e.

(* the four successive maps of BSplineBasis.reparam compose to rp_map *)
Lemma basis_reparam_ok : @basis_reparam R NumR b s e = Ok (rp_basis b s e).
Proof.
  unfold basis_reparam. cbn [nleb NumR]. destruct (Rleb_spec e s) as [A|A]; [lra|]. cbv zeta.
  unfold basis_shift. cbn [b_order b_per1 b_knots].
  assert (E1 : @b_end R NumR (mkBasis (b_order b) (map (fun x => @nsub R NumR x st) (b_knots b)) (b_per1 b)) = en - st).
  { unfold b_end. cbn [b_order b_knots]. rewrite map_length. rewrite kn_map by exact Hne. reflexivity. }
  rewrite E1. unfold rp_basis. do 2 f_equal. rewrite !map_map. apply map_ext. intros x.
  cbn [nadd nsub nmul ndiv NumR]. rewrite rp_map_eq. unfold rp_al. field. lra.
Qed.

Lemma rp_start : @b_start R NumR (rp_basis b s e) = s.
Proof.
  unfold b_start at 1. cbn [rp_basis b_order b_knots]. unfold rp_map. rewrite kn_aff by exact Hne.
  fold (@b_start R NumR b). unfold aff. ring.
Qed.
Lemma rp_end : @b_end R NumR (rp_basis b s e) = e.
Proof.
  unfold b_end at 1. cbn [rp_basis b_order b_knots]. rewrite map_length. unfold rp_map. rewrite kn_aff by exact Hne.
  fold (@b_end R NumR b). unfold aff, rp_al. field. lra.
Qed.

(* 4. reparametrising back to the old interval restores the basis exactly (on R) *)
Theorem reparam_inverse : @basis_reparam R NumR (rp_basis b s e) st en = Ok b.
Proof.
  assert (Hne' : b_knots (rp_basis b s e) <> []) by (cbn [rp_basis b_knots]; apply map_nonempty; exact Hne).
  assert (Hdom' : @b_start R NumR (rp_basis b s e) < @b_end R NumR (rp_basis b s e)) by (rewrite rp_start, rp_end; exact Hse).
  unfold basis_reparam. cbn [nleb NumR]. destruct (Rleb_spec en st) as [A|A]; [lra|]. cbv zeta.
  unfold basis_shift. cbn [b_order b_per1 b_knots].
  assert (E1 : forall x0, @b_end R NumR (mkBasis (b_order (rp_basis b s e)) (map (fun x => @nsub R NumR x x0) (b_knots (rp_basis b s e))) (b_per1 (rp_basis b s e)))
               = @b_end R NumR (rp_basis b s e) - x0).
  { intros x0. unfold b_end at 1. cbn [b_order b_knots]. rewrite map_length. rewrite kn_map by exact Hne'. reflexivity. }
  rewrite E1. rewrite rp_start, rp_end.
  cbn [rp_basis b_order b_knots b_per1]. rewrite !map_map.
  symmetry. rewrite (basis_eta b) at 1. symmetry. do 2 f_equal.
  rewrite <- (map_id (b_knots b)) at 2. apply map_ext. intros x.
  cbn [nadd nsub nmul ndiv NumR]. rewrite rp_map_eq. unfold rp_al. field. split; lra.
Qed.
End Basis.

(* ------------------------------------------------------------------------------------------------ *)
(* one direction: domain test and row of basis values before and after reparam *)
Section Dir.
Variable tol : R.
Hypothesis Htol : 0 < tol.
Variable b : basis R.
Hypothesis Hwfb : wf_basis_R tol b.
Variables s e : R.
Hypothesis Hse : s < e.
Local Notation st := (@b_start R NumR b).
Local Notation en := (@b_end R NumR b).
Local Notation al := (rp_al b s e).
Local Notation b' := (rp_basis b s e).

Lemma dir_ne : b_knots b <> [].
Proof. destruct Hwfb as (_ & Hp & Hlen & _). destruct (b_knots b); [cbn in Hlen; lia|discriminate]. Qed.
Lemma dir_dom : st < en.
Proof. destruct Hwfb as (_ & _ & _ & _ & Hw). lra. Qed.
Lemma dir_al : 0 < al.
Proof. apply rp_al_pos; [exact dir_dom|exact Hse]. Qed.

Lemma dir_interval x : (s <= rp_map b s e x <= e) <-> (st <= x <= en).
Proof.
  pose proof dir_al as Hal. pose proof dir_dom as Hd.
  assert (Ee : al * (en - st) = e - s) by (unfold rp_al; field; lra).
  rewrite rp_map_eq. set (a := al) in *. split; intros [A B]; split; nra.
Qed.

Lemma in_dom_rp tol1 tol2 x y : @snap1 R NumR (b_knots b') tol1 (rp_map b s e x) = rp_map b s e y -> @snap1 R NumR (b_knots b) tol2 x = y ->
  (in_dom tol1 b' (rp_map b s e x) <-> in_dom tol2 b x).
Proof.
  intros E1 E2. unfold in_dom. rewrite (rp_start b dir_ne), (rp_end b dir_ne dir_dom), E1, E2. cbn [rp_basis b_per1].
  split; intros H P; apply dir_interval; apply H; exact P.
Qed.

(* scaled tolerance: no hypothesis on the parameter *)
Lemma dir_scaled t :
  (in_dom (al * tol) b' (rp_map b s e t) <-> in_dom tol b t) /\
  @basis_row R NumR (al * tol) b' 0 true (@snap1 R NumR (b_knots b') (al * tol) (rp_map b s e t))
  = @basis_row R NumR tol b 0 true (@snap1 R NumR (b_knots b) tol t).
Proof.
  pose proof dir_al as Hal. pose proof dir_dom as Hd. pose proof dir_ne as Hne.
  destruct Hwfb as (HK & Hp & Hlen & Hn & Hw).
  assert (ES : @snap1 R NumR (b_knots b') (al * tol) (rp_map b s e t) = rp_map b s e (@snap1 R NumR (b_knots b) tol t)).
  { cbn [rp_basis b_knots]. unfold rp_map. apply snap1_affine; assumption. }
  split; [apply (in_dom_rp _ _ _ _ ES eq_refl)|].
  rewrite ES. rewrite (basis_eta b) at 3. unfold rp_basis, rp_map. apply basis_row_affine; assumption.
Qed.

(* same tolerance: the parameter must be clear of the knots, by max(tol, tol/al) *)
Lemma dir_same t : knot_clear (b_knots b) (Rmax tol (tol / al)) t -> (b_per1 b <> 0%nat -> st <= t <= en) ->
  (in_dom tol b' (rp_map b s e t) <-> in_dom tol b t) /\
  @basis_row R NumR tol b' 0 true (@snap1 R NumR (b_knots b') tol (rp_map b s e t))
  = @basis_row R NumR tol b 0 true (@snap1 R NumR (b_knots b) tol t).
Proof.
  intros HC Hin.
  pose proof dir_al as Hal. pose proof dir_dom as Hd. pose proof dir_ne as Hne.
  destruct Hwfb as (HK & Hp & Hlen & Hn & Hw).
  assert (C1 : knot_clear (b_knots b) tol t) by (apply (knot_clear_le _ _ _ _ (Rmax_l _ _) HC)).
  assert (C2 : knot_clear (b_knots b) (tol / al) t) by (apply (knot_clear_le _ _ _ _ (Rmax_r _ _) HC)).
  assert (C1' : knot_clear (b_knots b') (al * tol) (rp_map b s e t)) by (apply knot_clear_aff; assumption).
  assert (C2' : knot_clear (b_knots b') tol (rp_map b s e t)).
  { replace tol with (al * (tol / al)) at 1 by (field; lra). apply knot_clear_aff; assumption. }
  assert (HK' : sorted (@kn R NumR (b_knots b'))) by (apply sorted_aff; assumption).
  assert (ES : @snap1 R NumR (b_knots b) tol t = t) by (apply snap1_clear; assumption).
  assert (ES' : @snap1 R NumR (b_knots b') tol (rp_map b s e t) = rp_map b s e t) by (apply snap1_clear; assumption).
  split; [apply (in_dom_rp _ _ _ _ ES' ES)|].
  rewrite ES, ES'.
  transitivity (@basis_row R NumR (al * tol) b' 0 true (rp_map b s e t)).
  - unfold rp_basis. apply basis_row_clear; try assumption.
    + rewrite map_length. exact Hlen.
    + nra.
    + intros P. rewrite map_length. unfold rp_map. rewrite !kn_aff by exact Hne. specialize (Hin P).
      unfold b_start, b_end in Hin. unfold aff. nra.
  - rewrite (basis_eta b) at 3. unfold rp_basis, rp_map. apply basis_row_affine; assumption.
Qed.
End Dir.

(* ------------------------------------------------------------------------------------------------ *)
(* 3. object level *)
Lemma obj_eta (o : obj R) : o = mkObj (o_bases o) (o_cps o) (o_dim o) (o_rat o).
Proof. destruct o; reflexivity. Qed.

Section ObjLevel.
Variable tol : R.
Hypothesis Htol : 0 < tol.
Variable o : obj R.
Hypothesis Hwf : wf_obj_R tol o.
Variable d : nat.
Hypothesis Hd : (d < length (o_bases o))%nat.
Variables s e : R.
Hypothesis Hse : s < e.
Local Notation bd := (nth d (o_bases o) dflt_basis).
Local Notation al := (rp_al bd s e).
Local Notation o' := (rp_obj o d s e).

Lemma ol_wfb i : (i < length (o_bases o))%nat -> wf_basis_R tol (nth i (o_bases o) dflt_basis).
Proof. intros Hi. exact (bd_wf tol o Hwf i Hi). Qed.

Lemma ol_nth i : nth i (o_bases o') dflt_basis = if Nat.eq_dec i d then rp_basis bd s e else nth i (o_bases o) dflt_basis.
Proof. cbn [rp_obj o_bases]. destruct (Nat.eq_dec i d) as [->|Hne]; [apply upd_nth_same; exact Hd|apply upd_nth_other; exact Hne]. Qed.

(* reparam succeeds and returns the closed form *)
Theorem obj_reparam_dir_ok : @obj_reparam_dir R NumR o d s e = Ok o'.
Proof.
  unfold obj_reparam_dir. change (@mkBasis R 0 [] 0) with dflt_basis.
  rewrite (basis_reparam_ok bd (dir_ne tol bd (ol_wfb d Hd)) (dir_dom tol Htol bd (ol_wfb d Hd)) s e Hse). reflexivity.
Qed.

(* a direction that is not touched: changing the tolerance is harmless at parameters clear of its knots *)
Lemma other_dir tol2 (b : basis R) t : 0 < tol2 -> wf_basis_R tol b ->
  knot_clear (b_knots b) (Rmax tol tol2) t -> (b_per1 b <> 0%nat -> @b_start R NumR b <= t <= @b_end R NumR b) ->
  (in_dom tol2 b t <-> in_dom tol b t) /\
  @basis_row R NumR tol2 b 0 true (@snap1 R NumR (b_knots b) tol2 t) = @basis_row R NumR tol b 0 true (@snap1 R NumR (b_knots b) tol t).
Proof.
  intros H2 (HK & Hp & Hlen & Hn & Hw) HC Hin.
  assert (C1 : knot_clear (b_knots b) tol t) by (apply (knot_clear_le _ _ _ _ (Rmax_l _ _) HC)).
  assert (C2 : knot_clear (b_knots b) tol2 t) by (apply (knot_clear_le _ _ _ _ (Rmax_r _ _) HC)).
  assert (E1 : @snap1 R NumR (b_knots b) tol t = t) by (apply snap1_clear; assumption).
  assert (E2 : @snap1 R NumR (b_knots b) tol2 t = t) by (apply snap1_clear; assumption).
  split; [unfold in_dom; rewrite E1, E2; reflexivity|].
  rewrite E1, E2. rewrite (basis_eta b). cbn [b_knots b_order b_per1] in *. apply basis_row_clear; assumption.
Qed.

(* 3a. tolerance scaled by al on the new object *)
Theorem eval_scaled ts ts' :
  nth d ts' 0 = rp_map bd s e (nth d ts 0) -> (forall i, i <> d -> nth i ts' 0 = nth i ts 0) ->
  (forall i, (i < length (o_bases o))%nat -> i <> d ->
     knot_clear (b_knots (nth i (o_bases o) dflt_basis)) (Rmax tol (al * tol)) (nth i ts 0) /\
     (b_per1 (nth i (o_bases o) dflt_basis) <> 0%nat ->
        @b_start R NumR (nth i (o_bases o) dflt_basis) <= nth i ts 0 <= @b_end R NumR (nth i (o_bases o) dflt_basis))) ->
  @obj_eval R NumR (al * tol) o' ts' = @obj_eval R NumR tol o ts.
Proof.
  intros Ed Eo Hoth.
  assert (Hal : 0 < al) by (apply (dir_al tol Htol bd (ol_wfb d Hd) s e Hse)).
  rewrite (obj_eta o) at 3. unfold rp_obj.
  assert (Each : forall i, (i < length (o_bases o))%nat ->
    (in_dom (al * tol) (nth i (o_bases o') dflt_basis) (nth i ts' 0) <-> in_dom tol (nth i (o_bases o) dflt_basis) (nth i ts 0)) /\
    @basis_row R NumR (al * tol) (nth i (o_bases o') dflt_basis) 0 true (@snap1 R NumR (b_knots (nth i (o_bases o') dflt_basis)) (al * tol) (nth i ts' 0))
    = @basis_row R NumR tol (nth i (o_bases o) dflt_basis) 0 true (@snap1 R NumR (b_knots (nth i (o_bases o) dflt_basis)) tol (nth i ts 0))).
  { intros i Hi. rewrite ol_nth. destruct (Nat.eq_dec i d) as [->|Hne].
    - rewrite Ed. apply (dir_scaled tol Htol bd (ol_wfb d Hd) s e Hse).
    - rewrite (Eo i Hne). destruct (Hoth i Hi Hne) as [HC Hin].
      apply other_dir; [nra|apply ol_wfb; exact Hi|exact HC|exact Hin]. }
  apply eval_rows_same.
  - apply upd_length.
  - intros i Hi. apply (Each i Hi).
  - intros i Hi _. apply (Each i Hi).
Qed.

(* 3b. the same tolerance on both sides: direction d clear of its knots *)
Theorem eval_same ts ts' :
  nth d ts' 0 = rp_map bd s e (nth d ts 0) -> (forall i, i <> d -> nth i ts' 0 = nth i ts 0) ->
  knot_clear (b_knots bd) (Rmax tol (tol / al)) (nth d ts 0) ->
  (b_per1 bd <> 0%nat -> @b_start R NumR bd <= nth d ts 0 <= @b_end R NumR bd) ->
  @obj_eval R NumR tol o' ts' = @obj_eval R NumR tol o ts.
Proof.
  intros Ed Eo HC Hin.
  rewrite (obj_eta o) at 2. unfold rp_obj.
  assert (Each : forall i, (i < length (o_bases o))%nat ->
    (in_dom tol (nth i (o_bases o') dflt_basis) (nth i ts' 0) <-> in_dom tol (nth i (o_bases o) dflt_basis) (nth i ts 0)) /\
    @basis_row R NumR tol (nth i (o_bases o') dflt_basis) 0 true (@snap1 R NumR (b_knots (nth i (o_bases o') dflt_basis)) tol (nth i ts' 0))
    = @basis_row R NumR tol (nth i (o_bases o) dflt_basis) 0 true (@snap1 R NumR (b_knots (nth i (o_bases o) dflt_basis)) tol (nth i ts 0))).
  { intros i Hi. rewrite ol_nth. destruct (Nat.eq_dec i d) as [->|Hne].
    - rewrite Ed. apply (dir_same tol Htol bd (ol_wfb d Hd) s e Hse); assumption.
    - rewrite (Eo i Hne). split; reflexivity. }
  apply eval_rows_same.
  - apply upd_length.
  - intros i Hi. apply (Each i Hi).
  - intros i Hi _. apply (Each i Hi).
Qed.
End ObjLevel.

Section ObjStructure.
Variable tol : R.
Hypothesis Htol : 0 < tol.
Variable o : obj R.
Hypothesis Hwf : wf_obj_R tol o.
Variable d : nat.
Hypothesis Hd : (d < length (o_bases o))%nat.
Variables s e : R.
Hypothesis Hse : s < e.
Local Notation bd := (nth d (o_bases o) dflt_basis).
Local Notation o' := (rp_obj o d s e).

Lemma os_shape : @o_shape R o' = @o_shape R o.
Proof.
  unfold o_shape. cbn [rp_obj o_bases]. apply (nth_ext _ _ 0%nat 0%nat); [rewrite !map_length; apply upd_length|].
  intros i Hi. rewrite map_length, upd_length in Hi.
  rewrite (nth_map_gen _ _ i 0%nat dflt_basis) by (rewrite upd_length; exact Hi).
  rewrite (nth_map_gen _ _ i 0%nat dflt_basis) by exact Hi.
  pose proof (ol_nth o d Hd s e i) as E. cbn [rp_obj o_bases] in E. rewrite E.
  destruct (Nat.eq_dec i d) as [->|_]; [|reflexivity].
  unfold b_nfun. cbn [rp_basis b_knots b_order b_per1]. rewrite map_length. reflexivity.
Qed.

(* well-formedness w.r.t. a tolerance tol' (the domain of every direction must be at least 2*tol' wide) *)
Theorem rp_wf tol' :
  (forall i, (i < length (o_bases o))%nat -> i <> d ->
     2 * tol' <= @b_end R NumR (nth i (o_bases o) dflt_basis) - @b_start R NumR (nth i (o_bases o) dflt_basis)) ->
  2 * tol' <= e - s -> wf_obj_R tol' o'.
Proof.
  intros Hoth Hw'. pose proof Hwf as (HB & HV & HL). split; [|split].
  - apply Forall_forall. intros b Hb. destruct (In_nth _ _ dflt_basis Hb) as (i & Hi & <-).
    cbn [rp_obj o_bases] in Hi. rewrite upd_length in Hi. rewrite (ol_nth o d Hd s e i).
    pose proof (ol_wfb tol o Hwf i Hi) as Wi.
    destruct (Nat.eq_dec i d) as [->|Hne].
    + pose proof (dir_ne tol bd Wi) as Hne. pose proof (dir_dom tol Htol bd Wi) as Hdm.
      pose proof (dir_al tol Htol bd Wi s e Hse) as Hal.
      destruct Wi as (HK & Hp & Hlen & Hn & Hw).
      split; [cbn [rp_basis b_knots]; unfold rp_map; apply sorted_aff; assumption|].
      split; [exact Hp|]. split; [cbn [rp_basis b_knots b_order]; rewrite map_length; exact Hlen|].
      split; [unfold b_nfun in *; cbn [rp_basis b_knots b_order b_per1]; rewrite map_length; exact Hn|].
      rewrite (rp_start bd Hne), (rp_end bd Hne Hdm). exact Hw'.
    + destruct Wi as (HK & Hp & Hlen & Hn & Hw). repeat split; try assumption. apply Hoth; assumption.
  - exact HV.
  - rewrite os_shape. exact HL.
Qed.
End ObjStructure.

(* ================================================================================================ *)
(* Final statements, about [obj_reparam_dir] and [obj_eval] themselves *)

Lemma reparam_dir_result tol (o : obj R) d s e o' :
  0 < tol -> wf_obj_R tol o -> (d < length (o_bases o))%nat -> s < e ->
  @obj_reparam_dir R NumR o d s e = Ok o' -> o' = rp_obj o d s e.
Proof. intros Htol Hwf Hd Hse E. rewrite (obj_reparam_dir_ok tol Htol o Hwf d Hd s e Hse) in E. congruence. Qed.

(* reparam raises exactly for an empty or reversed interval, and succeeds otherwise *)
Theorem reparam_dir_total tol (o : obj R) d s e :
  0 < tol -> wf_obj_R tol o -> (d < length (o_bases o))%nat ->
  (e <= s -> @obj_reparam_dir R NumR o d s e = Err ValueError) /\
  (s < e -> exists o', @obj_reparam_dir R NumR o d s e = Ok o').
Proof.
  intros Htol Hwf Hd. split.
  - intros H. unfold obj_reparam_dir, basis_reparam. cbn [nleb NumR]. destruct (Rleb_spec e s); [reflexivity|lra].
  - intros H. eexists. apply (obj_reparam_dir_ok tol Htol o Hwf d Hd s e H).
Qed.

(* the domain of direction d is exactly [s, e]; every knot is mapped by the affine map; nothing else changes *)
Theorem reparam_dir_domain tol (o : obj R) d s e o' :
  0 < tol -> wf_obj_R tol o -> (d < length (o_bases o))%nat -> s < e ->
  @obj_reparam_dir R NumR o d s e = Ok o' ->
  let bd := nth d (o_bases o) dflt_basis in
  let bd' := nth d (o_bases o') dflt_basis in
  let al := (e - s) / (@b_end R NumR bd - @b_start R NumR bd) in
  @b_start R NumR bd' = s /\ @b_end R NumR bd' = e /\
  b_order bd' = b_order bd /\ b_per1 bd' = b_per1 bd /\ length (b_knots bd') = length (b_knots bd) /\
  (forall i, @kn R NumR (b_knots bd') i = al * (@kn R NumR (b_knots bd) i - @b_start R NumR bd) + s) /\
  length (o_bases o') = length (o_bases o) /\
  (forall i, i <> d -> nth i (o_bases o') dflt_basis = nth i (o_bases o) dflt_basis) /\
  o_cps o' = o_cps o /\ o_dim o' = o_dim o /\ o_rat o' = o_rat o.
Proof.
  intros Htol Hwf Hd Hse E. cbv zeta. rewrite (reparam_dir_result tol o d s e o' Htol Hwf Hd Hse E).
  pose proof (ol_wfb tol o Hwf d Hd) as Wd.
  pose proof (dir_ne tol _ Wd) as Hne. pose proof (dir_dom tol Htol _ Wd) as Hdm.
  rewrite (ol_nth o d Hd s e d). destruct (Nat.eq_dec d d) as [_|C]; [|congruence].
  split; [apply rp_start; exact Hne|]. split; [apply rp_end; assumption|].
  split; [reflexivity|]. split; [reflexivity|]. split; [cbn [rp_basis b_knots]; apply map_length|].
  split; [intros i; cbn [rp_basis b_knots]; unfold rp_map; rewrite kn_aff by exact Hne; apply rp_map_eq|].
  split; [cbn [rp_obj o_bases]; apply upd_length|].
  split; [intros i Hi; rewrite (ol_nth o d Hd s e i); destruct (Nat.eq_dec i d); [congruence|reflexivity]|].
  repeat split.
Qed.

(* well-formedness is preserved: w.r.t. the same tolerance if the new interval is at least 2*tol wide ... *)
Theorem reparam_dir_wf tol (o : obj R) d s e o' :
  0 < tol -> wf_obj_R tol o -> (d < length (o_bases o))%nat -> s < e ->
  @obj_reparam_dir R NumR o d s e = Ok o' -> 2 * tol <= e - s -> wf_obj_R tol o'.
Proof.
  intros Htol Hwf Hd Hse E Hw. rewrite (reparam_dir_result tol o d s e o' Htol Hwf Hd Hse E).
  apply (rp_wf tol Htol o Hwf d Hd s e Hse tol); [|exact Hw].
  intros i Hi _. destruct (ol_wfb tol o Hwf i Hi) as (_ & _ & _ & _ & H). exact H.
Qed.

(* ... and w.r.t. the scaled tolerance when the other directions are wide enough (always, for curves) *)
Theorem reparam_dir_wf_scaled tol (o : obj R) d s e o' :
  0 < tol -> wf_obj_R tol o -> (d < length (o_bases o))%nat -> s < e ->
  @obj_reparam_dir R NumR o d s e = Ok o' ->
  let bd := nth d (o_bases o) dflt_basis in
  let al := (e - s) / (@b_end R NumR bd - @b_start R NumR bd) in
  (forall i, (i < length (o_bases o))%nat -> i <> d ->
     2 * (al * tol) <= @b_end R NumR (nth i (o_bases o) dflt_basis) - @b_start R NumR (nth i (o_bases o) dflt_basis)) ->
  wf_obj_R (al * tol) o'.
Proof.
  intros Htol Hwf Hd Hse E. cbv zeta. intros Hoth. rewrite (reparam_dir_result tol o d s e o' Htol Hwf Hd Hse E).
  apply (rp_wf tol Htol o Hwf d Hd s e Hse); [exact Hoth|].
  pose proof (ol_wfb tol o Hwf d Hd) as Wd. pose proof (dir_dom tol Htol _ Wd) as Hdm.
  destruct Wd as (_ & _ & _ & _ & Hw).
  set (L := @b_end R NumR (nth d (o_bases o) dflt_basis) - @b_start R NumR (nth d (o_bases o) dflt_basis)) in *.
  assert (Ha : 0 < (e - s) / L) by (apply Rdiv_lt_0_compat; lra).
  assert (Ee : e - s = (e - s) / L * L) by (field; lra).
  set (a := (e - s) / L) in *.
  assert (a * (2 * tol) <= a * L) by (apply Rmult_le_compat_l; lra). lra.
Qed.

(* 3a. MAIN THEOREM, scaled tolerance: tolerance al*tol on the reparametrised object, tol on the old one.  Any pardim, direction d
   periodic or not, EVERY real parameter in direction d (outside the domain both sides raise ValueError).  The directions that
   are not touched are evaluated with the tolerance al*tol instead of tol as well; their parameters must therefore be clear of their
   knots (hit exactly or at distance >= max(tol, al*tol)) -- no such direction exists for curves. *)
Theorem reparam_dir_eval_scaled tol (o : obj R) d s e o' ts :
  0 < tol -> wf_obj_R tol o -> (d < length (o_bases o))%nat -> s < e ->
  @obj_reparam_dir R NumR o d s e = Ok o' -> (d < length ts)%nat ->
  let bd := nth d (o_bases o) dflt_basis in
  let al := (e - s) / (@b_end R NumR bd - @b_start R NumR bd) in
  (forall i, (i < length (o_bases o))%nat -> i <> d ->
     let bi := nth i (o_bases o) dflt_basis in
     knot_clear (b_knots bi) (Rmax tol (al * tol)) (nth i ts 0) /\
     (b_per1 bi <> 0%nat -> @b_start R NumR bi <= nth i ts 0 <= @b_end R NumR bi)) ->
  @obj_eval R NumR (al * tol) o' (upd ts d (al * (nth d ts 0 - @b_start R NumR bd) + s)) = @obj_eval R NumR tol o ts.
Proof.
  intros Htol Hwf Hd Hse E Hdt. cbv zeta. intros Hoth. rewrite (reparam_dir_result tol o d s e o' Htol Hwf Hd Hse E).
  apply (eval_scaled tol Htol o Hwf d Hd s e Hse ts).
  - rewrite upd_nth_same by exact Hdt. symmetry. apply rp_map_eq.
  - intros i Hi. apply upd_nth_other. exact Hi.
  - exact Hoth.
Qed.

(* curves: no hypothesis on the parameter *)
Theorem reparam_curve_eval tol (o : obj R) s e o' t :
  0 < tol -> wf_obj_R tol o -> length (o_bases o) = 1%nat -> s < e ->
  @obj_reparam_dir R NumR o 0 s e = Ok o' ->
  let b := nth 0 (o_bases o) dflt_basis in
  let al := (e - s) / (@b_end R NumR b - @b_start R NumR b) in
  @obj_eval R NumR (al * tol) o' [al * (t - @b_start R NumR b) + s] = @obj_eval R NumR tol o [t].
Proof.
  intros Htol Hwf H1 Hse E. cbv zeta.
  apply (reparam_dir_eval_scaled tol o 0 s e o' [t] Htol Hwf ltac:(lia) Hse E ltac:(cbn; lia)).
  intros i Hi Hne. lia.
Qed.

(* 3b. MAIN THEOREM, the same tolerance on both sides (what the implementation does): any pardim, direction d periodic or not.
   The d-th parameter must be clear of the knots of direction d: each knot value is hit exactly or is at distance
   >= max(tol, tol/al); for a periodic direction d the parameter lies in the base period.  Outside the domain (non-periodic d)
   both sides raise ValueError.  No hypothesis on the other directions. *)
Theorem reparam_dir_eval tol (o : obj R) d s e o' ts :
  0 < tol -> wf_obj_R tol o -> (d < length (o_bases o))%nat -> s < e ->
  @obj_reparam_dir R NumR o d s e = Ok o' -> (d < length ts)%nat ->
  let bd := nth d (o_bases o) dflt_basis in
  let al := (e - s) / (@b_end R NumR bd - @b_start R NumR bd) in
  knot_clear (b_knots bd) (Rmax tol (tol / al)) (nth d ts 0) ->
  (b_per1 bd <> 0%nat -> @b_start R NumR bd <= nth d ts 0 <= @b_end R NumR bd) ->
  @obj_eval R NumR tol o' (upd ts d (al * (nth d ts 0 - @b_start R NumR bd) + s)) = @obj_eval R NumR tol o ts.
Proof.
  intros Htol Hwf Hd Hse E Hdt. cbv zeta. intros HC Hin. rewrite (reparam_dir_result tol o d s e o' Htol Hwf Hd Hse E).
  apply (eval_same tol Htol o Hwf d Hd s e Hse ts).
  - rewrite upd_nth_same by exact Hdt. symmetry. apply rp_map_eq.
  - intros i Hi. apply upd_nth_other. exact Hi.
  - exact HC.
  - exact Hin.
Qed.

(* 4. reparam is invertible: reparametrising direction d back to its old interval returns the old object (exactly, on R) *)
Theorem reparam_dir_inverse tol (o : obj R) d s e o' :
  0 < tol -> wf_obj_R tol o -> (d < length (o_bases o))%nat -> s < e ->
  @obj_reparam_dir R NumR o d s e = Ok o' ->
  let bd := nth d (o_bases o) dflt_basis in
  @obj_reparam_dir R NumR o' d (@b_start R NumR bd) (@b_end R NumR bd) = Ok o.
Proof.
  intros Htol Hwf Hd Hse E. cbv zeta. rewrite (reparam_dir_result tol o d s e o' Htol Hwf Hd Hse E).
  pose proof (ol_wfb tol o Hwf d Hd) as Wd.
  pose proof (dir_ne tol _ Wd) as Hne. pose proof (dir_dom tol Htol _ Wd) as Hdm.
  unfold obj_reparam_dir. change (@mkBasis R 0 [] 0) with dflt_basis.
  pose proof (ol_nth o d Hd s e d) as En. destruct (Nat.eq_dec d d) as [_|C]; [|congruence]. rewrite En.
  rewrite (reparam_inverse _ Hne Hdm s e Hse).
  cbn [rp_obj o_bases o_cps o_dim o_rat]. rewrite upd_upd_same. symmetry. rewrite (obj_eta o) at 1. reflexivity.
Qed.

