(* C04 / C08, end to end through the model's own [obj_eval] for PERIODIC directions.

   Part A  snapping: snap1 only looks at the knot VALUES between two common values a <= t <= b (snap1_local);
           knot values are fixed points (snap1_value); parameters beyond tol of every knot are not snapped (snap1_far_all)
   Part B  change_dir_gen_eval / change_dir_gen_wf: the generic end-to-end lemma, any per1 before and after
           (periodic -> periodic, periodic -> periodic with lower continuity, periodic -> open), the row relation
           only required at the (t, side) pairs of the domain (after_start / before_end, what normalise produces);
           periodic_change_dir_eval is the instance per1' = per1 >= 1: the d-th parameter is ANY real
   Part C  canon_dir (wf_obj_R + per_canon in direction d), insert_knot_periodic_eval (one knot, hypotheses of
           basis_insert_knot_periodic), insert_knots_periodic_eval (lists, by induction)
   Part D  lower_periodic_step_eval (one step of obj_lower_periodic) and lower_periodic_eval (the whole iteration
           down to any target, target 0 = open included, any fuel >= per1 - target)
   Part E  the concrete instance: the cubic periodic basis ex_knots of PeriodicInsert.v, 8 control points in R^2

   The domain condition in direction d.  The model (like SplineObject._validate_domain) SNAPS the parameter to the
   knots -- ghost knots included -- BEFORE the evaluator wraps it into the base period.  Insertion in the first/last
   per1 spans and every step of lower_periodic change the ghost knots (images x -+ T appear, the first or the last knot
   of the list disappears), so a parameter outside the base period that lies within tol of such a ghost knot is
   snapped before and not after (or conversely) and obj_eval differs (by O(tol)): e.g. ex_knots, insert 1/2, the
   last knot 11 disappears, t = 11 + tol/2 evaluates at 3 before and at 3 + tol/2 after (reproduced on the Python
   code with state.knot_tolerance).  "Every real parameter" is therefore false; what is proved is
     (a) every real parameter that snaps the same way on the old and the new knot list (the general form),
     (b) every parameter of the closed base period [start, end] (there only the knot values of one period matter:
         snap1_local), with param_ok_snap for the inserted knot; unconditional for lower_periodic,
     (c) every real parameter that is not within tol of any old or new knot (it is only wrapped). *)
From Coq Require Import List Arith Reals Lra Lia Bool ZArith.
From SplipyModel Require Import Spec.BSpline Spec.Boehm Model.Num Model.BasisDef Model.BasisEval Model.Tensor Model.Obj
  Model.KnotInsert Model.Split Model.Periodic Model.Interp
  Proofs.KnotList Proofs.Bridge Proofs.SpanCorrect Proofs.EvaluateSpec Proofs.EvalConsequences Proofs.SnapSpec Proofs.SnapChar
  Proofs.TensorLemmas Proofs.ObjEval Proofs.InsertMatrix Proofs.TensorApply Proofs.InsertObj Proofs.OrderRaise
  Proofs.InsertEndToEnd Proofs.ChangeDirEval Proofs.AppendProofs Proofs.SeamContinuity Proofs.PeriodicInsert.
Import ListNotations.
Open Scope R_scope.

(* ------------------------------------------------------------------------------------------------ *)
(* Part A: snapping                                                                                 *)
(* ------------------------------------------------------------------------------------------------ *)
Section SnapLocal.
Variables (k k2 : list R) (tol t a b : R).
Hypothesis Htol : 0 < tol.
Hypothesis Ha : In a k /\ In a k2.
Hypothesis Hb : In b k /\ In b k2.
Hypothesis Hab : a <= t <= b.
(* between a and b the two lists have the same values, except for values that are not within tol of t *)
Hypothesis Hvals : forall v, a <= v <= b -> (In v k <-> In v k2) \/ tol <= Rabs (v - t).

Lemma near_bounds y : near tol y t -> t - tol < y < t + tol.
Proof. unfold near. intros N. apply Rabs_def2 in N. lra. Qed.

Lemma far_up v : t <= v -> tol <= Rabs (v - t) -> t + tol <= v.
Proof. intros G Fv. rewrite Rabs_right in Fv by lra. lra. Qed.
Lemma far_dn v : v < t -> tol <= Rabs (v - t) -> v <= t - tol.
Proof. intros G Fv. rewrite Rabs_left in Fv by lra. lra. Qed.

Lemma up_local y : IsUp k t y -> near tol y t -> IsUp k2 t y.
Proof.
  intros (I & G & Mn) N. pose proof (near_bounds y N) as Nb.
  assert (Hyb : y <= b) by (apply Mn; [apply Hb|apply Hab]).
  assert (I2 : In y k2).
  { destruct (Hvals y ltac:(lra)) as [E|Fv]; [apply E; exact I|]. pose proof (far_up y G Fv). lra. }
  split; [exact I2|]. split; [exact G|]. intros v Hv Hge.
  destruct (Rle_dec v b) as [Lb|Lb]; [|lra].
  destruct (Hvals v ltac:(lra)) as [E|Fv]; [apply Mn; [apply E; exact Hv|exact Hge]|].
  pose proof (far_up v Hge Fv). lra.
Qed.

Lemma up_local_back y : IsUp k2 t y -> near tol y t -> IsUp k t y.
Proof.
  intros (I & G & Mn) N. pose proof (near_bounds y N) as Nb.
  assert (Hyb : y <= b) by (apply Mn; [apply Hb|apply Hab]).
  assert (I2 : In y k).
  { destruct (Hvals y ltac:(lra)) as [E|Fv]; [apply E; exact I|]. pose proof (far_up y G Fv). lra. }
  split; [exact I2|]. split; [exact G|]. intros v Hv Hge.
  destruct (Rle_dec v b) as [Lb|Lb]; [|lra].
  destruct (Hvals v ltac:(lra)) as [E|Fv]; [apply Mn; [apply E; exact Hv|exact Hge]|].
  pose proof (far_up v Hge Fv). lra.
Qed.

(* when t is not (within tol of) a common lower value a, the lower neighbour is local too *)
Lemma dn_local z : a < t -> IsDn k t z -> near tol z t -> IsDn k2 t z.
Proof.
  intros Hat (I & G & Mx) N. pose proof (near_bounds z N) as Nb.
  assert (Hza : a <= z) by (apply Mx; [apply Ha|exact Hat]).
  assert (I2 : In z k2).
  { destruct (Hvals z ltac:(lra)) as [E|Fv]; [apply E; exact I|]. pose proof (far_dn z G Fv). lra. }
  split; [exact I2|]. split; [exact G|]. intros v Hv Hlt.
  destruct (Rle_dec a v) as [La|La]; [|lra].
  destruct (Hvals v ltac:(lra)) as [E|Fv]; [apply Mx; [apply E; exact Hv|exact Hlt]|].
  pose proof (far_dn v Hlt Fv). lra.
Qed.
Lemma dn_local_back z : a < t -> IsDn k2 t z -> near tol z t -> IsDn k t z.
Proof.
  intros Hat (I & G & Mx) N. pose proof (near_bounds z N) as Nb.
  assert (Hza : a <= z) by (apply Mx; [apply Ha|exact Hat]).
  assert (I2 : In z k).
  { destruct (Hvals z ltac:(lra)) as [E|Fv]; [apply E; exact I|]. pose proof (far_dn z G Fv). lra. }
  split; [exact I2|]. split; [exact G|]. intros v Hv Hlt.
  destruct (Rle_dec a v) as [La|La]; [|lra].
  destruct (Hvals v ltac:(lra)) as [E|Fv]; [apply Mx; [apply E; exact Hv|exact Hlt]|].
  pose proof (far_dn v Hlt Fv). lra.
Qed.

(* t = a: a itself is the upper neighbour, at distance 0 *)
Lemma up_at_a (kk : list R) : In a kk -> t = a -> exists y, IsUp kk t y /\ near tol y t.
Proof.
  intros Ia E. exists a. split.
  - split; [exact Ia|]. split; [lra|]. intros v _ Hv. lra.
  - unfold near. replace (a - t) with 0 by lra. rewrite Rabs_R0. exact Htol.
Qed.

Theorem snap_case_local r : snap_case k tol t r -> snap_case k2 tol t r.
Proof.
  intros [(y & U & N & E1) | [(NU & z & D & N & E1) | (NU & ND & E1)]]; subst r.
  - left. exists y. split; [apply up_local; assumption|]. split; [exact N|reflexivity].
  - assert (Hat : a < t).
    { destruct (Rle_lt_or_eq_dec a t (proj1 Hab)) as [L|E]; [exact L|exfalso].
      destruct (up_at_a k (proj1 Ha) (eq_sym E)) as (y & U & Ny). exact (NU y U Ny). }
    right. left. split.
    + intros y U Ny. exact (NU y (up_local_back y U Ny) Ny).
    + exists z. split; [apply dn_local; assumption|]. split; [exact N|reflexivity].
  - assert (Hat : a < t).
    { destruct (Rle_lt_or_eq_dec a t (proj1 Hab)) as [L|E]; [exact L|exfalso].
      destruct (up_at_a k (proj1 Ha) (eq_sym E)) as (y & U & Ny). exact (NU y U Ny). }
    right. right. split; [|split; [|reflexivity]].
    + intros y U Ny. exact (NU y (up_local_back y U Ny) Ny).
    + intros z D Nz. exact (ND z (dn_local_back z Hat D Nz) Nz).
Qed.
End SnapLocal.

Theorem snap1_local (k k2 : list R) tol t a b :
  sorted (@kn R NumR k) -> sorted (@kn R NumR k2) -> 0 < tol ->
  In a k /\ In a k2 -> In b k /\ In b k2 -> a <= t <= b ->
  (forall v, a <= v <= b -> (In v k <-> In v k2) \/ tol <= Rabs (v - t)) ->
  @snap1 R NumR k2 tol t = @snap1 R NumR k tol t.
Proof.
  intros S1 S2 Htol Ha Hb Hab Hv.
  apply (snap_case_unique k2 tol t); [apply snap1_case; exact S2|].
  apply (snap_case_local k k2 tol t a b Htol Ha Hb Hab Hv). apply snap1_case; exact S1.
Qed.

(* a knot value is a fixed point of snap *)
Lemma snap1_value (k : list R) tol v : sorted (@kn R NumR k) -> 0 < tol -> In v k -> @snap1 R NumR k tol v = v.
Proof.
  intros S Htol I. apply (snap_case_unique k tol v); [apply snap1_case; exact S|].
  left. exists v. split; [|split; [|reflexivity]].
  - split; [exact I|]. split; [lra|]. intros w _ Hw. exact Hw.
  - unfold near. replace (v - v) with 0 by ring. rewrite Rabs_R0. exact Htol.
Qed.

(* a parameter that is not within tol of any knot is not snapped *)
Lemma snap1_far_all (k : list R) tol t : sorted (@kn R NumR k) ->
  (forall v, In v k -> tol <= Rabs (v - t)) -> @snap1 R NumR k tol t = t.
Proof.
  intros S Hfar. apply (snap_case_unique k tol t); [apply snap1_case; exact S|].
  right. right. split; [|split; [|reflexivity]].
  - intros y (I & _) N. unfold near in N. pose proof (Hfar y I). lra.
  - intros z (I & _) N. unfold near in N. pose proof (Hfar z I). lra.
Qed.

(* ------------------------------------------------------------------------------------------------ *)
(* Part B: the generic end-to-end lemma, any per1 before and after                                  *)
(* ------------------------------------------------------------------------------------------------ *)
(* the row of values of ANY basis (periodic or not) at one parameter, through the model's basis_evaluate *)
Lemma basis_row_any tol (k : list R) p per1 t :
  sorted (@kn R NumR k) -> (1 <= p)%nat -> (2 * p <= length k)%nat -> 0 < tol ->
  @basis_row R NumR tol (mkBasis p k per1) 0 true t =
    match @normalise R NumR k p per1 tol true (@snap1 R NumR k tol t) with
    | None => repeat 0 (length k - p - per1)
    | Some (t', side) => @ref_row R NumR side k p per1 0 t'
    end.
Proof.
  intros HK Hp Hlen Htol. unfold basis_row. cbn [b_knots b_order b_per1].
  pose proof (basis_evaluate_spec k p per1 HK Hp Hlen tol Htol 0 true [t] 0 ltac:(cbn; lia)) as E.
  cbv zeta in E. cbn [nth] in E.
  destruct (Nat.leb_spec p 0) as [C|C]; [lia|].
  rewrite <- E. destruct (@basis_evaluate R NumR k p per1 tol 0 true [t]); reflexivity.
Qed.

(* normalise only looks at the start and end knots, at "per1 = 0" and at tol *)
Lemma normalise_same_domain (k k2 : list R) p p2 per1 per2 tol fr t :
  @kn R NumR k2 (p2 - 1) = @kn R NumR k (p - 1) -> @kn R NumR k2 (length k2 - p2) = @kn R NumR k (length k - p) ->
  (per2 =? 0)%nat = (per1 =? 0)%nat ->
  @normalise R NumR k2 p2 per2 tol fr t = @normalise R NumR k p per1 tol fr t.
Proof. intros Hs He Hp. unfold normalise. cbv zeta. rewrite Hs, He, Hp. reflexivity. Qed.

(* inside the closed domain a periodic basis evaluated from the right does not wrap: same as an open one *)
Lemma normalise_open_same (k k2 : list R) p p2 per1 tol t :
  @kn R NumR k2 (p2 - 1) = @kn R NumR k (p - 1) -> @kn R NumR k2 (length k2 - p2) = @kn R NumR k (length k - p) ->
  @kn R NumR k (p - 1) <= t <= @kn R NumR k (length k - p) ->
  @normalise R NumR k2 p2 0 tol true t = @normalise R NumR k p per1 tol true t.
Proof.
  intros Hs He Ht. unfold normalise. cbv zeta. rewrite Hs, He.
  assert (W : forall per, @wrap_t R NumR (@kn R NumR k (p - 1)) (@kn R NumR k (length k - p)) tol per true t = t).
  { intros per. unfold wrap_t. destruct per; [|reflexivity]. cbn [nltb NumR negb].
    destruct (Rltb_spec t (@kn R NumR k (p - 1))); [lra|]. destruct (Rltb_spec (@kn R NumR k (length k - p)) t); [lra|].
    cbn [orb]. rewrite andb_false_r. reflexivity. }
  rewrite !W. reflexivity.
Qed.

Section ChangeDirGen.
Variable tol : R.
Hypothesis Htol : 0 < tol.
Variable o : obj R.
Hypothesis Hwf : wf_obj_R tol o.
Variable d : nat.
Hypothesis Hd : (d < length (o_bases o))%nat.
Local Notation bd := (nth d (o_bases o) dflt_basis).
Local Notation k := (b_knots bd).
Local Notation p := (b_order bd).
Local Notation per1 := (b_per1 bd).
Variable k2 : list R.
Variables p2 per2 : nat.
Variable M : list (list R).
Hypothesis HK2 : sorted (@kn R NumR k2).
Hypothesis Hp2 : (1 <= p2)%nat.
Hypothesis Hlen2 : (2 * p2 <= length k2)%nat.
Hypothesis Hn2 : (0 < length k2 - p2 - per2)%nat.
Local Notation b2 := (@mkBasis R p2 k2 per2).
Hypothesis Hstart : @b_start R NumR b2 = @b_start R NumR bd.
Hypothesis Hend : @b_end R NumR b2 = @b_end R NumR bd.
(* the row relation, only at the (parameter, side) pairs the evaluator can produce *)
Hypothesis Hrel : forall side t, after_start side (@b_start R NumR bd) t -> before_end side t (@b_end R NumR bd) ->
  row_rel (@ref_row R NumR side k p per1 0 t) (@ref_row R NumR side k2 p2 per2 0 t) M.
Local Notation o2 := (@obj_along R NumR o d b2 M).

Lemma cg_bd_wf : sorted (@kn R NumR k) /\ (1 <= p)%nat /\ (2 * p <= length k)%nat /\ (0 < @b_nfun R bd)%nat /\ 2 * tol <= @b_end R NumR bd - @b_start R NumR bd.
Proof. exact (bd_wf tol o Hwf d Hd). Qed.
Lemma cg_bd_eq : bd = mkBasis p k per1.
Proof. destruct bd; reflexivity. Qed.

Lemma cg_nth_bases i : nth i (upd (o_bases o) d b2) dflt_basis = if Nat.eq_dec i d then b2 else nth i (o_bases o) dflt_basis.
Proof. destruct (Nat.eq_dec i d) as [->|Hne]; [apply upd_nth_same; exact Hd|apply upd_nth_other; exact Hne]. Qed.

Lemma cg_rel_start : row_rel (@ref_row R NumR true k p per1 0 (@b_start R NumR bd)) (@ref_row R NumR true k2 p2 per2 0 (@b_start R NumR bd)) M.
Proof.
  destruct cg_bd_wf as (_ & _ & _ & _ & Hw). apply Hrel; unfold after_start, before_end; lra.
Qed.

Theorem change_dir_gen_wf : wf_obj_R tol o2.
Proof.
  destruct Hwf as (HB & HV & HL). destruct cg_bd_wf as (HK & Hp & Hlen & Hn & Hw).
  unfold obj_along. split; [|split]; cbn [o_bases o_cps].
  - apply Forall_forall. intros b Hb. destruct (In_nth _ _ dflt_basis Hb) as (i & Hi & <-). rewrite upd_length in Hi.
    rewrite cg_nth_bases. destruct (Nat.eq_dec i d) as [->|_].
    + split; [exact HK2|]. split; [exact Hp2|]. split; [exact Hlen2|]. split; [unfold b_nfun; cbn [b_knots b_order b_per1]; lia|].
      rewrite Hstart, Hend. exact Hw.
    + rewrite Forall_forall in HB. apply HB, nth_In, Hi.
  - match goal with |- Forall (fun v => length v = ?nc) _ => change nc with (@o_ncomp R o) end. apply Forall_apply_dir. exact HV.
  - pose proof cg_rel_start as (HC1 & _).
    rewrite length_apply_dir; [|unfold o_shape; rewrite map_length; exact Hd|exact HL|exact (cd_pos tol o Hwf)].
    unfold o_shape. cbn [o_bases]. f_equal. rewrite HC1. rewrite PeriodicInsert.ref_row_length.
    clear. generalize (o_bases o) as bs. intros bs. revert d. induction bs as [|a bs IH]; intros dd; [destruct dd; reflexivity|].
    destruct dd; cbn [upd map]; [unfold b_nfun; cbn [b_knots b_order b_per1]; reflexivity|]. f_equal. apply IH.
Qed.

(* the parameter tuple *)
Variable ts : list R.
Hypothesis Hdom : forall i, (i < length (o_bases o))%nat -> in_dom tol (nth i (o_bases o) dflt_basis) (nth i ts 0).
Local Notation td := (nth d ts 0).
Local Notation sd := (@snap1 R NumR k tol td).
(* the d-th parameter snaps the same way on both knot vectors *)
Hypothesis Hsnap : @snap1 R NumR k2 tol td = sd.
(* the new direction accepts it (automatic when the new direction is periodic) *)
Hypothesis Hdom2 : per2 = 0%nat -> @b_start R NumR bd <= sd <= @b_end R NumR bd.
(* and normalises it to the same parameter and side (automatic when both are periodic or both open) *)
Hypothesis Hnorm : @normalise R NumR k2 p2 per2 tol true sd = @normalise R NumR k p per1 tol true sd.

Lemma cg_validate_same : @validate R NumR tol (upd (o_bases o) d b2) ts = @validate R NumR tol (o_bases o) ts.
Proof.
  destruct (validate_spec tol (o_bases o) ts) as [V1 _]. rewrite (V1 Hdom).
  destruct (validate_spec tol (upd (o_bases o) d b2) ts) as [V2 _]. rewrite V2.
  - rewrite upd_length. f_equal. apply map_ext_in. intros i Hi. apply in_seq in Hi. rewrite cg_nth_bases.
    destruct (Nat.eq_dec i d) as [->|_]; [cbn [b_knots]; exact Hsnap|reflexivity].
  - rewrite upd_length. intros i Hi. rewrite cg_nth_bases. destruct (Nat.eq_dec i d) as [->|_]; [|apply Hdom; exact Hi].
    unfold in_dom. cbn [b_per1 b_knots]. intros E. rewrite Hstart, Hend, Hsnap. apply Hdom2. exact E.
Qed.

Local Notation ts' := (map (fun i => @snap1 R NumR (b_knots (nth i (o_bases o) dflt_basis)) tol (nth i ts 0)) (seq 0 (length (o_bases o)))).
Local Notation rows := (@rows_at R NumR tol (o_bases o) [] [] ts').
Local Notation rows' := (@rows_at R NumR tol (upd (o_bases o) d b2) [] [] ts').

Lemma cg_norm : exists t' side,
  @normalise R NumR k p per1 tol true (@snap1 R NumR k tol sd) = Some (t', side) /\
  @normalise R NumR k2 p2 per2 tol true (@snap1 R NumR k2 tol sd) = Some (t', side) /\
  after_start side (@b_start R NumR bd) t' /\ before_end side t' (@b_end R NumR bd).
Proof.
  destruct cg_bd_wf as (HK & Hp & Hlen & Hn & Hw).
  pose proof (snap1_idem k HK tol Htol td) as Hid.
  assert (Hid2 : @snap1 R NumR k2 tol sd = sd).
  { rewrite <- Hsnap at 1. rewrite (snap1_idem k2 HK2 tol Htol td). exact Hsnap. }
  pose proof (Hdom d Hd) as Hin. unfold in_dom in Hin.
  destruct (normalise_some k p per1 tol Htol Hw sd) as (t' & side & E).
  { intros E0. apply Hin. exact E0. }
  exists t', side. rewrite Hid, Hid2, Hnorm. split; [exact E|]. split; [exact E|].
  pose proof (normalised_in_domain k p per1 tol true sd t' side Htol E) as ND. rewrite <- cg_bd_eq in ND. exact ND.
Qed.

Lemma cg_rows' : exists t' side,
  after_start side (@b_start R NumR bd) t' /\ before_end side t' (@b_end R NumR bd) /\
  nth d rows [] = @ref_row R NumR side k p per1 0 t' /\ rows' = upd rows d (@ref_row R NumR side k2 p2 per2 0 t').
Proof.
  destruct cg_bd_wf as (HK & Hp & Hlen & Hn & Hw).
  destruct cg_norm as (t' & side & E1 & E2 & D1 & D2). exists t', side. split; [exact D1|]. split; [exact D2|].
  assert (Hrow_d : nth d rows [] = @ref_row R NumR side k p per1 0 t').
  { rewrite rows_at_nth by exact Hd. rewrite !nth_nil_any. rewrite cd_ts'_nth by exact Hd. rewrite cg_bd_eq at 1.
    rewrite (basis_row_any tol k p per1 _ HK Hp Hlen Htol). rewrite E1. reflexivity. }
  split; [exact Hrow_d|].
  apply (nth_ext _ _ [] []).
  - rewrite upd_length, !rows_at_length, upd_length. reflexivity.
  - intros i Hi. rewrite rows_at_length, upd_length in Hi.
    rewrite rows_at_nth by (rewrite upd_length; exact Hi). rewrite cg_nth_bases. rewrite !nth_nil_any.
    destruct (Nat.eq_dec i d) as [->|Hne].
    + rewrite upd_nth_same by (rewrite rows_at_length; exact Hd). rewrite cd_ts'_nth by exact Hd.
      rewrite (basis_row_any tol k2 p2 per2 _ HK2 Hp2 Hlen2 Htol). rewrite E2. reflexivity.
    + rewrite upd_nth_other by exact Hne. rewrite rows_at_nth by exact Hi. rewrite !nth_nil_any. reflexivity.
Qed.

Theorem change_dir_gen_eval : @obj_eval R NumR tol o2 ts = @obj_eval R NumR tol o ts.
Proof.
  unfold obj_eval, obj_along. cbn [o_bases o_rat o_dim]. rewrite cg_validate_same.
  destruct (validate_spec tol (o_bases o) ts) as [V1 _]. rewrite (V1 Hdom).
  assert (EH : @eval_h R NumR tol o2 [] [] ts' = @eval_h R NumR tol o [] [] ts').
  { unfold eval_h, obj_along. cbn [o_bases o_cps].
    match goal with |- @teval R NumR ?nc _ _ = _ => change nc with (@o_ncomp R o) end.
    destruct cg_rows' as (t' & side & D1 & D2 & Hrow & Hrows'). rewrite Hrows'.
    destruct Hwf as (HB & HV & HL).
    assert (Hnet : net_ok (@o_ncomp R o) rows (o_cps o)) by (split; [exact HV|rewrite (cd_shape_rows tol o); exact HL]).
    assert (Hpos : (0 < prodl (map (@length R) rows))%nat) by (rewrite (cd_shape_rows tol o); exact (cd_pos tol o Hwf)).
    assert (Hdr : (d < length rows)%nat) by (rewrite rows_at_length; exact Hd).
    rewrite <- (cd_shape_rows tol o ts').
    assert (RR : row_rel (nth d rows []) (@ref_row R NumR side k2 p2 per2 0 t') M) by (rewrite Hrow; apply Hrel; assumption).
    pose proof (net_ok_apply_dir (@o_ncomp R o) rows d (o_cps o) _ M Hdr Hnet Hpos RR) as Hnet'.
    apply (nth_ext _ _ 0 0).
    - rewrite (teval_length _ _ _ Hnet'), (teval_length _ _ _ Hnet). reflexivity.
    - intros c Hc. rewrite (teval_length _ _ _ Hnet') in Hc.
      apply (preserves_map_of_row_rel (@o_ncomp R o) c rows d (o_cps o) _ M Hdr Hc Hnet Hpos RR). }
  unfold obj_along in EH. rewrite EH. reflexivity.
Qed.
End ChangeDirGen.

(* inside the closed domain nothing wraps (evaluation from the right): normalise agrees for ANY two per1 *)
Lemma normalise_inside_same (k k2 : list R) p p2 per1 per2 tol t :
  @kn R NumR k2 (p2 - 1) = @kn R NumR k (p - 1) -> @kn R NumR k2 (length k2 - p2) = @kn R NumR k (length k - p) ->
  @kn R NumR k (p - 1) <= t <= @kn R NumR k (length k - p) ->
  @normalise R NumR k2 p2 per2 tol true t = @normalise R NumR k p per1 tol true t.
Proof.
  intros Hs He Ht.
  rewrite <- (normalise_open_same k k2 p p2 per1 tol t Hs He Ht).
  symmetry. apply (normalise_open_same k2 k2 p2 p2 per2 tol t eq_refl eq_refl). rewrite Hs, He. exact Ht.
Qed.

(* 1. the periodic analogue of change_dir_eval: a periodic direction d (per1 >= 1) gets another periodic basis with the
      same per1, start and end; M along d.  The d-th parameter is ANY real (no domain condition in direction d). *)
Theorem periodic_change_dir_eval tol (o : obj R) d (k2 : list R) p2 (M : list (list R)) ts :
  0 < tol -> wf_obj_R tol o -> (d < length (o_bases o))%nat ->
  let bd := nth d (o_bases o) dflt_basis in
  let b2 := mkBasis p2 k2 (b_per1 bd) in
  (1 <= b_per1 bd)%nat ->
  sorted (@kn R NumR k2) -> (1 <= p2)%nat -> (2 * p2 <= length k2)%nat -> (0 < @b_nfun R b2)%nat ->
  @b_start R NumR b2 = @b_start R NumR bd -> @b_end R NumR b2 = @b_end R NumR bd ->
  (forall side t, after_start side (@b_start R NumR bd) t -> before_end side t (@b_end R NumR bd) ->
     row_rel (@ref_row R NumR side (b_knots bd) (b_order bd) (b_per1 bd) 0 t) (@ref_row R NumR side k2 p2 (b_per1 bd) 0 t) M) ->
  (forall i, (i < length (o_bases o))%nat -> in_dom tol (nth i (o_bases o) dflt_basis) (nth i ts 0)) ->
  @snap1 R NumR k2 tol (nth d ts 0) = @snap1 R NumR (b_knots bd) tol (nth d ts 0) ->
  wf_obj_R tol (@obj_along R NumR o d b2 M) /\
  @obj_eval R NumR tol (@obj_along R NumR o d b2 M) ts = @obj_eval R NumR tol o ts.
Proof.
  intros Htol Hwf Hd bd b2 Hper HK2 Hp2 Hlen2 Hn2 Hs He Hrel Hdom Hsnap.
  split.
  - apply (change_dir_gen_wf tol Htol o Hwf d Hd k2 p2 (b_per1 bd) M HK2 Hp2 Hlen2 Hn2 Hs He Hrel).
  - apply (change_dir_gen_eval tol Htol o Hwf d Hd k2 p2 (b_per1 bd) M HK2 Hp2 Hlen2 Hs He Hrel ts Hdom Hsnap).
    + intros E. fold bd in E. lia.
    + apply normalise_same_domain; [exact Hs|exact He|reflexivity].
Qed.

(* ------------------------------------------------------------------------------------------------ *)
(* Part C: knot insertion in a periodic direction                                                   *)
(* ------------------------------------------------------------------------------------------------ *)
(* the periodic-aware well-formedness: direction d carries a regular canonical periodic knot list
   (n functions, period T) *)
Definition canon_dir (o : obj R) (d n : nat) (T : R) : Prop :=
  let bd := nth d (o_bases o) dflt_basis in per_canon (b_knots bd) (b_order bd) (b_per1 bd) n T.

(* snap keeps a parameter between two knot values *)
Lemma snap1_between (k : list R) tol t a b : sorted (@kn R NumR k) -> 0 < tol -> In a k -> In b k -> a <= t <= b ->
  a <= @snap1 R NumR k tol t <= b.
Proof.
  intros S Htol Ia Ib Hab.
  destruct (snap1_case k tol t S) as [(y & (I & G & Mn) & N & E1) | [(NU & z & (I & G & Mx) & N & E1) | (NU & ND & E1)]]; rewrite E1.
  - pose proof (Mn b Ib ltac:(lra)). lra.
  - destruct (Rle_lt_or_eq_dec a t (proj1 Hab)) as [L|E].
    + pose proof (Mx a Ia L). lra.
    + exfalso. apply (NU a).
      * split; [exact Ia|]. split; [lra|]. intros v _ Hv. lra.
      * unfold near. replace (a - t) with 0 by lra. rewrite Rabs_R0. exact Htol.
  - exact Hab.
Qed.

(* the knot values of a canonical list inside the closed base period are those of the window per1 .. n + per1 *)
Lemma canon_values_window (k : list R) p per1 n T v : per_canon k p per1 n T ->
  In v k -> @kn R NumR k (p - 1) <= v <= @kn R NumR k (n + per1) ->
  exists i, (per1 <= i <= n + per1)%nat /\ @kn R NumR k i = v.
Proof.
  intros (HK & Hper1 & Hpp & Hlen & Hreg & HT & Hseam & Himg) Iv Hv.
  destruct (In_nth k v 0 Iv) as (j & Hj & Ej). rewrite <- (kn_nth k j Hj) in Ej.
  destruct (Nat.lt_ge_cases j per1) as [A|A]; [|destruct (Nat.le_gt_cases j (n + per1)) as [A2|A2]].
  - exists per1. split; [lia|]. pose proof (HK j per1 ltac:(lia)). lra.
  - exists j. split; [lia|exact Ej].
  - exists (n + per1)%nat. split; [lia|]. pose proof (HK (n + per1)%nat j ltac:(lia)). lra.
Qed.

Definition param_ok_snap (tol : R) (k : list R) (x t : R) : Prop :=
  In x k \/ tol <= Rabs (x - t) \/ (t = x /\ @snap1 R NumR k tol x = x).

Section PerInsertOne.
Variable tol : R.
Hypothesis Htol : 0 < tol.
Variable o : obj R.
Hypothesis Hwf : wf_obj_R tol o.
Variable d : nat.
Hypothesis Hd : (d < length (o_bases o))%nat.
Variables (n : nat) (T : R).
Hypothesis Hcan : canon_dir o d n T.
Local Notation bd := (nth d (o_bases o) dflt_basis).
Local Notation k := (b_knots bd).
Local Notation p := (b_order bd).
Local Notation per1 := (b_per1 bd).
Local Notation K := (@kn R NumR k).
Variable x : R.
Hypothesis Hx : @b_start R NumR bd <= x < @b_end R NumR bd.
Local Notation mu := (@py_bisect_right R NumR k x).
Local Notation knew := (knew_model k p per1 x).
Local Notation Cmat := (@mat_of_writes R NumR (n + 1) n (@insert_writes R NumR k p n mu x)).
Local Notation b1 := (mkBasis p knew per1).
Local Notation o1 := (@obj_along R NumR o d b1 Cmat).

Lemma pi_can : per_canon k p per1 n T. Proof. exact Hcan. Qed.
Lemma pi_start : @b_start R NumR bd = K (p - 1)%nat. Proof. reflexivity. Qed.
Lemma pi_end : @b_end R NumR bd = K (n + per1)%nat.
Proof. pose proof pi_can as (_ & _ & _ & Hlen & _). unfold b_end. f_equal. lia. Qed.
Lemma pi_x : K (p - 1)%nat <= x < K (n + per1)%nat.
Proof. rewrite <- pi_end. exact Hx. Qed.
Lemma pi_bd_eq : bd = mkBasis p k per1. Proof. destruct bd; reflexivity. Qed.

Lemma pi_can1 : per_canon knew p per1 (n + 1) T.
Proof. exact (canon_insert_canon k p per1 n T pi_can x pi_x). Qed.
Lemma pi_start1 : @b_start R NumR b1 = @b_start R NumR bd.
Proof. exact (canon_insert_start k p per1 n T pi_can x pi_x). Qed.
Lemma pi_end1 : @b_end R NumR b1 = @b_end R NumR bd.
Proof. rewrite pi_end. exact (canon_insert_end k p per1 n T pi_can x pi_x). Qed.

(* the model's insertion succeeds and returns o1 *)
Lemma pi_insert_ok : @obj_insert_knots R NumR o d [x] = Ok o1.
Proof.
  cbn [obj_insert_knots]. change (mkBasis 0 [] 0) with dflt_basis. rewrite pi_bd_eq at 1.
  rewrite (insert_knot_unfold k p per1 n T pi_can x pi_x). reflexivity.
Qed.

Lemma pi_rel side t : after_start side (@b_start R NumR bd) t -> before_end side t (@b_end R NumR bd) ->
  row_rel (@ref_row R NumR side k p per1 0 t) (@ref_row R NumR side knew p per1 0 t) Cmat.
Proof.
  intros Hs He. rewrite pi_end in He. exact (canon_insert_row_rel k p per1 n T pi_can x pi_x side t Hs He).
Qed.

Lemma pi_facts1 : sorted (@kn R NumR knew) /\ (1 <= p)%nat /\ (2 * p <= length knew)%nat /\ (0 < length knew - p - per1)%nat.
Proof. pose proof pi_can1 as (HK1 & Hper1 & Hpp & Hlen1 & Hreg1 & _). repeat split; [exact HK1|lia|lia|lia]. Qed.

Theorem pi_wf : wf_obj_R tol o1.
Proof.
  destruct pi_facts1 as (A & B & C & D).
  exact (change_dir_gen_wf tol Htol o Hwf d Hd knew p per1 Cmat A B C D pi_start1 pi_end1 pi_rel).
Qed.

Lemma pi_nth1 : nth d (o_bases o1) dflt_basis = b1.
Proof. unfold obj_along. cbn [o_bases]. apply upd_nth_same. exact Hd. Qed.

Theorem pi_canon : canon_dir o1 d (n + 1) T.
Proof. unfold canon_dir. cbv zeta. rewrite pi_nth1. cbn [b_knots b_order b_per1]. exact pi_can1. Qed.

(* the general form: the d-th parameter is ANY real that snaps the same way on the old and the new knot list *)
Theorem pi_eval_snap ts :
  (forall i, (i < length (o_bases o))%nat -> in_dom tol (nth i (o_bases o) dflt_basis) (nth i ts 0)) ->
  @snap1 R NumR knew tol (nth d ts 0) = @snap1 R NumR k tol (nth d ts 0) ->
  @obj_eval R NumR tol o1 ts = @obj_eval R NumR tol o ts.
Proof.
  intros Hdom Hsnap. destruct pi_facts1 as (A & B & C & D).
  apply (change_dir_gen_eval tol Htol o Hwf d Hd knew p per1 Cmat A B C pi_start1 pi_end1 pi_rel ts Hdom Hsnap).
  - intros E. pose proof pi_can as (_ & Hper1 & _). lia.
  - apply normalise_same_domain; [exact pi_start1|exact pi_end1|reflexivity].
Qed.

(* knot values before and after, inside the closed base period *)
Lemma pi_values_new v : @b_start R NumR bd <= v <= @b_end R NumR bd -> In v knew -> In v k \/ v = x.
Proof.
  intros Hv Iv. pose proof pi_can as (HK & Hper1 & Hpp & Hlen & Hreg & HT & Hseam & Himg).
  destruct (mu_bracket_per k p per1 n T pi_can x pi_x) as [Hmu Hbr]. assert (Hmu1 : (1 <= mu)%nat) by lia.
  pose proof pi_can1 as Hc1.
  assert (Hv1 : @kn R NumR knew (p - 1) <= v <= @kn R NumR knew (n + 1 + per1)).
  { pose proof pi_start1 as S1. pose proof pi_end1 as E1. unfold b_start, b_end in S1, E1. cbn [b_knots b_order] in S1, E1.
    destruct Hc1 as (_ & _ & _ & Hlen1 & _). rewrite Hlen1 in E1. replace (n + 1 + per1 + p - p)%nat with (n + 1 + per1)%nat in E1 by lia.
    rewrite S1, E1. exact Hv. }
  destruct (canon_values_window knew p per1 (n + 1) T v Hc1 Iv Hv1) as (i & Hi & Ei).
  destruct (Nat.eq_dec i (n + 1 + per1)) as [->|Ne].
  - left. rewrite <- Ei.
    pose proof pi_end1 as E1. unfold b_end in E1. cbn [b_knots b_order] in E1.
    destruct Hc1 as (_ & _ & _ & Hlen1 & _). rewrite Hlen1 in E1. replace (n + 1 + per1 + p - p)%nat with (n + 1 + per1)%nat in E1 by lia.
    rewrite E1. apply kn_In'. lia.
  - rewrite (window_knots k p per1 n T pi_can x pi_x i ltac:(lia)) in Ei.
    destruct (lt_eq_lt_dec i mu) as [[L|L]|L].
    + rewrite k'_lt in Ei by lia. left. rewrite <- Ei. apply kn_In'. lia.
    + subst i. rewrite k'_eq in Ei. right. symmetry. exact Ei.
    + rewrite k'_gt in Ei by lia. left. rewrite <- Ei. apply kn_In'. lia.
Qed.

Lemma pi_values_old v : @b_start R NumR bd <= v <= @b_end R NumR bd -> In v k -> In v knew.
Proof.
  intros Hv Iv. pose proof pi_can as (HK & Hper1 & Hpp & Hlen & Hreg & HT & Hseam & Himg).
  destruct (mu_bracket_per k p per1 n T pi_can x pi_x) as [Hmu Hbr]. assert (Hmu1 : (1 <= mu)%nat) by lia.
  pose proof pi_can1 as (_ & _ & _ & Hlen1 & _).
  rewrite pi_end in Hv.
  destruct (canon_values_window k p per1 n T v pi_can Iv Hv) as (i & Hi & Ei).
  destruct (Nat.lt_ge_cases i mu) as [L|L].
  - rewrite <- Ei. rewrite <- (k'_lt K mu x Hmu1 i L). rewrite <- (window_knots k p per1 n T pi_can x pi_x i ltac:(lia)).
    apply kn_In'. lia.
  - destruct (Nat.eq_dec i (n + per1)) as [->|Ne].
    + rewrite <- Ei. rewrite <- pi_end, <- pi_end1. unfold b_end. cbn [b_knots b_order]. apply kn_In'. lia.
    + rewrite <- Ei. replace i with (S i - 1)%nat by lia. rewrite <- (k'_gt K mu x Hmu1 (S i)) by lia.
      rewrite <- (window_knots k p per1 n T pi_can x pi_x (S i) ltac:(lia)). apply kn_In'. lia.
Qed.

Lemma pi_x_new : In x knew.
Proof.
  destruct (mu_bracket_per k p per1 n T pi_can x pi_x) as [Hmu Hbr].
  pose proof pi_can as (_ & Hper1 & Hpp & _). pose proof pi_can1 as (_ & _ & _ & Hlen1 & _).
  assert (E : @kn R NumR knew mu = x) by (rewrite (window_knots k p per1 n T pi_can x pi_x mu ltac:(lia)); apply k'_eq).
  pose proof (kn_In' knew mu ltac:(lia)) as I. rewrite E in I. exact I.
Qed.

Lemma pi_start_in : In (@b_start R NumR bd) k /\ In (@b_start R NumR bd) knew.
Proof.
  pose proof pi_can as (_ & Hper1 & Hpp & Hlen & _). pose proof pi_can1 as (_ & _ & _ & Hlen1 & _). split.
  - unfold b_start. apply kn_In'. lia.
  - rewrite <- pi_start1. unfold b_start. cbn [b_knots b_order]. apply kn_In'. lia.
Qed.
Lemma pi_end_in : In (@b_end R NumR bd) k /\ In (@b_end R NumR bd) knew.
Proof.
  pose proof pi_can as (_ & Hper1 & Hpp & Hlen & _). pose proof pi_can1 as (_ & _ & _ & Hlen1 & _). split.
  - unfold b_end. apply kn_In'. lia.
  - rewrite <- pi_end1. unfold b_end. cbn [b_knots b_order]. apply kn_In'. lia.
Qed.

(* in the closed base period, param_ok_snap is what makes the snapping agree *)
Lemma pi_snap_base t : @b_start R NumR bd <= t <= @b_end R NumR bd -> param_ok_snap tol k x t ->
  @snap1 R NumR knew tol t = @snap1 R NumR k tol t.
Proof.
  intros Ht Hok. pose proof pi_can as (HK & _). destruct pi_facts1 as (HK1 & _).
  destruct Hok as [Ik|[Far|[E Sx]]].
  - apply (snap1_local k knew tol t _ _ HK HK1 Htol pi_start_in pi_end_in Ht).
    intros v Hv. left. split; [apply pi_values_old; exact Hv|].
    intros Iv. destruct (pi_values_new v Hv Iv) as [I| ->]; [exact I|exact Ik].
  - apply (snap1_local k knew tol t _ _ HK HK1 Htol pi_start_in pi_end_in Ht).
    intros v Hv. destruct (Req_dec v x) as [->|Ne]; [right; exact Far|left].
    split; [apply pi_values_old; exact Hv|].
    intros Iv. destruct (pi_values_new v Hv Iv) as [I|E]; [exact I|contradiction].
  - subst t. rewrite Sx. apply (snap1_value knew tol x HK1 Htol pi_x_new).
Qed.

(* 2. one knot: the d-th parameter in the closed base period *)
Theorem insert_knot_periodic_eval_base ts :
  (forall i, (i < length (o_bases o))%nat -> in_dom tol (nth i (o_bases o) dflt_basis) (nth i ts 0)) ->
  @b_start R NumR bd <= nth d ts 0 <= @b_end R NumR bd -> param_ok_snap tol k x (nth d ts 0) ->
  @obj_eval R NumR tol o1 ts = @obj_eval R NumR tol o ts.
Proof. intros Hdom Ht Hok. apply pi_eval_snap; [exact Hdom|]. apply pi_snap_base; assumption. Qed.

(* ... or beyond every knot (old and new) by tol: such a parameter is not snapped, only wrapped *)
Theorem insert_knot_periodic_eval_far ts :
  (forall i, (i < length (o_bases o))%nat -> in_dom tol (nth i (o_bases o) dflt_basis) (nth i ts 0)) ->
  (forall v, In v k \/ In v knew -> tol <= Rabs (v - nth d ts 0)) ->
  @obj_eval R NumR tol o1 ts = @obj_eval R NumR tol o ts.
Proof.
  intros Hdom Hfar. apply pi_eval_snap; [exact Hdom|]. pose proof pi_can as (HK & _). destruct pi_facts1 as (HK1 & _).
  rewrite (snap1_far_all knew tol _ HK1) by (intros v Iv; apply Hfar; right; exact Iv).
  rewrite (snap1_far_all k tol _ HK) by (intros v Iv; apply Hfar; left; exact Iv). reflexivity.
Qed.
End PerInsertOne.

Lemma obj_insert_knots_cons1 (o : obj R) d x xs :
  @obj_insert_knots R NumR o d (x :: xs)
  = match @obj_insert_knots R NumR o d [x] with Ok o1 => @obj_insert_knots R NumR o1 d xs | Err e => Err e end.
Proof. cbn [obj_insert_knots]. destruct (@basis_insert_knot R NumR _ x) as [[b' C]|e]; reflexivity. Qed.

(* 2. insert_knot in a regular canonical periodic direction, packaged: the model's insertion succeeds, the result is
      again well formed and canonical with one more function, and obj_eval is preserved
        (a) at every parameter tuple whose d-th entry (ANY real) snaps the same way on the old and new knot lists,
        (b) in particular when the d-th entry lies in the closed base period and is clear of x by tol, or x is
            already a knot, or it equals x and x is a fixed point of snap,
        (c) and when the d-th entry is not within tol of any old or new knot (then it is only wrapped). *)
Theorem insert_knot_periodic_eval tol (o : obj R) d n T x :
  0 < tol -> wf_obj_R tol o -> (d < length (o_bases o))%nat -> canon_dir o d n T ->
  let bd := nth d (o_bases o) dflt_basis in
  @b_start R NumR bd <= x < @b_end R NumR bd ->
  exists o', @obj_insert_knots R NumR o d [x] = Ok o' /\
    wf_obj_R tol o' /\ canon_dir o' d (n + 1) T /\
    length (o_bases o') = length (o_bases o) /\
    (forall i, i <> d -> nth i (o_bases o') dflt_basis = nth i (o_bases o) dflt_basis) /\
    let bd' := nth d (o_bases o') dflt_basis in
    b_order bd' = b_order bd /\ b_per1 bd' = b_per1 bd /\
    @b_start R NumR bd' = @b_start R NumR bd /\ @b_end R NumR bd' = @b_end R NumR bd /\
    (forall v, @b_start R NumR bd <= v <= @b_end R NumR bd -> (In v (b_knots bd') <-> In v (b_knots bd) \/ v = x)) /\
    (forall ts, (forall i, (i < length (o_bases o))%nat -> in_dom tol (nth i (o_bases o) dflt_basis) (nth i ts 0)) ->
       @snap1 R NumR (b_knots bd') tol (nth d ts 0) = @snap1 R NumR (b_knots bd) tol (nth d ts 0) ->
       @obj_eval R NumR tol o' ts = @obj_eval R NumR tol o ts) /\
    (forall t, @b_start R NumR bd <= t <= @b_end R NumR bd -> param_ok_snap tol (b_knots bd) x t ->
       @snap1 R NumR (b_knots bd') tol t = @snap1 R NumR (b_knots bd) tol t) /\
    (forall ts, (forall i, (i < length (o_bases o))%nat -> in_dom tol (nth i (o_bases o) dflt_basis) (nth i ts 0)) ->
       @b_start R NumR bd <= nth d ts 0 <= @b_end R NumR bd -> param_ok_snap tol (b_knots bd) x (nth d ts 0) ->
       @obj_eval R NumR tol o' ts = @obj_eval R NumR tol o ts) /\
    (forall ts, (forall i, (i < length (o_bases o))%nat -> in_dom tol (nth i (o_bases o) dflt_basis) (nth i ts 0)) ->
       (forall v, In v (b_knots bd) \/ In v (b_knots bd') -> tol <= Rabs (v - nth d ts 0)) ->
       @obj_eval R NumR tol o' ts = @obj_eval R NumR tol o ts).
Proof.
  intros Htol Hwf Hd Hcan bd Hx.
  eexists. split; [exact (pi_insert_ok o d Hd n T Hcan x Hx)|].
  split; [exact (pi_wf tol Htol o Hwf d Hd n T Hcan x Hx)|].
  split; [exact (pi_canon o d Hd n T Hcan x Hx)|].
  split; [unfold obj_along; cbn [o_bases]; apply upd_length|].
  split; [intros i Hi; unfold obj_along; cbn [o_bases]; apply upd_nth_other; exact Hi|].
  cbv zeta. rewrite (pi_nth1 o d Hd n x). cbn [b_order b_per1 b_knots].
  split; [reflexivity|]. split; [reflexivity|].
  split; [exact (pi_start1 o d Hd n T Hcan x Hx)|]. split; [exact (pi_end1 o d Hd n T Hcan x Hx)|].
  split.
  { intros v Hv. split.
    - apply (pi_values_new o d Hd n T Hcan x Hx v Hv).
    - intros [I| ->]; [apply (pi_values_old o d Hd n T Hcan x Hx v Hv I)|apply (pi_x_new o d Hd n T Hcan x Hx)]. }
  split; [intros ts Hdom Hs; apply (pi_eval_snap tol Htol o Hwf d Hd n T Hcan x Hx ts Hdom Hs)|].
  split; [intros t Ht Hok; apply (pi_snap_base tol Htol o d Hd n T Hcan x Hx t Ht Hok)|].
  split; [intros ts Hdom Ht Hok; apply (insert_knot_periodic_eval_base tol Htol o Hwf d Hd n T Hcan x Hx ts Hdom Ht Hok)|].
  intros ts Hdom Hfar. apply (insert_knot_periodic_eval_far tol Htol o Hwf d Hd n T Hcan x Hx ts Hdom Hfar).
Qed.

(* a list of knots, by induction: every x of the list in [start, end), the d-th parameter in the closed base period and
   param_ok_snap for every x with respect to the ORIGINAL knot list *)
Theorem insert_knots_periodic_eval tol d ts : 0 < tol ->
  forall (xs : list R) (o : obj R) n T,
  wf_obj_R tol o -> (d < length (o_bases o))%nat -> canon_dir o d n T ->
  let bd := nth d (o_bases o) dflt_basis in
  (forall x, In x xs -> @b_start R NumR bd <= x < @b_end R NumR bd /\ param_ok_snap tol (b_knots bd) x (nth d ts 0)) ->
  (forall i, (i < length (o_bases o))%nat -> in_dom tol (nth i (o_bases o) dflt_basis) (nth i ts 0)) ->
  @b_start R NumR bd <= nth d ts 0 <= @b_end R NumR bd ->
  exists o', @obj_insert_knots R NumR o d xs = Ok o' /\
    wf_obj_R tol o' /\ canon_dir o' d (n + length xs) T /\
    @obj_eval R NumR tol o' ts = @obj_eval R NumR tol o ts /\
    length (o_bases o') = length (o_bases o) /\
    (forall i, i <> d -> nth i (o_bases o') dflt_basis = nth i (o_bases o) dflt_basis) /\
    let bd' := nth d (o_bases o') dflt_basis in
    b_order bd' = b_order bd /\ b_per1 bd' = b_per1 bd /\
    @b_start R NumR bd' = @b_start R NumR bd /\ @b_end R NumR bd' = @b_end R NumR bd.
Proof.
  intros Htol. induction xs as [|x xs IH]; intros o n T Hwf Hd Hcan bd Hxs Hdom Ht.
  - exists o. cbn [obj_insert_knots length]. rewrite Nat.add_0_r.
    split; [reflexivity|]. split; [exact Hwf|]. split; [exact Hcan|]. split; [reflexivity|]. split; [reflexivity|].
    split; [intros; reflexivity|]. cbv zeta. repeat split; reflexivity.
  - destruct (Hxs x ltac:(left; reflexivity)) as (Hx & Hokx).
    destruct (insert_knot_periodic_eval tol o d n T x Htol Hwf Hd Hcan Hx)
      as (o1 & Hins1 & Hwf1 & Hcan1 & Hl1 & Hoth1 & Hrest). cbv zeta in Hrest. fold bd in Hrest.
    destruct Hrest as (Ho1 & Hp1 & Hs1 & He1 & Hval1 & _ & Hsn1 & Hev1 & _).
    set (bd1 := nth d (o_bases o1) dflt_basis) in *.
    assert (Hsnap_t : @snap1 R NumR (b_knots bd1) tol (nth d ts 0) = @snap1 R NumR (b_knots bd) tol (nth d ts 0))
      by (apply Hsn1; assumption).
    destruct (IH o1 (n + 1)%nat T Hwf1 ltac:(rewrite Hl1; exact Hd) Hcan1) as (o' & Hins & Hwf' & Hcan' & Hev' & Hl' & Hoth' & Hrest').
    + intros y Hy. fold bd1. rewrite Hs1, He1. destruct (Hxs y ltac:(right; exact Hy)) as (Hyd & Hoky). split; [exact Hyd|].
      destruct Hoky as [Ik|[Far|[E Sy]]].
      * left. apply Hval1; [lra|left; exact Ik].
      * right. left. exact Far.
      * right. right. split; [exact E|]. rewrite <- E at 1. rewrite Hsnap_t. rewrite E. rewrite Sy. reflexivity.
    + intros i Hi. rewrite Hl1 in Hi. destruct (Nat.eq_dec i d) as [->|Ne].
      * unfold in_dom. fold bd1. rewrite Hp1. intros E0. destruct Hcan as (_ & Hper1 & _). fold bd in Hper1. lia.
      * rewrite (Hoth1 i Ne). apply Hdom. exact Hi.
    + fold bd1. rewrite Hs1, He1. exact Ht.
    + cbv zeta in Hrest'. fold bd1 in Hrest'. destruct Hrest' as (Ho' & Hp' & Hs' & He').
      exists o'. split; [rewrite obj_insert_knots_cons1, Hins1; exact Hins|].
      split; [exact Hwf'|]. split; [cbn [length]; replace (n + S (length xs))%nat with (n + 1 + length xs)%nat by lia; exact Hcan'|].
      split; [rewrite Hev'; apply Hev1; assumption|].
      split; [rewrite Hl'; exact Hl1|].
      split; [intros i Hi; rewrite (Hoth' i Hi); apply Hoth1; exact Hi|].
      cbv zeta. split; [rewrite Ho'; exact Ho1|]. split; [rewrite Hp'; exact Hp1|].
      split; [rewrite Hs'; exact Hs1|rewrite He'; exact He1].
Qed.

(* ------------------------------------------------------------------------------------------------ *)
(* Part D: lower_periodic                                                                           *)
(* ------------------------------------------------------------------------------------------------ *)
Lemma in_tl {A} (l : list A) v : In v (tl l) -> In v l.
Proof. destruct l; [intros []|intros H; right; exact H]. Qed.

Section LowerOne.
Variable tol : R.
Hypothesis Htol : 0 < tol.
Variable o : obj R.
Hypothesis Hwf : wf_obj_R tol o.
Variable d : nat.
Hypothesis Hd : (d < length (o_bases o))%nat.
Variables (n : nat) (T : R).
Hypothesis Hcan : canon_dir o d n T.
Local Notation bd := (nth d (o_bases o) dflt_basis).
Local Notation k := (b_knots bd).
Local Notation p := (b_order bd).
Local Notation per1 := (b_per1 bd).
Local Notation K := (@kn R NumR k).
Local Notation x := (K (p - 1)%nat).
Local Notation mu := (@py_bisect_right R NumR k x).
Local Notation knew := (knew_model k p per1 x).
Local Notation Cmat := (@mat_of_writes R NumR (n + 1) n (@insert_writes R NumR k p n mu x)).
Local Notation b1 := (mkBasis p knew per1).
Local Notation o1 := (@obj_along R NumR o d b1 Cmat).
Local Notation b2 := (mkBasis p (tl knew) (per1 - 1)).
Local Notation Rmat := (@roll_matrix R NumR (n + 1) 1).
Local Notation o2 := (@obj_along R NumR o1 d b2 Rmat).

Lemma lo_can : per_canon k p per1 n T. Proof. exact Hcan. Qed.
Lemma lo_x : @b_start R NumR bd <= x < @b_end R NumR bd.
Proof. rewrite (pi_end o d Hd n T Hcan). exact (start_in_domain k p per1 n T lo_can). Qed.
Lemma lo_can1 : per_canon knew p per1 (n + 1) T.
Proof. exact (pi_can1 o d Hd n T Hcan x lo_x). Qed.
Lemma lo_wf1 : wf_obj_R tol o1.
Proof. exact (pi_wf tol Htol o Hwf d Hd n T Hcan x lo_x). Qed.
Lemma lo_d1 : (d < length (o_bases o1))%nat.
Proof. unfold obj_along. cbn [o_bases]. rewrite upd_length. exact Hd. Qed.
Lemma lo_nth1 : nth d (o_bases o1) dflt_basis = b1.
Proof. exact (pi_nth1 o d Hd n x). Qed.

Lemma lo_len_tl : length (tl knew) = (n + per1 + p)%nat.
Proof. pose proof lo_can1 as (_ & _ & _ & Hlen1 & _). rewrite length_tl. lia. Qed.

Lemma lo_sorted2 : sorted (@kn R NumR (tl knew)).
Proof.
  pose proof lo_can1 as (HK1 & _ & _ & Hlen1 & _). pose proof lo_len_tl as Ltl.
  apply sorted_kn_of_nth. intros i j Hij. rewrite !nth_tl. rewrite <- !kn_nth by lia. apply HK1. lia.
Qed.

Lemma lo_start2 : @b_start R NumR b2 = @b_start R NumR b1.
Proof.
  pose proof lo_can1 as (_ & Hper1 & Hpp & Hlen1 & _). pose proof lo_len_tl as Ltl.
  rewrite (pi_start1 o d Hd n T Hcan x lo_x). unfold b_start at 1. cbn [b_knots b_order].
  rewrite kn_tl by lia. replace (S (p - 1)) with p by lia. exact (knew_p k p per1 n T lo_can).
Qed.
Lemma lo_end2 : @b_end R NumR b2 = @b_end R NumR b1.
Proof.
  pose proof lo_can1 as (_ & Hper1 & Hpp & Hlen1 & _). pose proof lo_len_tl as Ltl.
  unfold b_end. cbn [b_knots b_order]. rewrite Ltl, Hlen1. rewrite kn_tl by lia. f_equal. lia.
Qed.

Lemma lo_rel side t : after_start side (@b_start R NumR b1) t -> before_end side t (@b_end R NumR b1) ->
  row_rel (@ref_row R NumR side knew p per1 0 t) (@ref_row R NumR side (tl knew) p (per1 - 1) 0 t) Rmat.
Proof.
  intros Hs _. rewrite (pi_start1 o d Hd n T Hcan x lo_x) in Hs.
  exact (roll_row_rel k p per1 n T lo_can side t Hs).
Qed.

Lemma lo_facts2 : (1 <= p)%nat /\ (2 * p <= length (tl knew))%nat /\ (0 < length (tl knew) - p - (per1 - 1))%nat.
Proof. pose proof lo_can1 as (_ & Hper1 & Hpp & Hlen1 & Hreg1 & _). rewrite lo_len_tl. repeat split; lia. Qed.

Theorem lo_wf2 : wf_obj_R tol o2.
Proof.
  destruct lo_facts2 as (A & B & C).
  pose proof (change_dir_gen_wf tol Htol o1 lo_wf1 d lo_d1 (tl knew) p (per1 - 1) Rmat lo_sorted2 A B C) as W.
  rewrite lo_nth1 in W. cbn [b_knots b_order b_per1] in W. exact (W lo_start2 lo_end2 lo_rel).
Qed.

(* the model's recursion performs exactly this step *)
Lemma lo_step fuel target : (target < per1)%nat ->
  @obj_lower_periodic R NumR (S fuel) o target d = @obj_lower_periodic R NumR fuel o2 target d.
Proof.
  intros Ht.
  assert (Hb : nth d (o_bases o) (mkBasis 0 [] 0) = mkBasis p k per1) by (change (mkBasis 0 [] 0) with dflt_basis; destruct bd; reflexivity).
  exact (obj_lower_periodic_step k p per1 n T lo_can o d fuel target Hb Ht).
Qed.

Lemma lo_nth2 : nth d (o_bases o2) dflt_basis = b2.
Proof. unfold obj_along at 1. cbn [o_bases]. apply upd_nth_same. exact lo_d1. Qed.

Lemma lo_canon2 : (2 <= per1)%nat -> canon_dir o2 d (n + 1) T.
Proof.
  intros H2. unfold canon_dir. cbv zeta. rewrite lo_nth2. cbn [b_knots b_order b_per1].
  exact (lower_step_canon k p per1 n T lo_can H2).
Qed.

(* knot values of knew and of tl knew in the closed base period *)
Lemma lo_values v : @b_start R NumR b1 <= v -> In v knew -> In v (tl knew).
Proof.
  intros Hv Iv. pose proof lo_can1 as (HK1 & Hper1 & Hpp & Hlen1 & _ & _ & Hseam1 & _).
  destruct (In_nth knew v 0 Iv) as (j & Hj & Ej).
  destruct j as [|j].
  - assert (E : v = nth 1 knew 0).
    { rewrite <- Ej. rewrite <- !kn_nth by lia. unfold b_start in Hv. cbn [b_knots b_order] in Hv. rewrite <- Hseam1 in Hv.
      rewrite <- Ej in Hv. rewrite <- kn_nth in Hv by lia.
      pose proof (HK1 0%nat 1%nat ltac:(lia)). pose proof (HK1 1%nat per1 ltac:(lia)). lra. }
    rewrite E. rewrite <- nth_tl. apply nth_In. rewrite length_tl. lia.
  - rewrite <- Ej. rewrite <- nth_tl. apply nth_In. rewrite length_tl. lia.
Qed.

Lemma lo_start_in : In (@b_start R NumR b1) knew /\ In (@b_start R NumR b1) (tl knew).
Proof.
  pose proof lo_can1 as (_ & Hper1 & Hpp & Hlen1 & _). pose proof lo_len_tl as Ltl. split.
  - unfold b_start. cbn [b_knots b_order]. apply kn_In'. lia.
  - rewrite <- lo_start2. unfold b_start. cbn [b_knots b_order]. apply kn_In'. lia.
Qed.
Lemma lo_end_in : In (@b_end R NumR b1) knew /\ In (@b_end R NumR b1) (tl knew).
Proof.
  pose proof lo_can1 as (_ & Hper1 & Hpp & Hlen1 & _). pose proof lo_len_tl as Ltl. split.
  - unfold b_end. cbn [b_knots b_order]. apply kn_In'. lia.
  - rewrite <- lo_end2. unfold b_end. cbn [b_knots b_order]. apply kn_In'. lia.
Qed.

Lemma lo_snap t : @b_start R NumR b1 <= t <= @b_end R NumR b1 ->
  @snap1 R NumR (tl knew) tol t = @snap1 R NumR knew tol t.
Proof.
  intros Ht. pose proof lo_can1 as (HK1 & _).
  apply (snap1_local knew (tl knew) tol t _ _ HK1 lo_sorted2 Htol lo_start_in lo_end_in Ht).
  intros v Hv. left. split; [apply lo_values; lra|apply in_tl].
Qed.

(* the roll half of the step: o1 -> o2 *)
Lemma lo_eval_roll ts :
  (forall i, (i < length (o_bases o1))%nat -> in_dom tol (nth i (o_bases o1) dflt_basis) (nth i ts 0)) ->
  @b_start R NumR b1 <= nth d ts 0 <= @b_end R NumR b1 ->
  @obj_eval R NumR tol o2 ts = @obj_eval R NumR tol o1 ts.
Proof.
  intros Hdom Ht. destruct lo_facts2 as (A & B & C). pose proof lo_can1 as (HK1 & _).
  pose proof (change_dir_gen_eval tol Htol o1 lo_wf1 d lo_d1 (tl knew) p (per1 - 1) Rmat lo_sorted2 A B) as W.
  rewrite lo_nth1 in W. cbn [b_knots b_order b_per1] in W.
  pose proof (snap1_between knew tol _ _ _ HK1 Htol (proj1 lo_start_in) (proj1 lo_end_in) Ht) as Hbt.
  apply (W lo_start2 lo_end2 lo_rel ts Hdom (lo_snap _ Ht)).
  - intros _. exact Hbt.
  - apply normalise_inside_same; [exact lo_start2|exact lo_end2|exact Hbt].
Qed.

(* the whole step: o -> o2, the d-th parameter in the closed base period *)
Theorem lo_eval ts :
  (forall i, (i < length (o_bases o))%nat -> i <> d -> in_dom tol (nth i (o_bases o) dflt_basis) (nth i ts 0)) ->
  @b_start R NumR bd <= nth d ts 0 <= @b_end R NumR bd ->
  @obj_eval R NumR tol o2 ts = @obj_eval R NumR tol o ts.
Proof.
  intros Hdom Ht. pose proof lo_can as (_ & Hper1 & Hpp & Hlen & _).
  assert (Hdom0 : forall i, (i < length (o_bases o))%nat -> in_dom tol (nth i (o_bases o) dflt_basis) (nth i ts 0)).
  { intros i Hi. destruct (Nat.eq_dec i d) as [->|Ne]; [|apply Hdom; assumption]. unfold in_dom. intros E. lia. }
  rewrite lo_eval_roll.
  - apply (insert_knot_periodic_eval_base tol Htol o Hwf d Hd n T Hcan x lo_x ts Hdom0 Ht).
    left. apply kn_In'. lia.
  - intros i Hi. unfold obj_along in Hi. cbn [o_bases] in Hi. rewrite upd_length in Hi.
    destruct (Nat.eq_dec i d) as [->|Ne].
    + rewrite lo_nth1. unfold in_dom. cbn [b_per1]. intros E. lia.
    + unfold obj_along. cbn [o_bases]. rewrite upd_nth_other by exact Ne. apply Hdom; assumption.
  - rewrite (pi_start1 o d Hd n T Hcan x lo_x), (pi_end1 o d Hd n T Hcan x lo_x). exact Ht.
Qed.

Theorem lo_package :
  (forall fuel target, (target < per1)%nat ->
     @obj_lower_periodic R NumR (S fuel) o target d = @obj_lower_periodic R NumR fuel o2 target d) /\
  wf_obj_R tol o2 /\ length (o_bases o2) = length (o_bases o) /\
  (forall i, i <> d -> nth i (o_bases o2) dflt_basis = nth i (o_bases o) dflt_basis) /\
  (let bd2 := nth d (o_bases o2) dflt_basis in
   b_order bd2 = p /\ b_per1 bd2 = (per1 - 1)%nat /\
   @b_start R NumR bd2 = @b_start R NumR bd /\ @b_end R NumR bd2 = @b_end R NumR bd /\ @b_nfun R bd2 = (n + 1)%nat) /\
  ((2 <= per1)%nat -> canon_dir o2 d (n + 1) T) /\
  forall ts,
    (forall i, (i < length (o_bases o))%nat -> i <> d -> in_dom tol (nth i (o_bases o) dflt_basis) (nth i ts 0)) ->
    @b_start R NumR bd <= nth d ts 0 <= @b_end R NumR bd ->
    @obj_eval R NumR tol o2 ts = @obj_eval R NumR tol o ts.
Proof.
  split; [exact lo_step|]. split; [exact lo_wf2|].
  split; [unfold obj_along; cbn [o_bases]; rewrite !upd_length; reflexivity|].
  split; [intros i Hi; unfold obj_along; cbn [o_bases]; rewrite !upd_nth_other by exact Hi; reflexivity|].
  split.
  { cbv zeta. rewrite lo_nth2. cbn [b_order b_per1].
    split; [reflexivity|]. split; [reflexivity|].
    split; [rewrite lo_start2; exact (pi_start1 o d Hd n T Hcan x lo_x)|].
    split; [rewrite lo_end2; exact (pi_end1 o d Hd n T Hcan x lo_x)|].
    unfold b_nfun. cbn [b_knots b_order b_per1]. rewrite lo_len_tl. pose proof lo_can as (_ & Hper1 & Hpp & _). lia. }
  split; [exact lo_canon2|exact lo_eval].
Qed.
End LowerOne.

(* 3a. one step of obj_lower_periodic (insert the start knot, roll by one, drop the last knot): the recursion of the
       model performs it, the result is well formed, has the same domain and one more function, continuity lowered by
       one, is again canonical when still periodic, and obj_eval is preserved at every parameter tuple whose d-th
       entry lies in the closed base period [start, end] *)
Theorem lower_periodic_step_eval tol (o : obj R) d n T :
  0 < tol -> wf_obj_R tol o -> (d < length (o_bases o))%nat -> canon_dir o d n T ->
  let bd := nth d (o_bases o) dflt_basis in
  exists o2,
  (forall fuel target, (target < b_per1 bd)%nat ->
     @obj_lower_periodic R NumR (S fuel) o target d = @obj_lower_periodic R NumR fuel o2 target d) /\
  wf_obj_R tol o2 /\ length (o_bases o2) = length (o_bases o) /\
  (forall i, i <> d -> nth i (o_bases o2) dflt_basis = nth i (o_bases o) dflt_basis) /\
  (let bd2 := nth d (o_bases o2) dflt_basis in
   b_order bd2 = b_order bd /\ b_per1 bd2 = (b_per1 bd - 1)%nat /\
   @b_start R NumR bd2 = @b_start R NumR bd /\ @b_end R NumR bd2 = @b_end R NumR bd /\ @b_nfun R bd2 = (n + 1)%nat) /\
  ((2 <= b_per1 bd)%nat -> canon_dir o2 d (n + 1) T) /\
  forall ts,
    (forall i, (i < length (o_bases o))%nat -> i <> d -> in_dom tol (nth i (o_bases o) dflt_basis) (nth i ts 0)) ->
    @b_start R NumR bd <= nth d ts 0 <= @b_end R NumR bd ->
    @obj_eval R NumR tol o2 ts = @obj_eval R NumR tol o ts.
Proof.
  intros Htol Hwf Hd Hcan bd. eexists. exact (lo_package tol Htol o Hwf d Hd n T Hcan).
Qed.

Lemma lower_periodic_done fuel (o : obj R) target d :
  b_per1 (nth d (o_bases o) dflt_basis) = target -> @obj_lower_periodic R NumR fuel o target d = Ok o.
Proof.
  intros E. change dflt_basis with (@mkBasis R 0 [] 0) in E.
  destruct fuel; cbn [obj_lower_periodic]; rewrite E, Nat.ltb_irrefl; reflexivity.
Qed.

(* 3. the whole iteration: from per1 = target + m down to target (target = 0: the direction is opened), any fuel >= m *)
Theorem lower_periodic_eval tol d : 0 < tol ->
  forall m (o : obj R) n T target fuel,
  wf_obj_R tol o -> (d < length (o_bases o))%nat -> canon_dir o d n T ->
  let bd := nth d (o_bases o) dflt_basis in
  b_per1 bd = (target + m)%nat -> (m <= fuel)%nat ->
  exists o', @obj_lower_periodic R NumR fuel o target d = Ok o' /\
    wf_obj_R tol o' /\ length (o_bases o') = length (o_bases o) /\
    (forall i, i <> d -> nth i (o_bases o') dflt_basis = nth i (o_bases o) dflt_basis) /\
    (let bd' := nth d (o_bases o') dflt_basis in
     b_order bd' = b_order bd /\ b_per1 bd' = target /\
     @b_start R NumR bd' = @b_start R NumR bd /\ @b_end R NumR bd' = @b_end R NumR bd /\ @b_nfun R bd' = (n + m)%nat) /\
    ((1 <= target)%nat -> canon_dir o' d (n + m) T) /\
    forall ts,
      (forall i, (i < length (o_bases o))%nat -> i <> d -> in_dom tol (nth i (o_bases o) dflt_basis) (nth i ts 0)) ->
      @b_start R NumR bd <= nth d ts 0 <= @b_end R NumR bd ->
      @obj_eval R NumR tol o' ts = @obj_eval R NumR tol o ts.
Proof.
  intros Htol. induction m as [|m IH]; intros o n T target fuel Hwf Hd Hcan bd Hper Hfuel.
  - exists o. rewrite Nat.add_0_r in Hper. split; [apply lower_periodic_done; exact Hper|].
    split; [exact Hwf|]. split; [reflexivity|]. split; [intros; reflexivity|].
    split.
    { cbv zeta. fold bd. split; [reflexivity|]. split; [exact Hper|]. split; [reflexivity|]. split; [reflexivity|].
      destruct Hcan as (_ & _ & _ & Hlen & _). fold bd in Hlen. unfold b_nfun. rewrite Hlen. lia. }
    split; [intros _; rewrite Nat.add_0_r; exact Hcan|]. intros; reflexivity.
  - destruct fuel as [|fuel]; [lia|].
    destruct (lower_periodic_step_eval tol o d n T Htol Hwf Hd Hcan) as (o2 & Hstep & Hwf2 & Hl2 & Hoth2 & Hb2 & Hcan2 & Hev2).
    cbv zeta in Hb2. fold bd in Hstep, Hb2, Hcan2, Hev2. destruct Hb2 as (Ho2 & Hp2 & Hs2 & He2 & Hn2).
    rewrite (Hstep fuel target ltac:(lia)).
    assert (Hfin : forall o', @obj_lower_periodic R NumR fuel o2 target d = Ok o' ->
      wf_obj_R tol o' -> length (o_bases o') = length (o_bases o2) ->
      (forall i, i <> d -> nth i (o_bases o') dflt_basis = nth i (o_bases o2) dflt_basis) ->
      (let bd' := nth d (o_bases o') dflt_basis in
       b_order bd' = b_order (nth d (o_bases o2) dflt_basis) /\ b_per1 bd' = target /\
       @b_start R NumR bd' = @b_start R NumR (nth d (o_bases o2) dflt_basis) /\
       @b_end R NumR bd' = @b_end R NumR (nth d (o_bases o2) dflt_basis) /\ @b_nfun R bd' = (n + 1 + m)%nat) ->
      ((1 <= target)%nat -> canon_dir o' d (n + 1 + m) T) ->
      (forall ts,
        (forall i, (i < length (o_bases o2))%nat -> i <> d -> in_dom tol (nth i (o_bases o2) dflt_basis) (nth i ts 0)) ->
        @b_start R NumR (nth d (o_bases o2) dflt_basis) <= nth d ts 0 <= @b_end R NumR (nth d (o_bases o2) dflt_basis) ->
        @obj_eval R NumR tol o' ts = @obj_eval R NumR tol o2 ts) ->
      exists o', @obj_lower_periodic R NumR fuel o2 target d = Ok o' /\
        wf_obj_R tol o' /\ length (o_bases o') = length (o_bases o) /\
        (forall i, i <> d -> nth i (o_bases o') dflt_basis = nth i (o_bases o) dflt_basis) /\
        (let bd' := nth d (o_bases o') dflt_basis in
         b_order bd' = b_order bd /\ b_per1 bd' = target /\
         @b_start R NumR bd' = @b_start R NumR bd /\ @b_end R NumR bd' = @b_end R NumR bd /\ @b_nfun R bd' = (n + S m)%nat) /\
        ((1 <= target)%nat -> canon_dir o' d (n + S m) T) /\
        forall ts,
          (forall i, (i < length (o_bases o))%nat -> i <> d -> in_dom tol (nth i (o_bases o) dflt_basis) (nth i ts 0)) ->
          @b_start R NumR bd <= nth d ts 0 <= @b_end R NumR bd ->
          @obj_eval R NumR tol o' ts = @obj_eval R NumR tol o ts).
    { intros o' Hok Hwf' Hl' Hoth' Hb' Hcan' Hev'. cbv zeta in Hb'. destruct Hb' as (Ho' & Hp' & Hs' & He' & Hn').
      exists o'. split; [exact Hok|]. split; [exact Hwf'|]. split; [rewrite Hl'; exact Hl2|].
      split; [intros i Hi; rewrite (Hoth' i Hi); apply Hoth2; exact Hi|].
      split.
      { cbv zeta. split; [rewrite Ho'; exact Ho2|]. split; [exact Hp'|]. split; [rewrite Hs'; exact Hs2|].
        split; [rewrite He'; exact He2|]. rewrite Hn'. lia. }
      split; [intros H1; replace (n + S m)%nat with (n + 1 + m)%nat by lia; apply Hcan'; exact H1|].
      intros ts Hdom Ht. rewrite Hev'.
      - apply Hev2; assumption.
      - intros i Hi Ne. rewrite (Hoth2 i Ne). apply Hdom; [rewrite <- Hl2; exact Hi|exact Ne].
      - rewrite Hs2, He2. exact Ht. }
    destruct (le_lt_dec 2 (b_per1 bd)) as [H2|H2].
    + (* still periodic after the step: the induction hypothesis applies *)
      destruct (IH o2 (n + 1)%nat T target fuel Hwf2 ltac:(rewrite Hl2; exact Hd) (Hcan2 H2) ltac:(rewrite Hp2; lia) ltac:(lia))
        as (o' & Hok & Hwf' & Hl' & Hoth' & Hb' & Hcan' & Hev').
      apply (Hfin o' Hok Hwf' Hl' Hoth' Hb' Hcan' Hev').
    + (* per1 = 1, target = 0, m = 0: the step opens the direction and the recursion stops *)
      assert (Em : m = 0%nat) by lia. assert (Et : target = 0%nat) by lia. subst m target.
      apply (Hfin o2).
      * apply lower_periodic_done. rewrite Hp2. lia.
      * exact Hwf2.
      * reflexivity.
      * intros; reflexivity.
      * cbv zeta. split; [reflexivity|]. split; [rewrite Hp2; lia|]. split; [reflexivity|]. split; [reflexivity|]. rewrite Hn2. lia.
      * intros H1. lia.
      * intros; reflexivity.
Qed.

(* ------------------------------------------------------------------------------------------------ *)
(* Part E: a concrete instance (non-vacuity): the cubic periodic basis ex_knots of PeriodicInsert.v *)
(*         (order 4, continuity 2, 8 functions, period 8) with 8 control points in R^2              *)
(* ------------------------------------------------------------------------------------------------ *)
Definition ex_cps : list (list R) := [[1; 0]; [1; 1]; [0; 1]; [-1; 1]; [-1; 0]; [-1; -1]; [0; -1]; [1; -1]].
Definition ex_curve : obj R := mkObj [mkBasis 4 ex_knots 3] ex_cps 2 false.

Lemma ex_start : @b_start R NumR (mkBasis 4 ex_knots 3) = 0.
Proof. unfold b_start, kn, ex_knots. cbn. reflexivity. Qed.
Lemma ex_end : @b_end R NumR (mkBasis 4 ex_knots 3) = 8.
Proof. unfold b_end, kn, ex_knots. cbn. reflexivity. Qed.

Example ex_wf : wf_obj_R (1/1000) ex_curve.
Proof.
  split; [|split].
  - constructor; [|constructor]. split; [exact (proj1 ex_canon)|]. cbn [b_order b_knots].
    split; [lia|]. split; [cbn; lia|]. split; [unfold b_nfun; cbn; lia|]. rewrite ex_start, ex_end. lra.
  - unfold ex_curve, ex_cps. cbn [o_cps]. repeat constructor.
  - reflexivity.
Qed.

Example ex_canon_dir : canon_dir ex_curve 0 8 8.
Proof. exact ex_canon. Qed.

(* the three cases of the model's periodic insert_knot in one call: 1/2 (repair_right), 9/2 (interior), 15/2 (repair_left) *)
Example ex_insert_three t : 0 <= t <= 8 ->
  1/1000 <= Rabs (1/2 - t) -> 1/1000 <= Rabs (9/2 - t) -> 1/1000 <= Rabs (15/2 - t) ->
  exists o', @obj_insert_knots R NumR ex_curve 0 [1/2; 9/2; 15/2] = Ok o' /\
    wf_obj_R (1/1000) o' /\ canon_dir o' 0 11 8 /\
    @obj_eval R NumR (1/1000) o' [t] = @obj_eval R NumR (1/1000) ex_curve [t].
Proof.
  intros Ht F1 F2 F3.
  destruct (insert_knots_periodic_eval (1/1000) 0 [t] ltac:(lra) [1/2; 9/2; 15/2] ex_curve 8 8 ex_wf ltac:(cbn; lia) ex_canon_dir)
    as (o' & Hok & Hwf' & Hcan' & Hev' & _).
  - cbn [ex_curve o_bases nth]. rewrite ex_start, ex_end. intros x [<-|[<-|[<-|[]]]]; (split; [lra|]); right; left; assumption.
  - intros i Hi. cbn in Hi. assert (i = 0%nat) by lia. subst i. unfold in_dom. cbn [ex_curve o_bases nth b_per1]. intros E. discriminate.
  - cbn [ex_curve o_bases nth]. rewrite ex_start, ex_end. exact Ht.
  - exists o'. split; [exact Hok|]. split; [exact Hwf'|]. split; [exact Hcan'|exact Hev'].
Qed.

(* lower_periodic down to continuity 0 (still periodic) and down to an open curve *)
Example ex_lower_to_C0 :
  exists o', @obj_lower_periodic R NumR 2 ex_curve 1 0 = Ok o' /\ wf_obj_R (1/1000) o' /\ canon_dir o' 0 10 8 /\
    forall t, 0 <= t <= 8 -> @obj_eval R NumR (1/1000) o' [t] = @obj_eval R NumR (1/1000) ex_curve [t].
Proof.
  destruct (lower_periodic_eval (1/1000) 0 ltac:(lra) 2 ex_curve 8 8 1%nat 2%nat ex_wf ltac:(cbn; lia) ex_canon_dir eq_refl ltac:(lia))
    as (o' & Hok & Hwf' & _ & _ & _ & Hcan' & Hev').
  exists o'. split; [exact Hok|]. split; [exact Hwf'|]. split; [apply Hcan'; lia|].
  intros t Ht. apply Hev'.
  - intros i Hi Ne. cbn in Hi. lia.
  - cbn [ex_curve o_bases nth]. rewrite ex_start, ex_end. exact Ht.
Qed.

Example ex_lower_open :
  exists o', @obj_lower_periodic R NumR 3 ex_curve 0 0 = Ok o' /\ wf_obj_R (1/1000) o' /\
    b_per1 (nth 0 (o_bases o') dflt_basis) = 0%nat /\ @b_nfun R (nth 0 (o_bases o') dflt_basis) = 11%nat /\
    @b_start R NumR (nth 0 (o_bases o') dflt_basis) = 0 /\ @b_end R NumR (nth 0 (o_bases o') dflt_basis) = 8 /\
    forall t, 0 <= t <= 8 -> @obj_eval R NumR (1/1000) o' [t] = @obj_eval R NumR (1/1000) ex_curve [t].
Proof.
  destruct (lower_periodic_eval (1/1000) 0 ltac:(lra) 3 ex_curve 8 8 0%nat 3%nat ex_wf ltac:(cbn; lia) ex_canon_dir eq_refl ltac:(lia))
    as (o' & Hok & Hwf' & _ & _ & Hb' & _ & Hev').
  cbv zeta in Hb'. destruct Hb' as (_ & Hp' & Hs' & He' & Hn').
  cbn [ex_curve o_bases nth] in Hs', He'. rewrite ex_start in Hs'. rewrite ex_end in He'.
  exists o'. split; [exact Hok|]. split; [exact Hwf'|]. split; [exact Hp'|]. split; [exact Hn'|]. split; [exact Hs'|]. split; [exact He'|].
  intros t Ht. apply Hev'.
  - intros i Hi Ne. cbn in Hi. lia.
  - cbn [ex_curve o_bases nth]. rewrite ex_start, ex_end. exact Ht.
Qed.

