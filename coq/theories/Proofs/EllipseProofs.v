(* C13 -- curve_factory.ellipse and curve_factory.n_gon (Model/Ellipse.v): the shapes they name.
   Built on Proofs/CircleProofs.v (the two hard-coded circle nets lie on the unit circle, span by span),
   Proofs/AffineProofs.v (coordinate-wise linear maps of the control points commute with evaluation),
   Proofs/ThreePoint.v (order-2 curves). *)
From Coq Require Import List Arith Reals Lra Lia Bool ZArith Psatz.
From Coq Require Nsatz.
From SplipyModel Require Import Spec.BSpline Model.Num Model.BasisDef Model.Tensor Model.Obj Model.Affine
  Gen.RotationMatrix Gen.CircleNets
  Proofs.TensorLemmas Proofs.EvalConsequences Proofs.EvaluateSpec Proofs.ObjEval Proofs.TensorApply Proofs.AffineProofs
  Proofs.CircleProofs Proofs.PlaceProofs Proofs.LoftProofs Proofs.ThreePoint.
From SplipyModel Require Import Model.Ellipse.
Import ListNotations.
Open Scope R_scope.

(* ---------- 0. booleans on R ---------- *)
Lemma Reqb_refl x : Reqb x x = true.
Proof. destruct (Reqb_spec x x); congruence. Qed.
Lemma Reqb_10 : Reqb 1 0 = false.
Proof. destruct (Reqb_spec 1 0); [lra|reflexivity]. Qed.
Lemma Rltb_10 : Rltb 1 0 = false.
Proof. destruct (Rltb_spec 1 0); [lra|reflexivity]. Qed.
Lemma Rleb_10 : Rleb 1 0 = false.
Proof. destruct (Rleb_spec 1 0); [lra|reflexivity]. Qed.

Lemma allclose_refl rtol atol (a : list R) : 0 <= rtol -> 0 <= atol -> @allclose R NumR rtol atol a a = true.
Proof.
  intros Hr Ha. unfold allclose. induction a as [|x a IH]; cbn [combine forallb]; [reflexivity|].
  rewrite IH, andb_true_r. cbn [fst snd]. rewrite !nabs_R. cbn [nleb nsub nadd nmul NumR].
  destruct (Rleb_spec (Rabs (x - x)) (atol + rtol * Rabs x)) as [|N]; [reflexivity|].
  exfalso. apply N. replace (x - x) with 0 by ring. rewrite Rabs_R0. pose proof (Rabs_pos x). nra.
Qed.

(* ---------- 1. the model operations on a planar rational object, control point by control point ---------- *)
Definition sc2 (a b : R) (v : list R) : list R := [nth 0 v 0 * a; nth 1 v 0 * b] ++ skipn 2 v.
Definition rt2 (ch sh : R) (v : list R) : list R :=
  [nth 0 v 0 * (ch * ch - sh * sh) - nth 1 v 0 * (2 * sh * ch); nth 0 v 0 * (2 * sh * ch) + nth 1 v 0 * (ch * ch - sh * sh)] ++ skipn 2 v.
(* rotation_matrix(phi, (0,1,0)), rotation_matrix(theta, (0,0,1)) exactly as obj_rotate builds them (axis * 1/|axis|) *)
Definition RyM (cp sp : R) := @rotmat R NumR cp (0 - 0 * 1 * sp) (0 - 1 * 1 * sp) (0 - 0 * 1 * sp).
Definition RzM (ct st : R) := @rotmat R NumR ct (0 - 0 * 1 * st) (0 - 0 * 1 * st) (0 - 1 * 1 * st).
Definition r3 (M : list (list R)) (v : list R) : list R := @vecmat R NumR (firstn 3 v) M 3 ++ skipn 3 v.
Definition tr3 (x : list R) (rat : bool) (v : list R) : list R :=
  map (fun i => nth i v 0 + nth i x 0 * (if rat then nth 3 v 0 else 1)) (seq 0 3) ++ skipn 3 v.

Section Ops.
Variables (bs : list (basis R)) (cps : list (list R)) (rt : bool).
Lemma scale3_2 a b c : @obj_scale R NumR (mkObj bs cps 2 rt) [a; b; c] = Ok (mkObj bs (map (sc2 a b) cps) 2 rt).
Proof. reflexivity. Qed.
Lemma scale1_2 a : @obj_scale R NumR (mkObj bs cps 2 rt) [a] = Ok (mkObj bs (map (sc2 a a) cps) 2 rt).
Proof. reflexivity. Qed.
Lemma rotate_2 ch sh : @obj_rotate R NumR (mkObj bs cps 2 rt) ch sh zaxis n1 = Ok (mkObj bs (map (rt2 ch sh) cps) 2 rt).
Proof.
  unfold obj_rotate. cbv zeta. cbn [zaxis nth n0 n1 neqb nltb NumR]. rewrite Reqb_refl, Rltb_10.
  cbn [andb o_dim Nat.eqb]. reflexivity.
Qed.
Lemma rotate_y cp sp : @obj_rotate R NumR (mkObj bs cps 2 rt) cp sp yaxis n1
  = Ok (mkObj bs (map (fun v => r3 (RyM cp sp) (@pt_set_dim R NumR 2 3 rt v)) cps) 3 rt).
Proof.
  unfold obj_rotate. cbv zeta. cbn [yaxis nth n0 n1 neqb NumR]. rewrite Reqb_refl, Reqb_10.
  cbn [andb]. unfold obj_set_dimension, map_cps. cbn [o_dim o_bases o_cps o_rat Nat.eqb]. rewrite map_map. reflexivity.
Qed.
Lemma rotate_z3 ct st : @obj_rotate R NumR (mkObj bs cps 3 rt) ct st zaxis n1
  = Ok (mkObj bs (map (r3 (RzM ct st)) cps) 3 rt).
Proof.
  unfold obj_rotate. cbv zeta. cbn [zaxis nth n0 n1 neqb NumR]. rewrite Reqb_refl.
  cbn [andb o_dim Nat.eqb]. reflexivity.
Qed.
Lemma translate_3 x0 x1 x2 : @obj_translate R NumR (mkObj bs cps 3 rt) [x0; x1; x2]
  = Ok (mkObj bs (map (tr3 [x0; x1; x2] rt) cps) 3 rt).
Proof. reflexivity. Qed.
Lemma translate_2 x0 x1 x2 : @obj_translate R NumR (mkObj bs cps 2 rt) [x0; x1; x2]
  = Ok (mkObj bs (map (fun v => tr3 [x0; x1; x2] rt (@pt_set_dim R NumR 2 3 rt v)) cps) 3 rt).
Proof. unfold obj_translate. cbv zeta. cbn [length Nat.ltb Nat.leb o_dim]. unfold obj_set_dimension, map_cps.
  cbn [o_dim o_bases o_cps o_rat length Nat.ltb Nat.leb]. rewrite map_map. reflexivity. Qed.
End Ops.

(* ---------- 2. coordinate-wise linear maps of homogeneous planar points [x; y; w] ---------- *)
Definition pt3 (v : list R) : Prop := exists x y w, v = [x; y; w].
Ltac pt3_tac := repeat (apply Forall_cons; [do 3 eexists; reflexivity|]); apply Forall_nil.
Lemma net2_pt3 : Forall pt3 (@circle_net_p2C0 R NumR (sqrt 2)).
Proof. unfold circle_net_p2C0. cbv zeta. pt3_tac. Qed.
Lemma net4_pt3 : Forall pt3 (@circle_net_p4C1 R NumR (sqrt 2)).
Proof. unfold circle_net_p4C1. cbv zeta. pt3_tac. Qed.

(* row i of M = coefficients of (x, y, w) in output coordinate i *)
Definition Lgen (M : list (list R)) (v : list R) : list R :=
  map (fun row => nth 0 row 0 * nth 0 v 0 + nth 1 row 0 * nth 1 v 0 + nth 2 row 0 * nth 2 v 0) M.

Lemma teval_Lgen M rows cps c' : net_ok 3 rows cps -> (0 < prodl (map (@length R) rows))%nat -> (c' < length M)%nat ->
  coord c' (@teval R NumR (length M) rows (map (Lgen M) cps))
  = nth 0 (nth c' M []) 0 * coord 0 (@teval R NumR 3 rows cps) + nth 1 (nth c' M []) 0 * coord 1 (@teval R NumR 3 rows cps)
    + nth 2 (nth c' M []) 0 * coord 2 (@teval R NumR 3 rows cps).
Proof.
  intros Hnet Hpos Hc.
  rewrite (teval_affine 3 (length M) c' [nth 0 (nth c' M []) 0; nth 1 (nth c' M []) 0; nth 2 (nth c' M []) 0] 0 (Lgen M) rows cps Hc eq_refl Hnet).
  - cbn [sumf nth]. ring.
  - apply Forall_forall. intros v _. unfold Lgen. apply map_length.
  - left. reflexivity.
  - intros v _. unfold coord, Lgen. rewrite (nth_map_gen _ M c' 0 []) by exact Hc. cbn [sumf nth]. ring.
  - exact Hpos.
Qed.

Lemma unit_circle_inv ty c0 : @unit_circle R NumR (sqrt 2) PI ty = Ok c0 ->
  o_dim c0 = 2%nat /\ o_rat c0 = true /\ Forall pt3 (o_cps c0) /\
  ((ty = P2C0 /\ o_cps c0 = @circle_net_p2C0 R NumR (sqrt 2)) \/ (ty = P4C1 /\ o_cps c0 = @circle_net_p4C1 R NumR (sqrt 2))).
Proof.
  destruct ty; cbn [unit_circle]; intros E; inversion E; subst; cbn [o_dim o_rat o_cps].
  - repeat split; [apply net2_pt3|left; split; reflexivity].
  - repeat split; [apply net4_pt3|right; split; reflexivity].
Qed.

Section Chain.
Variables rtol atol : R.
Hypothesis Hrtol : 0 <= rtol.
Hypothesis Hatol : 0 <= atol.

(* line 191: circle(type=type) with all defaults *)
Lemma inner_circle ty c0 : @unit_circle R NumR (sqrt 2) PI ty = Ok c0 ->
  @circle_obj R NumR rtol atol (sqrt 2) PI n1 [n0; n0; n0] zaxis ty n1 n0 n1 n0 n1 n0
  = Ok (mkObj (o_bases c0) (map (fun v => rt2 1 0 (sc2 1 1 v)) (o_cps c0)) 2 true).
Proof.
  intros E. unfold circle_obj. cbn [nleb NumR n1 n0]. rewrite Rleb_10. cbn [zaxis length Nat.ltb Nat.leb].
  rewrite E. cbn [bind].
  assert (Hc : c0 = mkObj (o_bases c0) (o_cps c0) 2 true).
  { destruct ty; cbn [unit_circle] in E; inversion E; reflexivity. }
  rewrite Hc at 1. rewrite scale1_2. cbn [bind]. rewrite rotate_2. cbn [bind].
  unfold flip_and_move. cbn [length Nat.eqb negb repeat].
  change (@zaxis R NumR) with [0; 0; 1]. rewrite !allclose_refl by assumption.
  cbn [negb bind]. rewrite map_map. reflexivity.
Qed.
End Chain.

(* ---------- 3. flip_and_move_plane_geometry on a planar object, and the control net of the model ellipse ---------- *)
Definition tilt (cp sp ct st : R) (p : list R) : list R := rv (rv p (RyM cp sp)) (RzM ct st).
Definition mv (bc : bool) (c : list R) (rt : bool) (v : list R) : list R := if bc then v else tr3 c rt v.
(* output coordinate i = r1 * E1_i * x + r2 * E2_i * y + e_i * w; the weight is copied *)
Definition frameM (r1 r2 : R) (E1 E2 e : list R) : list (list R) :=
  [[r1 * nth 0 E1 0; r2 * nth 0 E2 0; nth 0 e 0]; [r1 * nth 1 E1 0; r2 * nth 1 E2 0; nth 1 e 0];
   [r1 * nth 2 E1 0; r2 * nth 2 E2 0; nth 2 e 0]; [0; 0; 1]].
Definition frameM2 (r1 r2 : R) (E1 E2 : list R) : list (list R) :=
  [[r1 * nth 0 E1 0; r2 * nth 0 E2 0; 0]; [r1 * nth 1 E1 0; r2 * nth 1 E2 0; 0]; [0; 0; 1]].
Definition cs2 (ca sa : R) : R := ca * ca - sa * sa.
Definition sn2 (ca sa : R) : R := 2 * sa * ca.

Section Flip.
Variables rtol atol : R.
Variables (bs : list (basis R)) (cps : list (list R)) (rt : bool).
Variables (e0 e1 e2 : R) (normal : list R) (cp sp ct st : R).
Hypothesis Hlen : length normal = 3%nat.
Local Notation center := [e0; e1; e2].
Local Notation bn := (@allclose R NumR rtol atol normal [0; 0; 1]).
Local Notation bc := (@allclose R NumR rtol atol center [0; 0; 0]).

Lemma flip_flat : bn = true ->
  @flip_and_move R NumR rtol atol (mkObj bs cps 2 rt) center normal cp sp ct st
  = Ok (if bc then mkObj bs cps 2 rt else mkObj bs (map (fun v => tr3 center rt (@pt_set_dim R NumR 2 3 rt v)) cps) 3 rt).
Proof.
  intros Hn. unfold flip_and_move. rewrite Hlen. cbn [Nat.eqb negb length repeat].
  change (@zaxis R NumR) with [0; 0; 1]. change (@n0 R NumR) with 0. rewrite Hn. cbn [negb bind].
  destruct bc; cbn [negb]; [reflexivity|]. apply translate_2.
Qed.

Lemma flip_tilt : bn = false ->
  @flip_and_move R NumR rtol atol (mkObj bs cps 2 rt) center normal cp sp ct st
  = Ok (mkObj bs (map (fun v => mv bc center rt (r3 (RzM ct st) (r3 (RyM cp sp) (@pt_set_dim R NumR 2 3 rt v)))) cps) 3 rt).
Proof.
  intros Hn. unfold flip_and_move. rewrite Hlen. cbn [Nat.eqb negb length repeat].
  change (@zaxis R NumR) with [0; 0; 1] at 1. change (@n0 R NumR) with 0. rewrite Hn. cbn [negb bind].
  rewrite rotate_y. cbn [bind]. rewrite rotate_z3. cbn [bind]. rewrite map_map.
  unfold mv. destruct bc; cbn [negb]; [reflexivity|]. rewrite translate_3, map_map. reflexivity.
Qed.
End Flip.

Definition pre (r1 r2 ca sa : R) (v : list R) : list R := rt2 ca sa (sc2 r1 r2 (rt2 1 0 (sc2 1 1 v))).

Ltac unfold_pt := unfold mv, tr3, r3, pre, rt2, sc2, pt_set_dim, Lgen, frameM, frameM2, tilt, rv, vecmat, RyM, RzM, rotmat, cs2, sn2; cbv zeta;
  cbn [map seq length combine fold_left fst snd nth app skipn firstn repeat Nat.leb Nat.sub nadd nsub nmul ndiv nofZ n0 n1 NumR].

Section EllipseNet.
Variables rtol atol : R.
Hypothesis Hrtol : 0 <= rtol.
Hypothesis Hatol : 0 <= atol.
Variables (r1 r2 e0 e1 e2 : R) (normal : list R) (ca sa cp sp ct st : R).
Hypothesis Hlen : length normal = 3%nat.
Local Notation center := [e0; e1; e2].
Local Notation bn := (@allclose R NumR rtol atol normal [0; 0; 1]).
Local Notation bc := (@allclose R NumR rtol atol center [0; 0; 0]).
Local Notation ell ty := (@ellipse_obj R NumR rtol atol (sqrt 2) PI r1 r2 center normal ty ca sa cp sp ct st).

Lemma ellipse_pre ty c0 : @unit_circle R NumR (sqrt 2) PI ty = Ok c0 ->
  ell ty = @flip_and_move R NumR rtol atol (mkObj (o_bases c0) (map (pre r1 r2 ca sa) (o_cps c0)) 2 true) center normal cp sp ct st.
Proof.
  intros E. unfold ellipse_obj. rewrite (inner_circle rtol atol Hrtol Hatol ty c0 E). cbn [bind].
  rewrite Hlen. cbn [Nat.ltb Nat.leb]. change (@n1 R NumR) with 1. rewrite scale3_2. cbn [bind]. rewrite rotate_2. cbn [bind].
  rewrite !map_map. reflexivity.
Qed.

(* normal within np.allclose of (0,0,1): no tilt; centre not within np.allclose of 0: translated, the result is 3-D *)
Theorem ellipse_net_flat ty c0 : @unit_circle R NumR (sqrt 2) PI ty = Ok c0 -> bn = true -> bc = false ->
  ell ty = Ok (mkObj (o_bases c0)
                 (map (Lgen (frameM r1 r2 [cs2 ca sa; sn2 ca sa; 0] [- sn2 ca sa; cs2 ca sa; 0] center)) (o_cps c0)) 3 true).
Proof.
  intros E Hn Hc. rewrite (ellipse_pre ty c0 E), (flip_flat rtol atol _ _ _ e0 e1 e2 normal cp sp ct st Hlen Hn), Hc. cbv iota.
  f_equal. f_equal. rewrite map_map. apply map_ext_in. intros v Hin.
  destruct (unit_circle_inv ty c0 E) as (_ & _ & Hpt & _). rewrite Forall_forall in Hpt.
  destruct (Hpt v Hin) as (x & y & w & ->). unfold_pt. repeat (f_equal; try ring).
Qed.

(* the same with the centre within np.allclose of 0: NOT translated, the result stays 2-D *)
Theorem ellipse_net_flat0 ty c0 : @unit_circle R NumR (sqrt 2) PI ty = Ok c0 -> bn = true -> bc = true ->
  ell ty = Ok (mkObj (o_bases c0)
                 (map (Lgen (frameM2 r1 r2 [cs2 ca sa; sn2 ca sa; 0] [- sn2 ca sa; cs2 ca sa; 0])) (o_cps c0)) 2 true).
Proof.
  intros E Hn Hc. rewrite (ellipse_pre ty c0 E), (flip_flat rtol atol _ _ _ e0 e1 e2 normal cp sp ct st Hlen Hn), Hc. cbv iota.
  f_equal. f_equal. apply map_ext_in. intros v Hin.
  destruct (unit_circle_inv ty c0 E) as (_ & _ & Hpt & _). rewrite Forall_forall in Hpt.
  destruct (Hpt v Hin) as (x & y & w & ->). unfold_pt. repeat (f_equal; try ring).
Qed.

(* normal not within np.allclose of (0,0,1): rotate(phi, y), rotate(theta, z), then translate by the effective centre *)
Theorem ellipse_net_tilt ty c0 : @unit_circle R NumR (sqrt 2) PI ty = Ok c0 -> bn = false ->
  ell ty = Ok (mkObj (o_bases c0)
                 (map (Lgen (frameM r1 r2 (tilt cp sp ct st [cs2 ca sa; sn2 ca sa; 0]) (tilt cp sp ct st [- sn2 ca sa; cs2 ca sa; 0])
                                   (if bc then [0; 0; 0] else center))) (o_cps c0)) 3 true).
Proof.
  intros E Hn. rewrite (ellipse_pre ty c0 E), (flip_tilt rtol atol _ _ _ e0 e1 e2 normal cp sp ct st Hlen Hn).
  f_equal. f_equal. rewrite map_map. apply map_ext_in. intros v Hin.
  destruct (unit_circle_inv ty c0 E) as (_ & _ & Hpt & _). rewrite Forall_forall in Hpt.
  destruct (Hpt v Hin) as (x & y & w & ->). destruct bc; unfold_pt; repeat (f_equal; try ring).
Qed.
End EllipseNet.

(* ---------- 4. the shape: an orthonormal frame (E1, E2) in the plane orthogonal to Nn ---------- *)
Definition bl3 (cps : list (list R)) (j : nat) (b0 b1 b2 : R) (c : nat) : R :=
  b0 * nth c (nth (2 * j) cps []) 0 + b1 * nth c (nth (2 * j + 1) cps []) 0 + b2 * nth c (nth ((2 * j + 2) mod 8) cps []) 0.
Definition bl5 (cps : list (list R)) (j : nat) (u : R) (c : nat) : R :=
  nth 0 (q4 u) 0 * nth c (nth ((3 * j + 0) mod 12) cps []) 0 + nth 1 (q4 u) 0 * nth c (nth ((3 * j + 1) mod 12) cps []) 0
  + nth 2 (q4 u) 0 * nth c (nth ((3 * j + 2) mod 12) cps []) 0 + nth 3 (q4 u) 0 * nth c (nth ((3 * j + 3) mod 12) cps []) 0
  + nth 4 (q4 u) 0 * nth c (nth ((3 * j + 4) mod 12) cps []) 0.

Lemma bl3_Lgen M cps j b0 b1 b2 c' : length cps = 8%nat -> (j < 4)%nat -> (c' < length M)%nat ->
  bl3 (map (Lgen M) cps) j b0 b1 b2 c'
  = nth 0 (nth c' M []) 0 * bl3 cps j b0 b1 b2 0 + nth 1 (nth c' M []) 0 * bl3 cps j b0 b1 b2 1 + nth 2 (nth c' M []) 0 * bl3 cps j b0 b1 b2 2.
Proof.
  intros Hl Hj Hc. unfold bl3.
  assert (Hm : ((2 * j + 2) mod 8 < 8)%nat) by (apply Nat.mod_upper_bound; lia).
  rewrite !(nth_map_gen (Lgen M) cps _ [] []) by lia. unfold Lgen.
  rewrite !(nth_map_gen _ M c' 0 []) by exact Hc. ring.
Qed.
Lemma bl5_Lgen M cps j u c' : length cps = 12%nat -> (c' < length M)%nat ->
  bl5 (map (Lgen M) cps) j u c'
  = nth 0 (nth c' M []) 0 * bl5 cps j u 0 + nth 1 (nth c' M []) 0 * bl5 cps j u 1 + nth 2 (nth c' M []) 0 * bl5 cps j u 2.
Proof.
  intros Hl Hc. unfold bl5.
  assert (Hm : forall a, (a mod 12 < length cps)%nat) by (intro a; rewrite Hl; apply Nat.mod_upper_bound; lia).
  rewrite !(nth_map_gen (Lgen M) cps _ [] []) by apply Hm. unfold Lgen.
  rewrite !(nth_map_gen _ M c' 0 []) by exact Hc. ring.
Qed.

Section Shape.
Variables (r1 r2 : R) (E1 E2 Nn e : list R).
Hypothesis H11 : dot3 E1 E1 = 1.
Hypothesis H22 : dot3 E2 E2 = 1.
Hypothesis H12 : dot3 E1 E2 = 0.
Hypothesis H1n : dot3 E1 Nn = 0.
Hypothesis H2n : dot3 E2 Nn = 0.

(* (X, Y, W): homogeneous point of the unit circle; P: homogeneous point of the placed ellipse *)
Definition shape_ok (X Y W : R) (P : nat -> R) : Prop :=
  let d := [P 0%nat - nth 0 e 0 * W; P 1%nat - nth 1 e 0 * W; P 2%nat - nth 2 e 0 * W] in
  P 3%nat = W /\ dot3 d Nn = 0 /\ dot3 d E1 = r1 * X /\ dot3 d E2 = r2 * Y /\
  (X * X + Y * Y = W * W ->
   r2 * r2 * (dot3 d E1 * dot3 d E1) + r1 * r1 * (dot3 d E2 * dot3 d E2) = r1 * r1 * (r2 * r2) * (W * W)).

Lemma shape_alg X Y W (P : nat -> R) :
  (forall c, (c < 4)%nat -> P c = nth 0 (nth c (frameM r1 r2 E1 E2 e) []) 0 * X + nth 1 (nth c (frameM r1 r2 E1 E2 e) []) 0 * Y
                              + nth 2 (nth c (frameM r1 r2 E1 E2 e) []) 0 * W) ->
  shape_ok X Y W P.
Proof.
  intros HP. unfold shape_ok. cbv zeta.
  pose proof (HP 0%nat ltac:(lia)) as P0. pose proof (HP 1%nat ltac:(lia)) as P1.
  pose proof (HP 2%nat ltac:(lia)) as P2. pose proof (HP 3%nat ltac:(lia)) as P3.
  unfold frameM in P0, P1, P2, P3. cbn [nth] in P0, P1, P2, P3.
  unfold dot3 in *. cbn [nth] in *.
  assert (Dn : (P 0%nat - nth 0 e 0 * W) * nth 0 Nn 0 + (P 1%nat - nth 1 e 0 * W) * nth 1 Nn 0 + (P 2%nat - nth 2 e 0 * W) * nth 2 Nn 0 = 0).
  { rewrite P0, P1, P2.
    transitivity (r1 * X * (nth 0 E1 0 * nth 0 Nn 0 + nth 1 E1 0 * nth 1 Nn 0 + nth 2 E1 0 * nth 2 Nn 0)
                  + r2 * Y * (nth 0 E2 0 * nth 0 Nn 0 + nth 1 E2 0 * nth 1 Nn 0 + nth 2 E2 0 * nth 2 Nn 0)); [ring|].
    rewrite H1n, H2n. ring. }
  assert (D1 : (P 0%nat - nth 0 e 0 * W) * nth 0 E1 0 + (P 1%nat - nth 1 e 0 * W) * nth 1 E1 0 + (P 2%nat - nth 2 e 0 * W) * nth 2 E1 0 = r1 * X).
  { rewrite P0, P1, P2.
    transitivity (r1 * X * (nth 0 E1 0 * nth 0 E1 0 + nth 1 E1 0 * nth 1 E1 0 + nth 2 E1 0 * nth 2 E1 0)
                  + r2 * Y * (nth 0 E1 0 * nth 0 E2 0 + nth 1 E1 0 * nth 1 E2 0 + nth 2 E1 0 * nth 2 E2 0)); [ring|].
    rewrite H11, H12. ring. }
  assert (D2 : (P 0%nat - nth 0 e 0 * W) * nth 0 E2 0 + (P 1%nat - nth 1 e 0 * W) * nth 1 E2 0 + (P 2%nat - nth 2 e 0 * W) * nth 2 E2 0 = r2 * Y).
  { rewrite P0, P1, P2.
    transitivity (r1 * X * (nth 0 E1 0 * nth 0 E2 0 + nth 1 E1 0 * nth 1 E2 0 + nth 2 E1 0 * nth 2 E2 0)
                  + r2 * Y * (nth 0 E2 0 * nth 0 E2 0 + nth 1 E2 0 * nth 1 E2 0 + nth 2 E2 0 * nth 2 E2 0)); [ring|].
    rewrite H22, H12. ring. }
  split; [rewrite P3; ring|]. split; [exact Dn|]. split; [exact D1|]. split; [exact D2|].
  intros HC. rewrite D1, D2.
  transitivity (r1 * r1 * (r2 * r2) * (X * X + Y * Y)); [ring|]. rewrite HC. ring.
Qed.

(* cartesian reading: the point p = P/W, in the frame (E1, E2) centred at e, satisfies the ellipse equation *)
Lemma shape_cartesian X Y W P : shape_ok X Y W P -> X * X + Y * Y = W * W -> W <> 0 -> r1 <> 0 -> r2 <> 0 ->
  let q := [P 0%nat / W - nth 0 e 0; P 1%nat / W - nth 1 e 0; P 2%nat / W - nth 2 e 0] in
  dot3 q Nn = 0 /\ (dot3 q E1 / r1) * (dot3 q E1 / r1) + (dot3 q E2 / r2) * (dot3 q E2 / r2) = 1.
Proof.
  unfold shape_ok. cbv zeta. intros (_ & Dn & D1 & D2 & HQ) HC HW Hr1 Hr2. specialize (HQ HC).
  unfold dot3 in *. cbn [nth] in *.
  set (a0 := P 0%nat) in *. set (a1 := P 1%nat) in *. set (a2 := P 2%nat) in *.
  split.
  - transitivity (((a0 - nth 0 e 0 * W) * nth 0 Nn 0 + (a1 - nth 1 e 0 * W) * nth 1 Nn 0 + (a2 - nth 2 e 0 * W) * nth 2 Nn 0) / W);
      [field; exact HW|]. rewrite Dn. field. exact HW.
  - replace ((a0 / W - nth 0 e 0) * nth 0 E1 0 + (a1 / W - nth 1 e 0) * nth 1 E1 0 + (a2 / W - nth 2 e 0) * nth 2 E1 0)
      with (((a0 - nth 0 e 0 * W) * nth 0 E1 0 + (a1 - nth 1 e 0 * W) * nth 1 E1 0 + (a2 - nth 2 e 0 * W) * nth 2 E1 0) / W)
      by (field; exact HW).
    replace ((a0 / W - nth 0 e 0) * nth 0 E2 0 + (a1 / W - nth 1 e 0) * nth 1 E2 0 + (a2 / W - nth 2 e 0) * nth 2 E2 0)
      with (((a0 - nth 0 e 0 * W) * nth 0 E2 0 + (a1 - nth 1 e 0 * W) * nth 1 E2 0 + (a2 - nth 2 e 0 * W) * nth 2 E2 0) / W)
      by (field; exact HW).
    rewrite D1, D2.
    transitivity ((X * X + Y * Y) / (W * W)); [field; repeat split; assumption|]. rewrite HC. field. exact HW.
Qed.

Local Notation MM := (frameM r1 r2 E1 E2 e).

(* p2C0: knot span j, quadratic Bernstein weights *)
Theorem shape_p2C0 j b0 b1 b2 : (j < 4)%nat -> b1 * b1 = 4 * (b0 * b2) ->
  let net := @circle_net_p2C0 R NumR (sqrt 2) in
  shape_ok (bl3 net j b0 b1 b2 0) (bl3 net j b0 b1 b2 1) (bl3 net j b0 b1 b2 2) (bl3 (map (Lgen MM) net) j b0 b1 b2)
  /\ bl3 net j b0 b1 b2 0 * bl3 net j b0 b1 b2 0 + bl3 net j b0 b1 b2 1 * bl3 net j b0 b1 b2 1 = bl3 net j b0 b1 b2 2 * bl3 net j b0 b1 b2 2.
Proof.
  intros Hj Hb. cbv zeta. split.
  - apply shape_alg. intros c Hc. apply bl3_Lgen; [reflexivity|exact Hj|exact Hc].
  - exact (proj1 (circle_p2C0_span_on_circle j b0 b1 b2 Hj Hb)).
Qed.

(* p4C1: knot span j, the quartic weights q4 u of CircleProofs.B4_values *)
Theorem shape_p4C1 j u : (j < 4)%nat ->
  let net := @circle_net_p4C1 R NumR (sqrt 2) in
  shape_ok (bl5 net j u 0) (bl5 net j u 1) (bl5 net j u 2) (bl5 (map (Lgen MM) net) j u)
  /\ bl5 net j u 0 * bl5 net j u 0 + bl5 net j u 1 * bl5 net j u 1 = bl5 net j u 2 * bl5 net j u 2.
Proof.
  intros Hj. cbv zeta. split.
  - apply shape_alg. intros c Hc. apply bl5_Lgen; [reflexivity|exact Hc].
  - exact (circle_p4C1_span_on_circle j u Hj).
Qed.

(* any rows of basis values (any parameter value, any derivative order): the homogeneous point of the ellipse is the image of
   the homogeneous point of the circle with the SAME rows *)
Theorem shape_teval rows net : net_ok 3 rows net -> (0 < prodl (map (@length R) rows))%nat ->
  let H := @teval R NumR 3 rows net in
  shape_ok (coord 0 H) (coord 1 H) (coord 2 H) (fun c => coord c (@teval R NumR 4 rows (map (Lgen MM) net))).
Proof.
  intros Hnet Hpos. cbv zeta. apply shape_alg. intros c Hc.
  apply (teval_Lgen MM rows net c Hnet Hpos). exact Hc.
Qed.
End Shape.

(* ---------- 5. the two frames ---------- *)
Lemma cs_sn_unit ca sa : ca * ca + sa * sa = 1 -> cs2 ca sa * cs2 ca sa + sn2 ca sa * sn2 ca sa = 1.
Proof. intros Ha. unfold cs2, sn2. transitivity ((ca * ca + sa * sa) * (ca * ca + sa * sa)); [ring|rewrite Ha; ring]. Qed.

Lemma flat_frame ca sa : ca * ca + sa * sa = 1 ->
  let E1 := [cs2 ca sa; sn2 ca sa; 0] in let E2 := [- sn2 ca sa; cs2 ca sa; 0] in let Nn := [0; 0; 1] in
  dot3 E1 E1 = 1 /\ dot3 E2 E2 = 1 /\ dot3 E1 E2 = 0 /\ dot3 E1 Nn = 0 /\ dot3 E2 Nn = 0.
Proof.
  intros Ha. pose proof (cs_sn_unit ca sa Ha) as U. cbv zeta. unfold dot3. cbn [nth].
  repeat split; try ring; rewrite <- U; ring.
Qed.

Section Tilt.
Variables cp sp ct st : R.
Hypothesis Hp : cp * cp + sp * sp = 1.
Hypothesis Ht : ct * ct + st * st = 1.
Local Notation tl := (tilt cp sp ct st).
Ltac unfold_tilt := unfold tilt, rv, vecmat, dot3, nrm, RyM, RzM, rotmat; cbv zeta;
  cbn [map seq length combine fold_left fst snd nth nadd nsub nmul ndiv nofZ n0 NumR].

(* the tilt (rotate(phi, y) then rotate(theta, z), as the model builds the matrices) preserves dot products *)
Lemma tilt_dot p0 p1 p2 q0 q1 q2 : dot3 (tl [p0; p1; p2]) (tl [q0; q1; q2]) = p0 * q0 + p1 * q1 + p2 * q2.
Proof. unfold_tilt. Coq.nsatz.NsatzTactic.nsatz_default. Qed.
(* and sends the local z axis to the unit normal with polar angle phi and azimuth theta (PlaceProofs.nrm) *)
Lemma tilt_z : tl [0; 0; 1] = nrm cp sp ct st.
Proof. unfold_tilt. repeat (f_equal; try Coq.nsatz.NsatzTactic.nsatz_default). Qed.
Lemma tilt_nrm_unit : dot3 (nrm cp sp ct st) (nrm cp sp ct st) = 1.
Proof. rewrite <- tilt_z, tilt_dot. ring. Qed.

Lemma tilt_frame ca sa : ca * ca + sa * sa = 1 ->
  let E1 := tl [cs2 ca sa; sn2 ca sa; 0] in let E2 := tl [- sn2 ca sa; cs2 ca sa; 0] in let Nn := nrm cp sp ct st in
  dot3 E1 E1 = 1 /\ dot3 E2 E2 = 1 /\ dot3 E1 E2 = 0 /\ dot3 E1 Nn = 0 /\ dot3 E2 Nn = 0.
Proof.
  intros Ha. pose proof (cs_sn_unit ca sa Ha) as U. cbv zeta. rewrite <- tilt_z, !tilt_dot.
  repeat split; try ring; rewrite <- U; ring.
Qed.
End Tilt.

(* ---------- 6. main theorems on the model ellipse ---------- *)
(* what is claimed of the homogeneous point P of the result, given the homogeneous point (X, Y, W) of the unit circle
   obtained with the same basis-function values *)
Definition blends (ty : ctype) (cps : list (list R)) (P : nat -> R) : Prop :=
  match ty with
  | P2C0 => exists j b0 b1 b2, (j < 4)%nat /\ b1 * b1 = 4 * (b0 * b2) /\ P = bl3 cps j b0 b1 b2
  | P4C1 => exists j u, (j < 4)%nat /\ P = bl5 cps j u
  | Unknown => False
  end.

Lemma weights_copied M (cps : list (list R)) i : nth 3 M [] = [0; 0; 1] -> (3 < length M)%nat -> (i < length cps)%nat ->
  nth 3 (nth i (map (Lgen M) cps) []) 0 = nth 2 (nth i cps []) 0.
Proof.
  intros HM HL Hi. rewrite (nth_map_gen (Lgen M) cps i [] []) by exact Hi. unfold Lgen.
  rewrite (nth_map_gen _ M 3 0 []) by exact HL. rewrite HM. cbn [nth]. ring.
Qed.

Section Main.
Variables rtol atol : R.
Hypothesis Hrtol : 0 <= rtol.
Hypothesis Hatol : 0 <= atol.
Variables (r1 r2 e0 e1 e2 : R) (normal : list R) (ca sa cp sp ct st : R).
Hypothesis Hlen : length normal = 3%nat.
Hypothesis Ha : ca * ca + sa * sa = 1.
Hypothesis Hp : cp * cp + sp * sp = 1.
Hypothesis Ht : ct * ct + st * st = 1.
Local Notation center := [e0; e1; e2].
Local Notation bn := (@allclose R NumR rtol atol normal [0; 0; 1]).
Local Notation bc := (@allclose R NumR rtol atol center [0; 0; 0]).
Local Notation ell ty := (@ellipse_obj R NumR rtol atol (sqrt 2) PI r1 r2 center normal ty ca sa cp sp ct st).

(* the conclusion shared by the placed cases: frame (E1, E2, Nn), effective centre e *)
Definition ellipse_spec (ty : ctype) (c0 o : obj R) (E1 E2 Nn e : list R) : Prop :=
  o_bases o = o_bases c0 /\ o_dim o = 3%nat /\ o_rat o = true /\ length (o_cps o) = length (o_cps c0) /\
  (* weights untouched *)
  (forall i, (i < length (o_cps c0))%nat -> nth 3 (nth i (o_cps o) []) 0 = nth 2 (nth i (o_cps c0) []) 0) /\
  (* the frame is orthonormal and spans the plane orthogonal to Nn *)
  (dot3 E1 E1 = 1 /\ dot3 E2 E2 = 1 /\ dot3 E1 E2 = 0 /\ dot3 E1 Nn = 0 /\ dot3 E2 Nn = 0) /\
  (* every knot span, every local parameter: span blends of the hard-coded nets *)
  (forall P, blends ty (o_cps o) P -> exists X Y W, X * X + Y * Y = W * W /\ shape_ok r1 r2 E1 E2 Nn e X Y W P) /\
  (* any rows of basis values: transfer from the circle evaluated with the same rows *)
  (forall rows, net_ok 3 rows (o_cps c0) -> (0 < prodl (map (@length R) rows))%nat ->
     let H := @teval R NumR 3 rows (o_cps c0) in
     shape_ok r1 r2 E1 E2 Nn e (coord 0 H) (coord 1 H) (coord 2 H) (fun c => coord c (@teval R NumR 4 rows (o_cps o)))).

Lemma ellipse_spec_of_net ty c0 E1 E2 Nn e :
  @unit_circle R NumR (sqrt 2) PI ty = Ok c0 ->
  (dot3 E1 E1 = 1 /\ dot3 E2 E2 = 1 /\ dot3 E1 E2 = 0 /\ dot3 E1 Nn = 0 /\ dot3 E2 Nn = 0) ->
  ellipse_spec ty c0 (mkObj (o_bases c0) (map (Lgen (frameM r1 r2 E1 E2 e)) (o_cps c0)) 3 true) E1 E2 Nn e.
Proof.
  intros E F. pose proof F as (H11 & H22 & H12 & H1n & H2n).
  destruct (unit_circle_inv ty c0 E) as (_ & _ & _ & Hty).
  unfold ellipse_spec. cbn [o_bases o_dim o_rat o_cps].
  split; [reflexivity|]. split; [reflexivity|]. split; [reflexivity|]. split; [apply map_length|].
  split; [intros i Hi; apply weights_copied; [reflexivity|cbn; lia|exact Hi]|].
  split; [exact F|]. split.
  - intros P HP. destruct Hty as [[-> Hnet]|[-> Hnet]]; rewrite Hnet in HP; cbn [blends] in HP.
    + destruct HP as (j & b0 & b1 & b2 & Hj & Hb & ->).
      destruct (shape_p2C0 r1 r2 E1 E2 Nn e H11 H22 H12 H1n H2n j b0 b1 b2 Hj Hb) as [S C].
      eexists _, _, _. split; [exact C|exact S].
    + destruct HP as (j & u & Hj & ->).
      destruct (shape_p4C1 r1 r2 E1 E2 Nn e H11 H22 H12 H1n H2n j u Hj) as [S C].
      eexists _, _, _. split; [exact C|exact S].
  - intros rows Hnet Hpos. apply (shape_teval r1 r2 E1 E2 Nn e H11 H22 H12 H1n H2n rows (o_cps c0) Hnet Hpos).
Qed.

(* (1)+(2a) normal = (0,0,1) up to np.allclose, centre NOT within np.allclose of 0: frame = in-plane rotation by alpha
   (the identity for xaxis = (1,0,0): ca = 1, sa = 0), plane z = e2 *)
Theorem ellipse_flat_shape ty c0 : @unit_circle R NumR (sqrt 2) PI ty = Ok c0 -> bn = true -> bc = false ->
  exists o, ell ty = Ok o /\
    ellipse_spec ty c0 o [cs2 ca sa; sn2 ca sa; 0] [- sn2 ca sa; cs2 ca sa; 0] [0; 0; 1] center.
Proof.
  intros E Hn Hc. eexists. split; [apply (ellipse_net_flat rtol atol Hrtol Hatol r1 r2 e0 e1 e2 normal ca sa cp sp ct st Hlen ty c0 E Hn Hc)|].
  apply ellipse_spec_of_net; [exact E|apply flat_frame; exact Ha].
Qed.

(* (2) normal not within np.allclose of (0,0,1): the curve lies in the plane through the effective centre orthogonal to the
   unit normal nrm, and satisfies the quadric equation in the rotated frame *)
Theorem ellipse_tilt_shape ty c0 : @unit_circle R NumR (sqrt 2) PI ty = Ok c0 -> bn = false ->
  exists o, ell ty = Ok o /\
    ellipse_spec ty c0 o (tilt cp sp ct st [cs2 ca sa; sn2 ca sa; 0]) (tilt cp sp ct st [- sn2 ca sa; cs2 ca sa; 0])
                 (nrm cp sp ct st) (if bc then [0; 0; 0] else center).
Proof.
  intros E Hn. eexists. split; [apply (ellipse_net_tilt rtol atol Hrtol Hatol r1 r2 e0 e1 e2 normal ca sa cp sp ct st Hlen ty c0 E Hn)|].
  apply ellipse_spec_of_net; [exact E|apply tilt_frame; assumption].
Qed.
End Main.

(* ---------- 7. explicit readings ---------- *)
Lemma allclose0_true rtol atol e0 e1 e2 : Rabs e0 <= atol -> Rabs e1 <= atol -> Rabs e2 <= atol ->
  @allclose R NumR rtol atol [e0; e1; e2] [0; 0; 0] = true.
Proof.
  intros H0 H1 H2. unfold allclose. cbn [combine forallb fst snd]. rewrite !nabs_R. cbn [nleb nsub nadd nmul NumR].
  rewrite Rabs_R0, !Rminus_0_r, Rmult_0_r, Rplus_0_r.
  destruct (Rleb_spec (Rabs e0) atol); [|lra]. destruct (Rleb_spec (Rabs e1) atol); [|lra].
  destruct (Rleb_spec (Rabs e2) atol); [|lra]. reflexivity.
Qed.
Lemma allclose_first_false rtol atol (a b : R) la lb : atol + rtol * Rabs b < Rabs (a - b) ->
  @allclose R NumR rtol atol (a :: la) (b :: lb) = false.
Proof.
  intros H. unfold allclose. cbn [combine forallb fst snd]. rewrite !nabs_R. cbn [nleb nsub nadd nmul NumR].
  destruct (Rleb_spec (Rabs (a - b)) (atol + rtol * Rabs b)); [lra|reflexivity].
Qed.

(* (1) the axis-aligned ellipse: normal = (0,0,1), xaxis = (1,0,0) (alpha = 0), centre e not within np.allclose of 0.
   P = homogeneous point (x w, y w, z w, w) on any knot span with any local parameter *)
Theorem ellipse_axis_aligned rtol atol r1 r2 e0 e1 e2 cp sp ct st ty c0 : 0 <= rtol -> 0 <= atol ->
  @unit_circle R NumR (sqrt 2) PI ty = Ok c0 -> @allclose R NumR rtol atol [e0; e1; e2] [0; 0; 0] = false ->
  exists o, @ellipse_obj R NumR rtol atol (sqrt 2) PI r1 r2 [e0; e1; e2] [0; 0; 1] ty 1 0 cp sp ct st = Ok o /\
    o_bases o = o_bases c0 /\ o_dim o = 3%nat /\ o_rat o = true /\
    (forall i, (i < length (o_cps c0))%nat -> nth 3 (nth i (o_cps o) []) 0 = nth 2 (nth i (o_cps c0) []) 0) /\
    forall P, blends ty (o_cps o) P ->
      let W := P 3%nat in
      P 2%nat = e2 * W /\
      r2 * r2 * ((P 0%nat - e0 * W) * (P 0%nat - e0 * W)) + r1 * r1 * ((P 1%nat - e1 * W) * (P 1%nat - e1 * W)) = r1 * r1 * (r2 * r2) * (W * W) /\
      (W <> 0 -> r1 <> 0 -> r2 <> 0 ->
       ((P 0%nat / W - e0) / r1) * ((P 0%nat / W - e0) / r1) + ((P 1%nat / W - e1) / r2) * ((P 1%nat / W - e1) / r2) = 1).
Proof.
  intros Hr Hat E Hc.
  destruct (ellipse_flat_shape rtol atol Hr Hat r1 r2 e0 e1 e2 [0; 0; 1] 1 0 cp sp ct st eq_refl ltac:(ring) ty c0 E
              (allclose_refl rtol atol [0; 0; 1] Hr Hat) Hc) as (o & Ho & Hb & Hd & Hrat & _ & Hw & _ & Hbl & _).
  exists o. split; [exact Ho|]. split; [exact Hb|]. split; [exact Hd|]. split; [exact Hrat|]. split; [exact Hw|].
  intros P HP. destruct (Hbl P HP) as (X & Y & W' & HC & S).
  unfold shape_ok in S. cbv zeta in S. unfold dot3, cs2, sn2 in S. cbn [nth] in S.
  destruct S as (P3 & Dn & D1 & D2 & _). cbv zeta. rewrite P3.
  assert (A : P 0%nat - e0 * W' = r1 * X) by lra.
  assert (B : P 1%nat - e1 * W' = r2 * Y) by lra.
  assert (Cz : P 2%nat = e2 * W') by lra.
  split; [exact Cz|]. split.
  - rewrite A, B. transitivity (r1 * r1 * (r2 * r2) * (X * X + Y * Y)); [ring|rewrite HC; ring].
  - intros HW H1 H2.
    replace (P 0%nat / W' - e0) with ((P 0%nat - e0 * W') / W') by (field; exact HW).
    replace (P 1%nat / W' - e1) with ((P 1%nat - e1 * W') / W') by (field; exact HW).
    rewrite A, B. transitivity ((X * X + Y * Y) / (W' * W')); [field; repeat split; assumption|].
    rewrite HC. field. exact HW.
Qed.

(* (1') centre within np.allclose of 0 (in particular the default centre (0,0,0)): the curve is NOT translated and stays 2-D;
   the ellipse is centred at the origin whatever the (tiny) requested centre was; in-plane rotation by alpha allowed *)
Theorem ellipse_flat0_shape rtol atol r1 r2 e0 e1 e2 normal ca sa cp sp ct st ty c0 : 0 <= rtol -> 0 <= atol ->
  length normal = 3%nat -> ca * ca + sa * sa = 1 ->
  @unit_circle R NumR (sqrt 2) PI ty = Ok c0 ->
  @allclose R NumR rtol atol normal [0; 0; 1] = true -> @allclose R NumR rtol atol [e0; e1; e2] [0; 0; 0] = true ->
  exists o, @ellipse_obj R NumR rtol atol (sqrt 2) PI r1 r2 [e0; e1; e2] normal ty ca sa cp sp ct st = Ok o /\
    o_bases o = o_bases c0 /\ o_dim o = 2%nat /\ o_rat o = true /\
    forall P, blends ty (o_cps o) P ->
      let c := cs2 ca sa in let s := sn2 ca sa in let W := P 2%nat in
      r2 * r2 * ((c * P 0%nat + s * P 1%nat) * (c * P 0%nat + s * P 1%nat))
      + r1 * r1 * ((c * P 1%nat - s * P 0%nat) * (c * P 1%nat - s * P 0%nat)) = r1 * r1 * (r2 * r2) * (W * W).
Proof.
  intros Hr Hat Hlen Ha E Hn Hc. eexists. split;
    [apply (ellipse_net_flat0 rtol atol Hr Hat r1 r2 e0 e1 e2 normal ca sa cp sp ct st Hlen ty c0 E Hn Hc)|].
  cbn [o_bases o_dim o_rat o_cps]. split; [reflexivity|]. split; [reflexivity|]. split; [reflexivity|].
  pose proof (cs_sn_unit ca sa Ha) as U. set (c := cs2 ca sa) in *. set (s := sn2 ca sa) in *.
  destruct (unit_circle_inv ty c0 E) as (_ & _ & _ & Hty).
  assert (Fin : forall (P : nat -> R) X Y W, X * X + Y * Y = W * W ->
            P 0%nat = r1 * c * X + r2 * - s * Y + 0 * W -> P 1%nat = r1 * s * X + r2 * c * Y + 0 * W -> P 2%nat = 0 * X + 0 * Y + 1 * W ->
            r2 * r2 * ((c * P 0%nat + s * P 1%nat) * (c * P 0%nat + s * P 1%nat))
            + r1 * r1 * ((c * P 1%nat - s * P 0%nat) * (c * P 1%nat - s * P 0%nat)) = r1 * r1 * (r2 * r2) * (P 2%nat * P 2%nat)).
  { intros P X Y W HC P0 P1 P2.
    assert (A : c * P 0%nat + s * P 1%nat = r1 * X) by (rewrite P0, P1; transitivity (r1 * X * (c * c + s * s)); [ring|rewrite U; ring]).
    assert (B : c * P 1%nat - s * P 0%nat = r2 * Y) by (rewrite P0, P1; transitivity (r2 * Y * (c * c + s * s)); [ring|rewrite U; ring]).
    rewrite A, B, P2. transitivity (r1 * r1 * (r2 * r2) * (X * X + Y * Y)); [ring|rewrite HC; ring]. }
  intros P HP. cbv zeta.
  destruct Hty as [[-> Hnet]|[-> Hnet]]; rewrite Hnet in HP; cbn [blends] in HP.
  - destruct HP as (j & b0 & b1 & b2 & Hj & Hb & ->).
    apply (Fin _ _ _ _ (proj1 (circle_p2C0_span_on_circle j b0 b1 b2 Hj Hb))).
    + apply (bl3_Lgen (frameM2 r1 r2 [c; s; 0] [- s; c; 0]) _ j b0 b1 b2 0); [reflexivity|exact Hj|cbn; lia].
    + apply (bl3_Lgen (frameM2 r1 r2 [c; s; 0] [- s; c; 0]) _ j b0 b1 b2 1); [reflexivity|exact Hj|cbn; lia].
    + apply (bl3_Lgen (frameM2 r1 r2 [c; s; 0] [- s; c; 0]) _ j b0 b1 b2 2); [reflexivity|exact Hj|cbn; lia].
  - destruct HP as (j & u & Hj & ->).
    apply (Fin _ _ _ _ (circle_p4C1_span_on_circle j u Hj)).
    + apply (bl5_Lgen (frameM2 r1 r2 [c; s; 0] [- s; c; 0]) _ j u 0); [reflexivity|cbn; lia].
    + apply (bl5_Lgen (frameM2 r1 r2 [c; s; 0] [- s; c; 0]) _ j u 1); [reflexivity|cbn; lia].
    + apply (bl5_Lgen (frameM2 r1 r2 [c; s; 0] [- s; c; 0]) _ j u 2); [reflexivity|cbn; lia].
Qed.

(* ---------- 8. non-vacuity and refutations (numpy's tolerances rtol = 1e-5, atol = 1e-8) ---------- *)
Definition np_rtol : R := 1 / 100000.
Definition np_atol : R := 1 / 100000000.
Lemma np_tol_pos : 0 <= np_rtol /\ 0 <= np_atol.
Proof. unfold np_rtol, np_atol. split; lra. Qed.

Definition c0_p2C0 : obj R :=
  mkObj [mkBasis 3 (@circ_knots R NumR PI [-1; 0; 0; 1; 1; 2; 2; 3; 3; 4; 4; 5]%Z) 1] (@circle_net_p2C0 R NumR (sqrt 2)) 2 true.

(* ellipse(2, 3, center=(1,2,3), normal=(24,0,7)): phi/2 has cosine 4/5 and sine 3/5, theta = alpha = 0 *)
Example ellipse_tilt_example :
  exists o, @ellipse_obj R NumR np_rtol np_atol (sqrt 2) PI 2 3 [1; 2; 3] [24; 0; 7] P2C0 1 0 (4 / 5) (3 / 5) 1 0 = Ok o /\
    ellipse_spec 2 3 P2C0 c0_p2C0 o (tilt (4 / 5) (3 / 5) 1 0 [cs2 1 0; sn2 1 0; 0]) (tilt (4 / 5) (3 / 5) 1 0 [- sn2 1 0; cs2 1 0; 0])
                 (nrm (4 / 5) (3 / 5) 1 0) [1; 2; 3] /\
    (exists P, blends P2C0 (o_cps o) P).
Proof.
  destruct np_tol_pos as [Hr Hat].
  assert (Hn : @allclose R NumR np_rtol np_atol [24; 0; 7] [0; 0; 1] = false).
  { apply allclose_first_false. rewrite Rabs_R0. replace (24 - 0) with 24 by ring. rewrite Rabs_pos_eq by lra.
    unfold np_rtol, np_atol. lra. }
  assert (Hc : @allclose R NumR np_rtol np_atol [1; 2; 3] [0; 0; 0] = false).
  { apply allclose_first_false. rewrite Rabs_R0. replace (1 - 0) with 1 by ring. rewrite Rabs_pos_eq by lra.
    unfold np_rtol, np_atol. lra. }
  destruct (ellipse_tilt_shape np_rtol np_atol Hr Hat 2 3 1 2 3 [24; 0; 7] 1 0 (4 / 5) (3 / 5) 1 0 eq_refl
              ltac:(lra) ltac:(lra) ltac:(lra) P2C0 c0_p2C0 eq_refl Hn) as (o & Ho & S).
  rewrite Hc in S. exists o. split; [exact Ho|]. split; [exact S|].
  exists (bl3 (o_cps o) 0 (1 / 4) (1 / 2) (1 / 4)). cbn [blends]. exists 0%nat, (1 / 4), (1 / 2), (1 / 4).
  split; [lia|]. split; [lra|reflexivity].
Qed.

Example ellipse_axis_aligned_example :
  exists o, @ellipse_obj R NumR np_rtol np_atol (sqrt 2) PI 2 3 [1; 2; 0] [0; 0; 1] P2C0 1 0 1 0 1 0 = Ok o /\ o_dim o = 3%nat.
Proof.
  destruct np_tol_pos as [Hr Hat].
  assert (Hc : @allclose R NumR np_rtol np_atol [1; 2; 0] [0; 0; 0] = false).
  { apply allclose_first_false. rewrite Rabs_R0. replace (1 - 0) with 1 by ring. rewrite Rabs_pos_eq by lra.
    unfold np_rtol, np_atol. lra. }
  destruct (ellipse_axis_aligned np_rtol np_atol 2 3 1 2 0 1 0 1 0 P2C0 c0_p2C0 Hr Hat eq_refl Hc) as (o & Ho & _ & Hd & _).
  exists o. split; assumption.
Qed.

(* FINDING 1 (hypothesis `allclose center 0 = false` of ellipse_axis_aligned): a centre within atol = 1e-8 of the origin is
   ignored.  ellipse(1, 1, center=(1e-9, 0, 0)): the first control point is (1, 0), weight 1 -- it is the point of the curve at
   t = 0 -- and does not satisfy the equation about the requested centre. *)
Example ellipse_tiny_center_refuted :
  let e0 := 1 / 1000000000 in
  exists o, @ellipse_obj R NumR np_rtol np_atol (sqrt 2) PI 1 1 [e0; 0; 0] [0; 0; 1] P2C0 1 0 1 0 1 0 = Ok o /\ o_dim o = 2%nat /\
    exists x y w, nth 0 (o_cps o) [] = [x; y; w] /\ w = 1 /\
      ~ (1 * 1 * ((x - e0 * w) * (x - e0 * w)) + 1 * 1 * ((y - 0 * w) * (y - 0 * w)) = 1 * 1 * (1 * 1) * (w * w)).
Proof.
  cbv zeta. destruct np_tol_pos as [Hr Hat].
  assert (Hc : @allclose R NumR np_rtol np_atol [1 / 1000000000; 0; 0] [0; 0; 0] = true).
  { apply allclose0_true; rewrite ?Rabs_R0; [rewrite Rabs_pos_eq by lra|..]; unfold np_atol; lra. }
  eexists. split;
    [apply (ellipse_net_flat0 np_rtol np_atol Hr Hat 1 1 _ 0 0 [0; 0; 1] 1 0 1 0 1 0 eq_refl P2C0 c0_p2C0 eq_refl
              (allclose_refl _ _ _ Hr Hat) Hc)|].
  cbn [o_dim o_cps c0_p2C0]. split; [reflexivity|].
  unfold circle_net_p2C0. cbv zeta. cbn [map nth]. unfold Lgen, frameM2, cs2, sn2. cbn [map nth nofZ NumR].
  eexists _, _, _. split; [reflexivity|]. split; [lra|]. lra.
Qed.

(* FINDING 2: ellipse has no test on its radii (its docstring promises ValueError); circle has one *)
Example ellipse_no_radius_check :
  (exists o, @ellipse_obj R NumR np_rtol np_atol (sqrt 2) PI 0 3 [0; 0; 0] [0; 0; 1] P2C0 1 0 1 0 1 0 = Ok o) /\
  @circle_obj R NumR np_rtol np_atol (sqrt 2) PI 0 [0; 0; 0] [0; 0; 1] P2C0 1 0 1 0 1 0 = Err ValueError.
Proof.
  destruct np_tol_pos as [Hr Hat]. split.
  - eexists. apply (ellipse_net_flat0 np_rtol np_atol Hr Hat 0 3 0 0 0 [0; 0; 1] 1 0 1 0 1 0 eq_refl P2C0 c0_p2C0 eq_refl
                      (allclose_refl _ _ _ Hr Hat) (allclose_refl _ _ _ Hr Hat)).
  - unfold circle_obj. cbn [nleb NumR n0]. destruct (Rleb_spec 0 0); [reflexivity|lra].
Qed.

(* ---------- 9. n_gon ---------- *)
Lemma ngon_knot_eq n : @ngon_knot R NumR n = ngon_knots n.
Proof.
  unfold ngon_knot, ngon_knots. replace (n + 3)%nat with (S (n + 2)) by lia. cbn [seq map app].
  f_equal; [cbn [INR nofZ NumR]; lra|].
  rewrite seq_app, map_app. f_equal.
  - rewrite <- seq_shift, map_map. apply map_ext. intros i. unfold nofnat. cbn [nofZ NumR].
    rewrite <- INR_IZR_INZ, S_INR. ring.
  - cbn [seq map]. unfold nofnat. cbn [nofZ NumR]. rewrite <- !INR_IZR_INZ.
    replace (1 + n)%nat with (S n) by lia. rewrite !S_INR, plus_INR. cbn [INR]. f_equal; [ring|]. f_equal. ring.
Qed.

Section NgonModel.
Variables rtol atol : R.
Hypothesis Hrtol : 0 <= rtol.
Hypothesis Hatol : 0 <= atol.
Variables (n : nat) (r : R) (fc fs : R -> R).
Hypothesis Hn : (3 <= n)%nat.
Hypothesis Hr : 0 < r.
(* the oracle: whatever libm returns for (cos x, sin x), it is assumed to be a unit vector *)
Hypothesis Hcs : forall x, fc x * fc x + fs x * fs x = 1.
Local Notation net := (@ngon_net R NumR PI fc fs n r).
Local Notation ang i := (INR i * (2 * PI / INR n)).
Local Notation gon center normal cp sp ct st := (@ngon_obj R NumR rtol atol PI fc fs n r center normal cp sp ct st).

Lemma ngon_net_length : length net = n.
Proof. unfold ngon_net. rewrite map_length, seq_length. reflexivity. Qed.
Lemma ngon_net_nth i : (i < n)%nat -> nth i net [] = [r * fc (ang i); r * fs (ang i)].
Proof.
  intros Hi. unfold ngon_net. rewrite (nth_map_gen _ (seq 0 n) i [] 0%nat) by (rewrite seq_length; exact Hi).
  rewrite seq_nth by exact Hi. cbn [Nat.add]. unfold Ellipse.ngon_dt, nofnat. cbn [nmul ndiv nofZ NumR].
  rewrite <- !INR_IZR_INZ. reflexivity.
Qed.
(* all vertices at distance r from the (local) centre *)
Lemma ngon_vertex_radius i : (i < n)%nat ->
  nth 0 (nth i net []) 0 * nth 0 (nth i net []) 0 + nth 1 (nth i net []) 0 * nth 1 (nth i net []) 0 = r * r.
Proof.
  intros Hi. rewrite ngon_net_nth by exact Hi. cbn [nth].
  transitivity (r * r * (fc (ang i) * fc (ang i) + fs (ang i) * fs (ang i))); [ring|rewrite Hcs; ring].
Qed.

Lemma ngon_prechecks center normal cp sp ct st :
  gon center normal cp sp ct st
  = @flip_and_move R NumR rtol atol (mkObj [mkBasis 2 (@ngon_knot R NumR n) 1] net 2 false) center normal cp sp ct st.
Proof.
  unfold ngon_obj. cbn [nleb NumR n0]. destruct (Rleb_spec r 0); [lra|].
  destruct (Nat.ltb_spec n 3); [lia|]. reflexivity.
Qed.

(* default placement: the model object itself *)
Theorem ngon_default cp sp ct st :
  gon [0; 0; 0] [0; 0; 1] cp sp ct st = Ok (mkObj [mkBasis 2 (@ngon_knot R NumR n) 1] net 2 false).
Proof.
  rewrite ngon_prechecks. rewrite (flip_flat rtol atol _ _ _ 0 0 0 [0; 0; 1] cp sp ct st eq_refl (allclose_refl _ _ _ Hrtol Hatol)).
  rewrite (allclose_refl _ _ _ Hrtol Hatol). reflexivity.
Qed.

(* closed polyline of order 2 with uniform knots: order 2, periodic (per1 = 1: basis function n is basis function 0, so the
   n+1 control points of the open reading are V_0 .. V_{n-1}, V_0), n basis functions for n stored vertices, knots i - 1 *)
Theorem ngon_structure :
  let b := mkBasis 2 (@ngon_knot R NumR n) 1 in
  b_order b = 2%nat /\ b_per1 b = 1%nat /\ @b_nfun R b = n /\ length net = n /\
  (forall i, (i <= n + 2)%nat -> @kn R NumR (b_knots b) i = INR i - 1) /\ sorted (@kn R NumR (b_knots b)) /\
  @b_start R NumR b = 0 /\ @b_end R NumR b = INR n.
Proof.
  cbv zeta. cbn [b_order b_per1 b_knots]. split; [reflexivity|]. split; [reflexivity|].
  assert (HL : length (@ngon_knot R NumR n) = (n + 3)%nat).
  { rewrite ngon_knot_eq. unfold ngon_knots. rewrite map_length, seq_length. reflexivity. }
  split; [unfold b_nfun; cbn [b_order b_per1 b_knots]; rewrite HL; lia|]. split; [apply ngon_net_length|].
  split; [intros i Hi; rewrite ngon_knot_eq, ngon_kn, Nat.min_l by lia; reflexivity|].
  split; [rewrite ngon_knot_eq; apply ngon_knots_sorted|].
  unfold b_start, b_end. cbn [b_order b_per1 b_knots]. rewrite HL, ngon_knot_eq, !ngon_kn.
  split.
  - rewrite Nat.min_l by lia. cbn [Nat.sub INR]. ring.
  - replace (n + 3 - 2)%nat with (S n) by lia. rewrite Nat.min_l by lia. rewrite S_INR. ring.
Qed.

(* each edge evaluates to the segment between consecutive vertices (indices mod n: the last edge returns to V_0) *)
Theorem ngon_edges side m t c : (1 <= m <= n)%nat -> in_span side (INR m - 1) (INR m) t ->
  let k := @kn R NumR (@ngon_knot R NumR n) in
  let V := fun j => nth c (nth (j mod n) net []) 0 in
  let lam := t - (INR m - 1) in
  sumf (fun j => V j * B side k 1 j t) 0 (S n) = (1 - lam) * V (m - 1)%nat + lam * V m /\ 0 <= lam <= 1.
Proof.
  intros Hm Hs. cbv zeta. rewrite ngon_knot_eq.
  assert (Km : @kn R NumR (ngon_knots n) m = INR m - 1) by (rewrite ngon_kn, Nat.min_l by lia; reflexivity).
  assert (KS : @kn R NumR (ngon_knots n) (S m) = INR m) by (rewrite ngon_kn, Nat.min_l by lia; rewrite S_INR; ring).
  assert (Hs' : in_span side (@kn R NumR (ngon_knots n) m) (@kn R NumR (ngon_knots n) (S m)) t) by (rewrite Km, KS; exact Hs).
  pose proof (polygon_eval side (@kn R NumR (ngon_knots n)) (fun j => nth c (nth (j mod n) net []) 0) m n t
                (ngon_knots_sorted n) Hm Hs') as PE. cbv zeta in PE.
  replace (m + 1)%nat with (S m) in PE by lia. rewrite Km, KS in PE. rewrite w_lt in PE by lra.
  replace ((t - (INR m - 1)) / (INR m - (INR m - 1))) with (t - (INR m - 1)) in PE by (field; lra).
  exact PE.
Qed.

(* tilted placement: every vertex at distance r from the effective centre, in the plane orthogonal to the unit normal *)
Theorem ngon_tilt_vertices e0 e1 e2 normal cp sp ct st : cp * cp + sp * sp = 1 -> ct * ct + st * st = 1 ->
  length normal = 3%nat -> @allclose R NumR rtol atol normal [0; 0; 1] = false ->
  exists o, gon [e0; e1; e2] normal cp sp ct st = Ok o /\ o_dim o = 3%nat /\ o_rat o = false /\
    o_bases o = [mkBasis 2 (@ngon_knot R NumR n) 1] /\ length (o_cps o) = n /\
    forall i, (i < n)%nat ->
      let e := if @allclose R NumR rtol atol [e0; e1; e2] [0; 0; 0] then [0; 0; 0] else [e0; e1; e2] in
      let V := nth i (o_cps o) [] in
      let d := [nth 0 V 0 - nth 0 e 0; nth 1 V 0 - nth 1 e 0; nth 2 V 0 - nth 2 e 0] in
      length V = 3%nat /\ dot3 d d = r * r /\ dot3 d (nrm cp sp ct st) = 0.
Proof.
  intros Hp Ht Hlen Hnn. eexists. split; [rewrite ngon_prechecks; apply (flip_tilt rtol atol _ _ _ e0 e1 e2 normal cp sp ct st Hlen Hnn)|].
  cbn [o_dim o_rat o_bases o_cps]. split; [reflexivity|]. split; [reflexivity|]. split; [reflexivity|].
  split; [rewrite map_length; apply ngon_net_length|].
  intros i Hi. cbv zeta.
  rewrite (nth_map_gen _ net i [] []) by (rewrite ngon_net_length; exact Hi). rewrite ngon_net_nth by exact Hi.
  set (x := r * fc (ang i)). set (y := r * fs (ang i)).
  assert (Hxy : x * x + y * y = r * r).
  { unfold x, y. transitivity (r * r * (fc (ang i) * fc (ang i) + fs (ang i) * fs (ang i))); [ring|rewrite Hcs; ring]. }
  set (e := if @allclose R NumR rtol atol [e0; e1; e2] [0; 0; 0] then [0; 0; 0] else [e0; e1; e2]).
  set (T := tilt cp sp ct st [x; y; 0]).
  assert (HV : mv (@allclose R NumR rtol atol [e0; e1; e2] [0; 0; 0]) [e0; e1; e2] false
                  (r3 (RzM ct st) (r3 (RyM cp sp) (@pt_set_dim R NumR 2 3 false [x; y])))
               = [nth 0 T 0 + nth 0 e 0; nth 1 T 0 + nth 1 e 0; nth 2 T 0 + nth 2 e 0]).
  { unfold T, e. destruct (@allclose R NumR rtol atol [e0; e1; e2] [0; 0; 0]); unfold_pt; repeat (f_equal; try ring). }
  rewrite HV. cbn [nth length]. split; [reflexivity|].
  pose proof (tilt_dot cp sp ct st Hp Ht x y 0 x y 0) as D1.
  pose proof (tilt_dot cp sp ct st Hp Ht x y 0 0 0 1) as D2. rewrite (tilt_z cp sp ct st Hp Ht) in D2.
  fold T in D1, D2. unfold dot3 in *. cbn [nth]. split.
  - transitivity (nth 0 T 0 * nth 0 T 0 + nth 1 T 0 * nth 1 T 0 + nth 2 T 0 * nth 2 T 0); [ring|]. rewrite D1, <- Hxy. ring.
  - transitivity (nth 0 T 0 * nth 0 (nrm cp sp ct st) 0 + nth 1 T 0 * nth 1 (nrm cp sp ct st) 0 + nth 2 T 0 * nth 2 (nrm cp sp ct st) 0); [ring|].
    rewrite D2. ring.
Qed.
End NgonModel.

(* non-vacuity: n = 5, r = 2, libm read as cos/sin *)
Example ngon_example : exists o, @ngon_obj R NumR np_rtol np_atol PI cos sin 5 2 [0; 0; 0] [0; 0; 1] 1 0 1 0 = Ok o /\ length (o_cps o) = 5%nat.
Proof.
  destruct np_tol_pos as [Hr Hat]. eexists. split; [apply (ngon_default np_rtol np_atol Hr Hat 5 2 cos sin); [lia|lra]|].
  cbn [o_cps]. apply ngon_net_length.
Qed.
Lemma cos_sin_unit x : cos x * cos x + sin x * sin x = 1.
Proof. pose proof (sin2_cos2 x) as E. unfold Rsqr in E. lra. Qed.

(* ---------- 10. the Q instance of the model against the Python implementation ----------
   PYTHONPATH=/repo /venv/bin/python:
     from splipy import curve_factory as cf
     c = cf.ellipse(2,3,center=(1,2,3),normal=(24,0,7)); c.dimension, c.rational, c.controlpoints[[0,2,4,6]]
        -> 3 True [[1.56 2. 1.08 1.] [1. 5. 3. 1.] [0.44 2. 4.92 1.] [1. -1. 3. 1.]]
     c = cf.ellipse(2,3,center=(1,2,0));  c.dimension, c.controlpoints[[0,2,4,6]]
        -> 3 [[3. 2. 0. 1.] [1. 5. 0. 1.] [-1. 2. 0. 1.] [1. -1. 0. 1.]]
     c = cf.ellipse(2,3);                 c.dimension, c.controlpoints[[0,2,4,6]]
        -> 2 [[2. 0. 1.] [0. 3. 1.] [-2. 0. 1.] [0. -3. 1.]]
     c = cf.ellipse(1,1,center=(1e-9,0,0)); c.dimension, c(0.0)        -> 2 [1. 0.]          (centre ignored)
     cf.ellipse(0,3)(t), cf.ellipse(-2,3)(t)                            -> no exception (degenerate / mirrored curve)
     cf.circle(0)                                                       -> ValueError radius needs to be positive
     g = cf.n_gon(4,2); g.controlpoints, g.bases[0].knots, g.bases[0].periodic, g.bases[0].order
        -> [[2. 0.] [0. 2.] [-2. 0.] [-0. -2.]] [-1. 0. 1. 2. 3. 4. 5.] 0 2
     cf.n_gon(4,2,center=(1,2,3),normal=(24,0,7)).controlpoints
        -> [[1.56 2. 1.08] [1. 4. 3.] [0.44 2. 4.92] [1. 0. 3.]]
     cf.n_gon(n=2) -> ValueError; cf.n_gon(r=0) -> ValueError; cf.ellipse(type='foo') -> ValueError;
     cf.n_gon(5,1,normal=(0,1)) -> ValueError (broadcast); cf.ellipse(normal=(0,1)) -> IndexError
   The control points 0, 2, 4, 6 of the p2C0 net do not involve sqrt 2, so the stand-ins s2 = 7/5, pi = 22/7 do not matter;
   for n_gon(4, .) the table below is the exact cos/sin of the four angles i * dt, dt = 2 * pi / 4 with the stand-in pi = 4. *)
From Coq Require Import QArith.
Local Open Scope Q_scope.
Definition q_rtol : Q := 1 # 100000.
Definition q_atol : Q := 1 # 100000000.
Definition qcps (x : res (obj Q)) : list (list Q) := match x with Ok o => map (map Qred) (o_cps o) | Err _ => [] end.
Definition qdim (x : res (obj Q)) : nat * bool := match x with Ok o => (o_dim o, o_rat o) | Err _ => (0%nat, false) end.
Definition pick (l : list (list Q)) (ix : list nat) : list (list Q) := map (fun i => nth i l []) ix.
Definition qc (x : Q) : Q := if Qeq_bool x 0 then 1 else if Qeq_bool x 4 then -1 else 0.
Definition qs (x : Q) : Q := if Qeq_bool x 2 then 1 else if Qeq_bool x 6 then -1 else 0.

Example q_ellipse_tilted :
  let x := @ellipse_obj Q NumQ q_rtol q_atol (7 # 5) (22 # 7) 2 3 [1; 2; 3] [24; 0; 7] P2C0 1 0 (4 # 5) (3 # 5) 1 0 in
  qdim x = (3%nat, true) /\
  pick (qcps x) [0; 2; 4; 6]%nat = [[39 # 25; 2; 27 # 25; 1]; [1; 5; 3; 1]; [11 # 25; 2; 123 # 25; 1]; [1; -1; 3; 1]].
Proof. vm_compute. split; reflexivity. Qed.

Example q_ellipse_flat :
  let x := @ellipse_obj Q NumQ q_rtol q_atol (7 # 5) (22 # 7) 2 3 [1; 2; 0] [0; 0; 1] P2C0 1 0 1 0 1 0 in
  qdim x = (3%nat, true) /\ pick (qcps x) [0; 2; 4; 6]%nat = [[3; 2; 0; 1]; [1; 5; 0; 1]; [-1; 2; 0; 1]; [1; -1; 0; 1]].
Proof. vm_compute. split; reflexivity. Qed.

Example q_ellipse_default_and_tiny_centre :
  let x := @ellipse_obj Q NumQ q_rtol q_atol (7 # 5) (22 # 7) 2 3 [0; 0; 0] [0; 0; 1] P2C0 1 0 1 0 1 0 in
  let y := @ellipse_obj Q NumQ q_rtol q_atol (7 # 5) (22 # 7) 1 1 [1 # 1000000000; 0; 0] [0; 0; 1] P2C0 1 0 1 0 1 0 in
  qdim x = (2%nat, true) /\ pick (qcps x) [0; 2; 4; 6]%nat = [[2; 0; 1]; [0; 3; 1]; [-2; 0; 1]; [0; -3; 1]] /\
  qdim y = (2%nat, true) /\ pick (qcps y) [0]%nat = [[1; 0; 1]].
Proof. vm_compute. repeat split; reflexivity. Qed.

Example q_ngon :
  let x := @ngon_obj Q NumQ q_rtol q_atol 4 qc qs 4 2 [0; 0; 0] [0; 0; 1] 1 0 1 0 in
  let y := @ngon_obj Q NumQ q_rtol q_atol 4 qc qs 4 2 [1; 2; 3] [24; 0; 7] (4 # 5) (3 # 5) 1 0 in
  qdim x = (2%nat, false) /\ qcps x = [[2; 0]; [0; 2]; [-2; 0]; [0; -2]] /\
  match x with Ok o => map (fun b => (b_order b, map Qred (b_knots b), b_per1 b)) (o_bases o) | Err _ => [] end
    = [(2%nat, [-1; 0; 1; 2; 3; 4; 5], 1%nat)] /\
  qdim y = (3%nat, false) /\ qcps y = [[39 # 25; 2; 27 # 25]; [1; 4; 3]; [11 # 25; 2; 123 # 25]; [1; 0; 3]].
Proof. vm_compute. repeat split; reflexivity. Qed.

Example q_errors :
  @ngon_obj Q NumQ q_rtol q_atol 4 qc qs 2 1 [0; 0; 0] [0; 0; 1] 1 0 1 0 = Err ValueError /\
  @ngon_obj Q NumQ q_rtol q_atol 4 qc qs 5 0 [0; 0; 0] [0; 0; 1] 1 0 1 0 = Err ValueError /\
  @ngon_obj Q NumQ q_rtol q_atol 4 qc qs 5 1 [0; 0; 0] [0; 1] 1 0 1 0 = Err ValueError /\
  @ellipse_obj Q NumQ q_rtol q_atol (7 # 5) (22 # 7) 1 1 [0; 0; 0] [0; 0; 1] Unknown 1 0 1 0 1 0 = Err ValueError /\
  @ellipse_obj Q NumQ q_rtol q_atol (7 # 5) (22 # 7) 1 1 [0; 0; 0] [0; 1] P2C0 1 0 1 0 1 0 = Err IndexError /\
  @circle_obj Q NumQ q_rtol q_atol (7 # 5) (22 # 7) 0 [0; 0; 0] [0; 0; 1] P2C0 1 0 1 0 1 0 = Err ValueError /\
  (exists o, @ellipse_obj Q NumQ q_rtol q_atol (7 # 5) (22 # 7) 0 3 [0; 0; 0] [0; 0; 1] P2C0 1 0 1 0 1 0 = Ok o).
Proof. vm_compute. repeat split; try reflexivity. eexists. reflexivity. Qed.
Local Close Scope Q_scope.

Print Assumptions ellipse_axis_aligned.
Print Assumptions ellipse_flat0_shape.
Print Assumptions ellipse_flat_shape.
Print Assumptions ellipse_tilt_shape.
Print Assumptions shape_cartesian.
Print Assumptions ellipse_tilt_example.
Print Assumptions ellipse_tiny_center_refuted.
Print Assumptions ellipse_no_radius_check.
Print Assumptions ngon_default.
Print Assumptions ngon_structure.
Print Assumptions ngon_vertex_radius.
Print Assumptions ngon_edges.
Print Assumptions ngon_tilt_vertices.
Print Assumptions q_ellipse_tilted.
Print Assumptions q_ngon.
