(* C07, end to end on the model's own functions: ONE PIECE produced by the slicing step of SplineObject.split
   (Model/Split.v: [obj_along o d (mkBasis p (slice_list k a (a+m+p)) 0) (slice_matrix n a m)], i.e. the knots with
   indices a .. a+m+p-1 and the control points a .. a+m-1 along direction d) is well formed and evaluates ([obj_eval])
   to the same point as the original object at every parameter tuple whose d-th parameter lies in the piece's
   sub-interval [k(a+p-1), k(a+m)] -- and, after snapping, stays at distance >= tol below the END of the piece unless
   that end is the end of the original object: within tol of its own end the piece is evaluated from the left
   ([normalise]), where the original object, for which this is an interior point, is evaluated from the right.
   Instance of Proofs/RestrictDirEval.v with Proofs/SplitProofs.v: row_rel_slice. *)
From Coq Require Import List Arith Reals Lra Lia Bool ZArith.
From SplipyModel Require Import Spec.BSpline Model.Num Model.BasisDef Model.BasisEval Model.Tensor Model.Obj Model.KnotInsert Model.Split
  Proofs.KnotList Proofs.SnapSpec Proofs.SnapChar Proofs.TensorLemmas Proofs.ObjEval
  Proofs.InsertMatrix Proofs.TensorApply Proofs.OrderRaise Proofs.InsertEndToEnd Proofs.SplitProofs Proofs.RestrictDirEval.
Import ListNotations.
Open Scope R_scope.

(* ---------- slice_list ---------- *)
Lemma nth_firstn_lt {A} (l : list A) : forall L j d, (j < L)%nat -> nth j (firstn L l) d = nth j l d.
Proof.
  induction l as [|x l IH]; intros L j d H; [rewrite firstn_nil; reflexivity|].
  destruct L as [|L]; [lia|]. destruct j as [|j]; cbn [firstn nth]; [reflexivity|]. apply IH. lia.
Qed.
Lemma nth_skipn_add {A} (a : nat) : forall (l : list A) j d, nth j (skipn a l) d = nth (a + j) l d.
Proof.
  induction a as [|a IH]; intros l j d; [reflexivity|].
  destruct l as [|x l]; cbn [skipn Nat.add nth]; [destruct j; reflexivity|]. apply IH.
Qed.
Lemma slice_list_length {A} (l : list A) a b : (b <= length l)%nat -> length (slice_list l a b) = (b - a)%nat.
Proof. intros H. unfold slice_list. rewrite firstn_length, skipn_length. lia. Qed.
Lemma slice_list_nth {A} (l : list A) a b j d : (j < b - a)%nat -> nth j (slice_list l a b) d = nth (a + j) l d.
Proof. intros H. unfold slice_list. rewrite nth_firstn_lt by exact H. apply nth_skipn_add. Qed.

Section SplitPiece.
Variable tol : R.
Hypothesis Htol : 0 < tol.
Variable o : obj R.
Hypothesis Hwf : wf_obj_R tol o.
Variable d : nat.
Hypothesis Hd : (d < length (o_bases o))%nat.
Local Notation bd := (nth d (o_bases o) dflt_basis).
Hypothesis Hper : b_per1 bd = 0%nat.
Local Notation k := (b_knots bd).
Local Notation p := (b_order bd).
Local Notation K := (@kn R NumR k).
Variables a m : nat.
Hypothesis Ham : (a + m <= @b_nfun R bd)%nat.
(* the domain of the piece is not degenerate *)
Hypothesis Hnd : 2 * tol <= K (a + m)%nat - K (a + p - 1)%nat.
Local Notation k' := (slice_list k a (a + m + p)).
Local Notation b' := (@mkBasis R p k' 0).
Local Notation Mx := (@slice_matrix R NumR (@b_nfun R bd) a m).
Local Notation piece := (@obj_along R NumR o d b' Mx).

Lemma sp_bd_wf : sorted K /\ (1 <= p)%nat /\ (2 * p <= length k)%nat /\ (0 < @b_nfun R bd)%nat /\ 2 * tol <= K (length k - p)%nat - K (p - 1)%nat.
Proof. destruct Hwf as (HB & _). rewrite Forall_forall in HB. apply HB. apply nth_In. exact Hd. Qed.
Lemma sp_nfun : @b_nfun R bd = (length k - p)%nat.
Proof. unfold b_nfun. rewrite Hper. lia. Qed.
Lemma sp_am : (a + m + p <= length k)%nat.
Proof. destruct sp_bd_wf as (_ & Hp & Hlen & _). pose proof Ham as H. rewrite sp_nfun in H. lia. Qed.
(* a piece with a non-degenerate domain has at least p functions *)
Lemma sp_pm : (p <= m)%nat.
Proof.
  destruct sp_bd_wf as (HK & Hp & _). destruct (Nat.le_gt_cases p m) as [L|L]; [exact L|].
  pose proof (HK (a + m)%nat (a + p - 1)%nat ltac:(lia)). lra.
Qed.
Lemma sp_len : length k' = (m + p)%nat.
Proof. rewrite slice_list_length by exact sp_am. lia. Qed.
Lemma sp_kn j : (j < m + p)%nat -> @kn R NumR k' j = K (a + j)%nat.
Proof.
  intros Hj. pose proof sp_am as H.
  rewrite (kn_in k' j ltac:(rewrite sp_len; exact Hj) 0), (kn_in k (a + j) ltac:(lia) 0).
  apply slice_list_nth. lia.
Qed.
Lemma sp_kn_out j : (m + p <= j)%nat -> @kn R NumR k' j = K (a + m + p - 1)%nat.
Proof.
  intros Hj. destruct sp_bd_wf as (_ & Hp & _).
  rewrite kn_out by (rewrite sp_len; exact Hj).
  assert (Hne : k' <> []) by (intros E; pose proof sp_len as L; rewrite E in L; cbn in L; lia).
  rewrite <- (nth_last_len k' 0 Hne). rewrite sp_len.
  rewrite <- (kn_in k' (m + p - 1) ltac:(rewrite sp_len; lia) 0). rewrite sp_kn by lia. f_equal. lia.
Qed.
Lemma sp_sorted : sorted (@kn R NumR k').
Proof.
  destruct sp_bd_wf as (HK & Hp & _). intros i j Hij.
  destruct (Nat.lt_ge_cases j (m + p)) as [Lj|Lj].
  - rewrite !sp_kn by lia. apply HK. lia.
  - rewrite (sp_kn_out j Lj). destruct (Nat.lt_ge_cases i (m + p)) as [Li|Li].
    + rewrite sp_kn by exact Li. apply HK. lia.
    + rewrite (sp_kn_out i Li). lra.
Qed.

(* the domain of the piece *)
Theorem split_piece_start : @b_start R NumR b' = K (a + p - 1)%nat.
Proof.
  destruct sp_bd_wf as (_ & Hp & _). unfold b_start. cbn [b_knots b_order]. rewrite sp_kn by lia. f_equal. lia.
Qed.
Theorem split_piece_end : @b_end R NumR b' = K (a + m)%nat.
Proof.
  destruct sp_bd_wf as (_ & Hp & _). unfold b_end. cbn [b_knots b_order]. rewrite sp_len.
  replace (m + p - p)%nat with m by lia. apply sp_kn. lia.
Qed.
Lemma sp_start' : @kn R NumR k' (p - 1) = K (a + p - 1)%nat.
Proof. exact split_piece_start. Qed.
Lemma sp_end' : @kn R NumR k' (length k' - p) = K (a + m)%nat.
Proof. exact split_piece_end. Qed.

(* the row of the piece's own basis is the row over the shifted knot function of Proofs/SplitProofs.v *)
Lemma sp_Brow side t : Brow side k' p t = Npiece side K (p - 1) a m t.
Proof.
  destruct sp_bd_wf as (_ & Hp & _). unfold Brow, Npiece. rewrite sp_len. replace (m + p - p)%nat with m by lia.
  apply map_ext_in. intros i Hi. apply in_seq in Hi. apply B_ext. intros j Hj. apply sp_kn. lia.
Qed.
Lemma sp_rel (side : bool) (t : R) :
  (if side then @kn R NumR k' (p - 1) <= t < @kn R NumR k' (length k' - p) else @kn R NumR k' (p - 1) < t <= @kn R NumR k' (length k' - p)) ->
  row_rel (Brow side k p t) (Brow side k' p t) Mx.
Proof.
  rewrite sp_start', sp_end'. intros Ht. destruct sp_bd_wf as (HK & Hp & _).
  rewrite sp_Brow. rewrite sp_nfun.
  change (Brow side k p t) with (Nfull side K (p - 1) (length k - p) t).
  apply (row_rel_slice side K HK (p - 1) (length k - p) a m t).
  - rewrite <- sp_nfun. exact Ham.
  - replace (a + (p - 1))%nat with (a + p - 1)%nat by lia. exact Ht.
Qed.

(* the knot VALUES of the piece are exactly the knot values of k between its first and its last knot *)
Lemma sp_vals v : In v k' <-> (In v k /\ K a <= v <= K (a + m + p - 1)%nat).
Proof.
  destruct sp_bd_wf as (HK & Hp & _). pose proof sp_am as Hamp. split.
  - intros Hv. destruct (In_nth k' v 0 Hv) as (j & Hj & Ej). rewrite sp_len in Hj.
    rewrite <- (kn_in k' j ltac:(rewrite sp_len; exact Hj) 0) in Ej. rewrite sp_kn in Ej by exact Hj. subst v.
    split; [apply kn_In'; lia|]. split; apply HK; lia.
  - intros (Hv & Hlo & Hhi). destruct (In_nth k v 0 Hv) as (i & Hi & Ei). rewrite <- (kn_in k i Hi 0) in Ei. subst v.
    assert (Hj : forall j, (j < m + p)%nat -> K i = K (a + j)%nat -> In (K i) k').
    { intros j Hj E. rewrite E, <- (sp_kn j Hj). apply kn_In'. rewrite sp_len. exact Hj. }
    destruct (Nat.lt_ge_cases i a) as [L|L].
    + apply (Hj 0%nat ltac:(lia)). rewrite Nat.add_0_r. pose proof (HK i a ltac:(lia)). lra.
    + destruct (Nat.lt_ge_cases i (a + m + p)) as [L2|L2].
      * apply (Hj (i - a)%nat ltac:(lia)). f_equal. lia.
      * apply (Hj (m + p - 1)%nat ltac:(lia)). replace (a + (m + p - 1))%nat with (a + m + p - 1)%nat by lia.
        pose proof (HK (a + m + p - 1)%nat i ltac:(lia)). lra.
Qed.

(* the piece is well formed *)
Theorem split_piece_wf : wf_obj_R tol piece.
Proof.
  destruct sp_bd_wf as (HK & Hp & _). pose proof sp_pm as Hpm. unfold obj_along.
  apply (restrict_dir_wf tol Htol o Hwf d Hd Hper k' p Mx sp_sorted Hp).
  - rewrite sp_len. lia.
  - rewrite sp_len. lia.
  - rewrite sp_start', sp_end'. exact Hnd.
  - exact sp_rel.
Qed.

(* the parameter tuple *)
Variable ts : list R.
Local Notation td := (nth d ts 0).
Hypothesis Hdom : forall i, (i < length (o_bases o))%nat -> i <> d -> in_dom tol (nth i (o_bases o) dflt_basis) (nth i ts 0).
(* the d-th parameter lies in the piece's sub-interval ... *)
Hypothesis Htd : K (a + p - 1)%nat <= td <= K (a + m)%nat.
(* ... and, once snapped, is not within tol of the piece's end, unless that is the end of the original object *)
Hypothesis Hside : @snap1 R NumR k tol td <= K (a + m)%nat - tol \/ K (a + m)%nat = K (length k - p)%nat.

Theorem split_piece_eval : @obj_eval R NumR tol piece ts = @obj_eval R NumR tol o ts.
Proof.
  destruct sp_bd_wf as (HK & Hp & Hlen & _). pose proof sp_pm as Hpm. pose proof sp_am as Hamp. unfold obj_along.
  apply (restrict_dir_eval tol Htol o Hwf d Hd Hper k' p Mx sp_sorted Hp).
  - rewrite sp_len. lia.
  - rewrite sp_start'. apply HK. lia.
  - rewrite sp_end'. apply HK. lia.
  - rewrite sp_start', sp_end'. exact Hnd.
  - exact sp_rel.
  - exact Hdom.
  - apply (snap1_restrict k k' (K a) (K (a + m + p - 1)%nat) tol td sp_vals); try assumption.
    + apply kn_In'. lia.
    + apply kn_In'. lia.
    + pose proof (HK a (a + p - 1)%nat ltac:(lia)). pose proof (HK (a + m)%nat (a + m + p - 1)%nat ltac:(lia)). lra.
    + exact sp_sorted.
  - rewrite sp_start', sp_end'.
    apply (snap1_between k (K (a + p - 1)%nat) (K (a + m)%nat) tol td); try assumption; apply kn_In'; lia.
  - rewrite sp_end'. exact Hside.
Qed.
End SplitPiece.

(* The same with the condition at the piece's end stated on the RAW d-th parameter: at distance >= 2*tol below the
   piece's end (snapping moves a parameter by less than tol), or the piece is the last one. *)
Theorem split_piece_eval_raw tol (o : obj R) d a m ts :
  0 < tol -> wf_obj_R tol o -> (d < length (o_bases o))%nat ->
  let bd := nth d (o_bases o) dflt_basis in
  let k := b_knots bd in let p := b_order bd in
  b_per1 bd = 0%nat -> (a + m <= @b_nfun R bd)%nat ->
  2 * tol <= @kn R NumR k (a + m) - @kn R NumR k (a + p - 1) ->
  (forall i, (i < length (o_bases o))%nat -> i <> d -> in_dom tol (nth i (o_bases o) dflt_basis) (nth i ts 0)) ->
  @kn R NumR k (a + p - 1) <= nth d ts 0 <= @kn R NumR k (a + m) ->
  (nth d ts 0 <= @kn R NumR k (a + m) - 2 * tol \/ @kn R NumR k (a + m) = @kn R NumR k (length k - p)) ->
  @obj_eval R NumR tol (@obj_along R NumR o d (mkBasis p (slice_list k a (a + m + p)) 0) (@slice_matrix R NumR (@b_nfun R bd) a m)) ts
  = @obj_eval R NumR tol o ts.
Proof.
  intros Htol Hwf Hd bd k p Hper Ham Hnd Hdom Htd Hside.
  apply (split_piece_eval tol Htol o Hwf d Hd Hper a m Ham Hnd ts Hdom Htd).
  destruct Hside as [L|Q]; [left|right; exact Q].
  destruct (sp_bd_wf tol o Hwf d Hd) as (HK & _).
  apply snap1_below_2tol; assumption.
Qed.

(* ... or at distance >= tol when no knot of the original lies strictly within tol below the piece's end *)
Theorem split_piece_eval_sep tol (o : obj R) d a m ts :
  0 < tol -> wf_obj_R tol o -> (d < length (o_bases o))%nat ->
  let bd := nth d (o_bases o) dflt_basis in
  let k := b_knots bd in let p := b_order bd in
  b_per1 bd = 0%nat -> (a + m <= @b_nfun R bd)%nat ->
  2 * tol <= @kn R NumR k (a + m) - @kn R NumR k (a + p - 1) ->
  (forall i, (i < length (o_bases o))%nat -> i <> d -> in_dom tol (nth i (o_bases o) dflt_basis) (nth i ts 0)) ->
  @kn R NumR k (a + p - 1) <= nth d ts 0 <= @kn R NumR k (a + m) ->
  (forall v, In v k -> ~ (@kn R NumR k (a + m) - tol < v < @kn R NumR k (a + m))) ->
  (nth d ts 0 <= @kn R NumR k (a + m) - tol \/ @kn R NumR k (a + m) = @kn R NumR k (length k - p)) ->
  @obj_eval R NumR tol (@obj_along R NumR o d (mkBasis p (slice_list k a (a + m + p)) 0) (@slice_matrix R NumR (@b_nfun R bd) a m)) ts
  = @obj_eval R NumR tol o ts.
Proof.
  intros Htol Hwf Hd bd k p Hper Ham Hnd Hdom Htd Hsep Hside.
  apply (split_piece_eval tol Htol o Hwf d Hd Hper a m Ham Hnd ts Hdom Htd).
  destruct Hside as [L|Q]; [left|right; exact Q].
  destruct (sp_bd_wf tol o Hwf d Hd) as (HK & _).
  apply snap1_below_sep; assumption.
Qed.


(* The LAST piece of the slicing loop, literally as [split_pieces] builds it ([skipn a k], all remaining control
   points): its end is the end of the original object, so no condition at the end is needed. *)
Lemma slice_list_to_end {A} (l : list A) a : slice_list l a (length l) = skipn a l.
Proof. unfold slice_list. rewrite <- skipn_length. apply firstn_all. Qed.

Theorem split_last_piece_eval tol (o : obj R) d a ts :
  0 < tol -> wf_obj_R tol o -> (d < length (o_bases o))%nat ->
  let bd := nth d (o_bases o) dflt_basis in
  let k := b_knots bd in let p := b_order bd in
  b_per1 bd = 0%nat -> (a <= @b_nfun R bd)%nat ->
  2 * tol <= @kn R NumR k (length k - p) - @kn R NumR k (a + p - 1) ->
  (forall i, (i < length (o_bases o))%nat -> i <> d -> in_dom tol (nth i (o_bases o) dflt_basis) (nth i ts 0)) ->
  @kn R NumR k (a + p - 1) <= nth d ts 0 <= @kn R NumR k (length k - p) ->
  @obj_eval R NumR tol (@obj_along R NumR o d (mkBasis p (skipn a k) 0) (@slice_matrix R NumR (@b_nfun R bd) a (@b_nfun R bd - a))) ts
  = @obj_eval R NumR tol o ts.
Proof.
  intros Htol Hwf Hd bd k p Hper Ha Hnd Hdom Htd.
  destruct (sp_bd_wf tol o Hwf d Hd) as (HK & Hp & Hlen & _). fold bd in HK, Hp, Hlen. fold k in HK, Hlen. fold p in Hp, Hlen.
  assert (Hn : @b_nfun R bd = (length k - p)%nat) by (unfold b_nfun; rewrite Hper; fold k; fold p; lia).
  assert (E1 : (a + (@b_nfun R bd - a) = length k - p)%nat) by lia.
  assert (E2 : (a + (@b_nfun R bd - a) + p = length k)%nat) by lia.
  rewrite <- (slice_list_to_end k a). rewrite <- E2 at 1.
  apply (split_piece_eval tol Htol o Hwf d Hd Hper a (@b_nfun R bd - a)%nat); fold bd; fold k; fold p.
  - lia.
  - rewrite E1. exact Hnd.
  - exact Hdom.
  - rewrite E1. exact Htd.
  - right. rewrite E1. reflexivity.
Qed.

