(* C16: the antiderivative formula behind BSplineBasis.integrate, the Frenet frame, and the behaviour of the
   length / area / volume integrands under rigid motions and uniform scaling. *)
From Coq Require Import List Arith Reals Lra Lia Bool ZArith.
From Coquelicot Require Import Coquelicot.
From SplipyModel Require Import Spec.BSpline Spec.Deriv Spec.DerivAnalytic Model.Num Gen.RotationMatrix Proofs.AffineProofs.
Import ListNotations.
Open Scope R_scope.

(* ---------- 1. integrate(): the sum of the higher-order B-splines from index i on is an antiderivative ---------- *)
Section Antiderivative.
Variable side : bool.
Variable k : nat -> R.

(* formal derivative of sum_{j=i}^{i+m} B_{j,q+1}: the terms telescope *)
Lemma antiderivative_telescopes q t : forall m i,
  sumf (fun j => dB side k 1 (S q) j t) i (S m)
  = INR (S q) * (dqR (k i) (k (i + S q)%nat) (B side k q i t)
                 - dqR (k (i + S m)%nat) (k (i + S m + S q)%nat) (B side k q (i + S m) t)).
Proof.
  induction m as [|m IH]; intros i.
  - cbn [sumf dB]. replace (i + 1)%nat with (i + 1)%nat by lia.
    replace (i + S q + 1)%nat with (i + 1 + S q)%nat by lia. ring.
  - rewrite sumf_S, IH. cbn [dB].
    replace (S i + S m)%nat with (i + S (S m))%nat by lia.
    replace (i + 1)%nat with (S i) by lia.
    replace (i + S q + 1)%nat with (S i + S q)%nat by lia. ring.
Qed.

(* with F_i(t) = (k_{i+q+1} - k_i) / (q+1) * sum_{j=i}^{i+m} B_{j,q+1}(t), the formal derivative is B_{i,q}(t)
   as soon as the last function of the sum is past t *)
Theorem antiderivative_formula q t m i : k i < k (i + S q)%nat -> B side k q (i + S m) t = 0 ->
  (k (i + S q)%nat - k i) / INR (S q) * sumf (fun j => dB side k 1 (S q) j t) i (S m) = B side k q i t.
Proof.
  intros Hlt Hz. rewrite antiderivative_telescopes, Hz, dqR_0, dqR_lt by exact Hlt.
  assert (0 < INR (S q)) by (apply lt_0_INR; lia). field. split; lra.
Qed.
End Antiderivative.

(* inside an open knot span the formal derivative is the derivative: F_i' = B_i there *)
Theorem antiderivative_is_derive (k : nat -> R) (Hk : sorted k) q t m0 : k m0 < t < k (S m0) ->
  forall m i, is_derive (fun s => sumf (fun j => B true k (S q) j s) i m) t (sumf (fun j => dB true k 1 (S q) j t) i m).
Proof.
  intros Ht. induction m as [|m IH]; intros i.
  - cbn [sumf]. apply @is_derive_const.
  - cbn [sumf].
    pose proof (dB_is_derivative k Hk m0 t Ht 0 (S q) i) as D1.
    pose proof (is_derive_plus _ _ t _ _ D1 (IH (S i))) as P.
    exact P.
Qed.

(* ---------- 2. Frenet frame ---------- *)
Section Frenet.
Variables v0 v1 v2 a0 a1 a2 : R.       (* velocity and acceleration *)
Let w0 := v1 * a2 - v2 * a1.
Let w1 := v2 * a0 - v0 * a2.
Let w2 := v0 * a1 - v1 * a0.
Variables nv nw : R.                   (* |v| and |v x a| *)
Hypothesis Hnv : nv * nv = v0 * v0 + v1 * v1 + v2 * v2.
Hypothesis Hnw : nw * nw = w0 * w0 + w1 * w1 + w2 * w2.
Hypothesis Hv : nv <> 0.
Hypothesis Hw : nw <> 0.
Let T0 := v0 / nv. Let T1 := v1 / nv. Let T2 := v2 / nv.
Let B0 := w0 / nw. Let B1 := w1 / nw. Let B2 := w2 / nw.
(* normal = binormal x tangent *)
Let N0 := B1 * T2 - B2 * T1. Let N1 := B2 * T0 - B0 * T2. Let N2 := B0 * T1 - B1 * T0.

Theorem frenet_orthonormal :
  T0 * T0 + T1 * T1 + T2 * T2 = 1 /\ B0 * B0 + B1 * B1 + B2 * B2 = 1 /\ N0 * N0 + N1 * N1 + N2 * N2 = 1 /\
  T0 * B0 + T1 * B1 + T2 * B2 = 0 /\ T0 * N0 + T1 * N1 + T2 * N2 = 0 /\ B0 * N0 + B1 * N1 + B2 * N2 = 0.
Proof.
  assert (TT : T0 * T0 + T1 * T1 + T2 * T2 = 1).
  { unfold T0, T1, T2. transitivity ((v0 * v0 + v1 * v1 + v2 * v2) / (nv * nv)); [field; exact Hv|]. rewrite <- Hnv. field. exact Hv. }
  assert (BB : B0 * B0 + B1 * B1 + B2 * B2 = 1).
  { unfold B0, B1, B2. transitivity ((w0 * w0 + w1 * w1 + w2 * w2) / (nw * nw)); [field; exact Hw|]. rewrite <- Hnw. field. exact Hw. }
  assert (TB : T0 * B0 + T1 * B1 + T2 * B2 = 0).
  { unfold T0, T1, T2, B0, B1, B2, w0, w1, w2. field. split; assumption. }
  repeat split; try assumption.
  - (* Lagrange: |B x T|^2 = |B|^2 |T|^2 - (B.T)^2 *)
    transitivity ((B0 * B0 + B1 * B1 + B2 * B2) * (T0 * T0 + T1 * T1 + T2 * T2) - (T0 * B0 + T1 * B1 + T2 * B2) * (T0 * B0 + T1 * B1 + T2 * B2));
      [unfold N0, N1, N2; ring|]. rewrite TT, BB, TB. ring.
  - unfold N0, N1, N2. ring.
  - unfold N0, N1, N2. ring.
Qed.
End Frenet.

(* ---------- 3. integrands under rigid motion and uniform scaling ---------- *)
(* a rotation matrix built by the regenerated kernel from a unit quaternion keeps the squared length of every
   vector (row vector times matrix, as rotate() applies it) *)
Theorem rotation_keeps_length a b c d (x y z : R) : a * a + b * b + c * c + d * d = 1 ->
  let M := @rotmat R NumR a b c d in
  let X := x * ent M 0 0 + y * ent M 1 0 + z * ent M 2 0 in
  let Y := x * ent M 0 1 + y * ent M 1 1 + z * ent M 2 1 in
  let Z := x * ent M 0 2 + y * ent M 1 2 + z * ent M 2 2 in
  X * X + Y * Y + Z * Z = x * x + y * y + z * z.
Proof.
  intros Hq. cbv zeta. unfold ent, rotmat. cbv zeta. cbn [nth nadd nsub nmul nofZ NumR].
  transitivity ((a * a + b * b + c * c + d * d) * (a * a + b * b + c * c + d * d) * (x * x + y * y + z * z)); [ring|].
  rewrite Hq. ring.
Qed.

(* uniform scaling by s: speed scales by |s| (squared: s^2), the area element by s^2, the volume element by s^3 *)
Theorem scaling_laws s (u0 u1 u2 v0 v1 v2 w0 w1 w2 : R) :
  (s * u0) * (s * u0) + (s * u1) * (s * u1) + (s * u2) * (s * u2) = s * s * (u0 * u0 + u1 * u1 + u2 * u2) /\
  (let cx := fun (a1 a2 b1 b2 : R) => a1 * b2 - a2 * b1 in
   cx (s * u1) (s * u2) (s * v1) (s * v2) = s * s * cx u1 u2 v1 v2) /\
  (s * u0) * ((s * v1) * (s * w2) - (s * v2) * (s * w1)) - (s * u1) * ((s * v0) * (s * w2) - (s * v2) * (s * w0))
    + (s * u2) * ((s * v0) * (s * w1) - (s * v1) * (s * w0))
  = s * s * s * (u0 * (v1 * w2 - v2 * w1) - u1 * (v0 * w2 - v2 * w0) + u2 * (v0 * w1 - v1 * w0)).
Proof. cbv zeta. repeat split; ring. Qed.

(* curvature |v x a| / |v|^3 and torsion (v x a).j / |v x a|^2 under uniform scaling by s > 0 and affine
   re-parametrisation t -> alpha t (v -> v/alpha, a -> a/alpha^2, j -> j/alpha^3): squared forms *)
Theorem curvature_scaling s nv nw : s <> 0 -> nv <> 0 ->
  ((s * s * nw) * (s * s * nw)) / ((s * nv) * (s * nv) * ((s * nv) * (s * nv)) * ((s * nv) * (s * nv))) = (nw * nw) / (nv * nv * (nv * nv) * (nv * nv)) / (s * s).
Proof. intros Hs Hv. field. split; assumption. Qed.
Theorem torsion_scaling s num nw2 : s <> 0 -> nw2 <> 0 ->
  (s * s * s * num) / (s * s * (s * s) * nw2) = num / nw2 / s.
Proof. intros Hs Hw. field. split; assumption. Qed.
