(* C18, mesh export: cell numbers enumerate every cell exactly once; the face list of a structured trilinear patch
   (Model/Faces.v, transcribed from TopologicalNode.faces) has the right number of faces, every internal face joins
   the two adjacent cells with owner < neighbour, every cell is bounded by exactly six faces, the nodes of a face are
   the shared corners, and the vertex order makes the normal point from owner to neighbour / out of the domain. *)
From Coq Require Import List Arith Lia Bool ZArith Permutation.
From SplipyModel Require Import Model.Faces.
Import ListNotations.

(* ================= generic list lemmas ================= *)

Lemma map_flat_map {A B C} (f : B -> C) (g : A -> list B) l : map f (flat_map g l) = flat_map (fun x => map f (g x)) l.
Proof. induction l as [|x r IH]; cbn; [reflexivity|]. rewrite map_app, IH. reflexivity. Qed.

Lemma flat_map_map {A B C} (f : A -> B) (g : B -> list C) l : flat_map g (map f l) = flat_map (fun x => g (f x)) l.
Proof. induction l as [|x r IH]; cbn; [reflexivity|]. rewrite IH. reflexivity. Qed.

Lemma flat_map_ext_in {A B} (f g : A -> list B) l : (forall x, In x l -> f x = g x) -> flat_map f l = flat_map g l.
Proof.
  induction l as [|x r IH]; cbn; [reflexivity|]. intros H. rewrite (H x (or_introl eq_refl)), IH; [reflexivity|].
  intros y Hy. apply H. right. exact Hy.
Qed.

Lemma flat_map_length_const {A B} (f : A -> list B) l m : (forall x, In x l -> length (f x) = m) ->
  length (flat_map f l) = length l * m.
Proof.
  induction l as [|x r IH]; cbn; [reflexivity|]. intros H. rewrite app_length, (H x (or_introl eq_refl)), IH; [reflexivity|].
  intros y Hy. apply H. right. exact Hy.
Qed.

Lemma NoDup_app_intro {A} (l1 l2 : list A) : NoDup l1 -> NoDup l2 -> (forall x, In x l1 -> In x l2 -> False) -> NoDup (l1 ++ l2).
Proof.
  induction l1 as [|x r IH]; cbn; [intros _ H _; exact H|]. intros N1 N2 D. inversion N1 as [|? ? Hn N1']; subst.
  constructor.
  - intros I. apply in_app_or in I. destruct I as [I|I]; [exact (Hn I)|]. exact (D x (or_introl eq_refl) I).
  - apply IH; [exact N1'|exact N2|]. intros y Hy. apply D. right. exact Hy.
Qed.

Lemma NoDup_flat_map {A B} (f : A -> list B) l : NoDup l -> (forall x, In x l -> NoDup (f x)) ->
  (forall x y z, In x l -> In y l -> In z (f x) -> In z (f y) -> x = y) -> NoDup (flat_map f l).
Proof.
  induction l as [|x r IH]; cbn; [intros; constructor|]. intros N H D. inversion N as [|? ? Hn N']; subst.
  apply NoDup_app_intro.
  - apply H. left. reflexivity.
  - apply IH; [exact N'| |]. { intros y Hy. apply H. right. exact Hy. }
    intros a b z Ha Hb. apply D; right; assumption.
  - intros z Hz Hz'. apply in_flat_map in Hz'. destruct Hz' as (y & Hy & Hzy).
    assert (x = y) as -> by (apply (D x y z); [left; reflexivity|right; exact Hy|exact Hz|exact Hzy]). exact (Hn Hy).
Qed.

Lemma NoDup_map_inj_in {A B} (f : A -> B) l : NoDup l -> (forall x y, In x l -> In y l -> f x = f y -> x = y) -> NoDup (map f l).
Proof.
  induction l as [|x r IH]; cbn; [intros; constructor|]. intros N H. inversion N as [|? ? Hn N']; subst. constructor.
  - intros I. apply in_map_iff in I. destruct I as (y & E & Hy).
    assert (y = x) as -> by (apply H; [right; exact Hy|left; reflexivity|exact E]). exact (Hn Hy).
  - apply IH; [exact N'|]. intros a b Ha Hb. apply H; right; assumption.
Qed.

(* a key that is duplicate-free over the list identifies the element *)
Lemma NoDup_map_key {A B} (f : A -> B) l x y : NoDup (map f l) -> In x l -> In y l -> f x = f y -> x = y.
Proof.
  induction l as [|a r IH]; cbn; [intros _ []|]. intros N Hx Hy E. inversion N as [|? ? Hn N']; subst.
  destruct Hx as [->|Hx], Hy as [->|Hy].
  - reflexivity.
  - exfalso. apply Hn. rewrite E. apply in_map. exact Hy.
  - exfalso. apply Hn. rewrite <- E. apply in_map. exact Hx.
  - apply IH; assumption.
Qed.

Lemma filter_map_length {A B} (p : B -> bool) (f : A -> B) l : length (filter p (map f l)) = length (filter (fun x => p (f x)) l).
Proof. induction l as [|x r IH]; cbn; [reflexivity|]. destruct (p (f x)); cbn; rewrite IH; reflexivity. Qed.

Lemma filter_or_length {A} (p q : A -> bool) l : (forall x, In x l -> p x = true -> q x = true -> False) ->
  length (filter (fun x => p x || q x) l) = length (filter p l) + length (filter q l).
Proof.
  induction l as [|x r IH]; cbn; [reflexivity|]. intros H.
  assert (IH' : length (filter (fun x => p x || q x) r) = length (filter p r) + length (filter q r)).
  { apply IH. intros y Hy. apply H. right. exact Hy. }
  pose proof (H x (or_introl eq_refl)) as Hx. destruct (p x), (q x); cbn; rewrite IH'; try lia;
    exfalso; apply Hx; reflexivity.
Qed.

Lemma filter_none_length {A} (p : A -> bool) l : (forall x, In x l -> p x = false) -> length (filter p l) = 0.
Proof.
  induction l as [|x r IH]; cbn; [reflexivity|]. intros H. rewrite (H x (or_introl eq_refl)). apply IH.
  intros y Hy. apply H. right. exact Hy.
Qed.

Lemma filter_one_length {A} (p : A -> bool) l a : NoDup l -> In a l -> (forall x, In x l -> (p x = true <-> x = a)) ->
  length (filter p l) = 1.
Proof.
  induction l as [|x r IH]; cbn; [intros _ []|]. intros N I H. inversion N as [|? ? Hn N']; subst.
  destruct I as [->|I].
  - assert (E : p a = true) by (apply H; [left|]; reflexivity). rewrite E. cbn. f_equal. apply filter_none_length.
    intros y Hy. destruct (p y) eqn:Ey; [|reflexivity]. exfalso. apply Hn.
    assert (y = a) as <- by (apply H; [right; exact Hy|exact Ey]). exact Hy.
  - destruct (p x) eqn:Ex.
    + exfalso. apply Hn. assert (x = a) as -> by (apply H; [left; reflexivity|exact Ex]). exact I.
    + apply IH; [exact N'|exact I|]. intros y Hy. apply H. right. exact Hy.
Qed.

(* the form used below: the number of hits is the indicator of a condition b *)
Lemma filter_b2n_length {A} (p : A -> bool) l (b : bool) a : NoDup l ->
  (b = true -> In a l /\ forall x, In x l -> (p x = true <-> x = a)) ->
  (b = false -> forall x, In x l -> p x = false) ->
  length (filter p l) = Nat.b2n b.
Proof.
  intros N Ht Hf. destruct b; cbn.
  - destruct (Ht eq_refl) as [I H]. apply (filter_one_length p l a N I H).
  - apply filter_none_length. apply Hf. reflexivity.
Qed.

(* ================= grid3 ================= *)

Lemma in_grid3 r0 r1 r2 i j k : In (i, j, k) (grid3 r0 r1 r2) <-> In i r0 /\ In j r1 /\ In k r2.
Proof.
  unfold grid3. rewrite in_flat_map. split.
  - intros (a & Ha & H). apply in_flat_map in H. destruct H as (b & Hb & H). apply in_map_iff in H.
    destruct H as (c & E & Hc). injection E as <- <- <-. repeat split; assumption.
  - intros (Hi & Hj & Hk). exists i. split; [exact Hi|]. apply in_flat_map. exists j. split; [exact Hj|].
    apply in_map_iff. exists k. split; [reflexivity|exact Hk].
Qed.

Lemma length_grid3 r0 r1 r2 : length (grid3 r0 r1 r2) = length r0 * (length r1 * length r2).
Proof.
  unfold grid3. apply flat_map_length_const. intros i _. apply flat_map_length_const. intros j _. apply map_length.
Qed.

Lemma NoDup_grid3 r0 r1 r2 : NoDup r0 -> NoDup r1 -> NoDup r2 -> NoDup (grid3 r0 r1 r2).
Proof.
  intros N0 N1 N2. unfold grid3. apply NoDup_flat_map; [exact N0| |].
  - intros i _. apply NoDup_flat_map; [exact N1| |].
    + intros j _. apply NoDup_map_inj_in; [exact N2|]. intros a b _ _ E. injection E as ->. reflexivity.
    + intros a b z _ _ Ha Hb. apply in_map_iff in Ha, Hb. destruct Ha as (c & <- & _), Hb as (c' & E & _).
      injection E as -> _. reflexivity.
  - intros a b z _ _ Ha Hb. apply in_flat_map in Ha, Hb. destruct Ha as (j & _ & Ha), Hb as (j' & _ & Hb).
    apply in_map_iff in Ha, Hb. destruct Ha as (c & <- & _), Hb as (c' & E & _). injection E as -> _ _. reflexivity.
Qed.

(* shifting one axis of the grid *)
Lemma grid3_shift0 r0 r1 r2 : grid3 (map S r0) r1 r2 = map (add_e 0) (grid3 r0 r1 r2).
Proof.
  unfold grid3. rewrite flat_map_map, map_flat_map. apply flat_map_ext_in. intros i _.
  rewrite map_flat_map. apply flat_map_ext_in. intros j _. rewrite map_map. reflexivity.
Qed.
Lemma grid3_shift1 r0 r1 r2 : grid3 r0 (map S r1) r2 = map (add_e 1) (grid3 r0 r1 r2).
Proof.
  unfold grid3. rewrite map_flat_map. apply flat_map_ext_in. intros i _.
  rewrite flat_map_map, map_flat_map. apply flat_map_ext_in. intros j _. rewrite map_map. reflexivity.
Qed.
Lemma grid3_shift2 r0 r1 r2 : grid3 r0 r1 (map S r2) = map (add_e 2) (grid3 r0 r1 r2).
Proof.
  unfold grid3. rewrite map_flat_map. apply flat_map_ext_in. intros i _.
  rewrite map_flat_map. apply flat_map_ext_in. intros j _. rewrite !map_map. reflexivity.
Qed.

Lemma seq1 n : seq 1 n = map S (seq 0 n).
Proof. symmetry. apply seq_shift. Qed.

(* columns that are maps over one list zip to a map *)
Lemma zip_faces_map {A} (f0 f1 f2 f3 : A -> idx3) (fo : A -> nat) (fn : A -> option nat) l :
  zip_faces (map f0 l) (map f1 l) (map f2 l) (map f3 l) (map fo l) (map fn l)
  = map (fun x => mkFace (f0 x) (f1 x) (f2 x) (f3 x) (fo x) (fn x)) l.
Proof. induction l as [|x r IH]; cbn; [reflexivity|]. rewrite IH. reflexivity. Qed.

Lemma zip_faces_map_id (f1 f2 f3 : idx3 -> idx3) (fo : idx3 -> nat) (fn : idx3 -> option nat) l :
  zip_faces l (map f1 l) (map f2 l) (map f3 l) (map fo l) (map fn l)
  = map (fun x => mkFace x (f1 x) (f2 x) (f3 x) (fo x) (fn x)) l.
Proof. induction l as [|x r IH]; cbn; [reflexivity|]. rewrite IH. reflexivity. Qed.

(* ================= 1. cell numbers ================= *)

Lemma map_add_seq a n : map (fun k => a + k) (seq 0 n) = seq a n.
Proof.
  revert a. induction n as [|n IH]; intros a; cbn; [reflexivity|]. rewrite Nat.add_0_r. f_equal.
  rewrite <- seq_shift, map_map. rewrite <- (IH (S a)). apply map_ext. intros k. lia.
Qed.

Lemma flat_map_seq_blocks a m n : flat_map (fun i => seq (a + i * m) m) (seq 0 n) = seq a (n * m).
Proof.
  induction n as [|n IH]; [reflexivity|]. rewrite seq_S, flat_map_app, IH. cbn [flat_map]. rewrite app_nil_r.
  replace (S n * m) with (n * m + m) by lia. rewrite seq_app. reflexivity.
Qed.

(* the flattened array np.reshape(np.arange(start, start + nelems), shape) read through the model's index function *)
Theorem cell_numbers_patch start sh : map (cell_number start sh) (cells sh) = seq start (ncells sh).
Proof.
  destruct sh as [[nx ny] nz]. unfold cells, take_idx, s_all, grid3, ncells. rewrite map_flat_map.
  rewrite <- Nat.mul_assoc. rewrite <- (flat_map_seq_blocks start (ny * nz) nx). apply flat_map_ext_in. intros i _.
  rewrite map_flat_map. rewrite <- (flat_map_seq_blocks (start + i * (ny * nz)) nz ny). apply flat_map_ext_in. intros j _.
  rewrite map_map. cbn [cell_number]. rewrite <- (map_add_seq (start + i * (ny * nz) + j * nz) nz). apply map_ext. intros k. lia.
Qed.

Fixpoint total_cells (shs : list idx3) : nat := match shs with [] => 0 | sh :: r => ncells sh + total_cells r end.

Lemma cell_numbers_from_spec shs : forall start,
  concat (fst (cell_numbers_from start shs)) = seq start (total_cells shs) /\
  snd (cell_numbers_from start shs) = start + total_cells shs /\
  length (fst (cell_numbers_from start shs)) = length shs.
Proof.
  induction shs as [|sh r IH]; intros start; cbn [cell_numbers_from total_cells].
  - cbn. repeat split. lia.
  - destruct (cell_numbers_from (start + ncells sh) r) as [rest next] eqn:E.
    destruct (IH (start + ncells sh)) as (I1 & I2 & I3). rewrite E in I1, I2, I3. cbn [fst snd] in *.
    cbn [concat length]. rewrite cell_numbers_patch, I1, seq_app. repeat split; lia.
Qed.

(* the cell numbers of all patches, in patch order and C order inside a patch, are 0, 1, ..., ncells-1 *)
Theorem cell_numbers_enumerate shs nums n : cell_numbers_model shs = (nums, n) ->
  n = total_cells shs /\ length nums = length shs /\ concat nums = seq 0 n.
Proof.
  unfold cell_numbers_model. intros E. destruct (cell_numbers_from_spec shs 0) as (I1 & I2 & I3).
  rewrite E in I1, I2, I3. cbn [fst snd] in *. subst n. repeat split; assumption.
Qed.

(* hence a bijection onto 0 .. ncells-1: no number twice, all in range, every number of the range exactly once *)
Theorem cell_numbers_bijection shs nums n : cell_numbers_model shs = (nums, n) ->
  n = total_cells shs /\ NoDup (concat nums) /\ length (concat nums) = n /\
  (forall v, In v (concat nums) <-> v < n) /\
  (forall v, v < n -> count_occ Nat.eq_dec (concat nums) v = 1).
Proof.
  intros E. destruct (cell_numbers_enumerate shs nums n E) as (En & _ & ->). split; [exact En|].
  split; [apply seq_NoDup|]. split; [apply seq_length|]. split.
  - intros v. rewrite in_seq. lia.
  - intros v Hv. apply NoDup_count_occ'; [apply seq_NoDup|]. apply in_seq. lia.
Qed.

(* every patch's array holds the block start_a .. start_a + ncells_a - 1 *)
Lemma cell_numbers_from_blocks shs : forall start a, a < length shs ->
  nth a (fst (cell_numbers_from start shs)) [] = seq (start + total_cells (firstn a shs)) (ncells (nth a shs (0, 0, 0))).
Proof.
  induction shs as [|sh r IH]; intros start a Ha; [cbn in Ha; lia|]. cbn [cell_numbers_from].
  pose proof (IH (start + ncells sh)) as IH'.
  destruct (cell_numbers_from (start + ncells sh) r) as [rest next]. cbn [fst] in *.
  destruct a as [|a]; cbn [nth firstn total_cells].
  - rewrite cell_numbers_patch. f_equal. lia.
  - rewrite IH' by (cbn in Ha; lia). f_equal. lia.
Qed.
Theorem cell_numbers_blocks shs nums n a : cell_numbers_model shs = (nums, n) -> a < length shs ->
  nth a nums [] = seq (total_cells (firstn a shs)) (ncells (nth a shs (0, 0, 0))).
Proof.
  unfold cell_numbers_model. intros E Ha. pose proof (cell_numbers_from_blocks shs 0 a Ha) as H. rewrite E in H. exact H.
Qed.

(* within a patch the numbering is injective on valid cells *)
Lemma radix_inj n a b a' b' : b < n -> b' < n -> a * n + b = a' * n + b' -> a = a' /\ b = b'.
Proof.
  intros Hb Hb' E. apply (Nat.div_mod_unique n a a' b b' Hb Hb'). lia.
Qed.

Lemma cell_number_inj start sh c c' : in_cells sh c -> in_cells sh c' ->
  cell_number start sh c = cell_number start sh c' -> c = c'.
Proof.
  destruct sh as [[nx ny] nz], c as [[i j] k], c' as [[i' j'] k']. cbn [in_cells cell_number].
  intros (Hi & Hj & Hk) (Hi' & Hj' & Hk') E.
  assert (E1 : (i * ny + j) * nz + k = (i' * ny + j') * nz + k') by lia.
  destruct (radix_inj nz _ _ _ _ Hk Hk' E1) as [E2 ->]. destruct (radix_inj ny _ _ _ _ Hj Hj' E2) as [-> ->]. reflexivity.
Qed.

Lemma cell_number_range start sh c : in_cells sh c -> start <= cell_number start sh c < start + ncells sh.
Proof.
  destruct sh as [[nx ny] nz], c as [[i j] k]. cbn [in_cells cell_number ncells]. intros (Hi & Hj & Hk). split; [lia|].
  assert ((i * ny + j) * nz + k < nx * ny * nz); [|lia].
  assert (H1 : i * ny + j + 1 <= nx * ny) by nia. assert (H2 : (i * ny + j + 1) * nz <= nx * ny * nz) by (apply Nat.mul_le_mono_r; exact H1). lia.
Qed.

Lemma in_cells_iff sh c : In c (cells sh) <-> in_cells sh c.
Proof.
  destruct sh as [[nx ny] nz], c as [[i j] k]. unfold cells, take_idx, s_all. rewrite in_grid3, !in_seq. cbn [in_cells]. lia.
Qed.
Lemma NoDup_cells sh : NoDup (cells sh).
Proof. destruct sh as [[nx ny] nz]. unfold cells, take_idx, s_all. apply NoDup_grid3; apply seq_NoDup. Qed.
Lemma length_cells sh : length (cells sh) = ncells sh.
Proof. destruct sh as [[nx ny] nz]. unfold cells, take_idx, s_all, ncells. rewrite length_grid3, !seq_length. lia. Qed.

(* ================= closed form of the face lists ================= *)

(* the two directions spanning a face normal to d, in the order the code uses them: (d, a, b) is a cyclic
   permutation of (0, 1, 2); this is what mkindex's swap for dim = 1 achieves *)
Definition ax_a (d : nat) : nat := match d with 0 => 1 | 1 => 2 | _ => 0 end.
Definition ax_b (d : nat) : nat := match d with 0 => 2 | 1 => 0 | _ => 1 end.

(* the face on the upper side (direction d) of cell q *)
Definition up_face (d : nat) (q : idx3) (ow : nat) (nb : option nat) : face :=
  mkFace (add_e d q) (add_e (ax_a d) (add_e d q)) (add_e (ax_a d) (add_e (ax_b d) (add_e d q))) (add_e (ax_b d) (add_e d q)) ow nb.
(* the face on the lower side of cell q, with nodes 1 and 3 exchanged *)
Definition low_face (d : nat) (q : idx3) (ow : nat) (nb : option nat) : face :=
  mkFace q (add_e (ax_b d) q) (add_e (ax_a d) (add_e (ax_b d) q)) (add_e (ax_a d) q) ow nb.

Definition iface start sh d q := up_face d q (cell_number start sh q) (Some (cell_number start sh (add_e d q))).
Definition bface1 start sh d q := up_face d q (cell_number start sh q) None.
Definition bface0 start sh d q := low_face d q (cell_number start sh q) None.

(* cells having a neighbour above in direction d; cells in the first / last layer of direction d *)
Definition lower_cells sh d := take_idx sh (mkindex d s_init s_all s_all).
Definition first_cells sh d := take_idx sh (mkindex d s_first s_all s_all).
Definition last_cells sh d := take_idx sh (mkindex d s_last s_all s_all).

Ltac norm_sub := rewrite ?Nat.sub_succ, ?Nat.sub_0_r.
Ltac shift_grids := rewrite ?seq1; repeat (rewrite grid3_shift0 || rewrite grid3_shift1 || rewrite grid3_shift2); rewrite ?map_map.

Lemma internal_faces_closed start sh d : d < 3 ->
  internal_faces start sh d = map (iface start sh d) (lower_cells sh d).
Proof.
  intros Hd. destruct sh as [[nx ny] nz]. destruct d as [|[|[|d]]]; [| | |lia];
    unfold internal_faces, lower_cells, cpshape, mkindex, take_idx, s_mid, s_init, s_tail, s_all; norm_sub; shift_grids;
    rewrite zip_faces_map; apply map_ext; intros [[i j] k]; reflexivity.
Qed.

Lemma boundary_faces_lower_closed start sh d : d < 3 ->
  boundary_faces start sh d false = map (bface0 start sh d) (first_cells sh d).
Proof.
  intros Hd. destruct sh as [[nx ny] nz]. destruct d as [|[|[|d]]]; [| | |lia];
    unfold boundary_faces, first_cells, cpshape, mkindex, take_idx, s_first, s_init, s_tail, s_all; norm_sub; shift_grids;
    rewrite zip_faces_map_id; apply map_ext; intros [[i j] k]; reflexivity.
Qed.

Lemma boundary_faces_upper_closed start sh d : d < 3 -> pos_shape sh ->
  boundary_faces start sh d true = map (bface1 start sh d) (last_cells sh d).
Proof.
  intros Hd. destruct sh as [[nx ny] nz]. intros (Hx & Hy & Hz).
  destruct nx as [|nx]; [lia|]. destruct ny as [|ny]; [lia|]. destruct nz as [|nz]; [lia|].
  destruct d as [|[|[|d]]]; [| | |lia];
    unfold boundary_faces, last_cells, cpshape, mkindex, take_idx, s_last, s_init, s_tail, s_all; norm_sub.
  - change [S nx] with (map S [nx]). shift_grids. rewrite zip_faces_map; apply map_ext; intros [[i j] k]; reflexivity.
  - change [S ny] with (map S [ny]). shift_grids. rewrite zip_faces_map; apply map_ext; intros [[i j] k]; reflexivity.
  - change [S nz] with (map S [nz]). shift_grids. rewrite zip_faces_map; apply map_ext; intros [[i j] k]; reflexivity.
Qed.

(* ---------- the index sets ---------- *)

Lemma in_lower_cells sh d q : d < 3 -> (In q (lower_cells sh d) <-> in_cells sh q /\ in_cells sh (add_e d q)).
Proof.
  intros Hd. destruct sh as [[nx ny] nz], q as [[i j] k]. destruct d as [|[|[|d]]]; [| | |lia];
    unfold lower_cells, mkindex, take_idx, s_init, s_all; rewrite in_grid3, !in_seq; cbn [in_cells add_e]; lia.
Qed.
Lemma in_first_cells sh d q : d < 3 -> pos_shape sh -> (In q (first_cells sh d) <-> in_cells sh q /\ get d q = 0).
Proof.
  intros Hd. destruct sh as [[nx ny] nz], q as [[i j] k]. intros (Hx & Hy & Hz). destruct d as [|[|[|d]]]; [| | |lia];
    unfold first_cells, mkindex, take_idx, s_first, s_all; rewrite in_grid3, !in_seq; cbn [in_cells get In]; lia.
Qed.
Lemma in_last_cells sh d q : d < 3 -> pos_shape sh -> (In q (last_cells sh d) <-> in_cells sh q /\ S (get d q) = get d sh).
Proof.
  intros Hd. destruct sh as [[nx ny] nz], q as [[i j] k]. intros (Hx & Hy & Hz). destruct d as [|[|[|d]]]; [| | |lia];
    unfold last_cells, mkindex, take_idx, s_last, s_all; rewrite in_grid3, !in_seq; cbn [in_cells get In]; lia.
Qed.

Lemma NoDup_one (x : nat) : NoDup [x].
Proof. constructor; [intros []|constructor]. Qed.

Lemma NoDup_lower_cells sh d : NoDup (lower_cells sh d).
Proof.
  destruct sh as [[nx ny] nz]. destruct d as [|[|d]]; unfold lower_cells, mkindex, take_idx, s_init, s_all;
    apply NoDup_grid3; apply seq_NoDup.
Qed.
Lemma NoDup_first_cells sh d : NoDup (first_cells sh d).
Proof.
  destruct sh as [[nx ny] nz]. destruct d as [|[|d]]; unfold first_cells, mkindex, take_idx, s_first, s_all;
    apply NoDup_grid3; try apply seq_NoDup; apply NoDup_one.
Qed.
Lemma NoDup_last_cells sh d : NoDup (last_cells sh d).
Proof.
  destruct sh as [[nx ny] nz]. destruct d as [|[|d]]; unfold last_cells, mkindex, take_idx, s_last, s_all;
    apply NoDup_grid3; try apply seq_NoDup; apply NoDup_one.
Qed.

(* ================= 2. the number of faces ================= *)

(* nperslice = ncells // shape[d] *)
Definition nperslice (sh : idx3) (d : nat) : nat :=
  let '(nx, ny, nz) := sh in match d with 0 => ny * nz | 1 => nx * nz | _ => nx * ny end.

Lemma length_lower_cells sh d : d < 3 -> length (lower_cells sh d) = ncells sh - nperslice sh d.
Proof.
  intros Hd. destruct sh as [[nx ny] nz]. destruct d as [|[|[|d]]]; [| | |lia];
    unfold lower_cells, mkindex, take_idx, s_init, s_all, ncells, nperslice; rewrite length_grid3, !seq_length.
  - destruct nx; cbn [Nat.sub]; nia.
  - destruct ny; cbn [Nat.sub]; nia.
  - destruct nz; cbn [Nat.sub]; nia.
Qed.
Lemma length_first_cells sh d : d < 3 -> length (first_cells sh d) = nperslice sh d.
Proof.
  intros Hd. destruct sh as [[nx ny] nz]. destruct d as [|[|[|d]]]; [| | |lia];
    unfold first_cells, mkindex, take_idx, s_first, s_all, nperslice; rewrite length_grid3, !seq_length; cbn [length]; lia.
Qed.
Lemma length_last_cells sh d : d < 3 -> length (last_cells sh d) = nperslice sh d.
Proof.
  intros Hd. destruct sh as [[nx ny] nz]. destruct d as [|[|[|d]]]; [| | |lia];
    unfold last_cells, mkindex, take_idx, s_last, s_all, nperslice; rewrite length_grid3, !seq_length; cbn [length]; lia.
Qed.

(* per direction, as the code allocates them: nfaces = ncells - nperslice internal, nperslice on each boundary *)
Theorem face_count_dir start sh d : d < 3 -> pos_shape sh ->
  length (internal_faces start sh d) = ncells sh - nperslice sh d /\
  length (boundary_faces start sh d false) = nperslice sh d /\
  length (boundary_faces start sh d true) = nperslice sh d.
Proof.
  intros Hd Hp. rewrite internal_faces_closed, boundary_faces_lower_closed, boundary_faces_upper_closed by assumption.
  rewrite !map_length. auto using length_lower_cells, length_first_cells, length_last_cells.
Qed.

Theorem face_count start nx ny nz : 1 <= nx -> 1 <= ny -> 1 <= nz ->
  length (internal_faces_all start (nx, ny, nz)) = 3 * nx * ny * nz - (ny * nz + nx * nz + nx * ny) /\
  length (internal_faces_all start (nx, ny, nz)) + (ny * nz + nx * nz + nx * ny) = 3 * nx * ny * nz /\
  length (boundary_faces_all start (nx, ny, nz)) = 2 * (ny * nz + nx * nz + nx * ny) /\
  length (patch_faces start (nx, ny, nz)) = 3 * nx * ny * nz + (ny * nz + nx * nz + nx * ny).
Proof.
  intros Hx Hy Hz. assert (Hp : pos_shape (nx, ny, nz)) by (cbn; lia).
  destruct (face_count_dir start _ 0 ltac:(lia) Hp) as (A0 & B0 & C0).
  destruct (face_count_dir start _ 1 ltac:(lia) Hp) as (A1 & B1 & C1).
  destruct (face_count_dir start _ 2 ltac:(lia) Hp) as (A2 & B2 & C2).
  unfold internal_faces_all, boundary_faces_all, patch_faces, dir_faces. cbn [flat_map]. rewrite !app_length.
  rewrite A0, A1, A2, B0, B1, B2, C0, C1, C2. cbn [length ncells nperslice].
  assert (ny * nz <= nx * ny * nz) by nia. assert (nx * nz <= nx * ny * nz) by nia. assert (nx * ny <= nx * ny * nz) by nia.
  repeat split; lia.
Qed.

(* ================= 3. internal faces: owner below neighbour, the two adjacent cells, once ================= *)

(* the cell above in direction d has the larger number: the C-order strides are ny*nz, nz, 1 *)
Definition stride (sh : idx3) (d : nat) : nat := let '(nx, ny, nz) := sh in match d with 0 => ny * nz | 1 => nz | _ => 1 end.
Lemma cell_number_add_e start sh d q : d < 3 -> cell_number start sh (add_e d q) = cell_number start sh q + stride sh d.
Proof.
  intros Hd. destruct sh as [[nx ny] nz], q as [[i j] k]. destruct d as [|[|[|d]]]; [| | |lia]; cbn [add_e cell_number stride]; lia.
Qed.
Lemma stride_pos sh d q : d < 3 -> in_cells sh q -> 1 <= stride sh d.
Proof.
  intros Hd. destruct sh as [[nx ny] nz], q as [[i j] k]. cbn [in_cells]. intros (Hi & Hj & Hk).
  destruct d as [|[|[|d]]]; [| | |lia]; cbn [stride]; nia.
Qed.
Lemma cell_number_add_e_lt start sh d q : d < 3 -> in_cells sh q -> cell_number start sh q < cell_number start sh (add_e d q).
Proof. intros Hd Hq. rewrite cell_number_add_e by exact Hd. pose proof (stride_pos sh d q Hd Hq). lia. Qed.

Lemma add_e_inj d q q' : add_e d q = add_e d q' -> q = q'.
Proof. destruct q as [[i j] k], q' as [[i' j'] k']. destruct d as [|[|d]]; cbn [add_e]; intros [= -> -> ->]; reflexivity. Qed.
Lemma add_e_dir d d' q : d < 3 -> d' < 3 -> add_e d q = add_e d' q -> d = d'.
Proof.
  intros Hd Hd'. destruct q as [[i j] k]. destruct d as [|[|[|d]]]; [| | |lia]; destruct d' as [|[|[|d']]]; try lia;
    cbn [add_e]; intros [= ]; try reflexivity; lia.
Qed.
Lemma add_e_ne d q : add_e d q <> q.
Proof. destruct q as [[i j] k]. destruct d as [|[|d]]; cbn [add_e]; intros [= ]; lia. Qed.

Lemma in_internal_faces start sh d f : d < 3 ->
  (In f (internal_faces start sh d) <-> exists q, in_cells sh q /\ in_cells sh (add_e d q) /\ f = iface start sh d q).
Proof.
  intros Hd. rewrite internal_faces_closed by exact Hd. rewrite in_map_iff. split.
  - intros (q & <- & Hq). apply in_lower_cells in Hq; [|exact Hd]. exists q. destruct Hq. repeat split; assumption.
  - intros (q & H1 & H2 & ->). exists q. split; [reflexivity|]. apply in_lower_cells; [exact Hd|]. split; assumption.
Qed.

Lemma in_flat_map_012 {A} (F : nat -> list A) x : In x (flat_map F [0; 1; 2]) <-> exists d, d < 3 /\ In x (F d).
Proof.
  rewrite in_flat_map. split.
  - intros (d & Hd & Hx). exists d. split; [cbn in Hd; lia|exact Hx].
  - intros (d & Hd & Hx). exists d. split; [cbn; lia|exact Hx].
Qed.

(* 3a. every internal face: owner and neighbour are the numbers of a cell q and of the next cell in direction d,
       and owner < neighbour; the difference is the C-order stride of direction d *)
Theorem internal_face_owner_neighbor start sh f : In f (internal_faces_all start sh) ->
  exists d q, d < 3 /\ In f (internal_faces start sh d) /\ in_cells sh q /\ in_cells sh (add_e d q) /\
    owner f = cell_number start sh q /\ neighbor f = Some (cell_number start sh (add_e d q)) /\
    cell_number start sh q < cell_number start sh (add_e d q) /\
    cell_number start sh (add_e d q) = cell_number start sh q + stride sh d /\ adjacent q (add_e d q).
Proof.
  unfold internal_faces_all. rewrite in_flat_map_012. intros (d & Hd & Hf). pose proof Hf as Hf'.
  apply in_internal_faces in Hf; [|exact Hd]. destruct Hf as (q & H1 & H2 & ->). exists d, q.
  split; [exact Hd|]. split; [exact Hf'|]. split; [exact H1|]. split; [exact H2|]. split; [reflexivity|]. split; [reflexivity|].
  split; [apply cell_number_add_e_lt; assumption|]. split; [apply cell_number_add_e; exact Hd|].
  exists d. split; [exact Hd|left; reflexivity].
Qed.

Corollary internal_owner_lt_neighbor start sh f : In f (internal_faces_all start sh) ->
  exists m, neighbor f = Some m /\ owner f < m.
Proof.
  intros H. destruct (internal_face_owner_neighbor start sh f H) as (d & q & _ & _ & _ & _ & E1 & E2 & L & _).
  exists (cell_number start sh (add_e d q)). split; [exact E2|]. rewrite E1. exact L.
Qed.

(* 3b. every pair of adjacent cells is joined by an internal face *)
Theorem adjacent_cells_have_face start sh c c' : in_cells sh c -> in_cells sh c' -> adjacent c c' ->
  exists f, In f (internal_faces_all start sh) /\
    ((owner f = cell_number start sh c /\ neighbor f = Some (cell_number start sh c')) \/
     (owner f = cell_number start sh c' /\ neighbor f = Some (cell_number start sh c))).
Proof.
  intros Hc Hc' (d & Hd & [->| ->]).
  - exists (iface start sh d c). split; [|left; split; reflexivity].
    apply in_flat_map_012. exists d. split; [exact Hd|]. apply in_internal_faces; [exact Hd|]. exists c. repeat split; assumption.
  - exists (iface start sh d c'). split; [|right; split; reflexivity].
    apply in_flat_map_012. exists d. split; [exact Hd|]. apply in_internal_faces; [exact Hd|]. exists c'. repeat split; assumption.
Qed.

(* 3c. no pair twice *)
Definition face_pair (f : face) : nat * option nat := (owner f, neighbor f).

Lemma iface_pair_inj start sh d d' q q' : d < 3 -> d' < 3 -> In q (lower_cells sh d) -> In q' (lower_cells sh d') ->
  face_pair (iface start sh d q) = face_pair (iface start sh d' q') -> d = d' /\ q = q'.
Proof.
  intros Hd Hd' Hq Hq'. apply in_lower_cells in Hq; [|exact Hd]. apply in_lower_cells in Hq'; [|exact Hd'].
  destruct Hq as [Q1 Q2], Hq' as [Q1' Q2']. unfold face_pair, iface, up_face. cbn [owner neighbor]. intros [= E1 E2].
  apply cell_number_inj in E1; [|assumption|assumption]. subst q'. apply cell_number_inj in E2; [|assumption|assumption].
  split; [|reflexivity]. apply (add_e_dir d d' q Hd Hd' E2).
Qed.

Theorem internal_pairs_NoDup start sh : NoDup (map face_pair (internal_faces_all start sh)).
Proof.
  unfold internal_faces_all. rewrite map_flat_map. apply NoDup_flat_map.
  - repeat constructor; cbn; lia.
  - intros d Hd. assert (Hd3 : d < 3) by (cbn in Hd; lia). rewrite internal_faces_closed by exact Hd3. rewrite map_map.
    apply NoDup_map_inj_in; [apply NoDup_lower_cells|]. intros q q' Hq Hq' E.
    apply (iface_pair_inj start sh d d q q' Hd3 Hd3 Hq Hq' E).
  - intros d d' z Hd Hd' Hz Hz'. assert (Hd3 : d < 3) by (cbn in Hd; lia). assert (Hd3' : d' < 3) by (cbn in Hd'; lia).
    rewrite internal_faces_closed in Hz, Hz' by assumption. rewrite map_map in Hz, Hz'.
    apply in_map_iff in Hz, Hz'. destruct Hz as (q & <- & Hq), Hz' as (q' & E & Hq').
    symmetry in E. apply (iface_pair_inj start sh d d' q q' Hd3 Hd3' Hq Hq' E).
Qed.

(* hence two internal faces joining the same unordered pair of cells are the same face *)
Theorem internal_face_unique start sh f g : In f (internal_faces_all start sh) -> In g (internal_faces_all start sh) ->
  (owner f = owner g /\ neighbor f = neighbor g) \/ (Some (owner f) = neighbor g /\ neighbor f = Some (owner g)) ->
  f = g.
Proof.
  intros Hf Hg [[E1 E2]|[E1 E2]].
  - apply (NoDup_map_key face_pair _ f g (internal_pairs_NoDup start sh) Hf Hg). unfold face_pair. rewrite E1, E2. reflexivity.
  - exfalso. destruct (internal_owner_lt_neighbor start sh f Hf) as (m & F1 & F2).
    destruct (internal_owner_lt_neighbor start sh g Hg) as (m' & G1 & G2).
    rewrite G1 in E1. rewrite F1 in E2. injection E1 as E1. injection E2 as E2. lia.
Qed.

(* in particular the face list itself has no repetition *)
Corollary internal_faces_NoDup start sh : NoDup (internal_faces_all start sh).
Proof. apply (NoDup_map_inv face_pair). apply internal_pairs_NoDup. Qed.

(* ================= 4. every cell is bounded by exactly six faces ================= *)

(* one step back in direction d *)
Definition sub_e (d : nat) (p : idx3) : idx3 :=
  let '(i, j, k) := p in match d with 0 => (pred i, j, k) | 1 => (i, pred j, k) | _ => (i, j, pred k) end.

Lemma get_add_e d q : d < 3 -> get d (add_e d q) = S (get d q).
Proof. intros Hd. destruct q as [[i j] k]. destruct d as [|[|[|d]]]; [| | |lia]; reflexivity. Qed.
Lemma sub_add_e d q : sub_e d (add_e d q) = q.
Proof. destruct q as [[i j] k]. destruct d as [|[|d]]; reflexivity. Qed.
Lemma add_sub_e d c : d < 3 -> 1 <= get d c -> add_e d (sub_e d c) = c.
Proof.
  intros Hd. destruct c as [[i j] k]. destruct d as [|[|[|d]]]; [| | |lia]; cbn [get sub_e add_e]; intros H.
  - destruct i; [lia|reflexivity].
  - destruct j; [lia|reflexivity].
  - destruct k; [lia|reflexivity].
Qed.
Lemma in_cells_get sh d c : d < 3 -> in_cells sh c -> get d c < get d sh.
Proof.
  intros Hd. destruct sh as [[nx ny] nz], c as [[i j] k]. cbn [in_cells]. intros (Hi & Hj & Hk).
  destruct d as [|[|[|d]]]; [| | |lia]; cbn [get]; assumption.
Qed.
Lemma in_cells_add_e sh d q : d < 3 -> in_cells sh q -> (in_cells sh (add_e d q) <-> S (get d q) < get d sh).
Proof.
  intros Hd. destruct sh as [[nx ny] nz], q as [[i j] k]. cbn [in_cells]. intros (Hi & Hj & Hk).
  destruct d as [|[|[|d]]]; [| | |lia]; cbn [get add_e in_cells]; lia.
Qed.
Lemma in_cells_sub_e sh d c : in_cells sh c -> in_cells sh (sub_e d c).
Proof.
  destruct sh as [[nx ny] nz], c as [[i j] k]. cbn [in_cells]. intros (Hi & Hj & Hk).
  destruct d as [|[|d]]; cbn [sub_e in_cells]; lia.
Qed.

Section SixFaces.
  Variables (start : nat) (sh : idx3) (d : nat) (c : idx3).
  Hypothesis Hd : d < 3.
  Hypothesis Hp : pos_shape sh.
  Hypothesis Hc : in_cells sh c.
  Let n := cell_number start sh c.

  (* internal faces in direction d touching c: the one above (if c is not in the last layer) and the one below
     (if c is not in the first layer) *)
  Lemma count_internal_dir :
    length (filter (touches n) (internal_faces start sh d)) = Nat.b2n (S (get d c) <? get d sh) + Nat.b2n (1 <=? get d c).
  Proof.
    rewrite internal_faces_closed by exact Hd. rewrite filter_map_length.
    change (fun q => touches n (iface start sh d q))
      with (fun q => (cell_number start sh q =? n) || (cell_number start sh (add_e d q) =? n)).
    rewrite filter_or_length.
    2:{ intros q Hq E1 E2. apply Nat.eqb_eq in E1, E2. apply in_lower_cells in Hq; [|exact Hd]. destruct Hq as [Q1 Q2].
        pose proof (cell_number_add_e_lt start sh d q Hd Q1). lia. }
    f_equal.
    - apply (filter_b2n_length _ _ _ c (NoDup_lower_cells sh d)).
      + intros Hb. apply Nat.ltb_lt in Hb. split.
        * apply in_lower_cells; [exact Hd|]. split; [exact Hc|]. apply in_cells_add_e; assumption.
        * intros q Hq. apply in_lower_cells in Hq; [|exact Hd]. destruct Hq as [Q1 Q2]. rewrite Nat.eqb_eq. split.
          -- intros E. apply (cell_number_inj start sh q c Q1 Hc E).
          -- intros ->. reflexivity.
      + intros Hb q Hq. apply Nat.ltb_ge in Hb. apply in_lower_cells in Hq; [|exact Hd]. destruct Hq as [Q1 Q2].
        apply Nat.eqb_neq. intros E. apply (cell_number_inj start sh q c Q1 Hc) in E. subst q.
        apply in_cells_add_e in Q2; [lia|exact Hd|exact Hc].
    - apply (filter_b2n_length _ _ _ (sub_e d c) (NoDup_lower_cells sh d)).
      + intros Hb. apply Nat.leb_le in Hb. split.
        * apply in_lower_cells; [exact Hd|]. split; [apply in_cells_sub_e; exact Hc|]. rewrite add_sub_e by assumption. exact Hc.
        * intros q Hq. apply in_lower_cells in Hq; [|exact Hd]. destruct Hq as [Q1 Q2]. rewrite Nat.eqb_eq. split.
          -- intros E. apply (cell_number_inj start sh _ c Q2 Hc) in E. rewrite <- E. symmetry. apply sub_add_e.
          -- intros ->. rewrite add_sub_e by assumption. reflexivity.
      + intros Hb q Hq. apply Nat.leb_gt in Hb. apply in_lower_cells in Hq; [|exact Hd]. destruct Hq as [Q1 Q2].
        apply Nat.eqb_neq. intros E. apply (cell_number_inj start sh _ c Q2 Hc) in E.
        pose proof (get_add_e d q Hd) as G. rewrite E in G. lia.
  Qed.

  Lemma count_lower_dir :
    length (filter (touches n) (boundary_faces start sh d false)) = Nat.b2n (get d c =? 0).
  Proof.
    rewrite boundary_faces_lower_closed by exact Hd. rewrite filter_map_length.
    change (fun q => touches n (bface0 start sh d q)) with (fun q => (cell_number start sh q =? n) || false).
    apply (filter_b2n_length _ _ _ c (NoDup_first_cells sh d)).
    - intros Hb. apply Nat.eqb_eq in Hb. split.
      + apply in_first_cells; [exact Hd|exact Hp|]. split; assumption.
      + intros q Hq. apply in_first_cells in Hq; [|exact Hd|exact Hp]. destruct Hq as [Q1 Q2].
        rewrite orb_false_r, Nat.eqb_eq. split; [intros E; apply (cell_number_inj start sh q c Q1 Hc E)|intros ->; reflexivity].
    - intros Hb q Hq. apply Nat.eqb_neq in Hb. apply in_first_cells in Hq; [|exact Hd|exact Hp]. destruct Hq as [Q1 Q2].
      rewrite orb_false_r. apply Nat.eqb_neq. intros E. apply (cell_number_inj start sh q c Q1 Hc) in E. subst q. lia.
  Qed.

  Lemma count_upper_dir :
    length (filter (touches n) (boundary_faces start sh d true)) = Nat.b2n (S (get d c) =? get d sh).
  Proof.
    rewrite boundary_faces_upper_closed by assumption. rewrite filter_map_length.
    change (fun q => touches n (bface1 start sh d q)) with (fun q => (cell_number start sh q =? n) || false).
    apply (filter_b2n_length _ _ _ c (NoDup_last_cells sh d)).
    - intros Hb. apply Nat.eqb_eq in Hb. split.
      + apply in_last_cells; [exact Hd|exact Hp|]. split; assumption.
      + intros q Hq. apply in_last_cells in Hq; [|exact Hd|exact Hp]. destruct Hq as [Q1 Q2].
        rewrite orb_false_r, Nat.eqb_eq. split; [intros E; apply (cell_number_inj start sh q c Q1 Hc E)|intros ->; reflexivity].
    - intros Hb q Hq. apply Nat.eqb_neq in Hb. apply in_last_cells in Hq; [|exact Hd|exact Hp]. destruct Hq as [Q1 Q2].
      rewrite orb_false_r. apply Nat.eqb_neq. intros E. apply (cell_number_inj start sh q c Q1 Hc) in E. subst q. lia.
  Qed.

  (* two faces per direction: one below and one above *)
  Lemma count_dir : length (filter (touches n) (dir_faces start sh d)) = 2.
  Proof.
    unfold dir_faces. rewrite !filter_app, !app_length, count_internal_dir, count_lower_dir, count_upper_dir.
    pose proof (in_cells_get sh d c Hd Hc) as G.
    destruct (Nat.ltb_spec (S (get d c)) (get d sh)), (Nat.leb_spec 1 (get d c)), (Nat.eqb_spec (get d c) 0),
      (Nat.eqb_spec (S (get d c)) (get d sh)); cbn [Nat.b2n]; lia.
  Qed.
End SixFaces.

Theorem cell_six_faces start sh c : pos_shape sh -> in_cells sh c ->
  length (filter (touches (cell_number start sh c)) (patch_faces start sh)) = 6.
Proof.
  intros Hp Hc. unfold patch_faces. cbn [flat_map]. rewrite app_nil_r, !filter_app, !app_length.
  rewrite !count_dir by (assumption || lia). reflexivity.
Qed.

(* the same for every cell number of the patch *)
Theorem cell_number_six_faces start sh n : pos_shape sh -> start <= n < start + ncells sh ->
  length (filter (touches n) (patch_faces start sh)) = 6.
Proof.
  intros Hp Hn. assert (I : In n (map (cell_number start sh) (cells sh))) by (rewrite cell_numbers_patch; apply in_seq; lia).
  apply in_map_iff in I. destruct I as (c & <- & Hc). apply in_cells_iff in Hc. apply cell_six_faces; assumption.
Qed.

(* ================= 5. the nodes of a face ================= *)

Lemma pair3_eq (x y z a b c : nat) : (x, y, z) = (a, b, c) <-> x = a /\ y = b /\ z = c.
Proof. split; [intros [= -> -> ->]; auto|intros (-> & -> & ->); reflexivity]. Qed.

Lemma in_corners i j k a b c : In (a, b, c) (corners (i, j, k)) <-> (a = i \/ a = S i) /\ (b = j \/ b = S j) /\ (c = k \/ c = S k).
Proof. unfold corners. rewrite in_grid3. cbn [In]. intuition congruence. Qed.

Lemma in_corners_le i j k a b c : In (a, b, c) (corners (i, j, k)) <-> (i <= a <= S i) /\ (j <= b <= S j) /\ (k <= c <= S k).
Proof. rewrite in_corners. lia. Qed.

Lemma NoDup4 {A} (a b c d : A) : a <> b -> a <> c -> a <> d -> b <> c -> b <> d -> c <> d -> NoDup [a; b; c; d].
Proof.
  intros. repeat constructor; cbn [In]; intuition congruence.
Qed.

(* the nodes of the face above cell q in direction d: the corners common to q and to the next cell, i.e. the corners
   of q in the plane x_d = q_d + 1 *)
Lemma up_face_nodes d q ow nb p : d < 3 ->
  (In p (nodes (up_face d q ow nb)) <-> In p (corners q) /\ In p (corners (add_e d q))) /\
  (In p (nodes (up_face d q ow nb)) <-> In p (corners q) /\ get d p = S (get d q)).
Proof.
  intros Hd. destruct q as [[i j] k], p as [[a b] c]. destruct d as [|[|[|d]]]; [| | |lia];
    unfold nodes, up_face; cbn [fn0 fn1 fn2 fn3 add_e ax_a ax_b get]; rewrite !in_corners_le; cbn [In]; rewrite !pair3_eq; lia.
Qed.
(* the nodes of the face below cell q: its corners in the plane x_d = q_d *)
Lemma low_face_nodes d q ow nb p : d < 3 ->
  (In p (nodes (low_face d q ow nb)) <-> In p (corners q) /\ get d p = get d q).
Proof.
  intros Hd. destruct q as [[i j] k], p as [[a b] c]. destruct d as [|[|[|d]]]; [| | |lia];
    unfold nodes, low_face; cbn [fn0 fn1 fn2 fn3 add_e ax_a ax_b get]; rewrite !in_corners_le; cbn [In]; rewrite !pair3_eq; lia.
Qed.
Lemma up_face_nodes_NoDup d q ow nb : NoDup (nodes (up_face d q ow nb)).
Proof.
  destruct q as [[i j] k]. destruct d as [|[|d]]; unfold nodes, up_face; cbn [fn0 fn1 fn2 fn3 add_e ax_a ax_b];
    apply NoDup4; intros [= ]; lia.
Qed.
Lemma low_face_nodes_NoDup d q ow nb : NoDup (nodes (low_face d q ow nb)).
Proof.
  destruct q as [[i j] k]. destruct d as [|[|d]]; unfold nodes, low_face; cbn [fn0 fn1 fn2 fn3 add_e ax_a ax_b];
    apply NoDup4; intros [= ]; lia.
Qed.
Lemma corners_in_cps sh q p : in_cells sh q -> In p (corners q) -> in_cps sh p.
Proof.
  destruct sh as [[nx ny] nz], q as [[i j] k], p as [[a b] c]. rewrite in_corners_le. unfold in_cps. cbn [cpshape in_cells]. lia.
Qed.

(* 5a. internal faces *)
Theorem internal_face_nodes start sh d f : d < 3 -> In f (internal_faces start sh d) ->
  exists q, in_cells sh q /\ in_cells sh (add_e d q) /\
    owner f = cell_number start sh q /\ neighbor f = Some (cell_number start sh (add_e d q)) /\
    (forall p, In p (nodes f) <-> In p (corners q) /\ In p (corners (add_e d q))) /\
    NoDup (nodes f) /\ (forall p, In p (nodes f) -> in_cps sh p).
Proof.
  intros Hd Hf. apply in_internal_faces in Hf; [|exact Hd]. destruct Hf as (q & Q1 & Q2 & ->). exists q.
  split; [exact Q1|]. split; [exact Q2|]. split; [reflexivity|]. split; [reflexivity|]. unfold iface. split; [|split].
  - intros p. apply (up_face_nodes d q _ _ p Hd).
  - apply up_face_nodes_NoDup.
  - intros p Hp. apply (up_face_nodes d q _ _ p Hd) in Hp. apply (corners_in_cps sh q p Q1). apply Hp.
Qed.

Lemma in_boundary_lower start sh d f : d < 3 -> pos_shape sh ->
  (In f (boundary_faces start sh d false) <-> exists q, in_cells sh q /\ get d q = 0 /\ f = bface0 start sh d q).
Proof.
  intros Hd Hp. rewrite boundary_faces_lower_closed by exact Hd. rewrite in_map_iff. split.
  - intros (q & <- & Hq). apply in_first_cells in Hq; [|exact Hd|exact Hp]. exists q. destruct Hq. repeat split; assumption.
  - intros (q & H1 & H2 & ->). exists q. split; [reflexivity|]. apply in_first_cells; [exact Hd|exact Hp|]. split; assumption.
Qed.
Lemma in_boundary_upper start sh d f : d < 3 -> pos_shape sh ->
  (In f (boundary_faces start sh d true) <-> exists q, in_cells sh q /\ S (get d q) = get d sh /\ f = bface1 start sh d q).
Proof.
  intros Hd Hp. rewrite boundary_faces_upper_closed by assumption. rewrite in_map_iff. split.
  - intros (q & <- & Hq). apply in_last_cells in Hq; [|exact Hd|exact Hp]. exists q. destruct Hq. repeat split; assumption.
  - intros (q & H1 & H2 & ->). exists q. split; [reflexivity|]. apply in_last_cells; [exact Hd|exact Hp|]. split; assumption.
Qed.

(* 5b. boundary faces at index 0: the corners of the owner cell (a cell of the first layer) lying on x_d = 0 *)
Theorem boundary_lower_face_nodes start sh d f : d < 3 -> pos_shape sh -> In f (boundary_faces start sh d false) ->
  exists q, in_cells sh q /\ get d q = 0 /\ owner f = cell_number start sh q /\ neighbor f = None /\
    (forall p, In p (nodes f) <-> In p (corners q) /\ get d p = 0) /\
    NoDup (nodes f) /\ (forall p, In p (nodes f) -> in_cps sh p).
Proof.
  intros Hd Hp Hf. apply in_boundary_lower in Hf; [|exact Hd|exact Hp]. destruct Hf as (q & Q1 & Q2 & ->). exists q.
  split; [exact Q1|]. split; [exact Q2|]. split; [reflexivity|]. split; [reflexivity|]. unfold bface0. split; [|split].
  - intros p. rewrite <- Q2. apply (low_face_nodes d q _ _ p Hd).
  - apply low_face_nodes_NoDup.
  - intros p Hq. apply (low_face_nodes d q _ _ p Hd) in Hq. apply (corners_in_cps sh q p Q1). apply Hq.
Qed.

(* 5c. boundary faces at index -1: the corners of the owner cell (a cell of the last layer) lying on x_d = n_d *)
Theorem boundary_upper_face_nodes start sh d f : d < 3 -> pos_shape sh -> In f (boundary_faces start sh d true) ->
  exists q, in_cells sh q /\ S (get d q) = get d sh /\ owner f = cell_number start sh q /\ neighbor f = None /\
    (forall p, In p (nodes f) <-> In p (corners q) /\ get d p = get d sh) /\
    NoDup (nodes f) /\ (forall p, In p (nodes f) -> in_cps sh p).
Proof.
  intros Hd Hp Hf. apply in_boundary_upper in Hf; [|exact Hd|exact Hp]. destruct Hf as (q & Q1 & Q2 & ->). exists q.
  split; [exact Q1|]. split; [exact Q2|]. split; [reflexivity|]. split; [reflexivity|]. unfold bface1. split; [|split].
  - intros p. rewrite <- Q2. apply (up_face_nodes d q _ _ p Hd).
  - apply up_face_nodes_NoDup.
  - intros p Hq. apply (up_face_nodes d q _ _ p Hd) in Hq. apply (corners_in_cps sh q p Q1). apply Hq.
Qed.

(* every cell of the first / last layer has exactly one boundary face there: owners do not repeat *)
Theorem boundary_owners_NoDup start sh d side : d < 3 -> pos_shape sh -> NoDup (map owner (boundary_faces start sh d side)).
Proof.
  intros Hd Hp. destruct side.
  - rewrite boundary_faces_upper_closed by assumption. rewrite map_map. apply NoDup_map_inj_in; [apply NoDup_last_cells|].
    intros q q' Hq Hq' E. apply in_last_cells in Hq, Hq'; try assumption. apply (cell_number_inj start sh q q'); [apply Hq|apply Hq'|exact E].
  - rewrite boundary_faces_lower_closed by assumption. rewrite map_map. apply NoDup_map_inj_in; [apply NoDup_first_cells|].
    intros q q' Hq Hq' E. apply in_first_cells in Hq, Hq'; try assumption. apply (cell_number_inj start sh q q'); [apply Hq|apply Hq'|exact E].
Qed.

(* the exported node numbers are pairwise distinct for every injective control point numbering *)
Theorem face_cp_NoDup start sh (cp : idx3 -> nat) f : pos_shape sh ->
  (forall p p', in_cps sh p -> in_cps sh p' -> cp p = cp p' -> p = p') ->
  In f (patch_faces start sh) -> NoDup (face_cp cp f) /\ length (face_cp cp f) = 4.
Proof.
  intros Hp Hinj Hf. split; [|reflexivity]. unfold patch_faces in Hf. apply in_flat_map_012 in Hf. destruct Hf as (d & Hd & Hf).
  unfold dir_faces in Hf. unfold face_cp. apply in_app_or in Hf. destruct Hf as [Hf|Hf]; [|apply in_app_or in Hf; destruct Hf as [Hf|Hf]].
  - destruct (internal_face_nodes start sh d f Hd Hf) as (q & _ & _ & _ & _ & _ & N & R).
    apply NoDup_map_inj_in; [exact N|]. intros x y Hx Hy. apply Hinj; auto.
  - destruct (boundary_lower_face_nodes start sh d f Hd Hp Hf) as (q & _ & _ & _ & _ & _ & N & R).
    apply NoDup_map_inj_in; [exact N|]. intros x y Hx Hy. apply Hinj; auto.
  - destruct (boundary_upper_face_nodes start sh d f Hd Hp Hf) as (q & _ & _ & _ & _ & _ & N & R).
    apply NoDup_map_inj_in; [exact N|]. intros x y Hx Hy. apply Hinj; auto.
Qed.

(* ================= 6. orientation ================= *)

Lemma ax_a_lt d : ax_a d < 3. Proof. destruct d as [|[|d]]; cbn; lia. Qed.
Lemma ax_b_lt d : ax_b d < 3. Proof. destruct d as [|[|d]]; cbn; lia. Qed.

Definition vadd (u v : vec) : vec := let '(a, b, c) := u in let '(x, y, z) := v in ((a + x)%Z, (b + y)%Z, (c + z)%Z).

Lemma vec_eq (a b c x y z : Z) : a = x -> b = y -> c = z -> (a, b, c) = (x, y, z).
Proof. intros -> -> ->. reflexivity. Qed.

Lemma vsub_add_e e p : e < 3 -> vsub (zpt (add_e e p)) (zpt p) = zunit e.
Proof.
  intros He. destruct p as [[i j] k]. destruct e as [|[|[|e]]]; [| | |lia]; cbn [add_e zpt vsub zunit];
    rewrite Nat2Z.inj_succ; apply vec_eq; lia.
Qed.
Lemma vsub_add_e2 a b p : a < 3 -> b < 3 -> vsub (zpt (add_e a (add_e b p))) (zpt p) = vadd (zunit a) (zunit b).
Proof.
  intros Ha Hb. destruct p as [[i j] k]. destruct a as [|[|[|a]]]; [| | |lia]; destruct b as [|[|[|b]]]; try lia;
    cbn [add_e zpt vsub zunit vadd]; rewrite ?Nat2Z.inj_succ; apply vec_eq; lia.
Qed.

(* (e_a, e_b, e_d) is right-handed: e_a x e_b = e_d *)
Lemma cross_ax d : d < 3 -> cross (zunit (ax_a d)) (zunit (ax_b d)) = zunit d /\
  cross (zunit (ax_a d)) (vadd (zunit (ax_a d)) (zunit (ax_b d))) = zunit d /\
  cross (zunit (ax_b d)) (zunit (ax_a d)) = vneg (zunit d) /\
  cross (zunit (ax_b d)) (vadd (zunit (ax_a d)) (zunit (ax_b d))) = vneg (zunit d).
Proof. intros Hd. destruct d as [|[|[|d]]]; [| | |lia]; repeat split; reflexivity. Qed.

Lemma up_face_normal d q ow nb : d < 3 -> normal (up_face d q ow nb) = zunit d /\ normal012 (up_face d q ow nb) = zunit d.
Proof.
  intros Hd. unfold normal, normal012, up_face. cbn [fn0 fn1 fn2 fn3].
  rewrite (vsub_add_e (ax_a d)) by apply ax_a_lt. rewrite (vsub_add_e (ax_b d)) by apply ax_b_lt.
  rewrite vsub_add_e2 by (apply ax_a_lt || apply ax_b_lt). destruct (cross_ax d Hd) as (C1 & C2 & _). split; assumption.
Qed.
Lemma low_face_normal d q ow nb : d < 3 -> normal (low_face d q ow nb) = vneg (zunit d) /\ normal012 (low_face d q ow nb) = vneg (zunit d).
Proof.
  intros Hd. unfold normal, normal012, low_face. cbn [fn0 fn1 fn2 fn3].
  rewrite (vsub_add_e (ax_a d)) by apply ax_a_lt. rewrite (vsub_add_e (ax_b d)) by apply ax_b_lt.
  rewrite vsub_add_e2 by (apply ax_a_lt || apply ax_b_lt). destruct (cross_ax d Hd) as (_ & _ & C3 & C4). split; assumption.
Qed.

Lemma zget_zunit d : d < 3 -> zget d (zunit d) = 1%Z /\ zget d (vneg (zunit d)) = (-1)%Z.
Proof. intros Hd. destruct d as [|[|[|d]]]; [| | |lia]; split; reflexivity. Qed.

(* 6a. internal faces: the normal is the unit vector of direction d, which is the vector from the owner cell to the
       neighbour cell *)
Theorem internal_face_orientation start sh d f : d < 3 -> In f (internal_faces start sh d) ->
  normal f = zunit d /\ normal012 f = zunit d /\ (0 < zget d (normal f))%Z /\
  exists q, in_cells sh q /\ in_cells sh (add_e d q) /\ owner f = cell_number start sh q /\
    neighbor f = Some (cell_number start sh (add_e d q)) /\ normal f = vsub (zpt (add_e d q)) (zpt q).
Proof.
  intros Hd Hf. apply in_internal_faces in Hf; [|exact Hd]. destruct Hf as (q & Q1 & Q2 & ->). unfold iface.
  destruct (up_face_normal d q (cell_number start sh q) (Some (cell_number start sh (add_e d q))) Hd) as [N1 N2].
  split; [exact N1|]. split; [exact N2|]. split; [rewrite N1; destruct (zget_zunit d Hd) as [-> _]; lia|].
  exists q. split; [exact Q1|]. split; [exact Q2|]. split; [reflexivity|]. split; [reflexivity|].
  rewrite N1. symmetry. apply vsub_add_e. exact Hd.
Qed.

(* 6b. boundary faces at index -1: outward = towards increasing x_d *)
Theorem boundary_upper_face_orientation start sh d f : d < 3 -> pos_shape sh -> In f (boundary_faces start sh d true) ->
  normal f = zunit d /\ normal012 f = zunit d /\ (0 < zget d (normal f))%Z.
Proof.
  intros Hd Hp Hf. apply in_boundary_upper in Hf; [|exact Hd|exact Hp]. destruct Hf as (q & Q1 & Q2 & ->). unfold bface1.
  destruct (up_face_normal d q (cell_number start sh q) None Hd) as [N1 N2].
  split; [exact N1|]. split; [exact N2|]. rewrite N1; destruct (zget_zunit d Hd) as [-> _]; lia.
Qed.

(* 6c. boundary faces at index 0 (nodes 1 and 3 exchanged): outward = towards decreasing x_d *)
Theorem boundary_lower_face_orientation start sh d f : d < 3 -> pos_shape sh -> In f (boundary_faces start sh d false) ->
  normal f = vneg (zunit d) /\ normal012 f = vneg (zunit d) /\ (zget d (normal f) < 0)%Z.
Proof.
  intros Hd Hp Hf. apply in_boundary_lower in Hf; [|exact Hd|exact Hp]. destruct Hf as (q & Q1 & Q2 & ->). unfold bface0.
  destruct (low_face_normal d q (cell_number start sh q) None Hd) as [N1 N2].
  split; [exact N1|]. split; [exact N2|]. rewrite N1; destruct (zget_zunit d Hd) as [_ ->]; lia.
Qed.

(* ================= the whole face list of the patch ================= *)

Lemma in_patch_faces start sh f : In f (patch_faces start sh) <->
  exists d, d < 3 /\ (In f (internal_faces start sh d) \/ In f (boundary_faces start sh d false) \/ In f (boundary_faces start sh d true)).
Proof.
  unfold patch_faces. rewrite in_flat_map_012. split; intros (d & Hd & H); exists d; (split; [exact Hd|]);
    unfold dir_faces in *; rewrite !in_app_iff in *; exact H.
Qed.

Lemma flat_map_app_perm {A B} (f g : A -> list B) l :
  Permutation (flat_map (fun x => f x ++ g x) l) (flat_map f l ++ flat_map g l).
Proof.
  induction l as [|x r IH]; cbn [flat_map]; [apply Permutation_refl|]. rewrite <- !app_assoc. apply Permutation_app_head.
  eapply Permutation_trans; [apply Permutation_app_head, IH|]. apply Permutation_app_swap_app.
Qed.

(* the code's order is a rearrangement of: all internal faces, then all boundary faces *)
Theorem patch_faces_perm start sh :
  Permutation (patch_faces start sh) (internal_faces_all start sh ++ boundary_faces_all start sh).
Proof. unfold patch_faces, dir_faces, internal_faces_all, boundary_faces_all. apply flat_map_app_perm. Qed.

Lemma boundary_all_neighbor start sh f : pos_shape sh -> In f (boundary_faces_all start sh) -> neighbor f = None.
Proof.
  intros Hp Hf. unfold boundary_faces_all in Hf. apply in_flat_map_012 in Hf. destruct Hf as (d & Hd & Hf).
  apply in_app_or in Hf. destruct Hf as [Hf|Hf].
  - apply in_boundary_lower in Hf; [|exact Hd|exact Hp]. destruct Hf as (q & _ & _ & ->). reflexivity.
  - apply in_boundary_upper in Hf; [|exact Hd|exact Hp]. destruct Hf as (q & _ & _ & ->). reflexivity.
Qed.

(* all owners and neighbours are cell numbers of this patch *)
Theorem face_cells_in_range start sh f : pos_shape sh -> In f (patch_faces start sh) ->
  start <= owner f < start + ncells sh /\ forall m, neighbor f = Some m -> start <= m < start + ncells sh.
Proof.
  intros Hp Hf. apply in_patch_faces in Hf. destruct Hf as (d & Hd & [Hf|[Hf|Hf]]).
  - apply in_internal_faces in Hf; [|exact Hd]. destruct Hf as (q & Q1 & Q2 & ->). cbn [iface up_face owner neighbor]. split.
    + apply cell_number_range. exact Q1.
    + intros m [= <-]. apply cell_number_range. exact Q2.
  - apply in_boundary_lower in Hf; [|exact Hd|exact Hp]. destruct Hf as (q & Q1 & _ & ->). cbn [bface0 low_face owner neighbor].
    split; [apply cell_number_range; exact Q1|intros m [= ]].
  - apply in_boundary_upper in Hf; [|exact Hd|exact Hp]. destruct Hf as (q & Q1 & _ & ->). cbn [bface1 up_face owner neighbor].
    split; [apply cell_number_range; exact Q1|intros m [= ]].
Qed.

(* the assertion at the end of TopologicalNode.faces *)
Theorem faces_final_assert start sh f : pos_shape sh -> In f (patch_faces start sh) ->
  match neighbor f with Some m => owner f < m | None => True end.
Proof.
  intros Hp Hf. destruct (neighbor f) as [m|] eqn:E; [|exact I].
  apply (Permutation_in _ (patch_faces_perm start sh)) in Hf. apply in_app_or in Hf. destruct Hf as [Hf|Hf].
  - destruct (internal_owner_lt_neighbor start sh f Hf) as (m' & E' & L). congruence.
  - rewrite (boundary_all_neighbor start sh f Hp Hf) in E. discriminate.
Qed.

(* ---------- no geometric face is exported twice ---------- *)

(* two opposite vertices identify the face: fn0 is its lowest corner and fn2 - fn0 = (1,1,1) - e_d *)
Definition face_key (f : face) : idx3 * idx3 := (fn0 f, fn2 f).

Lemma up_face_key d q ow nb : d < 3 ->
  fn0 (up_face d q ow nb) = add_e d q /\ get d (fn2 (up_face d q ow nb)) = get d (fn0 (up_face d q ow nb)) /\
  forall e, e < 3 -> e <> d -> get e (fn2 (up_face d q ow nb)) = S (get e (fn0 (up_face d q ow nb))).
Proof.
  intros Hd. destruct q as [[i j] k]. split; [reflexivity|].
  destruct d as [|[|[|d]]]; [| | |lia]; (split; [reflexivity|]); intros e He Hne; destruct e as [|[|[|e]]]; try lia; reflexivity.
Qed.
Lemma low_face_key d q ow nb : d < 3 ->
  fn0 (low_face d q ow nb) = q /\ get d (fn2 (low_face d q ow nb)) = get d (fn0 (low_face d q ow nb)) /\
  forall e, e < 3 -> e <> d -> get e (fn2 (low_face d q ow nb)) = S (get e (fn0 (low_face d q ow nb))).
Proof.
  intros Hd. destruct q as [[i j] k]. split; [reflexivity|].
  destruct d as [|[|[|d]]]; [| | |lia]; (split; [reflexivity|]); intros e He Hne; destruct e as [|[|[|e]]]; try lia; reflexivity.
Qed.

(* what the key of a face in the lists of direction d looks like *)
Lemma dir_faces_key start sh d f : d < 3 -> pos_shape sh -> In f (dir_faces start sh d) ->
  get d (fn2 f) = get d (fn0 f) /\ (forall e, e < 3 -> e <> d -> get e (fn2 f) = S (get e (fn0 f))).
Proof.
  intros Hd Hp Hf. unfold dir_faces in Hf. rewrite !in_app_iff in Hf. destruct Hf as [Hf|[Hf|Hf]].
  - apply in_internal_faces in Hf; [|exact Hd]. destruct Hf as (q & _ & _ & ->). apply (up_face_key d q _ _ Hd).
  - apply in_boundary_lower in Hf; [|exact Hd|exact Hp]. destruct Hf as (q & _ & _ & ->). apply (low_face_key d q _ _ Hd).
  - apply in_boundary_upper in Hf; [|exact Hd|exact Hp]. destruct Hf as (q & _ & _ & ->). apply (up_face_key d q _ _ Hd).
Qed.

Lemma dir_faces_key_NoDup start sh d : d < 3 -> pos_shape sh -> NoDup (map face_key (dir_faces start sh d)).
Proof.
  intros Hd Hp. unfold dir_faces. rewrite !map_app.
  rewrite internal_faces_closed, boundary_faces_lower_closed, boundary_faces_upper_closed by assumption. rewrite !map_map.
  assert (Kup : forall q q' ow nb ow' nb', face_key (up_face d q ow nb) = face_key (up_face d q' ow' nb') -> q = q').
  { intros q q' ow nb ow' nb'. unfold face_key. intros [= E _]. apply (add_e_inj d). exact E. }
  apply NoDup_app_intro; [|apply NoDup_app_intro|].
  - apply NoDup_map_inj_in; [apply NoDup_lower_cells|]. intros q q' _ _ E. apply (Kup _ _ _ _ _ _ E).
  - apply NoDup_map_inj_in; [apply NoDup_first_cells|]. intros q q' _ _ E. unfold face_key in E. injection E as E _. exact E.
  - apply NoDup_map_inj_in; [apply NoDup_last_cells|]. intros q q' _ _ E. apply (Kup _ _ _ _ _ _ E).
  - (* lower boundary (x_d = 0) against upper boundary (x_d = n_d) *)
    intros z Hz Hz'. apply in_map_iff in Hz, Hz'. destruct Hz as (q & <- & Hq), Hz' as (q' & E & Hq').
    apply in_first_cells in Hq; [|exact Hd|exact Hp]. apply in_last_cells in Hq'; [|exact Hd|exact Hp].
    unfold face_key in E. injection E as E _. cbn [bface1 bface0 up_face low_face fn0] in E.
    pose proof (get_add_e d q' Hd) as G. rewrite E in G. destruct Hq as [_ Hq]. lia.
  - (* internal (0 < x_d < n_d) against the boundaries *)
    intros z Hz Hz'. apply in_map_iff in Hz. destruct Hz as (q & <- & Hq). apply in_lower_cells in Hq; [|exact Hd].
    destruct Hq as [Q1 Q2]. apply in_cells_add_e in Q2; [|exact Hd|exact Q1]. pose proof (get_add_e d q Hd) as G.
    apply in_app_or in Hz'. destruct Hz' as [Hz'|Hz']; apply in_map_iff in Hz'; destruct Hz' as (q' & E & Hq').
    + apply in_first_cells in Hq'; [|exact Hd|exact Hp]. unfold face_key in E. injection E as E _.
      cbn [iface bface0 up_face low_face fn0] in E. rewrite <- E in G. destruct Hq' as [_ Hq']. lia.
    + apply in_last_cells in Hq'; [|exact Hd|exact Hp]. apply Kup in E. subst q'. destruct Hq' as [_ Hq']. lia.
Qed.

Theorem patch_faces_key_NoDup start sh : pos_shape sh -> NoDup (map face_key (patch_faces start sh)).
Proof.
  intros Hp. unfold patch_faces. rewrite map_flat_map. apply NoDup_flat_map.
  - repeat constructor; cbn; lia.
  - intros d Hd. apply dir_faces_key_NoDup; [cbn in Hd; lia|exact Hp].
  - intros d d' z Hd Hd' Hz Hz'. assert (Hd3 : d < 3) by (cbn in Hd; lia). assert (Hd3' : d' < 3) by (cbn in Hd'; lia).
    apply in_map_iff in Hz, Hz'. destruct Hz as (f & <- & Hf), Hz' as (g & E & Hg).
    destruct (dir_faces_key start sh d f Hd3 Hp Hf) as [K1 K2]. destruct (dir_faces_key start sh d' g Hd3' Hp Hg) as [K1' K2'].
    unfold face_key in E. injection E as E0 E2. destruct (Nat.eq_dec d d') as [|Hne]; [assumption|exfalso].
    specialize (K2' d Hd3 Hne). rewrite E0, E2 in K2'. lia.
Qed.
Corollary patch_faces_NoDup start sh : pos_shape sh -> NoDup (patch_faces start sh).
Proof. intros Hp. apply (NoDup_map_inv face_key). apply patch_faces_key_NoDup. exact Hp. Qed.

(* ---------- number of faces by kind, counted on the exported list ---------- *)

Lemma filter_all_length {A} (p : A -> bool) l : (forall x, In x l -> p x = true) -> length (filter p l) = length l.
Proof.
  induction l as [|x r IH]; cbn; [reflexivity|]. intros H. rewrite (H x (or_introl eq_refl)). cbn. f_equal. apply IH.
  intros y Hy. apply H. right. exact Hy.
Qed.

Definition has_neighbor (f : face) : bool := match neighbor f with Some _ => true | None => false end.

Theorem face_count_by_kind start nx ny nz : 1 <= nx -> 1 <= ny -> 1 <= nz ->
  length (filter has_neighbor (patch_faces start (nx, ny, nz))) = 3 * nx * ny * nz - (ny * nz + nx * nz + nx * ny) /\
  length (filter (fun f => negb (has_neighbor f)) (patch_faces start (nx, ny, nz))) = 2 * (ny * nz + nx * nz + nx * ny).
Proof.
  intros Hx Hy Hz. set (sh := (nx, ny, nz)). assert (Hp : pos_shape sh) by (cbn; lia).
  assert (HI : forall d, d < 3 -> forall f, In f (internal_faces start sh d) -> has_neighbor f = true).
  { intros d Hd f Hf. apply in_internal_faces in Hf; [|exact Hd]. destruct Hf as (q & _ & _ & ->). reflexivity. }
  assert (HL : forall d, d < 3 -> forall f, In f (boundary_faces start sh d false) -> has_neighbor f = false).
  { intros d Hd f Hf. apply in_boundary_lower in Hf; [|exact Hd|exact Hp]. destruct Hf as (q & _ & _ & ->). reflexivity. }
  assert (HU : forall d, d < 3 -> forall f, In f (boundary_faces start sh d true) -> has_neighbor f = false).
  { intros d Hd f Hf. apply in_boundary_upper in Hf; [|exact Hd|exact Hp]. destruct Hf as (q & _ & _ & ->). reflexivity. }
  destruct (face_count start nx ny nz Hx Hy Hz) as (C1 & _ & C3 & _). fold sh in C1, C3.
  unfold internal_faces_all in C1. unfold boundary_faces_all in C3. cbn [flat_map] in C1, C3. repeat rewrite app_length in C1. repeat rewrite app_length in C3.
  unfold patch_faces, dir_faces. cbn [flat_map]. rewrite !filter_app, !app_length. cbn [filter length].
  split.
  - rewrite !(filter_all_length has_neighbor (internal_faces start sh _)) by (apply HI; lia).
    rewrite !(filter_none_length has_neighbor (boundary_faces start sh _ false)) by (apply HL; lia).
    rewrite !(filter_none_length has_neighbor (boundary_faces start sh _ true)) by (apply HU; lia).
    cbn [length] in C1. lia.
  - assert (HI' : forall d, d < 3 -> forall f, In f (internal_faces start sh d) -> negb (has_neighbor f) = false)
      by (intros d Hd f Hf; rewrite (HI d Hd f Hf); reflexivity).
    assert (HL' : forall d, d < 3 -> forall f, In f (boundary_faces start sh d false) -> negb (has_neighbor f) = true)
      by (intros d Hd f Hf; rewrite (HL d Hd f Hf); reflexivity).
    assert (HU' : forall d, d < 3 -> forall f, In f (boundary_faces start sh d true) -> negb (has_neighbor f) = true)
      by (intros d Hd f Hf; rewrite (HU d Hd f Hf); reflexivity).
    rewrite !(filter_none_length _ (internal_faces start sh _)) by (apply HI'; lia).
    rewrite !(filter_all_length _ (boundary_faces start sh _ false)) by (apply HL'; lia).
    rewrite !(filter_all_length _ (boundary_faces start sh _ true)) by (apply HU'; lia).
    cbn [length] in C3. lia.
Qed.

(* ================= non-vacuity: the model against the real code ================= *)

(* Volume() refined to cell shape (2,3,1): the output of SplineModel.faces() (nodes through the patch's
   cp_numbers = C-order numbering of the (3,4,2) control net; neighbor -1 written None), copied from a run of
   /repo/splipy/splinemodel.py *)
Definition cp_corder (sh : idx3) (p : idx3) : nat := cell_number 0 (cpshape sh) p.

Example faces_2_3_1 :
  map (fun f => (face_cp (cp_corder (2, 3, 1)) f, owner f, neighbor f)) (patch_faces 0 (2, 3, 1)) =
     [([8; 10; 11; 9], 0, Some 3); ([10; 12; 13; 11], 1, Some 4); ([12; 14; 15; 13], 2, Some 5); ([0; 1; 3; 2], 0,
     None); ([2; 3; 5; 4], 1, None); ([4; 5; 7; 6], 2, None); ([16; 18; 19; 17], 3, None); ([18; 20; 21; 19], 4,
     None); ([20; 22; 23; 21], 5, None); ([2; 3; 11; 10], 0, Some 1); ([4; 5; 13; 12], 1, Some 2); ([10; 11; 19; 18],
     3, Some 4); ([12; 13; 21; 20], 4, Some 5); ([0; 8; 9; 1], 0, None); ([8; 16; 17; 9], 3, None); ([6; 7; 15; 14],
     2, None); ([14; 15; 23; 22], 5, None); ([0; 2; 10; 8], 0, None); ([2; 4; 12; 10], 1, None); ([4; 6; 14; 12], 2,
     None); ([8; 10; 18; 16], 3, None); ([10; 12; 20; 18], 4, None); ([12; 14; 22; 20], 5, None); ([1; 9; 11; 3], 0,
     None); ([3; 11; 13; 5], 1, None); ([5; 13; 15; 7], 2, None); ([9; 17; 19; 11], 3, None); ([11; 19; 21; 13], 4,
     None); ([13; 21; 23; 15], 5, None)].
Proof. vm_compute. reflexivity. Qed.

Example cells_three_patches :
  cell_numbers_model [(2, 3, 1); (1, 2, 2); (3, 1, 1)] = ([[0; 1; 2; 3; 4; 5]; [6; 7; 8; 9]; [10; 11; 12]], 13).
Proof. vm_compute. reflexivity. Qed.

(* the C-order control point numbering is injective on the control net, so face_cp_NoDup applies to it *)
Lemma cp_corder_inj sh p p' : in_cps sh p -> in_cps sh p' -> cp_corder sh p = cp_corder sh p' -> p = p'.
Proof. unfold in_cps, cp_corder. apply cell_number_inj. Qed.

(* six faces around every cell, normals, counts: executed on the example *)
Example six_faces_2_3_1 :
  map (fun n => length (filter (touches n) (patch_faces 0 (2, 3, 1)))) (seq 0 6) = [6; 6; 6; 6; 6; 6] /\
  map (fun f => zget 0 (normal f)) (dir_faces 0 (2, 3, 1) 0) = [1; 1; 1; -1; -1; -1; 1; 1; 1]%Z /\
  map (fun f => zget 1 (normal f)) (dir_faces 0 (2, 3, 1) 1) = [1; 1; 1; 1; -1; -1; 1; 1]%Z /\
  map (fun f => zget 2 (normal f)) (dir_faces 0 (2, 3, 1) 2) = [-1; -1; -1; -1; -1; -1; 1; 1; 1; 1; 1; 1]%Z.
Proof. vm_compute. repeat split; reflexivity. Qed.

