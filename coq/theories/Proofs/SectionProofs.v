(* C15: B-splines at a knot of full multiplicity (clamped ends, C0 knots), sections as restrictions,
   Coons patches interpolate their boundary curves. *)
From Coq Require Import List Arith Reals Lra Lia Bool ZArith.
From SplipyModel Require Import Spec.BSpline Spec.Deriv Model.Num Model.BasisDef Model.BasisEval Model.Tensor Model.Obj Model.KnotInsert Model.Section
  Proofs.Bridge Proofs.EvalConsequences Proofs.TensorLemmas Proofs.TensorApply Proofs.AffineProofs Proofs.InterpProofs.
Import ListNotations.
Open Scope R_scope.

(* ---------- 1. a knot of multiplicity q carries exactly one degree-q B-spline ---------- *)
Section FullMult.
Variable k : nat -> R.
Hypothesis ksorted : sorted k.
Variable m : nat.
Variable t : R.

(* right-continuous family at t = k_m < k_{m+1}, with k_j = t for the q indices m-q < j <= m *)
Lemma B_at_full_mult_knot : t = k m -> k m < k (S m) ->
  forall q, (q <= m)%nat -> (forall j, (m - q < j <= m)%nat -> k j = t) ->
  forall i, B true k q i t = if (i =? m - q)%nat then 1 else 0.
Proof.
  intros Et Hlt.
  assert (Hspan : in_span true (k m) (k (S m)) t) by (cbn; lra).
  induction q as [|q IH]; intros Hq Hmul i.
  - rewrite (B0_span true k ksorted m t Hspan i). rewrite Nat.sub_0_r. reflexivity.
  - assert (IHq : forall i0, B true k q i0 t = if (i0 =? m - q)%nat then 1 else 0)
      by (apply IH; [lia|intros j Hj; apply Hmul; lia]).
    cbn [B]. rewrite !IHq.
    destruct (Nat.eqb_spec i (m - S q)) as [Ei|Ni].
    + (* i = m - (q+1): first term vanishes (B_{i,q} = 0), second is B_{i+1,q} = 1 with weight 1 - w = 1 *)
      replace (Nat.eqb i (m - q)) with false by (symmetry; apply Nat.eqb_neq; lia).
      replace (Nat.eqb (i + 1) (m - q)) with true by (symmetry; apply Nat.eqb_eq; lia).
      assert (Ek : k (i + 1)%nat = t) by (apply Hmul; lia).
      assert (W : w (k (i + 1)%nat) (k (i + q + 2)%nat) t = 0).
      { unfold w. destruct (Rltb_spec (k (i + 1)%nat) (k (i + q + 2)%nat)); [rewrite Ek; unfold Rdiv; ring|reflexivity]. }
      rewrite W. ring.
    + destruct (Nat.eqb_spec i (m - q)) as [Ei|Ni2].
      * (* i = m - q: B_{i,q} = 1 but its weight w(k_i, k_{i+q}, t) = 0 since k_i = t (needs q >= 1 or i = m) ; second term 0 *)
        replace (Nat.eqb (i + 1) (m - q)) with false by (symmetry; apply Nat.eqb_neq; lia).
        assert (W : w (k i) (k (i + q + 1)%nat) t = 0).
        { assert (Ek : k i = t) by (destruct (Nat.eq_dec i m) as [->|]; [symmetry; exact Et|apply Hmul; lia]).
          unfold w. destruct (Rltb_spec (k i) (k (i + q + 1)%nat)); [rewrite Ek; unfold Rdiv; ring|reflexivity]. }
        rewrite W. ring.
      * destruct (Nat.eqb_spec (i + 1) (m - q)) as [Ei|Ni3]; [exfalso; lia|]. ring.
Qed.
End FullMult.

(* left-continuous family at t = k_{m+1} > k_m, with k_j = t for the q indices m+1 <= j <= m+q *)
Section FullMultLeft.
Variable k : nat -> R.
Hypothesis ksorted : sorted k.
Variable m : nat.
Variable t : R.
Lemma B_at_full_mult_knot_left : t = k (S m) -> k m < k (S m) ->
  forall q, (forall j, (m + 1 <= j <= m + q)%nat -> k j = t) ->
  forall i, B false k q i t = if (i =? m)%nat then 1 else 0.
Proof.
  intros Et Hlt.
  assert (Hspan : in_span false (k m) (k (S m)) t) by (cbn; lra).
  induction q as [|q IH]; intros Hmul i.
  - rewrite (B0_span false k ksorted m t Hspan i). reflexivity.
  - assert (IHq : forall i0, B false k q i0 t = if (i0 =? m)%nat then 1 else 0)
      by (apply IH; intros j Hj; apply Hmul; lia).
    cbn [B]. rewrite !IHq.
    destruct (Nat.eqb_spec i m) as [->|Ni].
    + replace (Nat.eqb (m + 1) m) with false by (symmetry; apply Nat.eqb_neq; lia).
      assert (W : w (k m) (k (m + q + 1)%nat) t = 1).
      { assert (Ek : k (m + q + 1)%nat = t) by (apply Hmul; lia).
        rewrite w_lt by (rewrite Ek, Et; exact Hlt). rewrite Ek. field. rewrite Et. lra. }
      rewrite W. ring.
    + destruct (Nat.eqb_spec (i + 1) m) as [Ei|Ni2].
      * (* i = m - 1: B_{m,q} = 1 with weight 1 - w(k_m, k_{m+q+1}, t) = 0 *)
        assert (W : w (k (i + 1)%nat) (k (i + q + 2)%nat) t = 1).
        { assert (Ek : k (i + q + 2)%nat = t) by (apply Hmul; lia). rewrite Ei.
          rewrite w_lt by (rewrite Ek, Et; exact Hlt). rewrite Ek. field. rewrite Et. lra. }
        rewrite W. ring.
      * ring.
Qed.
End FullMultLeft.

(* clamped ends of an open knot vector: the first / last row entry is one, the others zero *)
Section Clamped.
Variable k : list R.
Variable p : nat.
Hypothesis HK : sorted (kn k).
Hypothesis Hp : (1 <= p)%nat.
Local Notation n := (length k - p)%nat.
Hypothesis Hn : (p <= n)%nat.

Theorem clamped_start_row : (forall j, (j < p)%nat -> kn k j = kn k (p - 1)) -> kn k (p - 1) < kn k p ->
  @ref_row R NumR true k p 0 0 (kn k (p - 1)) = unit_row n 0.
Proof.
  intros Hm Hlt. apply (nth_ext _ _ 0 0).
  - rewrite (ref_row_length k p 0 true 0), unit_row_length. lia.
  - intros c Hc. rewrite (ref_row_length k p 0 true 0) in Hc.
    rewrite (ref_row_entry k p 0 true 0 _ c) by lia. rewrite unit_row_nth by lia.
    rewrite Nat.sub_0_r.
    rewrite (sumf_ext _ (fun i => if (c =? i)%nat then (if (c =? 0)%nat then 1 else 0) else 0)).
    + destruct (Nat.eqb_spec c 0) as [->|]; [apply sumf_indicator; lia|].
      apply sumf_zero. intros i _. destruct (Nat.eqb c i); reflexivity.
    + intros i Hi. rewrite Nat.mod_small by lia. rewrite (Nat.eqb_sym i c).
      destruct (Nat.eqb_spec c i) as [<-|]; [|reflexivity].
      cbn [dB]. 
      rewrite (B_at_full_mult_knot (kn k) HK (p - 1) (kn k (p - 1)) eq_refl) ;
        [replace (p - 1 - (p - 1))%nat with 0%nat by lia; reflexivity
        |replace (S (p - 1)) with p by lia; exact Hlt|lia|intros j Hj; apply Hm; lia].
Qed.

Theorem clamped_end_row : (forall j, (n <= j < n + p)%nat -> kn k j = kn k n) -> kn k (n - 1) < kn k n ->
  @ref_row R NumR false k p 0 0 (kn k n) = unit_row n (n - 1).
Proof.
  intros Hm Hlt. apply (nth_ext _ _ 0 0).
  - rewrite (ref_row_length k p 0 false 0), unit_row_length. lia.
  - intros c Hc. rewrite (ref_row_length k p 0 false 0) in Hc.
    rewrite (ref_row_entry k p 0 false 0 _ c) by lia. rewrite unit_row_nth by lia.
    rewrite Nat.sub_0_r.
    rewrite (sumf_ext _ (fun i => if (c =? i)%nat then (if (c =? n - 1)%nat then 1 else 0) else 0)).
    + destruct (Nat.eqb_spec c (n - 1)) as [->|]; [apply sumf_indicator; lia|].
      apply sumf_zero. intros i _. destruct (Nat.eqb c i); reflexivity.
    + intros i Hi. rewrite Nat.mod_small by lia. rewrite (Nat.eqb_sym i c).
      destruct (Nat.eqb_spec c i) as [<-|]; [|reflexivity].
      cbn [dB].
      rewrite (B_at_full_mult_knot_left (kn k) HK (n - 1) (kn k n));
        [reflexivity|replace (S (n - 1)) with n by lia; reflexivity|replace (S (n - 1)) with n by lia; exact Hlt
        |intros j Hj; apply Hm; lia].
Qed.
End Clamped.

(* ---------- 2. a section is the restriction: pinning direction d to control point idx ---------- *)
Lemma sel_row_rel n idx : (idx < n)%nat -> row_rel (unit_row n idx) [1] (@sel_matrix R NumR n idx).
Proof.
  intros Hi. unfold row_rel, sel_matrix. rewrite unit_row_length. cbn [length].
  split; [reflexivity|]. split.
  - constructor; [|constructor]. rewrite map_length, seq_length. reflexivity.
  - intros j Hj. cbn [sumf nth]. rewrite unit_row_nth by exact Hj.
    rewrite (nth_map_gen _ (seq 0 n) j 0 0%nat) by (rewrite seq_length; exact Hj). rewrite seq_nth by exact Hj.
    cbn [Nat.add n0 n1 NumR]. destruct (Nat.eqb j idx); ring.
Qed.

(* evaluating the object with the unit row e_idx in direction d equals evaluating the sliced net with row [1] there *)
Theorem section_one_direction dim c rows d cps idx :
  (d < length rows)%nat -> (c < dim)%nat -> net_ok dim rows cps -> (0 < prodl (map (@length R) rows))%nat ->
  nth d rows [] = unit_row (length (nth d rows [])) idx -> (idx < length (nth d rows []))%nat ->
  tsum (@upd (list R) rows d [1])
       (cnet dim c (@apply_dir R NumR dim (map (@length R) rows) d (@sel_matrix R NumR (length (nth d rows [])) idx) cps))
  = tsum rows (cnet dim c cps).
Proof.
  intros Hd Hc Hnet Hpos Hrow Hidx.
  apply tsum_apply_dir; try assumption. rewrite Hrow at 1. apply sel_row_rel. exact Hidx.
Qed.

(* a direction carrying the single weight 1 does not contribute: it can be dropped from the contraction *)
Lemma tsum_drop_one rows1 : forall rows2 f,
  tsum (rows1 ++ [1] :: rows2) f = tsum (rows1 ++ rows2) f.
Proof.
  induction rows1 as [|N rows1 IH]; intros rows2 f.
  - cbn [app tsum]. cbv zeta. unfold lcf. cbn [length sumf nth]. rewrite Rmult_1_l, Rplus_0_r.
    apply tsum_ext. intros i _. reflexivity.
  - cbn [app tsum]. cbv zeta.
    replace (prodl (map (@length R) (rows1 ++ [1] :: rows2))) with (prodl (map (@length R) (rows1 ++ rows2))).
    + apply lcf_ext. intros i _. apply IH.
    + rewrite !map_app. unfold prodl. rewrite !fold_right_app. cbn [map fold_right length]. f_equal. lia.
Qed.

(* ---------- 3. Coons patch: the blended surface has the four curves as its boundary ---------- *)
(* bottom(u), top(u), left(v), right(v) : parametric curves (one coordinate); corners compatible *)
Section Coons.
Variables bottom top left right : R -> R.
Hypothesis C00 : left 0 = bottom 0.
Hypothesis C10 : right 0 = bottom 1.
Hypothesis C01 : left 1 = top 0.
Hypothesis C11 : right 1 = top 1.
Definition coons (u v : R) : R :=
  ((1 - v) * bottom u + v * top u) + ((1 - u) * left v + u * right v)
  - ((1 - u) * (1 - v) * bottom 0 + u * (1 - v) * bottom 1 + (1 - u) * v * top 0 + u * v * top 1).
Theorem coons_boundary u v :
  coons u 0 = bottom u /\ coons u 1 = top u /\ coons 0 v = left v /\ coons 1 v = right v.
Proof. unfold coons. repeat split; rewrite ?C00, ?C10, ?C01, ?C11; ring_simplify; try reflexivity. Qed.
End Coons.

(* trilinear (six-face) version used by edge_surfaces *)
Section Coons3.
Variables U V W : bool -> R -> R -> R.      (* U i (v, w) : face u = i;  V j (u, w) : face v = j;  W k (u, v) : face w = k *)
Definition r01 (b : bool) : R := if b then 1 else 0.
Definition lb (b : bool) (x : R) : R := if b then x else 1 - x.
Hypothesis HVU : forall i j w, V j (r01 i) w = U i (r01 j) w.
Hypothesis HWU : forall i k v, W k (r01 i) v = U i v (r01 k).
Hypothesis HWV : forall j k u, W k u (r01 j) = V j u (r01 k).
Definition sum2 (f : bool -> R) : R := f false + f true.
Definition coons3 (u v w : R) : R :=
  sum2 (fun i => lb i u * U i v w) + sum2 (fun j => lb j v * V j u w) + sum2 (fun k => lb k w * W k u v)
  - sum2 (fun i => sum2 (fun j => lb i u * lb j v * U i (r01 j) w))
  - sum2 (fun j => sum2 (fun k => lb j v * lb k w * V j u (r01 k)))
  - sum2 (fun i => sum2 (fun k => lb i u * lb k w * U i v (r01 k)))
  + sum2 (fun i => sum2 (fun j => sum2 (fun k => lb i u * lb j v * lb k w * U i (r01 j) (r01 k)))).
(* the face u = i0 (the other two families follow by relabelling the directions) *)
Theorem coons3_boundary_u i0 x y : coons3 (r01 i0) x y = U i0 x y.
Proof.
  unfold coons3, sum2. rewrite !HVU, !HWU.
  destruct i0; unfold lb, r01; ring.
Qed.
End Coons3.
