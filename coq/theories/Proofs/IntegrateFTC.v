(* C16: the fundamental theorem of calculus across knots for BSplineBasis.integrate.

   With  A_i(t) = (k_{i+q+1} - k_i)/(q+1) * sum_{j=i}^{i+M-1} B_{j,q+1}(t)  over a sorted knot function k:
     * on every knot span the polynomial piece of A_i has the polynomial piece of B_{i,q} as derivative
       (everywhere, not only inside the span);
     * A_i does not jump at any knot, whatever its multiplicity (the jump of the sum of the higher-order
       functions is a dipole that is non-zero only where k_i = k_{i+q+1}, i.e. where the factor vanishes);
     * hence  is_RInt B_{i,q} a b (A_i(b-) - A_i(a+))  over any interval crossing any number of knots;
     * the model basis_integrate returns exactly these integrals. *)
From Coq Require Import List Arith Reals Lra Lia Bool ZArith.
From Coquelicot Require Import Coquelicot.
From SplipyModel Require Import Spec.BSpline Spec.Deriv Spec.DerivAnalytic Spec.Continuity Spec.DerivSpline.
Import ListNotations.
Open Scope R_scope.

(* ---------- small helpers ---------- *)
Lemma dqR_ge a b x : b <= a -> dqR a b x = 0.
Proof. intros H. unfold dqR. destruct (Rltb_spec a b); [lra|reflexivity]. Qed.
Lemma dqR_inv a b x : a <= b -> dqR a b x = / (b - a) * x.
Proof.
  intros H. destruct (Rlt_dec a b) as [L|L].
  - rewrite dqR_lt by exact L. unfold Rdiv. ring.
  - rewrite dqR_ge by lra. replace (b - a) with 0 by lra. rewrite Rinv_0. ring.
Qed.
Lemma sumf_minus f g a n : sumf (fun i => f i - g i) a n = sumf f a n - sumf g a n.
Proof. revert a; induction n; intros a; cbn [sumf]; [lra|]. rewrite IHn. lra. Qed.
Lemma sumf_delta a : forall M i,
  sumf (fun j => delta j a) i M = if (i <=? a)%nat && (a <? i + M)%nat then 1 else 0.
Proof.
  induction M as [|M IH]; intros i; cbn [sumf].
  - destruct (Nat.leb_spec i a), (Nat.ltb_spec a (i + 0)); cbn [andb]; try reflexivity; lia.
  - rewrite IH. unfold delta.
    destruct (Nat.eqb_spec i a), (Nat.leb_spec (S i) a), (Nat.ltb_spec a (S i + M)),
             (Nat.leb_spec i a), (Nat.ltb_spec a (i + S M)); cbn [andb]; try lra; lia.
Qed.

(* Coquelicot's integral lemmas with the module operations of R spelled out *)
Lemma is_RInt_Chasles_R (f : R -> R) a b c l1 l2 : is_RInt f a b l1 -> is_RInt f b c l2 -> is_RInt f a c (l1 + l2).
Proof. exact (is_RInt_Chasles f a b c l1 l2). Qed.
Lemma is_RInt_derive_R (f df : R -> R) a b :
  (forall x, Rmin a b <= x <= Rmax a b -> is_derive f x (df x)) ->
  (forall x, Rmin a b <= x <= Rmax a b -> continuous df x) -> is_RInt df a b (f b - f a).
Proof. exact (is_RInt_derive f df a b). Qed.
Lemma is_RInt_point_R (f : R -> R) a : is_RInt f a a 0.
Proof. exact (is_RInt_point f a). Qed.
Lemma is_RInt_const_R a b (v : R) : is_RInt (fun _ => v) a b ((b - a) * v).
Proof. exact (is_RInt_const a b v). Qed.
Lemma is_RInt_swap_R (f : R -> R) a b l : is_RInt f b a l -> is_RInt f a b (- l).
Proof. exact (is_RInt_swap f a b l). Qed.
Lemma is_RInt_val (f : R -> R) a b (l l' : R) : is_RInt f a b l -> l = l' -> is_RInt f a b l'.
Proof. intros H <-. exact H. Qed.

Ltac wsimp t := repeat match goal with
  | |- context[w ?a ?b t] => first [rewrite (w_lt a b t) by lra | rewrite (w_ge a b t) by lra] end.
Ltac dsimp := repeat match goal with
  | |- context[dqR ?a ?b ?x] => first [rewrite (dqR_lt a b x) by lra | rewrite (dqR_ge a b x) by lra] end.

(* ---------- 1. the span polynomials: derivative everywhere ---------- *)
Section Piece.
Variable k : nat -> R.
Hypothesis Hk : sorted k.

(* the span polynomial of index i and degree q vanishes identically unless i <= m <= i+q *)
Lemma P_out m q : forall i t, ~ (i <= m <= i + q)%nat -> P k m q i t = 0.
Proof.
  induction q as [|q IH]; intros i t H; cbn [P].
  - destruct (Nat.eqb_spec i m); [lia|reflexivity].
  - rewrite (IH i), (IH (i+1)%nat) by lia. ring.
Qed.
Lemma P_empty m q i t : k m < k (S m) -> k (i + q + 1)%nat <= k i -> P k m q i t = 0.
Proof.
  intros Hm H. apply P_out. intros [A C].
  pose proof (Hk i m A). pose proof (Hk (S m) (i + q + 1)%nat ltac:(lia)). lra.
Qed.

(* derivative recurrence for the pieces, same shape as dB _ _ 1 *)
Definition DP (m q i : nat) (t : R) : R :=
  match q with
  | O => 0
  | S r => INR (S r) * (dqR (k i) (k (i + S r)%nat) (P k m r i t)
                        - dqR (k (i+1)%nat) (k (i + S r + 1)%nat) (P k m r (i+1) t))
  end.

Lemma deriv_alg_P m q i t : k m < k (S m) ->
  w (k i) (k (i + q + 1)%nat) t * DP m q i t + (1 - w (k (i+1)%nat) (k (i + q + 2)%nat) t) * DP m q (i+1) t
  = INR q * (dqR (k i) (k (i + q + 1)%nat) (P k m q i t) - dqR (k (i+1)%nat) (k (i + q + 2)%nat) (P k m q (i+1) t)).
Proof.
  intros Hm.
  destruct q as [|r]; [cbn [DP INR]; ring|].
  cbn [DP]. cbn [P].
  replace (i + 1 + S r + 1)%nat with (i + r + 3)%nat by lia.
  replace (i + 1 + S r)%nat with (i + r + 2)%nat by lia.
  replace (i + S r + 2)%nat with (i + r + 3)%nat by lia.
  replace (i + S r + 1)%nat with (i + r + 2)%nat by lia.
  replace (i + S r)%nat with (i + r + 1)%nat by lia.
  replace (i + 1 + r + 1)%nat with (i + r + 2)%nat by lia.
  replace (i + 1 + r + 2)%nat with (i + r + 3)%nat by lia.
  replace (i + 1 + 1)%nat with (i + 2)%nat by lia.
  set (a0 := k i). set (a1 := k (i+1)%nat). set (a2 := k (i+2)%nat).
  set (e1 := k (i+r+1)%nat). set (e2 := k (i+r+2)%nat). set (e3 := k (i+r+3)%nat).
  set (b0 := P k m r i t). set (b1 := P k m r (i+1) t). set (b2 := P k m r (i+2) t).
  assert (S01 : a0 <= a1) by (apply Hk; lia). assert (S12 : a1 <= a2) by (apply Hk; lia).
  assert (E12 : e1 <= e2) by (apply Hk; lia). assert (E23 : e2 <= e3) by (apply Hk; lia).
  assert (A0E1 : a0 <= e1) by (apply Hk; lia). assert (A1E2 : a1 <= e2) by (apply Hk; lia).
  assert (A2E3 : a2 <= e3) by (apply Hk; lia).
  assert (Z0 : e1 <= a0 -> b0 = 0) by (intros; apply P_empty; auto).
  assert (Z1 : e2 <= a1 -> b1 = 0).
  { intros; apply P_empty; auto. replace (i+1+r+1)%nat with (i+r+2)%nat by lia. auto. }
  assert (Z2 : e3 <= a2 -> b2 = 0).
  { intros; apply P_empty; auto. replace (i+2+r+1)%nat with (i+r+3)%nat by lia. auto. }
  assert (N : INR (S r) <> 0) by (apply not_0_INR; lia).
  assert (A1E1 : a1 <= e1) by (apply Hk; lia). assert (A2E2 : a2 <= e2) by (apply Hk; lia).
  destruct (Rlt_dec a0 e1) as [L0|L0]; [|rewrite (Z0 ltac:(lra))];
  (destruct (Rlt_dec a1 e2) as [L1|L1]; [|rewrite (Z1 ltac:(lra))]);
  (destruct (Rlt_dec a2 e3) as [L2|L2]; [|rewrite (Z2 ltac:(lra))]);
  wsimp t; dsimp;
  field; repeat split; lra.
Qed.

Lemma w_derive_at t a b : a <= b -> is_derive (fun s => w a b s) t (/ (b - a)).
Proof.
  intros Hab. destruct (Rlt_dec a b) as [L|L].
  - apply (is_derive_ext (fun s => (s - a) / (b - a))).
    { intros s. now rewrite w_lt. }
    auto_derive; [exact I|]. field. lra.
  - replace (b - a) with 0 by lra. rewrite Rinv_0.
    apply (is_derive_ext (fun _ => 0)). { intros s. now rewrite w_ge by lra. }
    apply @is_derive_const.
Qed.

Theorem P_derive m (Hm : k m < k (S m)) t q : forall i, is_derive (fun s => P k m q i s) t (DP m q i t).
Proof.
  induction q as [|q IH]; intros i.
  - cbn [P DP]. apply @is_derive_const.
  - cbn [P].
    assert (H1 : k i <= k (i + q + 1)%nat) by (apply Hk; lia).
    assert (H2 : k (i+1)%nat <= k (i + q + 2)%nat) by (apply Hk; lia).
    pose proof (w_derive_at t _ _ H1) as W1. pose proof (w_derive_at t _ _ H2) as W2.
    pose proof (IH i) as I1. pose proof (IH (i+1)%nat) as I2.
    pose proof (is_derive_mult (fun s => w (k i) (k (i + q + 1)%nat) s) (fun s => P k m q i s) t _ _ W1 I1 Rmult_comm) as M1.
    pose proof (is_derive_minus (fun _ => 1) (fun s => w (k (i+1)%nat) (k (i + q + 2)%nat) s) t _ _
                  (is_derive_const 1 t) W2) as Wm.
    pose proof (is_derive_mult (fun s => minus 1 (w (k (i+1)%nat) (k (i + q + 2)%nat) s)) (fun s => P k m q (i+1) s) t _ _ Wm I2 Rmult_comm) as M2.
    pose proof (is_derive_plus _ _ t _ _ M1 M2) as Pl.
    match type of Pl with is_derive _ _ ?d =>
      replace (DP m (S q) i t) with d; [exact Pl|] end.
    pose proof (deriv_alg_P m q i t Hm) as A.
    cbn [DP]. rewrite S_INR.
    replace (i + S q)%nat with (i + q + 1)%nat by lia.
    replace (i + q + 1 + 1)%nat with (i + q + 2)%nat by lia.
    rewrite (dqR_inv _ _ _ H1), (dqR_inv _ _ _ H2) in *.
    unfold plus, mult, minus, opp, zero; cbn -[INR P w DP].
    unfold Rdiv in *. nra.
Qed.

(* sums of pieces *)
Lemma sumP_derive m (Hm : k m < k (S m)) q t : forall M i,
  is_derive (fun s => sumf (fun j => P k m q j s) i M) t (sumf (fun j => DP m q j t) i M).
Proof.
  induction M as [|M IH]; intros i.
  - cbn [sumf]. apply @is_derive_const.
  - cbn [sumf].
    exact (is_derive_plus _ _ t _ _ (P_derive m Hm t q i) (IH (S i))).
Qed.

Lemma DP_telescopes m q t : forall M i,
  sumf (fun j => DP m (S q) j t) i (S M)
  = INR (S q) * (dqR (k i) (k (i + S q)%nat) (P k m q i t)
                 - dqR (k (i + S M)%nat) (k (i + S M + S q)%nat) (P k m q (i + S M) t)).
Proof.
  induction M as [|M IH]; intros i.
  - cbn [sumf DP].
    replace (i + S q + 1)%nat with (i + 1 + S q)%nat by lia. ring.
  - rewrite sumf_S, IH. cbn [DP].
    replace (S i + S M)%nat with (i + S (S M))%nat by lia.
    replace (i + 1)%nat with (S i) by lia.
    replace (i + S q + 1)%nat with (S i + S q)%nat by lia. ring.
Qed.

(* the piece of the closed-form antiderivative on the span m *)
Definition AP (q i M m : nat) (t : R) : R :=
  (k (i + S q)%nat - k i) / INR (S q) * sumf (fun j => P k m (S q) j t) i M.

Lemma AP_derive q i M m t : k m < k (S m) -> k i < k (i + S q)%nat -> (m < i + M)%nat ->
  is_derive (AP q i M m) t (P k m q i t).
Proof.
  intros Hm Hlt HM. unfold AP.
  assert (HQ : 0 < INR (S q)) by (apply lt_0_INR; lia).
  replace (P k m q i t) with
    ((k (i + S q)%nat - k i) / INR (S q) * (sumf (fun j => DP m (S q) j t) i M)).
  { apply (is_derive_scal (fun s => sumf (fun j => P k m (S q) j s) i M)). apply sumP_derive. exact Hm. }
  destruct M as [|M].
  - cbn [sumf]. rewrite (P_out m q i t) by lia. ring.
  - rewrite DP_telescopes. rewrite (P_out m q (i + S M) t) by lia. rewrite dqR_0, dqR_lt by exact Hlt.
    field. split; lra.
Qed.

(* one span: the integral of the (right-continuous) B-spline over a sub-interval of the closed span *)
Lemma span_RInt q i M m a b : (m < i + M)%nat -> k m <= a -> a <= b -> b <= k (S m) ->
  is_RInt (fun t => B true k q i t) a b (AP q i M m b - AP q i M m a).
Proof.
  intros HM Ha Hab Hb.
  destruct (Req_dec a b) as [->|Nab].
  { replace (AP q i M m b - AP q i M m b) with 0 by ring. apply is_RInt_point_R. }
  assert (Hm : k m < k (S m)) by lra.
  destruct (Rlt_dec (k i) (k (i + S q)%nat)) as [Hlt|Hge].
  - apply (is_RInt_ext (fun t => P k m q i t)).
    { intros x Hx. rewrite Rmin_left, Rmax_right in Hx by lra. symmetry.
      apply (B_is_P true k Hk m x). unfold in_span. lra. }
    apply (is_RInt_derive_R (AP q i M m) (fun t => P k m q i t)).
    + intros x _. apply AP_derive; assumption.
    + intros x _. apply (ex_derive_continuous (fun t => P k m q i t)).
      eexists. apply (P_derive m Hm x q i).
  - assert (E : k (i + S q)%nat = k i) by (pose proof (Hk i (i + S q)%nat ltac:(lia)); lra).
    apply (is_RInt_ext (fun _ => 0)).
    { intros x _. symmetry. apply (B_empty true k Hk). replace (i + q + 1)%nat with (i + S q)%nat by lia. lra. }
    apply (is_RInt_val _ _ _ _ _ (is_RInt_const_R a b 0)).
    unfold AP. rewrite E. unfold Rdiv. ring.
Qed.

(* A does not jump from the piece m to the piece m+1 at their common knot, whatever the multiplicity *)
Lemma AP_step q i M m : (S q <= m)%nat -> (m < i + M)%nat ->
  AP q i M (S m) (k (S m)) = AP q i M m (k (S m)).
Proof.
  intros Hq HM. unfold AP.
  assert (D : sumf (fun j => P k (S m) (S q) j (k (S m))) i M - sumf (fun j => P k m (S q) j (k (S m))) i M
              = gam k m (S q) * (if Nat.eqb i (m - q) then 1 else 0)).
  { rewrite <- sumf_minus.
    rewrite (sumf_ext _ (fun j => gam k m (S q) * delta j (m - q) - gam k m (S q) * delta j (m - S q))).
    2:{ intros j _. pose proof (dipole k Hk m (S q) Hq j) as Dj. unfold E in Dj. rewrite Dj.
        replace (m + 1 - S q)%nat with (m - q)%nat by lia. ring. }
    rewrite sumf_minus, !sumf_scal, !sumf_delta.
    destruct (Nat.eqb_spec i (m - q)), (Nat.leb_spec i (m - q)), (Nat.ltb_spec (m - q) (i + M)),
             (Nat.leb_spec i (m - S q)), (Nat.ltb_spec (m - S q) (i + M)); cbn [andb]; try ring; lia. }
  unfold gam in D. destruct (repb k m (S q)) eqn:Rp.
  - destruct (Nat.eqb_spec i (m - q)) as [Ei|Ni].
    + pose proof (repb_spec k m (S q) Rp) as HR.
      rewrite (HR i ltac:(lia)), (HR (i + S q)%nat ltac:(lia)).
      unfold Rdiv. ring.
    + assert (E0 : sumf (fun j => P k (S m) (S q) j (k (S m))) i M = sumf (fun j => P k m (S q) j (k (S m))) i M) by lra.
      rewrite E0. reflexivity.
  - assert (E0 : sumf (fun j => P k (S m) (S q) j (k (S m))) i M = sumf (fun j => P k m (S q) j (k (S m))) i M) by lra.
    rewrite E0. reflexivity.
Qed.

(* any number of spans *)
Lemma spans_RInt q i M m a : (S q <= m)%nat -> k m <= a -> a <= k (S m) ->
  forall d b, (m + d < i + M)%nat -> k (m + d)%nat <= b -> b <= k (S (m + d)) -> a <= b ->
  is_RInt (fun t => B true k q i t) a b (AP q i M (m + d) b - AP q i M m a).
Proof.
  intros Hq Ha1 Ha2. induction d as [|d IH]; intros b HM Hb1 Hb2 Hab.
  - rewrite Nat.add_0_r in *. apply span_RInt; assumption.
  - replace (m + S d)%nat with (S (m + d)) in * by lia.
    assert (Hx : a <= k (S (m + d))) by (pose proof (Hk (S m) (S (m + d)) ltac:(lia)); lra).
    pose proof (IH (k (S (m + d))) ltac:(lia) (Hk (m + d)%nat (S (m + d)) ltac:(lia)) (Rle_refl _) Hx) as I1.
    pose proof (span_RInt q i M (S (m + d)) (k (S (m + d))) b HM (Rle_refl _) Hb1 Hb2) as I2.
    pose proof (is_RInt_Chasles_R _ _ _ _ _ _ I1 I2) as C.
    rewrite (AP_step q i M (m + d)) in C by lia.
    apply (is_RInt_val _ _ _ _ _ C). ring.
Qed.

(* finding the span of a point *)
Lemma find_span_right a : forall d lo, k lo <= a < k (lo + S d)%nat ->
  exists m, (lo <= m < lo + S d)%nat /\ k m <= a < k (S m).
Proof.
  induction d as [|d IH]; intros lo H.
  - exists lo. replace (lo + 1)%nat with (S lo) in H by lia. split; [lia|exact H].
  - destruct (Rlt_dec a (k (lo + S d)%nat)) as [L|L].
    + destruct (IH lo ltac:(lra)) as (m & Hm & Hs). exists m. split; [lia|exact Hs].
    + exists (lo + S d)%nat. split; [lia|]. replace (S (lo + S d)) with (lo + S (S d))%nat by lia. lra.
Qed.
Lemma find_span_left b : forall d lo, k lo < b <= k (lo + S d)%nat ->
  exists m, (lo <= m < lo + S d)%nat /\ k m < b <= k (S m).
Proof.
  induction d as [|d IH]; intros lo H.
  - exists lo. replace (lo + 1)%nat with (S lo) in H by lia. split; [lia|exact H].
  - destruct (Rle_dec b (k (lo + S d)%nat)) as [L|L].
    + destruct (IH lo ltac:(lra)) as (m & Hm & Hs). exists m. split; [lia|exact Hs].
    + exists (lo + S d)%nat. split; [lia|]. replace (S (lo + S d)) with (lo + S (S d))%nat by lia. lra.
Qed.
Lemma sorted_lt_idx i j : k i < k j -> (i < j)%nat.
Proof. intros H. destruct (Nat.lt_ge_cases i j); [assumption|]. pose proof (Hk j i ltac:(lia)). lra. Qed.

(* ---------- 2. the closed-form antiderivative and the fundamental theorem across knots ---------- *)
(* A_i(t), one-sided: side = true the value from the right, side = false the value from the left *)
Definition Aint (side : bool) (q i M : nat) (t : R) : R :=
  (k (i + S q)%nat - k i) / INR (S q) * sumf (fun j => B side k (S q) j t) i M.

Lemma Aint_piece side q i M m t : in_span side (k m) (k (S m)) t -> Aint side q i M t = AP q i M m t.
Proof.
  intros Hs. unfold Aint, AP. f_equal. apply sumf_ext. intros j _. apply (B_is_P side k Hk m t Hs).
Qed.

(* MAIN THEOREM: sorted knots only; no condition on multiplicities, degree q >= 0.
   a < b inside the domain [k_{q+1}, k_{i+M}] of the higher-order functions used *)
Theorem B_RInt q i M a b : k (S q) <= a -> a < b -> b <= k (i + M)%nat ->
  is_RInt (fun t => B true k q i t) a b (Aint false q i M b - Aint true q i M a).
Proof.
  intros Ha Hab Hb.
  assert (L1 : (S q < i + M)%nat) by (apply sorted_lt_idx; lra).
  destruct (find_span_right a (i + M - S q - 1) (S q)) as (m & Hm & Hsa).
  { replace (S q + S (i + M - S q - 1))%nat with (i + M)%nat by lia. lra. }
  destruct (find_span_left b (i + M - S q - 1) (S q)) as (n & Hn & Hsb).
  { replace (S q + S (i + M - S q - 1))%nat with (i + M)%nat by lia. lra. }
  assert (Hmn : (m < S n)%nat) by (apply sorted_lt_idx; lra).
  rewrite (Aint_piece true q i M m a) by (unfold in_span; lra).
  rewrite (Aint_piece false q i M n b) by (unfold in_span; lra).
  replace n with (m + (n - m))%nat in * by lia.
  apply spans_RInt; try lia; lra.
Qed.

(* the closed form is continuous at every point strictly inside the domain *)
Lemma AP_chain q i M x : forall d m, (S q <= m)%nat -> (m + d < i + M)%nat ->
  (forall l, (m <= l < m + d)%nat -> k (S l) = x) -> AP q i M (m + d) x = AP q i M m x.
Proof.
  induction d as [|d IH]; intros m Hq HM Hx.
  - rewrite Nat.add_0_r. reflexivity.
  - replace (m + S d)%nat with (S (m + d)) by lia.
    rewrite <- (Hx (m + d)%nat ltac:(lia)) at 1. rewrite AP_step by lia.
    rewrite (Hx (m + d)%nat ltac:(lia)). apply IH; [lia|lia|]. intros l Hl. apply Hx. lia.
Qed.
Theorem Aint_continuous q i M x : k (S q) < x < k (i + M)%nat -> Aint true q i M x = Aint false q i M x.
Proof.
  intros [H1 H2].
  assert (L1 : (S q < i + M)%nat) by (apply sorted_lt_idx; lra).
  destruct (find_span_right x (i + M - S q - 1) (S q)) as (m' & Hm' & Hs').
  { replace (S q + S (i + M - S q - 1))%nat with (i + M)%nat by lia. lra. }
  destruct (find_span_left x (i + M - S q - 1) (S q)) as (m & Hm & Hs).
  { replace (S q + S (i + M - S q - 1))%nat with (i + M)%nat by lia. lra. }
  assert (Hmm : (m < S m')%nat) by (apply sorted_lt_idx; lra).
  rewrite (Aint_piece true q i M m' x) by (unfold in_span; lra).
  rewrite (Aint_piece false q i M m x) by (unfold in_span; lra).
  replace m' with (m + (m' - m))%nat by lia.
  apply AP_chain; [lia|lia|].
  intros l Hl. pose proof (Hk (S m) (S l) ltac:(lia)). pose proof (Hk (S l) m' ltac:(lia)). lra.
Qed.

(* both ends strictly before the last knot used: the right-continuous closed form at both ends *)
Corollary B_RInt_inner q i M a b : k (S q) <= a -> a <= b -> b < k (i + M)%nat ->
  is_RInt (fun t => B true k q i t) a b (Aint true q i M b - Aint true q i M a).
Proof.
  intros Ha Hab Hb. destruct (Req_dec a b) as [->|N].
  - replace (_ - _) with 0 by ring. apply is_RInt_point_R.
  - rewrite (Aint_continuous q i M b) by lra. apply B_RInt; lra.
Qed.
End Piece.

(* ---------- 2a. no lower bound on a: prepend knots (the bound k_{q+1} <= a above only serves the index
   arithmetic of the continuity lemma) ---------- *)
Section Shift.
Variable k : nat -> R.
Hypothesis Hk : sorted k.
Variables (s : nat) (lo : R).
Hypothesis Hlo : lo <= k 0%nat.

Definition ksh (j : nat) : R := if (j <? s)%nat then lo - INR (s - j) else k (j - s)%nat.
Lemma ksh_at j : ksh (s + j) = k j.
Proof. unfold ksh. destruct (Nat.ltb_spec (s + j) s); [lia|]. f_equal. lia. Qed.
Lemma ksh_sorted : sorted ksh.
Proof.
  intros i j Hij. unfold ksh. destruct (Nat.ltb_spec i s), (Nat.ltb_spec j s).
  - pose proof (le_INR (s - j) (s - i) ltac:(lia)). lra.
  - pose proof (pos_INR (s - i)). pose proof (Hk 0%nat (j - s)%nat ltac:(lia)). lra.
  - lia.
  - apply Hk. lia.
Qed.
Lemma B_ksh side q : forall i t, B side ksh q (s + i) t = B side k q i t.
Proof.
  induction q as [|q IH]; intros i t; cbn [B].
  - replace (S (s + i)) with (s + S i)%nat by lia. rewrite !ksh_at. reflexivity.
  - replace (s + i + q + 1)%nat with (s + (i + q + 1))%nat by lia.
    replace (s + i + q + 2)%nat with (s + (i + q + 2))%nat by lia.
    replace (s + i + 1)%nat with (s + (i + 1))%nat by lia.
    rewrite !ksh_at, !IH. reflexivity.
Qed.
Lemma sumf_shift_n (f : nat -> R) : forall M i, sumf f (s + i) M = sumf (fun j => f (s + j)%nat) i M.
Proof.
  induction M as [|M IH]; intros i; cbn [sumf]; [reflexivity|].
  replace (S (s + i)) with (s + S i)%nat by lia. rewrite IH. reflexivity.
Qed.
Lemma Aint_ksh side q i M t : Aint ksh side q (s + i) M t = Aint k side q i M t.
Proof.
  unfold Aint. replace (s + i + S q)%nat with (s + (i + S q))%nat by lia. rewrite !ksh_at. f_equal.
  rewrite sumf_shift_n. apply sumf_ext. intros j _. apply B_ksh.
Qed.
End Shift.

(* MAIN THEOREM, final form: sorted knots, any degree q >= 0, any multiplicities, any a < b up to the last knot used *)
Theorem B_RInt_gen (k : nat -> R) (Hk : sorted k) q i M a b : a < b -> b <= k (i + M)%nat ->
  is_RInt (fun t => B true k q i t) a b (Aint k false q i M b - Aint k true q i M a).
Proof.
  intros Hab Hb.
  set (s := S (S q)). set (lo := Rmin (k 0%nat) a).
  assert (Hlo : lo <= k 0%nat) by apply Rmin_l.
  pose proof (ksh_sorted k Hk s lo Hlo) as HS.
  assert (Ha : ksh k s lo (S q) <= a).
  { unfold ksh, s. destruct (Nat.ltb_spec (S q) (S (S q))); [|lia].
    replace (S (S q) - S q)%nat with 1%nat by lia. cbn [INR]. pose proof (Rmin_r (k 0%nat) a). fold lo in H0. lra. }
  pose proof (B_RInt (ksh k s lo) HS q (s + i) M a b Ha Hab) as I.
  replace (s + i + M)%nat with (s + (i + M))%nat in I by lia. rewrite ksh_at in I. specialize (I Hb).
  rewrite !Aint_ksh in I.
  apply (is_RInt_ext (fun t => B true (ksh k s lo) q (s + i) t)); [|exact I].
  intros x _. apply B_ksh.
Qed.
Theorem Aint_continuous_gen (k : nat -> R) (Hk : sorted k) q i M x : x < k (i + M)%nat ->
  Aint k true q i M x = Aint k false q i M x.
Proof.
  intros Hx.
  set (s := S (S q)). set (lo := Rmin (k 0%nat) x - 1).
  assert (Hlo : lo <= k 0%nat) by (unfold lo; pose proof (Rmin_l (k 0%nat) x); lra).
  pose proof (ksh_sorted k Hk s lo Hlo) as HS.
  rewrite <- !(Aint_ksh k s lo). apply (Aint_continuous _ HS). split.
  - unfold ksh, s. destruct (Nat.ltb_spec (S q) (S (S q))); [|lia].
    replace (S (S q) - S q)%nat with 1%nat by lia. cbn [INR]. unfold lo. pose proof (Rmin_r (k 0%nat) x). lra.
  - replace (s + i + M)%nat with (s + (i + M))%nat by lia. rewrite ksh_at. exact Hx.
Qed.

(* ---------- 2b. corollaries: whole support, and the integrals of all functions add up to b - a ---------- *)
Section Corollaries.
Variable k : nat -> R.
Hypothesis Hk : sorted k.

(* a B-spline vanishes at the ends of its support unless the end knot fills the whole support *)
Lemma B_left_end q : forall j, k j < k (j + q)%nat -> B true k q j (k j) = 0.
Proof.
  induction q as [|r IH]; intros j H.
  - rewrite Nat.add_0_r in H. lra.
  - cbn [B]. rewrite w_left. destruct (Rlt_dec (k j) (k (j + 1)%nat)) as [L|L].
    + rewrite (B_support true k Hk r (j + 1) (k j)) by (unfold outside; left; exact L). ring.
    + assert (E1 : k (j + 1)%nat = k j) by (pose proof (Hk j (j + 1)%nat ltac:(lia)); lra).
      rewrite <- E1 at 3. rewrite (IH (j + 1)%nat).
      * ring.
      * replace (j + 1 + r)%nat with (j + S r)%nat by lia. lra.
Qed.
Lemma B_right_end q : forall j, k (j + 1)%nat < k (j + q + 1)%nat -> B false k q j (k (j + q + 1)%nat) = 0.
Proof.
  induction q as [|r IH]; intros j H.
  - rewrite Nat.add_0_r in H. lra.
  - cbn [B]. replace (j + S r + 1)%nat with (j + r + 2)%nat in * by lia.
    rewrite (w_right (k (j + 1)%nat) (k (j + r + 2)%nat)) by exact H.
    destruct (Rlt_dec (k (j + r + 1)%nat) (k (j + r + 2)%nat)) as [L|L].
    + rewrite (B_support false k Hk r j (k (j + r + 2)%nat)) by (unfold outside; right; exact L). ring.
    + assert (E1 : k (j + r + 2)%nat = k (j + r + 1)%nat) by (pose proof (Hk (j + r + 1)%nat (j + r + 2)%nat ltac:(lia)); lra).
      rewrite E1 at 2. rewrite (IH j) by lra. ring.
Qed.

(* partition of unity with a fixed index range *)
Lemma partition_window side q lo len m t : (q <= m)%nat -> (lo <= m - q)%nat -> (S m <= lo + len)%nat ->
  in_span side (k m) (k (S m)) t -> sumf (fun i => B side k q i t) lo len = 1.
Proof.
  intros Hq Hlo Hhi Hs.
  replace len with ((m - q - lo) + (S q + (lo + len - S m)))%nat by lia.
  rewrite !sumf_app.
  rewrite (sumf_zero _ lo (m - q - lo)).
  2:{ intros i Hi. apply B_support; [exact Hk|]. apply (span_out_hi side k Hk m); [exact Hs|lia]. }
  rewrite (sumf_zero _ (lo + (m - q - lo) + S q)).
  2:{ intros i Hi. apply B_support; [exact Hk|]. apply (span_out_lo side k Hk m); [exact Hs|lia]. }
  replace (lo + (m - q - lo))%nat with (m - q)%nat by lia.
  rewrite (partition_unity side k Hk q m t Hq Hs). ring.
Qed.

(* the integral over the whole support (for a basis function with non-empty support) *)
Theorem B_RInt_support q i : k (S q) <= k i -> k i < k (i + S q)%nat ->
  is_RInt (fun t => B true k q i t) (k i) (k (i + S q)%nat) ((k (i + S q)%nat - k i) / INR (S q)).
Proof.
  intros Hd Hlt.
  pose proof (B_RInt k Hk q i (S q) (k i) (k (i + S q)%nat) Hd Hlt (Rle_refl _)) as I.
  apply (is_RInt_val _ _ _ _ _ I). unfold Aint.
  (* right-continuous value at the left end: every term vanishes *)
  rewrite (sumf_zero (fun j => B true k (S q) j (k i))).
  2:{ intros j Hj. destruct (Rlt_dec (k i) (k j)) as [L|L].
      - apply B_support; [exact Hk|]. unfold outside. left. exact L.
      - assert (Ej : k j = k i) by (pose proof (Hk i j ltac:(lia)); lra).
        rewrite <- Ej. apply B_left_end. pose proof (Hk (i + S q)%nat (j + S q)%nat ltac:(lia)). lra. }
  (* left-continuous value at the right end: partition of unity on the span before it *)
  assert (Hiq : (S q < i + S q)%nat) by (apply (sorted_lt_idx k Hk); lra).
  set (c := k (i + S q)%nat) in *.
  destruct (find_span_left k c (i + S q - S q - 1) (S q)) as (m & Hm & Hs).
  { replace (S q + S (i + S q - S q - 1))%nat with (i + S q)%nat by lia.
    fold c. split; [lra|apply Rle_refl]. }
  assert (Him : (i < S m)%nat) by (apply (sorted_lt_idx k Hk); lra).
  assert (P1 : sumf (fun j => B false k (S q) j c) (m - S q) (S (S q)) = 1).
  { apply (partition_window false (S q) _ _ m c); try lia. unfold in_span. exact Hs. }
  assert (Z1 : sumf (fun j => B false k (S q) j c) (m - S q) (i - (m - S q)) = 0).
  { apply sumf_zero. intros j Hj.
    assert (Ec : k (j + S q + 1)%nat = c).
    { pose proof (Hk (S m) (j + S q + 1)%nat ltac:(lia)). pose proof (Hk (j + S q + 1)%nat (i + S q)%nat ltac:(lia)).
      unfold c in *. lra. }
    rewrite <- Ec. apply B_right_end. rewrite Ec.
    pose proof (Hk (j + 1)%nat i ltac:(lia)). lra. }
  assert (Z2 : sumf (fun j => B false k (S q) j c) (S m) (i + S q - S m) = 0).
  { apply sumf_zero. intros j Hj. apply B_support; [exact Hk|]. unfold outside. left.
    pose proof (Hk (S m) j ltac:(lia)). lra. }
  assert (S1 : sumf (fun j => B false k (S q) j c) i (S q) = 1).
  { pose proof (sumf_app (fun j => B false k (S q) j c) i (S m - i) (i + S q - S m)) as A1.
    replace (S m - i + (i + S q - S m))%nat with (S q) in A1 by lia.
    replace (i + (S m - i))%nat with (S m) in A1 by lia. rewrite Z2 in A1.
    pose proof (sumf_app (fun j => B false k (S q) j c) (m - S q) (i - (m - S q)) (S m - i)) as A2.
    replace (i - (m - S q) + (S m - i))%nat with (S (S q)) in A2 by lia.
    replace (m - S q + (i - (m - S q)))%nat with i in A2 by lia.
    rewrite Z1, P1 in A2. lra. }
  rewrite S1. unfold c. ring.
Qed.

Lemma is_RInt_sumf (f : nat -> R -> R) (V : nat -> R) a c : forall n i0,
  (forall i, (i0 <= i < i0 + n)%nat -> is_RInt (f i) a c (V i)) ->
  is_RInt (fun t => sumf (fun i => f i t) i0 n) a c (sumf V i0 n).
Proof.
  induction n as [|n IH]; intros i0 H; cbn [sumf].
  - apply (is_RInt_val _ _ _ _ _ (is_RInt_const_R a c 0)). ring.
  - exact (is_RInt_plus _ _ _ _ _ _ (H i0 ltac:(lia)) (IH (S i0) (fun i Hi => H i ltac:(lia)))).
Qed.

(* the closed forms of all N functions add up to the length of the interval *)
Theorem B_RInt_sum q N a c : k (S q) <= a -> a < c -> c <= k N ->
  sumf (fun i => Aint k false q i (N - i) c - Aint k true q i (N - i) a) 0 N = c - a.
Proof.
  intros Ha Hac Hc.
  assert (I1 : is_RInt (fun t => sumf (fun i => B true k q i t) 0 N) a c
                 (sumf (fun i => Aint k false q i (N - i) c - Aint k true q i (N - i) a) 0 N)).
  { apply (is_RInt_sumf (fun i t => B true k q i t)). intros i Hi. apply B_RInt; try assumption.
    replace (i + (N - i))%nat with N by lia. exact Hc. }
  assert (I2 : is_RInt (fun t => sumf (fun i => B true k q i t) 0 N) a c ((c - a) * 1)).
  { apply (is_RInt_ext (fun _ => 1)); [|apply is_RInt_const_R].
    intros x Hx. rewrite Rmin_left, Rmax_right in Hx by lra. symmetry.
    assert (L1 : (S q < N)%nat) by (apply (sorted_lt_idx k Hk); lra).
    destruct (find_span_right k x (N - S q - 1) (S q)) as (m & Hm & Hs).
    { replace (S q + S (N - S q - 1))%nat with N by lia. lra. }
    apply (partition_window true q 0 N m x); try lia. unfold in_span. exact Hs. }
  rewrite <- (is_RInt_unique _ _ _ _ I1), (is_RInt_unique _ _ _ _ I2). ring.
Qed.
End Corollaries.

(* ---------- 3. the model: BSplineBasis.integrate returns these integrals ---------- *)
From SplipyModel Require Import Model.Num Model.BasisDef Model.BasisEval Model.Tensor Model.Obj Model.Measure
  Proofs.Bridge Proofs.KnotList Proofs.SpanCorrect Proofs.EvaluateSpec Proofs.EvalConsequences
  Proofs.SnapSpec Proofs.SnapChar Proofs.ObjEval Proofs.SeamContinuity.

(* snap() only looks at the set of knot values *)
Lemma snap_case_vals (k k' : list R) tol t r : (forall v, In v k <-> In v k') ->
  snap_case k tol t r -> snap_case k' tol t r.
Proof.
  intros Hv.
  assert (U : forall k1 k2, (forall v, In v k1 <-> In v k2) -> forall y, IsUp k1 t y -> IsUp k2 t y).
  { intros k1 k2 H y (I & G & Mn). split; [apply H, I|]. split; [exact G|]. intros v Iv. apply Mn, H, Iv. }
  assert (D : forall k1 k2, (forall v, In v k1 <-> In v k2) -> forall z, IsDn k1 t z -> IsDn k2 t z).
  { intros k1 k2 H z (I & G & Mn). split; [apply H, I|]. split; [exact G|]. intros v Iv. apply Mn, H, Iv. }
  assert (Hv' : forall v, In v k' <-> In v k) by (intros v; symmetry; apply Hv).
  intros [(y & Uy & N & E1) | [(NU & z & Dz & N & E1) | (NU & ND & E1)]].
  - left. exists y. split; [apply (U k k' Hv), Uy|]. split; assumption.
  - right. left. split. { intros y Uy. apply NU, (U k' k Hv'), Uy. }
    exists z. split; [apply (D k k' Hv), Dz|]. split; assumption.
  - right. right. split. { intros y Uy. apply NU, (U k' k Hv'), Uy. }
    split; [|exact E1]. intros z Dz. apply ND, (D k' k Hv'), Dz.
Qed.
Lemma snap1_vals (k k' : list R) tol t : sorted (@kn R NumR k) -> sorted (@kn R NumR k') ->
  (forall v, In v k <-> In v k') -> @snap1 R NumR k tol t = @snap1 R NumR k' tol t.
Proof.
  intros S1 S2 Hv. apply (snap_case_unique k' tol t); [|apply snap1_case; exact S2].
  apply (snap_case_vals k k' tol t _ Hv). apply snap1_case; exact S1.
Qed.

Lemma skipn_seq' : forall i a m, skipn i (seq a m) = seq (a + i) (m - i).
Proof.
  induction i as [|i IH]; intros a m.
  - rewrite Nat.add_0_r, Nat.sub_0_r. reflexivity.
  - destruct m as [|m]; [reflexivity|]. cbn [seq skipn]. rewrite IH. f_equal; lia.
Qed.
Lemma fold_add_sumf (f : nat -> R) : forall len a z, fold_left Rplus (map f (seq a len)) z = z + sumf f a len.
Proof.
  induction len as [|len IH]; intros a z; cbn [seq map fold_left sumf]; [ring|]. rewrite IH. ring.
Qed.
Lemma tail_sum_sumf (f : nat -> R) m i :
  fold_left Rplus (skipn i (map f (seq 0 m))) 0 = sumf f i (m - i).
Proof. rewrite skipn_map, skipn_seq', fold_add_sumf. cbn [Nat.add]. ring. Qed.
Lemma sumf_pick (f : nat -> R) n c : (c < n)%nat ->
  sumf (fun i => if (i mod n =? c)%nat then f i else 0) 0 n = f c.
Proof.
  intros Hc. rewrite (sumf_ext _ (fun i => if (c =? i)%nat then f c else 0)).
  - apply sumf_indicator. lia.
  - intros i Hi. rewrite Nat.mod_small by lia. rewrite (Nat.eqb_sym c i).
    destruct (Nat.eqb_spec i c) as [->|]; reflexivity.
Qed.

(* the extended knot list of integrate() *)
Definition kext (kl : list R) : list R := hd 0 kl :: kl ++ [last kl 0].

Lemma kext_S kl j : @kn R NumR (kext kl) (S j) = @kn R NumR kl j.
Proof.
  unfold kn, kext. cbn [nth n0 NumR].
  assert (L : last (hd 0 kl :: kl ++ [last kl 0]) 0 = last kl 0).
  { rewrite app_comm_cons. apply last_last. }
  rewrite L. destruct (Nat.lt_ge_cases j (length kl)) as [H|H].
  - apply app_nth1. exact H.
  - rewrite app_nth2 by exact H. rewrite (nth_overflow kl) by exact H.
    destruct (j - length kl)%nat as [|[|x]]; reflexivity.
Qed.
Lemma kext_0 kl : kl <> [] -> @kn R NumR (kext kl) 0 = @kn R NumR kl 0.
Proof. intros H. destruct kl as [|a l]; [contradiction|]. reflexivity. Qed.
Lemma kext_length kl : length (kext kl) = (length kl + 2)%nat.
Proof. unfold kext. cbn [length]. rewrite app_length. cbn [length]. lia. Qed.
Lemma kext_sorted kl : kl <> [] -> sorted (@kn R NumR kl) -> sorted (@kn R NumR (kext kl)).
Proof.
  intros Hne HK i j Hij. destruct i as [|i].
  - rewrite kext_0 by exact Hne. destruct j as [|j]; [rewrite kext_0 by exact Hne; lra|].
    rewrite kext_S. apply HK. lia.
  - destruct j as [|j]; [lia|]. rewrite !kext_S. apply HK. lia.
Qed.
Lemma kext_vals kl : kl <> [] -> forall v, In v (kext kl) <-> In v kl.
Proof.
  intros Hne v. unfold kext. destruct kl as [|a l]; [contradiction|]. cbn [hd].
  split.
  - intros [<- | H]; [left; reflexivity|]. apply in_app_or in H. destruct H as [H|[<-|[]]]; [exact H|].
    apply (@exists_last R) in Hne. destruct Hne as (l' & z & E). rewrite E, last_last. apply in_or_app. right. left. reflexivity.
  - intros H. right. apply in_or_app. left. exact H.
Qed.

(* normalise for a non-periodic basis, from the right: the parameter is kept, the side is switched to the left
   within the tolerance of the end *)
Lemma normalise_nonper (k : list R) P tol t :
  let K := @kn R NumR k in let n_all := (length k - P)%nat in
  0 < tol -> K (P - 1)%nat <= t <= K n_all -> 2 * tol <= K n_all - K (P - 1)%nat ->
  @normalise R NumR k P 0 tol true t = Some (t, negb (Rltb (Rabs (t - K n_all)) tol)).
Proof.
  cbv zeta. intros Htol Ht Hd. unfold normalise. cbv zeta. unfold wrap_t. cbn [Nat.eqb negb].
  rewrite !nabs_R. cbn [nltb nsub NumR].
  destruct (Rltb_spec t (@kn R NumR k (P - 1))) as [A|A]; [lra|].
  destruct (Rltb_spec (@kn R NumR k (length k - P)) t) as [C|C]; [lra|]. cbn [orb].
  destruct (Rltb_spec (Rabs (t - @kn R NumR k (length k - P))) tol) as [E1|E1]; cbn [negb andb].
  - rewrite andb_true_r. destruct (Rltb_spec (Rabs (t - @kn R NumR k (P - 1))) tol) as [S1|S1]; [|reflexivity].
    exfalso. rewrite Rabs_left1 in E1 by lra. rewrite Rabs_right in S1 by lra. lra.
  - rewrite andb_false_r. reflexivity.
Qed.

Section Tie.
Variables (tol : R) (b : basis R).
Hypothesis Hwf : wf_basis_R tol b.
Hypothesis Hper : b_per1 b = 0%nat.
Hypothesis Htol : 0 < tol.
Let kl := b_knots b.
Let p := b_order b.
Let K := @kn R NumR kl.
Let K' := @kn R NumR (kext kl).
Let n := (length kl - p)%nat.
Let st := @b_start R NumR b.
Let en := @b_end R NumR b.

Lemma tie_facts : sorted K /\ (1 <= p)%nat /\ (2 * p <= length kl)%nat /\ (0 < n)%nat /\ 2 * tol <= en - st /\ kl <> [].
Proof.
  destruct Hwf as (A & B1 & C & D & E1). unfold b_nfun in D. rewrite Hper in D.
  repeat split; try assumption; try (unfold n, kl, p; lia).
  intros Hn. fold kl in C. rewrite Hn in C. cbn [length] in C. fold p in B1, C. lia.
Qed.

Lemma K'_start : K' p = st.
Proof. destruct tie_facts as (_ & Hp & _). unfold K', st, b_start. fold kl p. destruct p as [|q]; [lia|]. rewrite kext_S. f_equal. lia. Qed.
Lemma K'_end : K' (S n) = en.
Proof. unfold K', en, b_end. rewrite kext_S. reflexivity. Qed.

(* one evaluation row of the integration basis *)
Definition side_at (t : R) : bool := negb (Rltb (Rabs (t - en)) tol).

Definition sn (t : R) : R := @snap1 R NumR kl tol t.

Lemma row_at t : st <= sn t <= en ->
  let N := hd [] (@basis_evaluate R NumR (kext kl) (S p) 0 tol 0 true [t]) in
  length N = S n /\ forall j, (j < S n)%nat -> nth j N 0 = B (side_at (sn t)) K' p j (sn t).
Proof.
  intros Ht. cbv zeta.
  destruct tie_facts as (HK & Hp & Hlen & Hn & Hd & Hne).
  pose proof (kext_sorted kl Hne HK) as HK'.
  assert (Hlen' : (2 * S p <= length (kext kl))%nat) by (rewrite kext_length; lia).
  assert (En : (length (kext kl) - S p = S n)%nat) by (rewrite kext_length; unfold n; lia).
  pose proof (basis_evaluate_spec (kext kl) (S p) 0 HK' ltac:(lia) Hlen' tol Htol 0 true [t] 0 ltac:(cbn; lia)) as ES.
  cbv zeta in ES. cbn [nth] in ES.
  rewrite (snap1_vals (kext kl) kl tol t HK' HK (kext_vals kl Hne)) in ES. fold (sn t) in ES.
  cbn [Nat.leb] in ES.
  rewrite (normalise_nonper (kext kl) (S p) tol (sn t) Htol) in ES.
  2:{ rewrite En. replace (S p - 1)%nat with p by lia. fold K'. rewrite K'_start, K'_end. exact Ht. }
  2:{ rewrite En. replace (S p - 1)%nat with p by lia. fold K'. rewrite K'_start, K'_end. exact Hd. }
  rewrite En in ES. fold K' in ES. rewrite K'_end in ES. fold (side_at (sn t)) in ES.
  match goal with |- context[hd [] ?l] => assert (EH : hd [] l = nth 0 l []) by (destruct l; reflexivity) end.
  rewrite EH, ES. split.
  - rewrite ref_row_length. lia.
  - intros j Hj. rewrite (ref_row_entry (kext kl) (S p) 0) by lia.
    rewrite En, Nat.sub_0_r. rewrite (sumf_pick (fun i => dB (side_at (sn t)) (@kn R NumR (kext kl)) 0 (S p - 1) i (sn t))) by exact Hj.
    cbn [dB]. replace (S p - 1)%nat with p by lia. reflexivity.
Qed.

(* max(t0, start) and min(t1, end) of integrate() *)
Definition clamp_lo (t : R) : R := if Rltb t st then st else t.
Definition clamp_hi (t : R) : R := if Rltb en t then en else t.

(* the value returned by the model: difference of the closed form at the two clamped and snapped ends *)
Lemma basis_integrate_entry t0 t1 i :
  let a := sn (clamp_lo t0) in let c := sn (clamp_hi t1) in
  st <= a <= en -> st <= c <= en -> (i < n)%nat ->
  nth i (@basis_integrate R NumR tol b t0 t1) 0
  = Aint K' (side_at c) (p - 1) (S i) (n - i) c - Aint K' (side_at a) (p - 1) (S i) (n - i) a.
Proof.
  cbv zeta. intros H0 H1 Hi.
  destruct tie_facts as (HK & Hp & Hlen & Hn & Hd & Hne).
  unfold basis_integrate. cbv zeta. rewrite Hper. cbn [Nat.eqb].
  fold st en kl p. cbn [nltb NumR]. fold (clamp_lo t0) (clamp_hi t1).
  change (hd (@n0 R NumR) kl :: kl ++ [last kl (@n0 R NumR)]) with (kext kl).
  destruct (row_at _ H0) as [L0 E0]. destruct (row_at _ H1) as [L1 E1]. cbv zeta in L0, E0, L1, E1.
  set (N0 := hd [] (@basis_evaluate R NumR (kext kl) (S p) 0 tol 0 true [clamp_lo t0])) in *.
  set (N1 := hd [] (@basis_evaluate R NumR (kext kl) (S p) 0 tol 0 true [clamp_hi t1])) in *.
  rewrite L0. replace (S n - 1)%nat with n by lia.
  rewrite (nth_map_gen _ _ i 0 0%nat) by (rewrite seq_length; exact Hi).
  rewrite seq_nth by exact Hi.
  cbn [nadd nsub nmul ndiv n0 NumR]. rewrite nofnat_R.
  rewrite (tail_sum_sumf (fun j => nth j N1 0 - nth j N0 0) (S n) (1 + i)).
  fold K'. unfold Aint.
  replace (S i + S (p - 1))%nat with (1 + i + p)%nat by lia. replace (S (p - 1)) with p by lia.
  replace (S n - (1 + i))%nat with (n - i)%nat by lia. change (1 + i)%nat with (S i).
  rewrite <- Rmult_minus_distr_l. f_equal. rewrite <- sumf_minus. apply sumf_ext. intros j Hj.
  rewrite E0, E1 by lia. reflexivity.
Qed.

(* the closed form at a point of the domain: value from the left at the end of the domain, from the right elsewhere *)
Definition Afin (i : nat) (t : R) : R :=
  if Req_EM_T t en then Aint K' false (p - 1) (S i) (n - i) t else Aint K' true (p - 1) (S i) (n - i) t.

(* the side chosen by evaluate() (left within the tolerance of the end) does not matter: the closed form is continuous *)
Lemma side_value i t : (i < n)%nat -> st <= t <= en -> Aint K' (side_at t) (p - 1) (S i) (n - i) t = Afin i t.
Proof.
  intros Hi Ht. destruct tie_facts as (HK & Hp & Hlen & Hn & Hd & Hne).
  pose proof (kext_sorted kl Hne HK) as HK'.
  unfold Afin, side_at. destruct (Req_EM_T t en) as [->|Ne].
  - replace (en - en) with 0 by ring. rewrite Rabs_R0. destruct (Rltb_spec 0 tol); [reflexivity|lra].
  - destruct (Rltb_spec (Rabs (t - en)) tol) as [Cl|Far]; cbn [negb]; [|reflexivity].
    symmetry. apply (Aint_continuous K' HK').
    replace (S (p - 1)) with p by lia. replace (S i + (n - i))%nat with (S n) by lia.
    fold K'. rewrite K'_start, K'_end. rewrite Rabs_left1 in Cl by lra. lra.
Qed.

Lemma Afin_RInt i a c : (i < n)%nat -> st <= a -> a < c -> c <= en ->
  is_RInt (fun t => B true K' (p - 1) (S i) t) a c (Afin i c - Afin i a).
Proof.
  intros Hi Ha Hac Hc. destruct tie_facts as (HK & Hp & Hlen & Hn & Hd & Hne).
  pose proof (kext_sorted kl Hne HK) as HK'.
  assert (Es : K' (S (p - 1)) = st) by (replace (S (p - 1)) with p by lia; apply K'_start).
  assert (Ee : K' (S i + (n - i))%nat = en) by (replace (S i + (n - i))%nat with (S n) by lia; apply K'_end).
  pose proof (B_RInt K' HK' (p - 1) (S i) (n - i) a c ltac:(lra) Hac ltac:(lra)) as I.
  apply (is_RInt_val _ _ _ _ _ I). unfold Afin.
  destruct (Req_EM_T a en) as [Ea|_]; [lra|].
  destruct (Req_EM_T c en) as [_|Nc]; [reflexivity|].
  rewrite (Aint_continuous K' HK' (p - 1) (S i) (n - i) c) by lra. reflexivity.
Qed.

(* the basis functions of b are those of the extended knot vector, shifted by one *)
Lemma B_kext q i t : B true K' q (S i) t = B true K q i t.
Proof. rewrite <- B_shift. apply B_ext. intros j _. apply kext_S. Qed.

(* MODEL TIE, general form: every entry of integrate(t0, t1) is the Riemann integral of the corresponding basis
   function between the clamped and snapped parameters (in either order) *)
Theorem basis_integrate_is_RInt_snapped t0 t1 i :
  let a := sn (clamp_lo t0) in let c := sn (clamp_hi t1) in
  st <= a <= en -> st <= c <= en -> (i < n)%nat ->
  is_RInt (fun t => B true K (p - 1) i t) a c (nth i (@basis_integrate R NumR tol b t0 t1) 0).
Proof.
  cbv zeta. intros H0 H1 Hi.
  rewrite (basis_integrate_entry t0 t1 i H0 H1 Hi), !side_value by assumption.
  apply (is_RInt_ext (fun t => B true K' (p - 1) (S i) t)).
  { intros x _. apply B_kext. }
  destruct (Rtotal_order (sn (clamp_lo t0)) (sn (clamp_hi t1))) as [L|[->|G]].
  - apply Afin_RInt; try lra; exact Hi.
  - replace (_ - _) with 0 by ring. apply is_RInt_point_R.
  - apply (is_RInt_val _ _ _ _ _ (is_RInt_swap_R _ _ _ _ (Afin_RInt i (sn (clamp_hi t1)) (sn (clamp_lo t0)) Hi ltac:(lra) G ltac:(lra)))). ring.
Qed.

(* MODEL TIE: parameters inside the domain that the snapping does not move (knots, or at least tol away from every knot) *)
Theorem basis_integrate_is_RInt t0 t1 i : st <= t0 <= en -> st <= t1 <= en ->
  sn t0 = t0 -> sn t1 = t1 -> (i < n)%nat ->
  is_RInt (fun t => B true K (p - 1) i t) t0 t1 (nth i (@basis_integrate R NumR tol b t0 t1) 0).
Proof.
  intros H0 H1 S0 S1 Hi.
  pose proof (basis_integrate_is_RInt_snapped t0 t1 i) as T. cbv zeta in T.
  unfold clamp_lo, clamp_hi in T.
  destruct (Rltb_spec t0 st) as [X|_]; [lra|]. destruct (Rltb_spec en t1) as [X|_]; [lra|].
  rewrite S0, S1 in T. apply T; assumption.
Qed.

Corollary basis_integrate_RInt t0 t1 i : st <= t0 <= en -> st <= t1 <= en ->
  sn t0 = t0 -> sn t1 = t1 -> (i < n)%nat ->
  nth i (@basis_integrate R NumR tol b t0 t1) 0 = RInt (fun t => B true K (p - 1) i t) t0 t1.
Proof. intros. symmetry. apply is_RInt_unique. apply basis_integrate_is_RInt; assumption. Qed.

Lemma basis_integrate_length t0 t1 : st <= sn (clamp_lo t0) <= en ->
  length (@basis_integrate R NumR tol b t0 t1) = n.
Proof.
  intros H0. unfold basis_integrate. cbv zeta. rewrite Hper. cbn [Nat.eqb].
  fold st en kl p. cbn [nltb NumR]. fold (clamp_lo t0).
  change (hd (@n0 R NumR) kl :: kl ++ [last kl (@n0 R NumR)]) with (kext kl).
  destruct (row_at _ H0) as [L0 _]. cbv zeta in L0.
  rewrite map_length, seq_length, L0. lia.
Qed.
End Tie.

(* a parameter at least tol away from every knot is not moved by snap() *)
Lemma snap1_far (k : list R) tol t : sorted (@kn R NumR k) -> (forall v, In v k -> tol <= Rabs (v - t)) ->
  @snap1 R NumR k tol t = t.
Proof.
  intros HK H.
  destruct (snap1_case k tol t HK) as [(y & (Iy & _) & N & _) | [(_ & z & (Iz & _) & N & _) | (_ & _ & E1)]].
  - specialize (H y Iy). unfold near in N. lra.
  - specialize (H z Iz). unfold near in N. lra.
  - exact E1.
Qed.

(* ---------- 4. non-vacuity ---------- *)
Ltac rleb_true := repeat match goal with |- context [Rleb ?a ?b] => destruct (Rleb_spec a b); [|exfalso; lra] end.

(* (a) spec level: the quadratic basis on [0,0,0,1,2,2,2] through the extended knots [0,0,0,0,1,2,2,2,2]; the
   integral over the whole domain [0,2] crosses the knot 1 *)
Example ex_spec_RInt i : (1 <= i <= 4)%nat ->
  let k := @kn R NumR (kext [0; 0; 0; 1; 2; 2; 2]) in
  is_RInt (fun t => B true k 2 i t) 0 2 (Aint k false 2 i (5 - i) 2 - Aint k true 2 i (5 - i) 0).
Proof.
  intros Hi. cbv zeta.
  assert (HK : sorted (@kn R NumR (kext [0; 0; 0; 1; 2; 2; 2]))).
  { apply kn_sorted. cbn [kext hd app last Knots.sorted_list nleb NumR]. rleb_true. reflexivity. }
  apply (B_RInt _ HK 2 i (5 - i) 0 2).
  - unfold kn, kext. cbn [hd app last nth]. lra.
  - lra.
  - replace (i + (5 - i))%nat with 5%nat by lia. unfold kn, kext. cbn [hd app last nth]. lra.
Qed.

(* (b) model level, simple interior knot *)
Definition ex_b3 : basis R := mkBasis 3 [0; 0; 0; 1; 2; 2; 2] 0.
Lemma ex_b3_wf : wf_basis_R (1/100) ex_b3.
Proof.
  unfold wf_basis_R, ex_b3. cbn [b_knots b_order b_per1]. split.
  - apply kn_sorted. cbn [Knots.sorted_list nleb NumR]. rleb_true. reflexivity.
  - unfold b_nfun, b_end, b_start, kn. cbn [b_knots b_order b_per1 length Nat.sub nth].
    split; [lia|split; [lia|split; [lia|lra]]].
Qed.
Example ex_model_RInt i : (i < 4)%nat ->
  is_RInt (fun t => B true (@kn R NumR [0; 0; 0; 1; 2; 2; 2]) 2 i t) (1/2) 2
          (nth i (@basis_integrate R NumR (1/100) ex_b3 (1/2) 2) 0).
Proof.
  intros Hi.
  pose proof ex_b3_wf as W. destruct W as (HK & _).
  apply (basis_integrate_is_RInt (1/100) ex_b3 ex_b3_wf eq_refl ltac:(lra) (1/2) 2 i).
  - unfold b_start, b_end, kn, ex_b3. cbn [b_knots b_order length Nat.sub nth]. lra.
  - unfold b_start, b_end, kn, ex_b3. cbn [b_knots b_order length Nat.sub nth]. lra.
  - unfold sn. apply snap1_far; [exact HK|]. cbn [b_knots ex_b3]. intros v Hv. cbn [In] in Hv.
    destruct Hv as [<-|[<-|[<-|[<-|[<-|[<-|[<-|[]]]]]]]];
      match goal with |- _ <= Rabs ?x => first [rewrite (Rabs_left x) by lra | rewrite (Rabs_right x) by lra] end; lra.
  - unfold sn. cbn [b_knots ex_b3].
    exact (snap1_knot [0; 0; 0; 1; 2; 2; 2] HK (1/100) ltac:(lra) 4 ltac:(cbn; lia)).
  - cbn [b_knots b_order ex_b3 length]. lia.
Qed.

(* (c) model level, an interior knot of full multiplicity (the basis itself jumps at 1): no multiplicity condition *)
Definition ex_b3m : basis R := mkBasis 3 [0; 0; 0; 1; 1; 1; 2; 2; 2] 0.
Lemma ex_b3m_wf : wf_basis_R (1/100) ex_b3m.
Proof.
  unfold wf_basis_R, ex_b3m. cbn [b_knots b_order b_per1]. split.
  - apply kn_sorted. cbn [Knots.sorted_list nleb NumR]. rleb_true. reflexivity.
  - unfold b_nfun, b_end, b_start, kn. cbn [b_knots b_order b_per1 length Nat.sub nth].
    split; [lia|split; [lia|split; [lia|lra]]].
Qed.
Example ex_model_RInt_multiple i : (i < 6)%nat ->
  is_RInt (fun t => B true (@kn R NumR [0; 0; 0; 1; 1; 1; 2; 2; 2]) 2 i t) (1/2) (3/2)
          (nth i (@basis_integrate R NumR (1/100) ex_b3m (1/2) (3/2)) 0).
Proof.
  intros Hi.
  pose proof ex_b3m_wf as W. destruct W as (HK & _).
  assert (Far : forall t, t = 1/2 \/ t = 3/2 -> @snap1 R NumR [0; 0; 0; 1; 1; 1; 2; 2; 2] (1/100) t = t).
  { intros t Ht. apply snap1_far; [exact HK|]. intros v Hv. cbn [In] in Hv.
    destruct Ht as [-> | ->];
    destruct Hv as [<-|[<-|[<-|[<-|[<-|[<-|[<-|[<-|[<-|[]]]]]]]]]];
      match goal with |- _ <= Rabs ?x => first [rewrite (Rabs_left x) by lra | rewrite (Rabs_right x) by lra] end; lra. }
  apply (basis_integrate_is_RInt (1/100) ex_b3m ex_b3m_wf eq_refl ltac:(lra) (1/2) (3/2) i).
  - unfold b_start, b_end, kn, ex_b3m. cbn [b_knots b_order length Nat.sub nth]. lra.
  - unfold b_start, b_end, kn, ex_b3m. cbn [b_knots b_order length Nat.sub nth]. lra.
  - unfold sn. cbn [b_knots ex_b3m]. apply Far. left. reflexivity.
  - unfold sn. cbn [b_knots ex_b3m]. apply Far. right. reflexivity.
  - cbn [b_knots b_order ex_b3m length]. lia.
Qed.

Print Assumptions B_RInt.
Print Assumptions B_RInt_gen.
Print Assumptions Aint_continuous_gen.
Print Assumptions Aint_continuous.
Print Assumptions B_RInt_support.
Print Assumptions B_RInt_sum.
Print Assumptions basis_integrate_is_RInt_snapped.
Print Assumptions basis_integrate_is_RInt.
Print Assumptions basis_integrate_RInt.
Print Assumptions ex_model_RInt_multiple.
