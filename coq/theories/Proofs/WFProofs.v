(* C10: the constructor rejects exactly the malformed knot vectors; shape consistency is an invariant of
   every history of the modelled operations. *)
From Coq Require Import List Arith Reals Lra Lia Bool ZArith.
From SplipyModel Require Import Spec.BSpline Model.Num Model.BasisDef Model.Tensor Model.Obj Model.KnotInsert Model.Reparam
  Model.Affine Model.WF Model.Ops Proofs.TensorLemmas Proofs.EvalConsequences Proofs.TensorApply.
Import ListNotations.
Open Scope R_scope.

(* ---------- constructor ---------- *)
Theorem ctor_spec (tol : R) (p : Z) (k : list R) (per1 : nat) :
  (@basis_ctor R NumR tol p k per1 = Ok (mkBasis (Z.to_nat p) k per1) <->
     ((1 <= p)%Z /\ (2 * Z.to_nat p <= length k)%nat /\
      @ctor_periodic_ok R NumR tol (Z.to_nat p) per1 k = true /\ @ctor_monotone_ok R NumR tol k = true)) /\
  (forall e, @basis_ctor R NumR tol p k per1 = Err e -> e = ValueError).
Proof.
  unfold basis_ctor. split.
  - split.
    + destruct (Z.ltb_spec p 1); [discriminate|]. destruct (Nat.ltb_spec (length k) (2 * Z.to_nat p)); [discriminate|].
      destruct (@ctor_periodic_ok R NumR tol (Z.to_nat p) per1 k); [|discriminate].
      destruct (@ctor_monotone_ok R NumR tol k); [|discriminate]. intros _. repeat split; auto; lia.
    + intros (A & B & C & D). destruct (Z.ltb_spec p 1); [lia|]. destruct (Nat.ltb_spec (length k) (2 * Z.to_nat p)); [lia|].
      rewrite C, D. reflexivity.
  - intros e. destruct (p <? 1)%Z; [congruence|]. destruct (length k <? 2 * Z.to_nat p)%nat; [congruence|].
    destruct (@ctor_periodic_ok R NumR tol (Z.to_nat p) per1 k); [|cbn; congruence].
    destruct (@ctor_monotone_ok R NumR tol k); cbn; congruence.
Qed.

(* the monotonicity test rejects every knot vector with a pair decreasing by more than the tolerance *)
Lemma ctor_monotone_spec (tol : R) (k : list R) :
  @ctor_monotone_ok R NumR tol k = true <->
  forall i, (i < length k - 1)%nat -> - tol <= @kn R NumR k (i + 1) - @kn R NumR k i.
Proof.
  unfold ctor_monotone_ok. rewrite forallb_forall. split.
  - intros H i Hi. specialize (H i ltac:(apply in_seq; lia)). cbn [nltb nsub n0 NumR] in H.
    destruct (Rltb_spec (@kn R NumR k (i + 1) - @kn R NumR k i) (0 - tol)); [discriminate|]. lra.
  - intros H i Hi. apply in_seq in Hi. specialize (H i ltac:(lia)). cbn [nltb nsub n0 NumR].
    destruct (Rltb_spec (@kn R NumR k (i + 1) - @kn R NumR k i) (0 - tol)); [lra|reflexivity].
Qed.

(* ---------- shape invariance ---------- *)
Lemma map_upd {A B} (f : A -> B) (l : list A) d x : map f (upd l d x) = upd (map f l) d (f x).
Proof. revert d; induction l as [|a l IH]; intros d; [reflexivity|]. destruct d; cbn [upd map]; [reflexivity|]. f_equal. apply IH. Qed.
Lemma length_upd {A} (l : list A) d x : length (upd l d x) = length l.
Proof. revert d; induction l as [|a l IH]; intros d; [reflexivity|]. destruct d; cbn [upd length]; [reflexivity|]. f_equal. apply IH. Qed.
Lemma prodl_upd_pos (sh : list nat) d m : (0 < prodl sh)%nat -> (0 < m)%nat -> (0 < prodl (upd sh d m))%nat.
Proof.
  revert d; induction sh as [|a sh IH]; intros d H Hm; [exact H|].
  cbn [prodl fold_right] in *. fold (prodl sh) in *. destruct d; cbn [upd prodl fold_right].
  - fold (prodl sh). nia.
  - fold (prodl (upd sh d m)). assert (0 < prodl sh)%nat by nia. specialize (IH d H0 Hm). nia.
Qed.
Lemma prodl_pos_nth (sh : list nat) d : (0 < prodl sh)%nat -> (d < length sh)%nat -> (0 < nth d sh 0)%nat.
Proof.
  revert d; induction sh as [|a sh IH]; intros d H Hd; [cbn in Hd; lia|].
  cbn [prodl fold_right] in H. fold (prodl sh) in H. destruct d; cbn [nth]; [nia|]. apply IH; [nia|cbn in Hd; lia].
Qed.

Lemma shape_ok_along (o : obj R) d (b' : basis R) (M : list (list R)) :
  @shape_ok R o -> (d < length (o_bases o))%nat -> length M = @b_nfun R b' -> (0 < length M)%nat ->
  @shape_ok R (mkObj (upd (o_bases o) d b') (@apply_dir R NumR (@o_ncomp R o) (@o_shape R o) d M (o_cps o)) (o_dim o) (o_rat o)).
Proof.
  intros (HL & HV & HP) Hd HM HMp. unfold shape_ok, o_shape, o_ncomp in *. cbn [o_bases o_cps o_dim o_rat].
  rewrite map_upd. fold (prodl (map (@b_nfun R) (o_bases o))) in *.
  split; [|split].
  - rewrite length_apply_dir; [rewrite HM; reflexivity|rewrite map_length; exact Hd|exact HL|exact HP].
  - apply Forall_apply_dir. exact HV.
  - fold (prodl (upd (map (@b_nfun R) (o_bases o)) d (@b_nfun R b'))). apply prodl_upd_pos; [exact HP|lia].
Qed.

Lemma length_fold_upd {A} (f : list A -> nat -> A) (g : nat -> nat) (idx : list nat) (l : list A) :
  length (fold_left (fun kk i => upd kk (g i) (f kk i)) idx l) = length l.
Proof. revert l; induction idx as [|i idx IH]; intros l; cbn [fold_left]; [reflexivity|]. rewrite IH, length_upd. reflexivity. Qed.

Lemma basis_insert_knot_shape (b b' : basis R) x C : (0 < @b_nfun R b)%nat ->
  @basis_insert_knot R NumR b x = Ok (b', C) -> length C = @b_nfun R b' /\ (0 < length C)%nat.
Proof.
  intros Hn. unfold basis_insert_knot. destruct (@wrap_knot R NumR b x) as [x'|e]; [|discriminate].
  cbv zeta. destruct (negb _); [discriminate|]. intros [= <- <-].
  unfold mat_of_writes. rewrite map_length, seq_length. unfold b_nfun in *. cbn [b_knots b_order b_per1].
  assert (HL : forall kk : list R, length kk = S (length (b_knots b)) -> (length kk - b_order b - b_per1 b = length (b_knots b) - b_order b - b_per1 b + 1)%nat) by (intros; lia).
  split; [|lia]. symmetry. apply HL.
  assert (Li : length (insert_at (b_knots b) (@py_bisect_right R NumR (b_knots b) x') x') = S (length (b_knots b))).
  { unfold insert_at. rewrite app_length. cbn [length].
    pose proof (f_equal (@length R) (firstn_skipn (@py_bisect_right R NumR (b_knots b) x') (b_knots b))) as E. rewrite app_length in E. lia. }
  destruct (b_per1 b =? 0)%nat; [exact Li|].
  destruct (_ <=? _)%nat; [unfold repair_right; rewrite length_fold_upd; exact Li|].
  destruct (_ <=? _)%nat; [unfold repair_left; rewrite length_fold_upd; exact Li|exact Li].
Qed.

Lemma o_shape_nth (o : obj R) d : (d < length (o_bases o))%nat ->
  nth d (@o_shape R o) 0%nat = @b_nfun R (nth d (o_bases o) (mkBasis 0 [] 0)).
Proof. intros Hd. unfold o_shape. apply (nth_map_gen _ _ d 0%nat (mkBasis 0 [] 0)). exact Hd. Qed.

Lemma insert_knots_shape xs : forall (o o' : obj R) d, @shape_ok R o -> (d < length (o_bases o))%nat ->
  @obj_insert_knots R NumR o d xs = Ok o' -> @shape_ok R o' /\ length (o_bases o') = length (o_bases o).
Proof.
  induction xs as [|x xs IH]; intros o o' d HS Hd; cbn [obj_insert_knots].
  - intros [= <-]. split; [exact HS|reflexivity].
  - destruct (@basis_insert_knot R NumR _ x) as [[b' C]|e] eqn:E; [|discriminate].
    assert (Hn : (0 < @b_nfun R (nth d (o_bases o) (mkBasis 0 [] 0)))%nat).
    { rewrite <- o_shape_nth by exact Hd. destruct HS as (_ & _ & HP). apply prodl_pos_nth; [exact HP|unfold o_shape; rewrite map_length; exact Hd]. }
    destruct (basis_insert_knot_shape _ _ _ _ Hn E) as [HC HCp].
    intros Hrun. apply IH in Hrun.
    + destruct Hrun as [A B]. split; [exact A|]. rewrite B. cbn [o_bases]. apply length_upd.
    + apply shape_ok_along; assumption.
    + cbn [o_bases]. rewrite length_upd. exact Hd.
Qed.

(* control-point-wise maps: the net keeps its length; every point gets the new number of components *)
Lemma shape_ok_map_cps (o : obj R) (f : list R -> list R) (dim' : nat) (rat' : bool) :
  @shape_ok R o -> (forall v : list R, length v = @o_ncomp R o -> length (f v) = (dim' + if rat' then 1 else 0)%nat) ->
  @shape_ok R (mkObj (o_bases o) (map f (o_cps o)) dim' rat').
Proof.
  intros (HL & HV & HP) Hf. unfold shape_ok, o_shape, o_ncomp in *. cbn [o_bases o_cps o_dim o_rat].
  split; [rewrite map_length; exact HL|]. split; [|exact HP].
  apply Forall_forall. intros v Hin. apply in_map_iff in Hin. destruct Hin as (u & <- & Hu).
  rewrite Forall_forall in HV. apply Hf. apply HV. exact Hu.
Qed.

Lemma upd_nth_same {A} (l : list A) d dflt : upd l d (nth d l dflt) = l.
Proof. revert d; induction l as [|a l IH]; intros d; [reflexivity|]. destruct d; cbn [upd nth]; [reflexivity|]. f_equal. apply IH. Qed.

Lemma prodl_pos_iff (l : list nat) : (0 < prodl l)%nat <-> Forall (fun x => 0 < x)%nat l.
Proof.
  induction l as [|a l IH]; cbn [prodl fold_right]; [split; [constructor|lia]|]. fold (prodl l). split.
  - intros H. constructor; [nia|apply IH; nia].
  - intros H. inversion H; subst. apply IH in H3. nia.
Qed.

Lemma Forall_upd {A} (P : A -> Prop) (l : list A) d x : Forall P l -> P x -> Forall P (upd l d x).
Proof.
  revert d; induction l as [|a l IH]; intros d Hl Hx; [constructor|]. inversion Hl; subst.
  destruct d; cbn [upd]; constructor; auto.
Qed.

Lemma pt_set_dim_length (dim newdim : nat) (rat : bool) (v : list R) : length v = (dim + if rat then 1 else 0)%nat ->
  length (@pt_set_dim R NumR dim newdim rat v) = (newdim + if rat then 1 else 0)%nat.
Proof.
  intros Hv. unfold pt_set_dim. cbv zeta. rewrite app_length, skipn_length.
  destruct (Nat.leb_spec dim newdim).
  - rewrite app_length, firstn_length, repeat_length. lia.
  - rewrite !firstn_length. lia.
Qed.

Lemma shape_ok_set_dimension (o : obj R) n : @shape_ok R o -> @shape_ok R (@obj_set_dimension R NumR o n).
Proof.
  intros HS. unfold obj_set_dimension. apply (shape_ok_map_cps o _ n (o_rat o) HS).
  intros v Hv. apply pt_set_dim_length. exact Hv.
Qed.

Lemma bases_set_dimension (o : obj R) n : o_bases (@obj_set_dimension R NumR o n) = o_bases o.
Proof. reflexivity. Qed.

(* C10: one step of any modelled operation keeps the shape consistent and the number of directions *)
Theorem step_preserves_shape (o o' : obj R) (a : @op R) :
  @shape_ok R o -> @step R NumR o a = Ok o' -> @shape_ok R o' /\ length (o_bases o') = length (o_bases o).
Proof.
  intros HS. destruct a as [d xs|d|d1 d2|d s e|x|s|keep|n|]; cbn [step]; unfold o_pardim.
  - (* insert *) destruct (Nat.ltb_spec d (length (o_bases o))) as [Hd|Hd]; [|discriminate].
    intros H. apply (insert_knots_shape xs o o' d HS Hd H).
  - (* reverse *) destruct (Nat.ltb_spec d (length (o_bases o))) as [Hd|Hd]; [|discriminate].
    intros [= <-]. unfold obj_reverse. cbv zeta. split; [|cbn [o_bases]; apply length_upd].
    assert (Hn : (0 < @b_nfun R (nth d (o_bases o) (mkBasis 0 [] 0)))%nat).
    { rewrite <- o_shape_nth by exact Hd. destruct HS as (_ & _ & HP). apply prodl_pos_nth; [exact HP|unfold o_shape; rewrite map_length; exact Hd]. }
    apply shape_ok_along; [exact HS|exact Hd| |].
    + unfold rev_matrix. rewrite map_length, seq_length. unfold basis_reverse, b_nfun. cbn [b_knots b_order b_per1].
      rewrite map_length, rev_length. reflexivity.
    + unfold rev_matrix. rewrite map_length, seq_length. exact Hn.
  - (* swap *) destruct (Nat.ltb_spec d1 (length (o_bases o))) as [H1|H1]; [|discriminate].
    destruct (Nat.ltb_spec d2 (length (o_bases o))) as [H2|H2]; [|discriminate]. cbn [andb].
    intros [= <-]. unfold obj_swap, o_pardim. destruct (length (o_bases o) =? 1)%nat; [split; [exact HS|reflexivity]|].
    cbv zeta. split; [|cbn [o_bases]; unfold swap_idx; rewrite !length_upd; reflexivity].
    destruct HS as (HL & HV & HP). unfold shape_ok, o_shape, o_ncomp in *. cbn [o_bases o_cps o_dim o_rat].
    assert (ES : map (@b_nfun R) (swap_idx (mkBasis 0 [] 0) (o_bases o) d1 d2) = swap_idx 0%nat (map (@b_nfun R) (o_bases o)) d1 d2).
    { unfold swap_idx. rewrite !map_upd. f_equal; [f_equal|];
      symmetry; apply (nth_map_gen _ _ _ 0%nat (mkBasis 0 [] 0)); assumption. }
    rewrite ES. split; [|split].
    + unfold reindex. rewrite map_length, seq_length. reflexivity.
    + unfold reindex. apply Forall_forall. intros v Hin. apply in_map_iff in Hin. destruct Hin as (fl & <- & _).
      destruct (Nat.lt_ge_cases (ravel (map (@b_nfun R) (o_bases o)) (swap_idx 0%nat (unravel (swap_idx 0%nat (map (@b_nfun R) (o_bases o)) d1 d2) fl) d1 d2)) (length (o_cps o))) as [L|L].
      * rewrite Forall_forall in HV. apply HV. apply nth_In. exact L.
      * rewrite nth_overflow by exact L. apply length_vzero.
    + fold (prodl (swap_idx 0%nat (map (@b_nfun R) (o_bases o)) d1 d2)). fold (prodl (map (@b_nfun R) (o_bases o))) in HP.
      apply prodl_pos_iff. apply prodl_pos_iff in HP. unfold swap_idx.
      assert (G : forall d, (d < length (o_bases o))%nat -> (0 < nth d (map (@b_nfun R) (o_bases o)) 0)%nat).
      { intros d Hd. rewrite Forall_forall in HP. apply HP. apply nth_In. rewrite map_length. exact Hd. }
      apply Forall_upd; [apply Forall_upd; [exact HP|apply G; exact H2]|apply G; exact H1].
  - (* reparam *) destruct (Nat.ltb_spec d (length (o_bases o))) as [Hd|Hd]; [|discriminate].
    unfold obj_reparam_dir, basis_reparam. destruct (@nleb R NumR e s); [discriminate|]. intros [= <-].
    split; [|cbn [o_bases]; apply length_upd].
    destruct HS as (HL & HV & HP). unfold shape_ok, o_shape, o_ncomp in *. cbn [o_bases o_cps o_dim o_rat].
    rewrite map_upd.
    assert (En : forall bb : basis R, @b_nfun R (basis_shift (basis_shift (basis_shift (basis_shift bb (fun x => @nsub R NumR x (@b_start R NumR bb))) (fun x => @ndiv R NumR x (@b_end R NumR (basis_shift bb (fun x => @nsub R NumR x (@b_start R NumR bb)))))) (fun x => @nmul R NumR x (@nsub R NumR e s))) (fun x => @nadd R NumR x s)) = @b_nfun R bb).
    { intros bb. unfold basis_shift, b_nfun. cbn [b_knots b_order b_per1]. rewrite !map_length. reflexivity. }
    rewrite En.
    rewrite <- (nth_map_gen (@b_nfun R) (o_bases o) d 0%nat (mkBasis 0 [] 0)) by exact Hd.
    rewrite upd_nth_same. auto.
  - (* translate *) unfold obj_translate. cbv zeta.
    set (o1 := if (o_dim o <? length x)%nat then @obj_set_dimension R NumR o (length x) else o).
    assert (HS1 : @shape_ok R o1) by (unfold o1; destruct (_ <? _)%nat; [apply shape_ok_set_dimension|]; exact HS).
    assert (HB1 : o_bases o1 = o_bases o) by (unfold o1; destruct (_ <? _)%nat; reflexivity).
    destruct (length x <? o_dim o1)%nat; [discriminate|]. intros [= <-]. rewrite <- HB1. split; [|reflexivity].
    unfold map_cps. apply (shape_ok_map_cps o1 _ (o_dim o1) (o_rat o1) HS1).
    intros v Hv. rewrite app_length, map_length, seq_length, skipn_length. unfold o_ncomp in Hv. lia.
  - (* scale *) unfold obj_scale. cbv zeta. destruct (_ <? _)%nat; [discriminate|]. intros [= <-]. split; [|reflexivity].
    unfold map_cps. apply (shape_ok_map_cps o _ (o_dim o) (o_rat o) HS).
    intros v Hv. rewrite app_length, map_length, seq_length, skipn_length. unfold o_ncomp in Hv. lia.
  - (* project *) intros [= <-]. split; [|reflexivity]. unfold obj_project, map_cps.
    apply (shape_ok_map_cps o _ (o_dim o) (o_rat o) HS).
    intros v Hv. rewrite app_length, map_length, seq_length, skipn_length. unfold o_ncomp in Hv. lia.
  - (* set_dimension *) intros [= <-]. split; [apply shape_ok_set_dimension; exact HS|reflexivity].
  - (* force_rational *) intros [= <-]. unfold obj_force_rational. destruct (o_rat o) eqn:Er; [split; [exact HS|reflexivity]|].
    split; [|reflexivity]. apply (shape_ok_map_cps o _ (o_dim o) true HS).
    intros v Hv. rewrite app_length. cbn [length]. unfold o_ncomp in Hv. rewrite Er in Hv. lia.
Qed.

(* every object reachable by any history of the modelled operations is shape consistent *)
Theorem reachable_shape_ok (ops : list (@op R)) : forall (o o' : obj R),
  @shape_ok R o -> @run R NumR o ops = Ok o' -> @shape_ok R o' /\ length (o_bases o') = length (o_bases o).
Proof.
  induction ops as [|a ops IH]; intros o o' HS; cbn [run].
  - intros [= <-]. split; [exact HS|reflexivity].
  - destruct (@step R NumR o a) as [o1|e] eqn:E; [|discriminate].
    destruct (step_preserves_shape o o1 a HS E) as [HS1 HB1]. intros Hr.
    destruct (IH o1 o' HS1 Hr) as [A B]. split; [exact A|congruence].
Qed.
