(* C06, end to end on the model's own functions: [obj_reverse] followed by [obj_eval], non-periodic direction d.

   [obj_eval] always evaluates from the right, except within tol of the END of the domain, where it evaluates from
   the left (normalise).  Reversal t |-> a+b-t exchanges the two one-sided limits.  The two rules compensate each
   other exactly at the two ends of the domain (old object at b from the left = new object at a from the right, and
   old object at a from the right = new object at b from the left), they are irrelevant at parameters that are not
   knot values, and they are irrelevant at knots where the basis functions are continuous (multiplicity <= degree).
   At an interior knot of multiplicity = order the new object returns the limit from the other side of the old
   object, so the statement needs a hypothesis on the d-th parameter t:

     rev_ok t :  every knot value v of direction d has  tol <= |v - t|,  or v is the ONLY knot value closer than tol
                 to t and v is a domain end or a knot where all basis functions are continuous (cont_at).
     (the "only" matters: snap() prefers the upper neighbour, which becomes the lower neighbour after reversal)

     reverse_eval          obj_eval (obj_reverse o d) ts2 = obj_eval o ts   (ts2 = ts with a+b-t in position d)
     reverse_eval_upd      the same with ts2 = upd ts d (a+b-t)
     reverse_eval_clear    corollary: every knot value is at distance >= tol from t or is a domain end (rev_clear)
     reverse_eval_interior corollary: t at distance >= tol from every knot
     reverse_eval_start / reverse_eval_end   corollaries: t = a, t = b
     reverse_eval_knot     corollary: t exactly an interior knot of multiplicity <= degree (cont_at_mult, B_cont_mult)
     reverse_domain        start, end, order, periodicity, number of functions, the other bases; reverse_wf
     reverse_involution_basis / reverse_involution_knots   basis_reverse (basis_reverse b) = b
     rev_rev_row, apply_rev_twice   the reversal matrix applied twice restores the rows / the control net
     reverse_involution    obj_reverse (obj_reverse o d) d = o. *)
From Coq Require Import List Arith Reals Lra Lia Bool ZArith.
From SplipyModel Require Import Spec.BSpline Spec.Continuity Spec.Reparam Model.Num Model.BasisDef Model.BasisEval Model.Tensor Model.Obj Model.KnotInsert Model.Interp Model.Reparam
  Proofs.KnotList Proofs.SpanCorrect Proofs.EvaluateSpec Proofs.EvalConsequences Proofs.SnapSpec Proofs.SnapChar Proofs.TensorLemmas Proofs.ObjEval
  Proofs.InsertMatrix Proofs.TensorApply Proofs.OrderRaise Proofs.InsertEndToEnd Proofs.ChangeDirEval Proofs.RestrictDirEval Proofs.ReparamObj.
Import ListNotations.
Open Scope R_scope.

(* ------------------------------------------------------------------------------------------------ *)
(* the two one-sided B-splines agree at every parameter that is not a knot value *)
Lemma B0_side_indep a b t : a <> t -> b <> t -> B0 true a b t = B0 false a b t.
Proof.
  intros Ha Hb. unfold B0.
  assert (a < t \/ t < a) by (destruct (Rtotal_order a t) as [|[|]]; [left|contradiction|right]; assumption).
  assert (b < t \/ t < b) by (destruct (Rtotal_order b t) as [|[|]]; [left|contradiction|right]; assumption).
  destruct (Rleb_spec a t), (Rltb_spec t b), (Rltb_spec a t), (Rleb_spec t b); cbn; try reflexivity; lra.
Qed.

Lemma B_side_indep (k : nat -> R) t : (forall j, k j <> t) -> forall q i, B true k q i t = B false k q i t.
Proof.
  intros Hne. induction q as [|q IH]; intros i; cbn [B].
  - apply B0_side_indep; apply Hne.
  - rewrite !IH. reflexivity.
Qed.

(* the two one-sided B-splines of degree q agree at a knot of multiplicity r <= q (all r copies K(m+1) .. K(m+r)) *)
Lemma B_cont_mult (K : nat -> R) (HK : sorted K) m r q : (1 <= r)%nat -> (r <= q)%nat -> (q <= m)%nat ->
  K m < K (S m) -> K (S m) = K (m + r)%nat -> K (m + r)%nat < K (S (m + r)) ->
  forall i, B true K q i (K (S m)) = B false K q i (K (S m)).
Proof.
  intros Hr Hrq Hqm Hlo Heq Hhi i. set (x := K (S m)) in *.
  assert (Hx : forall j, (1 <= j <= r)%nat -> K (m + j)%nat = x).
  { intros j Hj. pose proof (HK (S m) (m + j)%nat ltac:(lia)) as A1. pose proof (HK (m + j)%nat (m + r)%nat ltac:(lia)) as A2. fold x in A1. lra. }
  rewrite (B_is_P true K HK (m + r) x) by (unfold in_span; rewrite <- Heq; lra).
  rewrite (B_is_P false K HK m x) by (unfold in_span; fold x; lra).
  assert (Chain : forall j, (j <= r)%nat -> P K (m + j) q i x = P K m q i x).
  { induction j as [|j IHj]; intros Hj; [rewrite Nat.add_0_r; reflexivity|].
    rewrite <- IHj by lia. rewrite <- (Hx (S j)) by lia. replace (m + S j)%nat with (S (m + j)) by lia.
    apply pieces_agree; [exact HK|lia|].
    destruct (repb K (m + j) q) eqn:Rb; [exfalso|reflexivity].
    pose proof (repb_spec K (m + j) q Rb m ltac:(lia)) as E.
    pose proof (Hx (S j) ltac:(lia)) as E2. replace (m + S j)%nat with (S (m + j)) in E2 by lia. rewrite E2 in E. lra. }
  apply Chain. lia.
Qed.

Lemma kn_In_any (k : list R) i : k <> [] -> In (@kn R NumR k i) k.
Proof.
  intros Hne. destruct (Nat.lt_ge_cases i (length k)) as [L|L]; [apply kn_In'; exact L|].
  rewrite kn_out by exact L. destruct k as [|x k]; [congruence|]. clear. revert x. induction k as [|y k IH]; intros x; [left; reflexivity|].
  right. apply IH.
Qed.

Lemma Brow_nth' side (k : list R) pp t i : (i < length k - pp)%nat -> nth i (Brow side k pp t) 0 = B side (@kn R NumR k) (pp - 1) i t.
Proof. intros Hi. unfold Brow. rewrite (nth_map_gen _ _ i 0 0%nat) by (rewrite seq_length; lia). rewrite seq_nth by lia. reflexivity. Qed.

(* ------------------------------------------------------------------------------------------------ *)
(* the reversed knot vector *)
Lemma last_rev {A} (l : list A) d : last (rev l) d = hd d l.
Proof. destruct l as [|x l]; [reflexivity|]. cbn [rev hd]. apply last_last. Qed.

Lemma kn_rev (k : list R) j : k <> [] -> @kn R NumR (rev k) j = @kn R NumR k (length k - 1 - j).
Proof.
  intros Hne. unfold kn. destruct (Nat.lt_ge_cases j (length k)) as [L|L].
  - rewrite rev_nth by exact L. replace (length k - S j)%nat with (length k - 1 - j)%nat by lia.
    apply nth_indep. lia.
  - rewrite nth_overflow by (rewrite rev_length; exact L). rewrite last_rev.
    replace (length k - 1 - j)%nat with 0%nat by lia. destruct k; [congruence|reflexivity].
Qed.

Definition rknots (a e : R) (k : list R) : list R := map (fun x => a + e - x) (rev k).

Lemma rknots_length a e k : length (rknots a e k) = length k.
Proof. unfold rknots. rewrite map_length, rev_length. reflexivity. Qed.

Lemma basis_reverse_eq (b : basis R) : @b_start R NumR b < @b_end R NumR b ->
  @basis_reverse R NumR b = mkBasis (b_order b) (rknots (@b_start R NumR b) (@b_end R NumR b) (b_knots b)) (b_per1 b).
Proof.
  intros H. unfold basis_reverse, rknots. cbv zeta. f_equal. apply map_ext. intros x.
  cbn [nadd nsub nmul ndiv NumR]. field. lra.
Qed.

Section RevBasis.
Variable k : list R.
Variables (p : nat) (tol : R).
Hypothesis HK : sorted (@kn R NumR k).
Hypothesis Hp : (1 <= p)%nat.
Hypothesis Hlen : (2 * p <= length k)%nat.
Hypothesis Htol : 0 < tol.
Local Notation L := (length k).
Local Notation a := (@kn R NumR k (p - 1)).
Local Notation e := (@kn R NumR k (length k - p)).
Hypothesis Hw : 2 * tol <= e - a.
Local Notation k' := (rknots a e k).

Lemma rk_ne : k <> [].
Proof. destruct k; [cbn in Hlen; lia|discriminate]. Qed.

Lemma rk_len : length k' = L.
Proof. unfold rknots. rewrite map_length, rev_length. reflexivity. Qed.

Lemma rk_kn j : @kn R NumR k' j = kr (@kn R NumR k) L a e j.
Proof.
  unfold rknots. rewrite kn_map by (intros E; apply (f_equal (@length R)) in E; rewrite rev_length in E; pose proof rk_ne; destruct k; [congruence|cbn in E; lia]).
  rewrite kn_rev by exact rk_ne. reflexivity.
Qed.

Lemma rk_sorted : sorted (@kn R NumR k').
Proof. intros i j Hij. rewrite !rk_kn. unfold kr. pose proof (HK (L - 1 - j)%nat (L - 1 - i)%nat ltac:(lia)). lra. Qed.

Lemma rk_start : @kn R NumR k' (p - 1) = a.
Proof. rewrite rk_kn. unfold kr. replace (L - 1 - (p - 1))%nat with (L - p)%nat by lia. ring. Qed.

Lemma rk_end : @kn R NumR k' (length k' - p) = e.
Proof. rewrite rk_len, rk_kn. unfold kr. replace (L - 1 - (L - p))%nat with (p - 1)%nat by lia. ring. Qed.

Lemma rk_in v : In v k' <-> exists u, In u k /\ v = a + e - u.
Proof.
  unfold rknots. rewrite in_map_iff. split.
  - intros (u & E & Hu). exists u. split; [apply in_rev; exact Hu|symmetry; exact E].
  - intros (u & Hu & E). exists u. split; [symmetry; exact E|apply in_rev in Hu; exact Hu].
Qed.

Lemma a_in : In a k. Proof. apply kn_In'. lia. Qed.
Lemma e_in : In e k. Proof. apply kn_In'. lia. Qed.

(* the row of all basis values of the reversed basis at a+e-s is the reversed row of the old basis at s, other side *)
Lemma Brow_rev side s : Brow side k' p (a + e - s) = rev (Brow (negb side) k p s).
Proof.
  apply (nth_ext _ _ 0 0).
  - rewrite rev_length. unfold Brow. rewrite !map_length, !seq_length, rk_len. reflexivity.
  - intros i Hi. unfold Brow at 1 in Hi. rewrite map_length, seq_length, rk_len in Hi.
    rewrite Brow_nth' by (rewrite rk_len; exact Hi).
    rewrite rev_nth by (unfold Brow; rewrite map_length, seq_length; exact Hi).
    assert (EL : length (Brow (negb side) k p s) = (L - p)%nat) by (unfold Brow; rewrite map_length, seq_length; reflexivity).
    rewrite EL. rewrite Brow_nth' by lia.
    rewrite (B_ext side (@kn R NumR k') (kr (@kn R NumR k) L a e)) by (intros j _; apply rk_kn).
    rewrite (reverse_basis (@kn R NumR k) HK L a e side (p - 1) i s) by lia.
    f_equal. lia.
Qed.

(* continuity of the basis functions of direction d at x: the two one-sided values agree *)
Definition cont_at (x : R) : Prop :=
  forall i, (i < L - p)%nat -> B true (@kn R NumR k) (p - 1) i x = B false (@kn R NumR k) (p - 1) i x.

(* the parameter: every knot value v is at distance >= tol from t, or it is the ONLY knot value closer than tol to t
   and it is a domain end or a knot where the basis functions are continuous *)
Definition good (v : R) : Prop := v = a \/ v = e \/ cont_at v.
Definition rev_ok (t : R) : Prop := forall v, In v k ->
  tol <= Rabs (v - t) \/ (good v /\ forall u, In u k -> u = v \/ tol <= Rabs (u - t)).

(* the simple sufficient condition: the only knots t may be near to are the two domain ends *)
Definition rev_clear (t : R) : Prop := forall v, In v k -> tol <= Rabs (v - t) \/ v = a \/ v = e.

Lemma rev_clear_ok t : rev_clear t -> rev_ok t.
Proof.
  intros HC v Hv. destruct (Rle_dec tol (Rabs (v - t))) as [F|NF]; [left; exact F|right].
  destruct (HC v Hv) as [F|Q]; [contradiction|]. split; [destruct Q as [Q|Q]; [left; exact Q|right; left; exact Q]|].
  intros u Hu. destruct (HC u Hu) as [F|Qu]; [right; exact F|].
  assert (NF' : Rabs (v - t) < tol) by lra. apply Rabs_def2 in NF'.
  destruct Q as [Q|Q]; destruct Qu as [Qu|Qu]; subst u v; try (left; reflexivity); right.
  - rewrite Rabs_right by lra. lra.
  - rewrite Rabs_left by lra. lra.
Qed.

Lemma snap_dich (kk : list R) (G : R -> Prop) t : sorted (@kn R NumR kk) ->
  (forall v, In v kk -> tol <= Rabs (v - t) \/ (G v /\ forall u, In u kk -> u = v \/ tol <= Rabs (u - t))) ->
  let s := @snap1 R NumR kk tol t in
  (s = t /\ forall v, In v kk -> tol <= Rabs (v - t)) \/
  (In s kk /\ Rabs (s - t) < tol /\ G s /\ forall u, In u kk -> u = s \/ tol <= Rabs (u - t)).
Proof.
  intros HKK HC. cbv zeta.
  destruct (snap1_spec kk HKK tol Htol t) as [(i & Hi & E & N)|[E N]]; cbv zeta in *.
  - right. rewrite E. destruct (HC _ (kn_In' kk i Hi)) as [F|[HG HU]]; [lra|].
    split; [apply kn_In'; exact Hi|]. split; [exact N|]. split; assumption.
  - left. split; [exact E|]. intros v Hv. destruct (In_nth kk v 0 Hv) as (j & Hj & Ej).
    rewrite <- (kn_in kk j Hj 0) in Ej. specialize (N j Hj). rewrite Ej in N. lra.
Qed.

Definition good' (v : R) : Prop := good (a + e - v).

Lemma rev_ok_new t : rev_ok t -> forall v, In v k' ->
  tol <= Rabs (v - (a + e - t)) \/ (good' v /\ forall u, In u k' -> u = v \/ tol <= Rabs (u - (a + e - t))).
Proof.
  intros HC v Hv. apply rk_in in Hv. destruct Hv as (u & Hu & ->).
  assert (D : forall w, Rabs (a + e - w - (a + e - t)) = Rabs (w - t)).
  { intros w. replace (a + e - w - (a + e - t)) with (- (w - t)) by ring. apply Rabs_Ropp. }
  rewrite D. destruct (HC u Hu) as [F|[HG HU]]; [left; exact F|right]. split.
  - unfold good'. replace (a + e - (a + e - u)) with u by ring. exact HG.
  - intros w Hw2. apply rk_in in Hw2. destruct Hw2 as (u2 & Hu2 & ->). rewrite D.
    destruct (HU u2 Hu2) as [Q|F]; [left; rewrite Q; reflexivity|right; exact F].
Qed.

Section Param.
Variable t : R.
Hypothesis HC : rev_ok t.
Hypothesis Hin : a <= @snap1 R NumR k tol t <= e.
Local Notation s := (@snap1 R NumR k tol t).
Local Notation s' := (@snap1 R NumR k' tol (a + e - t)).

(* snapping commutes with the reversal *)
Lemma snap_rev : s' = a + e - s.
Proof.
  pose proof (snap_dich k good t HK HC) as T1. cbv zeta in T1.
  pose proof (snap_dich k' good' (a + e - t) rk_sorted (rev_ok_new t HC)) as T2. cbv zeta in T2.
  assert (D : forall w, Rabs (a + e - w - (a + e - t)) = Rabs (w - t)).
  { intros w. replace (a + e - w - (a + e - t)) with (- (w - t)) by ring. apply Rabs_Ropp. }
  set (x := s) in *. set (y := s') in *. clearbody x y.
  destruct T1 as [[E1 F1]|(I1 & N1 & G1 & U1)]; destruct T2 as [[E2 F2]|(I2 & N2 & G2 & U2)].
  - rewrite E1, E2. reflexivity.
  - exfalso. apply rk_in in I2. destruct I2 as (u & Hu & ->). rewrite D in N2. specialize (F1 u Hu). lra.
  - exfalso. assert (I : In (a + e - x) k') by (apply rk_in; exists x; split; [exact I1|reflexivity]).
    specialize (F2 _ I). rewrite D in F2. lra.
  - apply rk_in in I2. destruct I2 as (u & Hu & ->). rewrite D in N2.
    destruct (U1 u Hu) as [Q|F]; [rewrite Q; reflexivity|lra].
Qed.

(* the side decided by normalise, old and new *)
Lemma norm_old : @normalise R NumR k p 0 tol true s = Some (s, if Rltb (Rabs (s - e)) tol then false else true).
Proof. apply normalise_nonper_true; [exact Htol|exact Hw|exact Hin]. Qed.

Lemma norm_new : @normalise R NumR k' p 0 tol true (a + e - s) = Some (a + e - s, if Rltb (Rabs (s - a)) tol then false else true).
Proof.
  rewrite normalise_nonper_true; [|exact Htol|rewrite rk_start, rk_end; exact Hw|rewrite rk_start, rk_end; lra].
  rewrite rk_end. replace (a + e - s - e) with (- (s - a)) by ring. rewrite Rabs_Ropp. reflexivity.
Qed.

(* the rows of basis values used by obj_eval *)
Theorem basis_row_reverse :
  @basis_row R NumR tol (mkBasis p k' 0) 0 true s' = rev (@basis_row R NumR tol (mkBasis p k 0) 0 true s).
Proof.
  rewrite (basis_row_nonper tol k' p _ rk_sorted Hp ltac:(rewrite rk_len; exact Hlen) Htol).
  rewrite (basis_row_nonper tol k p _ HK Hp Hlen Htol).
  rewrite (snap1_idem k' rk_sorted tol Htol), (snap1_idem k HK tol Htol).
  rewrite snap_rev, norm_old, norm_new. rewrite Brow_rev. f_equal.
  pose proof (snap_dich k good t HK HC) as T1. cbv zeta in T1.
  destruct T1 as [[E1 F1]|(I1 & N1 & [Q|[Q|Q]] & U1)].
  - (* not a knot value: both sides agree *)
    pose proof (F1 a a_in) as Fa. pose proof (F1 e e_in) as Fe. rewrite E1.
    rewrite <- (Rabs_Ropp (t - a)) , <- (Rabs_Ropp (t - e)).
    replace (- (t - a)) with (a - t) by ring. replace (- (t - e)) with (e - t) by ring.
    destruct (Rltb_spec (Rabs (a - t)) tol); [lra|]. destruct (Rltb_spec (Rabs (e - t)) tol); [lra|]. cbn [negb].
    apply (nth_ext _ _ 0 0); [unfold Brow; rewrite !map_length; reflexivity|].
    intros i Hi. unfold Brow in Hi. rewrite map_length, seq_length in Hi. rewrite !Brow_nth' by exact Hi.
    symmetry. apply B_side_indep. intros j Q.
    pose proof (F1 _ (kn_In_any k j rk_ne)) as F. rewrite Q in F. replace (t - t) with 0 in F by ring. rewrite Rabs_R0 in F. lra.
  - (* the start of the domain: old from the right, new (at the end) from the left *)
    rewrite Q. replace (a - a) with 0 by ring. rewrite Rabs_R0.
    destruct (Rltb_spec 0 tol); [|lra]. cbn [negb].
    destruct (Rltb_spec (Rabs (a - e)) tol) as [X|X]; [|reflexivity].
    apply Rabs_def2 in X. lra.
  - (* the end of the domain: old from the left, new (at the start) from the right *)
    rewrite Q. replace (e - e) with 0 by ring. rewrite Rabs_R0.
    destruct (Rltb_spec 0 tol); [|lra].
    destruct (Rltb_spec (Rabs (e - a)) tol) as [X|X]; [|reflexivity].
    apply Rabs_def2 in X. lra.
  - (* a knot where the basis functions are continuous: the sides do not matter *)
    assert (EB : Brow true k p s = Brow false k p s).
    { apply (nth_ext _ _ 0 0); [unfold Brow; rewrite !map_length; reflexivity|].
      intros i Hi. unfold Brow in Hi. rewrite map_length, seq_length in Hi. rewrite !Brow_nth' by exact Hi. apply Q. exact Hi. }
    destruct (Rltb (Rabs (s - a)) tol), (Rltb (Rabs (s - e)) tol); cbn [negb];
      first [reflexivity | exact EB | symmetry; exact EB].
Qed.

Lemma snap_rev_dom : a <= s' <= e.
Proof. rewrite snap_rev. lra. Qed.
End Param.
End RevBasis.

(* continuity holds at every knot whose multiplicity is at most the degree: K(m) < K(m+1) = ... = K(m+r) < K(m+r+1),
   r <= p-1 (for a domain knot, m >= p-1 automatically) *)
Lemma cont_at_mult (k : list R) p m r : sorted (@kn R NumR k) ->
  (1 <= r)%nat -> (r <= p - 1)%nat -> (p - 1 <= m)%nat ->
  @kn R NumR k m < @kn R NumR k (S m) -> @kn R NumR k (S m) = @kn R NumR k (m + r) ->
  @kn R NumR k (m + r) < @kn R NumR k (S (m + r)) ->
  cont_at k p (@kn R NumR k (S m)).
Proof. intros HK Hr Hrq Hqm Hlo Heq Hhi i _. apply (B_cont_mult (@kn R NumR k) HK m r (p - 1)); assumption. Qed.

(* ------------------------------------------------------------------------------------------------ *)
(* object level *)
Section RevObj.
Variable tol : R.
Hypothesis Htol : 0 < tol.
Variable o : obj R.
Hypothesis Hwf : wf_obj_R tol o.
Variable d : nat.
Hypothesis Hd : (d < length (o_bases o))%nat.
Local Notation bd := (nth d (o_bases o) dflt_basis).
Hypothesis Hper : b_per1 bd = 0%nat.
Local Notation k := (b_knots bd).
Local Notation p := (b_order bd).
Local Notation a := (@b_start R NumR bd).
Local Notation e := (@b_end R NumR bd).
Local Notation k' := (rknots a e k).
Local Notation b' := (@mkBasis R p k' 0).
Local Notation o' := (@obj_reverse R NumR o d).

Lemma rv_bd_wf : sorted (@kn R NumR k) /\ (1 <= p)%nat /\ (2 * p <= length k)%nat /\ (0 < @b_nfun R bd)%nat /\ 2 * tol <= e - a.
Proof. exact (bd_wf tol o Hwf d Hd). Qed.
Lemma rv_bd_eq : bd = mkBasis p k 0.
Proof. destruct bd as [pp kk per] eqn:E. cbn [b_per1 b_order b_knots] in *. rewrite Hper. reflexivity. Qed.
Lemma rv_ae : a < e.
Proof. destruct rv_bd_wf as (_ & _ & _ & _ & Hw). lra. Qed.

Lemma rvk_sorted : sorted (@kn R NumR k').
Proof. destruct rv_bd_wf as (HK & Hp & Hlen & Hn & Hw). exact (rk_sorted k p tol HK Hp Hlen Hw). Qed.
Lemma rvk_start : @b_start R NumR b' = a.
Proof. destruct rv_bd_wf as (HK & Hp & Hlen & Hn & Hw). exact (rk_start k p tol HK Hp Hlen Hw). Qed.
Lemma rvk_end : @b_end R NumR b' = e.
Proof. destruct rv_bd_wf as (HK & Hp & Hlen & Hn & Hw). exact (rk_end k p tol HK Hp Hlen Hw). Qed.
Lemma rvk_kn j : @kn R NumR k' j = a + e - @kn R NumR k (length k - 1 - j).
Proof. destruct rv_bd_wf as (HK & Hp & Hlen & Hn & Hw). exact (rk_kn k p tol HK Hp Hlen Hw j). Qed.

Lemma rv_row_bd x : @basis_row R NumR tol bd 0 true x = @basis_row R NumR tol (mkBasis p k 0) 0 true x.
Proof. unfold basis_row. cbn [b_knots b_order b_per1]. rewrite Hper. reflexivity. Qed.

Lemma rv_basis : @basis_reverse R NumR bd = b'.
Proof. rewrite (basis_reverse_eq bd rv_ae). rewrite Hper. reflexivity. Qed.

Lemma rv_obj : o' = mkObj (upd (o_bases o) d b')
    (@apply_dir R NumR (@o_ncomp R o) (@o_shape R o) d (@rev_matrix R NumR (@b_nfun R bd) 0) (o_cps o)) (o_dim o) (o_rat o).
Proof. unfold obj_reverse. cbv zeta. change (mkBasis 0 [] 0) with dflt_basis. rewrite rv_basis, Hper. reflexivity. Qed.

Lemma rv_nth_bases i : nth i (o_bases o') dflt_basis = if Nat.eq_dec i d then b' else nth i (o_bases o) dflt_basis.
Proof.
  rewrite rv_obj. cbn [o_bases].
  destruct (Nat.eq_dec i d) as [->|Hne]; [apply upd_nth_same; exact Hd|apply upd_nth_other; exact Hne].
Qed.
Lemma rv_len_bases : length (o_bases o') = length (o_bases o).
Proof. rewrite rv_obj. cbn [o_bases]. apply upd_length. Qed.

Lemma rv_nfun : @b_nfun R b' = @b_nfun R bd.
Proof. unfold b_nfun. cbn [b_knots b_order b_per1]. rewrite rknots_length, Hper. reflexivity. Qed.

(* C06: domain, order, periodicity and the other directions are unchanged *)
Theorem reverse_domain :
  @b_start R NumR (nth d (o_bases o') dflt_basis) = a /\
  @b_end R NumR (nth d (o_bases o') dflt_basis) = e /\
  b_order (nth d (o_bases o') dflt_basis) = p /\
  b_per1 (nth d (o_bases o') dflt_basis) = b_per1 bd /\
  @b_nfun R (nth d (o_bases o') dflt_basis) = @b_nfun R bd /\
  length (o_bases o') = length (o_bases o) /\
  (forall i, i <> d -> nth i (o_bases o') dflt_basis = nth i (o_bases o) dflt_basis) /\
  (forall j, @kn R NumR (b_knots (nth d (o_bases o') dflt_basis)) j = a + e - @kn R NumR k (length k - 1 - j)) /\
  o_dim o' = o_dim o /\ o_rat o' = o_rat o.
Proof.
  destruct rv_bd_wf as (HK & Hp & Hlen & Hn & Hw).
  rewrite rv_nth_bases. destruct (Nat.eq_dec d d) as [_|N]; [|congruence].
  split; [exact rvk_start|]. split; [exact rvk_end|].
  split; [reflexivity|]. split; [symmetry; exact Hper|]. split; [exact rv_nfun|]. split; [exact rv_len_bases|].
  split; [intros i Hi; rewrite rv_nth_bases; destruct (Nat.eq_dec i d); [congruence|reflexivity]|].
  split; [intros j; cbn [b_knots]; apply rvk_kn|].
  rewrite rv_obj. split; reflexivity.
Qed.

Lemma upd_map {A B} (f : A -> B) l i v : map f (upd l i v) = upd (map f l) i (f v).
Proof. revert i. induction l as [|x l IH]; intros i; [destruct i; reflexivity|]. destruct i; cbn [upd map]; [reflexivity|]. f_equal. apply IH. Qed.
Lemma upd_same_id {A} (l : list A) i dflt : upd l i (nth i l dflt) = l.
Proof. revert i. induction l as [|x l IH]; intros i; [destruct i; reflexivity|]. destruct i; cbn [upd nth]; [reflexivity|]. f_equal. apply IH. Qed.

Lemma rv_shape : @o_shape R o' = @o_shape R o.
Proof.
  rewrite rv_obj. unfold o_shape. cbn [o_bases]. rewrite upd_map, rv_nfun.
  rewrite <- (map_nth (@b_nfun R) (o_bases o) dflt_basis d).
  rewrite (nth_indep _ _ 0%nat) by (rewrite map_length; exact Hd). apply upd_same_id.
Qed.

Lemma rev_matrix_len n : length (@rev_matrix R NumR n 0) = n.
Proof. unfold rev_matrix. rewrite map_length, seq_length. reflexivity. Qed.

Theorem reverse_wf : wf_obj_R tol o'.
Proof.
  destruct Hwf as (HB & HV & HL). destruct rv_bd_wf as (HK & Hp & Hlen & Hn & Hw).
  split; [|split].
  - apply Forall_forall. intros b Hb. destruct (In_nth _ _ dflt_basis Hb) as (i & Hi & <-). rewrite rv_len_bases in Hi.
    rewrite rv_nth_bases. destruct (Nat.eq_dec i d) as [->|_].
    + split; [exact rvk_sorted|]. split; [exact Hp|]. split; [cbn [b_knots b_order]; rewrite rknots_length; exact Hlen|].
      split; [rewrite rv_nfun; exact Hn|].
      rewrite rvk_start, rvk_end. exact Hw.
    + rewrite Forall_forall in HB. apply HB, nth_In, Hi.
  - replace (@o_ncomp R o') with (@o_ncomp R o) by (rewrite rv_obj; reflexivity).
    rewrite rv_obj. cbn [o_cps]. apply Forall_apply_dir. exact HV.
  - rewrite rv_shape. rewrite rv_obj. cbn [o_cps].
    rewrite length_apply_dir; [|unfold o_shape; rewrite map_length; exact Hd|exact HL|exact (cd_pos tol o Hwf)].
    rewrite rev_matrix_len. f_equal. unfold o_shape.
    rewrite <- (map_nth (@b_nfun R) (o_bases o) dflt_basis d).
    rewrite (nth_indep _ _ 0%nat) by (rewrite map_length; exact Hd). apply upd_same_id.
Qed.

(* ---------- evaluation ---------- *)
Variables ts ts2 : list R.
Hypothesis Hdom : forall i, (i < length (o_bases o))%nat -> in_dom tol (nth i (o_bases o) dflt_basis) (nth i ts 0).
Local Notation td := (nth d ts 0).
Hypothesis Hclear : rev_ok k p tol td.
Hypothesis Hts2d : nth d ts2 0 = a + e - td.
Hypothesis Hts2o : forall i, i <> d -> nth i ts2 0 = nth i ts 0.

Lemma rv_in : a <= @snap1 R NumR k tol td <= e.
Proof. apply (Hdom d Hd Hper). Qed.

Lemma rv_dom_new : forall i, (i < length (o_bases o'))%nat -> in_dom tol (nth i (o_bases o') dflt_basis) (nth i ts2 0).
Proof.
  destruct rv_bd_wf as (HK & Hp & Hlen & Hn & Hw).
  intros i Hi. rewrite rv_len_bases in Hi. rewrite rv_nth_bases. destruct (Nat.eq_dec i d) as [->|Hne].
  - intros _. rewrite rvk_start, rvk_end, Hts2d. cbn [b_knots].
    exact (snap_rev_dom k p tol HK Hp Hlen Htol Hw td Hclear rv_in).
  - rewrite Hts2o by exact Hne. apply Hdom. exact Hi.
Qed.

Local Notation ts' := (map (fun i => @snap1 R NumR (b_knots (nth i (o_bases o) dflt_basis)) tol (nth i ts 0)) (seq 0 (length (o_bases o)))).
Local Notation ts2' := (map (fun i => @snap1 R NumR (b_knots (nth i (o_bases o') dflt_basis)) tol (nth i ts2 0)) (seq 0 (length (o_bases o')))).
Local Notation rows := (@rows_at R NumR tol (o_bases o) [] [] ts').
Local Notation rows' := (@rows_at R NumR tol (o_bases o') [] [] ts2').

Lemma rv_ts'_nth i : (i < length (o_bases o))%nat -> nth i ts' 0 = @snap1 R NumR (b_knots (nth i (o_bases o) dflt_basis)) tol (nth i ts 0).
Proof. intros Hi. rewrite (nth_map_gen _ _ i 0 0%nat) by (rewrite seq_length; exact Hi). rewrite seq_nth by exact Hi. reflexivity. Qed.
Lemma rv_ts2'_nth i : (i < length (o_bases o))%nat -> nth i ts2' 0 = @snap1 R NumR (b_knots (nth i (o_bases o') dflt_basis)) tol (nth i ts2 0).
Proof. intros Hi. rewrite (nth_map_gen _ _ i 0 0%nat) by (rewrite seq_length, rv_len_bases; exact Hi). rewrite seq_nth by (rewrite rv_len_bases; exact Hi). reflexivity. Qed.

Lemma rv_rows' : rows' = upd rows d (rev (nth d rows [])).
Proof.
  destruct rv_bd_wf as (HK & Hp & Hlen & Hn & Hw).
  apply (nth_ext _ _ [] []).
  - rewrite upd_length, !rows_at_length. exact rv_len_bases.
  - intros i Hi. rewrite rows_at_length, rv_len_bases in Hi.
    rewrite rows_at_nth by (rewrite rv_len_bases; exact Hi). rewrite !nth_nil_any. rewrite rv_ts2'_nth by exact Hi.
    rewrite rv_nth_bases. destruct (Nat.eq_dec i d) as [->|Hne].
    + rewrite upd_nth_same by (rewrite rows_at_length; exact Hd).
      rewrite rows_at_nth by exact Hd. rewrite !nth_nil_any. rewrite rv_ts'_nth by exact Hd.
      rewrite rv_row_bd. cbn [b_knots]. rewrite Hts2d.
      exact (basis_row_reverse k p tol HK Hp Hlen Htol Hw td Hclear rv_in).
    + rewrite upd_nth_other by exact Hne. rewrite rows_at_nth by exact Hi. rewrite !nth_nil_any.
      rewrite rv_ts'_nth by exact Hi. rewrite Hts2o by exact Hne. reflexivity.
Qed.

Theorem reverse_eval : @obj_eval R NumR tol o' ts2 = @obj_eval R NumR tol o ts.
Proof.
  unfold obj_eval.
  destruct (validate_spec tol (o_bases o) ts) as [V1 _]. rewrite (V1 Hdom).
  destruct (validate_spec tol (o_bases o') ts2) as [V2 _]. rewrite (V2 rv_dom_new).
  replace (o_rat o') with (o_rat o) by (rewrite rv_obj; reflexivity).
  replace (o_dim o') with (o_dim o) by (rewrite rv_obj; reflexivity).
  assert (EH : @eval_h R NumR tol o' [] [] ts2' = @eval_h R NumR tol o [] [] ts').
  { unfold eval_h. rewrite rv_rows'.
    replace (@o_ncomp R o') with (@o_ncomp R o) by (rewrite rv_obj; reflexivity).
    replace (o_cps o') with (@apply_dir R NumR (@o_ncomp R o) (@o_shape R o) d (@rev_matrix R NumR (@b_nfun R bd) 0) (o_cps o))
      by (rewrite rv_obj; reflexivity).
    destruct Hwf as (HB & HV & HL).
    assert (Hnet : net_ok (@o_ncomp R o) rows (o_cps o)) by (split; [exact HV|rewrite cd_shape_rows; exact HL]).
    assert (Hpos : (0 < prodl (map (@length R) rows))%nat) by (rewrite cd_shape_rows; exact (cd_pos tol o Hwf)).
    assert (Hdr : (d < length rows)%nat) by (rewrite rows_at_length; exact Hd).
    rewrite <- (cd_shape_rows tol o ts'). rewrite <- (cd_row_len tol o ts' d Hd).
    assert (Hnet' : net_ok (@o_ncomp R o) (upd rows d (rev (nth d rows [])))
                      (@apply_dir R NumR (@o_ncomp R o) (map (@length R) rows) d (@rev_matrix R NumR (length (nth d rows [])) 0) (o_cps o))).
    { destruct Hnet as [Hv Hl]. split; [apply Forall_apply_dir; exact Hv|].
      rewrite length_apply_dir; [| rewrite map_length; exact Hdr | exact Hl | exact Hpos ].
      f_equal. rewrite rev_matrix_len, upd_map_length, rev_length. reflexivity. }
    apply (nth_ext _ _ 0 0).
    - rewrite (teval_length _ _ _ Hnet'), (teval_length _ _ _ Hnet). reflexivity.
    - intros c Hc. rewrite (teval_length _ _ _ Hnet') in Hc.
      apply (reverse_preserves_map (@o_ncomp R o) c rows d (o_cps o) Hdr Hc Hnet Hpos). }
  rewrite EH. reflexivity.
Qed.
End RevObj.

(* ------------------------------------------------------------------------------------------------ *)
(* corollaries with the parameter tuple written with [upd] *)
Theorem reverse_eval_upd tol (o : obj R) d ts :
  0 < tol -> wf_obj_R tol o -> (d < length (o_bases o))%nat -> (d < length ts)%nat ->
  let bd := nth d (o_bases o) dflt_basis in
  let a := @b_start R NumR bd in let e := @b_end R NumR bd in
  b_per1 bd = 0%nat ->
  (forall i, (i < length (o_bases o))%nat -> in_dom tol (nth i (o_bases o) dflt_basis) (nth i ts 0)) ->
  rev_ok (b_knots bd) (b_order bd) tol (nth d ts 0) ->
  @obj_eval R NumR tol (@obj_reverse R NumR o d) (upd ts d (a + e - nth d ts 0)) = @obj_eval R NumR tol o ts.
Proof.
  intros Htol Hwf Hd Hdt bd a e Hper Hdom HC.
  apply (reverse_eval tol Htol o Hwf d Hd Hper ts _ Hdom HC).
  - apply upd_nth_same. exact Hdt.
  - intros i Hi. apply upd_nth_other. exact Hi.
Qed.

(* the only knots the parameter may be near to are the two domain ends *)
Theorem reverse_eval_clear tol (o : obj R) d ts :
  0 < tol -> wf_obj_R tol o -> (d < length (o_bases o))%nat -> (d < length ts)%nat ->
  let bd := nth d (o_bases o) dflt_basis in
  let a := @b_start R NumR bd in let e := @b_end R NumR bd in
  b_per1 bd = 0%nat ->
  (forall i, (i < length (o_bases o))%nat -> in_dom tol (nth i (o_bases o) dflt_basis) (nth i ts 0)) ->
  (forall v, In v (b_knots bd) -> tol <= Rabs (v - nth d ts 0) \/ v = a \/ v = e) ->
  @obj_eval R NumR tol (@obj_reverse R NumR o d) (upd ts d (a + e - nth d ts 0)) = @obj_eval R NumR tol o ts.
Proof.
  intros Htol Hwf Hd Hdt bd a e Hper Hdom HC.
  destruct (bd_wf tol o Hwf d Hd) as (HK & Hp & Hlen & Hn & Hw).
  apply (reverse_eval_upd tol o d ts Htol Hwf Hd Hdt Hper Hdom).
  apply (rev_clear_ok _ _ tol Htol Hw). exact HC.
Qed.

(* the parameter at distance >= tol from every knot of direction d (hence strictly inside a knot span) *)
Theorem reverse_eval_interior tol (o : obj R) d ts :
  0 < tol -> wf_obj_R tol o -> (d < length (o_bases o))%nat -> (d < length ts)%nat ->
  let bd := nth d (o_bases o) dflt_basis in
  let a := @b_start R NumR bd in let e := @b_end R NumR bd in
  b_per1 bd = 0%nat ->
  (forall i, (i < length (o_bases o))%nat -> in_dom tol (nth i (o_bases o) dflt_basis) (nth i ts 0)) ->
  (forall v, In v (b_knots bd) -> tol <= Rabs (v - nth d ts 0)) ->
  @obj_eval R NumR tol (@obj_reverse R NumR o d) (upd ts d (a + e - nth d ts 0)) = @obj_eval R NumR tol o ts.
Proof.
  intros Htol Hwf Hd Hdt bd a e Hper Hdom HF.
  apply (reverse_eval_clear tol o d ts Htol Hwf Hd Hdt Hper Hdom). intros v Hv. left. apply HF, Hv.
Qed.

(* the two ends of the domain: the old object at the end b (from the left) is the new object at the start a (from the
   right), and the old object at a is the new object at b *)
Theorem reverse_eval_end tol (o : obj R) d ts :
  0 < tol -> wf_obj_R tol o -> (d < length (o_bases o))%nat -> (d < length ts)%nat ->
  let bd := nth d (o_bases o) dflt_basis in
  let a := @b_start R NumR bd in let e := @b_end R NumR bd in
  b_per1 bd = 0%nat ->
  (forall i, (i < length (o_bases o))%nat -> in_dom tol (nth i (o_bases o) dflt_basis) (nth i ts 0)) ->
  nth d ts 0 = e ->
  (forall v, In v (b_knots bd) -> v <> a -> v <> e -> tol <= Rabs (v - e)) ->
  @obj_eval R NumR tol (@obj_reverse R NumR o d) (upd ts d a) = @obj_eval R NumR tol o ts.
Proof.
  intros Htol Hwf Hd Hdt bd a e Hper Hdom Ht HF.
  replace a with (a + e - nth d ts 0) by (rewrite Ht; ring).
  apply (reverse_eval_clear tol o d ts Htol Hwf Hd Hdt Hper Hdom).
  intros v Hv. rewrite Ht. destruct (Req_dec v a) as [Q|Q]; [right; left; exact Q|].
  destruct (Req_dec v e) as [Q2|Q2]; [right; right; exact Q2|]. left. apply HF; assumption.
Qed.

Theorem reverse_eval_start tol (o : obj R) d ts :
  0 < tol -> wf_obj_R tol o -> (d < length (o_bases o))%nat -> (d < length ts)%nat ->
  let bd := nth d (o_bases o) dflt_basis in
  let a := @b_start R NumR bd in let e := @b_end R NumR bd in
  b_per1 bd = 0%nat ->
  (forall i, (i < length (o_bases o))%nat -> in_dom tol (nth i (o_bases o) dflt_basis) (nth i ts 0)) ->
  nth d ts 0 = a ->
  (forall v, In v (b_knots bd) -> v <> a -> v <> e -> tol <= Rabs (v - a)) ->
  @obj_eval R NumR tol (@obj_reverse R NumR o d) (upd ts d e) = @obj_eval R NumR tol o ts.
Proof.
  intros Htol Hwf Hd Hdt bd a e Hper Hdom Ht HF.
  replace e with (a + e - nth d ts 0) at 1 by (rewrite Ht; ring).
  apply (reverse_eval_clear tol o d ts Htol Hwf Hd Hdt Hper Hdom).
  intros v Hv. rewrite Ht. destruct (Req_dec v a) as [Q|Q]; [right; left; exact Q|].
  destruct (Req_dec v e) as [Q2|Q2]; [right; right; exact Q2|]. left. apply HF; assumption.
Qed.

(* exactly at an interior knot x = K(m+1) of multiplicity r <= degree, all other knot values at distance >= tol *)
Theorem reverse_eval_knot tol (o : obj R) d ts m r :
  0 < tol -> wf_obj_R tol o -> (d < length (o_bases o))%nat -> (d < length ts)%nat ->
  let bd := nth d (o_bases o) dflt_basis in
  let a := @b_start R NumR bd in let e := @b_end R NumR bd in
  let K := @kn R NumR (b_knots bd) in
  b_per1 bd = 0%nat ->
  (forall i, (i < length (o_bases o))%nat -> in_dom tol (nth i (o_bases o) dflt_basis) (nth i ts 0)) ->
  (1 <= r)%nat -> (r <= b_order bd - 1)%nat -> (b_order bd - 1 <= m)%nat ->
  K m < K (S m) -> K (S m) = K (m + r)%nat -> K (m + r)%nat < K (S (m + r)) ->
  nth d ts 0 = K (S m) ->
  (forall v, In v (b_knots bd) -> v = K (S m) \/ tol <= Rabs (v - K (S m))) ->
  @obj_eval R NumR tol (@obj_reverse R NumR o d) (upd ts d (a + e - K (S m))) = @obj_eval R NumR tol o ts.
Proof.
  intros Htol Hwf Hd Hdt bd a e K Hper Hdom Hr Hrq Hqm Hlo Heq Hhi Ht HF.
  destruct (bd_wf tol o Hwf d Hd) as (HK & Hp & Hlen & Hn & Hw).
  rewrite <- Ht.
  apply (reverse_eval_upd tol o d ts Htol Hwf Hd Hdt Hper Hdom).
  intros v Hv. rewrite Ht. destruct (HF v Hv) as [Q|F]; [right|left; exact F].
  split.
  - right. right. rewrite Q. apply (cont_at_mult (b_knots bd) (b_order bd) m r HK Hr Hrq Hqm Hlo Heq Hhi).
  - intros u Hu. destruct (HF u Hu) as [Qu|Fu]; [left; rewrite Qu, Q; reflexivity|right; exact Fu].
Qed.

(* ------------------------------------------------------------------------------------------------ *)
(* involution *)
Lemma rknots_kn a e (k : list R) j : k <> [] -> @kn R NumR (rknots a e k) j = a + e - @kn R NumR k (length k - 1 - j).
Proof.
  intros Hne. unfold rknots.
  rewrite kn_map by (intros E; apply (f_equal (@length R)) in E; rewrite rev_length in E; destruct k; [congruence|cbn in E; lia]).
  rewrite kn_rev by exact Hne. reflexivity.
Qed.

Lemma rknots_invol a e k : rknots a e (rknots a e k) = k.
Proof.
  unfold rknots. rewrite <- map_rev, rev_involutive, map_map. rewrite <- (map_id k) at 2.
  apply map_ext. intros x. ring.
Qed.

(* reversing a basis twice gives back the basis itself: knots as a list, order, periodicity *)
Theorem reverse_involution_basis (b : basis R) :
  (1 <= b_order b)%nat -> (b_order b <= length (b_knots b))%nat -> @b_start R NumR b < @b_end R NumR b ->
  @basis_reverse R NumR (@basis_reverse R NumR b) = b.
Proof.
  intros Hp Hlen Hae.
  assert (Hne : b_knots b <> []).
  { intros E. unfold b_start, b_end in Hae. rewrite E in Hae. unfold kn in Hae. destruct (b_order b - 1)%nat, (length (@nil R) - b_order b)%nat; cbn in Hae; lra. }
  rewrite (basis_reverse_eq b Hae).
  set (a := @b_start R NumR b) in *. set (e := @b_end R NumR b) in *.
  assert (Ea : @b_start R NumR (mkBasis (b_order b) (rknots a e (b_knots b)) (b_per1 b)) = a).
  { unfold b_start at 1. cbn [b_knots b_order]. rewrite rknots_kn by exact Hne.
    replace (length (b_knots b) - 1 - (b_order b - 1))%nat with (length (b_knots b) - b_order b)%nat by lia.
    fold (@b_end R NumR b). fold e. ring. }
  assert (Ee : @b_end R NumR (mkBasis (b_order b) (rknots a e (b_knots b)) (b_per1 b)) = e).
  { unfold b_end at 1. cbn [b_knots b_order]. rewrite rknots_length, rknots_kn by exact Hne.
    replace (length (b_knots b) - 1 - (length (b_knots b) - b_order b))%nat with (b_order b - 1)%nat by lia.
    fold (@b_start R NumR b). fold a. ring. }
  rewrite basis_reverse_eq by (rewrite Ea, Ee; exact Hae).
  rewrite Ea, Ee. cbn [b_knots b_order b_per1]. rewrite rknots_invol. destruct b; reflexivity.
Qed.

(* the knot functions agree pointwise (weaker form of the previous statement) *)
Corollary reverse_involution_knots (b : basis R) j :
  (1 <= b_order b)%nat -> (b_order b <= length (b_knots b))%nat -> @b_start R NumR b < @b_end R NumR b ->
  @kn R NumR (b_knots (@basis_reverse R NumR (@basis_reverse R NumR b))) j = @kn R NumR (b_knots b) j.
Proof. intros Hp Hlen Hae. rewrite reverse_involution_basis by assumption. reflexivity. Qed.

(* matrix level: the reversal permutation is an involution on rows of basis values *)
Lemma rev_rev_row (N : list R) :
  row_rel N (rev N) (@rev_matrix R NumR (length N) 0) /\ row_rel (rev N) N (@rev_matrix R NumR (length N) 0).
Proof.
  split; [apply row_rel_reverse|]. pose proof (row_rel_reverse (rev N)) as RR. rewrite rev_involutive, rev_length in RR. exact RR.
Qed.

(* two scalar nets with the same contraction against all rows of a given shape are equal entry by entry *)
Definition unit_row (n i : nat) : list R := map (fun c => if (i =? c)%nat then 1 else 0) (seq 0 n).
Lemma unit_row_length n i : length (unit_row n i) = n.
Proof. unfold unit_row. rewrite map_length, seq_length. reflexivity. Qed.
Lemma lcf_unit n i G : (i < n)%nat -> lcf (unit_row n i) G = G i.
Proof.
  intros Hi. unfold lcf. rewrite unit_row_length.
  rewrite (sumf_ext _ (fun c => if (i =? c)%nat then G i else 0)).
  - apply sumf_indicator. lia.
  - intros c Hc. unfold unit_row. rewrite (nth_map_gen _ _ c 0 0%nat) by (rewrite seq_length; lia). rewrite seq_nth by lia.
    cbn [Nat.add]. destruct (Nat.eqb_spec i c) as [->|]; ring.
Qed.

Lemma tsum_sep : forall shape (f g : nat -> R),
  (forall rows, map (@length R) rows = shape -> tsum rows f = tsum rows g) ->
  forall idx, (idx < prodl shape)%nat -> f idx = g idx.
Proof.
  induction shape as [|n sh IH]; intros f g H idx Hidx.
  - cbn in Hidx. replace idx with 0%nat by lia. apply (H [] eq_refl).
  - cbn [prodl fold_right] in Hidx. fold (prodl sh) in Hidx.
    assert (HP : (0 < prodl sh)%nat) by nia.
    set (P := prodl sh) in *.
    assert (Ei : (idx = (idx / P) * P + idx mod P)%nat) by (rewrite Nat.mul_comm; apply Nat.div_mod; lia).
    assert (Hq : (idx / P < n)%nat) by (apply Nat.div_lt_upper_bound; lia).
    assert (Hr : (idx mod P < P)%nat) by (apply Nat.mod_upper_bound; lia).
    rewrite Ei.
    apply (IH (fun s => f (idx / P * P + s)%nat) (fun s => g (idx / P * P + s)%nat)); [|exact Hr].
    intros rows' Hsh.
    specialize (H (unit_row n (idx / P) :: rows')).
    cbn [map tsum] in H. cbv zeta in H. rewrite Hsh in H. fold P in H.
    rewrite !lcf_unit in H by exact Hq. apply H. rewrite unit_row_length. reflexivity.
Qed.

Lemma upd_upd {A} (l : list A) i v w : upd (upd l i v) i w = upd l i w.
Proof. revert i. induction l as [|x l IH]; intros i; [destruct i; reflexivity|]. destruct i; cbn [upd]; [reflexivity|]. f_equal. apply IH. Qed.

(* applying the reversal matrix twice along a direction restores the control net *)
Theorem apply_rev_twice dim (shape : list nat) d (cps : list (list R)) :
  (d < length shape)%nat -> Forall (fun v => length v = dim) cps -> length cps = prodl shape -> (0 < prodl shape)%nat ->
  let M := @rev_matrix R NumR (nth d shape 0%nat) 0 in
  @apply_dir R NumR dim shape d M (@apply_dir R NumR dim shape d M cps) = cps.
Proof.
  intros Hd HV HL Hpos M.
  set (cps1 := @apply_dir R NumR dim shape d M cps). set (cps2 := @apply_dir R NumR dim shape d M cps1).
  assert (Eshape : @upd nat shape d (length M) = shape).
  { unfold M. rewrite rev_matrix_len. apply upd_same_id. }
  assert (HV1 : Forall (fun v => length v = dim) cps1) by (apply Forall_apply_dir; exact HV).
  assert (HL1 : length cps1 = prodl shape).
  { unfold cps1. rewrite length_apply_dir by assumption. rewrite Eshape. reflexivity. }
  assert (HV2 : Forall (fun v => length v = dim) cps2) by (apply Forall_apply_dir; exact HV1).
  assert (HL2 : length cps2 = prodl shape).
  { unfold cps2. rewrite length_apply_dir by assumption. rewrite Eshape. reflexivity. }
  assert (Key : forall c, (c < dim)%nat -> forall idx, (idx < prodl shape)%nat -> cnet dim c cps2 idx = cnet dim c cps idx).
  { intros c Hc. apply tsum_sep. intros rows Hsh.
    assert (Hdr : (d < length rows)%nat) by (rewrite <- (map_length (@length R)), Hsh; exact Hd).
    set (N := nth d rows []).
    assert (EN : length N = nth d shape 0%nat).
    { unfold N. rewrite <- Hsh. rewrite (nth_map_gen _ _ d 0%nat []) by exact Hdr. reflexivity. }
    set (rows1 := upd rows d (rev N)).
    assert (Hsh1 : map (@length R) rows1 = shape).
    { unfold rows1. rewrite upd_map_length, rev_length, Hsh, EN. apply upd_same_id. }
    assert (Hnet : net_ok dim rows cps) by (split; [exact HV|rewrite Hsh; exact HL]).
    assert (Hnet1 : net_ok dim rows1 cps1) by (split; [exact HV1|rewrite Hsh1; exact HL1]).
    assert (E1 : tsum rows1 (cnet dim c cps1) = tsum rows (cnet dim c cps)).
    { unfold rows1, cps1. rewrite <- Hsh at 1.
      apply (tsum_apply_dir dim c M rows d (rev N) cps Hdr Hc Hnet ltac:(rewrite Hsh; exact Hpos)).
      unfold M. rewrite <- EN. apply row_rel_reverse. }
    assert (E2 : tsum (upd rows1 d N) (cnet dim c cps2) = tsum rows1 (cnet dim c cps1)).
    { unfold cps2. rewrite <- Hsh1 at 1.
      apply (tsum_apply_dir dim c M rows1 d N cps1 ltac:(unfold rows1; rewrite upd_length; exact Hdr) Hc Hnet1 ltac:(rewrite Hsh1; exact Hpos)).
      unfold rows1. rewrite upd_nth_same by exact Hdr. unfold M. rewrite <- EN. apply (proj2 (rev_rev_row N)). }
    unfold rows1 in E2 at 1. rewrite upd_upd in E2. unfold N in E2 at 1. rewrite upd_same_id in E2.
    rewrite E2. exact E1. }
  apply (nth_ext _ _ (@vzero R NumR dim) (@vzero R NumR dim)); [rewrite HL2; symmetry; exact HL|].
  intros idx Hidx. fold cps2 in Hidx. rewrite HL2 in Hidx.
  assert (L2 : length (nth idx cps2 (@vzero R NumR dim)) = dim).
  { rewrite Forall_forall in HV2. apply HV2, nth_In. lia. }
  assert (L0 : length (nth idx cps (@vzero R NumR dim)) = dim).
  { rewrite Forall_forall in HV. apply HV, nth_In. lia. }
  apply (nth_ext _ _ 0 0); [lia|]. intros c Hc. rewrite L2 in Hc.
  apply (Key c Hc idx Hidx).
Qed.

(* C06: reverse is an involution on the object itself (bases, control net, everything) *)
Theorem reverse_involution tol (o : obj R) d :
  0 < tol -> wf_obj_R tol o -> (d < length (o_bases o))%nat -> b_per1 (nth d (o_bases o) dflt_basis) = 0%nat ->
  @obj_reverse R NumR (@obj_reverse R NumR o d) d = o.
Proof.
  intros Htol Hwf Hd Hper.
  destruct (bd_wf tol o Hwf d Hd) as (HK & Hp & Hlen & Hn & Hw).
  pose proof (rv_ae tol Htol o Hwf d Hd) as Hae.
  set (o1 := @obj_reverse R NumR o d).
  assert (E1 : nth d (o_bases o1) (mkBasis 0 [] 0) = @basis_reverse R NumR (nth d (o_bases o) dflt_basis)).
  { unfold o1, obj_reverse. cbv zeta. cbn [o_bases]. change (mkBasis 0 [] 0) with dflt_basis. apply upd_nth_same. exact Hd. }
  unfold obj_reverse at 1. cbv zeta. rewrite E1.
  rewrite (reverse_involution_basis _ Hp ltac:(lia) Hae).
  assert (Enf : @b_nfun R (@basis_reverse R NumR (nth d (o_bases o) dflt_basis)) = @b_nfun R (nth d (o_bases o) dflt_basis)).
  { unfold b_nfun, basis_reverse. cbn [b_knots b_order b_per1]. rewrite map_length, rev_length. reflexivity. }
  assert (Eper : b_per1 (@basis_reverse R NumR (nth d (o_bases o) dflt_basis)) = 0%nat) by (unfold basis_reverse; cbn [b_per1]; exact Hper).
  rewrite Enf, Eper.
  assert (Esh : @o_shape R o1 = @o_shape R o) by (apply (rv_shape tol Htol o Hwf d Hd Hper)).
  rewrite Esh.
  assert (Eb : upd (o_bases o1) d (nth d (o_bases o) dflt_basis) = o_bases o).
  { unfold o1, obj_reverse. cbv zeta. cbn [o_bases]. rewrite upd_upd. apply upd_same_id. }
  rewrite Eb.
  assert (Ec : @apply_dir R NumR (@o_ncomp R o1) (@o_shape R o) d (@rev_matrix R NumR (@b_nfun R (nth d (o_bases o) dflt_basis)) 0) (o_cps o1) = o_cps o).
  { unfold o1, obj_reverse. cbv zeta. cbn [o_cps]. change (mkBasis 0 [] 0) with dflt_basis. rewrite Hper.
    match goal with |- @apply_dir _ _ ?nc _ _ _ _ = _ => change nc with (@o_ncomp R o) end.
    destruct Hwf as (HB & HV & HL).
    assert (Enth : @b_nfun R (nth d (o_bases o) dflt_basis) = nth d (@o_shape R o) 0%nat).
    { unfold o_shape. rewrite (nth_map_gen _ _ d 0%nat dflt_basis) by exact Hd. reflexivity. }
    rewrite Enth.
    apply (apply_rev_twice (@o_ncomp R o) (@o_shape R o) d (o_cps o)); [unfold o_shape; rewrite map_length; exact Hd|exact HV|exact HL|].
    apply (cd_pos tol o). split; [exact HB|split; [exact HV|exact HL]]. }
  rewrite Ec. unfold o1, obj_reverse. cbv zeta. cbn [o_dim o_rat]. destruct o; reflexivity.
Qed.

