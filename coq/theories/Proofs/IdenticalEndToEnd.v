(* C12, end to end on the model's own functions: [identical_dir] (one direction of SplineObject.make_splines_identical)
   and [obj_make_identical] with an explicit direction, for a direction that is NON-PERIODIC in both operands
   (the two obj_lower_periodic calls are not taken).  Composition of
     Part A   make_splines_compatible: obj_force_rational / obj_set_dimension and obj_eval (compatible_eval, any wf objects),
     Proofs/ReparamEndToEnd.v   reparam to [0,1] (same tolerance, parameter clear of the knots),
     Proofs/RaiseEndToEnd.v, RaiseAmount.v   raise_order of the lower-order object (knot vector = chain, same values, +amount copies),
     Proofs/SplitCompose.v      insertion of repeated knots on the object (insert_copies) and exact continuity (continuity_window),
     Part B   knot lists: knot_spans is strictly increasing, continuity() = p - multiplicity - 1 exactly, missing_knots in closed
              form (mult_from - mult_into copies of every knot of the first basis), multiplicities become the maxima.
   Main results (hypotheses bundled in the record [identical_hyps]; satisfied by [ex_hyps], [ex_hyps_cubics]):
     compatible_eval            evaluation after make_splines_compatible = old evaluation padded with zeros;
     identical_dir_knots        same order max(p1,p2), per1 = 0, domain [0,1] and the SAME knot list in direction i of both results,
                                with the multiplicity of every knot value given explicitly;
     identical_dir_eval/eval2   each result evaluates, at the rescaled parameter, to the padded point of the operand;
     identical_dir_same_order_ok  for equal orders the computation provably succeeds;
     make_identical_knots/eval/eval2   the same for obj_make_identical tol o1 o2 (Some i).
   For different orders the success of obj_raise_order (existence of the inverse of the collocation matrix at the Greville
   points) is not proved anywhere in the development, hence the theorems take [identical_dir ... = Ok (a, b)] as a hypothesis. *)
From Coq Require Import List Arith Reals Lra Lia Bool ZArith Permutation Sorted.
From SplipyModel Require Import Spec.BSpline Model.Num Model.BasisDef Model.BasisEval Model.Tensor Model.Obj Model.KnotInsert
  Model.Tol Model.Reparam Model.Affine Model.Solve Model.Interp Model.Order Model.Split Model.Periodic Model.Identical
  Proofs.KnotList Proofs.SpanCorrect Proofs.EvaluateSpec Proofs.EvalConsequences Proofs.SnapSpec Proofs.SnapChar
  Proofs.TensorLemmas Proofs.ObjEval Proofs.InsertMatrix Proofs.TensorApply Proofs.InsertObj Proofs.InsertEndToEnd
  Proofs.InsertListEndToEnd Proofs.ChangeDirEval Proofs.OrderProofs Proofs.LinAlg Proofs.RaiseNested Proofs.OrderRaise
  Proofs.RaiseAmount Proofs.RaiseEndToEnd Proofs.ReparamObj Proofs.ReparamEndToEnd Proofs.TolProofs Proofs.AffineProofs
  Proofs.IdenticalProofs Proofs.SplitCompose.
Import ListNotations.
Open Scope R_scope.


(* ================================================================================================ *)
(* Part A: make_splines_compatible and evaluation *)

Definition res_map {A B} (f : A -> B) (r : res A) : res B := match r with Ok v => Ok (f v) | Err e => Err e end.
Definition pad (n : nat) (v : list R) : list R := v ++ repeat 0 n.

(* rows of basis values at a validated tuple: lengths and partition of unity *)
Lemma rows_facts tol (o : obj R) ts : 0 < tol -> wf_obj_R tol o ->
  (forall i, (i < length (o_bases o))%nat -> in_dom tol (nth i (o_bases o) dflt_basis) (nth i ts 0)) ->
  let rows := @rows_at R NumR tol (o_bases o) [] []
                (map (fun i => @snap1 R NumR (b_knots (nth i (o_bases o) dflt_basis)) tol (nth i ts 0)) (seq 0 (length (o_bases o)))) in
  map (@length R) rows = @o_shape R o /\ Forall (fun N => rsum N = 1) rows /\
  net_ok (@o_ncomp R o) rows (o_cps o) /\ (0 < prodl (map (@length R) rows))%nat.
Proof.
  intros Htol (WB & WC & WL) Hall. cbv zeta.
  set (rows := @rows_at R NumR tol (o_bases o) [] [] _).
  assert (Hrows : forall i, (i < length (o_bases o))%nat ->
     let N := nth i rows [] in
     length N = @b_nfun R (nth i (o_bases o) dflt_basis) /\ Forall (fun x => 0 <= x) N /\ rsum N = 1).
  { intros i Hi. cbv zeta. unfold rows. rewrite rows_at_nth by exact Hi.
    rewrite (nth_map_gen _ _ i 0 0%nat) by (rewrite seq_length; exact Hi). rewrite seq_nth by exact Hi. cbn [Nat.add].
    replace (nth i (@nil nat) 0%nat) with 0%nat by (destruct i; reflexivity).
    replace (nth i (@nil bool) true) with true by (destruct i; reflexivity).
    unfold basis_row.
    rewrite Forall_forall in WB. destruct (WB (nth i (o_bases o) dflt_basis) (nth_In _ _ Hi)) as (B1 & B2 & B3 & B4 & B5).
    apply basis_row_convex; try assumption. apply Hall. exact Hi. }
  assert (Hlr : length rows = length (o_bases o)) by (unfold rows, rows_at; rewrite map_length, seq_length; reflexivity).
  assert (Hsh : map (@length R) rows = @o_shape R o).
  { unfold o_shape. apply (nth_ext _ _ 0%nat 0%nat); [rewrite !map_length; exact Hlr|].
    intros i Hi. rewrite map_length, Hlr in Hi.
    rewrite (nth_map_gen _ _ i 0%nat dflt_basis) by exact Hi.
    rewrite (nth_map_gen _ _ i 0%nat []) by lia.
    destruct (Hrows i Hi) as (A & _). exact A. }
  split; [exact Hsh|]. split.
  - apply Forall_forall. intros N HN. apply (In_nth _ _ []) in HN. destruct HN as (i & Hi & <-).
    rewrite Hlr in Hi. destruct (Hrows i Hi) as (_ & _ & B). exact B.
  - split; [split; [exact WC|rewrite Hsh; exact WL]|].
    rewrite Hsh. unfold o_shape.
    assert (G : forall l : list (basis R), Forall (wf_basis_R tol) l -> (0 < prodl (map (@b_nfun R) l))%nat).
    { induction l as [|b l IH]; intros Hf; cbn [map prodl fold_right]; [lia|]. inversion Hf as [|? ? Hb Hl]; subst.
      destruct Hb as (_ & _ & _ & Hn & _). specialize (IH Hl). unfold prodl in IH. nia. }
    apply G. exact WB.
Qed.

Section Coordwise.
Variables (dim dim' : nat) (L : list R -> list R) (rows : list (list R)) (cps : list (list R)).
Hypothesis Hnet : net_ok dim rows cps.
Hypothesis HL : Forall (fun v => length (L v) = dim') cps.
Hypothesis Hpos : (0 < prodl (map (@length R) rows))%nat.

Lemma net_ok_map : net_ok dim' rows (map L cps).
Proof.
  destruct Hnet as [Hv Hl]. split; [|rewrite map_length; exact Hl]. apply Forall_forall. intros v Hin. apply in_map_iff in Hin.
  destruct Hin as (u & <- & Hu). rewrite Forall_forall in HL. apply HL. exact Hu.
Qed.

Lemma teval_coord_pick c' c : (c' < dim')%nat -> (c < dim)%nat ->
  (forall v, In v cps -> coord c' (L v) = coord c v) ->
  coord c' (@teval R NumR dim' rows (map L cps)) = coord c (@teval R NumR dim rows cps).
Proof.
  intros Hc' Hc Hco.
  rewrite (teval_affine dim dim' c' (map (fun i => if (i =? c)%nat then 1 else 0) (seq 0 dim)) 0 L rows cps Hc'); try assumption.
  - rewrite Rplus_0_r.
    rewrite (sumf_ext _ (fun i => (if (i =? c)%nat then 1 else 0) * coord i (@teval R NumR dim rows cps))).
    + apply (sumf_unit (fun i => coord i (@teval R NumR dim rows cps)) c dim Hc).
    + intros i Hi. rewrite (nth_map_seq' _ dim i) by lia. reflexivity.
  - rewrite map_length, seq_length. reflexivity.
  - left. reflexivity.
  - intros v Hin. rewrite Rplus_0_r.
    rewrite (sumf_ext _ (fun i => (if (i =? c)%nat then 1 else 0) * coord i v)).
    2:{ intros i Hi. rewrite (nth_map_seq' _ dim i) by lia. reflexivity. }
    rewrite (sumf_unit (fun i => coord i v) c dim Hc). apply Hco. exact Hin.
Qed.

Lemma teval_coord_const c' kappa : (c' < dim')%nat ->
  (kappa = 0 \/ Forall (fun N => rsum N = 1) rows) ->
  (forall v, In v cps -> coord c' (L v) = kappa) ->
  coord c' (@teval R NumR dim' rows (map L cps)) = kappa.
Proof.
  intros Hc' Hk Hco.
  rewrite (teval_affine dim dim' c' (repeat 0 dim) kappa L rows cps Hc'); try assumption.
  - rewrite sumf_zero; [ring|]. intros i _. rewrite nth_repeat. ring.
  - apply repeat_length.
  - intros v Hin. rewrite sumf_zero; [rewrite Rplus_0_l; apply Hco; exact Hin|]. intros i _. rewrite nth_repeat. ring.
Qed.
End Coordwise.

(* force_rational: a unit weight behind every control point *)
Lemma teval_unit_weight dim rows cps : net_ok dim rows cps -> (0 < prodl (map (@length R) rows))%nat ->
  Forall (fun N => rsum N = 1) rows ->
  @teval R NumR (dim + 1) rows (map (fun v => v ++ [1]) cps) = @teval R NumR dim rows cps ++ [1].
Proof.
  intros Hnet Hpos HPU.
  assert (HL : Forall (fun v => length ((fun v => v ++ [1]) v) = (dim + 1)%nat) cps).
  { destruct Hnet as [Hv _]. apply Forall_forall. intros v Hin. rewrite Forall_forall in Hv. rewrite app_length, (Hv v Hin). reflexivity. }
  pose proof (teval_length dim rows cps Hnet) as Hl1.
  pose proof (teval_length (dim + 1) rows _ (net_ok_map dim (dim + 1) _ rows cps Hnet HL)) as Hl2.
  apply (nth_ext _ _ 0 0); [rewrite app_length, Hl1, Hl2; reflexivity|].
  intros c Hc. rewrite Hl2 in Hc. destruct (Nat.lt_ge_cases c dim) as [A|A].
  - rewrite app_nth1 by lia.
    apply (teval_coord_pick dim (dim + 1) _ rows cps Hnet HL Hpos c c Hc A).
    intros v Hin. destruct Hnet as [Hv _]. rewrite Forall_forall in Hv. apply coord_app_l. rewrite (Hv v Hin). exact A.
  - assert (c = dim) by lia. subst c. rewrite app_nth2 by lia. rewrite Hl1, Nat.sub_diag. cbn [nth].
    apply (teval_coord_const dim (dim + 1) _ rows cps Hnet HL Hpos dim 1 Hc (or_intror HPU)).
    intros v Hin. destruct Hnet as [Hv _]. rewrite Forall_forall in Hv. rewrite coord_app_r by (rewrite (Hv v Hin); lia).
    rewrite (Hv v Hin), Nat.sub_diag. reflexivity.
Qed.

Lemma project_unit dim (r : list R) : length r = dim -> @project_rat R NumR dim (r ++ [1]) = r.
Proof.
  intros Hl. unfold project_rat. cbv zeta. rewrite app_nth2 by lia. rewrite Hl, Nat.sub_diag. cbn [nth].
  rewrite firstn_app, Hl, Nat.sub_diag. cbn [firstn]. rewrite app_nil_r. rewrite firstn_all2 by lia.
  rewrite <- (map_id r) at 2. apply map_ext. intros x. cbn [ndiv NumR]. field.
Qed.

Lemma validate_in_dom tol bs ts ts' : @validate R NumR tol bs ts = Ok ts' ->
  (forall i, (i < length bs)%nat -> in_dom tol (nth i bs dflt_basis) (nth i ts 0)) /\
  ts' = map (fun i => @snap1 R NumR (b_knots (nth i bs dflt_basis)) tol (nth i ts 0)) (seq 0 (length bs)).
Proof.
  intros EV.
  assert (Hall : forall i, (i < length bs)%nat -> in_dom tol (nth i bs dflt_basis) (nth i ts 0)).
  { intros i Hi. destruct (in_dom_dec tol (nth i bs dflt_basis) (nth i ts 0)) as [D|D]; [exact D|].
    destruct (validate_spec tol bs ts) as [_ V2]. rewrite V2 in EV by (exists i; auto). discriminate. }
  split; [exact Hall|]. destruct (validate_spec tol bs ts) as [V1 _]. rewrite (V1 Hall) in EV. congruence.
Qed.

Theorem force_rational_eval tol (o : obj R) ts : 0 < tol -> wf_obj_R tol o ->
  @obj_eval R NumR tol (@obj_force_rational R NumR o) ts = @obj_eval R NumR tol o ts.
Proof.
  intros Htol Hwf. unfold obj_force_rational. destruct (o_rat o) eqn:Hrat; [reflexivity|].
  unfold obj_eval. cbn [o_bases o_rat o_dim]. rewrite Hrat.
  destruct (@validate R NumR tol (o_bases o) ts) as [ts'|e] eqn:EV; [|reflexivity].
  destruct (validate_in_dom _ _ _ _ EV) as [Hall ->]. f_equal.
  destruct (rows_facts tol o ts Htol Hwf Hall) as (Hsh & HPU & Hnet & Hpos). cbv zeta in *.
  unfold eval_h. cbn [o_bases o_cps]. unfold o_ncomp in *. cbn [o_dim o_rat]. rewrite Hrat in *. rewrite Nat.add_0_r in Hnet.
  rewrite Nat.add_0_r. change (@n1 R NumR) with 1.
  rewrite (teval_unit_weight (o_dim o) _ _ Hnet Hpos HPU).
  apply project_unit. apply teval_length. exact Hnet.
Qed.

Lemma force_rational_wf tol (o : obj R) : wf_obj_R tol o -> wf_obj_R tol (@obj_force_rational R NumR o).
Proof.
  intros (WB & WC & WL). unfold obj_force_rational. destruct (o_rat o) eqn:Hrat; [repeat split; assumption|].
  split; [exact WB|]. split.
  - cbn [o_cps]. unfold o_ncomp in *. cbn [o_dim o_rat]. rewrite Hrat in WC. apply Forall_forall. intros v Hin. apply in_map_iff in Hin.
    destruct Hin as (u & <- & Hu). rewrite Forall_forall in WC. rewrite app_length, (WC u Hu). cbn [length]. lia.
  - cbn [o_cps]. rewrite map_length. exact WL.
Qed.

(* set_dimension(new_dim) with new_dim >= dim: zero padding of the physical coordinates *)
Lemma coord_set_dim nc dim nd rat (v : list R) c : length v = nc -> (dim <= nc)%nat -> (dim <= nd)%nat ->
  coord c (@pt_set_dim R NumR dim nd rat v) =
    if (c <? dim)%nat then coord c v else if (c <? nd)%nat then 0 else coord (c - nd + dim) v.
Proof.
  intros Hl Hd Hnd. unfold pt_set_dim. cbv zeta. destruct (Nat.leb_spec dim nd) as [_|C]; [|lia].
  assert (Hf : length (firstn dim v) = dim) by (rewrite firstn_length; lia).
  unfold coord. destruct (Nat.ltb_spec c dim) as [A|A].
  - rewrite app_nth1 by (rewrite app_length, Hf; lia). rewrite app_nth1 by lia. apply nth_firstn_lt. exact A.
  - destruct (Nat.ltb_spec c nd) as [B|B].
    + rewrite app_nth1 by (rewrite app_length, Hf, repeat_length; lia). rewrite app_nth2 by lia. apply nth_repeat.
    + rewrite app_nth2 by (rewrite app_length, Hf, repeat_length; lia). rewrite app_length, Hf, repeat_length.
      change (@n0 R NumR) with 0. rewrite nth_skipn_add. f_equal. lia.
Qed.

Lemma length_set_dim nc dim nd rat (v : list R) : length v = nc -> (dim <= nc)%nat -> (dim <= nd)%nat ->
  length (@pt_set_dim R NumR dim nd rat v) = (nd + (nc - dim))%nat.
Proof.
  intros Hl Hd Hnd. unfold pt_set_dim. cbv zeta. destruct (Nat.leb_spec dim nd) as [_|C]; [|lia].
  rewrite !app_length, firstn_length, repeat_length, skipn_length. lia.
Qed.

Lemma teval_set_dim nc dim nd rat rows cps : net_ok nc rows cps -> (0 < prodl (map (@length R) rows))%nat ->
  (dim <= nc)%nat -> (dim <= nd)%nat ->
  @teval R NumR (nd + (nc - dim)) rows (map (@pt_set_dim R NumR dim nd rat) cps) = @pt_set_dim R NumR dim nd rat (@teval R NumR nc rows cps).
Proof.
  intros Hnet Hpos Hd Hnd.
  assert (HL : Forall (fun v => length (@pt_set_dim R NumR dim nd rat v) = (nd + (nc - dim))%nat) cps).
  { destruct Hnet as [Hv _]. apply Forall_forall. intros v Hin. rewrite Forall_forall in Hv. apply length_set_dim; [apply Hv; exact Hin|lia|lia]. }
  pose proof (teval_length nc rows cps Hnet) as Hl1.
  pose proof (teval_length _ rows _ (net_ok_map nc _ _ rows cps Hnet HL)) as Hl2.
  apply (nth_ext _ _ 0 0); [rewrite Hl2; symmetry; apply length_set_dim; assumption|].
  intros c Hc. rewrite Hl2 in Hc. fold (coord c (@pt_set_dim R NumR dim nd rat (@teval R NumR nc rows cps))).
  rewrite (coord_set_dim nc dim nd rat _ c Hl1 Hd Hnd).
  assert (Hv : forall v, In v cps -> length v = nc) by (destruct Hnet as [Hv _]; rewrite Forall_forall in Hv; exact Hv).
  destruct (Nat.ltb_spec c dim) as [A|A].
  - apply (teval_coord_pick nc _ _ rows cps Hnet HL Hpos c c Hc ltac:(lia)).
    intros v Hin. rewrite (coord_set_dim nc dim nd rat v c (Hv v Hin) Hd Hnd). destruct (Nat.ltb_spec c dim); [reflexivity|lia].
  - destruct (Nat.ltb_spec c nd) as [B|B].
    + apply (teval_coord_const nc _ _ rows cps Hnet HL Hpos c 0 Hc (or_introl eq_refl)).
      intros v Hin. rewrite (coord_set_dim nc dim nd rat v c (Hv v Hin) Hd Hnd).
      destruct (Nat.ltb_spec c dim); [lia|]. destruct (Nat.ltb_spec c nd); [reflexivity|lia].
    + apply (teval_coord_pick nc _ _ rows cps Hnet HL Hpos c (c - nd + dim) Hc ltac:(lia)).
      intros v Hin. rewrite (coord_set_dim nc dim nd rat v c (Hv v Hin) Hd Hnd).
      destruct (Nat.ltb_spec c dim); [lia|]. destruct (Nat.ltb_spec c nd); [lia|reflexivity].
Qed.

Theorem set_dimension_eval tol (o : obj R) nd ts : 0 < tol -> wf_obj_R tol o -> (o_dim o <= nd)%nat ->
  @obj_eval R NumR tol (@obj_set_dimension R NumR o nd) ts = res_map (pad (nd - o_dim o)) (@obj_eval R NumR tol o ts).
Proof.
  intros Htol Hwf Hnd. unfold obj_set_dimension, obj_eval. cbn [o_bases o_rat o_dim].
  destruct (@validate R NumR tol (o_bases o) ts) as [ts'|e] eqn:EV; [|reflexivity].
  destruct (validate_in_dom _ _ _ _ EV) as [Hall ->]. cbn [res_map]. f_equal.
  destruct (rows_facts tol o ts Htol Hwf Hall) as (Hsh & HPU & Hnet & Hpos). cbv zeta in *.
  unfold eval_h. cbn [o_bases o_cps].
  set (rows := @rows_at R NumR tol (o_bases o) [] [] _) in *.
  assert (Enc : @o_ncomp R (mkObj (o_bases o) (map (@pt_set_dim R NumR (o_dim o) nd (o_rat o)) (o_cps o)) nd (o_rat o))
                = (nd + (@o_ncomp R o - o_dim o))%nat) by (unfold o_ncomp; cbn [o_dim o_rat]; lia).
  rewrite Enc. rewrite (teval_set_dim (@o_ncomp R o) (o_dim o) nd (o_rat o) rows (o_cps o) Hnet Hpos ltac:(unfold o_ncomp; lia) Hnd).
  pose proof (teval_length _ rows _ Hnet) as Hl. set (r := @teval R NumR (@o_ncomp R o) rows (o_cps o)) in *.
  unfold o_ncomp in Hl. unfold pad. destruct (o_rat o) eqn:Hrat.
  - unfold project_rat. cbv zeta.
    assert (Hf : length (firstn (o_dim o) r) = o_dim o) by (rewrite firstn_length; lia).
    unfold pt_set_dim. cbv zeta. destruct (Nat.leb_spec (o_dim o) nd) as [_|C]; [|lia].
    rewrite app_nth2 by (rewrite app_length, Hf, repeat_length; lia). rewrite app_length, Hf, repeat_length.
    replace (nd - (o_dim o + (nd - o_dim o)))%nat with 0%nat by lia.
    rewrite firstn_app. rewrite app_length, Hf, repeat_length. replace (nd - (o_dim o + (nd - o_dim o)))%nat with 0%nat by lia.
    cbn [firstn]. rewrite app_nil_r. rewrite firstn_all2 by (rewrite app_length, Hf, repeat_length; lia).
    rewrite map_app. f_equal.
    + apply map_ext. intros x. f_equal. rewrite nth_skipn_add. rewrite Nat.add_0_r. reflexivity.
    + change (@n0 R NumR) with 0. generalize (nd - o_dim o)%nat. intros m. induction m as [|m IHm]; cbn [repeat map]; [reflexivity|].
      rewrite IHm. f_equal. cbn [ndiv NumR]. unfold Rdiv. ring.
  - unfold pt_set_dim. cbv zeta. destruct (Nat.leb_spec (o_dim o) nd) as [_|C]; [|lia].
    rewrite firstn_all2 by lia. rewrite skipn_all2 by lia. rewrite app_nil_r. reflexivity.
Qed.

Lemma set_dimension_wf tol (o : obj R) nd : wf_obj_R tol o -> (o_dim o <= nd)%nat -> wf_obj_R tol (@obj_set_dimension R NumR o nd).
Proof.
  intros (WB & WC & WL) Hnd. unfold obj_set_dimension. split; [exact WB|]. split.
  - cbn [o_cps]. apply Forall_forall. intros v Hin. apply in_map_iff in Hin. destruct Hin as (u & <- & Hu).
    rewrite Forall_forall in WC. rewrite (length_set_dim (@o_ncomp R o) (o_dim o) nd (o_rat o) u (WC u Hu)) by (unfold o_ncomp; lia).
    unfold o_ncomp. cbn [o_dim o_rat]. lia.
  - cbn [o_cps]. rewrite map_length. exact WL.
Qed.

(* ---- make_splines_compatible ---- *)
Theorem compatible_eval tol (o1 o2 : obj R) ts : 0 < tol -> wf_obj_R tol o1 -> wf_obj_R tol o2 ->
  let ab := @obj_compatible R NumR o1 o2 in
  let dim' := Nat.max (o_dim o1) (o_dim o2) in
  @obj_eval R NumR tol (fst ab) ts = res_map (pad (dim' - o_dim o1)) (@obj_eval R NumR tol o1 ts) /\
  @obj_eval R NumR tol (snd ab) ts = res_map (pad (dim' - o_dim o2)) (@obj_eval R NumR tol o2 ts) /\
  wf_obj_R tol (fst ab) /\ wf_obj_R tol (snd ab) /\
  o_bases (fst ab) = o_bases o1 /\ o_bases (snd ab) = o_bases o2 /\
  o_dim (fst ab) = dim' /\ o_dim (snd ab) = dim' /\
  o_rat (fst ab) = (o_rat o1 || o_rat o2)%bool /\ o_rat (snd ab) = (o_rat o1 || o_rat o2)%bool.
Proof.
  intros Htol W1 W2. cbv zeta.
  destruct (@compatible_spec R NumR o1 o2) as (C1 & C2 & C3 & C4 & C5 & C6). cbv zeta in *.
  assert (P0 : forall v : res (list R), res_map (pad 0) v = v).
  { intros [v|e]; [|reflexivity]. cbn [res_map]. unfold pad. cbn [repeat]. rewrite app_nil_r. reflexivity. }
  assert (Main : forall a b : obj R, wf_obj_R tol a -> wf_obj_R tol b ->
            let ab := if (o_dim b <? o_dim a)%nat then (a, @obj_set_dimension R NumR b (o_dim a)) else (@obj_set_dimension R NumR a (o_dim b), b) in
            @obj_eval R NumR tol (fst ab) ts = res_map (pad (Nat.max (o_dim a) (o_dim b) - o_dim a)) (@obj_eval R NumR tol a ts) /\
            @obj_eval R NumR tol (snd ab) ts = res_map (pad (Nat.max (o_dim a) (o_dim b) - o_dim b)) (@obj_eval R NumR tol b ts) /\
            wf_obj_R tol (fst ab) /\ wf_obj_R tol (snd ab)).
  { intros a b Wa Wb. cbv zeta. destruct (Nat.ltb_spec (o_dim b) (o_dim a)) as [L|L]; cbn [fst snd].
    - rewrite Nat.max_l by lia. rewrite Nat.sub_diag, P0. split; [reflexivity|].
      split; [apply set_dimension_eval; [exact Htol|exact Wb|lia]|]. split; [exact Wa|apply set_dimension_wf; [exact Wb|lia]].
    - rewrite Nat.max_r by lia. rewrite Nat.sub_diag, P0.
      split; [apply set_dimension_eval; [exact Htol|exact Wa|lia]|]. split; [reflexivity|].
      split; [apply set_dimension_wf; [exact Wa|lia]|exact Wb]. }
  assert (Dfr : forall o : obj R, o_dim (@obj_force_rational R NumR o) = o_dim o).
  { intros o. unfold obj_force_rational. destruct (o_rat o); reflexivity. }
  assert (Ev : @obj_eval R NumR tol (fst (@obj_compatible R NumR o1 o2)) ts = res_map (pad (Nat.max (o_dim o1) (o_dim o2) - o_dim o1)) (@obj_eval R NumR tol o1 ts) /\
               @obj_eval R NumR tol (snd (@obj_compatible R NumR o1 o2)) ts = res_map (pad (Nat.max (o_dim o1) (o_dim o2) - o_dim o2)) (@obj_eval R NumR tol o2 ts) /\
               wf_obj_R tol (fst (@obj_compatible R NumR o1 o2)) /\ wf_obj_R tol (snd (@obj_compatible R NumR o1 o2))).
  { unfold obj_compatible. destruct (o_rat o1) eqn:R1; [|destruct (o_rat o2) eqn:R2].
    - pose proof (Main o1 (@obj_force_rational R NumR o2) W1 (force_rational_wf tol o2 W2)) as M. cbv zeta in M.
      rewrite !Dfr, (force_rational_eval tol o2 ts Htol W2) in M. rewrite !Dfr. exact M.
    - pose proof (Main (@obj_force_rational R NumR o1) o2 (force_rational_wf tol o1 W1) W2) as M. cbv zeta in M.
      rewrite !Dfr, (force_rational_eval tol o1 ts Htol W1) in M. rewrite !Dfr. exact M.
    - exact (Main o1 o2 W1 W2). }
  destruct Ev as (E1 & E2 & E3 & E4).
  split; [exact E1|]. split; [exact E2|]. split; [exact E3|]. split; [exact E4|].
  split; [exact C5|]. split; [exact C6|]. split; [exact C3|]. split; [rewrite <- C1; exact C3|]. split; [exact C4|rewrite <- C2; exact C4].
Qed.


(* ================================================================================================ *)
(* Part B: knot lists *)

Lemma lsorted_of_kn (k : list R) : sorted (@kn R NumR k) -> lsorted k.
Proof.
  induction k as [|a k IH]; intros HK; [constructor|]. destruct k as [|b k]; [constructor|].
  constructor.
  - pose proof (HK 0%nat 1%nat ltac:(lia)) as H. rewrite (kn_in (a :: b :: k) 0 ltac:(cbn; lia) 0), (kn_in (a :: b :: k) 1 ltac:(cbn; lia) 0) in H. exact H.
  - apply IH. intros i j Hij. specialize (HK (S i) (S j) ltac:(lia)). exact HK.
Qed.

Lemma ie_lsorted_drop2 a x l : lsorted (a :: x :: l) -> lsorted (a :: l).
Proof.
  intros Hs. inversion Hs as [| |? ? ? Hax Hs']; subst. destruct l as [|z l]; [constructor|].
  inversion Hs' as [| |? ? ? Hxz Hs'']; subst. constructor; [lra|exact Hs''].
Qed.
Lemma ie_lsorted_skipn n : forall l, lsorted l -> lsorted (skipn n l).
Proof.
  induction n as [|n IH]; intros l Hs; [exact Hs|]. destruct l as [|x l]; [constructor|]. cbn [skipn]. apply IH.
  apply (lsorted_tl x l Hs).
Qed.
Lemma ie_lsorted_firstn n : forall l, lsorted l -> lsorted (firstn n l).
Proof.
  induction n as [|n IH]; intros l Hs; [constructor|]. destruct l as [|x l]; [constructor|]. cbn [firstn].
  pose proof (IH l (lsorted_tl x l Hs)) as H1. destruct l as [|z l]; [destruct n; constructor|].
  destruct n as [|n]; [constructor|]. cbn [firstn] in H1 |- *. constructor; [inversion Hs; assumption|exact H1].
Qed.
Lemma ie_in_firstn {A} n (l : list A) y : In y (firstn n l) -> In y l.
Proof. intros H. rewrite <- (firstn_skipn n l). apply in_or_app. left. exact H. Qed.
Lemma ie_in_skipn {A} n (l : list A) y : In y (skipn n l) -> In y l.
Proof. intros H. rewrite <- (firstn_skipn n l). apply in_or_app. right. exact H. Qed.
Lemma ie_skipn_cons {A} (d : A) : forall n l, (n < length l)%nat -> skipn n l = nth n l d :: skipn (S n) l.
Proof.
  induction n as [|n IH]; intros l Hn; destruct l as [|a l]; cbn [length] in Hn; try lia; [reflexivity|].
  cbn [skipn nth]. rewrite (IH l) by lia. reflexivity.
Qed.

(* ---- knot_spans: strictly increasing with gaps > tol ---- *)
Definition gapt (tol a b : R) : Prop := a + tol < b.

Lemma uniq_tol_gap tol : 0 <= tol -> forall l lst, lsorted (lst :: l) ->
  StronglySorted (gapt tol) (lst :: @uniq_tol R NumR tol lst l).
Proof.
  intros Ht. induction l as [|x l IH]; intros lst Hs; cbn [uniq_tol]; [constructor; constructor|].
  cbn [nltb nsub NumR]. rewrite nabs_R.
  assert (Hle : lst <= x) by (inversion Hs; assumption).
  destruct (Rltb_spec tol (Rabs (x - lst))) as [A|A].
  - rewrite Rabs_right in A by lra.
    pose proof (IH x (lsorted_tl _ _ Hs)) as SS. constructor; [exact SS|].
    constructor; [unfold gapt; lra|]. apply StronglySorted_inv in SS. destruct SS as [_ F].
    eapply Forall_impl; [|exact F]. intros y Hy. unfold gapt in *. lra.
  - apply IH. apply (ie_lsorted_drop2 _ _ _ Hs).
Qed.

Lemma ssorted_gap_lt tol l : 0 <= tol -> StronglySorted (gapt tol) l -> StronglySorted Rlt l.
Proof. intros Ht. apply ssorted_impl. intros a b G. unfold gapt in G. lra. Qed.

Lemma ssorted_NoDup l : StronglySorted Rlt l -> NoDup l.
Proof.
  induction 1 as [|a l Hs IH Hf]; constructor; [|exact IH]. intros Hin. rewrite Forall_forall in Hf. pose proof (Hf a Hin). lra.
Qed.

(* every knot value lies in the parametric domain (true for open knot vectors) *)
Definition clamped (k : list R) (p : nat) : Prop := forall x, In x k -> @kn R NumR k (p - 1) <= x <= @kn R NumR k (length k - p).

Lemma open_clamped (k : list R) p : lsorted k -> (1 <= p)%nat -> (2 * p <= length k)%nat -> open_knots k p -> clamped k p.
Proof.
  intros Hs Hp Hlen [O1 O2] x Hx. rewrite (kn_in k (p - 1) ltac:(lia) 0), (kn_in k (length k - p) ltac:(lia) 0).
  rewrite (O1 (p - 1)%nat ltac:(lia)). replace (length k - p)%nat with (length k - 1 - (p - 1))%nat by lia. rewrite (O2 (p - 1)%nat ltac:(lia)).
  destruct (In_nth k x 0 Hx) as (j & Hj & <-). split; apply lsorted_nth; try assumption; lia.
Qed.

Section Spans.
Variable tol : R.
Hypothesis Htol : 0 < tol.
Variable k : list R.
Variable p : nat.
Hypothesis Hs : lsorted k.
Hypothesis Hp : (2 <= p)%nat.
Hypothesis Hlen : (2 * p <= length k)%nat.
Hypothesis Hcl : clamped k p.
Hypothesis Hsep : separated tol k.
Local Notation vals := (@knot_spans R NumR tol (mkBasis p k 0) false).
Local Notation S := (firstn (length k - 2 * p + 2) (skipn (p - 1) k)).
Local Notation st := (@kn R NumR k (p - 1)).

Lemma vals_eq : vals = st :: @uniq_tol R NumR tol st S.
Proof. unfold knot_spans. cbn [b_knots b_order]. destruct (Nat.eqb_spec p 1); [lia|reflexivity]. Qed.

Lemma S_cons : exists S', S = st :: S'.
Proof.
  rewrite (ie_skipn_cons 0 (p - 1) k) by lia. replace (length k - 2 * p + 2)%nat with (Datatypes.S (length k - 2 * p + 1)) by lia.
  cbn [firstn]. rewrite (kn_in k (p - 1) ltac:(lia) 0). eexists. reflexivity.
Qed.

Lemma S_sorted : lsorted (st :: S).
Proof.
  assert (H : lsorted S) by (apply ie_lsorted_firstn, ie_lsorted_skipn, Hs).
  destruct S_cons as (S' & E). rewrite E in *. constructor; [lra|exact H].
Qed.

Lemma S_values x : In x (st :: S) <-> In x k.
Proof.
  split.
  - intros [<-|H]; [apply kn_In'; lia|]. eapply ie_in_skipn, ie_in_firstn, H.
  - intros Hx. right. destruct (In_nth k x 0 Hx) as (j & Hj & <-).
    assert (HS : forall i, (i < length k - 2 * p + 2)%nat -> In (nth (p - 1 + i) k 0) S).
    { intros i Hi. rewrite <- nth_skipn_add. rewrite <- (nth_firstn_lt _ (length k - 2 * p + 2)) by exact Hi.
      apply nth_In. rewrite firstn_length, skipn_length. lia. }
    destruct (Hcl (nth j k 0) (nth_In k 0 Hj)) as [C1 C2].
    rewrite (kn_in k (p - 1) ltac:(lia) 0) in C1. rewrite (kn_in k (length k - p) ltac:(lia) 0) in C2.
    destruct (Nat.lt_ge_cases j (p - 1)) as [A|A].
    + pose proof (lsorted_nth k Hs j (p - 1) ltac:(lia)).
      replace (nth j k 0) with (nth (p - 1 + 0) k 0) by (rewrite Nat.add_0_r; lra). apply HS. lia.
    + destruct (Nat.le_gt_cases j (length k - p)) as [B|B].
      * replace j with (p - 1 + (j - (p - 1)))%nat by lia. apply HS. lia.
      * pose proof (lsorted_nth k Hs (length k - p) j ltac:(lia)).
        replace (nth j k 0) with (nth (p - 1 + (length k - p - (p - 1))) k 0) by (replace (p - 1 + (length k - p - (p - 1)))%nat with (length k - p)%nat by lia; lra).
        apply HS. lia.
Qed.

Lemma vals_gap : StronglySorted (gapt tol) vals.
Proof. rewrite vals_eq. apply uniq_tol_gap; [lra|exact S_sorted]. Qed.

Lemma vals_in x : In x vals <-> In x k.
Proof.
  rewrite vals_eq. rewrite uniq_tol_values; [apply S_values|lra|].
  intros y z Hy Hz. apply Hsep; apply S_values; assumption.
Qed.
End Spans.

(* ---- BSplineBasis.continuity, exactly, when no other knot lies in the tolerance window ---- *)
Lemma continuity_mult (tol : R) (k : list R) (p : nat) (x : R) :
  sorted (@kn R NumR k) -> 0 < tol -> knot_sep tol k x ->
  @kn R NumR k (p - 1) <= x <= @kn R NumR k (length k - p) ->
  @basis_continuity R NumR tol (mkBasis p k 0) x =
    Ok (if (mult k x =? 0)%nat then None else Some (Z.of_nat p - Z.of_nat (mult k x) - 1)%Z).
Proof.
  intros HK Htol Hsep Hx.
  unfold basis_continuity, b_start, b_end. cbn [b_per1 b_order b_knots Nat.eqb negb andb].
  cbn [nltb nadd nsub NumR].
  destruct (Rltb_spec x (@kn R NumR k (p - 1))) as [A|A]; [lra|].
  destruct (Rltb_spec (@kn R NumR k (length k - p)) x) as [B|B]; [lra|]. cbn [orb].
  destruct (continuity_window k x tol HK Htol) as (W1 & W2). cbv zeta in *.
  set (hi := @py_bisect_left R NumR k (x + tol)) in *. set (lo := @py_bisect_left R NumR k (x - tol)) in *.
  pose proof (bisect_lr_le k x HK) as Hle.
  assert (Hbr : (@py_bisect_right R NumR k x <= length k)%nat).
  { unfold py_bisect_right. destruct (bisect_right_spec (@kn R NumR k) HK x (length k)) as (B1 & _). exact B1. }
  pose proof (fun j Hj => bisect_window k x j HK Hj) as W.
  rewrite (count_bisect k x HK).
  set (bl := @py_bisect_left R NumR k x) in *. set (br := @py_bisect_right R NumR k x) in *.
  assert (Same : forall j, (j < length k)%nat -> ((lo <= j < hi)%nat <-> (bl <= j < br)%nat)).
  { intros j Hj. rewrite (W2 j Hj), (W j Hj). split.
    - intros Hw. destruct (Hsep _ (kn_In' k j Hj)) as [E|[E|E]]; [exact E|lra|lra].
    - intros E. rewrite E. lra. }
  assert (Hdiff : (hi - lo = br - bl)%nat).
  { destruct (Nat.lt_ge_cases lo hi) as [L|L].
    - pose proof (proj1 (Same lo ltac:(lia)) ltac:(lia)). pose proof (proj1 (Same (hi - 1)%nat ltac:(lia)) ltac:(lia)).
      pose proof (proj2 (Same bl ltac:(lia)) ltac:(lia)). pose proof (proj2 (Same (br - 1)%nat ltac:(lia)) ltac:(lia)). lia.
    - destruct (Nat.lt_ge_cases bl br) as [L2|L2]; [|lia].
      pose proof (proj2 (Same bl ltac:(lia)) ltac:(lia)). lia. }
  destruct (Nat.eqb_spec hi lo) as [E|E]; destruct (Nat.eqb_spec (br - bl) 0) as [E2|E2]; try lia; [reflexivity|].
  do 2 f_equal. lia.
Qed.

(* ---- missing_knots in closed form ---- *)
Definition miss (ka kb vals : list R) : list R := flat_map (fun x => repeat x (mult ka x - mult kb x)) vals.

Lemma ins_count_mult p m1 m2 : (1 <= m1)%nat ->
  let c1 := Some (Z.of_nat p - Z.of_nat m1 - 1)%Z in
  let c2 := if (m2 =? 0)%nat then None else Some (Z.of_nat p - Z.of_nat m2 - 1)%Z in
  (if cont_gt c2 c1 then ins_count p c1 c2 else 0%nat) = (m1 - m2)%nat.
Proof.
  intros H1. cbv zeta. destruct (Nat.eqb_spec m2 0) as [E|E].
  - subst m2. cbn [cont_gt ins_count]. lia.
  - cbn [cont_gt ins_count]. destruct (Z.ltb_spec (Z.of_nat p - Z.of_nat m1 - 1) (Z.of_nat p - Z.of_nat m2 - 1)) as [L|L]; lia.
Qed.

Lemma missing_knots_closed tol p (ka kb : list R) :
  sorted (@kn R NumR ka) -> sorted (@kn R NumR kb) -> 0 < tol ->
  let vals := @knot_spans R NumR tol (mkBasis p ka 0) false in
  (forall x, In x vals -> In x ka /\ knot_sep tol ka x /\ knot_sep tol kb x /\
     @kn R NumR ka (p - 1) <= x <= @kn R NumR ka (length ka - p) /\ @kn R NumR kb (p - 1) <= x <= @kn R NumR kb (length kb - p)) ->
  @missing_knots R NumR tol p (mkBasis p ka 0) (mkBasis p kb 0) = Ok (miss ka kb vals).
Proof.
  intros HKa HKb Htol. cbv zeta. unfold missing_knots.
  generalize (@knot_spans R NumR tol (mkBasis p ka 0) false). intros vals Hv.
  assert (G : forall vs acc, (forall x, In x vs -> In x vals) ->
    fold_left (fun acc k =>
      match acc with
      | Err e => Err e
      | Ok l =>
        match @basis_continuity R NumR tol (mkBasis p ka 0) k, @basis_continuity R NumR tol (mkBasis p kb 0) k with
        | Ok c1, Ok c2 => if cont_gt c2 c1 then Ok (l ++ repeat k (ins_count p c1 c2)) else Ok l
        | Err e, _ => Err e
        | _, Err e => Err e
        end
      end) vs (Ok acc) = Ok (acc ++ miss ka kb vs)).
  { induction vs as [|x vs IH]; intros acc Hin; cbn [fold_left]; [unfold miss; cbn [flat_map]; rewrite app_nil_r; reflexivity|].
    destruct (Hv x (Hin x (or_introl eq_refl))) as (Ia & Sa & Sb & Ra & Rb).
    rewrite (continuity_mult tol ka p x HKa Htol Sa Ra), (continuity_mult tol kb p x HKb Htol Sb Rb).
    assert (M1 : (1 <= mult ka x)%nat) by (apply (count_occ_In Req_EM_T); exact Ia).
    destruct (Nat.eqb_spec (mult ka x) 0) as [E|_]; [lia|].
    pose proof (ins_count_mult p (mult ka x) (mult kb x) M1) as IC. cbv zeta in IC.
    unfold miss. cbn [flat_map]. fold (miss ka kb vs). rewrite <- IC. rewrite app_assoc.
    destruct (cont_gt _ _).
    - apply IH. intros y Hy. apply Hin. right. exact Hy.
    - cbn [repeat]. rewrite app_nil_r. apply IH. intros y Hy. apply Hin. right. exact Hy. }
  apply (G vals []). auto.
Qed.

(* ---- multiplicities in a list of repeated values ---- *)
Lemma count_flat_notin (c : R -> nat) vs v : ~ In v vs -> count_occ Req_EM_T (flat_map (fun x => repeat x (c x)) vs) v = 0%nat.
Proof.
  intros Hn. apply count_occ_not_In. intros Hin. apply in_flat_map in Hin.
  destruct Hin as (x & Hx & Hr). apply repeat_spec in Hr. subst v. contradiction.
Qed.
Lemma count_flat_in (c : R -> nat) vs v : StronglySorted Rlt vs -> In v vs -> count_occ Req_EM_T (flat_map (fun x => repeat x (c x)) vs) v = c v.
Proof.
  induction 1 as [|a l Hs IH Hf]; intros Hin; [destruct Hin|].
  cbn [flat_map]. rewrite count_occ_app.
  destruct (Req_EM_T v a) as [->|Hne].
  - rewrite count_occ_repeat_eq by reflexivity. rewrite count_flat_notin; [lia|].
    intros Ha. rewrite Forall_forall in Hf. pose proof (Hf a Ha). lra.
  - rewrite count_occ_repeat_neq by exact Hne. destruct Hin as [E|Hin]; [congruence|]. rewrite IH by exact Hin. lia.
Qed.

(* the multiplicities after the missing knots have been added *)
Lemma mult_after_miss (ka kb vals kf : list R) v : StronglySorted Rlt vals -> (forall x, In x vals <-> In x ka) ->
  Permutation kf (miss ka kb vals ++ kb) -> mult kf v = Nat.max (mult ka v) (mult kb v).
Proof.
  intros SS Hv P. unfold mult at 1. rewrite (proj1 (Permutation_count_occ Req_EM_T _ _) P v), count_occ_app. unfold miss.
  destruct (In_dec Req_EM_T v vals) as [I|N].
  - rewrite (count_flat_in _ vals v SS I). fold (mult kb v). lia.
  - rewrite (count_flat_notin _ vals v N). fold (mult kb v).
    assert (mult ka v = 0%nat) by (apply count_occ_not_In; intros H; apply N, Hv, H). lia.
Qed.

(* ---- multiplicities after raise_order ---- *)
Lemma spans_true_count tol (l : list R) p x : 0 <= tol -> lsorted l -> l <> [] ->
  In x (@knot_spans R NumR tol (mkBasis p l 0) true) -> count_occ Rdec (@knot_spans R NumR tol (mkBasis p l 0) true) x = 1%nat.
Proof.
  intros Ht Hs Hne Hin. unfold knot_spans in *. cbn [b_knots b_order] in *.
  destruct l as [|a l0]; [congruence|]. change (@kn R NumR (a :: l0) 0) with a in *.
  assert (SS : StronglySorted (gapt tol) (a :: @uniq_tol R NumR tol a (a :: l0))).
  { apply uniq_tol_gap; [exact Ht|]. constructor; [lra|exact Hs]. }
  apply ssorted_gap_lt in SS; [|exact Ht]. apply ssorted_NoDup in SS.
  pose proof (proj1 (NoDup_count_occ Rdec _) SS x). pose proof (proj1 (count_occ_In Rdec _ x) Hin). lia.
Qed.

Lemma mult_chain tol (l : list R) p a x : 0 <= tol -> lsorted l -> l <> [] -> separated tol l -> In x l ->
  mult (chain l (@knot_spans R NumR tol (mkBasis p l 0) true) a) x = (mult l x + a)%nat.
Proof.
  intros Ht Hs Hne Hsep Hx. unfold mult.
  rewrite (proj1 (Permutation_count_occ Req_EM_T _ _) (chain_perm l _ a) x), count_occ_app.
  change Req_EM_T with Rdec. rewrite count_repeat_list.
  rewrite (spans_true_count tol l p x Ht Hs Hne); [lia|]. apply (knot_spans_values tol p l Ht Hne Hsep). exact Hx.
Qed.

(* sorted lists with the same multiplicities are equal *)
Lemma sorted_mult_eq (l1 l2 : list R) : lsorted l1 -> lsorted l2 -> (forall v, mult l1 v = mult l2 v) -> l1 = l2.
Proof. intros S1 S2 H. apply sorted_perm_unique; [exact S1|exact S2|]. apply (Permutation_count_occ Req_EM_T). exact H. Qed.

(* separation of the values of two lists, seen from one value *)
Lemma separated_knot_sep tol (l : list R) x : 0 < tol -> separated tol l -> In x l -> forall k, (forall v, In v k -> In v l) -> knot_sep tol k x.
Proof.
  intros Ht Hsep Hx k Hk v Hv. destruct (Hsep v x (Hk v Hv) Hx) as [E|E]; [left; exact E|right].
  unfold Rabs in E. destruct (Rcase_abs (v - x)); [left; lra|right; lra].
Qed.


(* ================================================================================================ *)
(* Part C: the steps of make_splines_identical on the object *)

Lemma obj_insert_knots_app (o : obj R) d xs : forall ys (o0 : obj R), o0 = o ->
  @obj_insert_knots R NumR o d (xs ++ ys)
  = match @obj_insert_knots R NumR o d xs with Ok o1 => @obj_insert_knots R NumR o1 d ys | Err e => Err e end.
Proof.
  intros ys o0 _. revert o. induction xs as [|x xs IH]; intros o; [reflexivity|].
  cbn [app obj_insert_knots]. destruct (@basis_insert_knot R NumR _ x) as [[b' C]|e]; [apply IH|reflexivity].
Qed.

(* ---- inserting c(x) copies of every x of an increasing list ---- *)
Section InsertFlat.
Variable tol : R.
Hypothesis Htol : 0 < tol.
Variable d p : nat.
Variable c : R -> nat.
Variables s0 e0 : R.
Local Notation fl := (flat_map (fun x => repeat x (c x))).

Lemma insert_flat : forall (rest : list R) (oc : obj R) (kc : list R),
  wf_obj_R tol oc -> (d < length (o_bases oc))%nat -> nth d (o_bases oc) dflt_basis = mkBasis p kc 0 ->
  @kn R NumR kc (p - 1) = s0 -> @kn R NumR kc (length kc - p) = e0 ->
  Forall (fun x => c x = 0%nat \/ s0 <= x < e0) rest ->
  StronglySorted (fun a b => a + tol <= b) rest ->
  exists so kf, @obj_insert_knots R NumR oc d (fl rest) = Ok so /\ same_frame tol d p oc kc so kf /\
    Permutation kf (fl rest ++ kc) /\
    forall ts, dom_all tol oc ts -> Forall (fun x => c x = 0%nat \/ ins_ok tol kc x (nth d ts 0)) rest ->
      @obj_eval R NumR tol so ts = @obj_eval R NumR tol oc ts /\
      @snap1 R NumR kf tol (nth d ts 0) = @snap1 R NumR kc tol (nth d ts 0).
Proof.
  induction rest as [|x rest IH]; intros oc kc Hwf Hd Hb Hs He Hin Hsp.
  - exists oc, kc. split; [reflexivity|]. split.
    + split; [exact Hwf|]. split; [reflexivity|]. split; [intros; reflexivity|]. split; [exact Hb|]. split; reflexivity.
    + split; [apply Permutation_refl|]. intros ts _ _. split; reflexivity.
  - pose proof (Forall_inv Hin) as Hx. pose proof (Forall_inv_tail Hin) as Hin'. cbv beta in Hx.
    destruct (StronglySorted_inv Hsp) as [Hsp' Hgap].
    destruct (Nat.eq_dec (c x) 0) as [C0|C0].
    + destruct (IH oc kc Hwf Hd Hb Hs He Hin' Hsp') as (so & kf & Hok & Hf & Hp & Hev).
      exists so, kf. cbn [flat_map]. rewrite C0. cbn [repeat app]. split; [exact Hok|]. split; [exact Hf|]. split; [exact Hp|].
      intros ts Hdom Hins. apply (Hev ts Hdom). exact (Forall_inv_tail Hins).
    + destruct Hx as [Hx|Hx]; [contradiction|].
      destruct (insert_copies tol Htol d x p (c x) oc kc Hwf Hd Hb ltac:(rewrite Hs, He; exact Hx))
        as (o1 & k1 & Hok1 & Hf1 & Hp1 & Hev1).
      pose proof Hf1 as (Hwf1 & Hl1 & Hoth1 & Hb1 & Hs1 & He1).
      destruct (IH o1 k1 Hwf1 ltac:(lia) Hb1 ltac:(rewrite Hs1; exact Hs) ltac:(rewrite He1; exact He) Hin' Hsp')
        as (so & kf & Hok2 & Hf2 & Hp2 & Hev2).
      exists so, kf. split.
      * cbn [flat_map]. rewrite (obj_insert_knots_app oc d _ _ oc eq_refl), Hok1. exact Hok2.
      * split; [apply (same_frame_trans tol d p oc kc o1 k1 so kf Hf1 Hf2)|]. split.
        -- rewrite Hp2, Hp1. cbn [flat_map]. rewrite <- !app_assoc.
           rewrite (app_assoc (fl rest)), (app_assoc (repeat x _)). apply Permutation_app_tail. apply Permutation_app_comm.
        -- intros ts Hdom Hins. pose proof (Forall_inv Hins) as Hix. pose proof (Forall_inv_tail Hins) as Hins'. cbv beta in Hix.
           destruct Hix as [Hix|Hix]; [contradiction|].
           destruct (Hev1 ts Hdom (or_intror Hix)) as (A1 & A2).
           destruct (Hev2 ts (dom_transfer tol d p oc kc o1 k1 ts Hd Hb Hf1 A2 Hdom)) as (B1 & B2).
           { rewrite Forall_forall in *. intros y Hy. pose proof (Hgap y Hy) as Hxy.
             destruct (Hins' y Hy) as [Cy|[Iy|[Hfar Ht]]]; [left; exact Cy| |].
             - right. left. apply (Permutation_in _ (Permutation_sym Hp1)). apply in_or_app. right. exact Iy.
             - right. right. split; [|exact Ht]. intros v Hv. apply (Permutation_in _ Hp1) in Hv. apply in_app_or in Hv.
               destruct Hv as [Hv|Hv]; [|apply Hfar; exact Hv].
               apply repeat_spec in Hv. subst v. rewrite Rabs_left1 by lra. lra. }
           split; [rewrite B1; exact A1|rewrite B2; exact A2].
Qed.
End InsertFlat.

(* ---- raise_order: structure of the result ---- *)
Section RaiseStruct.
Variable tol : R.
Hypothesis Htol : 0 < tol.

Lemma change_bases_struct : forall (news : list (basis R)) (o : obj R) (d : nat) (o' : obj R),
  wf_obj_R tol o ->
  (d + length news = length (o_bases o))%nat ->
  (forall j, (j < length news)%nat ->
     good_dir tol (nth (d + j) (o_bases o) dflt_basis) /\
     exists a, nth j news dflt_basis = @basis_raise_order R NumR tol (nth (d + j) (o_bases o) dflt_basis) a) ->
  @obj_change_bases R NumR tol o d news = Ok o' ->
  wf_obj_R tol o' /\ length (o_bases o') = length (o_bases o) /\
  (forall j, (j < d)%nat -> nth j (o_bases o') dflt_basis = nth j (o_bases o) dflt_basis) /\
  (forall j, (j < length news)%nat -> nth (d + j) (o_bases o') dflt_basis = nth j news dflt_basis) /\
  o_dim o' = o_dim o /\ o_rat o' = o_rat o.
Proof.
  induction news as [|bn rest IH]; intros o d o' Hwf Hlen Hnews Hch.
  - cbn [obj_change_bases] in Hch. injection Hch as <-. split; [exact Hwf|]. split; [reflexivity|]. split; [intros; reflexivity|].
    split; [intros j Hj; cbn in Hj; lia|]. split; reflexivity.
  - cbn [obj_change_bases] in Hch. cbv zeta in Hch. change (mkBasis 0 [] 0) with dflt_basis in Hch.
    assert (Hd : (d < length (o_bases o))%nat) by (cbn [length] in Hlen; lia).
    destruct (Hnews 0%nat ltac:(cbn; lia)) as ((Hper & Hs & Hopen & Hsep & Hdm) & a & Ebn).
    rewrite Nat.add_0_r in Hper, Hs, Hopen, Hsep, Hdm, Ebn. cbn [nth] in Ebn.
    set (bo := nth d (o_bases o) dflt_basis) in *.
    destruct (bd_wf tol o Hwf d Hd) as (HK & Hp & Hl & Hn & Hw). fold bo in HK, Hp, Hl, Hn, Hw.
    assert (Ebo : bo = mkBasis (b_order bo) (b_knots bo) 0).
    { destruct bo as [pp kk per]. cbn [b_per1 b_order b_knots] in *. rewrite Hper. reflexivity. }
    set (l := b_knots bo) in *. set (p := b_order bo) in *.
    destruct (raise_dir_facts l p a tol Hs Hp Hl Hopen Htol Hsep Hdm) as (EB & HKL & HLl & HNp & Hvals & Hst & Hen & Hrel).
    set (L := chain l (@knot_spans R NumR tol (mkBasis p l 0) true) a) in *.
    assert (Ebn' : bn = mkBasis (p + a) L 0) by (rewrite Ebn, Ebo; exact EB).
    destruct (@order_change_matrix R NumR tol bo bn) as [M|e] eqn:EM; [|discriminate].
    assert (HrelM : forall side t, row_rel (Brow side l p t) (Brow side L (p + a) t) M).
    { intros side t. apply Hrel. rewrite <- Ebo, <- Ebn. exact EM. }
    set (o1 := mkObj (upd (o_bases o) d bn) (@apply_dir R NumR (@o_ncomp R o) (@o_shape R o) d M (o_cps o)) (o_dim o) (o_rat o)) in *.
    assert (Eo1 : o1 = mkObj (upd (o_bases o) d (mkBasis (p + a) L 0)) (@apply_dir R NumR (@o_ncomp R o) (@o_shape R o) d M (o_cps o)) (o_dim o) (o_rat o))
      by (unfold o1; rewrite Ebn'; reflexivity).
    assert (Hwf1 : wf_obj_R tol o1).
    { rewrite Eo1. apply (change_dir_wf tol o Hwf d Hd Hper L (p + a) M HKL ltac:(lia) HLl HNp Hst Hen HrelM). }
    destruct (IH o1 (S d) o' Hwf1) as (A1 & A2 & A3 & A4 & A5 & A6).
    + unfold o1. cbn [o_bases]. rewrite upd_length. cbn [length] in Hlen. lia.
    + intros j Hj. unfold o1. cbn [o_bases]. rewrite upd_nth_other by lia.
      replace (S d + j)%nat with (d + S j)%nat by lia. destruct (Hnews (S j) ltac:(cbn [length]; lia)) as (G & a' & E'). split; [exact G|].
      exists a'. exact E'.
    + exact Hch.
    + split; [exact A1|]. split; [rewrite A2; unfold o1; cbn [o_bases]; apply upd_length|]. split.
      * intros j Hj. rewrite (A3 j ltac:(lia)). unfold o1. cbn [o_bases]. apply upd_nth_other. lia.
      * split; [|split; [exact A5|exact A6]]. intros j Hj. destruct j as [|j].
        -- rewrite Nat.add_0_r. rewrite (A3 d ltac:(lia)). unfold o1. cbn [o_bases nth]. apply upd_nth_same. exact Hd.
        -- replace (d + S j)%nat with (S d + j)%nat by lia. cbn [nth]. apply A4. cbn [length] in Hj. lia.
Qed.

Lemma raise_order_struct (o o' : obj R) (raises : list nat) :
  wf_obj_R tol o -> length raises = length (o_bases o) ->
  (forall j, (j < length (o_bases o))%nat -> good_dir tol (nth j (o_bases o) dflt_basis)) ->
  @obj_raise_order R NumR tol o raises = Ok o' ->
  wf_obj_R tol o' /\ length (o_bases o') = length (o_bases o) /\
  (forall j, (j < length (o_bases o))%nat ->
     nth j (o_bases o') dflt_basis = @basis_raise_order R NumR tol (nth j (o_bases o) dflt_basis) (nth j raises 0%nat)) /\
  o_dim o' = o_dim o /\ o_rat o' = o_rat o.
Proof.
  intros Hwf Hlr Hgood. unfold obj_raise_order.
  destruct (forallb _ raises) eqn:Hall.
  - intros [= <-]. split; [exact Hwf|]. split; [reflexivity|]. split; [|split; reflexivity].
    intros j Hj. rewrite forallb_forall in Hall.
    assert (E : nth j raises 0%nat = 0%nat) by (apply Nat.eqb_eq, Hall, nth_In; lia). rewrite E. reflexivity.
  - destruct (_ && _); [discriminate|].
    intros Hch.
    assert (Hlm : length (map (fun br : basis R * nat => @basis_raise_order R NumR tol (fst br) (snd br)) (combine (o_bases o) raises)) = length (o_bases o))
      by (rewrite map_length, combine_length, Hlr, Nat.min_id; reflexivity).
    assert (Hnm : forall j, (j < length (o_bases o))%nat ->
              nth j (map (fun br : basis R * nat => @basis_raise_order R NumR tol (fst br) (snd br)) (combine (o_bases o) raises)) dflt_basis
              = @basis_raise_order R NumR tol (nth j (o_bases o) dflt_basis) (nth j raises 0%nat)).
    { intros j Hj. rewrite (nth_map_gen _ _ j dflt_basis (dflt_basis, 0%nat)) by (rewrite combine_length, Hlr, Nat.min_id; exact Hj).
      rewrite combine_nth by (symmetry; exact Hlr). reflexivity. }
    destruct (change_bases_struct _ o 0%nat o' Hwf ltac:(rewrite Hlm; reflexivity)) as (A1 & A2 & _ & A4 & A5 & A6); [|exact Hch|].
    + intros j Hj. rewrite Hlm in Hj. cbn [Nat.add]. split; [apply Hgood; exact Hj|]. exists (nth j raises 0%nat). apply Hnm. exact Hj.
    + split; [exact A1|]. split; [exact A2|]. split; [|split; assumption].
      intros j Hj. rewrite <- (Hnm j Hj). apply (A4 j). rewrite Hlm. exact Hj.
Qed.
End RaiseStruct.

Lemma unit_vec_nth n i v j : (j < n)%nat -> nth j (unit_vec n i v) 0%nat = if (j =? i)%nat then v else 0%nat.
Proof.
  intros Hj. unfold unit_vec. rewrite (nth_map_gen _ _ j 0%nat 0%nat) by (rewrite seq_length; exact Hj).
  rewrite seq_nth by exact Hj. reflexivity.
Qed.
Lemma unit_vec_length n i v : length (unit_vec n i v) = n.
Proof. unfold unit_vec. rewrite map_length, seq_length. reflexivity. Qed.

Lemma good_dir_eta tol (b : basis R) : good_dir tol b -> b = mkBasis (b_order b) (b_knots b) 0.
Proof. intros (Hper & _). destruct b as [pp kk per]. cbn [b_per1 b_order b_knots] in *. rewrite Hper. reflexivity. Qed.

(* ---- one raise_order call of make_splines_identical: only direction i is raised, by a ---- *)
Section RaiseStep.
Variable tol : R.
Hypothesis Htol : 0 < tol.
Variable o : obj R.
Hypothesis Hwf : wf_obj_R tol o.
Variable i : nat.
Hypothesis Hi : (i < length (o_bases o))%nat.
Variable a : nat.
Local Notation bi := (nth i (o_bases o) dflt_basis).
Hypothesis Gi : good_dir tol bi.
Hypothesis Gall : a <> 0%nat -> forall j, (j < length (o_bases o))%nat -> j <> i -> good_dir tol (nth j (o_bases o) dflt_basis).
Variable o' : obj R.
Hypothesis Hr : @obj_raise_order R NumR tol o (unit_vec (length (o_bases o)) i a) = Ok o'.
Local Notation l := (b_knots bi).
Local Notation p := (b_order bi).
Local Notation L := (chain l (@knot_spans R NumR tol (mkBasis p l 0) true) a).

Lemma raise_step :
  wf_obj_R tol o' /\ length (o_bases o') = length (o_bases o) /\
  (forall j, j <> i -> nth j (o_bases o') dflt_basis = nth j (o_bases o) dflt_basis) /\
  nth i (o_bases o') dflt_basis = mkBasis (p + a) L 0 /\ o_dim o' = o_dim o /\ o_rat o' = o_rat o /\
  lsorted L /\ (forall x, In x l <-> In x L) /\
  @kn R NumR L (p + a - 1) = @kn R NumR l (p - 1) /\ @kn R NumR L (length L - (p + a)) = @kn R NumR l (length l - p) /\
  (forall x, In x l -> mult L x = (mult l x + a)%nat) /\
  forall ts, dom_all tol o ts -> @obj_eval R NumR tol o' ts = @obj_eval R NumR tol o ts.
Proof.
  pose proof Gi as (Hper & Hs & Hopen & Hsep & Hdm).
  destruct (bd_wf tol o Hwf i Hi) as (HK & Hp & Hl & Hn & Hw).
  assert (Hne : l <> []) by (destruct l; [cbn in Hl; lia|discriminate]).
  destruct (raise_dir_facts l p a tol Hs Hp Hl Hopen Htol Hsep Hdm) as (EB & HKL & HLl & HNp & Hvals & Hst & Hen & _).
  assert (ListFacts : lsorted L /\ (forall x, In x l <-> In x L) /\
    @kn R NumR L (p + a - 1) = @kn R NumR l (p - 1) /\ @kn R NumR L (length L - (p + a)) = @kn R NumR l (length l - p) /\
    (forall x, In x l -> mult L x = (mult l x + a)%nat)).
  { split; [apply chain_sorted, Hs|]. split; [exact Hvals|]. split; [exact Hst|]. split; [exact Hen|].
    intros x Hx. apply mult_chain; try assumption. lra. }
  destruct (Nat.eq_dec a 0) as [A0|A0].
  - assert (E : o' = o).
    { unfold obj_raise_order in Hr.
      assert (F : forallb (fun r => (r =? 0)%nat) (unit_vec (length (o_bases o)) i a) = true).
      { apply forallb_forall. intros r Hin. unfold unit_vec in Hin. apply in_map_iff in Hin. destruct Hin as (j & <- & _).
        rewrite A0. destruct (j =? i)%nat; reflexivity. }
      rewrite F in Hr. congruence. }
    rewrite E. split; [exact Hwf|]. split; [reflexivity|]. split; [intros; reflexivity|].
    split; [rewrite A0; cbn [chain]; rewrite Nat.add_0_r; apply good_dir_eta with (tol := tol); exact Gi|].
    split; [reflexivity|]. split; [reflexivity|].
    destruct ListFacts as (F1 & F2 & F3 & F4 & F5). repeat (split; [assumption|]). intros; reflexivity.
  - assert (Hgood : forall j, (j < length (o_bases o))%nat -> good_dir tol (nth j (o_bases o) dflt_basis)).
    { intros j Hj. destruct (Nat.eq_dec j i) as [->|Hne']; [exact Gi|apply Gall; assumption]. }
    destruct (raise_order_struct tol Htol o o' _ Hwf (unit_vec_length _ _ _) Hgood Hr) as (A1 & A2 & A3 & A4 & A5).
    split; [exact A1|]. split; [exact A2|]. split.
    { intros j Hj. destruct (Nat.lt_ge_cases j (length (o_bases o))) as [Lj|Lj].
      - rewrite (A3 j Lj), unit_vec_nth by exact Lj. destruct (Nat.eqb_spec j i); [contradiction|]. reflexivity.
      - rewrite !nth_overflow by lia. reflexivity. }
    split.
    { rewrite (A3 i Hi), unit_vec_nth by exact Hi. rewrite Nat.eqb_refl. rewrite (good_dir_eta tol bi Gi) at 1. exact EB. }
    split; [exact A4|]. split; [exact A5|].
    destruct ListFacts as (F1 & F2 & F3 & F4 & F5). repeat (split; [assumption|]).
    intros ts Hdom. apply (raise_order_eval tol Htol ts o o' _ Hwf (unit_vec_length _ _ _) Hgood Hdom Hr).
Qed.
End RaiseStep.

(* ---- one "insert the missing knots" step ---- *)
Section InsStage.
Variable tol : R.
Hypothesis Htol : 0 < tol.
Variable i p : nat.
Hypothesis Hp : (2 <= p)%nat.
Variable oc : obj R.
Variables kfrom kc : list R.
Hypothesis Hwf : wf_obj_R tol oc.
Hypothesis Hi : (i < length (o_bases oc))%nat.
Hypothesis Hb : nth i (o_bases oc) dflt_basis = mkBasis p kc 0.
Hypothesis Hsf : lsorted kfrom.
Hypothesis Hlf : (2 * p <= length kfrom)%nat.
Hypothesis Hcf : clamped kfrom p.
Hypothesis Hst : @kn R NumR kfrom (p - 1) = @kn R NumR kc (p - 1).
Hypothesis Hen : @kn R NumR kfrom (length kfrom - p) = @kn R NumR kc (length kc - p).
Hypothesis Hsep : separated tol (kfrom ++ kc).
Hypothesis Hend : (mult kfrom (@kn R NumR kc (length kc - p)) <= mult kc (@kn R NumR kc (length kc - p)))%nat.

Lemma ins_stage :
  exists ins so kf,
    @missing_knots R NumR tol p (mkBasis p kfrom 0) (mkBasis p kc 0) = Ok ins /\
    @obj_insert_knots R NumR oc i ins = Ok so /\ same_frame tol i p oc kc so kf /\
    lsorted kf /\ (2 * p <= length kf)%nat /\
    (forall v, mult kf v = Nat.max (mult kfrom v) (mult kc v)) /\
    forall ts, dom_all tol oc ts -> knot_clear kfrom tol (nth i ts 0) ->
      @obj_eval R NumR tol so ts = @obj_eval R NumR tol oc ts /\ dom_all tol so ts.
Proof.
  destruct (bd_wf tol oc Hwf i Hi) as (HKc & Hpc & Hlc & _). rewrite Hb in HKc, Hpc, Hlc. cbn [b_knots b_order] in *.
  pose proof (sorted_kn_lsorted kfrom Hsf) as HKf.
  assert (Hsepf : separated tol kfrom).
  { intros y z Hy Hz. apply Hsep; apply in_or_app; left; assumption. }
  set (vals := @knot_spans R NumR tol (mkBasis p kfrom 0) false).
  pose proof (vals_gap tol Htol kfrom p Hsf Hp Hlf) as VG. fold vals in VG.
  pose proof (vals_in tol Htol kfrom p Hsf Hp Hlf Hcf Hsepf) as VI. fold vals in VI.
  assert (VLt : StronglySorted Rlt vals) by (apply (ssorted_gap_lt tol); [lra|exact VG]).
  assert (Hmk : @missing_knots R NumR tol p (mkBasis p kfrom 0) (mkBasis p kc 0) = Ok (miss kfrom kc vals)).
  { apply missing_knots_closed; try assumption. fold vals. intros x Hx. apply VI in Hx.
    split; [exact Hx|].
    split; [apply (separated_knot_sep tol (kfrom ++ kc) x Htol Hsep); [apply in_or_app; left; exact Hx|intros v Hv; apply in_or_app; left; exact Hv]|].
    split; [apply (separated_knot_sep tol (kfrom ++ kc) x Htol Hsep); [apply in_or_app; left; exact Hx|intros v Hv; apply in_or_app; right; exact Hv]|].
    split; [apply Hcf; exact Hx|]. rewrite <- Hst, <- Hen. apply Hcf; exact Hx. }
  destruct (insert_flat tol Htol i p (fun x => (mult kfrom x - mult kc x)%nat) (@kn R NumR kc (p - 1)) (@kn R NumR kc (length kc - p))
              vals oc kc Hwf Hi Hb eq_refl eq_refl) as (so & kf & Hok & Hf & Hperm & Hev).
  { apply Forall_forall. intros x Hx. apply VI in Hx. destruct (Hcf x Hx) as [C1 C2]. rewrite Hst in C1. rewrite Hen in C2.
    destruct (Req_EM_T x (@kn R NumR kc (length kc - p))) as [E|E]; [left; rewrite E; lia|right; lra]. }
  { apply (ssorted_impl (gapt tol)); [|exact VG]. intros u v G. unfold gapt in G. lra. }
  pose proof Hf as (Hwfs & Hls & Hoths & Hbs & Hss & Hes).
  destruct (bd_wf tol so Hwfs i ltac:(lia)) as (HKk & _ & Hlk & _). rewrite Hbs in HKk, Hlk. cbn [b_knots b_order] in *.
  exists (miss kfrom kc vals), so, kf. split; [exact Hmk|]. split; [exact Hok|]. split; [exact Hf|].
  split; [apply lsorted_of_kn; exact HKk|]. split; [exact Hlk|]. split.
  { intros v. apply (mult_after_miss kfrom kc vals kf v VLt VI). exact Hperm. }
  intros ts Hdom HC.
  destruct (Hev ts Hdom) as (Ev & Sn).
  { apply Forall_forall. intros x Hx. apply VI in Hx. right.
    destruct (In_dec Req_EM_T x kc) as [Ik|Nk]; [left; exact Ik|right]. split.
    - intros v Hv. destruct (Hsep v x ltac:(apply in_or_app; right; exact Hv) ltac:(apply in_or_app; left; exact Hx)) as [E|E]; [subst v; contradiction|lra].
    - destruct (HC x Hx) as [E|E]; [left; symmetry; exact E|right; exact E]. }
  split; [exact Ev|]. apply (dom_transfer tol i p oc kc so kf ts Hi Hb Hf Sn Hdom).
Qed.
End InsStage.


(* ================================================================================================ *)
(* Part D: reparam to [0,1] followed by raise_order, for one object *)
Section NormRaise.
Variable tol : R.
Hypothesis Htol : 0 < tol.
Hypothesis Htol2 : 2 * tol <= 1.
Variable a0 : obj R.
Hypothesis Hwf : wf_obj_R tol a0.
Variable i : nat.
Hypothesis Hi : (i < length (o_bases a0))%nat.
Variable r : nat.
Local Notation b := (nth i (o_bases a0) dflt_basis).
Local Notation nb := (rp_basis b 0 1).
Hypothesis Gi : good_dir tol nb.
Hypothesis Gall : r <> 0%nat -> forall j, (j < length (o_bases a0))%nat -> j <> i -> good_dir tol (nth j (o_bases a0) dflt_basis).
Local Notation a1 := (rp_obj a0 i 0 1).
Variable a3 : obj R.
Hypothesis Hr : @obj_raise_order R NumR tol a1 (unit_vec (length (o_bases a1)) i r) = Ok a3.
Local Notation l := (b_knots nb).
Local Notation p := (b_order b).
Local Notation L := (chain l (@knot_spans R NumR tol (mkBasis p l 0) true) r).

Lemma nr_wfb : wf_basis_R tol b.
Proof. exact (ol_wfb tol a0 Hwf i Hi). Qed.
Lemma nr_ne : b_knots b <> [].
Proof. exact (dir_ne tol b nr_wfb). Qed.
Lemma nr_dom : @b_start R NumR b < @b_end R NumR b.
Proof. exact (dir_dom tol Htol b nr_wfb). Qed.
Lemma nr_per : b_per1 b = 0%nat.
Proof. destruct Gi as (H & _). exact H. Qed.
Lemma nr_a1_ok : @obj_reparam_dir R NumR a0 i 0 1 = Ok a1.
Proof. apply (obj_reparam_dir_ok tol Htol a0 Hwf i Hi 0 1). lra. Qed.
Lemma nr_a1_wf : wf_obj_R tol a1.
Proof. apply (reparam_dir_wf tol a0 i 0 1 a1 Htol Hwf Hi ltac:(lra) nr_a1_ok). lra. Qed.
Lemma nr_a1_len : length (o_bases a1) = length (o_bases a0).
Proof. cbn [rp_obj o_bases]. apply upd_length. Qed.
Lemma nr_a1_i : nth i (o_bases a1) dflt_basis = nb.
Proof. rewrite (ol_nth a0 i Hi 0 1 i). destruct (Nat.eq_dec i i); [reflexivity|congruence]. Qed.
Lemma nr_a1_other j : j <> i -> nth j (o_bases a1) dflt_basis = nth j (o_bases a0) dflt_basis.
Proof. intros Hj. rewrite (ol_nth a0 i Hi 0 1 j). destruct (Nat.eq_dec j i); [congruence|reflexivity]. Qed.
Lemma nr_start : @kn R NumR l (p - 1) = 0.
Proof. exact (rp_start b nr_ne 0 1). Qed.
Lemma nr_end : @kn R NumR l (length l - p) = 1.
Proof. exact (rp_end b nr_ne nr_dom 0 1). Qed.

Lemma norm_raise :
  wf_obj_R tol a3 /\ length (o_bases a3) = length (o_bases a0) /\
  (forall j, j <> i -> nth j (o_bases a3) dflt_basis = nth j (o_bases a0) dflt_basis) /\
  nth i (o_bases a3) dflt_basis = mkBasis (p + r) L 0 /\ o_dim a3 = o_dim a0 /\ o_rat a3 = o_rat a0 /\
  lsorted L /\ (forall x, In x l <-> In x L) /\
  @kn R NumR L (p + r - 1) = 0 /\ @kn R NumR L (length L - (p + r)) = 1 /\
  (forall x, In x l -> mult L x = (mult l x + r)%nat) /\
  forall ts, dom_all tol a0 ts -> (i < length ts)%nat ->
    knot_clear (b_knots b) (Rmax tol (tol / rp_al b 0 1)) (nth i ts 0) ->
    @obj_eval R NumR tol a3 (upd ts i (rp_map b 0 1 (nth i ts 0))) = @obj_eval R NumR tol a0 ts /\
    dom_all tol a3 (upd ts i (rp_map b 0 1 (nth i ts 0))).
Proof.
  assert (Hi1 : (i < length (o_bases a1))%nat) by (rewrite nr_a1_len; exact Hi).
  assert (Gi' : good_dir tol (nth i (o_bases a1) dflt_basis)) by (rewrite nr_a1_i; exact Gi).
  assert (Gall' : r <> 0%nat -> forall j, (j < length (o_bases a1))%nat -> j <> i -> good_dir tol (nth j (o_bases a1) dflt_basis)).
  { intros Hr0 j Hj Hne. rewrite nr_a1_other by exact Hne. apply Gall; [exact Hr0|rewrite <- nr_a1_len; exact Hj|exact Hne]. }
  pose proof (raise_step tol Htol a1 nr_a1_wf i Hi1 r Gi' Gall' a3 Hr) as RS. rewrite nr_a1_i in RS.
  change (b_order nb) with p in RS.
  destruct RS as (R1 & R2 & R3 & R4 & R5 & R6 & R7 & R8 & R9 & R10 & R11 & R12).
  split; [exact R1|]. split; [rewrite R2; exact nr_a1_len|].
  split; [intros j Hj; rewrite (R3 j Hj); apply nr_a1_other; exact Hj|].
  split; [exact R4|]. split; [exact R5|]. split; [exact R6|]. split; [exact R7|]. split; [exact R8|].
  split; [rewrite R9; exact nr_start|]. split; [rewrite R10; exact nr_end|]. split; [exact R11|].
  intros ts Hdom Hit HC. set (t := nth i ts 0) in *. set (ts' := upd ts i (rp_map b 0 1 t)).
  assert (Hin : b_per1 b <> 0%nat -> @b_start R NumR b <= t <= @b_end R NumR b) by (intros C; pose proof nr_per; congruence).
  assert (Ei : nth i ts' 0 = rp_map b 0 1 t) by (unfold ts'; apply upd_nth_same; exact Hit).
  assert (Eo : forall j, j <> i -> nth j ts' 0 = nth j ts 0) by (intros j Hj; unfold ts'; apply upd_nth_other; exact Hj).
  assert (Ev1 : @obj_eval R NumR tol a1 ts' = @obj_eval R NumR tol a0 ts).
  { apply (eval_same tol Htol a0 Hwf i Hi 0 1 ltac:(lra) ts ts' Ei Eo HC Hin). }
  assert (Dom1 : dom_all tol a1 ts').
  { intros j Hj. rewrite nr_a1_len in Hj. destruct (Nat.eq_dec j i) as [->|Hne].
    - rewrite nr_a1_i, Ei. apply (proj1 (dir_same tol Htol b nr_wfb 0 1 ltac:(lra) t HC Hin)). apply Hdom. exact Hi.
    - rewrite nr_a1_other, Eo by exact Hne. apply Hdom. exact Hj. }
  split; [rewrite (R12 ts' Dom1); exact Ev1|].
  intros j Hj. rewrite R2, nr_a1_len in Hj. destruct (Nat.eq_dec j i) as [->|Hne].
  - rewrite R4. pose proof (Dom1 i Hi1) as D. rewrite nr_a1_i in D. unfold in_dom in *. cbn [b_per1 b_knots]. intros _.
    unfold b_start, b_end. cbn [b_knots b_order]. rewrite R9, R10.
    destruct Gi as (_ & Hs & _).
    rewrite (snap1_same_values l L tol (nth i ts' 0) (sorted_kn_lsorted l Hs) (sorted_kn_lsorted L R7) ltac:(intros v; symmetry; apply R8)).
    apply D. exact nr_per.
  - rewrite (R3 j Hne). apply Dom1. rewrite nr_a1_len. exact Hj.
Qed.
End NormRaise.

Lemma insert_knots_dims (d : nat) (xs : list R) : forall (o o' : obj R), @obj_insert_knots R NumR o d xs = Ok o' ->
  o_dim o' = o_dim o /\ o_rat o' = o_rat o.
Proof.
  induction xs as [|x xs IH]; intros o o' H; cbn [obj_insert_knots] in H; [injection H as <-; split; reflexivity|].
  destruct (@basis_insert_knot R NumR _ x) as [[b' C]|e]; [|discriminate].
  destruct (IH _ _ H) as [A B]. cbn [o_dim o_rat] in A, B. split; assumption.
Qed.

(* the body of identical_dir after make_splines_compatible *)
Definition identical_tail (tol : R) (a0 b0 : obj R) (i : nat) : res (obj R * obj R) :=
    match @obj_reparam_dir R NumR a0 i n0 n1, @obj_reparam_dir R NumR b0 i n0 n1 with
    | Ok a1, Ok b1 =>
      let dflt := mkBasis 0 [] 0 in
      let pa := b_per1 (nth i (o_bases a1) dflt) in let pb := b_per1 (nth i (o_bases b1) dflt) in
      match (if (pa <? pb)%nat then @obj_lower_periodic R NumR 64 b1 pa i else Ok b1),
            (if (pb <? pa)%nat then @obj_lower_periodic R NumR 64 a1 pb i else Ok a1) with
      | Ok b2, Ok a2 =>
        let p1 := b_order (nth i (o_bases a2) dflt) in let p2 := b_order (nth i (o_bases b2) dflt) in
        let p := Nat.max p1 p2 in
        match @obj_raise_order R NumR tol a2 (unit_vec (o_pardim a2) i (p - p1)), @obj_raise_order R NumR tol b2 (unit_vec (o_pardim b2) i (p - p2)) with
        | Ok a3, Ok b3 =>
          match @missing_knots R NumR tol p (nth i (o_bases a3) dflt) (nth i (o_bases b3) dflt) with
          | Err e => Err e
          | Ok ins2 =>
            match @obj_insert_knots R NumR b3 i ins2 with
            | Err e => Err e
            | Ok b4 =>
              match @missing_knots R NumR tol p (nth i (o_bases b4) dflt) (nth i (o_bases a3) dflt) with
              | Err e => Err e
              | Ok ins1 =>
                match @obj_insert_knots R NumR a3 i ins1 with
                | Err e => Err e
                | Ok a4 => Ok (a4, b4)
                end
              end
            end
          end
        | Err e, _ => Err e
        | _, Err e => Err e
        end
      | Err e, _ => Err e
      | _, Err e => Err e
      end
    | Err e, _ => Err e
    | _, Err e => Err e
    end.

Lemma identical_dir_tail tol (o1 o2 : obj R) i :
  @identical_dir R NumR tol o1 o2 i = identical_tail tol (fst (@obj_compatible R NumR o1 o2)) (snd (@obj_compatible R NumR o1 o2)) i.
Proof. unfold identical_dir, identical_tail. destruct (@obj_compatible R NumR o1 o2); reflexivity. Qed.

Definition rmult (k : list R) (r : nat) (v : R) : nat := if (mult k v =? 0)%nat then 0%nat else (mult k v + r)%nat.

Definition param_clear (tol : R) (b bother : basis R) (t : R) : Prop :=
  knot_clear (b_knots b) (Rmax tol (tol / rp_al b 0 1)) t /\
  knot_clear (b_knots (rp_basis bother 0 1)) tol (rp_map b 0 1 t).

Section Core.
Variable tol : R.
Hypothesis Htol : 0 < tol.
Hypothesis Htol2 : 2 * tol <= 1.
Variables a0 b0 : obj R.
Hypothesis Wa : wf_obj_R tol a0.
Hypothesis Wb : wf_obj_R tol b0.
Variable i : nat.
Hypothesis Hia : (i < length (o_bases a0))%nat.
Hypothesis Hib : (i < length (o_bases b0))%nat.
Local Notation ba := (nth i (o_bases a0) dflt_basis).
Local Notation bb := (nth i (o_bases b0) dflt_basis).
Local Notation nba := (rp_basis ba 0 1).
Local Notation nbb := (rp_basis bb 0 1).
Local Notation pa := (b_order ba).
Local Notation pb := (b_order bb).
Local Notation p := (Nat.max pa pb).
Local Notation la := (b_knots nba).
Local Notation lb := (b_knots nbb).
Hypothesis Hp : (2 <= p)%nat.
Hypothesis Ga : good_dir tol nba.
Hypothesis Gb : good_dir tol nbb.
Hypothesis Hsep : separated tol (la ++ lb).
Hypothesis Ea : mult la 1 = pa.
Hypothesis Eb : mult lb 1 = pb.
Hypothesis Oa : (pa < p)%nat -> forall j, (j < length (o_bases a0))%nat -> j <> i -> good_dir tol (nth j (o_bases a0) dflt_basis).
Hypothesis Ob : (pb < p)%nat -> forall j, (j < length (o_bases b0))%nat -> j <> i -> good_dir tol (nth j (o_bases b0) dflt_basis).

Lemma core_basis_facts tol' (o : obj R) j : 0 < tol' -> wf_obj_R tol' o -> (j < length (o_bases o))%nat ->
  let bo := nth j (o_bases o) dflt_basis in let nbo := rp_basis bo 0 1 in
  good_dir tol' nbo ->
  lsorted (b_knots nbo) /\ (1 <= b_order bo)%nat /\ (2 * b_order bo <= length (b_knots nbo))%nat /\ clamped (b_knots nbo) (b_order bo) /\
  @kn R NumR (b_knots nbo) (b_order bo - 1) = 0 /\ @kn R NumR (b_knots nbo) (length (b_knots nbo) - b_order bo) = 1.
Proof.
  intros Ht Hw Hj. cbv zeta. intros (Hper & Hs & Hopen & _).
  destruct (ol_wfb tol' o Hw j Hj) as (_ & H1 & H2 & _).
  assert (Hl : length (b_knots (rp_basis (nth j (o_bases o) dflt_basis) 0 1)) = length (b_knots (nth j (o_bases o) dflt_basis)))
    by (cbn [rp_basis b_knots]; apply map_length).
  split; [exact Hs|]. split; [exact H1|]. split; [rewrite Hl; exact H2|].
  split; [apply open_clamped; [exact Hs|exact H1|rewrite Hl; exact H2|exact Hopen]|].
  split; [apply (nr_start tol' o Hw j Hj)|apply (nr_end tol' Ht o Hw j Hj)].
Qed.

Lemma rmult_chain (l L : list R) r v : (forall x, In x l <-> In x L) -> (forall x, In x l -> mult L x = (mult l x + r)%nat) ->
  mult L v = rmult l r v.
Proof.
  intros Hv Hm. unfold rmult. destruct (Nat.eqb_spec (mult l v) 0) as [E|E].
  - apply count_occ_not_In. intros H. apply Hv in H. apply (count_occ_In Req_EM_T) in H. unfold mult in E. lia.
  - apply Hm. apply (count_occ_In Req_EM_T). unfold mult in E. lia.
Qed.

Definition core_facts (a b : obj R) (kk : list R) : Prop :=
    wf_obj_R tol a /\ wf_obj_R tol b /\
    length (o_bases a) = length (o_bases a0) /\ length (o_bases b) = length (o_bases b0) /\
    (forall j, j <> i -> nth j (o_bases a) dflt_basis = nth j (o_bases a0) dflt_basis) /\
    (forall j, j <> i -> nth j (o_bases b) dflt_basis = nth j (o_bases b0) dflt_basis) /\
    nth i (o_bases a) dflt_basis = mkBasis p kk 0 /\ nth i (o_bases b) dflt_basis = mkBasis p kk 0 /\
    lsorted kk /\ @kn R NumR kk (p - 1) = 0 /\ @kn R NumR kk (length kk - p) = 1 /\
    (forall v, mult kk v = Nat.max (rmult la (p - pa) v) (rmult lb (p - pb) v)) /\
    o_dim a = o_dim a0 /\ o_rat a = o_rat a0 /\ o_dim b = o_dim b0 /\ o_rat b = o_rat b0 /\
    (forall ts, dom_all tol a0 ts -> (i < length ts)%nat -> param_clear tol ba bb (nth i ts 0) ->
       @obj_eval R NumR tol a (upd ts i (rp_map ba 0 1 (nth i ts 0))) = @obj_eval R NumR tol a0 ts) /\
    (forall ts, dom_all tol b0 ts -> (i < length ts)%nat -> param_clear tol bb ba (nth i ts 0) ->
       @obj_eval R NumR tol b (upd ts i (rp_map bb 0 1 (nth i ts 0))) = @obj_eval R NumR tol b0 ts).

(* everything after the two raise_order calls *)
Lemma core_forward (a3 b3 : obj R) :
  @obj_raise_order R NumR tol (rp_obj a0 i 0 1) (unit_vec (length (o_bases (rp_obj a0 i 0 1))) i (p - pa)) = Ok a3 ->
  @obj_raise_order R NumR tol (rp_obj b0 i 0 1) (unit_vec (length (o_bases (rp_obj b0 i 0 1))) i (p - pb)) = Ok b3 ->
  exists ins2 b4 ins1 a4 kk,
    @missing_knots R NumR tol p (nth i (o_bases a3) dflt_basis) (nth i (o_bases b3) dflt_basis) = Ok ins2 /\
    @obj_insert_knots R NumR b3 i ins2 = Ok b4 /\
    @missing_knots R NumR tol p (nth i (o_bases b4) dflt_basis) (nth i (o_bases a3) dflt_basis) = Ok ins1 /\
    @obj_insert_knots R NumR a3 i ins1 = Ok a4 /\
    core_facts a4 b4 kk.
Proof.
  intros Ra Rb.
  assert (Oa' : (p - pa)%nat <> 0%nat -> forall j, (j < length (o_bases a0))%nat -> j <> i -> good_dir tol (nth j (o_bases a0) dflt_basis))
    by (intros H; apply Oa; lia).
  assert (Ob' : (p - pb)%nat <> 0%nat -> forall j, (j < length (o_bases b0))%nat -> j <> i -> good_dir tol (nth j (o_bases b0) dflt_basis))
    by (intros H; apply Ob; lia).
  pose proof (norm_raise tol Htol Htol2 a0 Wa i Hia (p - pa) Ga Oa' a3 Ra) as NA.
  pose proof (norm_raise tol Htol Htol2 b0 Wb i Hib (p - pb) Gb Ob' b3 Rb) as NB.
  set (La := chain la (@knot_spans R NumR tol (mkBasis pa la 0) true) (p - pa)) in *.
  set (Lb := chain lb (@knot_spans R NumR tol (mkBasis pb lb 0) true) (p - pb)) in *.
  replace (pa + (p - pa))%nat with p in NA by lia.
  replace (pb + (p - pb))%nat with p in NB by lia.
  destruct NA as (A1 & A2 & A3 & A4 & A5 & A6 & A7 & A8 & A9 & A10 & A11 & A12).
  destruct NB as (B1 & B2 & B3 & B4 & B5 & B6 & B7 & B8 & B9 & B10 & B11 & B12).
  rewrite A4, B4.
  destruct (core_basis_facts tol a0 i Htol Wa Hia Ga) as (Sa & Pa1 & Pa2 & Ca & Sta & Ena).
  destruct (core_basis_facts tol b0 i Htol Wb Hib Gb) as (Sb & Pb1 & Pb2 & Cb & Stb & Enb).
  assert (Ia3 : (i < length (o_bases a3))%nat) by lia.
  assert (Ib3 : (i < length (o_bases b3))%nat) by lia.
  assert (LLa : (2 * p <= length La)%nat).
  { destruct (bd_wf tol a3 A1 i Ia3) as (_ & _ & H & _). rewrite A4 in H. exact H. }
  assert (LLb : (2 * p <= length Lb)%nat).
  { destruct (bd_wf tol b3 B1 i Ib3) as (_ & _ & H & _). rewrite B4 in H. exact H. }
  assert (Cla : forall x, In x La -> 0 <= x <= 1).
  { intros x Hx. apply A8 in Hx. pose proof (Ca x Hx) as H. rewrite Sta, Ena in H. exact H. }
  assert (Clb : forall x, In x Lb -> 0 <= x <= 1).
  { intros x Hx. apply B8 in Hx. pose proof (Cb x Hx) as H. rewrite Stb, Enb in H. exact H. }
  assert (I1a : In 1 la) by (apply (count_occ_In Req_EM_T); fold (mult la 1); lia).
  assert (I1b : In 1 lb) by (apply (count_occ_In Req_EM_T); fold (mult lb 1); lia).
  assert (MLa : mult La 1 = p) by (rewrite (A11 1 I1a), Ea; lia).
  assert (MLb : mult Lb 1 = p) by (rewrite (B11 1 I1b), Eb; lia).
  assert (SepL : forall k1 k2, (forall v, In v k1 -> In v la \/ In v lb) -> (forall v, In v k2 -> In v la \/ In v lb) -> separated tol (k1 ++ k2)).
  { intros k1 k2 H1 H2 y z Hy Hz. apply Hsep.
    - apply in_or_app. apply in_app_or in Hy. destruct Hy as [Hy|Hy]; [apply H1, Hy|apply H2, Hy].
    - apply in_or_app. apply in_app_or in Hz. destruct Hz as [Hz|Hz]; [apply H1, Hz|apply H2, Hz]. }
  (* first insertion: the knots of a3 missing in b3 *)
  destruct (ins_stage tol Htol i p Hp b3 La Lb B1 Ib3 B4 A7 LLa) as (ins2 & b4 & kb4 & M1 & I1 & F1 & S1 & L1 & Mu1 & Ev1).
  { intros x Hx. rewrite A9, A10. apply Cla, Hx. }
  { rewrite A9, B9. reflexivity. }
  { rewrite A10, B10. reflexivity. }
  { apply SepL; intros v Hv; [left; apply A8, Hv|right; apply B8, Hv]. }
  { rewrite B10, MLa, MLb. lia. }
  pose proof F1 as (Wb4 & Lb4 & Ob4 & Nb4 & Sb4 & Eb4).
  assert (Vkb4 : forall v, In v kb4 -> In v La \/ In v Lb).
  { intros v Hv. apply (count_occ_In Req_EM_T) in Hv. fold (mult kb4 v) in Hv. rewrite Mu1 in Hv.
    destruct (Nat.max_spec (mult La v) (mult Lb v)) as [[_ E]|[_ E]]; rewrite E in Hv; [right|left]; apply (count_occ_In Req_EM_T); exact Hv. }
  (* second insertion: the knots of b4 missing in a3 *)
  destruct (ins_stage tol Htol i p Hp a3 kb4 La A1 Ia3 A4 S1 L1) as (ins1 & a4 & ka4 & M2 & I2 & F2 & S2 & L2 & Mu2 & Ev2).
  { intros x Hx. rewrite Sb4, Eb4, B9, B10. destruct (Vkb4 x Hx) as [H|H]; [apply Cla, H|apply Clb, H]. }
  { rewrite Sb4, B9, A9. reflexivity. }
  { rewrite Eb4, B10, A10. reflexivity. }
  { apply SepL; intros v Hv; [destruct (Vkb4 v Hv) as [H|H]; [left; apply A8, H|right; apply B8, H]|left; apply A8, Hv]. }
  { rewrite A10, Mu1, MLa, MLb. lia. }
  pose proof F2 as (Wa4 & La4 & Oa4 & Na4 & Sa4 & Ea4).
  assert (Ekk : ka4 = kb4).
  { apply sorted_mult_eq; [exact S2|exact S1|]. intros v. rewrite Mu2, Mu1. lia. }
  destruct (insert_knots_dims i ins1 a3 a4 I2) as (Da & Rta). destruct (insert_knots_dims i ins2 b3 b4 I1) as (Db & Rtb).
  exists ins2, b4, ins1, a4, kb4. split; [exact M1|]. split; [exact I1|]. split; [rewrite Nb4; exact M2|]. split; [exact I2|].
  unfold core_facts.
  split; [exact Wa4|]. split; [exact Wb4|]. split; [lia|]. split; [lia|].
  split; [intros j Hj; rewrite (Oa4 j Hj); apply A3; exact Hj|].
  split; [intros j Hj; rewrite (Ob4 j Hj); apply B3; exact Hj|].
  split; [rewrite Na4, Ekk; reflexivity|]. split; [exact Nb4|]. split; [exact S1|].
  split; [rewrite Sb4; exact B9|]. split; [rewrite Eb4; exact B10|].
  split; [intros v; rewrite Mu1, (rmult_chain la La (p - pa) v A8 A11), (rmult_chain lb Lb (p - pb) v B8 B11); reflexivity|].
  split; [congruence|]. split; [congruence|]. split; [congruence|]. split; [congruence|].
  split.
  - intros ts Hdom Hit (PC1 & PC2).
    destruct (A12 ts Hdom Hit PC1) as (E3 & D3).
    set (u := rp_map ba 0 1 (nth i ts 0)) in *.
    destruct (Ev2 (upd ts i u) D3) as (E4 & _); [|rewrite E4; exact E3].
    rewrite upd_nth_same by exact Hit.
    assert (PCa : knot_clear la tol u).
    { assert (Hal : 0 < rp_al ba 0 1) by (apply rp_al_pos; [apply (nr_dom tol Htol a0 Wa i Hia)|lra]).
      pose proof (knot_clear_aff (rp_al ba 0 1) (0 - rp_al ba 0 1 * @b_start R NumR ba) (b_knots ba) _ (nth i ts 0) Hal
                    (knot_clear_le _ _ _ _ (Rmax_r _ _) PC1)) as H.
      replace (rp_al ba 0 1 * (tol / rp_al ba 0 1)) with tol in H by (field; lra). exact H. }
    intros v Hv. destruct (Vkb4 v Hv) as [H|H]; [apply PCa, A8, H|apply PC2, B8, H].
  - intros ts Hdom Hit (PC1 & PC2).
    destruct (B12 ts Hdom Hit PC1) as (E3 & D3).
    set (u := rp_map bb 0 1 (nth i ts 0)) in *.
    destruct (Ev1 (upd ts i u) D3) as (E4 & _); [|rewrite E4; exact E3].
    rewrite upd_nth_same by exact Hit.
    intros v Hv. apply PC2, A8, Hv.
Qed.

(* identical_tail up to the raise_order calls, for a direction that is non-periodic in both objects *)
Lemma tail_unfold :
  identical_tail tol a0 b0 i =
    match @obj_raise_order R NumR tol (rp_obj a0 i 0 1) (unit_vec (length (o_bases (rp_obj a0 i 0 1))) i (p - pa)),
          @obj_raise_order R NumR tol (rp_obj b0 i 0 1) (unit_vec (length (o_bases (rp_obj b0 i 0 1))) i (p - pb)) with
    | Ok a3, Ok b3 =>
          match @missing_knots R NumR tol p (nth i (o_bases a3) dflt_basis) (nth i (o_bases b3) dflt_basis) with
          | Err e => Err e
          | Ok ins2 =>
            match @obj_insert_knots R NumR b3 i ins2 with
            | Err e => Err e
            | Ok b4 =>
              match @missing_knots R NumR tol p (nth i (o_bases b4) dflt_basis) (nth i (o_bases a3) dflt_basis) with
              | Err e => Err e
              | Ok ins1 =>
                match @obj_insert_knots R NumR a3 i ins1 with
                | Err e => Err e
                | Ok a4 => Ok (a4, b4)
                end
              end
            end
          end
    | Err e, _ => Err e
    | _, Err e => Err e
    end.
Proof.
  unfold identical_tail.
  change (@n0 R NumR) with 0. change (@n1 R NumR) with 1.
  rewrite (nr_a1_ok tol Htol a0 Wa i Hia), (nr_a1_ok tol Htol b0 Wb i Hib).
  cbv zeta. change (@mkBasis R 0 [] 0) with dflt_basis.
  rewrite (nr_a1_i a0 i Hia), (nr_a1_i b0 i Hib).
  cbn [rp_basis b_per1]. rewrite (nr_per tol a0 i Ga), (nr_per tol b0 i Gb).
  change (0 <? 0)%nat with false. cbv beta iota.
  rewrite (nr_a1_i a0 i Hia), (nr_a1_i b0 i Hib). cbn [rp_basis b_order].
  unfold o_pardim. reflexivity.
Qed.

Theorem identical_core (a b : obj R) : identical_tail tol a0 b0 i = Ok (a, b) -> exists kk, core_facts a b kk.
Proof.
  rewrite tail_unfold.
  destruct (@obj_raise_order R NumR tol (rp_obj a0 i 0 1) _) as [a3|ea] eqn:Ra; [|discriminate].
  destruct (@obj_raise_order R NumR tol (rp_obj b0 i 0 1) _) as [b3|eb] eqn:Rb; [|discriminate].
  destruct (core_forward a3 b3 Ra Rb) as (ins2 & b4 & ins1 & a4 & kk & M1 & I1 & M2 & I2 & CF).
  rewrite M1, I1, M2, I2. intros [= <- <-]. exists kk. exact CF.
Qed.

(* when no order elevation is needed the whole computation provably succeeds *)
Theorem identical_core_same_order : pa = pb -> exists a b kk, identical_tail tol a0 b0 i = Ok (a, b) /\ core_facts a b kk.
Proof.
  intros Epp. rewrite tail_unfold.
  assert (Z : forall (o : obj R) n, @obj_raise_order R NumR tol o (unit_vec n i 0) = Ok o).
  { intros o n. unfold obj_raise_order.
    assert (F : forallb (fun r => (r =? 0)%nat) (unit_vec n i 0) = true).
    { apply forallb_forall. intros r Hin. unfold unit_vec in Hin. apply in_map_iff in Hin. destruct Hin as (j & <- & _).
      destruct (j =? i)%nat; reflexivity. }
    rewrite F. reflexivity. }
  assert (Ra : @obj_raise_order R NumR tol (rp_obj a0 i 0 1) (unit_vec (length (o_bases (rp_obj a0 i 0 1))) i (p - pa)) = Ok (rp_obj a0 i 0 1))
    by (replace (p - pa)%nat with 0%nat by lia; apply Z).
  assert (Rb : @obj_raise_order R NumR tol (rp_obj b0 i 0 1) (unit_vec (length (o_bases (rp_obj b0 i 0 1))) i (p - pb)) = Ok (rp_obj b0 i 0 1))
    by (replace (p - pb)%nat with 0%nat by lia; apply Z).
  destruct (core_forward _ _ Ra Rb) as (ins2 & b4 & ins1 & a4 & kk & M1 & I1 & M2 & I2 & CF).
  rewrite Ra, Rb, M1, I1, M2, I2. exists a4, b4, kk. split; [reflexivity|exact CF].
Qed.
End Core.


(* ================================================================================================ *)
(* Part E: the end-to-end theorems about identical_dir *)

(* the hypotheses on direction i of the two operands (both non-periodic in that direction) *)
Record identical_hyps (tol : R) (o1 o2 : obj R) (i : nat) : Prop := {
  ih_tol : 0 < tol;
  ih_tol2 : 2 * tol <= 1;                                  (* the common domain [0,1] is at least 2*tol wide *)
  ih_wf1 : wf_obj_R tol o1;
  ih_wf2 : wf_obj_R tol o2;
  ih_dir1 : (i < length (o_bases o1))%nat;
  ih_dir2 : (i < length (o_bases o2))%nat;
  (* orders: the larger one is at least 2 (knot_spans of an order-1 basis is degenerate in the code) *)
  ih_order : (2 <= Nat.max (b_order (nth i (o_bases o1) dflt_basis)) (b_order (nth i (o_bases o2) dflt_basis)))%nat;
  (* after rescaling to [0,1]: non-periodic, open knot vector, distinct knots more than tol apart (good_dir) *)
  ih_good1 : good_dir tol (rp_basis (nth i (o_bases o1) dflt_basis) 0 1);
  ih_good2 : good_dir tol (rp_basis (nth i (o_bases o2) dflt_basis) 0 1);
  (* ... also across the two objects: a knot of one is a knot of the other or more than tol away from all its knots *)
  ih_sep : separated tol (b_knots (rp_basis (nth i (o_bases o1) dflt_basis) 0 1) ++ b_knots (rp_basis (nth i (o_bases o2) dflt_basis) 0 1));
  (* the end knot has multiplicity exactly the order (it cannot be inserted) *)
  ih_end1 : mult (b_knots (rp_basis (nth i (o_bases o1) dflt_basis) 0 1)) 1 = b_order (nth i (o_bases o1) dflt_basis);
  ih_end2 : mult (b_knots (rp_basis (nth i (o_bases o2) dflt_basis) 0 1)) 1 = b_order (nth i (o_bases o2) dflt_basis);
  (* the object whose order is raised: raise_order touches every direction, all of them must be open and non-periodic *)
  ih_oth1 : (b_order (nth i (o_bases o1) dflt_basis) < b_order (nth i (o_bases o2) dflt_basis))%nat ->
            forall j, (j < length (o_bases o1))%nat -> j <> i -> good_dir tol (nth j (o_bases o1) dflt_basis);
  ih_oth2 : (b_order (nth i (o_bases o2) dflt_basis) < b_order (nth i (o_bases o1) dflt_basis))%nat ->
            forall j, (j < length (o_bases o2))%nat -> j <> i -> good_dir tol (nth j (o_bases o2) dflt_basis)
}.

Lemma rp_map_01 tol (o : obj R) i t : 0 < tol -> wf_obj_R tol o -> (i < length (o_bases o))%nat ->
  let b := nth i (o_bases o) dflt_basis in
  rp_map b 0 1 t = (t - @b_start R NumR b) / (@b_end R NumR b - @b_start R NumR b).
Proof.
  intros Ht Hw Hi. cbv zeta. pose proof (nr_dom tol Ht o Hw i Hi) as Hd. rewrite rp_map_eq. unfold rp_al. field. lra.
Qed.

Lemma dom_all_bases tol (o o' : obj R) ts : o_bases o' = o_bases o -> dom_all tol o ts -> dom_all tol o' ts.
Proof. intros E H. unfold dom_all in *. rewrite E. exact H. Qed.

Section Main.
Variable tol : R.
Variables o1 o2 : obj R.
Variable i : nat.
Hypothesis H : identical_hyps tol o1 o2 i.
Local Notation b1 := (nth i (o_bases o1) dflt_basis).
Local Notation b2 := (nth i (o_bases o2) dflt_basis).
Local Notation p1 := (b_order b1).
Local Notation p2 := (b_order b2).
Local Notation p := (Nat.max p1 p2).
Local Notation l1 := (b_knots (rp_basis b1 0 1)).
Local Notation l2 := (b_knots (rp_basis b2 0 1)).
Local Notation dim' := (Nat.max (o_dim o1) (o_dim o2)).
Local Notation a0 := (fst (@obj_compatible R NumR o1 o2)).
Local Notation b0 := (snd (@obj_compatible R NumR o1 o2)).

Lemma main_compat :
  wf_obj_R tol a0 /\ wf_obj_R tol b0 /\ o_bases a0 = o_bases o1 /\ o_bases b0 = o_bases o2 /\
  o_dim a0 = dim' /\ o_dim b0 = dim' /\ o_rat a0 = (o_rat o1 || o_rat o2)%bool /\ o_rat b0 = (o_rat o1 || o_rat o2)%bool.
Proof.
  destruct (compatible_eval tol o1 o2 [] (ih_tol _ _ _ _ H) (ih_wf1 _ _ _ _ H) (ih_wf2 _ _ _ _ H)) as (_ & _ & C). cbv zeta in C. exact C.
Qed.

Lemma main_core_args :
  forall a b, identical_tail tol a0 b0 i = Ok (a, b) -> exists kk, core_facts tol a0 b0 i a b kk.
Proof.
  destruct main_compat as (Wa & Wb & Ba & Bb & _).
  pose proof (identical_core tol (ih_tol _ _ _ _ H) (ih_tol2 _ _ _ _ H) a0 b0 Wa Wb i) as IC.
  rewrite Ba, Bb in IC.
  exact (IC (ih_dir1 _ _ _ _ H) (ih_dir2 _ _ _ _ H) (ih_order _ _ _ _ H) (ih_good1 _ _ _ _ H) (ih_good2 _ _ _ _ H) (ih_sep _ _ _ _ H)
            (ih_end1 _ _ _ _ H) (ih_end2 _ _ _ _ H)
            (fun L => ih_oth1 _ _ _ _ H ltac:(lia)) (fun L => ih_oth2 _ _ _ _ H ltac:(lia))).
Qed.

Variables a b : obj R.
Hypothesis Hid : @identical_dir R NumR tol o1 o2 i = Ok (a, b).

Lemma main_facts : exists kk, core_facts tol a0 b0 i a b kk.
Proof. apply main_core_args. rewrite <- identical_dir_tail. exact Hid. Qed.

(* 2. identical order, periodicity, domain [0,1] and knot vector in direction i *)
Theorem identical_dir_knots :
  let ba := nth i (o_bases a) dflt_basis in let bb := nth i (o_bases b) dflt_basis in
  b_order ba = p /\ b_order bb = p /\ b_per1 ba = 0%nat /\ b_per1 bb = 0%nat /\
  @b_start R NumR ba = 0 /\ @b_end R NumR ba = 1 /\ @b_start R NumR bb = 0 /\ @b_end R NumR bb = 1 /\
  b_knots ba = b_knots bb /\ lsorted (b_knots ba) /\
  (* every knot value has the larger of the two multiplicities it has after the order elevations *)
  (forall v, mult (b_knots ba) v = Nat.max (rmult l1 (p - p1) v) (rmult l2 (p - p2) v)) /\
  (* the rest of the objects *)
  wf_obj_R tol a /\ wf_obj_R tol b /\
  length (o_bases a) = length (o_bases o1) /\ length (o_bases b) = length (o_bases o2) /\
  (forall j, j <> i -> nth j (o_bases a) dflt_basis = nth j (o_bases o1) dflt_basis) /\
  (forall j, j <> i -> nth j (o_bases b) dflt_basis = nth j (o_bases o2) dflt_basis) /\
  o_dim a = dim' /\ o_dim b = dim' /\ o_rat a = (o_rat o1 || o_rat o2)%bool /\ o_rat b = (o_rat o1 || o_rat o2)%bool.
Proof.
  cbv zeta. destruct main_compat as (Wa & Wb & Ba & Bb & Da & Db & Ra & Rb).
  destruct main_facts as (kk & F). unfold core_facts in F. rewrite Ba, Bb in F.
  destruct F as (F1 & F2 & F3 & F4 & F5 & F6 & F7 & F8 & F9 & F10 & F11 & F12 & F13 & F14 & F15 & F16 & _).
  rewrite F7, F8. unfold b_start, b_end. cbn [b_order b_knots b_per1].
  repeat (split; [first [reflexivity|assumption|congruence]|]). congruence.
Qed.

(* 3. each object still evaluates to the map it represented, at the rescaled parameter, padded coordinates being zero *)
Theorem identical_dir_eval ts :
  dom_all tol o1 ts -> (i < length ts)%nat -> param_clear tol b1 b2 (nth i ts 0) ->
  @obj_eval R NumR tol a (upd ts i ((nth i ts 0 - @b_start R NumR b1) / (@b_end R NumR b1 - @b_start R NumR b1)))
  = res_map (pad (dim' - o_dim o1)) (@obj_eval R NumR tol o1 ts).
Proof.
  intros Hdom Hit HC. destruct main_compat as (Wa & Wb & Ba & Bb & _).
  destruct main_facts as (kk & F). unfold core_facts in F. rewrite Ba, Bb in F.
  destruct F as (_ & _ & _ & _ & _ & _ & _ & _ & _ & _ & _ & _ & _ & _ & _ & _ & Ev & _).
  rewrite <- (rp_map_01 tol o1 i (nth i ts 0) (ih_tol _ _ _ _ H) (ih_wf1 _ _ _ _ H) (ih_dir1 _ _ _ _ H)).
  rewrite (Ev ts (dom_all_bases tol o1 a0 ts Ba Hdom) Hit HC).
  destruct (compatible_eval tol o1 o2 ts (ih_tol _ _ _ _ H) (ih_wf1 _ _ _ _ H) (ih_wf2 _ _ _ _ H)) as (E & _). exact E.
Qed.

Theorem identical_dir_eval2 ts :
  dom_all tol o2 ts -> (i < length ts)%nat -> param_clear tol b2 b1 (nth i ts 0) ->
  @obj_eval R NumR tol b (upd ts i ((nth i ts 0 - @b_start R NumR b2) / (@b_end R NumR b2 - @b_start R NumR b2)))
  = res_map (pad (dim' - o_dim o2)) (@obj_eval R NumR tol o2 ts).
Proof.
  intros Hdom Hit HC. destruct main_compat as (Wa & Wb & Ba & Bb & _).
  destruct main_facts as (kk & F). unfold core_facts in F. rewrite Ba, Bb in F.
  destruct F as (_ & _ & _ & _ & _ & _ & _ & _ & _ & _ & _ & _ & _ & _ & _ & _ & _ & Ev).
  rewrite <- (rp_map_01 tol o2 i (nth i ts 0) (ih_tol _ _ _ _ H) (ih_wf2 _ _ _ _ H) (ih_dir2 _ _ _ _ H)).
  rewrite (Ev ts (dom_all_bases tol o2 b0 ts Bb Hdom) Hit HC).
  destruct (compatible_eval tol o1 o2 ts (ih_tol _ _ _ _ H) (ih_wf1 _ _ _ _ H) (ih_wf2 _ _ _ _ H)) as (_ & E & _). exact E.
Qed.
End Main.

(* with equal orders no order elevation takes place and the computation provably succeeds *)
Theorem identical_dir_same_order_ok tol (o1 o2 : obj R) i : identical_hyps tol o1 o2 i ->
  b_order (nth i (o_bases o1) dflt_basis) = b_order (nth i (o_bases o2) dflt_basis) ->
  exists a b, @identical_dir R NumR tol o1 o2 i = Ok (a, b).
Proof.
  intros H Eo. destruct (main_compat tol o1 o2 i H) as (Wa & Wb & Ba & Bb & _).
  pose proof (identical_core_same_order tol (ih_tol _ _ _ _ H) (ih_tol2 _ _ _ _ H) _ _ Wa Wb i) as IC.
  rewrite Ba, Bb in IC.
  destruct (IC (ih_dir1 _ _ _ _ H) (ih_dir2 _ _ _ _ H) (ih_order _ _ _ _ H) (ih_good1 _ _ _ _ H) (ih_good2 _ _ _ _ H) (ih_sep _ _ _ _ H)
            (ih_end1 _ _ _ _ H) (ih_end2 _ _ _ _ H)
            (fun L => ih_oth1 _ _ _ _ H ltac:(lia)) (fun L => ih_oth2 _ _ _ _ H ltac:(lia)) Eo) as (a & b & kk & E & _).
  exists a, b. rewrite identical_dir_tail. exact E.
Qed.


(* ================================================================================================ *)
(* Part F: obj_make_identical with an explicit direction; concrete objects satisfying the hypotheses *)

Lemma identical_hyps_compat tol (o1 o2 : obj R) i : identical_hyps tol o1 o2 i ->
  identical_hyps tol (fst (@obj_compatible R NumR o1 o2)) (snd (@obj_compatible R NumR o1 o2)) i.
Proof.
  intros H. destruct (main_compat tol o1 o2 i H) as (Wa & Wb & Ba & Bb & _). destruct H.
  constructor; rewrite ?Ba, ?Bb; assumption.
Qed.

Lemma res_map_pad0 (r : res (list R)) : res_map (pad 0) r = r.
Proof. destruct r as [v|e]; [|reflexivity]. cbn [res_map]. unfold pad. cbn [repeat]. rewrite app_nil_r. reflexivity. Qed.

Section MakeIdentical.
Variable tol : R.
Variables o1 o2 : obj R.
Variable i : nat.
Hypothesis H : identical_hyps tol o1 o2 i.
Variables a b : obj R.
Hypothesis Hid : @obj_make_identical R NumR tol o1 o2 (Some i) = Ok (a, b).
Local Notation b1 := (nth i (o_bases o1) dflt_basis).
Local Notation b2 := (nth i (o_bases o2) dflt_basis).
Local Notation dim' := (Nat.max (o_dim o1) (o_dim o2)).

Lemma mi_dir : @identical_dir R NumR tol (fst (@obj_compatible R NumR o1 o2)) (snd (@obj_compatible R NumR o1 o2)) i = Ok (a, b).
Proof. unfold obj_make_identical in Hid. destruct (@obj_compatible R NumR o1 o2) as [a0 b0]. exact Hid. Qed.

Theorem make_identical_knots :
  let ba := nth i (o_bases a) dflt_basis in let bb := nth i (o_bases b) dflt_basis in
  b_order ba = Nat.max (b_order b1) (b_order b2) /\ b_order bb = Nat.max (b_order b1) (b_order b2) /\
  b_per1 ba = 0%nat /\ b_per1 bb = 0%nat /\
  @b_start R NumR ba = 0 /\ @b_end R NumR ba = 1 /\ @b_start R NumR bb = 0 /\ @b_end R NumR bb = 1 /\
  b_knots ba = b_knots bb /\ o_dim a = dim' /\ o_dim b = dim' /\ o_rat a = o_rat b.
Proof.
  cbv zeta. destruct (main_compat tol o1 o2 i H) as (Wa & Wb & Ba & Bb & Da & Db & Ra & Rb).
  pose proof (identical_dir_knots tol _ _ i (identical_hyps_compat tol o1 o2 i H) a b mi_dir) as K. cbv zeta in K.
  rewrite Ba, Bb, Da, Db, Ra, Rb in K.
  destruct K as (K1 & K2 & K3 & K4 & K5 & K6 & K7 & K8 & K9 & _ & _ & _ & _ & _ & _ & _ & _ & K18 & K19 & K20 & K21).
  rewrite Nat.max_id in K18, K19.
  repeat (split; [assumption|]). congruence.
Qed.

Theorem make_identical_eval ts :
  dom_all tol o1 ts -> (i < length ts)%nat -> param_clear tol b1 b2 (nth i ts 0) ->
  @obj_eval R NumR tol a (upd ts i ((nth i ts 0 - @b_start R NumR b1) / (@b_end R NumR b1 - @b_start R NumR b1)))
  = res_map (pad (dim' - o_dim o1)) (@obj_eval R NumR tol o1 ts).
Proof.
  intros Hdom Hit HC. destruct (main_compat tol o1 o2 i H) as (Wa & Wb & Ba & Bb & Da & Db & _).
  pose proof (identical_dir_eval tol _ _ i (identical_hyps_compat tol o1 o2 i H) a b mi_dir ts) as E.
  rewrite Ba, Bb, Da, Db in E. rewrite Nat.max_id, Nat.sub_diag, res_map_pad0 in E.
  rewrite (E (dom_all_bases tol o1 _ ts Ba Hdom) Hit HC).
  destruct (compatible_eval tol o1 o2 ts (ih_tol _ _ _ _ H) (ih_wf1 _ _ _ _ H) (ih_wf2 _ _ _ _ H)) as (E1 & _). exact E1.
Qed.

Theorem make_identical_eval2 ts :
  dom_all tol o2 ts -> (i < length ts)%nat -> param_clear tol b2 b1 (nth i ts 0) ->
  @obj_eval R NumR tol b (upd ts i ((nth i ts 0 - @b_start R NumR b2) / (@b_end R NumR b2 - @b_start R NumR b2)))
  = res_map (pad (dim' - o_dim o2)) (@obj_eval R NumR tol o2 ts).
Proof.
  intros Hdom Hit HC. destruct (main_compat tol o1 o2 i H) as (Wa & Wb & Ba & Bb & Da & Db & _).
  pose proof (identical_dir_eval2 tol _ _ i (identical_hyps_compat tol o1 o2 i H) a b mi_dir ts) as E.
  rewrite Ba, Bb, Da, Db in E. rewrite Nat.max_id, Nat.sub_diag, res_map_pad0 in E.
  rewrite (E (dom_all_bases tol o2 _ ts Bb Hdom) Hit HC).
  destruct (compatible_eval tol o1 o2 ts (ih_tol _ _ _ _ H) (ih_wf1 _ _ _ _ H) (ih_wf2 _ _ _ _ H)) as (_ & E2 & _). exact E2.
Qed.
End MakeIdentical.

(* ---- concrete objects ---- *)
Ltac rabs := unfold Rabs; match goal with |- context[Rcase_abs ?x] => destruct (Rcase_abs x) end; lra.

Lemma separated_by_values tol (l vals : list R) : (forall x, In x l -> In x vals) -> separated tol vals -> separated tol l.
Proof. intros Hv Hs y z Hy Hz. apply Hs; apply Hv; assumption. Qed.

Ltac in_cases H := cbn [In] in H; repeat (destruct H as [H|H]); try contradiction; subst.
Ltac count_R := cbn [count_occ]; repeat (match goal with |- context[Req_EM_T ?x ?y] => destruct (Req_EM_T x y); try lra end); try reflexivity.

(* a quadratic curve in the plane on [0,2] and a cubic space curve on [1,3], interior knots at 1/2 and at 2
   (after rescaling to [0,1]: at 1/4 and at 1/2) *)
Definition ex_k1 : list R := [0; 0; 0; 1/2; 2; 2; 2].
Definition ex_k2 : list R := [1; 1; 1; 1; 2; 3; 3; 3; 3].
Definition ex_o1 : obj R := mkObj [mkBasis 3 ex_k1 0] [[0;0]; [1;0]; [1;1]; [2;1]] 2 false.
Definition ex_o2 : obj R := mkObj [mkBasis 4 ex_k2 0] [[0;0;0]; [1;0;1]; [1;1;2]; [2;1;3]; [3;1;4]] 3 false.
Definition ex_tol : R := 1/100.

Lemma ex_l1 : b_knots (rp_basis (mkBasis 3 ex_k1 0) 0 1) = [0; 0; 0; 1/4; 1; 1; 1].
Proof.
  cbn [rp_basis b_knots]. unfold rp_map, rp_al, aff, b_start, b_end, ex_k1, kn. cbn [b_knots b_order length Nat.sub nth map].
  repeat (apply f_equal2; [field; lra|]). reflexivity.
Qed.
Lemma ex_l2 : b_knots (rp_basis (mkBasis 4 ex_k2 0) 0 1) = [0; 0; 0; 0; 1/2; 1; 1; 1; 1].
Proof.
  cbn [rp_basis b_knots]. unfold rp_map, rp_al, aff, b_start, b_end, ex_k2, kn. cbn [b_knots b_order length Nat.sub nth map].
  repeat (apply f_equal2; [field; lra|]). reflexivity.
Qed.

Lemma ex_sep : separated ex_tol [0; 1/4; 1/2; 1].
Proof. intros y z Hy Hz. unfold ex_tol. in_cases Hy; in_cases Hz; first [left; lra|right; rabs]. Qed.

Lemma ex_wf1 : wf_obj_R ex_tol ex_o1.
Proof.
  unfold ex_o1, ex_tol. split; [|split].
  - cbn [o_bases]. constructor; [|constructor]. split; [|split; [|split; [|split]]]; cbn [b_knots b_order].
    + apply sorted_kn_lsorted. unfold ex_k1. repeat constructor; lra.
    + lia.
    + cbn; lia.
    + unfold b_nfun; cbn; lia.
    + unfold b_start, b_end, kn, ex_k1. cbn [b_knots b_order length Nat.sub nth]. lra.
  - cbn [o_cps]. unfold o_ncomp. cbn [o_dim o_rat]. repeat constructor.
  - reflexivity.
Qed.
Lemma ex_wf2 : wf_obj_R ex_tol ex_o2.
Proof.
  unfold ex_o2, ex_tol. split; [|split].
  - cbn [o_bases]. constructor; [|constructor]. split; [|split; [|split; [|split]]]; cbn [b_knots b_order].
    + apply sorted_kn_lsorted. unfold ex_k2. repeat constructor; lra.
    + lia.
    + cbn; lia.
    + unfold b_nfun; cbn; lia.
    + unfold b_start, b_end, kn, ex_k2. cbn [b_knots b_order length Nat.sub nth]. lra.
  - cbn [o_cps]. unfold o_ncomp. cbn [o_dim o_rat]. repeat constructor.
  - reflexivity.
Qed.

Theorem ex_hyps : identical_hyps ex_tol ex_o1 ex_o2 0.
Proof.
  constructor; cbn [ex_o1 ex_o2 o_bases nth length b_order].
  - unfold ex_tol; lra.
  - unfold ex_tol; lra.
  - exact ex_wf1.
  - exact ex_wf2.
  - lia.
  - lia.
  - cbn; lia.
  - unfold good_dir. rewrite ex_l1. cbn [rp_basis b_per1 b_order]. split; [reflexivity|]. split; [repeat constructor; lra|]. split; [|split].
    + split; intros j Hj; cbn [length Nat.sub]; destruct j as [|[|[|j]]]; try lia; reflexivity.
    + apply (separated_by_values _ _ [0; 1/4; 1/2; 1]); [|exact ex_sep]. intros x Hx. in_cases Hx; cbn [In]; auto 6.
    + cbn [length Nat.sub nth]. lra.
  - unfold good_dir. rewrite ex_l2. cbn [rp_basis b_per1 b_order]. split; [reflexivity|]. split; [repeat constructor; lra|]. split; [|split].
    + split; intros j Hj; cbn [length Nat.sub]; destruct j as [|[|[|[|j]]]]; try lia; reflexivity.
    + apply (separated_by_values _ _ [0; 1/4; 1/2; 1]); [|exact ex_sep]. intros x Hx. in_cases Hx; cbn [In]; auto 6.
    + cbn [length Nat.sub nth]. lra.
  - rewrite ex_l1, ex_l2. apply (separated_by_values _ _ [0; 1/4; 1/2; 1]); [|exact ex_sep].
    intros x Hx. cbn [app] in Hx. in_cases Hx; cbn [In]; auto 6.
  - rewrite ex_l1. unfold mult. count_R.
  - rewrite ex_l2. unfold mult. count_R.
  - intros _ j Hj Hne. lia.
  - intros _ j Hj Hne. lia.
Qed.

(* a parameter of the first curve that satisfies the hypothesis of identical_dir_eval: t = 1 (mapped to 1/2) *)
Lemma ex_param : dom_all ex_tol ex_o1 [1] /\ param_clear ex_tol (mkBasis 3 ex_k1 0) (mkBasis 4 ex_k2 0) 1.
Proof.
  assert (C1 : knot_clear ex_k1 (1/50) 1).
  { intros v Hv. unfold ex_k1 in Hv. in_cases Hv; right; rabs. }
  assert (Eal : rp_al (mkBasis 3 ex_k1 0) 0 1 = 1/2).
  { unfold rp_al, b_start, b_end, kn, ex_k1. cbn [b_knots b_order length Nat.sub nth]. field. }
  split.
  - intros j Hj. cbn [ex_o1 o_bases length] in Hj. assert (j = 0%nat) by lia. subst j. cbn [ex_o1 o_bases nth].
    unfold in_dom. intros _. cbn [b_knots].
    rewrite snap1_clear; [unfold b_start, b_end, kn, ex_k1; cbn [b_knots b_order length Nat.sub nth]; lra| |unfold ex_tol; lra|].
    + apply sorted_kn_lsorted. unfold ex_k1. repeat constructor; lra.
    + apply (knot_clear_le _ (1/50)); [unfold ex_tol; lra|exact C1].
  - split.
    + cbn [b_knots]. rewrite Eal. apply (knot_clear_le _ (1/50)); [|exact C1]. unfold ex_tol. apply Rmax_lub; lra.
    + rewrite ex_l2. rewrite rp_map_eq, Eal. unfold b_start, kn, ex_k1. cbn [b_knots b_order length Nat.sub nth].
      intros v Hv. in_cases Hv; first [left; lra|right; unfold ex_tol; rabs].
Qed.

(* two cubics on [0,2] and [1,3] with different interior knots: here the whole computation provably succeeds *)
Definition ex_k3 : list R := [0; 0; 0; 0; 1/2; 2; 2; 2; 2].
Definition ex_o3 : obj R := mkObj [mkBasis 4 ex_k3 0] [[0;0]; [1;0]; [1;1]; [2;1]; [3;1]] 2 false.
Lemma ex_l3 : b_knots (rp_basis (mkBasis 4 ex_k3 0) 0 1) = [0; 0; 0; 0; 1/4; 1; 1; 1; 1].
Proof.
  cbn [rp_basis b_knots]. unfold rp_map, rp_al, aff, b_start, b_end, ex_k3, kn. cbn [b_knots b_order length Nat.sub nth map].
  repeat (apply f_equal2; [field; lra|]). reflexivity.
Qed.
Lemma ex_wf3 : wf_obj_R ex_tol ex_o3.
Proof.
  unfold ex_o3, ex_tol. split; [|split].
  - cbn [o_bases]. constructor; [|constructor]. split; [|split; [|split; [|split]]]; cbn [b_knots b_order].
    + apply sorted_kn_lsorted. unfold ex_k3. repeat constructor; lra.
    + lia.
    + cbn; lia.
    + unfold b_nfun; cbn; lia.
    + unfold b_start, b_end, kn, ex_k3. cbn [b_knots b_order length Nat.sub nth]. lra.
  - cbn [o_cps]. unfold o_ncomp. cbn [o_dim o_rat]. repeat constructor.
  - reflexivity.
Qed.
Theorem ex_hyps_cubics : identical_hyps ex_tol ex_o3 ex_o2 0.
Proof.
  constructor; cbn [ex_o3 ex_o2 o_bases nth length b_order].
  - unfold ex_tol; lra.
  - unfold ex_tol; lra.
  - exact ex_wf3.
  - exact ex_wf2.
  - lia.
  - lia.
  - cbn; lia.
  - unfold good_dir. rewrite ex_l3. cbn [rp_basis b_per1 b_order]. split; [reflexivity|]. split; [repeat constructor; lra|]. split; [|split].
    + split; intros j Hj; cbn [length Nat.sub]; destruct j as [|[|[|[|j]]]]; try lia; reflexivity.
    + apply (separated_by_values _ _ [0; 1/4; 1/2; 1]); [|exact ex_sep]. intros x Hx. in_cases Hx; cbn [In]; auto 6.
    + cbn [length Nat.sub nth]. lra.
  - unfold good_dir. rewrite ex_l2. cbn [rp_basis b_per1 b_order]. split; [reflexivity|]. split; [repeat constructor; lra|]. split; [|split].
    + split; intros j Hj; cbn [length Nat.sub]; destruct j as [|[|[|[|j]]]]; try lia; reflexivity.
    + apply (separated_by_values _ _ [0; 1/4; 1/2; 1]); [|exact ex_sep]. intros x Hx. in_cases Hx; cbn [In]; auto 6.
    + cbn [length Nat.sub nth]. lra.
  - rewrite ex_l3, ex_l2. apply (separated_by_values _ _ [0; 1/4; 1/2; 1]); [|exact ex_sep].
    intros x Hx. cbn [app] in Hx. in_cases Hx; cbn [In]; auto 6.
  - rewrite ex_l3. unfold mult. count_R.
  - rewrite ex_l2. unfold mult. count_R.
  - intros _ j Hj Hne. lia.
  - intros _ j Hj Hne. lia.
Qed.
Corollary ex_cubics_ok : exists a b, @identical_dir R NumR ex_tol ex_o3 ex_o2 0 = Ok (a, b).
Proof. apply identical_dir_same_order_ok; [exact ex_hyps_cubics|reflexivity]. Qed.


