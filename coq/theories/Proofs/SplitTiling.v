(* C07, tiling half: the slicing loop of SplineObject.split (Model/Split.v: split_pieces, non-periodic direction)
   returns S (length ks) pieces; piece j is the slice [a_j, a_{j+1} + p) of the knot vector and the rows
   [a_j, a_{j+1}) of the control net, where a_0 = 0, a_j = bisect_left(knots, x_{j-1}), a_{last+1} = n; the
   domains [s_j, e_j] of the pieces in the split direction are the consecutive intervals
   [st, x_0], [x_0, x_1], ..., [x_last, en]. *)
From Coq Require Import List Arith Reals Lra Lia Bool ZArith Sorted.
From SplipyModel Require Import Spec.BSpline Model.Num Model.BasisDef Model.BasisEval Model.Tensor Model.Obj
  Model.KnotInsert Model.Split Model.Knots
  Proofs.KnotList Proofs.SpanCorrect Proofs.SnapChar Proofs.InsertMatrix Proofs.ObjEval Proofs.InsertEndToEnd.
Import ListNotations.
Open Scope R_scope.

(* ---------- generic list / knot-function helpers ---------- *)

Lemma kn_clamp (l : list R) i : l <> [] -> @kn R NumR l i = nth (Nat.min i (length l - 1)) l 0.
Proof.
  intros Hne. assert (0 < length l)%nat by (destruct l; [congruence|cbn; lia]).
  destruct (Nat.lt_ge_cases i (length l)) as [L|L].
  - rewrite Nat.min_l by lia. apply kn_in. exact L.
  - rewrite Nat.min_r by lia. rewrite (kn_out l i L). symmetry. apply nth_last_len. exact Hne.
Qed.

Lemma slice_list_length {A} (l : list A) a c : (c <= length l)%nat -> length (slice_list l a c) = (c - a)%nat.
Proof. intros Hc. unfold slice_list. rewrite firstn_length, skipn_length. lia. Qed.

Lemma slice_list_all {A} (l : list A) a c : (length l <= c)%nat -> slice_list l a c = skipn a l.
Proof. intros Hc. unfold slice_list. apply firstn_all2. rewrite skipn_length. lia. Qed.

(* the knot function of a slice is the shifted knot function, clamped at the last knot of the slice *)
Lemma kn_slice (k : list R) a c i : (a < c)%nat -> (c <= length k)%nat ->
  @kn R NumR (slice_list k a c) i = @kn R NumR k (a + Nat.min i (c - a - 1)).
Proof.
  intros Hac Hc.
  assert (Hl : length (slice_list k a c) = (c - a)%nat) by (apply slice_list_length; exact Hc).
  assert (Hne : slice_list k a c <> []) by (intros E; rewrite E in Hl; cbn in Hl; lia).
  rewrite (kn_clamp _ i Hne), Hl. set (m := Nat.min i (c - a - 1)).
  assert (Hm : (m < c - a)%nat) by (unfold m; lia).
  unfold slice_list. rewrite nth_firstn_lt by exact Hm. rewrite nth_skipn_add.
  symmetry. apply kn_in. lia.
Qed.

Lemma kn_slice_lt (k : list R) a c i : (c <= length k)%nat -> (i < c - a)%nat ->
  @kn R NumR (slice_list k a c) i = @kn R NumR k (a + i).
Proof. intros Hc Hi. rewrite kn_slice by lia. rewrite Nat.min_l by lia. reflexivity. Qed.

Lemma kn_slice_sorted (k : list R) a c : sorted (@kn R NumR k) -> (a < c)%nat -> (c <= length k)%nat ->
  sorted (@kn R NumR (slice_list k a c)).
Proof. intros HK Hac Hc i j Hij. rewrite !kn_slice by assumption. apply HK. lia. Qed.

(* a sorted knot function reflects strict inequalities on indices *)
Lemma sorted_lt_idx (K : nat -> R) i j : sorted K -> K i < K j -> (i < j)%nat.
Proof. intros HK Hlt. destruct (Nat.lt_ge_cases i j) as [L|L]; [exact L|]. pose proof (HK j i L). lra. Qed.

(* bisect_left is monotone in the searched value *)
Lemma bisect_left_mono (K : nat -> R) hi x y : sorted K -> x <= y ->
  (@bisect_left R NumR K x hi <= @bisect_left R NumR K y hi)%nat.
Proof.
  intros HK Hxy.
  destruct (bisect_left_spec K HK x hi) as (A1 & A2 & A3). destruct (bisect_left_spec K HK y hi) as (B1 & B2 & B3).
  cbv zeta in *. set (rx := @bisect_left R NumR K x hi) in *. set (ry := @bisect_left R NumR K y hi) in *.
  destruct (Nat.le_gt_cases rx ry) as [L|L]; [exact L|].
  pose proof (A2 ry L). pose proof (B3 ry ltac:(lia)). lra.
Qed.

(* bisect_left returns the index of the first copy of a value that occurs in the list *)
Lemma py_bisect_left_first (k : list R) x mu : sorted (@kn R NumR k) -> (1 <= mu)%nat -> (mu < length k)%nat ->
  @kn R NumR k (mu - 1) < x -> @kn R NumR k mu = x -> @py_bisect_left R NumR k x = mu.
Proof.
  intros HK H1 H2 Hlo Heq. unfold py_bisect_left.
  destruct (bisect_left_spec (@kn R NumR k) HK x (length k)) as (A1 & A2 & A3). cbv zeta in *.
  set (r := @bisect_left R NumR (@kn R NumR k) x (length k)) in *.
  assert (L1 : (mu <= r)%nat).
  { destruct (Nat.le_gt_cases mu r) as [L|L]; [exact L|]. pose proof (A3 (mu - 1)%nat ltac:(lia)). lra. }
  destruct (Nat.eq_dec r mu) as [E|E]; [exact E|]. pose proof (A2 mu ltac:(lia)). lra.
Qed.

(* 4. split values that are not strictly inside (s, e) are skipped (any object, any direction) *)
Theorem split_pieces_skip (o : obj R) d s e x rest lk lc : x <= s \/ e <= x ->
  @split_pieces R NumR o d s e (x :: rest) lk lc = @split_pieces R NumR o d s e rest lk lc.
Proof.
  intros Hx. cbn [split_pieces]. cbn [nltb NumR].
  destruct (Rltb_spec s x) as [A|A]; destruct (Rltb_spec x e) as [B|B]; cbn [andb]; try reflexivity. lra.
Qed.

(* ---------- the loop ---------- *)

Section Tiling.
Variable o : obj R.
Variable d : nat.
Variable p : nat.
Variable k : list R.
Hypothesis Hd : (d < length (o_bases o))%nat.
Hypothesis Hb : nth d (o_bases o) dflt_basis = mkBasis p k 0.
Hypothesis HK : sorted (@kn R NumR k).
Hypothesis Hp : (1 <= p)%nat.
Hypothesis Hlen : (2 * p <= length k)%nat.

Definition n_cp : nat := (length k - p)%nat.
Definition st : R := @kn R NumR k (p - 1).
Definition en : R := @kn R NumR k (length k - p).

Lemma st_is_b_start : st = @b_start R NumR (nth d (o_bases o) dflt_basis).
Proof. rewrite Hb. reflexivity. Qed.
Lemma en_is_b_end : en = @b_end R NumR (nth d (o_bases o) dflt_basis).
Proof. rewrite Hb. reflexivity. Qed.

(* the split value lies strictly inside the domain *)
Definition inside (x : R) : Prop := st < x < en.
(* the split value occurs in k exactly p times: at the indices mu .. mu+p-1 *)
Definition mult_p (x : R) : Prop :=
  exists mu, (p <= mu)%nat /\ (mu + p <= length k)%nat /\
    @kn R NumR k (mu - 1) < x /\ (forall i, (i < p)%nat -> @kn R NumR k (mu + i) = x) /\ x < @kn R NumR k (mu + p).

(* the piece with knots [a, b+p) and control-net rows [a, b) *)
Definition piece (a b : nat) : obj R :=
  @obj_along R NumR o d (mkBasis p (slice_list k a (b + p)) 0) (@slice_matrix R NumR n_cp a (b - a)).

(* the index of the first copy of each split value *)
Definition cuts (ks : list R) : list nat := map (@py_bisect_left R NumR k) ks.

(* what the loop returns when it is entered with last_knot = last_cp = a *)
Fixpoint pieces_from (a : nat) (cs : list nat) : list (obj R) :=
  match cs with
  | [] => [piece a n_cp]
  | c :: rest => piece a c :: pieces_from c rest
  end.

(* --- unfolding equations of the loop --- *)

Lemma split_pieces_nil s e lk lc :
  @split_pieces R NumR o d s e [] lk lc
  = [@obj_along R NumR o d (mkBasis p (skipn lk k) 0) (@slice_matrix R NumR n_cp lc (n_cp - lc))].
Proof.
  cbn [split_pieces]. change (@mkBasis R 0 [] 0) with dflt_basis. rewrite Hb.
  unfold b_nfun. cbn [b_order b_knots b_per1]. rewrite Nat.sub_0_r. reflexivity.
Qed.

Lemma split_pieces_cons_in s e x rest lk lc : s < x < e ->
  @split_pieces R NumR o d s e (x :: rest) lk lc
  = @obj_along R NumR o d (mkBasis p (slice_list k lk (@py_bisect_left R NumR k x + p)) 0)
      (@slice_matrix R NumR n_cp lc (@py_bisect_left R NumR k x - lk))
    :: @split_pieces R NumR o d s e rest (@py_bisect_left R NumR k x) (lc + (@py_bisect_left R NumR k x - lk)).
Proof.
  intros [H1 H2]. cbn [split_pieces]. change (@mkBasis R 0 [] 0) with dflt_basis. rewrite Hb.
  unfold b_nfun. cbn [b_order b_knots b_per1]. rewrite Nat.sub_0_r.
  cbn [nltb NumR]. destruct (Rltb_spec s x) as [A|A]; [|lra]. destruct (Rltb_spec x e) as [B|B]; [|lra].
  cbn [andb]. reflexivity.
Qed.

(* --- 1. number of pieces (last_knot, last_cp arbitrary) --- *)

Theorem split_pieces_length_gen ks : Forall inside ks -> forall lk lc,
  length (@split_pieces R NumR o d st en ks lk lc) = S (length ks).
Proof.
  induction 1 as [|x rest Hx _ IH]; intros lk lc.
  - rewrite split_pieces_nil. reflexivity.
  - rewrite split_pieces_cons_in by exact Hx. cbn [length]. rewrite IH. reflexivity.
Qed.

Theorem split_pieces_length ks : Forall inside ks ->
  length (@split_pieces R NumR o d st en ks 0 0) = S (length ks).
Proof. intros H. apply split_pieces_length_gen. exact H. Qed.

(* --- 2. shape of the pieces --- *)

Lemma ncp_p : (n_cp + p = length k)%nat.
Proof. unfold n_cp. lia. Qed.

(* the final piece of the loop (knots skipn a k, rows n - a) has the same slice form, with a_{last+1} = n *)
Lemma piece_last a :
  piece a n_cp = @obj_along R NumR o d (mkBasis p (skipn a k) 0) (@slice_matrix R NumR n_cp a (n_cp - a)).
Proof. unfold piece. rewrite ncp_p. rewrite slice_list_all by lia. reflexivity. Qed.

(* one iteration: last_cp = last_knot is preserved (both become bisect_left(knots, x)) *)
Lemma split_pieces_step x rest a : inside x -> (a <= @py_bisect_left R NumR k x)%nat ->
  @split_pieces R NumR o d st en (x :: rest) a a
  = piece a (@py_bisect_left R NumR k x)
    :: @split_pieces R NumR o d st en rest (@py_bisect_left R NumR k x) (@py_bisect_left R NumR k x).
Proof.
  intros Hx Ha. rewrite split_pieces_cons_in by exact Hx.
  replace (a + (@py_bisect_left R NumR k x - a))%nat with (@py_bisect_left R NumR k x) by lia. reflexivity.
Qed.

Lemma split_pieces_shape_gen ks : Forall inside ks -> StronglySorted Rlt ks ->
  forall a, Forall (fun x => (a <= @py_bisect_left R NumR k x)%nat) ks ->
  @split_pieces R NumR o d st en ks a a = pieces_from a (cuts ks).
Proof.
  induction 1 as [|x rest Hx Hrest IH]; intros Hs a Ha.
  - rewrite split_pieces_nil. cbn [cuts map pieces_from]. rewrite piece_last. reflexivity.
  - inversion Hs as [|? ? Hs' Hlt]; subst. inversion Ha as [|? ? Ha1 Ha2]; subst.
    rewrite split_pieces_step by assumption. cbn [cuts map pieces_from]. f_equal.
    apply IH; [exact Hs'|]. rewrite Forall_forall in *. intros y Hy.
    unfold py_bisect_left. apply bisect_left_mono; [exact HK|]. pose proof (Hlt y Hy). lra.
Qed.

Theorem split_pieces_shape_rec ks : Forall inside ks -> StronglySorted Rlt ks ->
  @split_pieces R NumR o d st en ks 0 0 = pieces_from 0 (cuts ks).
Proof.
  intros H1 H2. apply split_pieces_shape_gen; try assumption. apply Forall_forall. intros; lia.
Qed.

Lemma pieces_from_nth cs : forall a j, (j <= length cs)%nat ->
  nth j (pieces_from a cs) o = piece (nth j (a :: cs ++ [n_cp]) 0%nat) (nth (S j) (a :: cs ++ [n_cp]) 0%nat).
Proof.
  induction cs as [|c rest IH]; intros a j Hj.
  - cbn [length] in Hj. assert (j = 0)%nat by lia. subst j. reflexivity.
  - destruct j as [|j]; [reflexivity|].
    change (nth (S j) (pieces_from a (c :: rest)) o) with (nth j (pieces_from c rest) o).
    rewrite IH by (cbn [length] in Hj; lia). reflexivity.
Qed.

(* piece j = knots [a_j, a_{j+1} + p), rows [a_j, a_{j+1}), with (a_j) = 0 :: cuts ks ++ [n] *)
Theorem split_pieces_shape ks : Forall inside ks -> StronglySorted Rlt ks ->
  forall j, (j <= length ks)%nat ->
  nth j (@split_pieces R NumR o d st en ks 0 0) o
  = piece (nth j (0%nat :: cuts ks ++ [n_cp]) 0%nat) (nth (S j) (0%nat :: cuts ks ++ [n_cp]) 0%nat).
Proof.
  intros H1 H2 j Hj. rewrite split_pieces_shape_rec by assumption.
  apply pieces_from_nth. unfold cuts. rewrite map_length. exact Hj.
Qed.

(* a_j is the index of the first of the p copies of x_{j-1} *)
Lemma cut_spec x : inside x -> mult_p x ->
  let mu := @py_bisect_left R NumR k x in
  (p <= mu)%nat /\ (mu + p <= n_cp)%nat /\ @kn R NumR k (mu - 1) < x /\
  (forall i, (i < p)%nat -> @kn R NumR k (mu + i) = x) /\ x < @kn R NumR k (mu + p).
Proof.
  intros [Hs He] (mu & M1 & M2 & M3 & M4 & M5). cbv zeta.
  assert (E0 : @kn R NumR k mu = x) by (rewrite <- (M4 0%nat ltac:(lia)); f_equal; lia).
  assert (E : @py_bisect_left R NumR k x = mu) by (apply py_bisect_left_first; try assumption; lia).
  rewrite E. repeat split; try assumption.
  pose proof (M4 (p - 1)%nat ltac:(lia)) as M6. unfold en in He. rewrite <- M6 in He.
  apply sorted_lt_idx in He; [|exact HK]. unfold n_cp. lia.
Qed.

(* --- 3. tiling --- *)

Definition dbasis (pc : obj R) : basis R := nth d (o_bases pc) dflt_basis.

Lemma piece_basis a b : dbasis (piece a b) = mkBasis p (slice_list k a (b + p)) 0.
Proof. unfold dbasis, piece, obj_along. cbn [o_bases]. apply upd_nth_same. exact Hd. Qed.

Lemma piece_facts a b : (a + p <= b)%nat -> (b + p <= length k)%nat ->
  let bj := dbasis (piece a b) in let kj := b_knots bj in
  b_order bj = p /\ b_per1 bj = 0%nat /\ length kj = (b + p - a)%nat /\ sorted (@kn R NumR kj) /\
  @b_start R NumR bj = @kn R NumR k (a + p - 1) /\ @b_end R NumR bj = @kn R NumR k b /\
  (forall i, (i < p)%nat -> @kn R NumR kj i = @kn R NumR k (a + i)) /\
  (forall i, (i < p)%nat -> @kn R NumR kj (length kj - p + i) = @kn R NumR k (b + i)).
Proof.
  intros Hab Hbl. cbv zeta. rewrite piece_basis. unfold b_start, b_end. cbn [b_order b_knots b_per1].
  assert (Hl : length (slice_list k a (b + p)) = (b + p - a)%nat) by (apply slice_list_length; exact Hbl).
  rewrite Hl. split; [reflexivity|]. split; [reflexivity|]. split; [reflexivity|].
  split; [apply kn_slice_sorted; [exact HK|lia|exact Hbl]|].
  split; [rewrite kn_slice_lt by lia; f_equal; lia|].
  split; [rewrite kn_slice_lt by lia; f_equal; lia|].
  split; intros i Hi; rewrite kn_slice_lt by lia; f_equal; lia.
Qed.

(* the facts proved about piece j of the list P; X = the list of interval end points, nks = index of the last piece,
   a = first knot index of piece 0 *)
Definition tile_at (P : list (obj R)) (X : list R) (nks a j : nat) : Prop :=
  let bj := dbasis (nth j P o) in let kj := b_knots bj in
  b_order bj = p /\ b_per1 bj = 0%nat /\ sorted (@kn R NumR kj) /\ (2 * p <= length kj)%nat /\
  @b_start R NumR bj = nth j X 0 /\ @b_end R NumR bj = nth (S j) X 0 /\ nth j X 0 < nth (S j) X 0 /\
  (j = 0%nat -> forall i, (i < p)%nat -> @kn R NumR kj i = @kn R NumR k (a + i)) /\
  ((0 < j)%nat -> forall i, (i < p)%nat -> @kn R NumR kj i = @b_start R NumR bj) /\
  ((j < nks)%nat -> forall i, (i < p)%nat -> @kn R NumR kj (length kj - p + i) = @b_end R NumR bj) /\
  (j = nks -> forall i, (i < p)%nat -> @kn R NumR kj (length kj - p + i) = @kn R NumR k (length k - p + i)).

Lemma tiling_gen ks : Forall inside ks -> Forall mult_p ks -> StronglySorted Rlt ks ->
  forall a s, (a + p <= length k)%nat -> @kn R NumR k (a + p - 1) = s -> s < en -> Forall (Rlt s) ks ->
  forall j, (j <= length ks)%nat -> tile_at (pieces_from a (cuts ks)) (s :: ks ++ [en]) (length ks) a j.
Proof.
  induction 1 as [|x rest Hx Hrest IH]; intros Hm Hs a s Ha Hsa Hse Hsx j Hj.
  - cbn [length] in Hj. assert (j = 0)%nat by lia. subst j.
    assert (Hab : (a + p <= n_cp)%nat).
    { rewrite <- Hsa in Hse. unfold en in Hse. apply sorted_lt_idx in Hse; [|exact HK]. unfold n_cp. lia. }
    destruct (piece_facts a n_cp Hab ltac:(rewrite ncp_p; lia)) as (F1 & F2 & F3 & F4 & F5 & F6 & F7 & F8).
    cbv zeta in *. unfold tile_at. cbv zeta. cbn [cuts map pieces_from nth app length].
    split; [exact F1|]. split; [exact F2|]. split; [exact F4|]. split; [rewrite F3; lia|].
    split; [rewrite F5; exact Hsa|]. split; [rewrite F6; reflexivity|]. split; [exact Hse|].
    split; [intros _; exact F7|]. split; [intros; lia|]. split; [intros; lia|].
    intros _ i Hi. rewrite F8 by exact Hi. unfold n_cp. reflexivity.
  - pose proof (Forall_inv Hm) as Hmx. pose proof (Forall_inv_tail Hm) as Hm'.
    destruct (StronglySorted_inv Hs) as [Hs' Hlt].
    pose proof (Forall_inv Hsx) as Hsx1. cbv beta in Hmx, Hsx1.
    destruct (cut_spec x Hx Hmx) as (C1 & C2 & C3 & C4 & C5). cbv zeta in *.
    set (mu := @py_bisect_left R NumR k x) in *.
    pose proof ncp_p as Hnp.
    assert (E0 : @kn R NumR k mu = x) by (rewrite <- (C4 0%nat ltac:(lia)); f_equal; lia).
    change (cuts (x :: rest)) with (mu :: cuts rest). cbn [pieces_from].
    destruct j as [|j].
    + assert (Hab : (a + p <= mu)%nat).
      { rewrite <- Hsa, <- E0 in Hsx1. apply sorted_lt_idx in Hsx1; [|exact HK]. lia. }
      destruct (piece_facts a mu Hab ltac:(lia)) as (F1 & F2 & F3 & F4 & F5 & F6 & F7 & F8).
      cbv zeta in *. unfold tile_at. cbv zeta. cbn [nth app length].
      split; [exact F1|]. split; [exact F2|]. split; [exact F4|]. split; [rewrite F3; lia|].
      split; [rewrite F5; exact Hsa|]. split; [rewrite F6; exact E0|]. split; [exact Hsx1|].
      split; [intros _; exact F7|]. split; [intros; lia|].
      split; [intros _ i Hi; rewrite F8 by exact Hi; rewrite F6, E0; apply C4; exact Hi|].
      intros; lia.
    + assert (Hxe : x < en) by (destruct Hx; assumption).
      assert (Hj' : (j <= length rest)%nat) by (cbn [length] in Hj; lia).
      pose proof (IH Hm' Hs' mu x ltac:(lia) ltac:(rewrite <- (C4 (p - 1)%nat ltac:(lia)); f_equal; lia) Hxe Hlt j Hj') as T.
      unfold tile_at in *. cbv zeta in *.
      change (nth (S j) (piece a mu :: pieces_from mu (cuts rest)) o) with (nth j (pieces_from mu (cuts rest)) o).
      change (nth (S j) (s :: (x :: rest) ++ [en]) 0) with (nth j (x :: rest ++ [en]) 0).
      change (nth (S (S j)) (s :: (x :: rest) ++ [en]) 0) with (nth (S j) (x :: rest ++ [en]) 0).
      destruct T as (T1 & T2 & T3 & T4 & T5 & T6 & T7 & T8 & T9 & T10 & T11).
      split; [exact T1|]. split; [exact T2|]. split; [exact T3|]. split; [exact T4|].
      split; [exact T5|]. split; [exact T6|]. split; [exact T7|].
      split; [intros; lia|]. split.
      * intros _ i Hi. destruct j as [|j].
        -- rewrite (T8 eq_refl i Hi). rewrite T5. cbn [nth]. apply C4. exact Hi.
        -- apply T9; [lia|exact Hi].
      * split; [intros Hlt'; apply T10; cbn [length] in Hlt'; lia|].
        intros Heq; apply T11; cbn [length] in Heq; lia.
Qed.

Hypothesis Hse : st < en.

(* 3. the pieces tile [st, en]: piece j lives on [X_j, X_{j+1}] with X = st :: ks ++ [en] *)
Theorem split_pieces_tiling ks : Forall inside ks -> Forall mult_p ks -> StronglySorted Rlt ks ->
  forall j, (j <= length ks)%nat ->
  let X := st :: ks ++ [en] in
  let bj := nth d (o_bases (nth j (@split_pieces R NumR o d st en ks 0 0) o)) dflt_basis in
  let kj := b_knots bj in
  b_order bj = p /\ b_per1 bj = 0%nat /\ sorted (@kn R NumR kj) /\ (2 * p <= length kj)%nat /\
  @b_start R NumR bj = nth j X 0 /\ @b_end R NumR bj = nth (S j) X 0 /\ nth j X 0 < nth (S j) X 0 /\
  (j = 0%nat -> forall i, (i < p)%nat -> @kn R NumR kj i = @kn R NumR k i) /\
  ((0 < j)%nat -> forall i, (i < p)%nat -> @kn R NumR kj i = @b_start R NumR bj) /\
  ((j < length ks)%nat -> forall i, (i < p)%nat -> @kn R NumR kj (length kj - p + i) = @b_end R NumR bj) /\
  (j = length ks -> forall i, (i < p)%nat -> @kn R NumR kj (length kj - p + i) = @kn R NumR k (length k - p + i)).
Proof.
  intros H1 H2 H3 j Hj. cbv zeta. rewrite split_pieces_shape_rec by assumption.
  assert (Hst : Forall (Rlt st) ks).
  { rewrite Forall_forall in *. intros x Hx. destruct (H1 x Hx). assumption. }
  exact (tiling_gen ks H1 H2 H3 0%nat st ltac:(lia) eq_refl Hse Hst j Hj).
Qed.

(* the readable corollaries: s_0 = st, e_last = en, e_j = x_j = s_{j+1}, s_j < e_j *)
Definition piece_start (ks : list R) (j : nat) : R :=
  @b_start R NumR (nth d (o_bases (nth j (@split_pieces R NumR o d st en ks 0 0) o)) dflt_basis).
Definition piece_end (ks : list R) (j : nat) : R :=
  @b_end R NumR (nth d (o_bases (nth j (@split_pieces R NumR o d st en ks 0 0) o)) dflt_basis).

Section Corollaries.
Variable ks : list R.
Hypothesis H1 : Forall inside ks.
Hypothesis H2 : Forall mult_p ks.
Hypothesis H3 : StronglySorted Rlt ks.

Theorem tiling_first : piece_start ks 0 = st.
Proof. destruct (split_pieces_tiling ks H1 H2 H3 0%nat ltac:(lia)) as (_ & _ & _ & _ & T & _). exact T. Qed.

Theorem tiling_last : piece_end ks (length ks) = en.
Proof.
  destruct (split_pieces_tiling ks H1 H2 H3 (length ks) ltac:(lia)) as (_ & _ & _ & _ & _ & T & _).
  cbv zeta in T. unfold piece_end. rewrite T. cbn [nth]. rewrite app_nth2 by lia. rewrite Nat.sub_diag. reflexivity.
Qed.

Theorem tiling_consecutive j : (j < length ks)%nat ->
  piece_end ks j = nth j ks 0 /\ piece_start ks (S j) = nth j ks 0.
Proof.
  intros Hj.
  destruct (split_pieces_tiling ks H1 H2 H3 j ltac:(lia)) as (_ & _ & _ & _ & _ & T & _).
  destruct (split_pieces_tiling ks H1 H2 H3 (S j) ltac:(lia)) as (_ & _ & _ & _ & T' & _).
  cbv zeta in *. unfold piece_end, piece_start. rewrite T, T'. cbn [nth]. rewrite app_nth1 by exact Hj. split; reflexivity.
Qed.

Theorem tiling_nondegenerate j : (j <= length ks)%nat -> piece_start ks j < piece_end ks j.
Proof.
  intros Hj. destruct (split_pieces_tiling ks H1 H2 H3 j Hj) as (_ & _ & _ & _ & T5 & T6 & T7 & _).
  cbv zeta in *. unfold piece_end, piece_start. rewrite T5, T6. exact T7.
Qed.
End Corollaries.
End Tiling.

(* ---------- the hypotheses are satisfiable: a cubic (order 3) curve with knots
   [0,0,0,1,1,1,2,2,2,3,3,3] (what split_insert leaves for split values 1, 2), ks = [1; 2] ---------- *)
Section Example.
Let k := [0;0;0;1;1;1;2;2;2;3;3;3].
Let o := @mkObj R [mkBasis 3 k 0] (repeat [0] 9) 1 false.

Lemma ex_sorted : sorted (@kn R NumR k).
Proof.
  apply kn_sorted. unfold k. cbn [sorted_list nleb NumR].
  repeat (match goal with |- context [Rleb ?a ?b] => destruct (Rleb_spec a b); [|lra] end). reflexivity.
Qed.

Lemma ex_st : st 3 k = 0. Proof. reflexivity. Qed.
Lemma ex_en : en 3 k = 3. Proof. reflexivity. Qed.

Lemma ex_inside : Forall (inside 3 k) [1; 2].
Proof. repeat constructor; unfold st, en, kn, k; cbn [nth length Nat.sub]; lra. Qed.

Lemma ex_mult : Forall (mult_p 3 k) [1; 2].
Proof.
  constructor; [|constructor; [|constructor]].
  - exists 3%nat. cbn [length k]. split; [lia|]. split; [unfold k; cbn [length]; lia|].
    split; [unfold kn, k; cbn [nth Nat.sub]; lra|].
    split; [|unfold kn, k; cbn [nth Nat.add]; lra].
    intros i Hi. destruct i as [|[|[|i]]]; try lia; unfold kn, k; cbn [nth Nat.add]; reflexivity.
  - exists 6%nat. split; [lia|]. split; [unfold k; cbn [length]; lia|].
    split; [unfold kn, k; cbn [nth Nat.sub]; lra|].
    split; [|unfold kn, k; cbn [nth Nat.add]; lra].
    intros i Hi. destruct i as [|[|[|i]]]; try lia; unfold kn, k; cbn [nth Nat.add]; reflexivity.
Qed.

Lemma ex_incr : StronglySorted Rlt [1; 2].
Proof. repeat constructor. lra. Qed.

(* all the hypotheses of split_pieces_tiling hold for this object *)
Theorem example_tiling : forall j, (j <= 2)%nat ->
  piece_start o 0 3 k [1; 2] j = nth j [0; 1; 2; 3] 0 /\ piece_end o 0 3 k [1; 2] j = nth (S j) [0; 1; 2; 3] 0.
Proof.
  intros j Hj.
  assert (Hd : (0 < length (o_bases o))%nat) by (cbn; lia).
  assert (Hb : nth 0 (o_bases o) dflt_basis = mkBasis 3 k 0) by reflexivity.
  assert (Hlen : (2 * 3 <= length k)%nat) by (unfold k; cbn [length]; lia).
  assert (Hse : st 3 k < en 3 k) by (rewrite ex_st, ex_en; lra).
  destruct (split_pieces_tiling o 0 3 k Hd Hb ex_sorted ltac:(lia) Hlen Hse [1; 2] ex_inside ex_mult ex_incr j Hj)
    as (_ & _ & _ & _ & T5 & T6 & _).
  cbv zeta in *. unfold piece_start, piece_end. rewrite T5, T6. rewrite ex_st, ex_en. split; reflexivity.
Qed.
End Example.

