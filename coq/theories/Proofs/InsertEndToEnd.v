(* C04, end to end on the model's own functions: for an object all of whose directions are well formed and
   direction d is non-periodic, [obj_insert_knots o d [x]] succeeds and [obj_eval] of the result equals [obj_eval] of
   o at every parameter tuple of the domain -- the statement about exactly the two functions that the
   correspondence run (L1) compares with SplineObject.insert_knot and SplineObject.evaluate. *)
From Coq Require Import List Arith Reals Lra Lia Bool ZArith.
From SplipyModel Require Import Spec.BSpline Spec.Boehm Model.Num Model.BasisDef Model.BasisEval Model.Tensor Model.Obj Model.KnotInsert Model.Interp
  Proofs.KnotList Proofs.SpanCorrect Proofs.EvaluateSpec Proofs.EvalConsequences Proofs.SnapSpec Proofs.TensorLemmas Proofs.ObjEval
  Proofs.InsertMatrix Proofs.TensorApply Proofs.InsertObj Proofs.OrderRaise Proofs.SnapChar.
Import ListNotations.
Open Scope R_scope.

Lemma basis_row_nonper tol (k : list R) p t :
  sorted (@kn R NumR k) -> (1 <= p)%nat -> (2 * p <= length k)%nat -> 0 < tol ->
  @basis_row R NumR tol (mkBasis p k 0) 0 true t =
    match @normalise R NumR k p 0 tol true (@snap1 R NumR k tol t) with
    | None => repeat 0 (length k - p)
    | Some (t', side) => Brow side k p t'
    end.
Proof.
  intros HK Hp Hlen Htol. unfold basis_row. cbn [b_knots b_order b_per1].
  pose proof (colloc_row k p tol [t] 0 HK Hp Hlen Htol ltac:(cbn; lia)) as E. unfold colloc in E. cbn [b_knots b_order b_per1 nth] in E.
  rewrite <- E. destruct (@basis_evaluate R NumR k p 0 tol 0 true [t]); reflexivity.
Qed.

Lemma nth_nil_any {A} (i : nat) (x : A) : nth i [] x = x.
Proof. destruct i; reflexivity. Qed.

Lemma upd_nth_same {A} (l : list A) d v dflt : (d < length l)%nat -> nth d (upd l d v) dflt = v.
Proof. revert d. induction l as [|a l IH]; intros d Hd; [cbn in Hd; lia|]. destruct d; cbn [upd nth]; [reflexivity|]. apply IH. cbn in Hd. lia. Qed.
Lemma upd_nth_other {A} (l : list A) d i v dflt : i <> d -> nth i (upd l d v) dflt = nth i l dflt.
Proof.
  revert d i. induction l as [|a l IH]; intros d i Hne; [destruct d; reflexivity|].
  destruct d, i; cbn [upd nth]; try reflexivity; try lia. apply IH. lia.
Qed.
Lemma upd_length {A} (l : list A) d v : length (upd l d v) = length l.
Proof. revert d. induction l as [|a l IH]; intros d; [destruct d; reflexivity|]. destruct d; cbn [upd length]; [reflexivity|]. f_equal. apply IH. Qed.

Lemma rows_at_length tol bs ds ab ts : length (@rows_at R NumR tol bs ds ab ts) = length bs.
Proof. unfold rows_at. rewrite map_length, seq_length. reflexivity. Qed.

Section E2E.
Variable tol : R.
Hypothesis Htol : 0 < tol.
Variable o : obj R.
Hypothesis Hwf : wf_obj_R tol o.
Variable d : nat.
Hypothesis Hd : (d < length (o_bases o))%nat.
Local Notation bd := (nth d (o_bases o) dflt_basis).
Hypothesis Hper : b_per1 bd = 0%nat.
Local Notation k := (b_knots bd).
Local Notation p := (b_order bd).
Variable x : R.
Hypothesis Hx : @b_start R NumR bd <= x < @b_end R NumR bd.
Local Notation mu := (@py_bisect_right R NumR k x).
Local Notation knew := (insert_at k mu x).
Local Notation Cmat := (@mat_of_writes R NumR (length k - p + 1) (length k - p) (@insert_writes R NumR k p (length k - p) mu x)).
Local Notation b' := (mkBasis p knew 0).
Local Notation o' := (mkObj (upd (o_bases o) d b') (@apply_dir R NumR (@o_ncomp R o) (@o_shape R o) d Cmat (o_cps o)) (o_dim o) (o_rat o)).

Lemma bd_wf : sorted (@kn R NumR k) /\ (1 <= p)%nat /\ (2 * p <= length k)%nat /\ (0 < @b_nfun R bd)%nat /\ 2 * tol <= @b_end R NumR bd - @b_start R NumR bd.
Proof. destruct Hwf as (HB & _). rewrite Forall_forall in HB. apply HB. apply nth_In. exact Hd. Qed.

Lemma bd_eq : bd = mkBasis p k 0.
Proof. destruct bd as [pp kk per] eqn:E. cbn [b_per1 b_order b_knots] in *. rewrite Hper. reflexivity. Qed.

Lemma Hx' : @kn R NumR k (p - 1) <= x < @kn R NumR k (length k - p).
Proof. exact Hx. Qed.

(* 1. the insertion succeeds and returns o' *)
Lemma insert_ok : @obj_insert_knots R NumR o d [x] = Ok o'.
Proof.
  destruct bd_wf as (HK & Hp & Hlen & _). cbn [obj_insert_knots].
  change (mkBasis 0 [] 0) with dflt_basis. rewrite bd_eq at 1.
  rewrite (basis_insert_knot_nonperiodic k p x HK Hp Hlen Hx'). reflexivity.
Qed.

Lemma knew_len : length knew = S (length k).
Proof. apply insert_at_length. Qed.
Lemma b'_start : @b_start R NumR b' = @b_start R NumR bd.
Proof.
  destruct bd_wf as (HK & Hp & Hlen & _). destruct (mu_bracket k p x HK Hp Hlen Hx') as [Hmu Hbr].
  unfold b_start. cbn [b_knots b_order].
  rewrite (kn_insert_at k p mu x Hp Hmu (p - 1)%nat ltac:(lia) ltac:(lia)). apply k'_lt; lia.
Qed.
Lemma b'_end : @b_end R NumR b' = @b_end R NumR bd.
Proof.
  destruct bd_wf as (HK & Hp & Hlen & _). destruct (mu_bracket k p x HK Hp Hlen Hx') as [Hmu Hbr].
  unfold b_end. cbn [b_knots b_order]. rewrite knew_len.
  rewrite (kn_insert_at k p mu x Hp Hmu (S (length k) - p)%nat ltac:(lia) ltac:(lia)).
  rewrite k'_gt by lia. f_equal. lia.
Qed.

(* the parameter tuple: inside the domain of every direction, and not within the snapping tolerance of the new knot
   unless it snaps to the same value (the implementation snaps to knots, so the evaluated parameter itself would
   change otherwise) *)
Variable ts : list R.
Hypothesis Hdom : forall i, (i < length (o_bases o))%nat -> in_dom tol (nth i (o_bases o) dflt_basis) (nth i ts 0).
Local Notation td := (nth d ts 0).
Hypothesis Hsnap1 : @snap1 R NumR knew tol td = @snap1 R NumR k tol td.
Hypothesis Hsnap2 : @snap1 R NumR knew tol (@snap1 R NumR k tol td) = @snap1 R NumR k tol (@snap1 R NumR k tol td).

Lemma nth_upd_bases i : nth i (upd (o_bases o) d b') dflt_basis = if Nat.eq_dec i d then b' else nth i (o_bases o) dflt_basis.
Proof. destruct (Nat.eq_dec i d) as [->|Hne]; [apply upd_nth_same; exact Hd|apply upd_nth_other; exact Hne]. Qed.

Lemma validate_same : @validate R NumR tol (upd (o_bases o) d b') ts = @validate R NumR tol (o_bases o) ts.
Proof.
  destruct (validate_spec tol (o_bases o) ts) as [V1 _]. rewrite (V1 Hdom).
  destruct (validate_spec tol (upd (o_bases o) d b') ts) as [V2 _]. rewrite V2.
  - rewrite upd_length. f_equal. apply map_ext_in. intros i Hi. apply in_seq in Hi. rewrite nth_upd_bases.
    destruct (Nat.eq_dec i d) as [->|_]; [cbn [b_knots]; exact Hsnap1|reflexivity].
  - rewrite upd_length. intros i Hi. rewrite nth_upd_bases. destruct (Nat.eq_dec i d) as [->|_]; [|apply Hdom; exact Hi].
    unfold in_dom. intros _. rewrite b'_start, b'_end. cbn [b_knots]. rewrite Hsnap1. apply (Hdom d Hd). exact Hper.
Qed.

Local Notation ts' := (map (fun i => @snap1 R NumR (b_knots (nth i (o_bases o) dflt_basis)) tol (nth i ts 0)) (seq 0 (length (o_bases o)))).
Local Notation rows := (@rows_at R NumR tol (o_bases o) [] [] ts').
Local Notation rows' := (@rows_at R NumR tol (upd (o_bases o) d b') [] [] ts').

Lemma ts'_nth i : (i < length (o_bases o))%nat -> nth i ts' 0 = @snap1 R NumR (b_knots (nth i (o_bases o) dflt_basis)) tol (nth i ts 0).
Proof. intros Hi. rewrite (nth_map_gen _ _ i 0 0%nat) by (rewrite seq_length; exact Hi). rewrite seq_nth by exact Hi. reflexivity. Qed.

(* the normalised (parameter, side) used in direction d: the same before and after *)
Lemma norm_d : exists t' side,
  @normalise R NumR k p 0 tol true (@snap1 R NumR k tol (@snap1 R NumR k tol td)) = Some (t', side) /\
  @normalise R NumR knew p 0 tol true (@snap1 R NumR knew tol (@snap1 R NumR k tol td)) = Some (t', side).
Proof.
  destruct bd_wf as (HK & Hp & Hlen & Hn & Hw).
  pose proof (snap1_idem k HK tol Htol td) as Hid.
  pose proof (Hdom d Hd Hper) as Hin.
  destruct (normalise_some k p 0 tol Htol Hw (@snap1 R NumR k tol (@snap1 R NumR k tol td))) as (t' & side & E).
  { intros _. rewrite Hid. exact Hin. }
  exists t', side. split; [exact E|]. rewrite Hsnap2.
  unfold normalise in *. cbv zeta in *.
  fold (@b_start R NumR b'). fold (@b_end R NumR b').
  change (@kn R NumR knew (p - 1)) with (@b_start R NumR b'). change (@kn R NumR knew (length knew - p)) with (@b_end R NumR b').
  rewrite b'_start, b'_end. exact E.
Qed.

Lemma rows_length : length rows = length (o_bases o).
Proof. unfold rows_at. rewrite map_length, seq_length. reflexivity. Qed.

Lemma rows'_eq : exists t' side, nth d rows [] = InsertObj.Nold k p side t' /\ rows' = upd rows d (InsertObj.Nnew k p x side t').
Proof.
  destruct bd_wf as (HK & Hp & Hlen & Hn & Hw).
  destruct norm_d as (t' & side & E1 & E2). exists t', side.
  assert (Hrow_d : nth d rows [] = InsertObj.Nold k p side t').
  { rewrite rows_at_nth by exact Hd. rewrite !nth_nil_any. rewrite ts'_nth by exact Hd. rewrite bd_eq at 1.
    rewrite (basis_row_nonper tol k p _ HK Hp Hlen Htol). rewrite E1. reflexivity. }
  split; [exact Hrow_d|].
  apply (nth_ext _ _ [] []).
  - rewrite upd_length, !rows_at_length, upd_length. reflexivity.
  - intros i Hi. rewrite rows_at_length, upd_length in Hi.
    rewrite rows_at_nth by (rewrite upd_length; exact Hi). rewrite nth_upd_bases. rewrite !nth_nil_any.
    destruct (Nat.eq_dec i d) as [->|Hne].
    + rewrite upd_nth_same by (rewrite rows_length; exact Hd). rewrite ts'_nth by exact Hd.
      assert (HK' : sorted (@kn R NumR knew)) by (apply (insert_knots_sorted k p x HK Hp Hlen Hx')).
      rewrite (basis_row_nonper tol knew p _ HK' Hp ltac:(rewrite knew_len; lia) Htol). rewrite E2.
      unfold Brow, InsertObj.Nnew. rewrite knew_len. replace (S (length k) - p)%nat with (length k - p + 1)%nat by lia. reflexivity.
    + rewrite upd_nth_other by exact Hne. rewrite rows_at_nth by exact Hi. rewrite !nth_nil_any. reflexivity.
Qed.

Lemma row_len i : (i < length (o_bases o))%nat -> length (nth i rows []) = @b_nfun R (nth i (o_bases o) dflt_basis).
Proof.
  intros Hi. rewrite rows_at_nth by exact Hi. unfold basis_row, basis_evaluate. cbv zeta. unfold b_nfun.
  destruct (_ <=? _)%nat; cbn [map hd]; [apply repeat_length|].
  unfold dense_row. destruct (@eval_point R NumR _ _ _ _ _ _ _) as [[m M]|]; [rewrite map_length, seq_length; reflexivity|apply repeat_length].
Qed.

Lemma shape_rows : map (@length R) rows = @o_shape R o.
Proof.
  apply (nth_ext _ _ 0%nat 0%nat).
  - unfold o_shape. rewrite !map_length. apply rows_length.
  - intros i Hi. rewrite map_length, rows_length in Hi.
    rewrite (nth_map_gen _ _ i 0%nat []) by (rewrite rows_length; exact Hi). rewrite row_len by exact Hi.
    unfold o_shape. rewrite (nth_map_gen _ _ i 0%nat dflt_basis) by exact Hi. reflexivity.
Qed.

(* 2. evaluation is unchanged *)
Theorem insert_knot_eval : @obj_eval R NumR tol o' ts = @obj_eval R NumR tol o ts.
Proof.
  destruct bd_wf as (HK & Hp & Hlen & Hn & Hw).
  unfold obj_eval. cbn [o_bases o_rat o_dim]. rewrite validate_same.
  destruct (validate_spec tol (o_bases o) ts) as [V1 _]. rewrite (V1 Hdom).
  assert (EH : @eval_h R NumR tol o' [] [] ts' = @eval_h R NumR tol o [] [] ts').
  { unfold eval_h. cbn [o_bases o_cps]. change (@o_ncomp R o') with (@o_ncomp R o).
    destruct rows'_eq as (t' & side & Hrow & Hrows'). rewrite Hrows'.
    destruct Hwf as (HB & HV & HL).
    assert (Hnet : net_ok (@o_ncomp R o) rows (o_cps o)) by (split; [exact HV|rewrite shape_rows; exact HL]).
    assert (Hpos : (0 < prodl (map (@length R) rows))%nat).
    { rewrite shape_rows. unfold o_shape, prodl. clear - HB. induction (o_bases o) as [|b bs IH]; cbn [map fold_right]; [lia|].
      inversion HB as [|? ? Hb Hbs]; subst. destruct Hb as (_ & _ & _ & Hnf & _). specialize (IH Hbs). nia. }
    rewrite <- shape_rows.
    assert (Hnet' : net_ok (@o_ncomp R o) (upd rows d (InsertObj.Nnew k p x side t'))
                      (@apply_dir R NumR (@o_ncomp R o) (map (@length R) rows) d Cmat (o_cps o))).
    { pose proof (row_rel_insert k p x HK Hp Hlen Hx' side t') as RR.
      assert (Hdr : (d < length rows)%nat) by (rewrite rows_length; exact Hd).
      destruct Hnet as [Hv Hl]. split; [apply Forall_apply_dir; exact Hv|].
      rewrite length_apply_dir; [| rewrite map_length; exact Hdr | exact Hl | exact Hpos ].
      f_equal. destruct RR as (HC1 & _). rewrite HC1.
      clear. generalize (InsertObj.Nnew k p x side t'). intros NN. generalize rows as rr. revert d.
      intros d0 rr. revert d0. induction rr as [|a rr IHr]; intros d0; [reflexivity|]. destruct d0; cbn [upd map]; [reflexivity|]. f_equal. apply IHr. }
    apply (nth_ext _ _ 0 0).
    - rewrite (teval_length _ _ _ Hnet'), (teval_length _ _ _ Hnet). reflexivity.
    - intros c Hc. rewrite (teval_length _ _ _ Hnet') in Hc.
      apply (insert_knot_preserves_map k p x HK Hp Hlen Hx' (@o_ncomp R o) c side t' rows d (o_cps o)
               ltac:(rewrite rows_length; exact Hd) Hc Hrow Hnet Hpos). }
  rewrite EH. reflexivity.
Qed.
End E2E.

(* The same with an explicit sufficient condition on the parameter: farther than twice the snapping tolerance from
   the inserted knot (the implementation moves parameters within the tolerance of a knot onto the knot, so closer
   parameters are evaluated at a different value after the insertion than before). *)
Theorem insert_knot_eval_far tol (o : obj R) d x ts :
  0 < tol -> wf_obj_R tol o -> (d < length (o_bases o))%nat ->
  let bd := nth d (o_bases o) dflt_basis in
  b_per1 bd = 0%nat -> @b_start R NumR bd <= x < @b_end R NumR bd ->
  (forall i, (i < length (o_bases o))%nat -> in_dom tol (nth i (o_bases o) dflt_basis) (nth i ts 0)) ->
  2 * tol <= Rabs (x - nth d ts 0) ->
  exists o', @obj_insert_knots R NumR o d [x] = Ok o' /\ @obj_eval R NumR tol o' ts = @obj_eval R NumR tol o ts.
Proof.
  intros Htol Hwf Hd bd Hper Hx Hdom Hfar.
  destruct (bd_wf tol o Hwf d Hd) as (HK & Hp & Hlen & _).
  set (k := b_knots bd). set (p := b_order bd). fold bd in HK, Hp, Hlen. fold k in HK, Hlen. fold p in Hp, Hlen.
  set (mu := @py_bisect_right R NumR k x). set (knew := insert_at k mu x).
  assert (Hx' : @kn R NumR k (p - 1) <= x < @kn R NumR k (length k - p)) by exact Hx.
  assert (HK' : sorted (@kn R NumR knew)) by (apply (insert_knots_sorted k p x HK Hp Hlen Hx')).
  assert (Hv : forall v, In v knew <-> (In v k \/ v = x)).
  { intros v. unfold knew. split; intros H.
    - apply (Permutation.Permutation_in _ (insert_at_perm k mu x)) in H. destruct H as [<- | H]; [right; reflexivity|left; exact H].
    - apply (Permutation.Permutation_in _ (Permutation.Permutation_sym (insert_at_perm k mu x))). destruct H as [H | ->]; [right; exact H|left; reflexivity]. }
  set (td := nth d ts 0) in *.
  assert (Hs1 : @snap1 R NumR knew tol td = @snap1 R NumR k tol td).
  { apply (snap1_insert_far k knew x tol td HK HK' Hv Htol). lra. }
  assert (Hs2 : @snap1 R NumR knew tol (@snap1 R NumR k tol td) = @snap1 R NumR k tol (@snap1 R NumR k tol td)).
  { apply (snap1_insert_far k knew x tol _ HK HK' Hv Htol).
    destruct (snap1_spec k HK tol Htol td) as [(i & Hi & E & N)|[E _]]; cbv zeta in *.
    - rewrite E. replace (x - @kn R NumR k i) with ((x - td) - (@kn R NumR k i - td)) by ring.
      pose proof (Rabs_triang_inv (x - td) (@kn R NumR k i - td)). lra.
    - rewrite E. lra. }
  eexists. split.
  - apply (insert_ok tol o Hwf d Hd Hper x Hx).
  - apply (insert_knot_eval tol Htol o Hwf d Hd Hper x Hx ts Hdom Hs1 Hs2).
Qed.
