(* evaluate_spec: the dense row produced by the transcribed evaluator equals the
   property's reading (ref_row: sum over all wrapped images of the derivative
   recurrence) at the normalised parameter and side. *)
From Coq Require Import List Arith Reals Lra Lia Bool ZArith.
From SplipyModel Require Import Spec.BSpline Spec.Deriv Model.Num Model.BasisDef Model.BasisEval
  Proofs.Bridge Proofs.EvalCorrect Proofs.SpanCorrect.
Import ListNotations.
Open Scope R_scope.

Lemma nabs_R x : @nabs R NumR x = Rabs x.
Proof.
  unfold nabs. cbn [nltb nsub n0 NumR]. destruct (Rltb_spec x 0).
  - rewrite Rabs_left by assumption. ring.
  - rewrite Rabs_right by lra. reflexivity.
Qed.

Lemma fold_cond_sum (P : nat -> bool) (f : nat -> R) len : forall a z,
  fold_left (fun acc i => if P i then acc + f i else acc) (seq a len) z
  = z + sumf (fun i => if P i then f i else 0) a len.
Proof.
  induction len as [|len IH]; intros a z; cbn [seq fold_left sumf]; [ring|].
  rewrite IH. destruct (P a); ring.
Qed.

Lemma sumf_reindex f a n : sumf f a n = sumf (fun j => f (a + j)%nat) 0 n.
Proof.
  revert a; induction n as [|n IH]; intros a; cbn [sumf]; [reflexivity|].
  rewrite Nat.add_0_r. f_equal. rewrite IH. rewrite <- sumf_shift. apply sumf_ext.
  intros i _. f_equal. lia.
Qed.

Section Spec.
Variable k : list R.
Variables (p per1 : nat) (tol : R).
Hypothesis HK : sorted (kn k).
Hypothesis Hp : (1 <= p)%nat.
Hypothesis Hlen : (2 * p <= length k)%nat.
Hypothesis Htol : 0 < tol.
Let K := @kn R NumR k.
Let n_all := (length k - p)%nat.
Let n := (n_all - per1)%nat.

Lemma normalise_range from_right t0 t side :
  @normalise R NumR k p per1 tol from_right t0 = Some (t, side) ->
  K (p - 1)%nat <= t <= K n_all /\ (if side then t < K n_all else K (p - 1)%nat < t).
Proof.
  unfold normalise. cbv zeta. fold K. fold n_all.
  set (t1 := @wrap_t R NumR _ _ _ _ _ _).
  rewrite !nabs_R. cbn [nltb nsub NumR].
  destruct (Rltb_spec t1 (K (p-1)%nat)) as [A|A]; [discriminate|].
  destruct (Rltb_spec (K n_all) t1) as [B|B]; [discriminate|].
  cbn [orb].
  destruct (Rltb_spec (Rabs (t1 - K n_all)) tol) as [E|E].
  - cbn [negb andb]. rewrite andb_true_r.
    destruct (Rltb_spec (Rabs (t1 - K (p-1)%nat)) tol) as [S|S]; [discriminate|].
    intros [= <- <-]. split; [lra|].
    destruct (Req_dec t1 (K (p-1)%nat)) as [Q|Q]; [|lra].
    exfalso. apply S. rewrite Q. replace (K (p-1)%nat - K (p-1)%nat) with 0 by ring. rewrite Rabs_R0. exact Htol.
  - destruct from_right; cbn [negb andb].
    + rewrite andb_false_r. intros [= <- <-]. split; [lra|].
      destruct (Req_dec t1 (K n_all)) as [Q|Q]; [|lra].
      exfalso. apply E. rewrite Q. replace (K n_all - K n_all) with 0 by ring. rewrite Rabs_R0. exact Htol.
    + rewrite andb_true_r.
      destruct (Rltb_spec (Rabs (t1 - K (p-1)%nat)) tol) as [S|S]; [discriminate|].
      intros [= <- <-]. split; [lra|].
      destruct (Req_dec t1 (K (p-1)%nat)) as [Q|Q]; [|lra].
      exfalso. apply S. rewrite Q. replace (K (p-1)%nat - K (p-1)%nat) with 0 by ring. rewrite Rabs_R0. exact Htol.
Qed.

Lemma eval_row_is_fn mu d t : @eval_row R NumR k p mu d t = eval_row_fn K p mu t d.
Proof. reflexivity. Qed.

(* C01.3 *)
Theorem evaluate_spec d from_right t0 : (d < p)%nat ->
  match @normalise R NumR k p per1 tol from_right t0 with
  | None => @eval_point R NumR k p per1 tol d from_right t0 = None
  | Some (t, side) =>
      exists mu M, @eval_point R NumR k p per1 tol d from_right t0 = Some (mu, M) /\
        (p <= mu <= n_all)%nat /\ in_span side (K (mu - 1)%nat) (K mu) t /\
        length M = p /\
        (forall j, (j < p)%nat -> nth j M 0 = dB side K d (p - 1) (mu + j - p) t) /\
        @dense_row R NumR n p (Some (mu, M)) = @ref_row R NumR side k p per1 d t
  end.
Proof.
  intros Hd. unfold eval_point.
  destruct (@normalise R NumR k p per1 tol from_right t0) as [[t side]|] eqn:EN; [|reflexivity].
  destruct (normalise_range _ _ _ _ EN) as [Hr Hs].
  destruct (span_search_correct k p HK Hp Hlen side t Hr Hs) as [Hmu Hspan]. cbv zeta in Hmu, Hspan.
  set (mu := @span_index R NumR k p side t) in *.
  exists mu, (@eval_row R NumR k p mu d t). split; [reflexivity|].
  split; [exact Hmu|]. split; [exact Hspan|].
  rewrite eval_row_is_fn.
  assert (HM : forall j, (j < p)%nat -> nth j (eval_row_fn K p mu t d) 0 = dB side K d (p - 1) (mu + j - p) t).
  { intros j Hj. apply (recurrence_correct side K HK p mu t Hp ltac:(lia) Hspan d Hd j Hj). }
  split; [apply (eval_row_fn_length side K HK p mu t Hp ltac:(lia) Hspan d Hd)|].
  split; [exact HM|].
  unfold dense_row, ref_row. cbv zeta. fold n_all. fold n.
  apply map_ext. intros c.
  cbn [nadd n0 NumR].
  rewrite (fold_cond_sum (fun j => ((mu + j - p) mod n =? c)%nat) (fun j => @Mget R NumR (eval_row_fn K p mu t d) j)).
  rewrite (fold_cond_sum (fun i => (i mod n =? c)%nat) (fun i => @dBq R NumR side (kn k) d (p - 1) i t)).
  f_equal.
  set (g := fun i => if (i mod n =? c)%nat then @dBq R NumR side (kn k) d (p - 1) i t else 0).
  set (lhs := sumf _ 0 p).
  assert (E : sumf g 0 n_all = sumf g (mu - p) p).
  { replace n_all with ((mu - p) + (p + (n_all - mu)))%nat at 1 by lia.
    rewrite !sumf_app.
    rewrite (sumf_zero g 0 (mu - p)).
    2:{ intros i Hi. unfold g. destruct (i mod n =? c)%nat; [|reflexivity]. rewrite dBq_R.
        apply dB_support; [exact HK|]. replace (i + (p-1) + 1)%nat with (i + p)%nat by lia.
        pose proof (HK (i + p)%nat (mu - 1)%nat ltac:(lia)).
        unfold in_span, outside in *. destruct side; right; lra. }
    rewrite (sumf_zero g (0 + (mu - p) + p)).
    2:{ intros i Hi. unfold g. destruct (i mod n =? c)%nat; [|reflexivity]. rewrite dBq_R.
        apply dB_support; [exact HK|].
        pose proof (HK mu i ltac:(lia)).
        unfold in_span, outside in *. destruct side; left; lra. }
    cbn [Nat.add]. ring. }
  rewrite E. rewrite (sumf_reindex g (mu - p)). unfold lhs.
  apply sumf_ext. intros j Hj. unfold g.
  replace (mu - p + j)%nat with (mu + j - p)%nat by lia.
  destruct ((mu + j - p) mod n =? c)%nat; [|reflexivity].
  rewrite dBq_R. unfold Mget. cbn [n0 NumR]. apply HM. lia.
Qed.
End Spec.
