(* C07, PERIODIC branch of SplineObject.split (Model/Split.v: obj_split, the branch b_per1 <> 0):
   split_insert raises every split value to full multiplicity p on the periodic object, then the object is opened at the
   first split value x0: mu = bisect_left(knots, x0), BSplineBasis.roll(mu), the last per1 knots are dropped, the control
   net is rolled by mu (roll_matrix n mu); the direction becomes non-periodic with domain [x0, x0 + T] and the remaining
   split values are handled by the non-periodic branch (Proofs/SplitCompose.v) on the opened object.

   Part A (basis level)   Section Roll, roll_open_basis: the rolled and truncated knot list [kopen] is the window
                          mu .. mu+n+p-1 of the periodic extension [pext] of the knots, sorted, clamped at x and x + T;
                          the dense periodic row (at t, or at t - T beyond the end of the periodic domain) and the open row
                          at t are related by roll_matrix n mu, for every t of [x, x + T], both one-sided conventions
                          (roll_open_row_rel).
   Part B (object level)  along_eval / along_wf: replacing the basis of ONE direction (periodic or not) by another one and
                          applying a matrix along it preserves obj_eval when the rows at the two normalised parameters are
                          related (generalises Proofs/ChangeDirEval.v to periodic directions and differing normalisations);
                          insert_one_per / insert_copies_per / split_insert_per_gen: knot insertion into a periodic direction
                          end to end on obj_insert_knots / split_insert (from PeriodicInsert.v: basis_insert_knot on a
                          canonical regular periodic basis, all three ghost-repair cases);
                          roll_obj_eval / roll_obj_eval_seam: the roll step on the object;
                          split_periodic_single: obj_split fuel tol o d [x] = Ok [o1], o1 well formed, non-periodic in d
                          with domain [x, x + T], obj_eval o1 = obj_eval o on [x, x + T).
   Part C (several values) obj_split_periodic: x0 < x1 < ... in [start, end): S (length rest) pieces tiling [x0, x0 + T]
                          with the cut points rest, each evaluating to the original periodic object on its interval
                          (composition with SplitCompose.obj_split_nonperiodic on the opened object).
   Hypotheses (psplit_hyps): direction d canonical regular periodic (per_canon), strict seam (the ghost knot below the
   start knot is strictly smaller), start <= x0, split values and the end of the domain increasing with gaps >= 2*tol,
   knot_sep (what continuity() counts), multiplicities <= p.  Parameters (ppiece_param): the d-th parameter is "snap-free"
   (equal to, or at distance >= tol from, every knot image: per_param_ok), lies in the piece's interval at least 2*tol below
   its end (strictly below x0 + T in the last piece), and at the end of the periodic domain the seam knot must have
   multiplicity <= p - 1 (the periodic object evaluates the LEFT limit there; refuted otherwise on the Python code).
   Non-vacuity: Section Example (cubic, 8 functions, continuity 2, uniform knots; split at 5/2 and at [5/2, 5]). *)
From Coq Require Import List Arith Reals Lra Lia Bool ZArith Sorted Permutation.
From SplipyModel Require Import Spec.BSpline Spec.Boehm Spec.Deriv Model.Num Model.BasisDef Model.BasisEval Model.Tensor Model.Obj
  Model.KnotInsert Model.Tol Model.Split Model.Knots
  Proofs.KnotList Proofs.Bridge Proofs.SpanCorrect Proofs.EvaluateSpec Proofs.EvalConsequences Proofs.SnapSpec Proofs.SnapChar
  Proofs.TensorLemmas Proofs.ObjEval Proofs.InsertMatrix Proofs.TensorApply Proofs.InsertObj Proofs.InsertEndToEnd Proofs.InsertListEndToEnd
  Proofs.TolProofs Proofs.AppendProofs Proofs.SeamContinuity Proofs.PeriodicInsert
  Proofs.SplitProofs Proofs.RestrictDirEval Proofs.SplitEndToEnd Proofs.SplitTiling Proofs.SplitCompose.
Import ListNotations.
Open Scope R_scope.

(* ------------------------------------------------------------------------------------------------ *)
(* Part A: BSplineBasis.roll(mu) followed by the truncation, basis level                            *)
(* ------------------------------------------------------------------------------------------------ *)
Section Roll.
Variable k : list R.
Variables (p per1 n : nat) (T : R).
Hypothesis Hcan : per_canon k p per1 n T.
Local Notation K := (@kn R NumR k).
Local Notation q := (p - 1)%nat.
Let HK : sorted K := proj1 Hcan.
Let Hper1 : (1 <= per1)%nat := proj1 (proj2 Hcan).
Let Hpp : (per1 + 1 <= p)%nat := proj1 (proj2 (proj2 Hcan)).
Let Hlen : length k = (n + per1 + p)%nat := proj1 (proj2 (proj2 (proj2 Hcan))).
Let Hreg : (p + per1 - 1 <= n)%nat := proj1 (proj2 (proj2 (proj2 (proj2 Hcan)))).
Let HT : 0 < T := proj1 (proj2 (proj2 (proj2 (proj2 (proj2 Hcan))))).
Let Hseam : K per1 = K (p - 1)%nat := proj1 (proj2 (proj2 (proj2 (proj2 (proj2 (proj2 Hcan)))))).
Let Himg : forall i, (i + n < length k)%nat -> K (i + n)%nat = K i + T := proj2 (proj2 (proj2 (proj2 (proj2 (proj2 (proj2 Hcan)))))).

(* the periodic extension of the knots to all indices *)
Definition pext : nat -> R := kext K n T.

Lemma pext_per i : pext (i + n) = pext i + T.
Proof. apply kext_per. lia. Qed.

Lemma pext_agree j : (j < length k)%nat -> pext j = K j.
Proof.
  intros Hj. apply (kext_agree K n T ltac:(lia) (length k - 1)%nat); [|lia|lia].
  intros i Hi. apply Himg. lia.
Qed.

Lemma pext_sorted : sorted pext.
Proof.
  apply (kext_sorted K HK n T ltac:(lia) (length k - 1)%nat); [|lia].
  intros i Hi. apply Himg. lia.
Qed.

Lemma pext_start : pext (p - 1) = K (p - 1)%nat.
Proof. apply pext_agree. lia. Qed.
Lemma pext_end : pext (n + per1) = K (p - 1)%nat + T.
Proof. rewrite pext_agree by lia. apply (canon_period k p per1 n T Hcan). Qed.

(* ---------- the knots ---------- *)
Variable mu : nat.
Hypothesis Hmu : (mu <= n)%nat.

Definition krolled : list R := b_knots (@basis_roll R NumR (mkBasis p k per1) mu).
Definition kopen : list R := firstn (length krolled - per1) krolled.

Lemma krolled_spec : length krolled = length k /\ forall j, (j < length k)%nat -> nth j krolled 0 = pext (mu + j).
Proof.
  unfold krolled, basis_roll. cbn [b_knots b_order b_per1]. unfold slice_list.
  set (t1 := @nsub R NumR (K 0%nat) (K (length k - p - per1)%nat)).
  assert (Et1 : t1 = - T).
  { unfold t1. cbn [nsub NumR]. replace (length k - p - per1)%nat with (0 + n)%nat by lia. rewrite Himg by lia. ring. }
  assert (Ll : length (firstn (length k - p - per1 - mu) (skipn mu k)) = (n - mu)%nat).
  { rewrite firstn_length, skipn_length. lia. }
  rewrite Ll. replace (length k - p - per1 - mu)%nat with (n - mu)%nat by lia.
  replace (length k - (n - mu) - 0)%nat with (per1 + p + mu)%nat by lia.
  change (skipn 0 k) with k.
  assert (Lr : length (firstn (per1 + p + mu) k) = (per1 + p + mu)%nat) by (rewrite firstn_length; lia).
  split.
  - rewrite app_length, map_length, Lr. rewrite firstn_length, skipn_length. lia.
  - intros j Hj. destruct (Nat.lt_ge_cases j (n - mu)) as [A|A].
    + rewrite app_nth1 by (rewrite firstn_length, skipn_length; lia).
      rewrite InsertMatrix.nth_firstn_lt by exact A. rewrite InsertMatrix.nth_skipn_add.
      rewrite pext_agree by lia. symmetry. apply kn_nth. lia.
    + rewrite app_nth2 by (rewrite firstn_length, skipn_length; lia).
      rewrite firstn_length, skipn_length. replace (Nat.min (n - mu) (length k - mu)) with (n - mu)%nat by lia.
      rewrite (nth_map_gen (fun v => @nsub R NumR v t1) _ (j - (n - mu)) 0 0) by (rewrite Lr; lia).
      rewrite InsertMatrix.nth_firstn_lt by lia. cbn [nsub NumR]. rewrite Et1.
      replace (mu + j)%nat with ((j - (n - mu)) + n)%nat by lia. rewrite pext_per.
      rewrite pext_agree by lia. rewrite kn_nth by lia. ring.
Qed.

Lemma kopen_length : length kopen = (n + p)%nat.
Proof. unfold kopen. destruct krolled_spec as [L _]. rewrite firstn_length, L. lia. Qed.

Lemma kopen_nth j : (j < n + p)%nat -> nth j kopen 0 = pext (mu + j).
Proof.
  intros Hj. destruct krolled_spec as [L N]. unfold kopen.
  rewrite InsertMatrix.nth_firstn_lt by (rewrite L; lia). apply N. lia.
Qed.

Lemma kopen_kn j : (j < n + p)%nat -> @kn R NumR kopen j = pext (mu + j).
Proof. intros Hj. rewrite kn_nth by (rewrite kopen_length; exact Hj). apply kopen_nth. exact Hj. Qed.

Lemma kopen_sorted : sorted (@kn R NumR kopen).
Proof.
  apply sorted_kn_of_nth. intros i j Hij. rewrite kopen_length in Hij.
  rewrite !kopen_nth by lia. apply pext_sorted. lia.
Qed.

(* every knot of the opened list is a knot of the periodic list or the image (+T) of one *)
Lemma kopen_values v : In v kopen -> In v k \/ In (v - T) k.
Proof.
  intros Hin. destruct (In_nth _ _ 0 Hin) as (j & Hj & <-). rewrite kopen_length in Hj.
  rewrite kopen_nth by exact Hj.
  destruct (Nat.lt_ge_cases (mu + j) (length k)) as [A|A].
  - left. rewrite pext_agree by exact A. apply kn_In'. exact A.
  - right. replace (mu + j)%nat with ((mu + j - n) + n)%nat by lia. rewrite pext_per.
    rewrite pext_agree by lia. replace (K (mu + j - n)%nat + T - T) with (K (mu + j - n)%nat) by ring. apply kn_In'. lia.
Qed.

(* ---------- the value x has full multiplicity at mu: the opened knot vector is clamped ---------- *)
Variable x : R.
Hypothesis Hfull : forall r, (r < p)%nat -> K (mu + r)%nat = x.
Hypothesis Hmup : (mu + p <= n + per1)%nat.

(* sharper: the images come from the period starting at the start knot *)
Lemma kopen_values_win v : In v kopen -> In v k \/ (exists i, (per1 <= i < per1 + n)%nat /\ v = K i + T).
Proof.
  intros Hin. destruct (In_nth _ _ 0 Hin) as (j & Hj & <-). rewrite kopen_length in Hj.
  rewrite kopen_nth by exact Hj.
  destruct (Nat.lt_ge_cases (mu + j) (length k)) as [A|A].
  - left. rewrite pext_agree by exact A. apply kn_In'. exact A.
  - right. exists (mu + j - n)%nat. split; [lia|].
    replace (mu + j)%nat with ((mu + j - n) + n)%nat at 1 by lia. rewrite pext_per.
    rewrite pext_agree by lia. reflexivity.
Qed.

Lemma kopen_lo j : (j < p)%nat -> @kn R NumR kopen j = x.
Proof. intros Hj. rewrite kopen_kn by lia. rewrite pext_agree by lia. apply Hfull. exact Hj. Qed.

Lemma kopen_hi j : (j < p)%nat -> @kn R NumR kopen (n + j) = x + T.
Proof.
  intros Hj. rewrite kopen_kn by lia. replace (mu + (n + j))%nat with ((mu + j) + n)%nat by lia.
  rewrite pext_per, pext_agree by lia. rewrite Hfull by exact Hj. reflexivity.
Qed.

Lemma kopen_start : @b_start R NumR (mkBasis p kopen 0) = x.
Proof. unfold b_start. cbn [b_knots b_order]. apply kopen_lo. lia. Qed.

Lemma kopen_end : @b_end R NumR (mkBasis p kopen 0) = x + T.
Proof.
  unfold b_end. cbn [b_knots b_order]. rewrite kopen_length. replace (n + p - p)%nat with (n + 0)%nat by lia.
  apply kopen_hi. lia.
Qed.

Lemma kopen_nfun : @b_nfun R (mkBasis p kopen 0) = n.
Proof. unfold b_nfun. cbn [b_knots b_order b_per1]. rewrite kopen_length. lia. Qed.

(* ---------- the rows ---------- *)
Lemma B_kopen side j t : (j < n)%nat -> B side (@kn R NumR kopen) q j t = B side pext q (mu + j) t.
Proof.
  intros Hj. rewrite <- (B_shift_n side pext mu q j t). apply B_ext. intros m Hm. apply kopen_kn. lia.
Qed.

Lemma B_periodic side i t : (i < n + per1)%nat -> B side K q i t = B side pext q i t.
Proof. intros Hi. apply B_ext. intros m Hm. symmetry. apply pext_agree. lia. Qed.

(* the open row: no wrapping *)
Lemma ref_row_open_nth side t j : (j < n)%nat ->
  nth j (@ref_row R NumR side kopen p 0 0 t) 0 = B side pext q (mu + j) t.
Proof.
  intros Hj. rewrite ref_row_nth by (rewrite kopen_length; lia). rewrite kopen_length.
  replace (n + p - p - 0)%nat with n by lia. replace (n + p - p)%nat with n by lia.
  rewrite (sumf_ext _ (fun i => if (j =? i)%nat then B side (@kn R NumR kopen) q i t else 0)).
  - rewrite sumf_indicator by exact Hj. apply B_kopen. exact Hj.
  - intros i Hi. rewrite Nat.mod_small by lia. rewrite (Nat.eqb_sym i j). reflexivity.
Qed.

Lemma ej_per c i : ej n c (i + n) = ej n c i.
Proof.
  unfold ej. replace (i + n)%nat with (i + 1 * n)%nat by lia. rewrite Nat.mod_add by lia. reflexivity.
Qed.

(* the sum of the class c over the window [mu, mu + n) of the extension, at a parameter of [x, x + T] *)
Lemma window_sum side t c N : (mu + n <= N)%nat ->
  after_start side x t -> before_end side t (x + T) ->
  sumf (fun i => ej n c i * B side pext q i t) 0 N = sumf (fun i => ej n c i * B side pext q i t) mu n.
Proof.
  intros HN Hs He. apply sumf_window; [lia|lia| |].
  - intros i Hi. rewrite (B_support side pext pext_sorted q i t); [ring|].
    replace (i + q + 1)%nat with (i + p)%nat by lia.
    pose proof (pext_sorted (i + p)%nat (mu + (p - 1))%nat ltac:(lia)) as H1.
    rewrite (pext_agree (mu + (p - 1))) in H1 by lia. rewrite Hfull in H1 by lia.
    unfold outside, after_start in *. destruct side; right; lra.
  - intros i Hi. rewrite (B_support side pext pext_sorted q i t); [ring|].
    pose proof (pext_sorted (mu + n)%nat i ltac:(lia)) as H1.
    rewrite pext_per, pext_agree in H1 by lia. pose proof (Hfull 0%nat ltac:(lia)) as H0.
    replace (mu + 0)%nat with mu in H0 by lia. rewrite H0 in H1.
    unfold outside, before_end in *. destruct side; left; lra.
Qed.

(* the periodic row as a sum over the extension *)
Lemma periodic_sum side t c N : (n + per1 <= N)%nat -> before_end side t (K (n + per1)%nat) ->
  sumf (fun i => ej n c i * B side pext q i t) 0 N = sumf (fun i => ej n c i * B side K q i t) 0 (n + per1).
Proof.
  intros HN He. rewrite (sumf_window _ 0 (n + per1) 0 N); [|lia|lia|intros; lia|].
  - apply sumf_ext. intros i Hi. rewrite B_periodic by lia. reflexivity.
  - intros i Hi. rewrite (B_support side pext pext_sorted q i t); [ring|].
    pose proof (pext_sorted (n + per1)%nat i ltac:(lia)) as H1. rewrite pext_agree in H1 by lia.
    unfold outside, before_end in *. destruct side; left; lra.
Qed.

(* A. the periodic row at t' (= t, or t - T when t lies beyond the end of the periodic domain) and the open row at t are
      related by the roll matrix: N_per(t') = N_open(t) x roll_matrix n mu *)
Theorem roll_open_row_rel side t t' :
  after_start side x t -> before_end side t (x + T) ->
  t' = t \/ t' = t - T ->
  after_start side (K (p - 1)%nat) t' -> before_end side t' (K (n + per1)%nat) ->
  row_rel (@ref_row R NumR side k p per1 0 t') (@ref_row R NumR side kopen p 0 0 t) (@roll_matrix R NumR n mu).
Proof.
  intros Hs He Ht' Hs' He'.
  unfold row_rel. rewrite !ref_row_length. rewrite kopen_length, Hlen.
  replace (n + per1 + p - p - per1)%nat with n by lia. replace (n + p - p - 0)%nat with n by lia.
  split; [unfold roll_matrix; rewrite map_length, seq_length; reflexivity|]. split.
  - apply Forall_forall. intros row Hin. unfold roll_matrix in Hin. apply in_map_iff in Hin.
    destruct Hin as (r0 & <- & _). rewrite map_length, seq_length. reflexivity.
  - intros c Hc. rewrite ref_row_nth by lia. rewrite Hlen.
    replace (n + per1 + p - p - per1)%nat with n by lia. replace (n + per1 + p - p)%nat with (n + per1)%nat by lia.
    transitivity (sumf (fun i => ej n c i * B side K q i t') 0 (n + per1)).
    { apply sumf_ext. intros i _. unfold ej, ind. destruct (_ =? _)%nat; ring. }
    transitivity (sumf (fun i => ej n c i * B side pext q i t) mu n).
    2:{ rewrite (sumf_reindex _ mu n). apply sumf_ext. intros r0 Hr. rewrite ref_row_open_nth by lia. unfold roll_matrix.
        rewrite (nth_map_gen _ _ r0 [] 0%nat) by (rewrite seq_length; lia). rewrite seq_nth by lia.
        rewrite (nth_map_gen _ _ c 0 0%nat) by (rewrite seq_length; lia). rewrite seq_nth by lia. cbn [Nat.add n1 n0 NumR].
        unfold ej, ind. replace (r0 + mu)%nat with (mu + r0)%nat by lia.
        destruct (Nat.eqb_spec ((mu + r0) mod n) c); destruct (Nat.eqb_spec c ((mu + r0) mod n)); try congruence; ring. }
    destruct Ht' as [-> | ->].
    + rewrite <- (periodic_sum side t c (mu + n + per1)) by (try lia; assumption).
      apply window_sum; try lia; assumption.
    + rewrite <- (periodic_sum side (t - T) c (n + per1)) by (try lia; exact He').
      rewrite <- (window_sum side t c (n + (n + per1))) by (try lia; assumption).
      pose proof (wrap_value_domain pext q n T pext_per (ej n c) (ej_per c) pext_sorted side 0 (n + per1) (t - T)) as W.
      unfold Sd in W. cbn [dB] in W. replace (t - T + T) with t in W by ring.
      rewrite pext_start in W. symmetry. apply W. exact Hs'.
Qed.
End Roll.

(* ------------------------------------------------------------------------------------------------ *)
(* Part B.1: replacing the basis of one direction (periodic or not) and applying a matrix along it   *)
(* ------------------------------------------------------------------------------------------------ *)
(* the dense row the model computes for one (validated) parameter, any periodicity *)
Lemma basis_row_spec tol (k : list R) p per1 t :
  sorted (@kn R NumR k) -> (1 <= p)%nat -> (2 * p <= length k)%nat -> 0 < tol ->
  @basis_row R NumR tol (mkBasis p k per1) 0 true t =
    match @normalise R NumR k p per1 tol true (@snap1 R NumR k tol t) with
    | None => repeat 0 (length k - p - per1)
    | Some (t', side) => @ref_row R NumR side k p per1 0 t'
    end.
Proof.
  intros HK Hp Hlen Htol. unfold basis_row. cbn [b_knots b_order b_per1].
  pose proof (basis_evaluate_spec k p per1 HK Hp Hlen tol Htol 0 true [t] 0 ltac:(cbn; lia)) as E. cbv zeta in E. cbn [nth] in E.
  destruct (Nat.leb_spec p 0) as [C|C]; [lia|].
  rewrite <- E. destruct (@basis_evaluate R NumR k p per1 tol 0 true [t]); reflexivity.
Qed.

Lemma basis_eta (b : basis R) : b = mkBasis (b_order b) (b_knots b) (b_per1 b).
Proof. destruct b; reflexivity. Qed.

Lemma row_len_gen tol bs tsv i : (i < length bs)%nat ->
  length (nth i (@rows_at R NumR tol bs [] [] tsv) []) = @b_nfun R (nth i bs dflt_basis).
Proof.
  intros Hi. rewrite rows_at_nth by exact Hi. unfold basis_row, basis_evaluate. cbv zeta. unfold b_nfun.
  destruct (_ <=? _)%nat; cbn [map hd]; [apply repeat_length|].
  unfold dense_row. destruct (@eval_point R NumR _ _ _ _ _ _ _) as [[m MM]|]; [rewrite map_length, seq_length; reflexivity|apply repeat_length].
Qed.

Lemma shape_rows_gen tol bs tsv : map (@length R) (@rows_at R NumR tol bs [] [] tsv) = map (@b_nfun R) bs.
Proof.
  apply (nth_ext _ _ 0%nat 0%nat).
  - rewrite !map_length. apply rows_at_length.
  - intros i Hi. rewrite map_length, rows_at_length in Hi.
    rewrite (nth_map_gen _ _ i 0%nat []) by (rewrite rows_at_length; exact Hi). rewrite row_len_gen by exact Hi.
    rewrite (nth_map_gen _ _ i 0%nat dflt_basis) by exact Hi. reflexivity.
Qed.

Lemma shape_pos tol (o : obj R) : wf_obj_R tol o -> (0 < prodl (@o_shape R o))%nat.
Proof.
  intros (HB & _). unfold o_shape, prodl. induction (o_bases o) as [|b bs IH]; cbn [map fold_right]; [lia|].
  inversion HB as [|? ? Hb Hbs]; subst. destruct Hb as (_ & _ & _ & Hnf & _). specialize (IH Hbs). nia.
Qed.

Lemma upd_map {A B} (f : A -> B) (l : list A) i v : map f (upd l i v) = upd (map f l) i (f v).
Proof. revert i. induction l as [|a l IH]; intros i; [destruct i; reflexivity|]. destruct i; cbn [upd map]; [reflexivity|]. f_equal. apply IH. Qed.

Section Along.
Variable tol : R.
Hypothesis Htol : 0 < tol.
Variable o : obj R.
Hypothesis Hwf : wf_obj_R tol o.
Variable d : nat.
Hypothesis Hd : (d < length (o_bases o))%nat.
Local Notation bd := (nth d (o_bases o) dflt_basis).
Variable b' : basis R.
Hypothesis Hwf' : wf_basis_R tol b'.
Variable M : list (list R).
Local Notation o' := (@obj_along R NumR o d b' M).

Lemma al_nth_bases i : nth i (upd (o_bases o) d b') dflt_basis = if Nat.eq_dec i d then b' else nth i (o_bases o) dflt_basis.
Proof. destruct (Nat.eq_dec i d) as [->|Hne]; [apply upd_nth_same; exact Hd|apply upd_nth_other; exact Hne]. Qed.

Theorem along_wf : length M = @b_nfun R b' -> wf_obj_R tol o'.
Proof.
  intros HM. pose proof (shape_pos tol o Hwf) as Hpos. destruct Hwf as (HB & HV & HL).
  split; [|split]; unfold obj_along; cbn [o_bases o_cps].
  - apply Forall_forall. intros b Hb. destruct (In_nth _ _ dflt_basis Hb) as (i & Hi & <-). rewrite upd_length in Hi.
    rewrite al_nth_bases. destruct (Nat.eq_dec i d) as [->|_]; [exact Hwf'|].
    rewrite Forall_forall in HB. apply HB, nth_In, Hi.
  - change (@o_ncomp R (mkObj (upd (o_bases o) d b') (@apply_dir R NumR (@o_ncomp R o) (@o_shape R o) d M (o_cps o)) (o_dim o) (o_rat o)))
      with (@o_ncomp R o). apply Forall_apply_dir. exact HV.
  - rewrite length_apply_dir; [|unfold o_shape; rewrite map_length; exact Hd|exact HL|exact Hpos].
    unfold o_shape. cbn [o_bases]. rewrite upd_map, HM. reflexivity.
Qed.

(* the parameter tuple *)
Variable ts : list R.
Hypothesis Hdom : forall i, (i < length (o_bases o))%nat -> in_dom tol (nth i (o_bases o) dflt_basis) (nth i ts 0).
Local Notation td := (nth d ts 0).
Hypothesis Hdom' : in_dom tol b' td.
Variables (t1 t2 : R) (s1 s2 : bool).
Hypothesis HN1 : @normalise R NumR (b_knots bd) (b_order bd) (b_per1 bd) tol true (@snap1 R NumR (b_knots bd) tol td) = Some (t1, s1).
Hypothesis HN2 : @normalise R NumR (b_knots b') (b_order b') (b_per1 b') tol true (@snap1 R NumR (b_knots b') tol td) = Some (t2, s2).
Hypothesis HRR : row_rel (@ref_row R NumR s1 (b_knots bd) (b_order bd) (b_per1 bd) 0 t1)
                         (@ref_row R NumR s2 (b_knots b') (b_order b') (b_per1 b') 0 t2) M.

Local Notation bs' := (upd (o_bases o) d b').
Local Notation tsv := (map (fun i => @snap1 R NumR (b_knots (nth i (o_bases o) dflt_basis)) tol (nth i ts 0)) (seq 0 (length (o_bases o)))).
Local Notation tsv' := (map (fun i => @snap1 R NumR (b_knots (nth i bs' dflt_basis)) tol (nth i ts 0)) (seq 0 (length bs'))).
Local Notation rows := (@rows_at R NumR tol (o_bases o) [] [] tsv).
Local Notation rows' := (@rows_at R NumR tol bs' [] [] tsv').

Lemma al_tsv_nth i : (i < length (o_bases o))%nat -> nth i tsv 0 = @snap1 R NumR (b_knots (nth i (o_bases o) dflt_basis)) tol (nth i ts 0).
Proof. intros Hi. rewrite (nth_map_gen _ _ i 0 0%nat) by (rewrite seq_length; exact Hi). rewrite seq_nth by exact Hi. reflexivity. Qed.
Lemma al_tsv'_nth i : (i < length (o_bases o))%nat -> nth i tsv' 0 = @snap1 R NumR (b_knots (nth i bs' dflt_basis)) tol (nth i ts 0).
Proof. intros Hi. rewrite (nth_map_gen _ _ i 0 0%nat) by (rewrite seq_length, upd_length; exact Hi). rewrite seq_nth by (rewrite upd_length; exact Hi). reflexivity. Qed.

Lemma al_validate : @validate R NumR tol (o_bases o) ts = Ok tsv.
Proof. destruct (validate_spec tol (o_bases o) ts) as [V1 _]. apply V1. exact Hdom. Qed.
Lemma al_validate' : @validate R NumR tol bs' ts = Ok tsv'.
Proof.
  destruct (validate_spec tol bs' ts) as [V1 _]. apply V1. rewrite upd_length. intros i Hi. rewrite al_nth_bases.
  destruct (Nat.eq_dec i d) as [->|_]; [exact Hdom'|apply Hdom; exact Hi].
Qed.

Lemma al_rows : nth d rows [] = @ref_row R NumR s1 (b_knots bd) (b_order bd) (b_per1 bd) 0 t1 /\
  rows' = upd rows d (@ref_row R NumR s2 (b_knots b') (b_order b') (b_per1 b') 0 t2).
Proof.
  destruct Hwf as (HB & _). rewrite Forall_forall in HB.
  destruct (HB bd (nth_In _ _ Hd)) as (HK & Hp & Hlen & _).
  destruct Hwf' as (HK' & Hp' & Hlen' & _).
  split.
  - rewrite rows_at_nth by exact Hd. rewrite !nth_nil_any. rewrite al_tsv_nth by exact Hd.
    rewrite (basis_eta bd) at 1. rewrite (basis_row_spec tol _ _ _ _ HK Hp Hlen Htol).
    rewrite (snap1_idem _ HK tol Htol). rewrite HN1. reflexivity.
  - apply (nth_ext _ _ [] []).
    + rewrite !rows_at_length, !upd_length, ?rows_at_length. reflexivity.
    + intros i Hi. rewrite rows_at_length, upd_length in Hi.
      rewrite rows_at_nth by (rewrite upd_length; exact Hi). rewrite !nth_nil_any. rewrite al_tsv'_nth by exact Hi.
      rewrite al_nth_bases. destruct (Nat.eq_dec i d) as [->|Hne].
      * rewrite upd_nth_same by (rewrite rows_at_length; exact Hd).
        rewrite (basis_eta b') at 1. rewrite (basis_row_spec tol _ _ _ _ HK' Hp' Hlen' Htol).
        rewrite (snap1_idem _ HK' tol Htol). rewrite HN2. reflexivity.
      * rewrite upd_nth_other by exact Hne. rewrite rows_at_nth by exact Hi. rewrite !nth_nil_any.
        rewrite al_tsv_nth by exact Hi. reflexivity.
Qed.

Theorem along_eval : @obj_eval R NumR tol o' ts = @obj_eval R NumR tol o ts.
Proof.
  unfold obj_eval. unfold obj_along at 1. cbn [o_bases]. rewrite al_validate, al_validate'.
  unfold obj_along. cbn [o_rat o_dim].
  assert (EH : @eval_h R NumR tol (mkObj bs' (@apply_dir R NumR (@o_ncomp R o) (@o_shape R o) d M (o_cps o)) (o_dim o) (o_rat o)) [] [] tsv'
               = @eval_h R NumR tol o [] [] tsv).
  { unfold eval_h. cbn [o_bases o_cps].
    change (@o_ncomp R (mkObj bs' (@apply_dir R NumR (@o_ncomp R o) (@o_shape R o) d M (o_cps o)) (o_dim o) (o_rat o))) with (@o_ncomp R o).
    destruct al_rows as (Hrow & Hrows'). rewrite Hrows'.
    pose proof (shape_pos tol o Hwf) as Hpos0. destruct Hwf as (HB & HV & HL).
    assert (Hsh : map (@length R) rows = @o_shape R o) by apply shape_rows_gen.
    assert (Hnet : net_ok (@o_ncomp R o) rows (o_cps o)) by (split; [exact HV|rewrite Hsh; exact HL]).
    assert (Hpos : (0 < prodl (map (@length R) rows))%nat) by (rewrite Hsh; exact Hpos0).
    assert (Hdr : (d < length rows)%nat) by (rewrite rows_at_length; exact Hd).
    rewrite <- Hsh.
    assert (RR : row_rel (nth d rows []) (@ref_row R NumR s2 (b_knots b') (b_order b') (b_per1 b') 0 t2) M) by (rewrite Hrow; exact HRR).
    pose proof (net_ok_apply_dir (@o_ncomp R o) rows d (o_cps o) _ M Hdr Hnet Hpos RR) as Hnet'.
    apply (nth_ext _ _ 0 0).
    - rewrite (teval_length _ _ _ Hnet'), (teval_length _ _ _ Hnet). reflexivity.
    - intros c Hc. rewrite (teval_length _ _ _ Hnet') in Hc.
      apply (preserves_map_of_row_rel (@o_ncomp R o) c rows d (o_cps o) _ M Hdr Hc Hnet Hpos RR). }
  rewrite EH. reflexivity.
Qed.
End Along.

(* ------------------------------------------------------------------------------------------------ *)
(* Part B.2: parameters that snap() does not move; normalise on a periodic basis                     *)
(* ------------------------------------------------------------------------------------------------ *)
(* t is a knot value of l or at distance >= tol from every knot value of l *)
Definition snapfree (tol : R) (l : list R) (t : R) : Prop := forall v, In v l -> v = t \/ tol <= Rabs (v - t).

Lemma snapfree_snap (l : list R) tol t : sorted (@kn R NumR l) -> 0 < tol -> snapfree tol l t -> @snap1 R NumR l tol t = t.
Proof.
  intros HK Htol Hf. destruct (In_dec Req_EM_T t l) as [I|N]; [apply snap1_member; assumption|].
  apply snap1_far_all; [exact HK|exact Htol|]. intros v Hv. destruct (Hf v Hv) as [->|H]; [contradiction|exact H].
Qed.

Lemma snapfree_incl tol l1 l2 t : (forall v, In v l1 -> In v l2) -> snapfree tol l2 t -> snapfree tol l1 t.
Proof. intros H Hf v Hv. apply Hf, H, Hv. Qed.

Lemma snapfree_far tol l t v : snapfree tol l t -> In v l -> v <> t -> v + tol <= t \/ t + tol <= v.
Proof.
  intros Hf Hv Hne. destruct (Hf v Hv) as [E|H]; [contradiction|].
  unfold Rabs in H. destruct (Rcase_abs (v - t)); [left|right]; lra.
Qed.

Lemma Rltb_false a b : ~ a < b -> Rltb a b = false.
Proof. intros H. destruct (Rltb_spec a b); [contradiction|reflexivity]. Qed.
Lemma Rltb_true a b : a < b -> Rltb a b = true.
Proof. intros H. destruct (Rltb_spec a b); [reflexivity|contradiction]. Qed.

(* normalise on a periodic basis, from the right: the three cases of a parameter of [start, end + T) *)
Section NormPer.
Variables (k : list R) (p per1 : nat) (tol : R).
Hypothesis Hper : per1 <> 0%nat.
Hypothesis Htol : 0 < tol.
Local Notation s := (@kn R NumR k (p - 1)).
Local Notation e := (@kn R NumR k (length k - p)).
Hypothesis Hw : 2 * tol <= e - s.

Lemma normalise_per_in u : s <= u <= e - tol -> @normalise R NumR k p per1 tol true u = Some (u, true).
Proof.
  intros Hu. unfold normalise. cbv zeta. unfold wrap_t.
  destruct (Nat.eqb_spec per1 0) as [C|_]; [contradiction|]. cbn [negb andb].
  rewrite !nabs_R. cbn [nltb nsub nadd NumR].
  repeat (first [rewrite (Rltb_false u s) by lra | rewrite (Rltb_false e u) by lra | progress cbn [orb andb negb] | rewrite andb_false_r]).
  rewrite (Rltb_false (Rabs (u - e)) tol) by (rewrite Rabs_left1 by lra; lra).
  rewrite andb_false_r. reflexivity.
Qed.

Lemma normalise_per_end : @normalise R NumR k p per1 tol true e = Some (e, false).
Proof.
  unfold normalise. cbv zeta. unfold wrap_t.
  destruct (Nat.eqb_spec per1 0) as [C|_]; [contradiction|]. cbn [negb andb].
  rewrite !nabs_R. cbn [nltb nsub nadd NumR].
  repeat (first [rewrite (Rltb_false e s) by lra | rewrite (Rltb_false e e) by lra | progress cbn [orb andb negb] | rewrite andb_false_r]).
  replace (e - e) with 0 by ring. rewrite Rabs_R0. rewrite (Rltb_true 0 tol) by lra. cbn [negb andb].
  rewrite andb_true_r. rewrite (Rltb_false (Rabs (e - s)) tol) by (rewrite Rabs_right by lra; lra). reflexivity.
Qed.

Lemma normalise_per_wrap u : e < u <= e + (e - s) - tol -> @normalise R NumR k p per1 tol true u = Some (u - (e - s), true).
Proof.
  intros Hu. unfold normalise. cbv zeta. unfold wrap_t.
  destruct (Nat.eqb_spec per1 0) as [C|_]; [contradiction|]. cbn [negb andb].
  rewrite !nabs_R. cbn [nltb nsub nadd NumR].
  assert (Ef : @nfmod R NumR (u - s) (e - s) = u - (e - s) - s).
  { replace (u - s) with ((u - (e - s) - s) + IZR 1 * (e - s)) by (simpl; ring). apply nfmod_shift; lra. }
  repeat (first [rewrite (Rltb_false u s) by lra | rewrite (Rltb_true e u) by lra | progress cbn [orb andb negb] | rewrite andb_false_r]).
  rewrite Ef. replace (u - (e - s) - s + s) with (u - (e - s)) by ring.
  rewrite (Rltb_false (u - (e - s)) s) by lra. rewrite (Rltb_false e (u - (e - s))) by lra. cbn [orb].
  rewrite (Rltb_false (Rabs (u - (e - s) - e)) tol) by (rewrite Rabs_left1 by lra; lra).
  rewrite andb_false_r. reflexivity.
Qed.

(* the result depends on the knots only through the end points of the domain *)
Lemma normalise_same_domain (k2 : list R) u :
  @kn R NumR k2 (p - 1) = s -> @kn R NumR k2 (length k2 - p) = e ->
  @normalise R NumR k2 p per1 tol true u = @normalise R NumR k p per1 tol true u.
Proof. intros E1 E2. unfold normalise. cbv zeta. rewrite E1, E2. reflexivity. Qed.
End NormPer.

(* ------------------------------------------------------------------------------------------------ *)
(* Part B.3: one period of knots; multiplicities; continuity() on a periodic basis                   *)
(* ------------------------------------------------------------------------------------------------ *)
(* the ghost knot below the start knot is strictly smaller: the copies of the start knot all lie in one period *)
Definition per_strict (k : list R) (per1 : nat) : Prop := @kn R NumR k (per1 - 1) < @kn R NumR k per1.
(* one period of knots: the n knots from the start knot on *)
Definition pwin (k : list R) (per1 n : nat) : list R := firstn n (skipn per1 k).
(* all the values a knot of the list can take: one period and its two neighbouring images *)
Definition pvals (k : list R) (per1 n : nat) (T : R) : list R :=
  pwin k per1 n ++ map (fun v => v + T) (pwin k per1 n) ++ map (fun v => v - T) (pwin k per1 n).

Lemma pwin_length k per1 n : (per1 + n <= length k)%nat -> length (pwin k per1 n) = n.
Proof. intros H. unfold pwin. rewrite firstn_length, skipn_length. lia. Qed.
Lemma pwin_nth k per1 n i : (i < n)%nat -> nth i (pwin k per1 n) 0 = nth (per1 + i) k 0.
Proof. intros H. unfold pwin. rewrite InsertMatrix.nth_firstn_lt by exact H. apply InsertMatrix.nth_skipn_add. Qed.
Lemma pwin_in k per1 n i : (per1 + n <= length k)%nat -> (per1 <= i < per1 + n)%nat -> In (@kn R NumR k i) (pwin k per1 n).
Proof.
  intros Hl Hi. rewrite kn_nth by lia. replace i with (per1 + (i - per1))%nat by lia. rewrite <- (pwin_nth k per1 n) by lia.
  apply nth_In. rewrite pwin_length by exact Hl. lia.
Qed.
Lemma pwin_sub k per1 n v : In v (pwin k per1 n) -> In v k.
Proof.
  unfold pwin. intros H. rewrite <- (firstn_skipn per1 k). apply in_or_app. right.
  rewrite <- (firstn_skipn n (skipn per1 k)). apply in_or_app. left. exact H.
Qed.

Lemma pvals_in k per1 n T v : In v (pvals k per1 n T) <->
  (In v (pwin k per1 n) \/ In (v - T) (pwin k per1 n) \/ In (v + T) (pwin k per1 n)).
Proof.
  unfold pvals. rewrite !in_app_iff, !in_map_iff. split.
  - intros [H|[(w & <- & H)|(w & <- & H)]]; [left; exact H|right; left|right; right].
    + replace (w + T - T) with w by ring. exact H.
    + replace (w - T + T) with w by ring. exact H.
  - intros [H|[H|H]]; [left; exact H|right; left|right; right].
    + exists (v - T). split; [ring|exact H].
    + exists (v + T). split; [ring|exact H].
Qed.

Section Window.
Variable k : list R.
Variables (p per1 n : nat) (T : R).
Hypothesis Hcan : per_canon k p per1 n T.
Local Notation K := (@kn R NumR k).

Lemma canon_facts : sorted K /\ (1 <= per1)%nat /\ (per1 + 1 <= p)%nat /\ length k = (n + per1 + p)%nat /\ (p + per1 - 1 <= n)%nat /\ 0 < T.
Proof. destruct Hcan as (A & B & C & D & E & F & _). repeat split; assumption. Qed.

(* every knot of a canonical periodic list is a knot of the period, or an image of one *)
Lemma canon_values v : In v k -> In v (pvals k per1 n T).
Proof.
  destruct Hcan as (HK & Hper1 & Hpp & Hlen & Hreg & HT & Hseam & Himg).
  intros Hin. destruct (In_nth _ _ 0 Hin) as (j & Hj & <-). rewrite <- (kn_nth k j Hj). apply pvals_in.
  destruct (Nat.lt_ge_cases j per1) as [A|A]; [|destruct (Nat.lt_ge_cases j (per1 + n)) as [B|B]].
  - right. right. rewrite <- Himg by lia. apply pwin_in; lia.
  - left. apply pwin_in; lia.
  - right. left. replace j with ((j - n) + n)%nat at 1 by lia. rewrite Himg by lia.
    replace (K (j - n)%nat + T - T) with (K (j - n)%nat) by ring. apply pwin_in; lia.
Qed.

Lemma pwin_range v : In v (pwin k per1 n) -> K per1 <= v <= K (per1 + n - 1)%nat.
Proof.
  destruct Hcan as (HK & Hper1 & Hpp & Hlen & Hreg & HT & Hseam & Himg).
  intros Hin. destruct (In_nth _ _ 0 Hin) as (j & Hj & <-). rewrite pwin_length in Hj by lia.
  rewrite pwin_nth by exact Hj. rewrite <- kn_nth by lia. split; apply HK; lia.
Qed.

Hypothesis Hstrict : per_strict k per1.

(* under strictness the period lies in [start, end) *)
Lemma pwin_range_strict v : In v (pwin k per1 n) -> K (p - 1)%nat <= v < K (n + per1)%nat.
Proof.
  destruct Hcan as (HK & Hper1 & Hpp & Hlen & Hreg & HT & Hseam & Himg).
  intros Hin. destruct (pwin_range v Hin) as [A B]. rewrite Hseam in A. split; [exact A|].
  replace (per1 + n - 1)%nat with ((per1 - 1) + n)%nat in B by lia. rewrite Himg in B by lia.
  replace (n + per1)%nat with (per1 + n)%nat by lia. rewrite Himg by lia. unfold per_strict in Hstrict. lra.
Qed.

(* the multiplicity of a value of [start, end) in the whole list is its multiplicity in the period *)
Lemma mult_window x : K (p - 1)%nat <= x < K (n + per1)%nat -> mult k x = count_occ Req_EM_T (pwin k per1 n) x.
Proof.
  destruct Hcan as (HK & Hper1 & Hpp & Hlen & Hreg & HT & Hseam & Himg).
  intros Hx. unfold mult, pwin.
  rewrite <- (firstn_skipn per1 k) at 1. rewrite <- (firstn_skipn n (skipn per1 k)) at 1. rewrite !count_occ_app.
  assert (E1 : count_occ Req_EM_T (firstn per1 k) x = 0%nat).
  { apply count_occ_not_In. intros Hin. destruct (In_nth _ _ 0 Hin) as (j & Hj & Ej).
    rewrite firstn_length in Hj. rewrite InsertMatrix.nth_firstn_lt in Ej by lia. rewrite <- kn_nth in Ej by lia.
    pose proof (HK j (per1 - 1)%nat ltac:(lia)). unfold per_strict in Hstrict. lra. }
  assert (E3 : count_occ Req_EM_T (skipn n (skipn per1 k)) x = 0%nat).
  { apply count_occ_not_In. intros Hin. destruct (In_nth _ _ 0 Hin) as (j & Hj & Ej).
    rewrite !skipn_length in Hj. rewrite !InsertMatrix.nth_skipn_add in Ej. rewrite <- kn_nth in Ej by lia.
    pose proof (HK (n + per1)%nat (per1 + (n + j))%nat ltac:(lia)). lra. }
  rewrite E1, E3. lia.
Qed.
End Window.

(* BSplineBasis.continuity on a periodic basis, for a value of the domain whose tolerance window holds no other knot *)
Lemma continuity_exact_per (tol : R) (k : list R) (p per1 : nat) (x : R) :
  sorted (@kn R NumR k) -> 0 < tol -> knot_sep tol k x ->
  @kn R NumR k (p - 1) <= x <= @kn R NumR k (length k - p) ->
  exists c, @basis_continuity R NumR tol (mkBasis p k per1) x = Ok c /\
    Z.to_nat ((match c with None => (Z.of_nat p - 1)%Z | Some z => z end) + 1) = (p - mult k x)%nat.
Proof.
  intros HK Htol Hsep Hx.
  unfold basis_continuity, b_start, b_end. cbn [b_per1 b_order b_knots].
  cbn [nltb nadd nsub NumR].
  destruct (Rltb_spec x (@kn R NumR k (p - 1))) as [A|A]; [lra|].
  destruct (Rltb_spec (@kn R NumR k (length k - p)) x) as [B|B]; [lra|]. cbn [orb]. rewrite !andb_false_r.
  destruct (continuity_window k x tol HK Htol) as (W1 & W2). cbv zeta in *.
  set (hi := @py_bisect_left R NumR k (x + tol)) in *. set (lo := @py_bisect_left R NumR k (x - tol)) in *.
  pose proof (bisect_lr_le k x HK) as Hle.
  assert (Hbr : (@py_bisect_right R NumR k x <= length k)%nat).
  { unfold py_bisect_right. destruct (bisect_right_spec (@kn R NumR k) HK x (length k)) as (B1 & _). exact B1. }
  pose proof (fun j Hj => bisect_window k x j HK Hj) as W.
  rewrite (count_bisect k x HK).
  set (bl := @py_bisect_left R NumR k x) in *. set (br := @py_bisect_right R NumR k x) in *.
  assert (Same : forall j, (j < length k)%nat -> ((lo <= j < hi)%nat <-> (bl <= j < br)%nat)).
  { intros j Hj. rewrite (W2 j Hj), (W j Hj). split.
    - intros Hw. destruct (Hsep _ (kn_In' k j Hj)) as [E|[E|E]]; [exact E|lra|lra].
    - intros E. rewrite E. lra. }
  assert (Hdiff : (hi - lo = br - bl)%nat).
  { destruct (Nat.lt_ge_cases lo hi) as [L|L].
    - pose proof (proj1 (Same lo ltac:(lia)) ltac:(lia)). pose proof (proj1 (Same (hi - 1)%nat ltac:(lia)) ltac:(lia)).
      pose proof (proj2 (Same bl ltac:(lia)) ltac:(lia)). pose proof (proj2 (Same (br - 1)%nat ltac:(lia)) ltac:(lia)). lia.
    - destruct (Nat.lt_ge_cases bl br) as [L2|L2]; [|lia].
      pose proof (proj2 (Same bl ltac:(lia)) ltac:(lia)). lia. }
  destruct (Nat.eqb_spec hi lo) as [E|E].
  - eexists. split; [reflexivity|]. lia.
  - eexists. split; [reflexivity|]. lia.
Qed.

(* ------------------------------------------------------------------------------------------------ *)
(* Part B.4: knot insertion in a periodic direction, end to end on the object                        *)
(* ------------------------------------------------------------------------------------------------ *)
Lemma pvals_perm (k1 k2 : list R) per1 n1 n2 T x :
  Permutation (pwin k1 per1 n1) (x :: pwin k2 per1 n2) ->
  forall v, In v (pvals k1 per1 n1 T) -> In v (pvals k2 per1 n2 T) \/ In v [x; x + T; x - T].
Proof.
  intros HP v Hv. apply pvals_in in Hv. rewrite pvals_in. cbn [In].
  destruct Hv as [H|[H|H]]; apply (Permutation_in _ HP) in H; destruct H as [E|H].
  - right. left. exact E.
  - left. left. exact H.
  - right. right. left. lra.
  - left. right. left. exact H.
  - right. right. right. left. lra.
  - left. right. right. exact H.
Qed.

Section InsertPer.
Variable tol : R.
Hypothesis Htol : 0 < tol.
Variable d : nat.
Variables (p per1 : nat) (T : R).

(* what is kept from one object to the next during the insertions in the periodic direction d *)
Definition per_frame (oc : obj R) (kc : list R) (o1 : obj R) (k1 : list R) (n1 : nat) : Prop :=
  wf_obj_R tol o1 /\ length (o_bases o1) = length (o_bases oc) /\
  (forall i, i <> d -> nth i (o_bases o1) dflt_basis = nth i (o_bases oc) dflt_basis) /\
  nth d (o_bases o1) dflt_basis = mkBasis p k1 per1 /\
  per_canon k1 p per1 n1 T /\ per_strict k1 per1 /\
  @kn R NumR k1 (p - 1) = @kn R NumR kc (p - 1).

Lemma per_frame_trans o0 k0 o1 k1 n1 o2 k2 n2 : per_frame o0 k0 o1 k1 n1 -> per_frame o1 k1 o2 k2 n2 -> per_frame o0 k0 o2 k2 n2.
Proof.
  intros (_ & L1 & O1 & B1 & C1 & S1 & E1) (W2 & L2 & O2 & B2 & C2 & S2 & E2).
  split; [exact W2|]. split; [lia|]. split; [intros i Hi; rewrite (O2 i Hi); apply O1; exact Hi|].
  split; [exact B2|]. split; [exact C2|]. split; [exact S2|]. rewrite E2. exact E1.
Qed.

Lemma dom_transfer_per oc kc o1 k1 n1 ts : (1 <= per1)%nat -> per_frame oc kc o1 k1 n1 -> dom_all tol oc ts -> dom_all tol o1 ts.
Proof.
  intros Hp1 (_ & Hl & Hoth & Hb1 & _) Hdom i Hi. rewrite Hl in Hi.
  destruct (Nat.eq_dec i d) as [->|Hne].
  - rewrite Hb1. unfold in_dom. cbn [b_per1]. intros E. lia.
  - rewrite (Hoth i Hne). apply Hdom. exact Hi.
Qed.

Lemma insert_one_per (oc : obj R) kc n x :
  wf_obj_R tol oc -> (d < length (o_bases oc))%nat -> nth d (o_bases oc) dflt_basis = mkBasis p kc per1 ->
  per_canon kc p per1 n T -> per_strict kc per1 ->
  @kn R NumR kc (p - 1) <= x < @kn R NumR kc (n + per1) ->
  exists o1 k1, @obj_insert_knots R NumR oc d [x] = Ok o1 /\ per_frame oc kc o1 k1 (n + 1) /\
    Permutation (pwin k1 per1 (n + 1)) (x :: pwin kc per1 n) /\
    forall ts, dom_all tol oc ts -> snapfree tol (pvals kc per1 n T) (nth d ts 0) -> snapfree tol [x; x + T; x - T] (nth d ts 0) ->
      @obj_eval R NumR tol o1 ts = @obj_eval R NumR tol oc ts.
Proof.
  intros Hwf Hd Hb Hcan Hstrict Hx.
  pose proof Hcan as (HK & Hper1 & Hpp & Hlen & Hreg & HT & Hseam & Himg).
  set (knew := knew_model kc p per1 x).
  set (C := @mat_of_writes R NumR (n + 1) n (@insert_writes R NumR kc p n (@py_bisect_right R NumR kc x) x)).
  pose proof (canon_insert_canon kc p per1 n T Hcan x Hx) as Hcan'. fold knew in Hcan'.
  pose proof Hcan' as (HK' & _ & _ & Hlen' & Hreg' & _ & Hseam' & Himg').
  pose proof (canon_insert_start kc p per1 n T Hcan x Hx) as Hs'. fold knew in Hs'. unfold b_start in Hs'. cbn [b_knots b_order] in Hs'.
  pose proof (canon_insert_end kc p per1 n T Hcan x Hx) as He'. fold knew in He'. unfold b_end in He'. cbn [b_knots b_order] in He'.
  pose proof (canon_period kc p per1 n T Hcan) as Hperiod.
  destruct (mu_bracket_per kc p per1 n T Hcan x Hx) as [Hmu Hbr].
  (* the old basis is well formed *)
  assert (Hbwf : wf_basis_R tol (mkBasis p kc per1)).
  { destruct Hwf as (HB & _). rewrite Forall_forall in HB. rewrite <- Hb. apply HB, nth_In, Hd. }
  destruct Hbwf as (_ & Hp & Hl2 & Hnf & Hw). unfold b_start, b_end in Hw. cbn [b_knots b_order] in *.
  replace (length kc - p)%nat with (n + per1)%nat in Hw by lia.
  assert (Hwf' : wf_basis_R tol (mkBasis p knew per1)).
  { split; [exact HK'|]. cbn [b_order b_knots]. split; [exact Hp|]. split; [lia|].
    split; [unfold b_nfun; cbn [b_knots b_order b_per1]; lia|].
    unfold b_start, b_end. cbn [b_knots b_order]. rewrite He', Hs'. exact Hw. }
  assert (HM : length C = @b_nfun R (mkBasis p knew per1)).
  { unfold C, mat_of_writes, b_nfun. rewrite map_length, seq_length. cbn [b_knots b_order b_per1]. lia. }
  assert (Hok : @obj_insert_knots R NumR oc d [x] = Ok (@obj_along R NumR oc d (mkBasis p knew per1) C)).
  { cbn [obj_insert_knots]. change (@mkBasis R 0 [] 0) with dflt_basis. rewrite Hb.
    rewrite (insert_knot_unfold kc p per1 n T Hcan x Hx). reflexivity. }
  (* strictness *)
  assert (Hstrict' : per_strict knew per1).
  { unfold per_strict. rewrite Hseam', Hs'.
    assert (E1 : @kn R NumR knew (per1 - 1) + T = @kn R NumR knew (per1 + n)).
    { rewrite <- Himg' by lia. f_equal. lia. }
    unfold knew in E1. rewrite (window_knots kc p per1 n T Hcan x Hx (per1 + n)%nat) in E1 by lia. unfold k' in E1.
    destruct (Nat.ltb_spec (per1 + n) (@py_bisect_right R NumR kc x)) as [A|A]; [lia|].
    destruct (Nat.eqb_spec (per1 + n) (@py_bisect_right R NumR kc x)) as [B|B].
    - fold knew in E1. lra.
    - fold knew in E1. replace (per1 + n - 1)%nat with ((per1 - 1) + n)%nat in E1 by lia. rewrite Himg in E1 by lia.
      unfold per_strict in Hstrict. rewrite Hseam in Hstrict. lra. }
  assert (Hperm : Permutation (pwin knew per1 (n + 1)) (x :: pwin kc per1 n)).
  { unfold pwin, knew. rewrite (canon_insert_period_knots kc p per1 n T Hcan x Hx). apply insert_at_perm. }
  exists (@obj_along R NumR oc d (mkBasis p knew per1) C), knew.
  split; [exact Hok|]. split.
  { split; [apply (along_wf tol oc Hwf d Hd _ Hwf' C HM)|].
    unfold obj_along. cbn [o_bases]. split; [apply upd_length|]. split; [intros i Hi; apply upd_nth_other; exact Hi|].
    split; [apply upd_nth_same; exact Hd|]. split; [exact Hcan'|]. split; [exact Hstrict'|exact Hs']. }
  split; [exact Hperm|].
  intros ts Hdom Hsf Hsx.
  assert (Hsn : @snap1 R NumR kc tol (nth d ts 0) = nth d ts 0).
  { apply snapfree_snap; [exact HK|exact Htol|]. apply (snapfree_incl tol _ (pvals kc per1 n T)); [|exact Hsf].
    apply (canon_values kc p per1 n T Hcan). }
  assert (Hsn' : @snap1 R NumR knew tol (nth d ts 0) = nth d ts 0).
  { apply snapfree_snap; [exact HK'|exact Htol|]. intros v Hv.
    apply (canon_values knew p per1 (n + 1) T Hcan') in Hv.
    destruct (pvals_perm knew kc per1 (n + 1) n T x Hperm v Hv) as [H|H]; [apply Hsf; exact H|apply Hsx; exact H]. }
  destruct (normalise_some kc p per1 tol Htol ltac:(rewrite Hlen; replace (n + per1 + p - p)%nat with (n + per1)%nat by lia; exact Hw)
              (nth d ts 0) ltac:(intros; lia)) as (t1 & s1 & EN).
  assert (EN' : @normalise R NumR knew p per1 tol true (nth d ts 0) = Some (t1, s1)).
  { rewrite <- EN. apply normalise_same_domain.
    - exact Hs'.
    - rewrite Hlen. replace (n + per1 + p - p)%nat with (n + per1)%nat by lia. exact He'. }
  destruct (normalised_in_domain kc p per1 tol true (nth d ts 0) t1 s1 Htol EN) as [Ha Hbe].
  unfold b_start, b_end in Ha, Hbe. cbn [b_knots b_order] in Ha, Hbe.
  replace (length kc - p)%nat with (n + per1)%nat in Hbe by lia.
  apply (along_eval tol Htol oc Hwf d Hd (mkBasis p knew per1) Hwf' C ts Hdom) with (t1 := t1) (t2 := t1) (s1 := s1) (s2 := s1).
  - unfold in_dom. cbn [b_per1]. intros E. lia.
  - rewrite Hb. cbn [b_knots b_order b_per1]. rewrite Hsn. exact EN.
  - cbn [b_knots b_order b_per1]. rewrite Hsn'. exact EN'.
  - rewrite Hb. cbn [b_knots b_order b_per1]. apply (canon_insert_row_rel kc p per1 n T Hcan x Hx s1 t1 Ha Hbe).
Qed.

(* the domain [start, end) seen from a later knot list of the same frame *)
Lemma frame_domain oc kc n o1 k1 n1 x : per_canon kc p per1 n T -> per_frame oc kc o1 k1 n1 ->
  @kn R NumR kc (p - 1) <= x < @kn R NumR kc (n + per1) -> @kn R NumR k1 (p - 1) <= x < @kn R NumR k1 (n1 + per1).
Proof.
  intros Hcan (_ & _ & _ & _ & Hcan1 & _ & Hs) Hx.
  rewrite (canon_period k1 p per1 n1 T Hcan1), Hs. rewrite (canon_period kc p per1 n T Hcan) in Hx. exact Hx.
Qed.

(* c copies of x *)
Lemma insert_copies_per x : forall (c : nat) (oc : obj R) kc n,
  wf_obj_R tol oc -> (d < length (o_bases oc))%nat -> nth d (o_bases oc) dflt_basis = mkBasis p kc per1 ->
  per_canon kc p per1 n T -> per_strict kc per1 ->
  @kn R NumR kc (p - 1) <= x < @kn R NumR kc (n + per1) ->
  exists o1 k1, @obj_insert_knots R NumR oc d (repeat x c) = Ok o1 /\ per_frame oc kc o1 k1 (n + c) /\
    Permutation (pwin k1 per1 (n + c)) (repeat x c ++ pwin kc per1 n) /\
    forall ts, dom_all tol oc ts -> snapfree tol (pvals kc per1 n T) (nth d ts 0) -> snapfree tol [x; x + T; x - T] (nth d ts 0) ->
      @obj_eval R NumR tol o1 ts = @obj_eval R NumR tol oc ts /\ snapfree tol (pvals k1 per1 (n + c) T) (nth d ts 0).
Proof.
  induction c as [|c IH]; intros oc kc n Hwf Hd Hb Hcan Hstrict Hx.
  - exists oc, kc. cbn [repeat obj_insert_knots app]. replace (n + 0)%nat with n by lia. split; [reflexivity|]. split.
    + split; [exact Hwf|]. split; [reflexivity|]. split; [intros; reflexivity|]. split; [exact Hb|]. split; [exact Hcan|].
      split; [exact Hstrict|reflexivity].
    + split; [apply Permutation_refl|]. intros ts _ Hsf _. split; [reflexivity|exact Hsf].
  - destruct (insert_one_per oc kc n x Hwf Hd Hb Hcan Hstrict Hx) as (o1 & k1 & Hok1 & Hf1 & Hp1 & Hev1).
    pose proof Hf1 as (Hwf1 & Hl1 & Hoth1 & Hb1 & Hcan1 & Hst1 & Hs1).
    destruct (IH o1 k1 (n + 1)%nat Hwf1 ltac:(lia) Hb1 Hcan1 Hst1 (frame_domain oc kc n o1 k1 (n + 1) x Hcan Hf1 Hx))
      as (o2 & k2 & Hok2 & Hf2 & Hp2 & Hev2).
    replace (n + 1 + c)%nat with (n + S c)%nat in * by lia.
    exists o2, k2. split.
    + cbn [repeat]. rewrite obj_insert_knots_cons, Hok1. exact Hok2.
    + split; [apply (per_frame_trans oc kc o1 k1 (n + 1) o2 k2 (n + S c) Hf1 Hf2)|]. split.
      * cbn [repeat]. rewrite Hp2. rewrite Hp1. cbn [app]. symmetry. apply Permutation_middle.
      * intros ts Hdom Hsf Hsx.
        pose proof (Hev1 ts Hdom Hsf Hsx) as A1.
        assert (Hsf1 : snapfree tol (pvals k1 per1 (n + 1) T) (nth d ts 0)).
        { intros v Hv. destruct (pvals_perm k1 kc per1 (n + 1) n T x Hp1 v Hv) as [H|H]; [apply Hsf; exact H|apply Hsx; exact H]. }
        pose proof Hcan as (_ & Hper1 & _).
        destruct (Hev2 ts (dom_transfer_per oc kc o1 k1 (n + 1) ts Hper1 Hf1 Hdom) Hsf1 Hsx) as (B1 & B2).
        split; [rewrite B1; exact A1|exact B2].
Qed.
End InsertPer.

(* ---------- split_insert in a periodic direction ---------- *)
Section SplitInsertPer.
Variable tol : R.
Hypothesis Htol : 0 < tol.
Variable d : nat.
Variables (p per1 : nat) (T : R).
Variable k : list R.
Variable n : nat.
Hypothesis Hcan0 : per_canon k p per1 n T.
Local Notation b0 := (@mkBasis R p k per1).
Local Notation s0 := (@kn R NumR k (p - 1)).
Local Notation e0 := (@kn R NumR k (n + per1)).

Lemma split_insert_per_gen : forall (rest : list R) (oc : obj R) (kc : list R) (nc : nat),
  wf_obj_R tol oc -> (d < length (o_bases oc))%nat -> nth d (o_bases oc) dflt_basis = mkBasis p kc per1 ->
  per_canon kc p per1 nc T -> per_strict kc per1 -> @kn R NumR kc (p - 1) = s0 ->
  Forall (fun x => s0 <= x < e0) rest ->
  Forall (knot_sep tol k) rest ->
  exists so kf, @split_insert R NumR tol b0 oc d rest = Ok so /\
    per_frame tol d p per1 T oc kc so kf (nc + length (ins_list p k rest)) /\
    Permutation (pwin kf per1 (nc + length (ins_list p k rest))) (ins_list p k rest ++ pwin kc per1 nc) /\
    forall ts, dom_all tol oc ts -> snapfree tol (pvals kc per1 nc T) (nth d ts 0) ->
      Forall (fun x => snapfree tol [x; x + T; x - T] (nth d ts 0)) rest ->
      @obj_eval R NumR tol so ts = @obj_eval R NumR tol oc ts /\
      snapfree tol (pvals kf per1 (nc + length (ins_list p k rest)) T) (nth d ts 0).
Proof.
  pose proof Hcan0 as (HK0 & Hper1 & Hpp & Hlen0 & _).
  induction rest as [|x rest IH]; intros oc kc nc Hwf Hd Hb Hcan Hstrict Hs Hin Hsep.
  - exists oc, kc. cbn [ins_list flat_map length app]. replace (nc + 0)%nat with nc by lia. split; [reflexivity|]. split.
    + split; [exact Hwf|]. split; [reflexivity|]. split; [intros; reflexivity|]. split; [exact Hb|]. split; [exact Hcan|].
      split; [exact Hstrict|reflexivity].
    + split; [apply Permutation_refl|]. intros ts _ Hsf _. split; [reflexivity|exact Hsf].
  - pose proof (Forall_inv Hin) as Hx. pose proof (Forall_inv_tail Hin) as Hin'. cbv beta in Hx.
    pose proof (Forall_inv Hsep) as Hsx. pose proof (Forall_inv_tail Hsep) as Hsep'.
    destruct (continuity_exact_per tol k p per1 x HK0 Htol Hsx) as (c & Hc & Hn).
    { rewrite Hlen0. replace (n + per1 + p - p)%nat with (n + per1)%nat by lia. lra. }
    assert (Hxc : @kn R NumR kc (p - 1) <= x < @kn R NumR kc (nc + per1)).
    { rewrite (canon_period kc p per1 nc T Hcan), Hs. rewrite (canon_period k p per1 n T Hcan0) in Hx. exact Hx. }
    destruct (insert_copies_per tol Htol d p per1 T x (p - mult k x)%nat oc kc nc Hwf Hd Hb Hcan Hstrict Hxc)
      as (o1 & k1 & Hok1 & Hf1 & Hp1 & Hev1).
    pose proof Hf1 as (Hwf1 & Hl1 & Hoth1 & Hb1 & Hcan1 & Hst1 & Hs1).
    destruct (IH o1 k1 (nc + (p - mult k x))%nat Hwf1 ltac:(lia) Hb1 Hcan1 Hst1 ltac:(rewrite Hs1; exact Hs) Hin' Hsep')
      as (so & kf & Hok2 & Hf2 & Hp2 & Hev2).
    assert (El : (nc + (p - mult k x) + length (ins_list p k rest) = nc + length (ins_list p k (x :: rest)))%nat).
    { unfold ins_list. cbn [flat_map]. rewrite app_length, repeat_length. lia. }
    rewrite El in *.
    exists so, kf. split.
    + cbn [split_insert]. rewrite Hc. cbn [b_order]. rewrite Hn, Hok1. exact Hok2.
    + split; [apply (per_frame_trans tol d p per1 T oc kc o1 k1 _ so kf _ Hf1 Hf2)|]. split.
      * rewrite Hp2, Hp1. unfold ins_list. cbn [flat_map]. rewrite <- !app_assoc.
        rewrite (app_assoc (flat_map _ rest)), (app_assoc (repeat x _)). apply Permutation_app_tail. apply Permutation_app_comm.
      * intros ts Hdom Hsf Hins. pose proof (Forall_inv Hins) as Hix. pose proof (Forall_inv_tail Hins) as Hins'. cbv beta in Hix.
        destruct (Hev1 ts Hdom Hsf Hix) as (A1 & A2).
        destruct (Hev2 ts (dom_transfer_per tol d p per1 T oc kc o1 k1 _ ts Hper1 Hf1 Hdom) A2 Hins') as (B1 & B2).
        split; [rewrite B1; exact A1|exact B2].
Qed.
End SplitInsertPer.

(* ------------------------------------------------------------------------------------------------ *)
(* Part B.5: the roll step on the object: open the periodic direction at a value of full multiplicity *)
(* ------------------------------------------------------------------------------------------------ *)
Section RollObj.
Variable tol : R.
Hypothesis Htol : 0 < tol.
Variable so : obj R.
Hypothesis Hwf : wf_obj_R tol so.
Variable d : nat.
Hypothesis Hd : (d < length (o_bases so))%nat.
Variables (p per1 nf : nat) (T : R) (kf : list R).
Hypothesis Hb : nth d (o_bases so) dflt_basis = mkBasis p kf per1.
Hypothesis Hcan : per_canon kf p per1 nf T.
Variable mu : nat.
Variable x : R.
Hypothesis Hfull : forall r, (r < p)%nat -> @kn R NumR kf (mu + r) = x.
Hypothesis Hmup : (mu + p <= nf + per1)%nat.
Local Notation ko := (kopen kf p per1 mu).
Local Notation bopen := (@mkBasis R p ko 0).
Local Notation Mroll := (@roll_matrix R NumR nf mu).
Local Notation so' := (@obj_along R NumR so d bopen Mroll).
Local Notation s := (@kn R NumR kf (p - 1)).
Local Notation e := (@kn R NumR kf (nf + per1)).

Lemma ro_mu : (mu <= nf)%nat.
Proof. destruct Hcan as (_ & _ & Hpp & _). lia. Qed.

Lemma ro_period : e = s + T.
Proof. apply (canon_period kf p per1 nf T Hcan). Qed.

Lemma ro_width : 2 * tol <= T.
Proof.
  destruct Hcan as (_ & _ & _ & Hlen & _).
  destruct Hwf as (HB & _). rewrite Forall_forall in HB. pose proof (HB _ (nth_In _ dflt_basis Hd)) as W. rewrite Hb in W.
  destruct W as (_ & _ & _ & _ & W). unfold b_start, b_end in W. cbn [b_knots b_order] in W.
  replace (length kf - p)%nat with (nf + per1)%nat in W by lia. rewrite ro_period in W. lra.
Qed.

Lemma ro_x_ge : s <= x.
Proof.
  destruct Hcan as (HK & _ & Hpp & _). rewrite <- (Hfull (p - 1)%nat) by lia. apply HK. lia.
Qed.

Lemma ro_x_le : x <= e.
Proof.
  destruct Hcan as (HK & _ & Hpp & _). rewrite <- (Hfull (p - 1)%nat) by lia. apply HK. lia.
Qed.

Lemma bopen_wf : wf_basis_R tol bopen.
Proof.
  pose proof Hcan as (_ & Hper1 & Hpp & Hlen & Hreg & _). pose proof ro_mu as Hmu.
  split; [apply (kopen_sorted kf p per1 nf T Hcan mu Hmu)|]. cbn [b_order b_knots].
  rewrite (kopen_length kf p per1 nf T Hcan mu Hmu). split; [lia|]. split; [lia|].
  split; [rewrite (kopen_nfun kf p per1 nf T Hcan mu Hmu) by exact Hmup; lia|].
  rewrite (kopen_start kf p per1 nf T Hcan mu Hmu x Hfull Hmup), (kopen_end kf p per1 nf T Hcan mu Hmu x Hfull Hmup).
  pose proof ro_width. lra.
Qed.

Theorem roll_obj_wf : wf_obj_R tol so'.
Proof.
  apply (along_wf tol so Hwf d Hd bopen bopen_wf Mroll).
  rewrite (kopen_nfun kf p per1 nf T Hcan mu ro_mu); [|exact Hmup]. unfold roll_matrix. rewrite map_length, seq_length. reflexivity.
Qed.

Lemma ko_snapfree td : snapfree tol (pvals kf per1 nf T) td -> snapfree tol ko td.
Proof.
  pose proof Hcan as (_ & Hper1 & Hpp & Hlen & Hreg & _).
  intros Hsf v Hv. apply Hsf.
  destruct (kopen_values_win kf p per1 nf T Hcan mu ro_mu Hmup v Hv) as [H|(i & Hi & ->)].
  - apply (canon_values kf p per1 nf T Hcan). exact H.
  - apply pvals_in. right. left. replace (@kn R NumR kf i + T - T) with (@kn R NumR kf i) by ring. apply pwin_in; lia.
Qed.

Theorem roll_obj_eval ts : dom_all tol so ts ->
  x <= nth d ts 0 < x + T -> snapfree tol (pvals kf per1 nf T) (nth d ts 0) -> nth d ts 0 <> e ->
  @obj_eval R NumR tol so' ts = @obj_eval R NumR tol so ts.
Proof.
  intros Hdom Ht Hsf Hne.
  pose proof Hcan as (HK & Hper1 & Hpp & Hlen & Hreg & HT & _). pose proof ro_mu as Hmu.
  pose proof ro_period as Hpe. pose proof ro_width as Hw. pose proof ro_x_ge as Hxs. pose proof ro_x_le as Hxe.
  set (td := nth d ts 0) in *.
  pose proof (ko_snapfree td Hsf) as Hsfo.
  pose proof (kopen_sorted kf p per1 nf T Hcan mu Hmu) as HKo.
  pose proof (kopen_length kf p per1 nf T Hcan mu Hmu) as HLo.
  pose proof (kopen_start kf p per1 nf T Hcan mu Hmu x Hfull Hmup) as Hso. unfold b_start in Hso. cbn [b_knots b_order] in Hso.
  pose proof (kopen_end kf p per1 nf T Hcan mu Hmu x Hfull Hmup) as Heo. unfold b_end in Heo. cbn [b_knots b_order] in Heo.
  assert (Hsn : @snap1 R NumR kf tol td = td).
  { apply snapfree_snap; [exact HK|exact Htol|]. apply (snapfree_incl tol _ (pvals kf per1 nf T)); [|exact Hsf].
    apply (canon_values kf p per1 nf T Hcan). }
  assert (Hsno : @snap1 R NumR ko tol td = td) by (apply snapfree_snap; assumption).
  (* td stays tol below the end of the opened domain *)
  assert (Hbelow : td <= x + T - tol).
  { assert (Hin : In (x + T) ko).
    { rewrite <- (kopen_hi kf p per1 nf T Hcan mu Hmu x Hfull Hmup 0%nat) by lia. apply kn_In'. rewrite HLo. lia. }
    destruct (snapfree_far tol ko td (x + T) Hsfo Hin ltac:(lra)) as [H|H]; lra. }
  (* td is at least tol away from the end of the periodic domain *)
  assert (Hend : td <= e - tol \/ e + tol <= td).
  { assert (Hin : In e (pvals kf per1 nf T)) by (apply (canon_values kf p per1 nf T Hcan); apply kn_In'; lia).
    destruct (snapfree_far tol _ td e Hsf Hin ltac:(intros E; apply Hne; symmetry; exact E)) as [H|H]; [right|left]; lra. }
  assert (HN2 : @normalise R NumR ko p 0 tol true td = Some (td, true)).
  { rewrite (normalise_nonper_true ko p tol td Htol) by (rewrite ?Hso, ?Heo; lra).
    rewrite Heo. rewrite (Rltb_false (Rabs (td - (x + T))) tol) by (rewrite Rabs_left1 by lra; lra). reflexivity. }
  assert (Hle : (length kf - p)%nat = (nf + per1)%nat) by lia.
  assert (Case : exists t1, @normalise R NumR kf p per1 tol true td = Some (t1, true) /\ (t1 = td \/ t1 = td - T) /\ s <= t1 < e).
  { destruct Hend as [H|H].
    - exists td. split; [|split; [left; reflexivity|lra]].
      apply (normalise_per_in kf p per1 tol ltac:(lia) Htol td ltac:(rewrite Hle; lra)).
    - exists (td - T). split; [|split; [right; reflexivity|lra]].
      rewrite (normalise_per_wrap kf p per1 tol ltac:(lia) Htol ltac:(rewrite Hle; lra) td ltac:(rewrite Hle; lra)).
      rewrite Hle. replace (e - s) with T by lra. reflexivity. }
  destruct Case as (t1 & HN1 & Ht1 & Hr1).
  apply (along_eval tol Htol so Hwf d Hd bopen bopen_wf Mroll ts Hdom) with (t1 := t1) (t2 := td) (s1 := true) (s2 := true).
  - unfold in_dom. intros _. cbn [b_knots]. fold td. rewrite Hsno.
    unfold b_start, b_end. cbn [b_knots b_order]. rewrite Hso, Heo. lra.
  - rewrite Hb. cbn [b_knots b_order b_per1]. fold td. rewrite Hsn. exact HN1.
  - cbn [b_knots b_order b_per1]. fold td. rewrite Hsno. exact HN2.
  - rewrite Hb. cbn [b_knots b_order b_per1].
    apply (roll_open_row_rel kf p per1 nf T Hcan mu Hmu x Hfull Hmup true td t1); unfold after_start, before_end; try lra; try exact Ht1.
Qed.

(* ---------- the end of the periodic domain: the periodic object evaluates the LEFT limit there, the opened object
   (for which it is an interior knot) the right limit; they agree when the seam knot has multiplicity <= p - 1 ---------- *)
Hypothesis Hstf : per_strict kf per1.
Hypothesis Hms : (mult kf s <= p - 1)%nat.

Lemma ko_seam_continuous : s < x -> forall i, B true (@kn R NumR ko) (p - 1) i e = B false (@kn R NumR ko) (p - 1) i e.
Proof.
  intros Hsx i.
  pose proof Hcan as (HK & Hper1 & Hpp & Hlen & Hreg & HT & Hseam & Himg). pose proof ro_mu as Hmu.
  pose proof (kopen_sorted kf p per1 nf T Hcan mu Hmu) as HKo.
  (* the copies of the start knot: indices per1 .. per1 + m - 1 *)
  set (m := mult kf s) in *.
  pose proof (count_bisect kf s HK) as Hcnt. fold m in Hcnt. pose proof (bisect_lr_le kf s HK) as Hle.
  pose proof (fun j Hj => bisect_window kf s j HK Hj) as W.
  assert (Hbr : (@py_bisect_right R NumR kf s <= length kf)%nat).
  { unfold py_bisect_right. destruct (bisect_right_spec (@kn R NumR kf) HK s (length kf)) as (B1 & _). exact B1. }
  destruct (bisect_right_spec (@kn R NumR kf) HK s (length kf)) as (_ & R2 & R3). cbv zeta in R2, R3. fold (@py_bisect_right R NumR kf s) in R2, R3.
  set (bl := @py_bisect_left R NumR kf s) in *. set (br := @py_bisect_right R NumR kf s) in *.
  assert (Hin : (bl <= per1 < br)%nat) by (apply (W per1 ltac:(lia)); exact Hseam).
  assert (Hbl : bl = per1).
  { destruct (Nat.eq_dec bl per1) as [E|E]; [exact E|exfalso].
    assert (C : @kn R NumR kf (per1 - 1) = s) by (apply (W (per1 - 1)%nat ltac:(lia)); lia).
    unfold per_strict in Hstf. rewrite Hseam in Hstf. lra. }
  assert (Hbrm : br = (per1 + m)%nat) by lia.
  assert (Hm1 : (1 <= m)%nat) by lia.
  assert (Hcopies : forall j, (j < m)%nat -> @kn R NumR kf (per1 + j) = s) by (intros j Hj; apply (W (per1 + j)%nat ltac:(lia)); lia).
  assert (Habove : s < @kn R NumR kf (per1 + m)) by (apply R3; lia).
  assert (Hmum : (per1 + m <= mu)%nat).
  { destruct (Nat.le_gt_cases (per1 + m) mu) as [L|L]; [exact L|exfalso].
    pose proof (R2 mu ltac:(lia)) as C. rewrite <- (Hfull 0%nat) in Hsx by lia. replace (mu + 0)%nat with mu in Hsx by lia. lra. }
  set (a := (nf + per1 - 1 - mu)%nat).
  assert (Ka : forall j, (j <= m + 1)%nat -> @kn R NumR ko (a + j) = @kn R NumR kf (per1 - 1 + j) + T).
  { intros j Hj. rewrite (kopen_kn kf p per1 nf T Hcan mu Hmu) by (unfold a; lia).
    replace (mu + (a + j))%nat with ((per1 - 1 + j) + nf)%nat by (unfold a; lia).
    rewrite (pext_per kf p per1 nf T Hcan). rewrite (pext_agree kf p per1 nf T Hcan) by lia. reflexivity. }
  assert (Ee : e = s + T) by exact ro_period.
  assert (E1 : @kn R NumR ko (S a) = e).
  { replace (S a) with (a + 1)%nat by lia. rewrite Ka by lia. replace (per1 - 1 + 1)%nat with (per1 + 0)%nat by lia. rewrite Hcopies by lia. lra. }
  rewrite <- E1.
  apply (B_continuous_at_multiple_knot (@kn R NumR ko) HKo a m Hm1).
  - replace a with (a + 0)%nat at 1 by lia. rewrite Ka by lia. rewrite E1. replace (per1 - 1 + 0)%nat with (per1 - 1)%nat by lia.
    unfold per_strict in Hstf. rewrite Hseam in Hstf. lra.
  - rewrite E1. rewrite Ka by lia. replace (per1 - 1 + m)%nat with (per1 + (m - 1))%nat by lia. rewrite Hcopies by lia. lra.
  - replace (S (a + m)) with (a + (m + 1))%nat by lia. rewrite !Ka by lia.
    replace (per1 - 1 + m)%nat with (per1 + (m - 1))%nat by lia. rewrite Hcopies by lia.
    replace (per1 - 1 + (m + 1))%nat with (per1 + m)%nat by lia. lra.
  - lia.
  - unfold a. lia.
Qed.

Lemma ref_row_side_eq (kk : list R) pp t :
  (forall i, B true (@kn R NumR kk) (pp - 1) i t = B false (@kn R NumR kk) (pp - 1) i t) ->
  @ref_row R NumR true kk pp 0 0 t = @ref_row R NumR false kk pp 0 0 t.
Proof.
  intros HB. rewrite !ref_row_R. apply map_ext. intros c. apply sumf_ext. intros i _. rewrite HB. reflexivity.
Qed.

Theorem roll_obj_eval_seam ts : x < e -> dom_all tol so ts ->
  x <= nth d ts 0 < x + T -> snapfree tol (pvals kf per1 nf T) (nth d ts 0) -> nth d ts 0 = e ->
  @obj_eval R NumR tol so' ts = @obj_eval R NumR tol so ts.
Proof.
  intros Hxlt Hdom Ht Hsf Hte.
  pose proof Hcan as (HK & Hper1 & Hpp & Hlen & Hreg & HT & _). pose proof ro_mu as Hmu.
  pose proof ro_period as Hpe. pose proof ro_width as Hw. pose proof ro_x_ge as Hxs. pose proof ro_x_le as Hxe.
  set (td := nth d ts 0) in *.
  pose proof (ko_snapfree td Hsf) as Hsfo.
  pose proof (kopen_sorted kf p per1 nf T Hcan mu Hmu) as HKo.
  pose proof (kopen_length kf p per1 nf T Hcan mu Hmu) as HLo.
  pose proof (kopen_start kf p per1 nf T Hcan mu Hmu x Hfull Hmup) as Hso. unfold b_start in Hso. cbn [b_knots b_order] in Hso.
  pose proof (kopen_end kf p per1 nf T Hcan mu Hmu x Hfull Hmup) as Heo. unfold b_end in Heo. cbn [b_knots b_order] in Heo.
  assert (Hsn : @snap1 R NumR kf tol td = td).
  { apply snapfree_snap; [exact HK|exact Htol|]. apply (snapfree_incl tol _ (pvals kf per1 nf T)); [|exact Hsf].
    apply (canon_values kf p per1 nf T Hcan). }
  assert (Hsno : @snap1 R NumR ko tol td = td) by (apply snapfree_snap; assumption).
  assert (Hbelow : td <= x + T - tol).
  { assert (Hin : In (x + T) ko).
    { rewrite <- (kopen_hi kf p per1 nf T Hcan mu Hmu x Hfull Hmup 0%nat) by lia. apply kn_In'. rewrite HLo. lia. }
    destruct (snapfree_far tol ko td (x + T) Hsfo Hin ltac:(lra)) as [Hx|Hx]; lra. }
  assert (Hsx : s < x) by lra.
  assert (HN2 : @normalise R NumR ko p 0 tol true td = Some (td, true)).
  { rewrite (normalise_nonper_true ko p tol td Htol) by (rewrite ?Hso, ?Heo; lra).
    rewrite Heo. rewrite (Rltb_false (Rabs (td - (x + T))) tol) by (rewrite Rabs_left1 by lra; lra). reflexivity. }
  assert (Hle : (length kf - p)%nat = (nf + per1)%nat) by lia.
  assert (HN1 : @normalise R NumR kf p per1 tol true td = Some (td, false)).
  { rewrite Hte. rewrite <- Hle. apply (normalise_per_end kf p per1 tol ltac:(lia) Htol). rewrite Hle. lra. }
  apply (along_eval tol Htol so Hwf d Hd bopen bopen_wf Mroll ts Hdom) with (t1 := td) (t2 := td) (s1 := false) (s2 := true).
  - unfold in_dom. intros _. cbn [b_knots]. fold td. rewrite Hsno.
    unfold b_start, b_end. cbn [b_knots b_order]. rewrite Hso, Heo. lra.
  - rewrite Hb. cbn [b_knots b_order b_per1]. fold td. rewrite Hsn. exact HN1.
  - cbn [b_knots b_order b_per1]. fold td. rewrite Hsno. exact HN2.
  - rewrite Hb. cbn [b_knots b_order b_per1].
    rewrite Hte. rewrite (ref_row_side_eq ko p e (ko_seam_continuous Hsx)). rewrite <- Hte.
    apply (roll_open_row_rel kf p per1 nf T Hcan mu Hmu x Hfull Hmup false td td
             ltac:(unfold after_start; lra) ltac:(unfold before_end; lra) (or_introl eq_refl)
             ltac:(unfold after_start; lra) ltac:(unfold before_end; lra)).
Qed.
End RollObj.

(* ------------------------------------------------------------------------------------------------ *)
(* Part B.6 / C: obj_split in a periodic direction                                                   *)
(* ------------------------------------------------------------------------------------------------ *)
(* a value of full multiplicity p in a sorted list: the window found by bisect_left *)
Lemma full_mult_window (kf : list R) p x : sorted (@kn R NumR kf) -> mult kf x = p ->
  let mu := @py_bisect_left R NumR kf x in
  (mu + p <= length kf)%nat /\ (forall r, (r < p)%nat -> @kn R NumR kf (mu + r) = x) /\ @py_bisect_right R NumR kf x = (mu + p)%nat.
Proof.
  intros HK Hm. cbv zeta. rewrite (count_bisect kf x HK) in Hm. pose proof (bisect_lr_le kf x HK) as Hle.
  assert (Hbr : (@py_bisect_right R NumR kf x <= length kf)%nat).
  { unfold py_bisect_right. destruct (bisect_right_spec (@kn R NumR kf) HK x (length kf)) as (B1 & _). exact B1. }
  split; [lia|]. split; [|lia]. intros r Hr. apply (bisect_window kf x (@py_bisect_left R NumR kf x + r) HK); lia.
Qed.

(* A, in one statement: a canonical regular periodic knot list in which the value x of [start, end) has multiplicity
   exactly p (as after split_insert), mu = bisect_left(knots, x): roll(mu) followed by dropping the last per1 knots gives a
   sorted open knot vector of n + p knots, the window mu .. mu+n+p-1 of the periodic extension, clamped at x and x + T
   (domain [x, x + T], n functions), and the periodic and the open rows are related by roll_matrix n mu. *)
Theorem roll_open_basis (k : list R) p per1 n T x : per_canon k p per1 n T ->
  @kn R NumR k (p - 1) <= x < @kn R NumR k (n + per1) -> mult k x = p ->
  let mu := @py_bisect_left R NumR k x in let ko := kopen k p per1 mu in
  (mu + p <= n + per1)%nat /\ length ko = (n + p)%nat /\ sorted (@kn R NumR ko) /\
  (forall j, (j < n + p)%nat -> nth j ko 0 = pext k n T (mu + j)) /\
  (forall j, (j < p)%nat -> @kn R NumR ko j = x /\ @kn R NumR ko (n + j) = x + T) /\
  @b_start R NumR (mkBasis p ko 0) = x /\ @b_end R NumR (mkBasis p ko 0) = x + T /\ @b_nfun R (mkBasis p ko 0) = n /\
  forall side t t', after_start side x t -> before_end side t (x + T) -> t' = t \/ t' = t - T ->
    after_start side (@kn R NumR k (p - 1)) t' -> before_end side t' (@kn R NumR k (n + per1)) ->
    row_rel (@ref_row R NumR side k p per1 0 t') (@ref_row R NumR side ko p 0 0 t) (@roll_matrix R NumR n mu).
Proof.
  intros Hcan Hx Hm. cbv zeta. pose proof Hcan as (HK & Hper1 & Hpp & Hlen & _).
  destruct (full_mult_window k p x HK Hm) as (A1 & A2 & _). cbv zeta in A1, A2.
  set (mu := @py_bisect_left R NumR k x) in *.
  assert (Hmup : (mu + p <= n + per1)%nat).
  { assert (L : @kn R NumR k (mu + (p - 1)) < @kn R NumR k (n + per1)) by (rewrite A2 by lia; lra).
    apply sorted_lt_idx in L; [lia|exact HK]. }
  assert (Hmu : (mu <= n)%nat) by lia.
  split; [exact Hmup|]. split; [apply (kopen_length k p per1 n T Hcan mu Hmu)|].
  split; [apply (kopen_sorted k p per1 n T Hcan mu Hmu)|].
  split; [intros j Hj; apply (kopen_nth k p per1 n T Hcan mu Hmu j Hj)|].
  split; [intros j Hj; split; [apply (kopen_lo k p per1 n T Hcan mu Hmu x A2 Hmup j Hj)|apply (kopen_hi k p per1 n T Hcan mu Hmu x A2 Hmup j Hj)]|].
  split; [apply (kopen_start k p per1 n T Hcan mu Hmu x A2 Hmup)|].
  split; [apply (kopen_end k p per1 n T Hcan mu Hmu x A2 Hmup)|].
  split; [apply (kopen_nfun k p per1 n T Hcan mu Hmu Hmup)|].
  intros side t t'. apply (roll_open_row_rel k p per1 n T Hcan mu Hmu x A2 Hmup side t t').
Qed.

Lemma sorted_gap_last tol a b : a <= b -> forall l, Sorted (gap tol) (l ++ [a]) -> Sorted (gap tol) (l ++ [b]).
Proof.
  intros Hab. induction l as [|x l IH]; intros HS; cbn [app] in *.
  - constructor; constructor.
  - apply Sorted_inv in HS. destruct HS as [HS HR]. constructor; [apply IH; exact HS|].
    destruct l as [|y l]; cbn [app] in *.
    + inversion HR; subst. constructor. unfold gap in *. lra.
    + inversion HR; subst. constructor. assumption.
Qed.

Lemma ssorted_gap_in tol l u v : 0 < tol -> StronglySorted (gap tol) l -> In u l -> In v l -> u = v \/ u + 2 * tol <= v \/ v + 2 * tol <= u.
Proof.
  intros Htol HS Hu Hv. destruct (In_nth l u 0 Hu) as (i & Hi & <-). destruct (In_nth l v 0 Hv) as (j & Hj & <-).
  destruct (lt_eq_lt_dec i j) as [[L|E]|L].
  - right. left. apply (ssorted_nth _ _ 0 HS i j). lia.
  - left. subst. reflexivity.
  - right. right. apply (ssorted_nth _ _ 0 HS j i). lia.
Qed.

(* the parameters for which the statements are proved: the d-th parameter is not strictly within tol of a knot image
   (a knot of one period, a split value, or one of these shifted by +T or -T) without being equal to it, so that
   snap() leaves it alone on every knot vector that occurs *)
Definition per_param_ok (tol : R) (k : list R) (per1 n : nat) (T : R) (ks : list R) (t : R) : Prop :=
  snapfree tol (pvals k per1 n T) t /\ Forall (fun x => snapfree tol [x; x + T; x - T] t) ks.

Record psplit_hyps (tol : R) (o : obj R) (d p per1 n : nat) (T : R) (k : list R) (x0 : R) (rest : list R) : Prop := {
  ph_tol : 0 < tol;
  ph_wf : wf_obj_R tol o;
  ph_dir : (d < length (o_bases o))%nat;
  (* direction d is periodic, of order p and continuity per1 - 1, with n functions, period T, regular canonical knots *)
  ph_basis : nth d (o_bases o) dflt_basis = mkBasis p k per1;
  ph_canon : per_canon k p per1 n T;
  (* the ghost knot below the start knot is strictly smaller *)
  ph_strict : per_strict k per1;
  (* start <= x0, then the split values and the end of the domain increase, consecutive ones at least 2*tol apart *)
  ph_first : @kn R NumR k (p - 1) <= x0;
  ph_spaced : Sorted (gap tol) (x0 :: rest ++ [@kn R NumR k (n + per1)]);
  (* no knot other than x itself in the window [x - tol, x + tol) that continuity() counts *)
  ph_sep : Forall (knot_sep tol k) (x0 :: rest);
  (* a split value is not already a knot of multiplicity > p *)
  ph_mult : Forall (fun x => (mult k x <= p)%nat) (x0 :: rest)
}.

Section PSplit.
Variables (tol : R) (o : obj R) (d p per1 n : nat) (T : R) (k : list R) (x0 : R) (rest : list R).
Hypothesis H : psplit_hyps tol o d p per1 n T k x0 rest.
Local Notation ks := (x0 :: rest).
Local Notation s := (@kn R NumR k (p - 1)).
Local Notation e := (@kn R NumR k (n + per1)).

Let Htol := ph_tol _ _ _ _ _ _ _ _ _ _ H.
Let Hwf := ph_wf _ _ _ _ _ _ _ _ _ _ H.
Let Hd := ph_dir _ _ _ _ _ _ _ _ _ _ H.
Let Hb0 := ph_basis _ _ _ _ _ _ _ _ _ _ H.
Let Hcan := ph_canon _ _ _ _ _ _ _ _ _ _ H.
Let Hstrict := ph_strict _ _ _ _ _ _ _ _ _ _ H.

Lemma ph_ssorted : StronglySorted (gap tol) (x0 :: rest ++ [e]).
Proof.
  apply Sorted_StronglySorted; [|exact (ph_spaced _ _ _ _ _ _ _ _ _ _ H)].
  intros a b c Hab Hbc. unfold gap in *. lra.
Qed.

Lemma ph_gaps : StronglySorted (gap tol) ks.
Proof. pose proof ph_ssorted as S. change (x0 :: rest ++ [e]) with (ks ++ [e]) in S. destruct (ssorted_app _ _ _ S) as (A & _). exact A. Qed.

Lemma ph_incr : StronglySorted Rlt ks.
Proof. apply (ssorted_impl (gap tol)); [|exact ph_gaps]. intros a b G. unfold gap in G. lra. Qed.

Lemma ph_inside x : In x ks -> s <= x /\ x + 2 * tol <= e.
Proof.
  intros Hx. pose proof ph_ssorted as S. change (x0 :: rest ++ [e]) with (ks ++ [e]) in S.
  destruct (ssorted_app _ _ _ S) as (A & _ & C). split.
  - pose proof (ph_first _ _ _ _ _ _ _ _ _ _ H) as F. destruct Hx as [<-|Hx]; [exact F|].
    destruct (StronglySorted_inv A) as [_ A2]. rewrite Forall_forall in A2. pose proof (A2 x Hx) as G. unfold gap in G. lra.
  - apply (C x e Hx). left. reflexivity.
Qed.

Lemma ph_period : e = s + T.
Proof. apply (canon_period k p per1 n T Hcan). Qed.

(* ---------- 1. split_insert on the periodic object ---------- *)
Lemma psplit_insert : exists so kf nf,
  @split_insert R NumR tol (mkBasis p k per1) o d ks = Ok so /\
  per_frame tol d p per1 T o k so kf nf /\
  Permutation (pwin kf per1 nf) (ins_list p k ks ++ pwin k per1 n) /\
  Forall (fun x => mult kf x = p) ks /\
  forall ts, dom_all tol o ts -> per_param_ok tol k per1 n T ks (nth d ts 0) ->
    @obj_eval R NumR tol so ts = @obj_eval R NumR tol o ts /\ snapfree tol (pvals kf per1 nf T) (nth d ts 0).
Proof.
  destruct (split_insert_per_gen tol Htol d p per1 T k n Hcan ks o k n Hwf Hd Hb0 Hcan Hstrict eq_refl)
    as (so & kf & Hok & Hf & Hperm & Hev).
  { apply Forall_forall. intros x Hx. destruct (ph_inside x Hx). lra. }
  { exact (ph_sep _ _ _ _ _ _ _ _ _ _ H). }
  exists so, kf, (n + length (ins_list p k ks))%nat. split; [exact Hok|]. split; [exact Hf|]. split; [exact Hperm|]. split.
  - pose proof Hf as (_ & _ & _ & _ & Hcanf & Hstf & Hsf).
    pose proof (ph_mult _ _ _ _ _ _ _ _ _ _ H) as Hm. rewrite Forall_forall in *. intros x Hx.
    destruct (ph_inside x Hx) as [I1 I2].
    rewrite (mult_window kf p per1 _ T Hcanf Hstf x) by (rewrite (canon_period kf p per1 _ T Hcanf), Hsf, <- ph_period; lra).
    rewrite (Permutation_count_occ Req_EM_T _ _) in Hperm. rewrite (Hperm x). rewrite count_occ_app.
    rewrite (count_ins_in p k ks x ph_incr Hx).
    rewrite <- (mult_window k p per1 n T Hcan Hstrict x) by lra. pose proof (Hm x Hx). lia.
  - intros ts Hdom [P1 P2]. apply (Hev ts Hdom P1 P2).
Qed.

(* ---------- 2. the opening: mu = bisect_left(knots, x0), roll, truncate ---------- *)
Definition opened (so : obj R) (kf : list R) (nf : nat) : obj R :=
  let mu := @py_bisect_left R NumR kf x0 in
  @obj_along R NumR so d (mkBasis p (kopen kf p per1 mu) 0) (@roll_matrix R NumR nf mu).

Lemma open_facts so kf nf : per_frame tol d p per1 T o k so kf nf -> mult kf x0 = p ->
  let mu := @py_bisect_left R NumR kf x0 in
  (mu + p <= nf + per1)%nat /\ (forall r, (r < p)%nat -> @kn R NumR kf (mu + r) = x0).
Proof.
  intros (_ & _ & _ & _ & Hcanf & _ & Hsf) Hm. cbv zeta.
  pose proof Hcanf as (HKf & Hper1 & Hpp & Hlenf & _).
  destruct (full_mult_window kf p x0 HKf Hm) as (A1 & A2 & _). cbv zeta in A1, A2. split; [|exact A2].
  destruct (ph_inside x0 (or_introl eq_refl)) as [I1 I2].
  assert (L : @kn R NumR kf (@py_bisect_left R NumR kf x0 + (p - 1)) < @kn R NumR kf (nf + per1)).
  { rewrite A2 by lia. rewrite (canon_period kf p per1 nf T Hcanf), Hsf, <- ph_period. lra. }
  apply sorted_lt_idx in L; [lia|exact HKf].
Qed.

Lemma psplit_unfold f so kf nf :
  @split_insert R NumR tol (mkBasis p k per1) o d ks = Ok so ->
  nth d (o_bases so) dflt_basis = mkBasis p kf per1 -> length kf = (nf + per1 + p)%nat ->
  @obj_split R NumR (S f) tol o d ks
  = match rest with [] => Ok [opened so kf nf] | _ :: _ => @obj_split R NumR f tol (opened so kf nf) d rest end.
Proof.
  intros Hok Hbs Hlenf. pose proof Hcan as (_ & Hper1 & _).
  cbn [obj_split]. change (@mkBasis R 0 [] 0) with dflt_basis. rewrite Hb0, Hok, Hbs. cbn [b_per1 b_knots b_order hd tl].
  destruct (Nat.eqb_spec per1 0) as [C|_]; [lia|]. cbn [negb].
  assert (En : @b_nfun R (mkBasis p kf per1) = nf) by (unfold b_nfun; cbn [b_knots b_order b_per1]; lia).
  rewrite En. unfold opened, kopen, krolled. cbv zeta. destruct rest; reflexivity.
Qed.

(* the opened object *)
Lemma opened_props so kf nf : per_frame tol d p per1 T o k so kf nf -> mult kf x0 = p ->
  let o1 := opened so kf nf in let b1 := nth d (o_bases o1) dflt_basis in
  wf_obj_R tol o1 /\ length (o_bases o1) = length (o_bases o) /\
  (forall i, i <> d -> nth i (o_bases o1) dflt_basis = nth i (o_bases o) dflt_basis) /\
  b1 = mkBasis p (kopen kf p per1 (@py_bisect_left R NumR kf x0)) 0 /\
  @b_start R NumR b1 = x0 /\ @b_end R NumR b1 = x0 + T.
Proof.
  intros Hf Hm. destruct (open_facts so kf nf Hf Hm) as [Hmup Hfull]. cbv zeta in Hmup, Hfull.
  pose proof Hf as (Hwfs & Hls & Hoths & Hbs & Hcanf & Hstf & Hsf).
  assert (Hds : (d < length (o_bases so))%nat) by (rewrite Hls; exact Hd).
  assert (Hmu : (@py_bisect_left R NumR kf x0 <= nf)%nat) by (destruct Hcanf as (_ & _ & Hpp & _); lia).
  cbv zeta. unfold opened. cbv zeta.
  split; [apply (roll_obj_wf tol so Hwfs d Hds p per1 nf T kf Hbs Hcanf _ x0 Hfull Hmup)|].
  unfold obj_along. cbn [o_bases]. split; [rewrite upd_length; exact Hls|].
  split; [intros i Hi; rewrite upd_nth_other by exact Hi; apply Hoths; exact Hi|].
  rewrite upd_nth_same by exact Hds. split; [reflexivity|].
  split; [apply (kopen_start kf p per1 nf T Hcanf _ Hmu x0 Hfull Hmup)|apply (kopen_end kf p per1 nf T Hcanf _ Hmu x0 Hfull Hmup)].
Qed.

Lemma dom_all_of_others ts : 
  (forall i, (i < length (o_bases o))%nat -> i <> d -> in_dom tol (nth i (o_bases o) dflt_basis) (nth i ts 0)) -> dom_all tol o ts.
Proof.
  intros Hdom i Hi. destruct (Nat.eq_dec i d) as [->|Hne]; [|apply Hdom; assumption].
  rewrite Hb0. unfold in_dom. cbn [b_per1]. pose proof Hcan as (_ & Hper1 & _). intros E. lia.
Qed.

(* evaluation of the opened object: one full period starting at x0, up to (excluding) its end; at the end of the periodic
   domain itself the periodic object evaluates the LEFT limit: equality there needs a seam knot of multiplicity <= p - 1 *)
Lemma opened_eval so kf nf : per_frame tol d p per1 T o k so kf nf ->
  Permutation (pwin kf per1 nf) (ins_list p k ks ++ pwin k per1 n) -> mult kf x0 = p ->
  (forall ts, dom_all tol o ts -> per_param_ok tol k per1 n T ks (nth d ts 0) ->
     @obj_eval R NumR tol so ts = @obj_eval R NumR tol o ts /\ snapfree tol (pvals kf per1 nf T) (nth d ts 0)) ->
  forall ts, dom_all tol o ts -> per_param_ok tol k per1 n T ks (nth d ts 0) ->
    x0 <= nth d ts 0 < x0 + T -> (nth d ts 0 = e -> (mult k s <= p - 1)%nat) ->
    @obj_eval R NumR tol (opened so kf nf) ts = @obj_eval R NumR tol o ts.
Proof.
  intros Hf Hperm Hm Hev ts Hdom Hpar Ht Hseam. destruct (open_facts so kf nf Hf Hm) as [Hmup Hfull]. cbv zeta in Hmup, Hfull.
  pose proof Hf as (Hwfs & Hls & Hoths & Hbs & Hcanf & Hstf & Hsf).
  assert (Hds : (d < length (o_bases so))%nat) by (rewrite Hls; exact Hd).
  destruct (Hev ts Hdom Hpar) as [E1 E2]. rewrite <- E1.
  pose proof Hcan as (_ & Hper1 & _).
  assert (Hef : @kn R NumR kf (nf + per1) = e) by (rewrite (canon_period kf p per1 nf T Hcanf), Hsf, <- ph_period; reflexivity).
  pose proof (dom_transfer_per tol d p per1 T o k so kf nf ts Hper1 Hf Hdom) as Hdoms.
  destruct (Req_dec (nth d ts 0) e) as [Ee|Ne].
  - (* the seam *)
    pose proof ph_period as Hpe. pose proof (Hseam Ee) as Hms.
    assert (Hx0 : s < x0) by lra.
    destruct (ph_inside x0 (or_introl eq_refl)) as [I1 I2].
    assert (Hnot : ~ In s ks).
    { intros [E0|Hr]; [lra|]. pose proof ph_gaps as G. destruct (StronglySorted_inv G) as [_ G2]. rewrite Forall_forall in G2.
      pose proof (G2 s Hr) as G3. unfold gap in G3. lra. }
    assert (Hmsf : (mult kf (@kn R NumR kf (p - 1)) <= p - 1)%nat).
    { rewrite Hsf. rewrite (mult_window kf p per1 nf T Hcanf Hstf s) by (rewrite Hsf, Hef; lra).
      rewrite (Permutation_count_occ Req_EM_T _ _) in Hperm. rewrite (Hperm s). rewrite count_occ_app.
      rewrite (count_ins_notin p k ks s Hnot). rewrite <- (mult_window k p per1 n T Hcan Hstrict s) by lra. exact Hms. }
    apply (roll_obj_eval_seam tol Htol so Hwfs d Hds p per1 nf T kf Hbs Hcanf _ x0 Hfull Hmup Hstf Hmsf ts);
      [rewrite Hef; lra|exact Hdoms|exact Ht|exact E2|rewrite Hef; exact Ee].
  - apply (roll_obj_eval tol Htol so Hwfs d Hds p per1 nf T kf Hbs Hcanf _ x0 Hfull Hmup ts Hdoms Ht E2).
    rewrite Hef. exact Ne.
Qed.

(* ---------- 3. the opened object satisfies the hypotheses of the non-periodic theorem for the remaining values ---------- *)
Lemma opened_split_hyps so kf nf : per_frame tol d p per1 T o k so kf nf ->
  Permutation (pwin kf per1 nf) (ins_list p k ks ++ pwin k per1 n) ->
  Forall (fun x => mult kf x = p) ks ->
  split_hyps tol (opened so kf nf) d p (kopen kf p per1 (@py_bisect_left R NumR kf x0)) rest.
Proof.
  intros Hf Hperm Hmall.
  assert (Hm : mult kf x0 = p) by (rewrite Forall_forall in Hmall; apply Hmall; left; reflexivity).
  destruct (open_facts so kf nf Hf Hm) as [Hmup Hfull]. cbv zeta in Hmup, Hfull.
  destruct (opened_props so kf nf Hf Hm) as (Owf & Olen & Ooth & Ob & Os & Oe). cbv zeta in *.
  pose proof Hf as (Hwfs & Hls & Hoths & Hbs & Hcanf & Hstf & Hsf).
  pose proof Hcanf as (HKf & Hper1 & Hpp & Hlenf & Hregf & HT & Hseamf & Himgf).
  set (mu := @py_bisect_left R NumR kf x0) in *. set (ko := kopen kf p per1 mu) in *.
  assert (Hmu : (mu <= nf)%nat) by lia.
  assert (Est : st p ko = x0) by (rewrite Ob in Os; exact Os).
  assert (Een : en p ko = x0 + T) by (rewrite Ob in Oe; exact Oe).
  assert (Hef : @kn R NumR kf (nf + per1) = e) by (rewrite (canon_period kf p per1 nf T Hcanf), Hsf, <- ph_period; reflexivity).
  pose proof (kopen_sorted kf p per1 nf T Hcanf mu Hmu) as HKo. fold ko in HKo.
  pose proof (kopen_length kf p per1 nf T Hcanf mu Hmu) as HLo. fold ko in HLo.
  constructor.
  - exact Htol.
  - exact Owf.
  - rewrite Olen. exact Hd.
  - exact Ob.
  - rewrite Est, Een. destruct (ph_inside x0 (or_introl eq_refl)) as [I1 I2].
    change (x0 :: rest ++ [x0 + T]) with ((x0 :: rest) ++ [x0 + T]).
    apply (sorted_gap_last tol e (x0 + T)); [rewrite ph_period; lra|]. exact (ph_spaced _ _ _ _ _ _ _ _ _ _ H).
  - (* separation *)
    pose proof (ph_sep _ _ _ _ _ _ _ _ _ _ H) as Hsep. rewrite Forall_forall in *. intros y Hy v Hv.
    destruct (ph_inside y (or_intror Hy)) as [Y1 Y2]. destruct (ph_inside x0 (or_introl eq_refl)) as [X1 X2].
    assert (Yx : x0 + 2 * tol <= y).
    { pose proof ph_gaps as G. destruct (StronglySorted_inv G) as [_ G2]. rewrite Forall_forall in G2. apply (G2 y Hy). }
    pose proof ph_period as Hpe.
    destruct (kopen_values_win kf p per1 nf T Hcanf mu Hmu Hmup v Hv) as [Hin|(i & Hi & ->)].
    + apply (canon_values kf p per1 nf T Hcanf) in Hin. apply pvals_in in Hin.
      destruct Hin as [W|[W|W]].
      * apply (Permutation_in _ Hperm) in W. apply in_app_or in W. destruct W as [W|W].
        -- unfold ins_list in W. apply in_flat_map in W. destruct W as (z & Hz & Hr). apply repeat_spec in Hr. subst v.
           destruct (ssorted_gap_in tol ks z y Htol ph_gaps Hz (or_intror Hy)) as [E|[E|E]]; [left; exact E|right; left; lra|right; right; lra].
        -- apply (Hsep y (or_intror Hy)). apply (pwin_sub k per1 n). exact W.
      * destruct (pwin_range_strict kf p per1 nf T Hcanf Hstf _ W) as [R1 R2]. rewrite Hsf in R1. right. right. lra.
      * destruct (pwin_range_strict kf p per1 nf T Hcanf Hstf _ W) as [R1 R2]. rewrite Hef in R2. right. left. lra.
    + pose proof (HKf per1 i ltac:(lia)) as L. rewrite Hseamf, Hsf in L. right. right. lra.
  - (* multiplicities *)
    rewrite Forall_forall in *. intros y Hy. destruct (ph_inside y (or_intror Hy)) as [Y1 Y2].
    pose proof (Hmall y (or_intror Hy)) as Hmy. rewrite (count_bisect kf y HKf) in Hmy.
    rewrite (count_bisect ko y HKo).
    assert (Hbr : (@py_bisect_right R NumR ko y <= length ko)%nat).
    { unfold py_bisect_right. destruct (bisect_right_spec (@kn R NumR ko) HKo y (length ko)) as (B1 & _). exact B1. }
    destruct (Nat.le_gt_cases (@py_bisect_right R NumR ko y) (@py_bisect_left R NumR ko y)) as [L|L]; [lia|].
    assert (Key : forall j, (@py_bisect_left R NumR ko y <= j < @py_bisect_right R NumR ko y)%nat ->
              (@py_bisect_left R NumR kf y <= mu + j < @py_bisect_right R NumR kf y)%nat).
    { intros j Hj. assert (Hjl : (j < length ko)%nat) by lia.
      pose proof (proj1 (bisect_window ko y j HKo Hjl) Hj) as Ej. rewrite HLo in Hjl.
      unfold ko in Ej. rewrite (kopen_kn kf p per1 nf T Hcanf mu Hmu j Hjl) in Ej.
      assert (Lt : pext kf nf T (mu + j) < pext kf nf T (nf + per1)).
      { rewrite Ej. rewrite (pext_agree kf p per1 nf T Hcanf) by lia. rewrite Hef. lra. }
      apply sorted_lt_idx in Lt; [|apply (pext_sorted kf p per1 nf T Hcanf)].
      rewrite (pext_agree kf p per1 nf T Hcanf) in Ej by lia.
      apply (bisect_window kf y (mu + j) HKf); [lia|exact Ej]. }
    pose proof (Key (@py_bisect_left R NumR ko y) ltac:(lia)). pose proof (Key (@py_bisect_right R NumR ko y - 1)%nat ltac:(lia)). lia.
Qed.
End PSplit.

(* ---------- the main statements ---------- *)
(* the end points of the pieces: one full period starting at the first split value *)
Definition pends (x0 T : R) (rest : list R) : list R := x0 :: rest ++ [x0 + T].

(* the condition on the parameter tuple ts for piece j *)
Definition ppiece_param (tol : R) (o : obj R) (d p per1 n : nat) (T : R) (k : list R) (x0 : R) (rest : list R) (j : nat) (ts : list R) : Prop :=
  (* inside the domain of o in the other directions *)
  (forall i, (i < length (o_bases o))%nat -> i <> d -> in_dom tol (nth i (o_bases o) dflt_basis) (nth i ts 0)) /\
  (* the d-th parameter lies in the interval of piece j ... *)
  nth j (pends x0 T rest) 0 <= nth d ts 0 <= nth (S j) (pends x0 T rest) 0 /\
  (* ... at least 2*tol below its end; in the last piece: strictly below the end x0 + T of the period *)
  (nth d ts 0 <= nth (S j) (pends x0 T rest) 0 - 2 * tol \/ (j = length rest /\ nth d ts 0 < x0 + T)) /\
  (* ... is not moved by snap() on any of the knot vectors that occur *)
  per_param_ok tol k per1 n T (x0 :: rest) (nth d ts 0) /\
  (* ... and if it is the end of the periodic domain (where the periodic object evaluates the LEFT limit, the piece the right
     limit), the seam knot has multiplicity <= p - 1 *)
  (nth d ts 0 = @kn R NumR k (n + per1) -> (mult k (@kn R NumR k (p - 1)) <= p - 1)%nat).

Lemma per_param_to_param_ok tol k per1 n T ks t kk y : per_param_ok tol k per1 n T ks t -> In y ks -> param_ok tol kk y t.
Proof.
  intros [_ P] Hy. rewrite Forall_forall in P. destruct (P y Hy y (or_introl eq_refl)) as [E|E].
  - right. left. symmetry. exact E.
  - right. right. exact E.
Qed.

(* C07, periodic direction: obj_split returns S (length rest) pieces tiling [x0, x0 + T] with the cut points rest; every
   piece is well formed, non-periodic in direction d, and evaluates to the original periodic object on its interval *)
Theorem obj_split_periodic tol (o : obj R) d p per1 n T k x0 rest fuel :
  psplit_hyps tol o d p per1 n T k x0 rest -> (2 <= fuel)%nat ->
  exists pieces, @obj_split R NumR fuel tol o d (x0 :: rest) = Ok pieces /\ length pieces = S (length rest) /\
    forall j, (j <= length rest)%nat ->
      let pj := nth j pieces o in let bj := nth d (o_bases pj) dflt_basis in
      wf_obj_R tol pj /\ length (o_bases pj) = length (o_bases o) /\
      (forall i, i <> d -> nth i (o_bases pj) dflt_basis = nth i (o_bases o) dflt_basis) /\
      b_order bj = p /\ b_per1 bj = 0%nat /\
      @b_start R NumR bj = nth j (pends x0 T rest) 0 /\ @b_end R NumR bj = nth (S j) (pends x0 T rest) 0 /\
      nth j (pends x0 T rest) 0 + 2 * tol <= nth (S j) (pends x0 T rest) 0 /\
      forall ts, ppiece_param tol o d p per1 n T k x0 rest j ts -> @obj_eval R NumR tol pj ts = @obj_eval R NumR tol o ts.
Proof.
  intros H Hfuel. destruct fuel as [|[|f]]; [lia|lia|].
  pose proof (ph_tol _ _ _ _ _ _ _ _ _ _ H) as Htol. pose proof (ph_canon _ _ _ _ _ _ _ _ _ _ H) as Hcan.
  destruct (psplit_insert tol o d p per1 n T k x0 rest H) as (so & kf & nf & Hok & Hf & Hperm & Hmall & Hev).
  assert (Hm : mult kf x0 = p) by (rewrite Forall_forall in Hmall; apply Hmall; left; reflexivity).
  pose proof Hf as (Hwfs & Hls & Hoths & Hbs & Hcanf & Hstf & Hsf).
  pose proof Hcanf as (HKf & Hper1 & Hpp & Hlenf & _).
  pose proof (psplit_unfold tol o d p per1 n T k x0 rest H (S f) so kf nf Hok Hbs Hlenf) as Hun.
  destruct (opened_props tol o d p per1 n T k x0 rest H so kf nf Hf Hm) as (Owf & Olen & Ooth & Ob & Os & Oe). cbv zeta in *.
  pose proof (opened_split_hyps tol o d p per1 n T k x0 rest H so kf nf Hf Hperm Hmall) as Hsh.
  pose proof (opened_eval tol o d p per1 n T k x0 rest H so kf nf Hf Hperm Hm Hev) as Hoe.
  set (o1 := opened d p per1 x0 so kf nf) in *. set (ko := kopen kf p per1 (@py_bisect_left R NumR kf x0)) in *.
  assert (Est : st p ko = x0) by (rewrite Ob in Os; exact Os).
  assert (Een : en p ko = x0 + T) by (rewrite Ob in Oe; exact Oe).
  assert (Hends : ends p ko rest = pends x0 T rest) by (unfold ends, pends; rewrite Est, Een; reflexivity).
  destruct rest as [|y rest'] eqn:Er.
  - (* a single split value: one open object *)
    exists [o1]. split; [exact Hun|]. split; [reflexivity|].
    intros j Hj. cbn [length] in Hj. assert (j = 0%nat) by lia. subst j. cbv zeta. cbn [nth pends app].
    split; [exact Owf|]. split; [exact Olen|]. split; [exact Ooth|]. rewrite Ob. cbn [b_order b_per1].
    split; [reflexivity|]. split; [reflexivity|]. rewrite <- Ob. split; [exact Os|]. split; [exact Oe|].
    split.
    { destruct (sh_wf _ _ _ _ _ _ Hsh) as (HB & _). rewrite Forall_forall in HB.
      pose proof (HB _ (nth_In _ dflt_basis (sh_dir _ _ _ _ _ _ Hsh))) as W. destruct W as (_ & _ & _ & _ & W).
      fold o1 in W. rewrite Os, Oe in W. lra. }
    intros ts (Hdom & Ht & Hside & Hpar & Hne). cbn [nth pends app length] in Ht, Hside.
    apply Hoe; [apply (dom_all_of_others tol o d p per1 n T k x0 [] H ts Hdom)|exact Hpar| |exact Hne].
    destruct Hside as [L|[_ L]]; lra.
  - (* several split values: the non-periodic branch on the opened object *)
    assert (Hun' : @obj_split R NumR (S (S f)) tol o d (x0 :: y :: rest') = @obj_split R NumR (S f) tol o1 d (y :: rest')) by exact Hun.
    rewrite <- Er in *.
    destruct (obj_split_nonperiodic tol o1 d p ko rest Hsh (S f) ltac:(lia)) as (pieces & E & L & P).
    exists pieces. split; [rewrite Hun'; exact E|]. split; [exact L|].
    intros j Hj. cbv zeta. rewrite (nth_indep pieces o o1) by lia.
    destruct (P j Hj) as (P1 & P2 & P3 & P4 & P5 & P6 & P7 & P8 & P9). cbv zeta in *.
    rewrite Hends in P6, P7, P8.
    split; [exact P1|]. split; [rewrite P2; exact Olen|].
    split; [intros i Hi; rewrite (P3 i Hi); apply Ooth; exact Hi|].
    split; [exact P4|]. split; [exact P5|]. split; [exact P6|]. split; [exact P7|]. split; [exact P8|].
    intros ts (Hdom & Ht & Hside & Hpar & Hne).
    destruct (ends_bounds tol o1 d p ko rest Hsh j Hj) as (G1 & G2 & G3). rewrite Hends, Est in G1. rewrite Hends, Een in G2.
    rewrite (P9 ts).
    + apply Hoe; [apply (dom_all_of_others tol o d p per1 n T k x0 rest H ts Hdom)|exact Hpar| |exact Hne].
      destruct Hside as [S1|[_ S1]]; lra.
    + split; [|split; [|split]].
      * intros i Hi Hne'. rewrite (Ooth i Hne'). apply Hdom; [rewrite <- Olen; exact Hi|exact Hne'].
      * rewrite Hends. exact Ht.
      * rewrite Hends. destruct Hside as [S1|[S1 _]]; [left; exact S1|right; exact S1].
      * apply Forall_forall. intros z Hz. apply (per_param_to_param_ok tol k per1 n T (x0 :: rest) _ ko z Hpar). right. exact Hz.
Qed.

(* B. a single split value: one open object on [x, x + T] *)
Theorem split_periodic_single tol (o : obj R) d p per1 n T k x fuel :
  psplit_hyps tol o d p per1 n T k x [] -> (1 <= fuel)%nat ->
  exists o1, @obj_split R NumR fuel tol o d [x] = Ok [o1] /\
    wf_obj_R tol o1 /\ length (o_bases o1) = length (o_bases o) /\
    (forall i, i <> d -> nth i (o_bases o1) dflt_basis = nth i (o_bases o) dflt_basis) /\
    let b1 := nth d (o_bases o1) dflt_basis in
    b_order b1 = p /\ b_per1 b1 = 0%nat /\ @b_start R NumR b1 = x /\ @b_end R NumR b1 = x + T /\
    forall ts,
      (forall i, (i < length (o_bases o))%nat -> i <> d -> in_dom tol (nth i (o_bases o) dflt_basis) (nth i ts 0)) ->
      x <= nth d ts 0 < x + T ->
      per_param_ok tol k per1 n T [x] (nth d ts 0) ->
      (nth d ts 0 = @kn R NumR k (n + per1) -> (mult k (@kn R NumR k (p - 1)) <= p - 1)%nat) ->
      @obj_eval R NumR tol o1 ts = @obj_eval R NumR tol o ts.
Proof.
  intros H Hfuel. destruct fuel as [|f]; [lia|].
  destruct (psplit_insert tol o d p per1 n T k x [] H) as (so & kf & nf & Hok & Hf & Hperm & Hmall & Hev).
  assert (Hm : mult kf x = p) by (rewrite Forall_forall in Hmall; apply Hmall; left; reflexivity).
  pose proof Hf as (Hwfs & Hls & Hoths & Hbs & Hcanf & Hstf & Hsf).
  pose proof Hcanf as (HKf & Hper1 & Hpp & Hlenf & _).
  pose proof (psplit_unfold tol o d p per1 n T k x [] H f so kf nf Hok Hbs Hlenf) as Hun.
  destruct (opened_props tol o d p per1 n T k x [] H so kf nf Hf Hm) as (Owf & Olen & Ooth & Ob & Os & Oe). cbv zeta in *.
  pose proof (opened_eval tol o d p per1 n T k x [] H so kf nf Hf Hperm Hm Hev) as Hoe.
  exists (opened d p per1 x so kf nf). split; [exact Hun|]. split; [exact Owf|]. split; [exact Olen|]. split; [exact Ooth|].
  cbv zeta. rewrite Ob at 1 2. cbn [b_order b_per1]. split; [reflexivity|]. split; [reflexivity|].
  split; [exact Os|]. split; [exact Oe|].
  intros ts Hdom Ht Hpar Hseam.
  apply Hoe; [apply (dom_all_of_others tol o d p per1 n T k x [] H ts Hdom)|exact Hpar|exact Ht|exact Hseam].
Qed.

(* ---------- why the later split values must lie above the first one: after the opening the object is not periodic any
   more and its domain is [x0, x0 + T]; a later value below x0 makes continuity() raise ValueError (as the Python code does:
   split([2.5, 1.0]) on the example curve raises ValueError('out of range')) ---------- *)
Lemma obj_split_per_unfold tol (o : obj R) d p per1 k ks f so kf nf :
  nth d (o_bases o) dflt_basis = mkBasis p k per1 -> (1 <= per1)%nat ->
  @split_insert R NumR tol (mkBasis p k per1) o d ks = Ok so ->
  nth d (o_bases so) dflt_basis = mkBasis p kf per1 -> length kf = (nf + per1 + p)%nat ->
  @obj_split R NumR (S f) tol o d ks
  = let mu := @py_bisect_left R NumR kf (hd 0 ks) in
    let so' := @obj_along R NumR so d (mkBasis p (kopen kf p per1 mu) 0) (@roll_matrix R NumR nf mu) in
    match tl ks with [] => Ok [so'] | _ :: _ => @obj_split R NumR f tol so' d (tl ks) end.
Proof.
  intros Hb0 Hper1 Hok Hbs Hlenf.
  cbn [obj_split]. change (@mkBasis R 0 [] 0) with dflt_basis. rewrite Hb0, Hok, Hbs. cbn [b_per1 b_knots b_order].
  destruct (Nat.eqb_spec per1 0) as [C|_]; [lia|]. cbn [negb].
  assert (En : @b_nfun R (mkBasis p kf per1) = nf) by (unfold b_nfun; cbn [b_knots b_order b_per1]; lia).
  rewrite En. unfold kopen, krolled. cbv zeta. change (@n0 R NumR) with 0. destruct (tl ks); reflexivity.
Qed.

Theorem obj_split_periodic_decreasing tol (o : obj R) d p per1 n T k x0 y fuel :
  0 < tol -> wf_obj_R tol o -> (d < length (o_bases o))%nat -> nth d (o_bases o) dflt_basis = mkBasis p k per1 ->
  per_canon k p per1 n T -> per_strict k per1 ->
  @kn R NumR k (p - 1) <= y < x0 -> x0 < @kn R NumR k (n + per1) ->
  knot_sep tol k x0 -> knot_sep tol k y -> (mult k x0 <= p)%nat -> (2 <= fuel)%nat ->
  @obj_split R NumR fuel tol o d [x0; y] = Err ValueError.
Proof.
  intros Htol Hwf Hd Hb0 Hcan Hstrict Hy Hx0 Hsx Hsy Hm0 Hfuel. destruct fuel as [|[|f]]; [lia|lia|].
  pose proof Hcan as (_ & Hper1 & _).
  destruct (split_insert_per_gen tol Htol d p per1 T k n Hcan [x0; y] o k n Hwf Hd Hb0 Hcan Hstrict eq_refl)
    as (so & kf & Hok & Hf & Hperm & _).
  { constructor; [lra|]. constructor; [lra|]. constructor. }
  { constructor; [exact Hsx|]. constructor; [exact Hsy|]. constructor. }
  set (nf := (n + length (ins_list p k [x0; y]))%nat) in *.
  pose proof Hf as (Hwfs & Hls & Hoths & Hbs & Hcanf & Hstf & Hsf).
  pose proof Hcanf as (HKf & _ & Hpp & Hlenf & _).
  assert (Hef : @kn R NumR kf (nf + per1) = @kn R NumR k (n + per1)).
  { rewrite (canon_period kf p per1 nf T Hcanf), Hsf, <- (canon_period k p per1 n T Hcan). reflexivity. }
  assert (Hm : mult kf x0 = p).
  { rewrite (mult_window kf p per1 nf T Hcanf Hstf x0) by (rewrite Hsf, Hef; lra).
    rewrite (Permutation_count_occ Req_EM_T _ _) in Hperm. rewrite (Hperm x0). unfold ins_list. cbn [flat_map]. rewrite !count_occ_app.
    rewrite count_occ_repeat_eq by reflexivity. rewrite count_occ_repeat_neq by lra. cbn [count_occ].
    rewrite <- (mult_window k p per1 n T Hcan Hstrict x0) by lra. lia. }
  destruct (full_mult_window kf p x0 HKf Hm) as (_ & A2 & _). cbv zeta in A2.
  set (mu := @py_bisect_left R NumR kf x0) in *.
  assert (Hmup : (mu + p <= nf + per1)%nat).
  { assert (L : @kn R NumR kf (mu + (p - 1)) < @kn R NumR kf (nf + per1)) by (rewrite A2 by lia; rewrite Hef; lra).
    apply sorted_lt_idx in L; [lia|exact HKf]. }
  assert (Hmu : (mu <= nf)%nat) by lia.
  rewrite (obj_split_per_unfold tol o d p per1 k [x0; y] (S f) so kf nf Hb0 Hper1 Hok Hbs Hlenf). cbv zeta. cbn [hd tl]. fold mu.
  assert (Hds : (d < length (o_bases so))%nat) by (rewrite Hls; exact Hd).
  assert (Hb' : nth d (o_bases (@obj_along R NumR so d (mkBasis p (kopen kf p per1 mu) 0) (@roll_matrix R NumR nf mu))) dflt_basis
                = mkBasis p (kopen kf p per1 mu) 0).
  { unfold obj_along. cbn [o_bases]. apply upd_nth_same. exact Hds. }
  generalize dependent (@obj_along R NumR so d (mkBasis p (kopen kf p per1 mu) 0) (@roll_matrix R NumR nf mu)). intros so' Hb'.
  cbn [obj_split]. change (@mkBasis R 0 [] 0) with dflt_basis. rewrite Hb'. cbn [split_insert].
  assert (Hc : @basis_continuity R NumR tol (mkBasis p (kopen kf p per1 mu) 0) y = Err ValueError).
  { unfold basis_continuity. rewrite (kopen_start kf p per1 nf T Hcanf mu Hmu x0 A2 Hmup). cbn [b_per1 Nat.eqb andb nltb NumR].
    rewrite (Rltb_true y x0) by lra. reflexivity. }
  rewrite Hc. reflexivity.
Qed.

(* ---------- the hypotheses are satisfiable: cubic periodic curve (order 4, continuity 2, 8 functions, period 8) on the
   uniform knots -3 .. 11, split at 5/2 and at [5/2, 5] with tol = 1/100 ---------- *)
Lemma mult_cons_ne a l x : a <> x -> mult (a :: l) x = mult l x.
Proof. intros Hne. unfold mult. apply count_occ_cons_neq. exact Hne. Qed.
Lemma mult_cons_eq a l x : a = x -> mult (a :: l) x = S (mult l x).
Proof. intros He. unfold mult. apply count_occ_cons_eq. exact He. Qed.
Ltac mult_compute := repeat (first [rewrite mult_cons_ne by lra | rewrite mult_cons_eq by lra]); unfold mult; cbn [count_occ].

Section Example.
Let tol := 1/100.
Let o := @mkObj R [mkBasis 4 ex_knots 3] [[1;0];[0;1];[-1;0];[0;-1];[2;0];[0;2];[-2;0];[0;-2]] 2 false.

Lemma ex_strict : per_strict ex_knots 3.
Proof. unfold per_strict, kn, ex_knots. cbn. lra. Qed.

Lemma ex_seam_mult : (mult ex_knots (@kn R NumR ex_knots (4 - 1)) <= 4 - 1)%nat.
Proof.
  replace (@kn R NumR ex_knots (4 - 1)) with 0 by (unfold kn, ex_knots; cbn; lra).
  unfold ex_knots. mult_compute. lia.
Qed.

Ltac knots_cases Hv := cbn [In] in Hv; repeat (destruct Hv as [<-|Hv]; [try lra|]); try contradiction.
Ltac far_or_on := first [left; lra | right; unfold Rabs; match goal with |- context [Rcase_abs ?a] => destruct (Rcase_abs a) end; lra].

Lemma ex_phyps rest : rest = [] \/ rest = [5] -> psplit_hyps tol o 0 4 3 8 8 ex_knots (5/2) rest.
Proof.
  intros Hr.
  assert (Es : @kn R NumR ex_knots (4 - 1) = 0) by (unfold kn, ex_knots; cbn; lra).
  assert (Ee : @kn R NumR ex_knots (8 + 3) = 8) by (unfold kn, ex_knots; cbn; lra).
  pose proof ex_canon as Hc. pose proof Hc as (HK & _).
  constructor.
  - unfold tol. lra.
  - split; [|split].
    + constructor; [|constructor]. split; [exact HK|]. cbn [b_order b_knots]. split; [lia|]. split; [cbn; lia|].
      split; [cbn; lia|]. unfold b_start, b_end. cbn [b_knots b_order]. change (length ex_knots - 4)%nat with (8 + 3)%nat.
      rewrite Es, Ee. unfold tol. lra.
    + repeat constructor.
    + reflexivity.
  - cbn. lia.
  - reflexivity.
  - exact Hc.
  - exact ex_strict.
  - rewrite Es. lra.
  - rewrite Ee. unfold gap, tol. destruct Hr as [-> | ->]; cbn [app]; repeat constructor; lra.
  - assert (S1 : knot_sep tol ex_knots (5/2)).
    { intros v Hv. unfold ex_knots in Hv. unfold tol. knots_cases Hv. }
    assert (S2 : knot_sep tol ex_knots 5).
    { intros v Hv. unfold ex_knots in Hv. unfold tol. knots_cases Hv. }
    destruct Hr as [-> | ->]; [exact (Forall_cons _ S1 (Forall_nil _))|exact (Forall_cons _ S1 (Forall_cons _ S2 (Forall_nil _)))].
  - assert (M1 : (mult ex_knots (5/2) <= 4)%nat).
    { unfold ex_knots. mult_compute. lia. }
    assert (M2 : (mult ex_knots 5 <= 4)%nat).
    { unfold ex_knots. mult_compute. lia. }
    destruct Hr as [-> | ->]; [exact (Forall_cons _ M1 (Forall_nil _))|exact (Forall_cons _ M1 (Forall_cons _ M2 (Forall_nil _)))].
Qed.

(* parameters at least tol away from every integer and half-integer knot image, or on one of them *)
Lemma ex_param_ok ks t : (forall x, In x ks -> x = 5/2 \/ x = 5) ->
  (t = 3 \/ t = 8 \/ t = 9 \/ 5 + tol <= t <= 6 - tol) -> per_param_ok tol ex_knots 3 8 8 ks t.
Proof.
  intros Hks Ht. split.
  - intros v Hv. unfold pvals, pwin, ex_knots in Hv. cbn [skipn firstn map app] in Hv. unfold tol in *.
    cbn [In] in Hv.
    repeat (destruct Hv as [<-|Hv]; [destruct Ht as [->|[->|[->|Ht]]]; far_or_on|]). contradiction.
  - apply Forall_forall. intros x Hx v Hv. unfold tol in *. cbn [In] in Hv.
    destruct (Hks x Hx) as [-> | ->];
    repeat (destruct Hv as [<-|Hv]; [destruct Ht as [->|[->|[->|Ht]]]; far_or_on|]); contradiction.
Qed.

Theorem example_periodic_single : exists o1, @obj_split R NumR 1 tol o 0 [5/2] = Ok [o1] /\
  @b_start R NumR (nth 0 (o_bases o1) dflt_basis) = 5/2 /\ @b_end R NumR (nth 0 (o_bases o1) dflt_basis) = 5/2 + 8 /\
  b_per1 (nth 0 (o_bases o1) dflt_basis) = 0%nat /\
  @obj_eval R NumR tol o1 [3] = @obj_eval R NumR tol o [3] /\
  @obj_eval R NumR tol o1 [8] = @obj_eval R NumR tol o [8] /\
  @obj_eval R NumR tol o1 [9] = @obj_eval R NumR tol o [9].
Proof.
  destruct (split_periodic_single tol o 0 4 3 8 8 ex_knots (5/2) 1 (ex_phyps [] (or_introl eq_refl)) ltac:(lia))
    as (o1 & E & _ & _ & _ & P). cbv zeta in P. destruct P as (_ & P2 & P3 & P4 & P5).
  exists o1. split; [exact E|]. split; [exact P3|]. split; [exact P4|]. split; [exact P2|].
  assert (Hs : forall t, (t = 3 \/ t = 8 \/ t = 9 \/ 5 + tol <= t <= 6 - tol) -> 5/2 <= t < 5/2 + 8 ->
               @obj_eval R NumR tol o1 [t] = @obj_eval R NumR tol o [t]).
  { intros t Ht Hr. apply P5.
    - intros i Hi Hne. cbn in Hi. lia.
    - exact Hr.
    - apply ex_param_ok; [|exact Ht]. intros x [<-|[]]. left. reflexivity.
    - intros _. exact ex_seam_mult. }
  split; [apply Hs; [tauto|lra]|]. split; [apply Hs; [tauto|lra]|apply Hs; [tauto|lra]].
Qed.

Theorem example_periodic_split : exists pieces, @obj_split R NumR 2 tol o 0 [5/2; 5] = Ok pieces /\ length pieces = 2%nat /\
  @obj_eval R NumR tol (nth 0 pieces o) [3] = @obj_eval R NumR tol o [3] /\
  @obj_eval R NumR tol (nth 1 pieces o) [8] = @obj_eval R NumR tol o [8] /\
  @obj_eval R NumR tol (nth 1 pieces o) [9] = @obj_eval R NumR tol o [9] /\
  forall t, 5 + tol <= t <= 6 - tol -> @obj_eval R NumR tol (nth 1 pieces o) [t] = @obj_eval R NumR tol o [t].
Proof.
  destruct (obj_split_periodic tol o 0 4 3 8 8 ex_knots (5/2) [5] 2 (ex_phyps [5] (or_intror eq_refl)) ltac:(lia))
    as (pieces & E & L & P).
  exists pieces. split; [exact E|]. split; [exact L|].
  assert (Hs : forall j t, (j <= 1)%nat -> (t = 3 \/ t = 8 \/ t = 9 \/ 5 + tol <= t <= 6 - tol) ->
               nth j (pends (5/2) 8 [5]) 0 <= t <= nth (S j) (pends (5/2) 8 [5]) 0 - 2 * tol ->
               @obj_eval R NumR tol (nth j pieces o) [t] = @obj_eval R NumR tol o [t]).
  { intros j t Hj Ht Hr. destruct (P j Hj) as (_ & _ & _ & _ & _ & _ & _ & _ & P9). apply P9.
    split; [intros i Hi Hne; cbn in Hi; lia|]. cbn [nth]. unfold tol in *.
    split; [lra|]. split; [left; lra|]. split.
    - apply ex_param_ok; [|exact Ht]. intros x [<-|[<-|[]]]; tauto.
    - intros _. exact ex_seam_mult. }
  unfold pends in Hs. cbn [app] in Hs. unfold tol in *.
  split; [apply (Hs 0%nat 3); [lia|tauto|cbn [nth]; lra]|].
  split; [apply (Hs 1%nat 8); [lia|tauto|cbn [nth]; lra]|].
  split; [apply (Hs 1%nat 9); [lia|tauto|cbn [nth]; lra]|].
  intros t Ht. apply (Hs 1%nat t); [lia|tauto|cbn [nth]; lra].
Qed.

(* a later value below the first one: ValueError, as SplineObject.split([2.5, 1.0]) on the Python side *)
Theorem example_periodic_decreasing : @obj_split R NumR 2 tol o 0 [5/2; 1] = Err ValueError.
Proof.
  pose proof (ex_phyps [] (or_introl eq_refl)) as H.
  assert (Es : @kn R NumR ex_knots (4 - 1) = 0) by (unfold kn, ex_knots; cbn; lra).
  assert (Ee : @kn R NumR ex_knots (8 + 3) = 8) by (unfold kn, ex_knots; cbn; lra).
  apply (obj_split_periodic_decreasing tol o 0 4 3 8 8 ex_knots (5/2) 1 2
           (ph_tol _ _ _ _ _ _ _ _ _ _ H) (ph_wf _ _ _ _ _ _ _ _ _ _ H) (ph_dir _ _ _ _ _ _ _ _ _ _ H)
           (ph_basis _ _ _ _ _ _ _ _ _ _ H) (ph_canon _ _ _ _ _ _ _ _ _ _ H) (ph_strict _ _ _ _ _ _ _ _ _ _ H)).
  - rewrite Es. lra.
  - rewrite Ee. lra.
  - exact (Forall_inv (ph_sep _ _ _ _ _ _ _ _ _ _ H)).
  - intros v Hv. unfold ex_knots in Hv. unfold tol. knots_cases Hv.
  - exact (Forall_inv (ph_mult _ _ _ _ _ _ _ _ _ _ H)).
  - lia.
Qed.
End Example.

