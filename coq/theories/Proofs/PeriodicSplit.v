(* C07, PERIODIC branch of SplineObject.split (Model/Split.v: obj_split, the branch b_per1 <> 0):
   after split_insert has raised the split values to full multiplicity p on the periodic object, the object is
   opened at the first split value x: mu = bisect_left(knots, x), BSplineBasis.roll(mu), the last per1 knots are
   dropped, the control net is rolled by mu (roll_matrix n mu), the direction becomes non-periodic with domain
   [x, x + T]; the remaining split values are handled by the non-periodic branch on the opened object.

   Part A (basis level)   Section Roll: the rolled and truncated knot list [kopen] is the window mu .. mu+n+p-1 of the
                          periodic extension of the knots, it is sorted and clamped at x and x + T, and the dense periodic
                          row and the open row are related by roll_matrix n mu (roll_open_row_rel), for every t of
                          [x, x + T] with the one-sided conventions of evaluate, the periodic row being taken at t or t - T.
   Part B (object level)  (below)
   Part C (several values)(below) *)
From Coq Require Import List Arith Reals Lra Lia Bool ZArith Sorted Permutation.
From SplipyModel Require Import Spec.BSpline Spec.Boehm Spec.Deriv Model.Num Model.BasisDef Model.BasisEval Model.Tensor Model.Obj
  Model.KnotInsert Model.Tol Model.Split Model.Knots
  Proofs.KnotList Proofs.Bridge Proofs.SpanCorrect Proofs.EvaluateSpec Proofs.EvalConsequences Proofs.SnapSpec Proofs.SnapChar
  Proofs.TensorLemmas Proofs.ObjEval Proofs.InsertMatrix Proofs.TensorApply Proofs.InsertObj Proofs.InsertEndToEnd Proofs.InsertListEndToEnd
  Proofs.TolProofs Proofs.AppendProofs Proofs.SeamContinuity Proofs.PeriodicInsert
  Proofs.SplitProofs Proofs.RestrictDirEval Proofs.SplitEndToEnd Proofs.SplitTiling Proofs.SplitCompose.
Import ListNotations.
Open Scope R_scope.

(* ------------------------------------------------------------------------------------------------ *)
(* Part A: BSplineBasis.roll(mu) followed by the truncation, basis level                            *)
(* ------------------------------------------------------------------------------------------------ *)
Section Roll.
Variable k : list R.
Variables (p per1 n : nat) (T : R).
Hypothesis Hcan : per_canon k p per1 n T.
Local Notation K := (@kn R NumR k).
Local Notation q := (p - 1)%nat.
Let HK : sorted K := proj1 Hcan.
Let Hper1 : (1 <= per1)%nat := proj1 (proj2 Hcan).
Let Hpp : (per1 + 1 <= p)%nat := proj1 (proj2 (proj2 Hcan)).
Let Hlen : length k = (n + per1 + p)%nat := proj1 (proj2 (proj2 (proj2 Hcan))).
Let Hreg : (p + per1 - 1 <= n)%nat := proj1 (proj2 (proj2 (proj2 (proj2 Hcan)))).
Let HT : 0 < T := proj1 (proj2 (proj2 (proj2 (proj2 (proj2 Hcan))))).
Let Hseam : K per1 = K (p - 1)%nat := proj1 (proj2 (proj2 (proj2 (proj2 (proj2 (proj2 Hcan)))))).
Let Himg : forall i, (i + n < length k)%nat -> K (i + n)%nat = K i + T := proj2 (proj2 (proj2 (proj2 (proj2 (proj2 (proj2 Hcan)))))).

(* the periodic extension of the knots to all indices *)
Definition pext : nat -> R := kext K n T.

Lemma pext_per i : pext (i + n) = pext i + T.
Proof. apply kext_per. lia. Qed.

Lemma pext_agree j : (j < length k)%nat -> pext j = K j.
Proof.
  intros Hj. apply (kext_agree K n T ltac:(lia) (length k - 1)%nat); [|lia|lia].
  intros i Hi. apply Himg. lia.
Qed.

Lemma pext_sorted : sorted pext.
Proof.
  apply (kext_sorted K HK n T ltac:(lia) (length k - 1)%nat); [|lia].
  intros i Hi. apply Himg. lia.
Qed.

Lemma pext_start : pext (p - 1) = K (p - 1)%nat.
Proof. apply pext_agree. lia. Qed.
Lemma pext_end : pext (n + per1) = K (p - 1)%nat + T.
Proof. rewrite pext_agree by lia. apply (canon_period k p per1 n T Hcan). Qed.

(* ---------- the knots ---------- *)
Variable mu : nat.
Hypothesis Hmu : (mu <= n)%nat.

Definition krolled : list R := b_knots (@basis_roll R NumR (mkBasis p k per1) mu).
Definition kopen : list R := firstn (length krolled - per1) krolled.

Lemma krolled_spec : length krolled = length k /\ forall j, (j < length k)%nat -> nth j krolled 0 = pext (mu + j).
Proof.
  unfold krolled, basis_roll. cbn [b_knots b_order b_per1]. unfold slice_list.
  set (t1 := @nsub R NumR (K 0%nat) (K (length k - p - per1)%nat)).
  assert (Et1 : t1 = - T).
  { unfold t1. cbn [nsub NumR]. replace (length k - p - per1)%nat with (0 + n)%nat by lia. rewrite Himg by lia. ring. }
  assert (Ll : length (firstn (length k - p - per1 - mu) (skipn mu k)) = (n - mu)%nat).
  { rewrite firstn_length, skipn_length. lia. }
  rewrite Ll. replace (length k - p - per1 - mu)%nat with (n - mu)%nat by lia.
  replace (length k - (n - mu) - 0)%nat with (per1 + p + mu)%nat by lia.
  change (skipn 0 k) with k.
  assert (Lr : length (firstn (per1 + p + mu) k) = (per1 + p + mu)%nat) by (rewrite firstn_length; lia).
  split.
  - rewrite app_length, map_length, Lr. rewrite firstn_length, skipn_length. lia.
  - intros j Hj. destruct (Nat.lt_ge_cases j (n - mu)) as [A|A].
    + rewrite app_nth1 by (rewrite firstn_length, skipn_length; lia).
      rewrite InsertMatrix.nth_firstn_lt by exact A. rewrite InsertMatrix.nth_skipn_add.
      rewrite pext_agree by lia. symmetry. apply kn_nth. lia.
    + rewrite app_nth2 by (rewrite firstn_length, skipn_length; lia).
      rewrite firstn_length, skipn_length. replace (Nat.min (n - mu) (length k - mu)) with (n - mu)%nat by lia.
      rewrite (nth_map_gen (fun v => @nsub R NumR v t1) _ (j - (n - mu)) 0 0) by (rewrite Lr; lia).
      rewrite InsertMatrix.nth_firstn_lt by lia. cbn [nsub NumR]. rewrite Et1.
      replace (mu + j)%nat with ((j - (n - mu)) + n)%nat by lia. rewrite pext_per.
      rewrite pext_agree by lia. rewrite kn_nth by lia. ring.
Qed.

Lemma kopen_length : length kopen = (n + p)%nat.
Proof. unfold kopen. destruct krolled_spec as [L _]. rewrite firstn_length, L. lia. Qed.

Lemma kopen_nth j : (j < n + p)%nat -> nth j kopen 0 = pext (mu + j).
Proof.
  intros Hj. destruct krolled_spec as [L N]. unfold kopen.
  rewrite InsertMatrix.nth_firstn_lt by (rewrite L; lia). apply N. lia.
Qed.

Lemma kopen_kn j : (j < n + p)%nat -> @kn R NumR kopen j = pext (mu + j).
Proof. intros Hj. rewrite kn_nth by (rewrite kopen_length; exact Hj). apply kopen_nth. exact Hj. Qed.

Lemma kopen_sorted : sorted (@kn R NumR kopen).
Proof.
  apply sorted_kn_of_nth. intros i j Hij. rewrite kopen_length in Hij.
  rewrite !kopen_nth by lia. apply pext_sorted. lia.
Qed.

(* every knot of the opened list is a knot of the periodic list or the image (+T) of one *)
Lemma kopen_values v : In v kopen -> In v k \/ In (v - T) k.
Proof.
  intros Hin. destruct (In_nth _ _ 0 Hin) as (j & Hj & <-). rewrite kopen_length in Hj.
  rewrite kopen_nth by exact Hj.
  destruct (Nat.lt_ge_cases (mu + j) (length k)) as [A|A].
  - left. rewrite pext_agree by exact A. apply kn_In'. exact A.
  - right. replace (mu + j)%nat with ((mu + j - n) + n)%nat by lia. rewrite pext_per.
    rewrite pext_agree by lia. replace (K (mu + j - n)%nat + T - T) with (K (mu + j - n)%nat) by ring. apply kn_In'. lia.
Qed.

(* ---------- the value x has full multiplicity at mu: the opened knot vector is clamped ---------- *)
Variable x : R.
Hypothesis Hfull : forall r, (r < p)%nat -> K (mu + r)%nat = x.
Hypothesis Hmup : (mu + p <= n + per1)%nat.

(* sharper: the images come from the period starting at the start knot *)
Lemma kopen_values_win v : In v kopen -> In v k \/ (exists i, (per1 <= i < per1 + n)%nat /\ v = K i + T).
Proof.
  intros Hin. destruct (In_nth _ _ 0 Hin) as (j & Hj & <-). rewrite kopen_length in Hj.
  rewrite kopen_nth by exact Hj.
  destruct (Nat.lt_ge_cases (mu + j) (length k)) as [A|A].
  - left. rewrite pext_agree by exact A. apply kn_In'. exact A.
  - right. exists (mu + j - n)%nat. split; [lia|].
    replace (mu + j)%nat with ((mu + j - n) + n)%nat at 1 by lia. rewrite pext_per.
    rewrite pext_agree by lia. reflexivity.
Qed.

Lemma kopen_lo j : (j < p)%nat -> @kn R NumR kopen j = x.
Proof. intros Hj. rewrite kopen_kn by lia. rewrite pext_agree by lia. apply Hfull. exact Hj. Qed.

Lemma kopen_hi j : (j < p)%nat -> @kn R NumR kopen (n + j) = x + T.
Proof.
  intros Hj. rewrite kopen_kn by lia. replace (mu + (n + j))%nat with ((mu + j) + n)%nat by lia.
  rewrite pext_per, pext_agree by lia. rewrite Hfull by exact Hj. reflexivity.
Qed.

Lemma kopen_start : @b_start R NumR (mkBasis p kopen 0) = x.
Proof. unfold b_start. cbn [b_knots b_order]. apply kopen_lo. lia. Qed.

Lemma kopen_end : @b_end R NumR (mkBasis p kopen 0) = x + T.
Proof.
  unfold b_end. cbn [b_knots b_order]. rewrite kopen_length. replace (n + p - p)%nat with (n + 0)%nat by lia.
  apply kopen_hi. lia.
Qed.

Lemma kopen_nfun : @b_nfun R (mkBasis p kopen 0) = n.
Proof. unfold b_nfun. cbn [b_knots b_order b_per1]. rewrite kopen_length. lia. Qed.

(* ---------- the rows ---------- *)
Lemma B_kopen side j t : (j < n)%nat -> B side (@kn R NumR kopen) q j t = B side pext q (mu + j) t.
Proof.
  intros Hj. rewrite <- (B_shift_n side pext mu q j t). apply B_ext. intros m Hm. apply kopen_kn. lia.
Qed.

Lemma B_periodic side i t : (i < n + per1)%nat -> B side K q i t = B side pext q i t.
Proof. intros Hi. apply B_ext. intros m Hm. symmetry. apply pext_agree. lia. Qed.

(* the open row: no wrapping *)
Lemma ref_row_open_nth side t j : (j < n)%nat ->
  nth j (@ref_row R NumR side kopen p 0 0 t) 0 = B side pext q (mu + j) t.
Proof.
  intros Hj. rewrite ref_row_nth by (rewrite kopen_length; lia). rewrite kopen_length.
  replace (n + p - p - 0)%nat with n by lia. replace (n + p - p)%nat with n by lia.
  rewrite (sumf_ext _ (fun i => if (j =? i)%nat then B side (@kn R NumR kopen) q i t else 0)).
  - rewrite sumf_indicator by exact Hj. apply B_kopen. exact Hj.
  - intros i Hi. rewrite Nat.mod_small by lia. rewrite (Nat.eqb_sym i j). reflexivity.
Qed.

Lemma ej_per c i : ej n c (i + n) = ej n c i.
Proof.
  unfold ej. replace (i + n)%nat with (i + 1 * n)%nat by lia. rewrite Nat.mod_add by lia. reflexivity.
Qed.

(* the sum of the class c over the window [mu, mu + n) of the extension, at a parameter of [x, x + T] *)
Lemma window_sum side t c N : (mu + n <= N)%nat ->
  after_start side x t -> before_end side t (x + T) ->
  sumf (fun i => ej n c i * B side pext q i t) 0 N = sumf (fun i => ej n c i * B side pext q i t) mu n.
Proof.
  intros HN Hs He. apply sumf_window; [lia|lia| |].
  - intros i Hi. rewrite (B_support side pext pext_sorted q i t); [ring|].
    replace (i + q + 1)%nat with (i + p)%nat by lia.
    pose proof (pext_sorted (i + p)%nat (mu + (p - 1))%nat ltac:(lia)) as H1.
    rewrite (pext_agree (mu + (p - 1))) in H1 by lia. rewrite Hfull in H1 by lia.
    unfold outside, after_start in *. destruct side; right; lra.
  - intros i Hi. rewrite (B_support side pext pext_sorted q i t); [ring|].
    pose proof (pext_sorted (mu + n)%nat i ltac:(lia)) as H1.
    rewrite pext_per, pext_agree in H1 by lia. pose proof (Hfull 0%nat ltac:(lia)) as H0.
    replace (mu + 0)%nat with mu in H0 by lia. rewrite H0 in H1.
    unfold outside, before_end in *. destruct side; left; lra.
Qed.

(* the periodic row as a sum over the extension *)
Lemma periodic_sum side t c N : (n + per1 <= N)%nat -> before_end side t (K (n + per1)%nat) ->
  sumf (fun i => ej n c i * B side pext q i t) 0 N = sumf (fun i => ej n c i * B side K q i t) 0 (n + per1).
Proof.
  intros HN He. rewrite (sumf_window _ 0 (n + per1) 0 N); [|lia|lia|intros; lia|].
  - apply sumf_ext. intros i Hi. rewrite B_periodic by lia. reflexivity.
  - intros i Hi. rewrite (B_support side pext pext_sorted q i t); [ring|].
    pose proof (pext_sorted (n + per1)%nat i ltac:(lia)) as H1. rewrite pext_agree in H1 by lia.
    unfold outside, before_end in *. destruct side; left; lra.
Qed.

(* A. the periodic row at t' (= t, or t - T when t lies beyond the end of the periodic domain) and the open row at t are
      related by the roll matrix: N_per(t') = N_open(t) x roll_matrix n mu *)
Theorem roll_open_row_rel side t t' :
  after_start side x t -> before_end side t (x + T) ->
  t' = t \/ t' = t - T ->
  after_start side (K (p - 1)%nat) t' -> before_end side t' (K (n + per1)%nat) ->
  row_rel (@ref_row R NumR side k p per1 0 t') (@ref_row R NumR side kopen p 0 0 t) (@roll_matrix R NumR n mu).
Proof.
  intros Hs He Ht' Hs' He'.
  unfold row_rel. rewrite !ref_row_length. rewrite kopen_length, Hlen.
  replace (n + per1 + p - p - per1)%nat with n by lia. replace (n + p - p - 0)%nat with n by lia.
  split; [unfold roll_matrix; rewrite map_length, seq_length; reflexivity|]. split.
  - apply Forall_forall. intros row Hin. unfold roll_matrix in Hin. apply in_map_iff in Hin.
    destruct Hin as (r0 & <- & _). rewrite map_length, seq_length. reflexivity.
  - intros c Hc. rewrite ref_row_nth by lia. rewrite Hlen.
    replace (n + per1 + p - p - per1)%nat with n by lia. replace (n + per1 + p - p)%nat with (n + per1)%nat by lia.
    transitivity (sumf (fun i => ej n c i * B side K q i t') 0 (n + per1)).
    { apply sumf_ext. intros i _. unfold ej, ind. destruct (_ =? _)%nat; ring. }
    transitivity (sumf (fun i => ej n c i * B side pext q i t) mu n).
    2:{ rewrite (sumf_reindex _ mu n). apply sumf_ext. intros r0 Hr. rewrite ref_row_open_nth by lia. unfold roll_matrix.
        rewrite (nth_map_gen _ _ r0 [] 0%nat) by (rewrite seq_length; lia). rewrite seq_nth by lia.
        rewrite (nth_map_gen _ _ c 0 0%nat) by (rewrite seq_length; lia). rewrite seq_nth by lia. cbn [Nat.add n1 n0 NumR].
        unfold ej, ind. replace (r0 + mu)%nat with (mu + r0)%nat by lia.
        destruct (Nat.eqb_spec ((mu + r0) mod n) c); destruct (Nat.eqb_spec c ((mu + r0) mod n)); try congruence; ring. }
    destruct Ht' as [-> | ->].
    + rewrite <- (periodic_sum side t c (mu + n + per1)) by (try lia; assumption).
      apply window_sum; try lia; assumption.
    + rewrite <- (periodic_sum side (t - T) c (n + per1)) by (try lia; exact He').
      rewrite <- (window_sum side t c (n + (n + per1))) by (try lia; assumption).
      pose proof (wrap_value_domain pext q n T pext_per (ej n c) (ej_per c) pext_sorted side 0 (n + per1) (t - T)) as W.
      unfold Sd in W. cbn [dB] in W. replace (t - T + T) with t in W by ring.
      rewrite pext_start in W. symmetry. apply W. exact Hs'.
Qed.
End Roll.
