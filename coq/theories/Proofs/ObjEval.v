(* Object evaluation (Model/Obj.v) on R: validation, rows are convex weights,
   evaluated points of non-rational objects lie in the bounding box. *)
From Coq Require Import List Arith Reals Lra Lia Bool ZArith.
From SplipyModel Require Import Spec.BSpline Spec.Deriv Model.Num Model.BasisDef Model.BasisEval Model.Tensor Model.Obj
  Proofs.Bridge Proofs.SpanCorrect Proofs.EvaluateSpec Proofs.EvalConsequences Proofs.SnapSpec Proofs.TensorLemmas.
Import ListNotations.
Open Scope R_scope.

(* Python's float % in exact arithmetic: range and congruence *)
Lemma Rfloor_bounds r : IZR (Rfloor r) <= r < IZR (Rfloor r) + 1.
Proof.
  unfold Rfloor. destruct (archimed r) as [A B]. rewrite minus_IZR. simpl. lra.
Qed.
Lemma nfmod_range x y : 0 < y -> 0 <= @nfmod R NumR x y < y.
Proof.
  intros Hy. unfold nfmod. cbn [nsub nmul ndiv nofZ nfloor NumR].
  pose proof (Rfloor_bounds (x / y)) as [A B].
  assert (E : x = (x / y) * y) by (field; lra).
  set (z := IZR (Rfloor (x / y))) in *. split.
  - assert (z * y <= x / y * y) by (apply Rmult_le_compat_r; lra). lra.
  - assert (x / y * y < (z + 1) * y) by (apply Rmult_lt_compat_r; lra). lra.
Qed.

Lemma rsum_sumf (l : list R) : rsum l = sumf (fun c => nth c l 0) 0 (length l).
Proof.
  induction l as [|a l IH]; [reflexivity|]. cbn [rsum fold_right length sumf nth].
  fold (rsum l). rewrite IH. f_equal. rewrite <- sumf_shift. reflexivity.
Qed.

Section Row.
Variable k : list R.
Variables (p per1 : nat) (tol : R).
Hypothesis HK : sorted (kn k).
Hypothesis Hp : (1 <= p)%nat.
Hypothesis Hlen : (2 * p <= length k)%nat.
Hypothesis Htol : 0 < tol.
Local Notation K := (@kn R NumR k).
Local Notation n_all := (length k - p)%nat.
Local Notation n := (length k - p - per1)%nat.
Hypothesis Hn : (0 < n)%nat.
Hypothesis Hdom : 2 * tol <= K n_all - K (p - 1)%nat.

(* a validated parameter is never skipped by the evaluator (from the right) *)
Lemma normalise_some t : (per1 = 0%nat -> K (p-1)%nat <= t <= K n_all) ->
  exists t' side, @normalise R NumR k p per1 tol true t = Some (t', side).
Proof.
  intros Hin. unfold normalise. cbv zeta.
  set (t1 := @wrap_t R NumR _ _ _ _ _ _).
  assert (Ht1 : K (p-1)%nat <= t1 <= K n_all).
  { unfold t1, wrap_t. destruct (Nat.eqb_spec per1 0) as [E|E]; cbn [negb].
    - apply Hin; exact E.
    - cbn [negb andb]. rewrite andb_false_r. cbn [nltb nadd nsub NumR].
      destruct (Rltb_spec t (K (p-1)%nat)) as [A|A]; cbn [orb].
      + pose proof (nfmod_range (t - K (p-1)%nat) (K n_all - K (p-1)%nat) ltac:(lra)). lra.
      + destruct (Rltb_spec (K n_all) t) as [B|B].
        * pose proof (nfmod_range (t - K (p-1)%nat) (K n_all - K (p-1)%nat) ltac:(lra)). lra.
        * lra. }
  rewrite !nabs_R. cbn [nltb nsub NumR].
  destruct (Rltb_spec t1 (K (p-1)%nat)) as [A|A]; [lra|].
  destruct (Rltb_spec (K n_all) t1) as [B|B]; [lra|]. cbn [orb].
  destruct (Rltb_spec (Rabs (t1 - K n_all)) tol) as [E|E]; cbn [negb andb].
  - rewrite andb_true_r. destruct (Rltb_spec (Rabs (t1 - K (p-1)%nat)) tol) as [S|S].
    + exfalso. rewrite Rabs_left1 in E by lra. rewrite Rabs_right in S by lra. lra.
    + eexists _, _. reflexivity.
  - rewrite andb_false_r. eexists _, _. reflexivity.
Qed.

(* the row of values at a validated (snapped) parameter is a vector of convex weights *)
Theorem basis_row_convex t : (per1 = 0%nat -> K (p-1)%nat <= @snap1 R NumR k tol t <= K n_all) ->
  let N := hd [] (@basis_evaluate R NumR k p per1 tol 0 true [@snap1 R NumR k tol t]) in
  length N = n /\ Forall (fun x => 0 <= x) N /\ rsum N = 1.
Proof.
  intros Hin. cbv zeta.
  pose proof (basis_evaluate_spec k p per1 HK Hp Hlen tol Htol 0 true [@snap1 R NumR k tol t] 0 ltac:(cbn; lia)) as ES.
  cbv zeta in ES. cbn [nth] in ES. rewrite snap1_idem in ES by assumption.
  destruct (Nat.leb_spec p 0) as [C|C]; [lia|].
  destruct (normalise_some (@snap1 R NumR k tol t) Hin) as (t' & side & EN). rewrite EN in ES.
  assert (EH : hd [] (@basis_evaluate R NumR k p per1 tol 0 true [@snap1 R NumR k tol t])
               = nth 0 (@basis_evaluate R NumR k p per1 tol 0 true [@snap1 R NumR k tol t]) []).
  { destruct (@basis_evaluate R NumR k p per1 tol 0 true [@snap1 R NumR k tol t]); reflexivity. }
  rewrite EH, ES.
  destruct (normalise_range k p per1 tol Htol _ _ _ _ EN) as [Hr Hs].
  destruct (span_search_correct k p HK Hp Hlen side t' Hr Hs) as [Hmu Hspan]. cbv zeta in Hmu, Hspan.
  split; [apply ref_row_length|]. split.
  - apply Forall_forall. intros x Hx. apply (In_nth _ _ 0) in Hx. destruct Hx as (c & Hc & <-).
    rewrite ref_row_length in Hc. apply ref_row_nonneg; assumption.
  - rewrite rsum_sumf, ref_row_length.
    apply (ref_row_partition k p per1 HK Hp side t' _ Hn Hmu Hspan).
Qed.
End Row.

(* ---------- object level ---------- *)
Definition dflt_basis : basis R := mkBasis 0 [] 0.

Definition in_dom (tol : R) (b : basis R) (t : R) : Prop :=
  b_per1 b = 0%nat ->
  @b_start R NumR b <= @snap1 R NumR (b_knots b) tol t <= @b_end R NumR b.

Lemma validate1_ok tol b t : in_dom tol b t ->
  @validate1 R NumR tol b t = Ok (@snap1 R NumR (b_knots b) tol t).
Proof.
  intros H. unfold validate1. cbv zeta. destruct (Nat.eqb_spec (b_per1 b) 0) as [E|E]; cbn [andb]; [|reflexivity].
  specialize (H E). cbn [nltb NumR].
  destruct (Rltb_spec (@snap1 R NumR (b_knots b) tol t) (@b_start R NumR b)); [lra|].
  destruct (Rltb_spec (@b_end R NumR b) (@snap1 R NumR (b_knots b) tol t)); [lra|]. reflexivity.
Qed.
Lemma validate1_err tol b t : ~ in_dom tol b t -> @validate1 R NumR tol b t = Err ValueError.
Proof.
  intros H. unfold validate1. cbv zeta. unfold in_dom in H.
  destruct (Nat.eqb_spec (b_per1 b) 0) as [E|E]; cbn [andb]; [|exfalso; apply H; intros; congruence].
  cbn [nltb NumR].
  destruct (Rltb_spec (@snap1 R NumR (b_knots b) tol t) (@b_start R NumR b)); [reflexivity|].
  destruct (Rltb_spec (@b_end R NumR b) (@snap1 R NumR (b_knots b) tol t)); [reflexivity|].
  exfalso. apply H. intros _. lra.
Qed.
Lemma in_dom_dec tol b t : in_dom tol b t \/ ~ in_dom tol b t.
Proof.
  unfold in_dom. destruct (Nat.eq_dec (b_per1 b) 0) as [E|E]; [|left; intros; congruence].
  destruct (Rle_dec (@b_start R NumR b) (@snap1 R NumR (b_knots b) tol t));
  destruct (Rle_dec (@snap1 R NumR (b_knots b) tol t) (@b_end R NumR b)); try (left; intros; lra);
  right; intros H; specialize (H E); lra.
Qed.

(* C02.3: ValueError exactly when some non-periodic direction is left (after snapping) *)
Theorem validate_spec tol bs : forall ts,
  ((forall i, (i < length bs)%nat -> in_dom tol (nth i bs dflt_basis) (nth i ts 0)) ->
     @validate R NumR tol bs ts
     = Ok (map (fun i => @snap1 R NumR (b_knots (nth i bs dflt_basis)) tol (nth i ts 0)) (seq 0 (length bs)))) /\
  ((exists i, (i < length bs)%nat /\ ~ in_dom tol (nth i bs dflt_basis) (nth i ts 0)) ->
     @validate R NumR tol bs ts = Err ValueError).
Proof.
  induction bs as [|b bs IH]; intros ts; cbn [validate length seq map].
  - split; [reflexivity|]. intros (i & Hi & _). lia.
  - assert (Hhd : hd (@n0 R NumR) ts = nth 0 ts 0) by (destruct ts; reflexivity).
    assert (Htl : forall i, nth i (tl ts) 0 = nth (S i) ts 0) by (intros i; destruct ts; [destruct i|]; reflexivity).
    destruct (IH (tl ts)) as [IH1 IH2]. split.
    + intros H. rewrite Hhd. rewrite validate1_ok by (apply (H 0%nat); lia).
      rewrite IH1.
      * f_equal. cbn [nth]. f_equal. rewrite <- seq_shift, map_map. apply map_ext. intros i. rewrite Htl. reflexivity.
      * intros i Hi. unfold in_dom. rewrite Htl. apply (H (S i)). lia.
    + intros (i & Hi & Hn). rewrite Hhd.
      destruct (in_dom_dec tol b (nth 0 ts 0)) as [D|D].
      * rewrite validate1_ok by exact D. rewrite IH2; [reflexivity|].
        destruct i as [|i]; [contradiction|]. exists i. split; [lia|]. unfold in_dom in *. rewrite Htl. exact Hn.
      * rewrite validate1_err by exact D. reflexivity.
Qed.

Definition wf_basis_R (tol : R) (b : basis R) : Prop :=
  sorted (@kn R NumR (b_knots b)) /\ (1 <= b_order b)%nat /\ (2 * b_order b <= length (b_knots b))%nat /\
  (0 < @b_nfun R b)%nat /\ 2 * tol <= @b_end R NumR b - @b_start R NumR b.

Definition wf_obj_R (tol : R) (o : obj R) : Prop :=
  Forall (wf_basis_R tol) (o_bases o) /\
  Forall (fun v => length v = @o_ncomp R o) (o_cps o) /\
  length (o_cps o) = prodl (@o_shape R o).

Lemma rows_at_nth tol bs ds ab ts i : (i < length bs)%nat ->
  nth i (@rows_at R NumR tol bs ds ab ts) [] =
  @basis_row R NumR tol (nth i bs dflt_basis) (nth i ds 0%nat) (nth i ab true) (nth i ts 0).
Proof.
  intros Hi. unfold rows_at.
  rewrite (nth_map_gen _ _ i [] 0%nat) by (rewrite seq_length; exact Hi).
  rewrite seq_nth by exact Hi. reflexivity.
Qed.

(* C02.5: every evaluated point of a non-rational object lies in the box spanned by its control points *)
Theorem obj_eval_bbox tol (o : obj R) ts v c lo hi :
  0 < tol -> wf_obj_R tol o -> o_rat o = false -> (c < o_dim o)%nat ->
  Forall (fun P => lo <= coord c P <= hi) (o_cps o) ->
  @obj_eval R NumR tol o ts = Ok v -> lo <= coord c v <= hi.
Proof.
  intros Htol (WB & WC & WL) Hrat Hc Hb. unfold obj_eval.
  destruct (@validate R NumR tol (o_bases o) ts) as [ts'|e] eqn:EV; [|discriminate].
  rewrite Hrat. intros [= <-]. unfold eval_h.
  assert (Hnc : @o_ncomp R o = o_dim o) by (unfold o_ncomp; rewrite Hrat; lia).
  (* all parameters are in the domain, otherwise validate would have raised *)
  assert (Hall : forall i, (i < length (o_bases o))%nat -> in_dom tol (nth i (o_bases o) dflt_basis) (nth i ts 0)).
  { intros i Hi. destruct (in_dom_dec tol (nth i (o_bases o) dflt_basis) (nth i ts 0)) as [D|D]; [exact D|].
    destruct (validate_spec tol (o_bases o) ts) as [_ V2]. rewrite V2 in EV by (exists i; auto). discriminate. }
  destruct (validate_spec tol (o_bases o) ts) as [V1 _]. rewrite (V1 Hall) in EV. injection EV as <-.
  set (rows := @rows_at R NumR tol (o_bases o) [] [] _).
  assert (Hrows : forall i, (i < length (o_bases o))%nat ->
     let N := nth i rows [] in
     length N = @b_nfun R (nth i (o_bases o) dflt_basis) /\ Forall (fun x => 0 <= x) N /\ rsum N = 1).
  { intros i Hi. cbv zeta. unfold rows. rewrite rows_at_nth by exact Hi.
    rewrite (nth_map_gen _ _ i 0 0%nat) by (rewrite seq_length; exact Hi). rewrite seq_nth by exact Hi. cbn [Nat.add].
    replace (nth i (@nil nat) 0%nat) with 0%nat by (destruct i; reflexivity).
    replace (nth i (@nil bool) true) with true by (destruct i; reflexivity).
    unfold basis_row.
    rewrite Forall_forall in WB. destruct (WB (nth i (o_bases o) dflt_basis) (nth_In _ _ Hi)) as (B1 & B2 & B3 & B4 & B5).
    apply basis_row_convex; try assumption. apply Hall. exact Hi. }
  assert (Hlr : length rows = length (o_bases o)) by (unfold rows, rows_at; rewrite map_length, seq_length; reflexivity).
  apply teval_bounds; [lia| | |exact Hb].
  - apply Forall_forall. intros N HN. apply (In_nth _ _ []) in HN. destruct HN as (i & Hi & <-).
    rewrite Hlr in Hi. destruct (Hrows i Hi) as (_ & A & B). split; assumption.
  - split; [exact WC|]. rewrite WL. unfold o_shape. f_equal.
    apply (nth_ext _ _ 0%nat 0%nat); [rewrite !map_length; auto|].
    intros i Hi. rewrite map_length in Hi.
    rewrite (nth_map_gen _ _ i 0%nat dflt_basis) by exact Hi.
    rewrite (nth_map_gen _ _ i 0%nat []) by lia.
    destruct (Hrows i Hi) as (A & _). cbv zeta in A. rewrite A. reflexivity.
Qed.

(* ---------- periodic directions accept any real parameter and wrap by the period ---------- *)
Lemma Rfloor_unique r z : IZR z <= r < IZR z + 1 -> Rfloor r = z.
Proof.
  intros [A B]. unfold Rfloor.
  assert (E : (z + 1)%Z = up r).
  { apply tech_up; rewrite plus_IZR; simpl; lra. }
  rewrite <- E. ring.
Qed.

Lemma nfmod_shift x y z : 0 < y -> 0 <= x < y -> @nfmod R NumR (x + IZR z * y) y = x.
Proof.
  intros Hy Hx. unfold nfmod. cbn [nsub nmul ndiv nofZ nfloor NumR].
  assert (E : (x + IZR z * y) / y = x / y + IZR z) by (field; lra).
  rewrite E.
  assert (Hq : 0 <= x / y < 1).
  { split; [apply Rmult_le_pos; [lra|left; apply Rinv_0_lt_compat; lra]|].
    apply (Rmult_lt_reg_r y); [lra|]. unfold Rdiv. rewrite Rmult_assoc, Rinv_l by lra. lra. }
  rewrite (Rfloor_unique (x / y + IZR z) z) by lra. ring.
Qed.

Theorem wrap_invariance (k : list R) (p per1 : nat) (tol : R) from_right t z :
  (0 < per1)%nat ->
  let s := @kn R NumR k (p - 1) in let e := @kn R NumR k (length k - p) in
  s < t < e ->
  @normalise R NumR k p per1 tol from_right (t + IZR z * (e - s)) = @normalise R NumR k p per1 tol from_right t.
Proof.
  intros Hper s e Ht. unfold normalise. cbv zeta. fold s. fold e.
  replace (negb (per1 =? 0)%nat) with true by (destruct (Nat.eqb_spec per1 0); [lia|reflexivity]).
  assert (W : @wrap_t R NumR s e tol true from_right (t + IZR z * (e - s)) = @wrap_t R NumR s e tol true from_right t).
  { unfold wrap_t. cbn [nltb nadd nsub NumR].
    assert (E1 : (if Rltb t s || Rltb e t then @nfmod R NumR (t - s) (e - s) + s else t) = t).
    { destruct (Rltb_spec t s); [lra|]. destruct (Rltb_spec e t); [lra|]. reflexivity. }
    assert (E2 : (if Rltb (t + IZR z * (e - s)) s || Rltb e (t + IZR z * (e - s))
                  then @nfmod R NumR (t + IZR z * (e - s) - s) (e - s) + s else t + IZR z * (e - s)) = t).
    { replace (t + IZR z * (e - s) - s) with ((t - s) + IZR z * (e - s)) by ring.
      rewrite nfmod_shift by lra.
      destruct (Rltb_spec (t + IZR z * (e - s)) s); cbn [orb]; [ring|].
      destruct (Rltb_spec e (t + IZR z * (e - s))); [ring|].
      (* neither below nor above: then z = 0 *)
      destruct (Z.eq_dec z 0) as [->|Nz]; [simpl; ring|].
      exfalso. destruct (Z_lt_le_dec z 0) as [Zn|Zp].
      - assert (IZR z <= -1) by (apply IZR_le; lia). nra.
      - assert (1 <= IZR z) by (apply IZR_le; lia). nra. }
    rewrite E1, E2. reflexivity. }
  rewrite W. reflexivity.
Qed.
