(* C13 — the remaining planar primitives: circle_segment_from_three_points, n_gon, line, polygon, square, cube.
   Vectors are the 3-lists of Proofs/PlaceProofs.v / Proofs/CompositeShapes.v (dot3, sub3, add3, scal3), so that
   the statements compose with `place` (flip_and_move_plane_geometry) and `rv`/`rotmat` (rotate). *)
From Coq Require Import List Arith Reals Lra Lia Bool ZArith Psatz.
From Coq Require Nsatz.
From SplipyModel Require Import Spec.BSpline Model.Num Model.BasisDef Model.Tensor Model.Obj Model.Affine Model.DefaultObj
  Gen.RotationMatrix Proofs.KnotList Proofs.EvalConsequences Proofs.TensorLemmas Proofs.TensorApply Proofs.OrderRaise
  Proofs.PlaceProofs Proofs.CompositeShapes.
Import ListNotations.
Open Scope R_scope.

(* ====================================================================================================== *)
(* 0. vector algebra on 3-lists                                                                            *)
(* ====================================================================================================== *)
Definition cross3 (a b : list R) : list R :=
  [nth 1 a 0 * nth 2 b 0 - nth 2 a 0 * nth 1 b 0;
   nth 2 a 0 * nth 0 b 0 - nth 0 a 0 * nth 2 b 0;
   nth 0 a 0 * nth 1 b 0 - nth 1 a 0 * nth 0 b 0].

Ltac v3 := unfold rad2, dot3, cross3, add3, sub3, scal3; cbn [nth].

(* equality of two explicit 3-lists from equality of components *)
Lemma list3_eq (x0 x1 x2 y0 y1 y2 : R) : x0 = y0 -> x1 = y1 -> x2 = y2 -> [x0; x1; x2] = [y0; y1; y2].
Proof. intros -> -> ->. reflexivity. Qed.

Lemma dot3_comm a b : dot3 a b = dot3 b a.
Proof. v3. ring. Qed.
Lemma dot3_pos a : 0 <= dot3 a a.
Proof. v3. nra. Qed.
Lemma dot3_zero a : dot3 a a = 0 -> nth 0 a 0 = 0 /\ nth 1 a 0 = 0 /\ nth 2 a 0 = 0.
Proof. v3. intros H. repeat split; nra. Qed.
Lemma cross3_perp_l a b : dot3 (cross3 a b) a = 0.
Proof. v3. ring. Qed.
Lemma cross3_perp_r a b : dot3 (cross3 a b) b = 0.
Proof. v3. ring. Qed.
(* Lagrange *)
Lemma lagrange3 a b : dot3 (cross3 a b) (cross3 a b) = dot3 a a * dot3 b b - dot3 a b * dot3 a b.
Proof. v3. ring. Qed.

(* ====================================================================================================== *)
(* 1. circumcircle: the linear system of circle_segment_from_three_points                                   *)
(*                                                                                                        *)
(*      normal = np.cross(pt1-pt0, pt2-pt0)                                                                *)
(*      A = np.vstack((2*(pt1-pt0), 2*(pt2-pt0), normal))                                                  *)
(*      b = np.array([ np.dot(pt1,pt1) - np.dot(pt0,pt0),                                                  *)
(*                     np.dot(pt2,pt2) - np.dot(pt0,pt0),                                                  *)
(*                     np.dot(normal,pt0)])                                                                *)
(*      center = np.linalg.solve(A,b)                                                                      *)
(*      radius = norm(pt2-center)                                                                          *)
(*                                                                                                        *)
(*    P0, P1, P2 are pt0, pt1, pt2 (2-D input is padded with a zero third coordinate by the code).          *)
(* ====================================================================================================== *)
Definition tp_normal (P0 P1 P2 : list R) : list R := cross3 (sub3 P1 P0) (sub3 P2 P0).
Definition tp_mat (P0 P1 P2 : list R) : list (list R) :=
  [scal3 2 (sub3 P1 P0); scal3 2 (sub3 P2 P0); tp_normal P0 P1 P2].
Definition tp_rhs (P0 P1 P2 : list R) : list R :=
  [dot3 P1 P1 - dot3 P0 P0; dot3 P2 P2 - dot3 P0 P0; dot3 (tp_normal P0 P1 P2) P0].
(* matrix (list of rows) times column vector *)
Definition matvec3 (M : list (list R)) (x : list R) : list R :=
  [dot3 (nth 0 M []) x; dot3 (nth 1 M []) x; dot3 (nth 2 M []) x].
(* numpy.linalg.solve(A, b) returns x with A x = b (exact arithmetic; LAPACK rounding is trusted) *)
Definition solves3 (M : list (list R)) (b x : list R) : Prop := matvec3 M x = b.

(* determinant and Cramer's rule for a 3x3 system given by rows *)
Definition det3 (M : list (list R)) : R := dot3 (nth 0 M []) (cross3 (nth 1 M []) (nth 2 M [])).
Definition cramer3 (M : list (list R)) (b : list R) : list R :=
  let r0 := nth 0 M [] in let r1 := nth 1 M [] in let r2 := nth 2 M [] in
  scal3 (/ det3 M) (add3 (add3 (scal3 (nth 0 b 0) (cross3 r1 r2)) (scal3 (nth 1 b 0) (cross3 r2 r0)))
                         (scal3 (nth 2 b 0) (cross3 r0 r1))).

Lemma cramer3_solves M b0 b1 b2 : det3 M <> 0 -> solves3 M [b0; b1; b2] (cramer3 M [b0; b1; b2]).
Proof.
  intros Hd. unfold solves3, matvec3, cramer3. cbv zeta.
  unfold det3 in *. revert Hd.
  set (r0 := nth 0 M []). set (r1 := nth 1 M []). set (r2 := nth 2 M []). v3. intros Hd.
  apply list3_eq; field; exact Hd.
Qed.

Lemma solves3_unique M b x0 x1 x2 : det3 M <> 0 -> solves3 M b [x0; x1; x2] -> [x0; x1; x2] = cramer3 M b.
Proof.
  intros Hd Hs. unfold solves3, matvec3 in Hs. subst b. unfold cramer3. cbv zeta.
  unfold det3 in *. revert Hd.
  set (r0 := nth 0 M []). set (r1 := nth 1 M []). set (r2 := nth 2 M []). v3. intros Hd.
  apply list3_eq; field; exact Hd.
Qed.

(* the centre the code computes *)
Definition tp_centre (P0 P1 P2 : list R) : list R := cramer3 (tp_mat P0 P1 P2) (tp_rhs P0 P1 P2).
Definition tp_radius (P0 P1 P2 : list R) : R :=
  sqrt (dot3 (sub3 P2 (tp_centre P0 P1 P2)) (sub3 P2 (tp_centre P0 P1 P2))).

(* the matrix is regular exactly when the three points are not collinear: det A = 4 |normal|^2 *)
Lemma tp_det P0 P1 P2 : det3 (tp_mat P0 P1 P2) = 4 * dot3 (tp_normal P0 P1 P2) (tp_normal P0 P1 P2).
Proof. unfold det3, tp_mat, tp_normal. cbn [nth]. v3. ring. Qed.

Lemma tp_det_nz P0 P1 P2 : dot3 (tp_normal P0 P1 P2) (tp_normal P0 P1 P2) <> 0 -> det3 (tp_mat P0 P1 P2) <> 0.
Proof. intros H. rewrite tp_det. lra. Qed.

(* what a solution of the system is, geometrically *)
Lemma tp_system_meaning P0 P1 P2 X :
  solves3 (tp_mat P0 P1 P2) (tp_rhs P0 P1 P2) X <->
  (dot3 (sub3 P1 X) (sub3 P1 X) = dot3 (sub3 P0 X) (sub3 P0 X) /\
   dot3 (sub3 P2 X) (sub3 P2 X) = dot3 (sub3 P0 X) (sub3 P0 X) /\
   dot3 (tp_normal P0 P1 P2) (sub3 X P0) = 0).
Proof.
  unfold solves3, matvec3, tp_mat, tp_rhs. cbn [nth].
  unfold tp_normal. v3. split.
  - intros H. injection H as H0 H1 H2. split; [|split]; lra.
  - intros (H0 & H1 & H2). apply list3_eq; lra.
Qed.

Section Circumcircle.
Variables P0 P1 P2 : list R.
Local Notation n := (tp_normal P0 P1 P2).
Local Notation X := (tp_centre P0 P1 P2).
Local Notation r := (tp_radius P0 P1 P2).
(* the three points are not collinear *)
Hypothesis Hn : dot3 n n <> 0.

Lemma tp_centre_solves : solves3 (tp_mat P0 P1 P2) (tp_rhs P0 P1 P2) X.
Proof. unfold tp_centre, tp_rhs. apply cramer3_solves. apply tp_det_nz. exact Hn. Qed.

Lemma tp_centre_eta : X = [nth 0 X 0; nth 1 X 0; nth 2 X 0].
Proof. unfold tp_centre, cramer3, scal3. cbv zeta. cbn [nth]. reflexivity. Qed.

(* distinct points: otherwise the normal vanishes *)
Lemma tp_radius_sq_pos : 0 < dot3 (sub3 P2 X) (sub3 P2 X).
Proof.
  destruct (proj1 (tp_system_meaning P0 P1 P2 X) tp_centre_solves) as (E1 & E2 & _).
  destruct (Rle_lt_or_eq_dec _ _ (dot3_pos (sub3 P2 X))) as [H|H]; [exact H|exfalso].
  rewrite <- H in E2. rewrite <- E2 in E1. symmetry in E2.
  apply dot3_zero in E1, E2. symmetry in H. apply dot3_zero in H. revert E1 E2 H. v3. intros (A0 & A1 & A2) (B0 & B1 & B2) (C0 & C1 & C2).
  apply Hn. unfold tp_normal. v3.
  replace (nth 0 P1 0) with (nth 0 P0 0) by lra. replace (nth 1 P1 0) with (nth 1 P0 0) by lra.
  replace (nth 2 P1 0) with (nth 2 P0 0) by lra. ring.
Qed.

(* 1a. the centre the code computes is equidistant from the three points, at distance `radius`, and lies in their plane *)
Theorem tp_circumcentre :
  dot3 (sub3 P0 X) (sub3 P0 X) = r * r /\ dot3 (sub3 P1 X) (sub3 P1 X) = r * r /\ dot3 (sub3 P2 X) (sub3 P2 X) = r * r /\
  dot3 n (sub3 X P0) = 0 /\ dot3 n (sub3 X P1) = 0 /\ dot3 n (sub3 X P2) = 0 /\ 0 < r.
Proof.
  destruct (proj1 (tp_system_meaning P0 P1 P2 X) tp_centre_solves) as (E1 & E2 & E3).
  assert (Er : r * r = dot3 (sub3 P2 X) (sub3 P2 X)).
  { unfold tp_radius. apply sqrt_sqrt. apply dot3_pos. }
  assert (Hr : 0 < r) by (unfold tp_radius; apply sqrt_lt_R0; exact tp_radius_sq_pos).
  split; [lra|]. split; [lra|]. split; [lra|]. split; [exact E3|]. split; [|split; [|exact Hr]].
  - revert E3. unfold tp_normal. v3. intros E3. lra.
  - revert E3. unfold tp_normal. v3. intros E3. lra.
Qed.

(* 1b. uniqueness: a point of the plane of the three points that is equidistant from them is the computed centre *)
Theorem tp_circumcentre_unique y0 y1 y2 : let Y := [y0; y1; y2] in
  dot3 n (sub3 Y P0) = 0 ->
  dot3 (sub3 P1 Y) (sub3 P1 Y) = dot3 (sub3 P0 Y) (sub3 P0 Y) ->
  dot3 (sub3 P2 Y) (sub3 P2 Y) = dot3 (sub3 P0 Y) (sub3 P0 Y) ->
  Y = X.
Proof.
  cbv zeta. intros H3 H1 H2. unfold tp_centre. apply solves3_unique; [apply tp_det_nz; exact Hn|].
  apply (tp_system_meaning P0 P1 P2 [y0; y1; y2]). repeat split; assumption.
Qed.

(* 1c. what np.linalg.solve returns (any exact solution of the system) is that centre *)
Theorem tp_solve_is_centre x0 x1 x2 : solves3 (tp_mat P0 P1 P2) (tp_rhs P0 P1 P2) [x0; x1; x2] -> [x0; x1; x2] = X.
Proof. intros H. unfold tp_centre. apply solves3_unique; [apply tp_det_nz; exact Hn|exact H]. Qed.
End Circumcircle.

(* ====================================================================================================== *)
(* 2. the arc through the three points                                                                     *)
(*                                                                                                        *)
(*      v2 = pt2-center                                                                                    *)
(*      v0 = pt0-center                                                                                    *)
(*      unit_normal = normal / norm(normal)                                                                *)
(*      theta = np.arctan2(np.dot(np.cross(v0,v2), unit_normal), np.dot(v0,v2))                            *)
(*      if theta <= 0:                                                                                     *)
(*          theta += 2*pi                                                                                  *)
(*      result = circle_segment(theta, radius, center, normal, v0)                                         *)
(*                                                                                                        *)
(*    The current source has ONE orientation: counter-clockwise about normal = (pt1-pt0) x (pt2-pt0) (there *)
(*    is no flip branch any more); sweeps beyond pi are produced by the `theta <= 0` shift.  Both are covered. *)
(*    circle_segment(theta, r, center, normal, xaxis) builds the arc (r cos t, r sin t), t in [0, theta], in the *)
(*    local frame (C13_segment_on_circle, C13_segment_ends), then result.rotate(rotate_local_x_axis(xaxis, normal)) and *)
(*    flip_and_move_plane_geometry(result, center, normal) = `place`.                                         *)
(* ====================================================================================================== *)

(* ---------- 2.1 the placement rotation is proper: it maps the local frame to a right-handed frame ---------- *)
Section Rot.
Variables cp sp ct st : R.   (* cos, sin of phi/2 and theta/2: the polar angles of the normal (flip_and_move_plane_geometry) *)
Hypothesis Hp : cp * cp + sp * sp = 1.
Hypothesis Ht : ct * ct + st * st = 1.
Local Notation Ry := (@rotmat R NumR cp (0 - 0 * sp) (0 - 1 * sp) (0 - 0 * sp)).
Local Notation Rz := (@rotmat R NumR ct (0 - 0 * st) (0 - 0 * st) (0 - 1 * st)).
Local Notation Rym := (@rotmat R NumR cp (0 - 0 * (0 - sp)) (0 - 1 * (0 - sp)) (0 - 0 * (0 - sp))).
Local Notation Rzm := (@rotmat R NumR ct (0 - 0 * (0 - st)) (0 - 0 * (0 - st)) (0 - 1 * (0 - st))).
Local Notation nr := (nrm cp sp ct st).

Definition rot (p : list R) : list R := rv (rv p Ry) Rz.
Ltac unfold_rot := unfold rot, rv, vecmat, dot3, nrm, rotmat; cbv zeta;
  cbn [map seq length combine fold_left fst snd nth nadd nsub nmul ndiv nofZ n0 NumR].

Lemma place_rot centre p : place cp sp ct st centre p = add3 (rot p) centre.
Proof. reflexivity. Qed.

Lemma rot_lin x y z : rot [x; y; z] = add3 (add3 (scal3 x (rot [1; 0; 0])) (scal3 y (rot [0; 1; 0]))) (scal3 z (rot [0; 0; 1])).
Proof. unfold_rot. v3. apply list3_eq; ring. Qed.

Lemma rot_lincomb c s x0 x1 x2 y0 y1 y2 :
  rot [c * x0 + s * y0; c * x1 + s * y1; c * x2 + s * y2] = add3 (scal3 c (rot [x0; x1; x2])) (scal3 s (rot [y0; y1; y2])).
Proof. unfold_rot. v3. apply list3_eq; ring. Qed.

Lemma rot_frame : cross3 (rot [1; 0; 0]) (rot [0; 1; 0]) = rot [0; 0; 1] /\ cross3 (rot [0; 1; 0]) (rot [0; 0; 1]) = rot [1; 0; 0]
  /\ cross3 (rot [0; 0; 1]) (rot [1; 0; 0]) = rot [0; 1; 0].
Proof. unfold_rot. v3. repeat split; apply list3_eq; Coq.nsatz.NsatzTactic.nsatz_default. Qed.

(* a rotation maps cross products to cross products *)
Lemma rot_cross a0 a1 a2 b0 b1 b2 : rot (cross3 [a0; a1; a2] [b0; b1; b2]) = cross3 (rot [a0; a1; a2]) (rot [b0; b1; b2]).
Proof.
  destruct rot_frame as (F3 & F1 & F2).
  unfold cross3 at 1. cbn [nth]. rewrite rot_lin, (rot_lin a0 a1 a2), (rot_lin b0 b1 b2).
  set (e1 := rot [1; 0; 0]) in *. set (e2 := rot [0; 1; 0]) in *. set (e3 := rot [0; 0; 1]) in *.
  transitivity (add3 (add3 (scal3 (a1 * b2 - a2 * b1) (cross3 e2 e3)) (scal3 (a2 * b0 - a0 * b2) (cross3 e3 e1)))
                     (scal3 (a0 * b1 - a1 * b0) (cross3 e1 e2))).
  - rewrite F1, F2, F3. reflexivity.
  - v3. apply list3_eq; ring.
Qed.

Lemma rot_normal : rot [0; 0; 1] = nr.
Proof. exact (placement_normal cp sp ct st Hp Ht). Qed.

(* ---------- 2.2 frame of the placed arc ---------- *)
(* ca, sa = cos, sin(alpha/2), alpha = rotate_local_x_axis(xaxis = v0, normal) = atan2(x'[1], x'[0]) with
   x' = v0 . R1 . R2 the requested x-axis pulled back to the reference plane; rho' = |(x'[0], x'[1])| (atan2 oracle:
   the point (x'[0], x'[1]) has polar angle alpha) *)
Variables ca sa : R.
Hypothesis Ha : ca * ca + sa * sa = 1.
Local Notation Rza := (@rotmat R NumR ca (0 - 0 * sa) (0 - 0 * sa) (0 - 1 * sa)).
Variables v00 v01 v02 : R.
Local Notation v0 := [v00; v01; v02].
Local Notation x' := (rv (rv v0 Rzm) Rym).
Variables r rho' : R.
Hypothesis Hr : 0 < r.
Hypothesis Hv0 : dot3 v0 v0 = r * r.
Hypothesis Hperp : dot3 v0 nr = 0.
Hypothesis Hrho : 0 < rho'.
Hypothesis Hx0 : nth 0 x' 0 = rho' * (ca * ca - sa * sa).
Hypothesis Hx1 : nth 1 x' 0 = rho' * (2 * sa * ca).

Lemma xaxis_pullback : x' = [rho' * (ca * ca - sa * sa); rho' * (2 * sa * ca); 0].
Proof.
  destruct (placement_xaxis cp sp ct st Hp Ht v00 v01 v02) as (_ & E2). cbv zeta in E2.
  rewrite (rv_eta (rv v0 Rzm) Rym). rewrite Hx0, Hx1, E2, Hperp. reflexivity.
Qed.

Lemma xaxis_rho : rho' = r.
Proof.
  destruct (placement_xaxis cp sp ct st Hp Ht v00 v01 v02) as (E1 & _). cbv zeta in E1.
  pose proof (placement_isometry cp sp ct st Hp Ht (rho' * (ca * ca - sa * sa)) (rho' * (2 * sa * ca)) 0) as Hi.
  cbv zeta in Hi. rewrite <- xaxis_pullback in Hi. rewrite E1, Hv0 in Hi.
  assert (E : r * r = rho' * rho').
  { rewrite Hi. transitivity (rho' * rho' * ((ca * ca + sa * sa) * (ca * ca + sa * sa))); [ring|]. rewrite Ha. ring. }
  nra.
Qed.

(* the local arc point at angle t (cosine c, sine s), rotated by alpha about z and placed, is
   centre + c v0 + s (normal x v0) *)
Theorem arc_frame centre c s :
  place cp sp ct st centre (rv [r * c; r * s; 0] Rza) = add3 (add3 (scal3 c v0) (scal3 s (cross3 nr v0))) centre.
Proof.
  rewrite place_rot. f_equal.
  destruct (placement_xaxis cp sp ct st Hp Ht v00 v01 v02) as (E1 & _). cbv zeta in E1.
  rewrite xaxis_pullback, xaxis_rho in E1. fold (rot [r * (ca * ca - sa * sa); r * (2 * sa * ca); 0]) in E1.
  set (C := ca * ca - sa * sa) in *. set (S := 2 * sa * ca) in *.
  assert (Erz : rv [r * c; r * s; 0] Rza = [c * (r * C) + s * (0 * 0 - 1 * (r * S)); c * (r * S) + s * (1 * (r * C) - 0 * 0); c * 0 + s * (0 * (r * S) - 0 * (r * C))]).
  { unfold C, S. unfold rv, vecmat, rotmat. cbv zeta.
    cbn [map seq length combine fold_left fst snd nth nadd nsub nmul ndiv nofZ n0 NumR]. apply list3_eq; ring. }
  rewrite Erz, rot_lincomb, E1.
  change [0 * 0 - 1 * (r * S); 1 * (r * C) - 0 * 0; 0 * (r * S) - 0 * (r * C)] with (cross3 [0; 0; 1] [r * C; r * S; 0]).
  rewrite rot_cross, E1, rot_normal. reflexivity.
Qed.
End Rot.

(* ---------- 2.3 the end point: vector algebra in the plane orthogonal to the unit normal ---------- *)
Section ArcEnd.
Variables un v0 v2 : list R.
Hypothesis Hun : dot3 un un = 1.
Hypothesis H0 : dot3 un v0 = 0.
Hypothesis H2 : dot3 un v2 = 0.

(* v0 x v2 is parallel to the normal *)
Lemma cross_parallel_normal : cross3 (cross3 v0 v2) un = [0; 0; 0].
Proof.
  assert (E : cross3 (cross3 v0 v2) un = sub3 (scal3 (dot3 un v0) v2) (scal3 (dot3 un v2) v0)).
  { v3. apply list3_eq; ring. }
  rewrite E, H0, H2. v3. apply list3_eq; ring.
Qed.

Lemma cross_normal_component : dot3 (cross3 v0 v2) un * dot3 (cross3 v0 v2) un = dot3 (cross3 v0 v2) (cross3 v0 v2).
Proof.
  pose proof (lagrange3 (cross3 v0 v2) un) as L. rewrite cross_parallel_normal, Hun in L.
  unfold dot3 at 1 in L. cbn [nth] in L. lra.
Qed.

(* expansion of v2 in the orthogonal frame (v0, un x v0) of the plane *)
Lemma plane_expansion i : (i < 3)%nat ->
  dot3 v0 v0 * nth i v2 0 = dot3 v0 v2 * nth i v0 0 + dot3 (cross3 v0 v2) un * nth i (cross3 un v0) 0.
Proof.
  intros Hi. revert Hun H0 H2. v3. intros Hun' H0' H2'.
  destruct i as [|[|[|i]]]; [| | |lia]; cbn [nth]; Coq.nsatz.NsatzTactic.nsatz_default.
Qed.

Variables r rho c s : R.
Hypothesis Hr : 0 < r.
Hypothesis Hv0 : dot3 v0 v0 = r * r.
Hypothesis Hv2 : dot3 v2 v2 = r * r.
(* atan2 oracle: the point (x, y) = (dot(v0,v2), dot(cross(v0,v2), unit_normal)) has polar angle theta, (c, s) = (cos, sin) theta *)
Hypothesis Hcs : c * c + s * s = 1.
Hypothesis Hrho : 0 < rho.
Hypothesis Hx : dot3 v0 v2 = rho * c.
Hypothesis Hy : dot3 (cross3 v0 v2) un = rho * s.

Lemma atan2_modulus : rho = r * r.
Proof.
  pose proof cross_normal_component as E. rewrite lagrange3, Hv0, Hv2, Hx, Hy in E.
  assert (E' : rho * rho = (r * r) * (r * r)).
  { transitivity (rho * rho * (c * c + s * s)); [rewrite Hcs; ring|]. lra. }
  assert (0 < r * r) by nra. nra.
Qed.

(* the arc point at angle theta is centre + v2 *)
Theorem arc_end_vector : add3 (scal3 c v0) (scal3 s (cross3 un v0)) = [nth 0 v2 0; nth 1 v2 0; nth 2 v2 0].
Proof.
  assert (Hrr : r * r <> 0) by nra.
  assert (Ec : c = dot3 v0 v2 / (r * r)) by (rewrite Hx, atan2_modulus; field; lra).
  assert (Es : s = dot3 (cross3 v0 v2) un / (r * r)) by (rewrite Hy, atan2_modulus; field; lra).
  pose proof (plane_expansion 0 ltac:(lia)) as E0. pose proof (plane_expansion 1 ltac:(lia)) as E1.
  pose proof (plane_expansion 2 ltac:(lia)) as E2. rewrite Hv0 in E0, E1, E2.
  unfold add3, scal3. cbn [nth]. rewrite Ec, Es.
  apply list3_eq; apply (Rmult_eq_reg_l (r * r)); try exact Hrr.
  - rewrite E0. field. lra.
  - rewrite E1. field. lra.
  - rewrite E2. field. lra.
Qed.
End ArcEnd.

(* ---------- 2.4 the second point is passed in between (orientation) ---------- *)
Lemma sin_triple_identity a b : sin (2 * a) + sin (2 * b) - sin (2 * (a + b)) = 4 * sin a * sin b * sin (a + b).
Proof.
  rewrite !sin_2a, sin_plus, cos_plus.
  pose proof (sin2_cos2 a) as Ea. pose proof (sin2_cos2 b) as Eb. unfold Rsqr in Ea, Eb.
  set (sa := sin a) in *. set (ca := cos a) in *. set (sb := sin b) in *. set (cb := cos b) in *.
  Coq.nsatz.NsatzTactic.nsatz_default.
Qed.

Section Orientation.
Variables un v0 : list R.
Variable r : R.
Hypothesis Hun : dot3 un un = 1.
Hypothesis H0 : dot3 un v0 = 0.
Hypothesis Hv0 : dot3 v0 v0 = r * r.
Hypothesis Hr : 0 < r.
(* the point of the circle at angle t, relative to the centre *)
Definition arc_vec (t : R) : list R := add3 (scal3 (cos t) v0) (scal3 (sin t) (cross3 un v0)).

Lemma arc_vec_on_circle t : dot3 (arc_vec t) (arc_vec t) = r * r /\ dot3 un (arc_vec t) = 0.
Proof.
  pose proof (sin2_cos2 t) as E. unfold Rsqr in E. unfold arc_vec.
  assert (E1 : dot3 (cross3 un v0) (cross3 un v0) = r * r) by (rewrite lagrange3, Hun, H0, Hv0; ring).
  assert (E2 : dot3 v0 (cross3 un v0) = 0) by (rewrite dot3_comm; apply cross3_perp_r).
  assert (E3 : dot3 un (cross3 un v0) = 0) by (rewrite dot3_comm; apply cross3_perp_l).
  split.
  - transitivity (cos t * cos t * dot3 v0 v0 + 2 * (cos t * sin t) * dot3 v0 (cross3 un v0)
                  + sin t * sin t * dot3 (cross3 un v0) (cross3 un v0)); [v3; ring|].
    rewrite Hv0, E1, E2. transitivity (r * r * (sin t * sin t + cos t * cos t)); [ring|rewrite E; ring].
  - transitivity (cos t * dot3 un v0 + sin t * dot3 un (cross3 un v0)); [v3; ring|]. rewrite H0, E3. ring.
Qed.

Lemma arc_vec_0 : arc_vec 0 = [nth 0 v0 0; nth 1 v0 0; nth 2 v0 0].
Proof. unfold arc_vec. rewrite cos_0, sin_0. v3. apply list3_eq; ring. Qed.

(* orientation determinant of the triangle (angle 0, angle beta, angle theta) about the normal *)
Lemma arc_triangle_orientation beta theta :
  dot3 (cross3 (sub3 (arc_vec beta) (arc_vec 0)) (sub3 (arc_vec theta) (arc_vec 0))) un
  = 4 * (r * r) * (sin (beta / 2) * sin ((theta - beta) / 2) * sin (theta / 2)).
Proof.
  assert (Eg : forall x1 y1 x2 y2 (w : list R),
     dot3 (cross3 (add3 (scal3 x1 v0) (scal3 y1 w)) (add3 (scal3 x2 v0) (scal3 y2 w))) un
     = (x1 * y2 - y1 * x2) * dot3 (cross3 v0 w) un) by (intros; v3; ring).
  assert (Ed : forall t, sub3 (arc_vec t) (arc_vec 0) = add3 (scal3 (cos t - 1) v0) (scal3 (sin t) (cross3 un v0))).
  { intros t. unfold arc_vec. rewrite cos_0, sin_0. v3. apply list3_eq; ring. }
  assert (Ew : dot3 (cross3 v0 (cross3 un v0)) un = r * r).
  { transitivity (dot3 v0 v0 * dot3 un un - dot3 un v0 * dot3 un v0); [v3; ring|]. rewrite Hv0, Hun, H0. ring. }
  rewrite !Ed, Eg, Ew.
  pose proof (sin_triple_identity (beta / 2) ((theta - beta) / 2)) as T.
  replace (2 * (beta / 2)) with beta in T by field.
  replace (2 * ((theta - beta) / 2)) with (theta - beta) in T by field.
  replace (2 * (beta / 2 + (theta - beta) / 2)) with theta in T by field.
  replace (beta / 2 + (theta - beta) / 2) with (theta / 2) in T by field.
  rewrite sin_minus in T.
  transitivity (r * r * (sin beta + (sin theta * cos beta - cos theta * sin beta) - sin theta)); [ring|]. rewrite T. ring.
Qed.

(* for angles in (0, 2 pi): the triangle is counter-clockwise about the normal iff the second angle comes first *)
Theorem arc_passes_between beta theta : 0 < beta < 2 * PI -> 0 < theta < 2 * PI ->
  (0 < dot3 (cross3 (sub3 (arc_vec beta) (arc_vec 0)) (sub3 (arc_vec theta) (arc_vec 0))) un <-> beta < theta).
Proof.
  intros Hb Ht. rewrite arc_triangle_orientation.
  assert (S1 : 0 < sin (beta / 2)) by (apply sin_gt_0; lra).
  assert (S2 : 0 < sin (theta / 2)) by (apply sin_gt_0; lra).
  assert (Hrr : 0 < 4 * (r * r)) by nra.
  split.
  - intros Hpos. destruct (Rlt_le_dec beta theta) as [L|L]; [exact L|exfalso].
    destruct (Rle_lt_or_eq_dec _ _ L) as [L'|L'].
    + assert (S3 : sin ((theta - beta) / 2) < 0) by (apply sin_lt_0_var; lra).
      assert (sin (beta / 2) * sin ((theta - beta) / 2) * sin (theta / 2) < 0).
      { assert (sin (beta / 2) * sin ((theta - beta) / 2) < 0) by nra. nra. }
      nra.
    + subst beta. replace ((theta - theta) / 2) with 0 in Hpos by field. rewrite sin_0 in Hpos. lra.
  - intros L. assert (S3 : 0 < sin ((theta - beta) / 2)) by (apply sin_gt_0; lra).
    apply Rmult_lt_0_compat; [exact Hrr|]. apply Rmult_lt_0_compat; [apply Rmult_lt_0_compat|]; assumption.
Qed.
End Orientation.

(* every point of the unit circle has an angle in [0, 2 pi) *)
Lemma angle_exists c s : c * c + s * s = 1 -> exists t, 0 <= t < 2 * PI /\ cos t = c /\ sin t = s.
Proof.
  intros E. assert (Hc : -1 <= c <= 1) by (split; nra).
  assert (Hq : 1 - c² = s²) by (unfold Rsqr; lra).
  pose proof (acos_bound c) as Hb. pose proof PI_RGT_0 as Hpi.
  destruct (Rle_lt_dec 0 s) as [Hs|Hs].
  - exists (acos c). split; [lra|]. split; [apply cos_acos; exact Hc|].
    rewrite sin_acos by exact Hc. rewrite Hq. apply sqrt_Rsqr. exact Hs.
  - assert (Hc' : -1 < c < 1) by (split; nra).
    pose proof (acos_bound_lt c Hc') as Hb'.
    exists (2 * PI - acos c). split; [lra|]. split.
    + rewrite cos_minus, cos_2PI, sin_2PI, cos_acos by exact Hc. ring.
    + rewrite sin_minus, cos_2PI, sin_2PI, sin_acos by exact Hc. rewrite Hq, sqrt_Rsqr_abs, Rabs_left by exact Hs. ring.
Qed.

(* ---------- 2.5 the range shift of the sweep angle ---------- *)
(*      if theta <= 0: theta += 2*pi          (theta0 = arctan2(...) is in (-pi, pi]) *)
Definition tp_sweep (theta0 : R) : R := if Rle_dec theta0 0 then theta0 + 2 * PI else theta0.
Lemma tp_sweep_spec theta0 : - PI < theta0 <= PI ->
  0 < tp_sweep theta0 <= 2 * PI /\ cos (tp_sweep theta0) = cos theta0 /\ sin (tp_sweep theta0) = sin theta0.
Proof.
  intros H. pose proof PI_RGT_0. unfold tp_sweep. destruct (Rle_dec theta0 0).
  - split; [lra|]. rewrite cos_plus, sin_plus, cos_2PI, sin_2PI. split; ring.
  - split; [lra|]. split; reflexivity.
Qed.

(* ---------- 2.6 circle_segment_from_three_points: the placed arc starts at pt0, passes pt1, ends at pt2 ---------- *)
Section ThreePointArc.
Variables a0 a1 a2 b0 b1 b2 c0 c1 c2 : R.
Local Notation P0 := [a0; a1; a2].
Local Notation P1 := [b0; b1; b2].
Local Notation P2 := [c0; c1; c2].
Local Notation n := (tp_normal P0 P1 P2).
Local Notation X := (tp_centre P0 P1 P2).
Local Notation r := (tp_radius P0 P1 P2).
Hypothesis Hn : dot3 n n <> 0.
(* v0 = pt0-center, v2 = pt2-center, unit_normal = normal / norm(normal) *)
Local Notation v0 := (sub3 P0 X).
Local Notation v1 := (sub3 P1 X).
Local Notation v2 := (sub3 P2 X).
Definition tp_unit_normal (Q0 Q1 Q2 : list R) : list R :=
  scal3 (/ sqrt (dot3 (tp_normal Q0 Q1 Q2) (tp_normal Q0 Q1 Q2))) (tp_normal Q0 Q1 Q2).
Local Notation un := (tp_unit_normal P0 P1 P2).

Lemma tp_nn_pos : 0 < sqrt (dot3 n n).
Proof. apply sqrt_lt_R0. pose proof (dot3_pos n). lra. Qed.

Lemma tp_un_unit : dot3 un un = 1.
Proof.
  unfold tp_unit_normal. pose proof tp_nn_pos as Hp. set (nn := sqrt (dot3 n n)) in *.
  transitivity (/ nn * / nn * dot3 n n); [v3; ring|].
  replace (dot3 n n) with (nn * nn) by (unfold nn; apply sqrt_sqrt, dot3_pos). field. lra.
Qed.

Lemma tp_un_perp (Q : list R) : dot3 n (sub3 X Q) = 0 -> dot3 un (sub3 Q X) = 0.
Proof.
  intros H. unfold tp_unit_normal. set (k := / sqrt (dot3 n n)).
  transitivity (- k * dot3 n (sub3 X Q)); [v3; ring|]. rewrite H. ring.
Qed.

Lemma tp_dot_normal_un : dot3 n un = sqrt (dot3 n n).
Proof.
  unfold tp_unit_normal. pose proof tp_nn_pos as Hp. set (nn := sqrt (dot3 n n)) in *.
  transitivity (/ nn * dot3 n n); [v3; ring|].
  replace (dot3 n n) with (nn * nn) by (unfold nn; apply sqrt_sqrt, dot3_pos). field. lra.
Qed.

Lemma tp_dot_un (w : list R) : dot3 n w = sqrt (dot3 n n) * dot3 un w.
Proof.
  unfold tp_unit_normal. pose proof tp_nn_pos as Hp. set (nn := sqrt (dot3 n n)) in *.
  transitivity (nn * (/ nn * dot3 n w)); [field; lra|]. v3. ring.
Qed.

(* flip_and_move_plane_geometry(result, center, normal): cp, sp, ct, st = cos, sin of half the polar angles of `normal`
   (theta = atan2(normal[1], normal[0]), phi = atan2(sqrt(normal[0]**2+normal[1]**2), normal[2])): the rotated z-axis is the
   unit normal *)
Variables cp sp ct st : R.
Hypothesis Hp : cp * cp + sp * sp = 1.
Hypothesis Ht : ct * ct + st * st = 1.
Hypothesis Hnrm : nrm cp sp ct st = un.
(* rotate_local_x_axis(xaxis = v0, normal): ca, sa = cos, sin of alpha/2, alpha = atan2(x'[1], x'[0]) *)
Variables ca sa rho' : R.
Hypothesis Ha : ca * ca + sa * sa = 1.
Hypothesis Hrho' : 0 < rho'.
Local Notation Rym := (@rotmat R NumR cp (0 - 0 * (0 - sp)) (0 - 1 * (0 - sp)) (0 - 0 * (0 - sp))).
Local Notation Rzm := (@rotmat R NumR ct (0 - 0 * (0 - st)) (0 - 0 * (0 - st)) (0 - 1 * (0 - st))).
Local Notation Rza := (@rotmat R NumR ca (0 - 0 * sa) (0 - 0 * sa) (0 - 1 * sa)).
Hypothesis Hx0 : nth 0 (rv (rv v0 Rzm) Rym) 0 = rho' * (ca * ca - sa * sa).
Hypothesis Hx1 : nth 1 (rv (rv v0 Rzm) Rym) 0 = rho' * (2 * sa * ca).
(* theta0 = np.arctan2(np.dot(np.cross(v0,v2), unit_normal), np.dot(v0,v2)): the polar angle in (-pi, pi] of that point *)
Variables theta0 rho : R.
Hypothesis Hrange : - PI < theta0 <= PI.
Hypothesis Hrho : 0 < rho.
Hypothesis Hax : dot3 v0 v2 = rho * cos theta0.
Hypothesis Hay : dot3 (cross3 v0 v2) un = rho * sin theta0.

(* the point of the result at local angle t: the arc built by circle_segment is (r cos t, r sin t), 0 <= t <= theta *)
Definition tp_point (t : R) : list R := place cp sp ct st X (rv [r * cos t; r * sin t; 0] Rza).

Local Notation theta := (tp_sweep theta0).

Lemma tp_facts : 0 < r /\ dot3 v0 v0 = r * r /\ dot3 v1 v1 = r * r /\ dot3 v2 v2 = r * r /\
  dot3 un v0 = 0 /\ dot3 un v1 = 0 /\ dot3 un v2 = 0.
Proof.
  destruct (tp_circumcentre P0 P1 P2 Hn) as (E0 & E1 & E2 & N0 & N1 & N2 & Hr).
  repeat split; try assumption; apply tp_un_perp; assumption.
Qed.

Lemma tp_point_frame t : tp_point t = add3 (arc_vec un v0 t) X.
Proof.
  destruct tp_facts as (Hr & E0 & _ & _ & N0 & _).
  unfold tp_point, arc_vec. rewrite <- Hnrm.
  apply (arc_frame cp sp ct st Hp Ht ca sa Ha _ _ _ r rho' Hr E0); try assumption.
  rewrite Hnrm, dot3_comm. exact N0.
Qed.

Lemma tp_add_back (Q : list R) q0 q1 q2 : Q = [q0; q1; q2] ->
  add3 [nth 0 (sub3 Q X) 0; nth 1 (sub3 Q X) 0; nth 2 (sub3 Q X) 0] X = Q.
Proof. intros ->. v3. apply list3_eq; ring. Qed.

(* distinct points *)
Lemma tp_distinct (Q : list R) : (Q = P1 \/ Q = P2) -> sub3 Q X = [nth 0 v0 0; nth 1 v0 0; nth 2 v0 0] -> False.
Proof.
  intros HQ E. apply Hn. unfold tp_normal.
  assert (Z : sub3 Q P0 = [0; 0; 0]).
  { transitivity (sub3 (sub3 Q X) v0); [v3; apply list3_eq; ring|]. rewrite E. v3. apply list3_eq; ring. }
  destruct HQ as [-> | ->]; rewrite Z; v3; ring.
Qed.

Theorem three_point_arc :
  (forall t, dot3 (sub3 (tp_point t) X) (sub3 (tp_point t) X) = r * r /\ dot3 n (sub3 (tp_point t) X) = 0) /\
  tp_point 0 = P0 /\
  0 < theta < 2 * PI /\
  tp_point theta = P2 /\
  (* pt1 is passed strictly in between: beta = the polar angle in [0, 2 pi) of pt1 in the frame (v0, unit_normal x v0) *)
  (forall beta, 0 <= beta < 2 * PI -> cos beta = dot3 v0 v1 / (r * r) -> sin beta = dot3 (cross3 v0 v1) un / (r * r) ->
     0 < beta < theta /\ tp_point beta = P1) /\
  dot3 v0 v1 / (r * r) * (dot3 v0 v1 / (r * r)) + dot3 (cross3 v0 v1) un / (r * r) * (dot3 (cross3 v0 v1) un / (r * r)) = 1.
Proof.
  destruct tp_facts as (Hr & E0 & E1 & E2 & N0 & N1 & N2).
  destruct (tp_sweep_spec theta0 Hrange) as (Hth & Hc & Hs).
  pose proof tp_un_unit as Hun.
  assert (Hcs : forall t, cos t * cos t + sin t * sin t = 1).
  { intros t. pose proof (sin2_cos2 t) as E. unfold Rsqr in E. lra. }
  (* the end point *)
  assert (Eend : arc_vec un v0 theta = [nth 0 v2 0; nth 1 v2 0; nth 2 v2 0]).
  { unfold arc_vec. rewrite Hc, Hs.
    apply (arc_end_vector un v0 v2 Hun N0 N2 r rho (cos theta0) (sin theta0) Hr E0 E2 (Hcs theta0) Hrho Hax Hay). }
  assert (Hlt : theta < 2 * PI).
  { destruct (Rle_lt_or_eq_dec _ _ (proj2 Hth)) as [L|L]; [exact L|exfalso].
    apply (tp_distinct P2 (or_intror eq_refl)).
    transitivity [nth 0 v2 0; nth 1 v2 0; nth 2 v2 0]; [reflexivity|]. rewrite <- Eend, L. unfold arc_vec. rewrite cos_2PI, sin_2PI.
    v3. apply list3_eq; ring. }
  assert (Hrr : r * r <> 0) by nra.
  set (cb := dot3 v0 v1 / (r * r)). set (sb := dot3 (cross3 v0 v1) un / (r * r)).
  assert (Hcsb : cb * cb + sb * sb = 1).
  { pose proof (cross_normal_component un v0 v1 Hun N0 N1) as L. rewrite lagrange3, E0, E1 in L.
    unfold cb, sb. apply (Rmult_eq_reg_l ((r * r) * (r * r))); [|nra].
    transitivity (dot3 v0 v1 * dot3 v0 v1 + dot3 (cross3 v0 v1) un * dot3 (cross3 v0 v1) un); [field; lra|]. lra. }
  split; [|split; [|split; [|split; [|split; [|exact Hcsb]]]]].
  - intros t. rewrite tp_point_frame.
    destruct (arc_vec_on_circle un v0 r Hun N0 E0 t) as (Ec & En).
    replace (sub3 (add3 (arc_vec un v0 t) X) X) with [nth 0 (arc_vec un v0 t) 0; nth 1 (arc_vec un v0 t) 0; nth 2 (arc_vec un v0 t) 0]
      by (v3; apply list3_eq; ring).
    split.
    + rewrite <- Ec. v3. ring.
    + pose proof (tp_dot_un (arc_vec un v0 t)) as En'.
      rewrite En in En'. transitivity (dot3 n (arc_vec un v0 t)); [v3; ring|]. rewrite En'. ring.
  - rewrite tp_point_frame, arc_vec_0. apply (tp_add_back P0 a0 a1 a2 eq_refl).
  - split; [exact (proj1 Hth)|exact Hlt].
  - rewrite tp_point_frame, Eend. apply (tp_add_back P2 c0 c1 c2 eq_refl).
  - (* the angle of pt1 *)
    intros beta Hb Ecb Esb. fold cb in Ecb. fold sb in Esb.
    assert (Ebeta : arc_vec un v0 beta = [nth 0 v1 0; nth 1 v1 0; nth 2 v1 0]).
    { unfold arc_vec. rewrite Ecb, Esb.
      apply (arc_end_vector un v0 v1 Hun N0 N1 r (r * r) cb sb Hr E0 E1 Hcsb); [nra| |]; unfold cb, sb; field; lra. }
    assert (Hb0 : 0 < beta).
    { destruct (Rle_lt_or_eq_dec _ _ (proj1 Hb)) as [L|L]; [exact L|exfalso].
      apply (tp_distinct P1 (or_introl eq_refl)).
      transitivity [nth 0 v1 0; nth 1 v1 0; nth 2 v1 0]; [reflexivity|]. rewrite <- Ebeta, <- L. apply arc_vec_0. }
    split; [split; [exact Hb0|]|].
    + apply (arc_passes_between un v0 r Hun N0 E0 Hr beta theta); [lra|lra|].
      rewrite Ebeta, Eend, arc_vec_0.
      replace (sub3 [nth 0 v1 0; nth 1 v1 0; nth 2 v1 0] [nth 0 v0 0; nth 1 v0 0; nth 2 v0 0]) with (sub3 P1 P0)
        by (v3; apply list3_eq; ring).
      replace (sub3 [nth 0 v2 0; nth 1 v2 0; nth 2 v2 0] [nth 0 v0 0; nth 1 v0 0; nth 2 v0 0]) with (sub3 P2 P0)
        by (v3; apply list3_eq; ring).
      fold n. rewrite tp_dot_normal_un. exact tp_nn_pos.
    + rewrite tp_point_frame, Ebeta. apply (tp_add_back P1 b0 b1 b2 eq_refl).
Qed.

(* the angle beta exists (acos of the standard library; this corollary alone depends on Classical_Prop.classic through it) *)
Corollary three_point_arc_through_middle : exists beta, 0 < beta < theta /\ tp_point beta = P1.
Proof.
  destruct three_point_arc as (_ & _ & _ & _ & Hmid & Hcs).
  destruct (angle_exists _ _ Hcs) as (beta & Hb & Ec & Es).
  exists beta. apply Hmid; assumption.
Qed.

(* 2-D input (third coordinates padded with zeros): the whole arc stays in the plane z = 0, so
   result.set_dimension(2) drops nothing *)
Theorem three_point_arc_planar t : a2 = 0 -> b2 = 0 -> c2 = 0 -> nth 2 (tp_point t) 0 = 0.
Proof.
  intros Za Zb Zc. rewrite tp_point_frame.
  destruct (tp_circumcentre P0 P1 P2 Hn) as (_ & _ & _ & N0 & _).
  assert (Hn0 : nth 0 n 0 = 0) by (unfold tp_normal; v3; rewrite Za, Zb, Zc; ring).
  assert (Hn1 : nth 1 n 0 = 0) by (unfold tp_normal; v3; rewrite Za, Zb, Zc; ring).
  assert (Hn2 : nth 2 n 0 <> 0).
  { intros Z. apply Hn. unfold dot3. rewrite Hn0, Hn1, Z. ring. }
  assert (HX : nth 2 X 0 = 0).
  { assert (T : forall z, z * a2 = 0) by (intros z; rewrite Za; ring). pose proof (T (nth 2 n 0)) as T2.
    revert N0. unfold dot3, sub3. cbn [nth]. rewrite Hn0, Hn1. intros N0.
    assert (nth 2 n 0 * nth 2 X 0 = 0) by lra. apply Rmult_integral in H. destruct H; [contradiction|assumption]. }
  unfold arc_vec, tp_unit_normal. set (k := / sqrt (dot3 n n)).
  unfold add3, scal3, cross3, sub3. cbn [nth]. rewrite Hn0, Hn1, HX, Za. ring.
Qed.
End ThreePointArc.

(* ====================================================================================================== *)
(* 3. order-2 curves: line, polygon, n_gon                                                                 *)
(* ====================================================================================================== *)
(* on the knot span m of an order-2 basis exactly two functions are non-zero, (1 - lam, lam) with lam in [0, 1]
   (this is C13_linear_span_is_segment, re-proved here because Properties/ imports Proofs/) *)
Lemma linear_span side (k : nat -> R) (c : nat -> R) m t : sorted k -> (1 <= m)%nat ->
  in_span side (k m) (k (S m)) t ->
  let lam := w (k m) (k (m + 1)%nat) t in
  sumf (fun i => c i * B side k 1 i t) (m - 1) 2 = (1 - lam) * c (m - 1)%nat + lam * c m /\ 0 <= lam <= 1.
Proof.
  intros Hk Hm Hs. cbv zeta. split.
  - rewrite (deboor_step side k Hk 0 c m t Hm Hs). replace (m - 0)%nat with m by lia. cbn [sumf].
    rewrite (B0_span side k Hk m t Hs m), Nat.eqb_refl. replace (m + 0 + 1)%nat with (m + 1)%nat by lia. ring.
  - apply w_range. replace (m + 1)%nat with (S m) by lia. unfold in_span in Hs. destruct side; lra.
Qed.

(* the sum over ALL basis functions collapses onto the two of the span *)
Lemma linear_full_sum side (k : nat -> R) (c : nat -> R) m N t : sorted k -> (1 <= m <= N)%nat ->
  in_span side (k m) (k (S m)) t ->
  sumf (fun i => c i * B side k 1 i t) 0 (S N) = sumf (fun i => c i * B side k 1 i t) (m - 1) 2.
Proof.
  intros Hk Hm Hs. replace (S N) with ((m - 1) + (2 + (N - m)))%nat by lia.
  rewrite sumf_app, sumf_app. cbn [Nat.add].
  rewrite (sumf_zero _ 0 (m - 1)), (sumf_zero _ (m - 1 + 2) (N - m)); [ring| |].
  - intros i Hi. rewrite (B_support side k Hk 1 i t); [ring|]. apply (span_out_lo side k Hk m t i Hs). lia.
  - intros i Hi. rewrite (B_support side k Hk 1 i t); [ring|]. apply (span_out_hi side k Hk m t (i + 1 + 1) Hs). lia.
Qed.

(* a point on a chord of a circle (convex combination of two points at distance r from the origin) is within distance r *)
Lemma chord_inside r lam x0 y0 x1 y1 : 0 <= lam <= 1 -> x0 * x0 + y0 * y0 = r * r -> x1 * x1 + y1 * y1 = r * r ->
  let X := (1 - lam) * x0 + lam * x1 in let Y := (1 - lam) * y0 + lam * y1 in
  X * X + Y * Y = r * r - lam * (1 - lam) * ((x1 - x0) * (x1 - x0) + (y1 - y0) * (y1 - y0)) /\ X * X + Y * Y <= r * r.
Proof.
  intros Hl E0 E1. cbv zeta.
  assert (E : ((1 - lam) * x0 + lam * x1) * ((1 - lam) * x0 + lam * x1) + ((1 - lam) * y0 + lam * y1) * ((1 - lam) * y0 + lam * y1)
             = r * r - lam * (1 - lam) * ((x1 - x0) * (x1 - x0) + (y1 - y0) * (y1 - y0))).
  { transitivity ((1 - lam) * (x0 * x0 + y0 * y0) + lam * (x1 * x1 + y1 * y1)
                  - lam * (1 - lam) * ((x1 - x0) * (x1 - x0) + (y1 - y0) * (y1 - y0))); [ring|]. rewrite E0, E1. ring. }
  split; [exact E|]. rewrite E.
  assert (H1 : 0 <= lam * (1 - lam)) by nra.
  assert (H2 : 0 <= (x1 - x0) * (x1 - x0) + (y1 - y0) * (y1 - y0)).
  { pose proof (Rle_0_sqr (x1 - x0)) as S1. pose proof (Rle_0_sqr (y1 - y0)) as S2. unfold Rsqr in S1, S2. lra. }
  pose proof (Rmult_le_pos _ _ H1 H2). lra.
Qed.

(* ---------- 3.1 line(a, b, relative) ---------- *)
(*      if relative: b = tuple(ai + bi for ai, bi in zip(a, b))
        return Curve(controlpoints=[a, b])          default basis BSplineBasis(): order 2, knots [0, 0, 1, 1] *)
Definition line_cps (a b : list R) (relative : bool) : list (list R) :=
  [a; if relative then map (fun ab => fst ab + snd ab) (combine a b) else b].
Definition unit_knots : list R := [0; 0; 1; 1].

Lemma unit_knots_sorted : sorted (@kn R NumR unit_knots).
Proof.
  assert (E : forall i, @kn R NumR unit_knots i = if (i <? 2)%nat then 0 else 1).
  { intros [|[|[|[|i]]]]; try reflexivity. unfold kn, unit_knots. cbn [last nth]. destruct i; reflexivity. }
  intros i j Hij. rewrite !E. destruct (Nat.ltb_spec i 2), (Nat.ltb_spec j 2); try lra. lia.
Qed.

(* the two basis functions on [0, 1] are 1 - t and t; the curve has exactly the control points a, b(+a) and is the segment *)
Theorem line_eval side (a b : list R) relative t c : in_span side 0 1 t ->
  let cps := line_cps a b relative in
  length cps = 2%nat /\
  sumf (fun i => nth c (nth i cps []) 0 * B side (@kn R NumR unit_knots) 1 i t) 0 2
  = (1 - t) * nth c a 0 + t * nth c (nth 1 cps []) 0.
Proof.
  intros Hs. cbv zeta. split; [reflexivity|].
  destruct (linear_span side (@kn R NumR unit_knots) (fun i => nth c (nth i (line_cps a b relative) []) 0) 1 t
              unit_knots_sorted (le_n 1) Hs) as (E & _). cbv zeta in E.
  cbn [Nat.sub] in E. rewrite E.
  change (@kn R NumR unit_knots 1) with 0. change (@kn R NumR unit_knots (1 + 1)) with 1.
  rewrite w_lt by lra. cbn [line_cps nth]. field.
Qed.

Lemma line_relative_point (a b : list R) c : length a = length b -> (c < length a)%nat ->
  nth c (nth 1 (line_cps a b true) []) 0 = nth c a 0 + nth c b 0.
Proof.
  intros Hab Ha. cbn [line_cps nth].
  rewrite (nth_map_gen _ _ c 0 (0, 0)) by (rewrite combine_length; lia).
  rewrite combine_nth by exact Hab. reflexivity.
Qed.

(* ---------- 3.2 polygon(points, t=knots): order 2 on the knots [t0, t0, t1, ..., tn, tn] (or the accumulated
   chord lengths [0, 0, d1, d1+d2, ..., L, L]), control points = the input points ---------- *)
(* any sorted knot function, N+1 control points c 0 .. c N: on the span m the curve is the segment from point m-1 to
   point m, and at the knot k m it passes through point m-1 *)
Theorem polygon_eval side (k : nat -> R) (c : nat -> R) m N t : sorted k -> (1 <= m <= N)%nat ->
  in_span side (k m) (k (S m)) t ->
  let lam := w (k m) (k (m + 1)%nat) t in
  sumf (fun i => c i * B side k 1 i t) 0 (S N) = (1 - lam) * c (m - 1)%nat + lam * c m /\ 0 <= lam <= 1.
Proof.
  intros Hk Hm Hs. cbv zeta. rewrite (linear_full_sum side k c m N t Hk Hm Hs).
  apply (linear_span side k c m t Hk (proj1 Hm) Hs).
Qed.

Theorem polygon_interpolates (k : nat -> R) (c : nat -> R) m N : sorted k -> (1 <= m <= N)%nat -> k m < k (S m) ->
  sumf (fun i => c i * B true k 1 i (k m)) 0 (S N) = c (m - 1)%nat.
Proof.
  intros Hk Hm Hlt.
  destruct (polygon_eval true k c m N (k m) Hk Hm) as (E & _); [unfold in_span; lra|]. cbv zeta in E. rewrite E.
  replace (m + 1)%nat with (S m) by lia. rewrite w_lt by exact Hlt.
  replace ((k m - k m) / (k (S m) - k m)) with 0 by (field; lra). ring.
Qed.

(* ---------- 3.2b polygon without t=: the knots are the accumulated chord lengths ---------- *)
(*      knot = [0, 0]
        prevPt = points[0]
        for pt in points[1:]:
            dist = 0
            for (x0, x1) in zip(prevPt, pt):  # loop over (x,y) and maybe z-coordinate
                dist += (x1 - x0)**2
            knot.append(knot[-1] + sqrt(dist))
            prevPt = pt
        knot.append(knot[-1])                                                                              *)
Definition sqdist (p q : list R) : R :=
  fold_left (fun acc xy => acc + (snd xy - fst xy) * (snd xy - fst xy)) (combine p q) 0.
Fixpoint poly_acc (prev : list R) (pts : list (list R)) (lastk : R) : list R :=
  match pts with
  | [] => []
  | pt :: rest => let kk := lastk + sqrt (sqdist prev pt) in kk :: poly_acc pt rest kk
  end.
Definition poly_knots (pts : list (list R)) : list R :=
  match pts with
  | [] => []
  | p0 :: rest => let body := 0 :: 0 :: poly_acc p0 rest 0 in body ++ [last body 0]
  end.

Definition adj (l : list R) : Prop := forall i, (S i < length l)%nat -> nth i l 0 <= nth (S i) l 0.

Lemma adj_cons a l : (l <> [] -> a <= nth 0 l 0) -> adj l -> adj (a :: l).
Proof.
  intros Ha Hl [|i] Hi; cbn [nth length] in *.
  - apply Ha. destruct l; [cbn in Hi; lia|discriminate].
  - apply Hl. lia.
Qed.

Lemma adj_snoc_last l : adj l -> adj (l ++ [last l 0]).
Proof.
  intros Hl i Hi. rewrite app_length in Hi. cbn [length] in Hi.
  destruct (Nat.eq_dec (S i) (length l)) as [E|E].
  - rewrite app_nth1 by lia. rewrite (app_nth2 l) by lia. rewrite E, Nat.sub_diag. cbn [nth].
    assert (Hne : l <> []) by (destruct l; [cbn in E; lia|discriminate]).
    rewrite <- (nth_last_len l 0 Hne). replace (length l - 1)%nat with i by lia. lra.
  - rewrite !app_nth1 by lia. apply Hl. lia.
Qed.

Lemma adj_mono l : adj l -> forall i j, (i <= j < length l)%nat -> nth i l 0 <= nth j l 0.
Proof.
  intros Hl i j Hij. induction j as [|j IH]; [replace i with 0%nat by lia; lra|].
  destruct (Nat.eq_dec i (S j)) as [->|N]; [lra|].
  apply Rle_trans with (nth j l 0); [apply IH; lia|apply Hl; lia].
Qed.

Lemma adj_sorted_kn l : adj l -> sorted (@kn R NumR l).
Proof.
  intros Hl. destruct l as [|a l']; [intros i j _; unfold kn; cbn; destruct i, j; lra|].
  set (l := a :: l') in *. assert (Hne : l <> []) by discriminate.
  assert (K : forall i, @kn R NumR l i = nth (Nat.min i (length l - 1)) l 0).
  { intros i. destruct (Nat.lt_ge_cases i (length l)) as [H|H].
    - rewrite (kn_in l i H 0), Nat.min_l by lia. reflexivity.
    - rewrite (kn_out l i H), Nat.min_r by lia. symmetry. apply (nth_last_len l 0 Hne). }
  intros i j Hij. rewrite !K. apply (adj_mono l Hl). unfold l. cbn [length]. lia.
Qed.

Lemma poly_acc_adj : forall pts prev k0, adj (k0 :: poly_acc prev pts k0).
Proof.
  induction pts as [|pt rest IH]; intros prev k0; cbn [poly_acc].
  - intros i Hi. cbn in Hi. lia.
  - cbv zeta. apply adj_cons; [|apply IH]. intros _. cbn [nth]. pose proof (sqrt_pos (sqdist prev pt)). lra.
Qed.

Theorem poly_knots_sorted pts : sorted (@kn R NumR (poly_knots pts)).
Proof.
  apply adj_sorted_kn. destruct pts as [|p0 rest]; [intros i Hi; cbn in Hi; lia|].
  unfold poly_knots. cbv zeta. apply adj_snoc_last. apply adj_cons; [intros _; cbn [nth]; lra|apply poly_acc_adj].
Qed.

(* knot j+1 is the parameter of point j; consecutive ones differ by the chord length *)
Lemma poly_acc_nth : forall pts prev k0 j, (j < length pts)%nat ->
  nth (S j) (k0 :: poly_acc prev pts k0) 0
  = nth j (k0 :: poly_acc prev pts k0) 0 + sqrt (sqdist (nth j (prev :: pts) []) (nth (S j) (prev :: pts) [])).
Proof.
  induction pts as [|pt rest IH]; intros prev k0 j Hj; [cbn in Hj; lia|].
  cbn [poly_acc]. cbv zeta. destruct j as [|j]; [reflexivity|].
  change (nth (S (S j)) (k0 :: k0 + sqrt (sqdist prev pt) :: poly_acc pt rest (k0 + sqrt (sqdist prev pt))) 0)
    with (nth (S j) (k0 + sqrt (sqdist prev pt) :: poly_acc pt rest (k0 + sqrt (sqdist prev pt))) 0).
  change (nth (S j) (k0 :: k0 + sqrt (sqdist prev pt) :: poly_acc pt rest (k0 + sqrt (sqdist prev pt))) 0)
    with (nth j (k0 + sqrt (sqdist prev pt) :: poly_acc pt rest (k0 + sqrt (sqdist prev pt))) 0).
  rewrite IH by (cbn in Hj; lia). reflexivity.
Qed.

Lemma poly_acc_length : forall pts prev k0, length (poly_acc prev pts k0) = length pts.
Proof. induction pts as [|q rest IH]; intros p k0; cbn [poly_acc length]; [reflexivity|]. cbv zeta. rewrite IH. reflexivity. Qed.

Theorem poly_knots_chord pts j : (S j < length pts)%nat ->
  @kn R NumR (poly_knots pts) 1 = 0 /\
  @kn R NumR (poly_knots pts) (S (S j)) = @kn R NumR (poly_knots pts) (S j) + sqrt (sqdist (nth j pts []) (nth (S j) pts [])).
Proof.
  intros Hj. destruct pts as [|p0 rest]; [cbn in Hj; lia|]. cbn [length] in Hj.
  pose proof (poly_acc_length rest p0 0) as HL.
  assert (Hlen : length (poly_knots (p0 :: rest)) = (length rest + 3)%nat).
  { unfold poly_knots. cbv zeta. rewrite app_length. cbn [length]. rewrite HL. lia. }
  assert (K : forall i, (i <= length rest)%nat -> @kn R NumR (poly_knots (p0 :: rest)) (S i) = nth i (0 :: poly_acc p0 rest 0) 0).
  { intros i Hi. rewrite (kn_in _ (S i) ltac:(rewrite Hlen; lia) 0). unfold poly_knots. cbv zeta.
    rewrite app_nth1 by (cbn [length]; rewrite HL; lia). reflexivity. }
  split; [rewrite (K 0%nat) by lia; reflexivity|].
  rewrite (K (S j)), (K j) by lia. apply (poly_acc_nth rest p0 0 j). lia.
Qed.

(* ---------- 3.3 n_gon(n, r, center, normal) ---------- *)
(*      dt = 2 * pi / n
        knot = [-1]
        for i in range(n):
            cp.append([r * cos(i * dt), r * sin(i * dt)])
            knot.append(i)
        knot += [n, n+1]
        basis = BSplineBasis(2, knot, 0)
        result =  Curve(basis, cp)
        return flip_and_move_plane_geometry(result, center, normal)                                        *)
Definition ngon_dt (n : nat) : R := 2 * PI / INR n.
Definition ngon_x (n : nat) (r : R) (i : nat) : R := r * cos (INR i * ngon_dt n).
Definition ngon_y (n : nat) (r : R) (i : nat) : R := r * sin (INR i * ngon_dt n).
Definition ngon_cps (n : nat) (r : R) : list (list R) := map (fun i => [ngon_x n r i; ngon_y n r i]) (seq 0 n).
Definition ngon_knots (n : nat) : list R := map (fun i => INR i - 1) (seq 0 (n + 3)).

Lemma ngon_cps_nth n r i : (i < n)%nat -> nth i (ngon_cps n r) [] = [ngon_x n r i; ngon_y n r i].
Proof.
  intros Hi. unfold ngon_cps. rewrite (nth_map_gen _ _ i [] 0%nat) by (rewrite seq_length; exact Hi).
  rewrite seq_nth by exact Hi. reflexivity.
Qed.

Lemma ngon_kn n i : @kn R NumR (ngon_knots n) i = INR (Nat.min i (n + 2)) - 1.
Proof.
  unfold kn, ngon_knots.
  assert (L : last (map (fun i => INR i - 1) (seq 0 (n + 3))) (@n0 R NumR) = INR (n + 2) - 1).
  { replace (n + 3)%nat with (S (n + 2)) by lia. rewrite seq_S, map_app. cbn [map]. rewrite last_last. reflexivity. }
  destruct (Nat.lt_ge_cases i (n + 3)) as [H|H].
  - rewrite (nth_map_gen _ _ i _ 0%nat) by (rewrite seq_length; exact H).
    rewrite seq_nth by exact H. rewrite Nat.min_l by lia. reflexivity.
  - rewrite nth_overflow by (rewrite map_length, seq_length; exact H). rewrite L, Nat.min_r by lia. reflexivity.
Qed.

Lemma ngon_knots_sorted n : sorted (@kn R NumR (ngon_knots n)).
Proof.
  intros i j Hij. rewrite !ngon_kn. apply Rplus_le_compat_r. apply le_INR. lia.
Qed.

Section NGon.
Variable n : nat.
Variable r : R.
Hypothesis Hn : (3 <= n)%nat.     (* n < 3 raises ValueError *)
Hypothesis Hr : 0 < r.            (* r <= 0 raises ValueError *)
Local Notation dt := (ngon_dt n).

Lemma ngon_n_pos : 0 < INR n.
Proof. apply lt_0_INR. lia. Qed.

Lemma ngon_dt_range : 0 < dt < PI.
Proof.
  pose proof PI_RGT_0 as Hpi. pose proof ngon_n_pos as Hp. unfold ngon_dt.
  assert (H3 : INR 3 <= INR n) by (apply le_INR; exact Hn). cbn [INR] in H3.
  split.
  - apply Rdiv_lt_0_compat; lra.
  - apply (Rmult_lt_reg_r (INR n)); [exact Hp|]. replace (2 * PI / INR n * INR n) with (2 * PI) by (field; lra). nra.
Qed.

Lemma ngon_full_turn : INR n * dt = 2 * PI.
Proof. pose proof ngon_n_pos. unfold ngon_dt. field. lra. Qed.

(* vertices on the circle, the first one on the positive x-axis *)
Lemma ngon_vertex_on_circle i : ngon_x n r i * ngon_x n r i + ngon_y n r i * ngon_y n r i = r * r.
Proof.
  unfold ngon_x, ngon_y. pose proof (sin2_cos2 (INR i * dt)) as E. unfold Rsqr in E.
  transitivity (r * r * (sin (INR i * dt) * sin (INR i * dt) + cos (INR i * dt) * cos (INR i * dt))); [ring|rewrite E; ring].
Qed.
Lemma ngon_first_vertex : ngon_x n r 0 = r /\ ngon_y n r 0 = 0.
Proof. unfold ngon_x, ngon_y. cbn [INR]. rewrite Rmult_0_l, cos_0, sin_0. split; ring. Qed.

(* the closed polygon: vertex indices wrap modulo n (the periodic basis wraps column j to control point j mod n) *)
Lemma ngon_wrap i : ngon_x n r (i mod n) = ngon_x n r i /\ ngon_y n r (i mod n) = ngon_y n r i.
Proof.
  assert (Hn0 : n <> 0%nat) by lia.
  assert (E : INR i * dt = INR (i mod n) * dt + 2 * INR (i / n) * PI).
  { rewrite (Nat.div_mod i n Hn0) at 1. rewrite plus_INR, mult_INR.
    transitivity (INR (i mod n) * dt + INR (i / n) * (INR n * dt)); [ring|]. rewrite ngon_full_turn. ring. }
  unfold ngon_x, ngon_y. rewrite E, cos_period, sin_period. split; reflexivity.
Qed.

(* counter-clockwise: the 2-D cross product of consecutive vertex vectors is r^2 sin(2 pi / n) > 0; all sides are equal *)
Lemma ngon_ccw i : ngon_x n r i * ngon_y n r (S i) - ngon_y n r i * ngon_x n r (S i) = r * r * sin dt /\ 0 < r * r * sin dt.
Proof.
  split.
  - unfold ngon_x, ngon_y. rewrite S_INR.
    replace ((INR i + 1) * dt) with (INR i * dt + dt) by ring. rewrite sin_plus, cos_plus.
    pose proof (sin2_cos2 (INR i * dt)) as E. unfold Rsqr in E.
    transitivity (r * r * sin dt * (sin (INR i * dt) * sin (INR i * dt) + cos (INR i * dt) * cos (INR i * dt))); [ring|rewrite E; ring].
  - destruct ngon_dt_range as (H0 & H1). pose proof (sin_gt_0 dt H0 H1). assert (0 < r * r) by nra. nra.
Qed.
Lemma ngon_side i : (ngon_x n r (S i) - ngon_x n r i) * (ngon_x n r (S i) - ngon_x n r i)
  + (ngon_y n r (S i) - ngon_y n r i) * (ngon_y n r (S i) - ngon_y n r i) = 2 * (r * r) * (1 - cos dt).
Proof.
  unfold ngon_x, ngon_y. rewrite S_INR.
  replace ((INR i + 1) * dt) with (INR i * dt + dt) by ring. rewrite sin_plus, cos_plus.
  pose proof (sin2_cos2 (INR i * dt)) as E. pose proof (sin2_cos2 dt) as E'. unfold Rsqr in E, E'.
  set (s := sin (INR i * dt)) in *. set (c := cos (INR i * dt)) in *. set (sd := sin dt) in *. set (cd := cos dt) in *.
  Coq.nsatz.NsatzTactic.nsatz_default.
Qed.

(* evaluation: the parameter domain is [0, n) (start = knots[1], end = knots[n+1]); for t in the span [m-1, m]
   (knot indices m, m+1; 1 <= m <= n) the wrapped sum over all n+1 basis functions is the point of the chord from
   vertex m-1 to vertex m (vertex n = vertex 0) at lam = t - (m-1), hence inside the circle *)
Theorem ngon_eval side m t : (1 <= m <= n)%nat -> in_span side (INR m - 1) (INR m) t ->
  let k := @kn R NumR (ngon_knots n) in
  let lam := t - (INR m - 1) in
  let Px := sumf (fun j => nth 0 (nth (j mod n) (ngon_cps n r) []) 0 * B side k 1 j t) 0 (S n) in
  let Py := sumf (fun j => nth 1 (nth (j mod n) (ngon_cps n r) []) 0 * B side k 1 j t) 0 (S n) in
  Px = (1 - lam) * ngon_x n r (m - 1) + lam * ngon_x n r m /\
  Py = (1 - lam) * ngon_y n r (m - 1) + lam * ngon_y n r m /\
  0 <= lam <= 1 /\ Px * Px + Py * Py <= r * r.
Proof.
  intros Hm Hs. cbv zeta.
  assert (Hn0 : n <> 0%nat) by lia.
  assert (Km : @kn R NumR (ngon_knots n) m = INR m - 1) by (rewrite ngon_kn, Nat.min_l by lia; reflexivity).
  assert (KSm : @kn R NumR (ngon_knots n) (S m) = INR m).
  { rewrite ngon_kn, Nat.min_l by lia. rewrite S_INR. ring. }
  assert (Hs' : in_span side (@kn R NumR (ngon_knots n) m) (@kn R NumR (ngon_knots n) (S m)) t) by (rewrite Km, KSm; exact Hs).
  assert (Hlam : w (@kn R NumR (ngon_knots n) m) (@kn R NumR (ngon_knots n) (m + 1)) t = t - (INR m - 1)).
  { replace (m + 1)%nat with (S m) by lia. rewrite Km, KSm, w_lt by lra. field; lra. }
  assert (Ec : forall c j, nth c (nth (j mod n) (ngon_cps n r) []) 0 = nth c [ngon_x n r j; ngon_y n r j] 0).
  { intros c j. rewrite ngon_cps_nth by (apply Nat.mod_upper_bound; exact Hn0).
    destruct (ngon_wrap j) as (Ex & Ey). rewrite Ex, Ey. reflexivity. }
  destruct (polygon_eval side _ (fun j => nth 0 (nth (j mod n) (ngon_cps n r) []) 0) m n t (ngon_knots_sorted n) Hm Hs') as (EX & Hl).
  destruct (polygon_eval side _ (fun j => nth 1 (nth (j mod n) (ngon_cps n r) []) 0) m n t (ngon_knots_sorted n) Hm Hs') as (EY & _).
  cbv zeta in EX, EY, Hl. rewrite Hlam in EX, EY, Hl. rewrite !Ec in EX, EY. cbn [nth] in EX, EY.
  rewrite EX, EY. split; [reflexivity|]. split; [reflexivity|]. split; [exact Hl|].
  apply (chord_inside r (t - (INR m - 1)) _ _ _ _ Hl (ngon_vertex_on_circle (m - 1)) (ngon_vertex_on_circle m)).
Qed.
End NGon.

(* ---------- 3.4 the placed n_gon: in the plane through `center` orthogonal to `normal`, counter-clockwise about the normal ---------- *)
Section PlacedPlanar.
Variables cp sp ct st : R.
Hypothesis Hp : cp * cp + sp * sp = 1.
Hypothesis Ht : ct * ct + st * st = 1.
Variable centre : list R.
Local Notation nr := (nrm cp sp ct st).
Local Notation plc := (place cp sp ct st centre).

(* the placement keeps the orientation of planar figures: local 2-D cross product = component of the 3-D cross product along the normal *)
Theorem planar_placed_orientation x1 y1 x2 y2 :
  cross3 (sub3 (plc [x1; y1; 0]) centre) (sub3 (plc [x2; y2; 0]) centre) = scal3 (x1 * y2 - y1 * x2) nr.
Proof.
  rewrite !place_rot.
  transitivity (cross3 (rot cp sp ct st [x1; y1; 0]) (rot cp sp ct st [x2; y2; 0])); [v3; apply list3_eq; ring|].
  rewrite <- (rot_cross cp sp ct st Hp Ht). unfold cross3. cbn [nth].
  rewrite rot_lin, (rot_normal cp sp ct st Hp Ht). v3. apply list3_eq; ring.
Qed.

Variable n : nat.
Variable r : R.
Hypothesis Hn : (3 <= n)%nat.
Hypothesis Hr : 0 < r.

Theorem ngon_placed i :
  let Q j := plc [ngon_x n r j; ngon_y n r j; 0] in
  dot3 (sub3 (Q i) centre) nr = 0 /\ dot3 (sub3 (Q i) centre) (sub3 (Q i) centre) = r * r /\
  cross3 (sub3 (Q i) centre) (sub3 (Q (S i)) centre) = scal3 (r * r * sin (ngon_dt n)) nr /\ 0 < r * r * sin (ngon_dt n) /\
  Q 0%nat = add3 (scal3 r (rot cp sp ct st [1; 0; 0])) centre.
Proof.
  cbv zeta. destruct (circle_placed cp sp ct st Hp Ht r centre _ _ (ngon_vertex_on_circle n r i)) as (E0 & E1).
  destruct (ngon_ccw n r Hn Hr i) as (C1 & C2).
  split; [exact E0|]. split; [exact E1|]. split; [|split; [exact C2|]].
  - rewrite planar_placed_orientation, C1. reflexivity.
  - destruct (ngon_first_vertex n r) as (X0 & Y0). rewrite X0, Y0, place_rot, rot_lin. f_equal. v3. apply list3_eq; ring.
Qed.

(* every evaluated point of the placed n_gon is in that plane, within distance r of the centre *)
Theorem ngon_placed_inside side m t : (1 <= m <= n)%nat -> in_span side (INR m - 1) (INR m) t ->
  let k := @kn R NumR (ngon_knots n) in
  let Px := sumf (fun j => nth 0 (nth (j mod n) (ngon_cps n r) []) 0 * B side k 1 j t) 0 (S n) in
  let Py := sumf (fun j => nth 1 (nth (j mod n) (ngon_cps n r) []) 0 * B side k 1 j t) 0 (S n) in
  let d := sub3 (plc [Px; Py; 0]) centre in
  dot3 d nr = 0 /\ dot3 d d <= r * r.
Proof.
  intros Hm Hs. cbv zeta. destruct (ngon_eval n r Hn side m t Hm Hs) as (_ & _ & _ & Hin). cbv zeta in Hin.
  exact (disc_placed cp sp ct st Hp Ht r centre _ _ Hin).
Qed.
End PlacedPlanar.

(* ====================================================================================================== *)
(* 4. square and cube: the default unit patch (SplineObject(): order-2 bases on [0, 0, 1, 1], control points at *)
(*    the Greville points), scaled and translated                                                          *)
(*                                                                                                        *)
(*      def square(size=1, lower_left=(0,0)):          def cube(size=1, lower_left=(0,0,0)):               *)
(*          result = Surface()  # unit square              result = Volume()                              *)
(*          result.scale(size)                             result.scale(size)                             *)
(*          result += lower_left                           result += lower_left                           *)
(* ====================================================================================================== *)
Definition unit_basis : basis R := mkBasis 2 unit_knots 0.

(* the row of basis values of the unit basis is (1 - t, t) *)
Lemma unit_row side t : in_span side 0 1 t -> Brow side unit_knots 2 t = [1 - t; t].
Proof.
  intros Hs. unfold Brow. cbn [length unit_knots Nat.sub seq map].
  assert (Hw : w (@kn R NumR unit_knots 1) (@kn R NumR unit_knots (1 + 1)) t = t).
  { change (@kn R NumR unit_knots 1) with 0. change (@kn R NumR unit_knots (1 + 1)) with 1. rewrite w_lt by lra. field. }
  destruct (linear_span side (@kn R NumR unit_knots) (fun i => if (i =? 0)%nat then 1 else 0) 1 t unit_knots_sorted (le_n 1) Hs) as (E0 & _).
  destruct (linear_span side (@kn R NumR unit_knots) (fun i => if (i =? 1)%nat then 1 else 0) 1 t unit_knots_sorted (le_n 1) Hs) as (E1 & _).
  cbv zeta in E0, E1. rewrite Hw in E0, E1. cbn [Nat.sub sumf Nat.eqb] in E0, E1.
  f_equal; [lra|]. f_equal. lra.
Qed.

(* Surface() / Volume(): the default nets (flat, C order: direction 0 slowest) *)
Lemma unit_square_net : @default_cps R NumR [unit_basis; unit_basis] 2 = [[0; 0]; [0; 1]; [1; 0]; [1; 1]].
Proof.
  unfold default_cps, default_point, b_greville, greville, unit_basis, unit_knots. cbn -[Rdiv Rplus INR].
  repeat (f_equal; try (cbn [INR]; field)).
Qed.
Lemma unit_cube_net : @default_cps R NumR [unit_basis; unit_basis; unit_basis] 3
  = [[0; 0; 0]; [0; 0; 1]; [0; 1; 0]; [0; 1; 1]; [1; 0; 0]; [1; 0; 1]; [1; 1; 0]; [1; 1; 1]].
Proof.
  unfold default_cps, default_point, b_greville, greville, unit_basis, unit_knots. cbn -[Rdiv Rplus INR].
  repeat (f_equal; try (cbn [INR]; field)).
Qed.

(* the model's own scale and translate on the default patch *)
Definition square_net (sx sy lx ly : R) : list (list R) :=
  [[0 * sx + lx * 1; 0 * sy + ly * 1]; [0 * sx + lx * 1; 1 * sy + ly * 1]; [1 * sx + lx * 1; 0 * sy + ly * 1]; [1 * sx + lx * 1; 1 * sy + ly * 1]].
Theorem square_model sx sy lx ly :
  match @obj_scale R NumR (@default_obj R NumR [unit_basis; unit_basis]) [sx; sy] with
  | Ok o1 => @obj_translate R NumR o1 [lx; ly]
  | Err e => Err e
  end = Ok (mkObj [unit_basis; unit_basis] (square_net sx sy lx ly) 2 false).
Proof.
  unfold default_obj, default_dim. cbn [length Nat.eqb]. rewrite unit_square_net. reflexivity.
Qed.

Definition cube_net (sx sy sz lx ly lz : R) : list (list R) :=
  map (fun P => [nth 0 P 0 * sx + lx * 1; nth 1 P 0 * sy + ly * 1; nth 2 P 0 * sz + lz * 1])
      [[0; 0; 0]; [0; 0; 1]; [0; 1; 0]; [0; 1; 1]; [1; 0; 0]; [1; 0; 1]; [1; 1; 0]; [1; 1; 1]].
Theorem cube_model sx sy sz lx ly lz :
  match @obj_scale R NumR (@default_obj R NumR [unit_basis; unit_basis; unit_basis]) [sx; sy; sz] with
  | Ok o1 => @obj_translate R NumR o1 [lx; ly; lz]
  | Err e => Err e
  end = Ok (mkObj [unit_basis; unit_basis; unit_basis] (cube_net sx sy sz lx ly lz) 3 false).
Proof.
  unfold default_obj, default_dim. cbn [length Nat.eqb]. rewrite unit_cube_net. reflexivity.
Qed.

(* square(size=(sx, sy), lower_left=(lx, ly)) maps (u, v) to (lx + u sx, ly + v sy): the bilinear patch is affine *)
Theorem square_eval su sv u v sx sy lx ly : in_span su 0 1 u -> in_span sv 0 1 v ->
  @teval R NumR 2 [Brow su unit_knots 2 u; Brow sv unit_knots 2 v] (square_net sx sy lx ly) = [lx + u * sx; ly + v * sy].
Proof.
  intros Hu Hv. rewrite (unit_row su u Hu), (unit_row sv v Hv).
  assert (Hnet : net_ok 2 [[1 - u; u]; [1 - v; v]] (square_net sx sy lx ly)).
  { split; [repeat constructor|reflexivity]. }
  apply (nth_ext _ _ 0 0).
  - rewrite (teval_length 2 _ _ Hnet). reflexivity.
  - intros c Hc. rewrite (teval_length 2 _ _ Hnet) in Hc.
    change (nth c (@teval R NumR 2 [[1 - u; u]; [1 - v; v]] (square_net sx sy lx ly)) 0)
      with (coord c (@teval R NumR 2 [[1 - u; u]; [1 - v; v]] (square_net sx sy lx ly))).
    rewrite (teval_tsum 2 c _ Hc _ Hnet).
    unfold tsum, lcf, cnet, coord, square_net. cbn [length map prodl fold_right sumf nth Nat.mul Nat.add].
    destruct c as [|[|c]]; [| |lia]; cbn [nth]; ring.
Qed.

(* cube(size=(sx, sy, sz), lower_left=(lx, ly, lz)) maps (u, v, w) to (lx + u sx, ly + v sy, lz + w sz) *)
Theorem cube_eval su sv sw u v w' sx sy sz lx ly lz : in_span su 0 1 u -> in_span sv 0 1 v -> in_span sw 0 1 w' ->
  @teval R NumR 3 [Brow su unit_knots 2 u; Brow sv unit_knots 2 v; Brow sw unit_knots 2 w'] (cube_net sx sy sz lx ly lz)
  = [lx + u * sx; ly + v * sy; lz + w' * sz].
Proof.
  intros Hu Hv Hw. rewrite (unit_row su u Hu), (unit_row sv v Hv), (unit_row sw w' Hw).
  assert (Hnet : net_ok 3 [[1 - u; u]; [1 - v; v]; [1 - w'; w']] (cube_net sx sy sz lx ly lz)).
  { split; [repeat constructor|reflexivity]. }
  apply (nth_ext _ _ 0 0).
  - rewrite (teval_length 3 _ _ Hnet). reflexivity.
  - intros c Hc. rewrite (teval_length 3 _ _ Hnet) in Hc.
    change (nth c (@teval R NumR 3 [[1 - u; u]; [1 - v; v]; [1 - w'; w']] (cube_net sx sy sz lx ly lz)) 0)
      with (coord c (@teval R NumR 3 [[1 - u; u]; [1 - v; v]; [1 - w'; w']] (cube_net sx sy sz lx ly lz))).
    rewrite (teval_tsum 3 c _ Hc _ Hnet).
    unfold tsum, lcf, cnet, coord, cube_net. cbn [length map prodl fold_right sumf nth Nat.mul Nat.add].
    destruct c as [|[|[|c]]]; [| | |lia]; cbn [nth]; ring.
Qed.

(* ====================================================================================================== *)
(* 5. non-vacuity: pt0 = (1,0,0), pt1 = (0,1,0), pt2 = (-1,0,0); the half circle, theta0 = pi                *)
(* ====================================================================================================== *)
Example three_point_arc_instance :
  tp_centre [1; 0; 0] [0; 1; 0] [-1; 0; 0] = [0; 0; 0] /\ tp_radius [1; 0; 0] [0; 1; 0] [-1; 0; 0] = 1 /\
  tp_point 1 0 0 0 1 0 (-1) 0 0 1 0 1 0 1 0 0 = [1; 0; 0] /\
  tp_point 1 0 0 0 1 0 (-1) 0 0 1 0 1 0 1 0 PI = [-1; 0; 0] /\
  exists beta, 0 < beta < PI /\ tp_point 1 0 0 0 1 0 (-1) 0 0 1 0 1 0 1 0 beta = [0; 1; 0].
Proof.
  assert (Hn : dot3 (tp_normal [1; 0; 0] [0; 1; 0] [-1; 0; 0]) (tp_normal [1; 0; 0] [0; 1; 0] [-1; 0; 0]) <> 0).
  { unfold tp_normal. v3. lra. }
  assert (HX : tp_centre [1; 0; 0] [0; 1; 0] [-1; 0; 0] = [0; 0; 0]).
  { symmetry. apply (tp_circumcentre_unique _ _ _ Hn 0 0 0); unfold tp_normal; v3; ring. }
  assert (Hs : sqrt (dot3 (tp_normal [1; 0; 0] [0; 1; 0] [-1; 0; 0]) (tp_normal [1; 0; 0] [0; 1; 0] [-1; 0; 0])) = 2).
  { replace (dot3 (tp_normal [1; 0; 0] [0; 1; 0] [-1; 0; 0]) (tp_normal [1; 0; 0] [0; 1; 0] [-1; 0; 0])) with (2 * 2)
      by (unfold tp_normal; v3; ring). apply sqrt_square. lra. }
  assert (Hsw : tp_sweep PI = PI).
  { unfold tp_sweep. pose proof PI_RGT_0. destruct (Rle_dec PI 0); [lra|reflexivity]. }
  assert (Hrad : tp_radius [1; 0; 0] [0; 1; 0] [-1; 0; 0] = 1).
  { unfold tp_radius. rewrite HX. replace (dot3 (sub3 [-1; 0; 0] [0; 0; 0]) (sub3 [-1; 0; 0] [0; 0; 0])) with (1 * 1) by (v3; ring).
    apply sqrt_square. lra. }
  pose proof PI_RGT_0 as Hpi.
  destruct (three_point_arc 1 0 0 0 1 0 (-1) 0 0 Hn 1 0 1 0 ltac:(ring) ltac:(ring)) with (ca := 1) (sa := 0) (rho' := 1) (theta0 := PI) (rho := 1)
    as (_ & E0 & _ & E2 & Hmid & _).
  - unfold nrm, tp_unit_normal. rewrite Hs. unfold tp_normal. v3. apply list3_eq; field.
  - ring.
  - lra.
  - rewrite HX. unfold rv, vecmat, rotmat. cbv zeta. v3.
    cbn [map seq length combine fold_left fst snd nth nadd nsub nmul ndiv nofZ n0 NumR]. ring.
  - rewrite HX. unfold rv, vecmat, rotmat. cbv zeta. v3.
    cbn [map seq length combine fold_left fst snd nth nadd nsub nmul ndiv nofZ n0 NumR]. ring.
  - lra.
  - lra.
  - rewrite HX, cos_PI. v3. ring.
  - rewrite HX, sin_PI. v3. ring.
  - rewrite Hsw in E2, Hmid. split; [exact HX|]. split; [exact Hrad|]. split; [exact E0|]. split; [exact E2|].
    (* pt1 = (0,1,0) sits at beta = pi/2 *)
    exists (PI / 2). apply Hmid.
    + lra.
    + rewrite cos_PI2, HX, Hrad. v3. field.
    + rewrite sin_PI2, HX, Hrad. unfold tp_unit_normal. rewrite Hs. unfold tp_normal. v3. field.
Qed.

