(* C14, continued: cubic_curve end conditions stated on the curve (evaluate / derivative of the returned object) for every
   non-periodic boundary type; Boundary.PERIODIC (closed C2); volume interpolation; least squares for surfaces (normal
   equations, projection); manipulate. *)
From Coq Require Import List Arith Reals Lra Lia Bool ZArith.
From SplipyModel Require Import Spec.BSpline Spec.Deriv Model.Num Model.BasisDef Model.BasisEval Model.Tensor Model.Obj Model.KnotInsert Model.Solve
  Model.Interp Model.Loft Model.InterpMore
  Proofs.Bridge Proofs.EvaluateSpec Proofs.EvalConsequences Proofs.TensorLemmas Proofs.TensorApply Proofs.SnapSpec Proofs.ObjEval Proofs.AffineProofs Proofs.OrderProofs
  Proofs.LinAlg Proofs.InterpProofs Proofs.LoftProofs Proofs.SeamContinuity Proofs.KnotList Proofs.InsertMatrix.
Import ListNotations.
Open Scope R_scope.

(* ================= 1. cubic_curve: end conditions on the curve ================= *)
Lemma remove_at_length {A} i (l : list A) : (i < length l)%nat -> length (remove_at i l) = (length l - 1)%nat.
Proof.
  revert i; induction l as [|a l IH]; intros i H; [cbn in H; lia|].
  destruct i; cbn [remove_at length]; [lia|]. rewrite IH by (cbn in H; lia). cbn in H. lia.
Qed.

Lemma colloc_length tol (b : basis R) d ts : length (@colloc R NumR tol b d ts) = length ts.
Proof. destruct (colloc_mat tol b d ts); assumption. Qed.
Lemma colloc_rows tol (b : basis R) d ts : Forall (fun r => length r = @b_nfun R b) (@colloc R NumR tol b d ts).
Proof. destruct (colloc_mat tol b d ts); assumption. Qed.

Section CubicEnds.
Variables (tol : R) (bt : nat) (t : list R) (x tang : list (list R)) (o : obj R).
Hypothesis Hres : @cubic_curve R NumR tol bt t x tang = Ok o.
Local Notation b := (mkBasis 4 (@cubic_knots R NumR bt t) 0).
Local Notation sys := (@cubic_system R NumR tol bt t x tang).
Local Notation A := (snd (fst sys)).
Local Notation rhs := (snd sys).
Local Notation n := (@b_nfun R b).
Local Notation dim := (length (hd [] x)).
Hypothesis Hbt : In bt [0; 1; 2; 4; 5]%nat.            (* FREE, NATURAL, HERMITE, TANGENT, TANGENTNATURAL *)
Hypothesis Hx : length x = length t.
Hypothesis Ht : (2 <= length t)%nat.
Hypothesis Hsorted : sorted (kn (@cubic_knots R NumR bt t)).
Hypothesis Htol : 0 < tol.

Lemma cubic_b : fst (fst sys) = b. Proof. reflexivity. Qed.

(* number of basis functions per boundary type *)
Lemma cubic_nfun : n = (if (bt =? 0)%nat then length t else if (bt =? 2)%nat then 2 * length t else length t + 2)%nat.
Proof.
  unfold b_nfun, cubic_knots. cbn [b_knots b_order b_per1]. cbv zeta.
  destruct (Nat.eqb_spec bt 0) as [E0|E0].
  - rewrite remove_at_length; rewrite ?remove_at_length; rewrite ?app_length, ?repeat_length; lia.
  - destruct (Nat.eqb_spec bt 2) as [E2|E2].
    + rewrite !app_length, !repeat_length.
      assert (L : length (flat_map (fun y : R => [y; y]) (removelast (tl t))) = (2 * (length t - 2))%nat).
      { assert (G : forall l : list R, length (flat_map (fun y : R => [y; y]) l) = (2 * length l)%nat).
        { induction l as [|a l IH]; [reflexivity|]. cbn [flat_map app length]. rewrite IH. lia. }
        rewrite G. destruct t as [|a [|a' r]]; [cbn in Ht; lia|cbn in Ht; lia|]. cbn [tl].
        rewrite removelast_firstn_len, firstn_length. cbn [length]. lia. }
      rewrite L. lia.
    + rewrite !app_length, !repeat_length. lia.
Qed.

(* the stacked system is square *)
Hypothesis Htang : (bt = 2 -> length tang = length t)%nat.
Lemma cubic_square : mat n n A.
Proof.
  pose proof cubic_nfun as En.
  unfold cubic_system. cbv zeta. cbn [fst snd]. split.
  - rewrite !app_length. rewrite colloc_length.
    cbn [In] in Hbt. destruct Hbt as [<-|[<-|[<-|[<-|[<-|[]]]]]]; cbn [Nat.eqb] in En |- *; rewrite ?colloc_length; cbn [length]; lia.
  - apply Forall_app. split; [apply colloc_rows|]. apply Forall_app. split.
    + destruct (bt =? 4)%nat; [apply colloc_rows|]. destruct (bt =? 5)%nat; [apply colloc_rows|]. destruct (bt =? 2)%nat; [apply colloc_rows|constructor].
    + destruct (bt =? 1)%nat; [apply colloc_rows|]. destruct (bt =? 5)%nat; [apply colloc_rows|constructor].
Qed.

Lemma cubic_npos : (0 < n)%nat.
Proof. rewrite cubic_nfun. destruct (bt =? 0)%nat; [lia|]. destruct (bt =? 2)%nat; lia. Qed.

Lemma cubic_hd_rhs : length (hd [] rhs) = dim.
Proof. unfold cubic_system. cbv zeta. cbn [snd]. destruct x as [|x0 xr]; [cbn in Hx; lia|]. reflexivity. Qed.

Lemma cubic_obj : o_bases o = [b] /\ o_rat o = false /\ o_dim o = dim /\ mat n dim (o_cps o).
Proof.
  destruct (cubic_system_holds tol bt t x tang o Hres cubic_square cubic_npos) as (_ & Eb & Hcp).
  rewrite cubic_hd_rhs in Hcp. split; [exact Eb|]. split; [|split; [|exact Hcp]].
  - unfold cubic_curve in Hres. destruct sys as [[b0 A0] rhs0]. destruct (@solve_shaped R NumR A0 rhs0); [|discriminate]. injection Hres as <-. reflexivity.
  - unfold cubic_curve in Hres. destruct sys as [[b0 A0] rhs0]. destruct (@solve_shaped R NumR A0 rhs0); [|discriminate]. injection Hres as <-. reflexivity.
Qed.

(* core: a row of the system that is a collocation row of derivative order d at the parameter p_q, read on the curve *)
Lemma cubic_row_core r d ps q c : (r < n)%nat -> (q < length ps)%nat -> (c < dim)%nat ->
  nth r A [] = nth q (@colloc R NumR tol b d ps) [] ->
  coord c (@teval R NumR dim [@basis_row R NumR tol b d true (@snap1 R NumR (b_knots b) tol (nth q ps 0))] (o_cps o))
  = nth c (nth r rhs []) 0.
Proof.
  intros Hr Hq Hc Erow. destruct cubic_obj as (_ & _ & _ & [Lcp Fcp]).
  rewrite <- (colloc_row tol b d ps q Hsorted Htol Hq). rewrite <- Erow.
  rewrite teval_curve; [|exact Fcp| |exact Hc].
  - apply (cubic_rows tol bt t x tang o Hres cubic_square cubic_npos r c Hr). rewrite cubic_hd_rhs. exact Hc.
  - rewrite Lcp. symmetry. apply (mat_row n n A r cubic_square Hr).
Qed.

(* evaluate() and derivative() of the returned curve at p_q *)
Lemma cubic_row_eval r ps q v : (r < n)%nat -> (q < length ps)%nat ->
  nth r A [] = nth q (@colloc R NumR tol b 0 ps) [] ->
  @obj_eval R NumR tol o [nth q ps 0] = Ok v -> forall c, (c < dim)%nat -> coord c v = nth c (nth r rhs []) 0.
Proof.
  intros Hr Hq Erow Hev c Hc. destruct cubic_obj as (Eb & Er & Ed & _).
  unfold obj_eval in Hev. rewrite Eb in Hev. cbn [validate hd tl] in Hev.
  destruct (@validate1 R NumR tol b (nth q ps 0)) as [t'|e] eqn:EV; [|discriminate].
  assert (Et' : t' = @snap1 R NumR (b_knots b) tol (nth q ps 0)).
  { unfold validate1 in EV. cbv zeta in EV. destruct (_ && _); [discriminate|]. injection EV as <-. reflexivity. }
  rewrite Er in Hev. injection Hev as <-.
  unfold eval_h, rows_at, o_ncomp. rewrite Eb, Er, Ed. cbn [length seq map nth]. rewrite Nat.add_0_r, Et'.
  apply cubic_row_core; assumption.
Qed.
Lemma cubic_row_deriv r d ps q v : (r < n)%nat -> (q < length ps)%nat ->
  nth r A [] = nth q (@colloc R NumR tol b d ps) [] ->
  @obj_deriv R NumR tol o [d] [true] [nth q ps 0] = Ok v -> forall c, (c < dim)%nat -> coord c v = nth c (nth r rhs []) 0.
Proof.
  intros Hr Hq Erow Hev c Hc. destruct cubic_obj as (Eb & Er & Ed & _).
  unfold obj_deriv in Hev. rewrite Eb in Hev. cbn [validate hd tl] in Hev.
  destruct (@validate1 R NumR tol b (nth q ps 0)) as [t'|e] eqn:EV; [|discriminate].
  assert (Et' : t' = @snap1 R NumR (b_knots b) tol (nth q ps 0)).
  { unfold validate1 in EV. cbv zeta in EV. destruct (_ && _); [discriminate|]. injection EV as <-. reflexivity. }
  rewrite Er in Hev. injection Hev as <-.
  unfold eval_h, rows_at, o_ncomp. rewrite Eb, Er, Ed. cbn [length seq map nth]. rewrite Nat.add_0_r, Et'.
  apply cubic_row_core; assumption.
Qed.
Lemma cubic_n_ge : (length t <= n)%nat.
Proof. rewrite cubic_nfun. destruct (bt =? 0)%nat; [lia|]. destruct (bt =? 2)%nat; lia. Qed.

(* every boundary type: the curve passes through x_i at t_i *)
Theorem cubic_passes_through i v : (i < length t)%nat ->
  @obj_eval R NumR tol o [nth i t 0] = Ok v -> forall c, (c < dim)%nat -> coord c v = nth c (nth i x []) 0.
Proof.
  intros Hi Hev c Hc. pose proof cubic_n_ge as Hn.
  rewrite (cubic_row_eval i t i v ltac:(lia) Hi) by
    (try assumption; unfold cubic_system; cbv zeta; cbn [fst snd]; apply app_nth1; rewrite colloc_length; exact Hi).
  unfold cubic_system. cbv zeta. cbn [snd]. rewrite app_nth1 by lia. reflexivity.
Qed.

Lemma nth_repeat0 c m : nth c (repeat 0 m) 0 = 0.
Proof. revert c; induction m as [|m IH]; intros c; destruct c; cbn [repeat nth]; try reflexivity. apply IH. Qed.

(* NATURAL: the second derivative of the curve vanishes at both ends *)
Theorem cubic_natural_ends v : bt = 1%nat ->
  (@obj_deriv R NumR tol o [2%nat] [true] [hd 0 t] = Ok v -> forall c, (c < dim)%nat -> coord c v = 0) /\
  (@obj_deriv R NumR tol o [2%nat] [true] [last t 0] = Ok v -> forall c, (c < dim)%nat -> coord c v = 0).
Proof.
  intros E.   assert (T : forall k, (bt =? k)%nat = (1 =? k)%nat) by (intros k; rewrite E; reflexivity).
  pose proof cubic_nfun as En. rewrite !T in En. cbn [Nat.eqb] in En.
  assert (EA : forall q, (q < 2)%nat -> nth (length t + q) A [] = nth q (@colloc R NumR tol b 2 [hd 0 t; last t 0]) []).
  { intros q Hq. unfold cubic_system. cbv zeta. cbn [fst snd]. rewrite !T. cbn [Nat.eqb app].
    rewrite app_nth2 by (rewrite colloc_length; lia). rewrite colloc_length. f_equal. lia. }
  assert (ER : forall q c, (q < 2)%nat -> nth c (nth (length t + q) rhs []) 0 = 0).
  { intros q c Hq. unfold cubic_system. cbv zeta. cbn [fst snd]. rewrite !T. cbn [Nat.eqb orb app].
    rewrite app_nth2 by lia. replace (length t + q - length x)%nat with q by lia.
    destruct q as [|[|q]]; [| |lia]; cbn [nth]; apply nth_repeat0. }
  split; intros Hev c Hc.
  - rewrite (cubic_row_deriv (length t + 0) 2 [hd 0 t; last t 0] 0 v ltac:(lia) ltac:(cbn; lia) (EA 0%nat ltac:(lia)) Hev c Hc). apply ER. lia.
  - rewrite (cubic_row_deriv (length t + 1) 2 [hd 0 t; last t 0] 1 v ltac:(lia) ltac:(cbn; lia) (EA 1%nat ltac:(lia)) Hev c Hc). apply ER. lia.
Qed.

(* TANGENT: the first derivative of the curve at the two ends is the prescribed tangent *)
Theorem cubic_tangent_ends v : bt = 4%nat -> length tang = 2%nat ->
  (@obj_deriv R NumR tol o [1%nat] [true] [hd 0 t] = Ok v -> forall c, (c < dim)%nat -> coord c v = nth c (nth 0 tang []) 0) /\
  (@obj_deriv R NumR tol o [1%nat] [true] [last t 0] = Ok v -> forall c, (c < dim)%nat -> coord c v = nth c (nth 1 tang []) 0).
Proof.
  intros E Lt.   assert (T : forall k, (bt =? k)%nat = (4 =? k)%nat) by (intros k; rewrite E; reflexivity).
  pose proof cubic_nfun as En. rewrite !T in En. cbn [Nat.eqb] in En.
  assert (EA : forall q, (q < 2)%nat -> nth (length t + q) A [] = nth q (@colloc R NumR tol b 1 [hd 0 t; last t 0]) []).
  { intros q Hq. unfold cubic_system. cbv zeta. cbn [fst snd]. rewrite !T. cbn [Nat.eqb]. rewrite app_nil_r.
    rewrite app_nth2 by (rewrite colloc_length; lia). rewrite colloc_length. f_equal. lia. }
  assert (ER : forall q, (q < 2)%nat -> nth (length t + q) rhs [] = nth q tang []).
  { intros q Hq. unfold cubic_system. cbv zeta. cbn [fst snd]. rewrite !T. cbn [Nat.eqb orb]. rewrite app_nil_r.
    rewrite app_nth2 by lia. f_equal. lia. }
  split; intros Hev c Hc.
  - rewrite (cubic_row_deriv (length t + 0) 1 [hd 0 t; last t 0] 0 v ltac:(lia) ltac:(cbn; lia) (EA 0%nat ltac:(lia)) Hev c Hc). rewrite ER by lia. reflexivity.
  - rewrite (cubic_row_deriv (length t + 1) 1 [hd 0 t; last t 0] 1 v ltac:(lia) ltac:(cbn; lia) (EA 1%nat ltac:(lia)) Hev c Hc). rewrite ER by lia. reflexivity.
Qed.

(* HERMITE: the first derivative of the curve at every t_i is the prescribed tangent *)
Theorem cubic_hermite_tangents i v : bt = 2%nat -> (i < length t)%nat ->
  @obj_deriv R NumR tol o [1%nat] [true] [nth i t 0] = Ok v -> forall c, (c < dim)%nat -> coord c v = nth c (nth i tang []) 0.
Proof.
  intros E Hi Hev c Hc.   assert (T : forall k, (bt =? k)%nat = (2 =? k)%nat) by (intros k; rewrite E; reflexivity).
  pose proof cubic_nfun as En. rewrite !T in En. cbn [Nat.eqb] in En.
  assert (EA : nth (length t + i) A [] = nth i (@colloc R NumR tol b 1 t) []).
  { unfold cubic_system. cbv zeta. cbn [fst snd]. rewrite !T. cbn [Nat.eqb]. rewrite app_nil_r.
    rewrite app_nth2 by (rewrite colloc_length; lia). rewrite colloc_length. f_equal. lia. }
  rewrite (cubic_row_deriv (length t + i) 1 t i v ltac:(lia) Hi EA Hev c Hc).
  unfold cubic_system. cbv zeta. cbn [fst snd]. rewrite !T. cbn [Nat.eqb orb]. rewrite app_nil_r.
  rewrite app_nth2 by lia. do 2 f_equal. lia.
Qed.

(* TANGENTNATURAL: prescribed tangent at the start, vanishing second derivative at the end *)
Theorem cubic_tangentnatural_ends v : bt = 5%nat -> length tang = 1%nat ->
  (@obj_deriv R NumR tol o [1%nat] [true] [hd 0 t] = Ok v -> forall c, (c < dim)%nat -> coord c v = nth c (nth 0 tang []) 0) /\
  (@obj_deriv R NumR tol o [2%nat] [true] [last t 0] = Ok v -> forall c, (c < dim)%nat -> coord c v = 0).
Proof.
  intros E Lt.   assert (T : forall k, (bt =? k)%nat = (5 =? k)%nat) by (intros k; rewrite E; reflexivity).
  pose proof cubic_nfun as En. rewrite !T in En. cbn [Nat.eqb] in En.
  assert (EA1 : nth (length t + 0) A [] = nth 0 (@colloc R NumR tol b 1 [hd 0 t]) []).
  { unfold cubic_system. cbv zeta. cbn [fst snd]. rewrite !T. cbn [Nat.eqb].
    rewrite app_nth2 by (rewrite colloc_length; lia). rewrite colloc_length. rewrite app_nth1 by (rewrite colloc_length; cbn; lia). f_equal. lia. }
  assert (EA2 : nth (length t + 1) A [] = nth 0 (@colloc R NumR tol b 2 [last t 0]) []).
  { unfold cubic_system. cbv zeta. cbn [fst snd]. rewrite !T. cbn [Nat.eqb].
    rewrite app_nth2 by (rewrite colloc_length; lia). rewrite colloc_length. rewrite app_nth2 by (rewrite colloc_length; cbn; lia).
    rewrite colloc_length. f_equal. cbn [length]. lia. }
  split; intros Hev c Hc.
  - rewrite (cubic_row_deriv (length t + 0) 1 [hd 0 t] 0 v ltac:(lia) ltac:(cbn; lia) EA1 Hev c Hc).
    unfold cubic_system. cbv zeta. cbn [fst snd]. rewrite !T. cbn [Nat.eqb orb].
    rewrite app_nth2 by lia. rewrite app_nth1 by lia. do 2 f_equal. lia.
  - rewrite (cubic_row_deriv (length t + 1) 2 [last t 0] 0 v ltac:(lia) ltac:(cbn; lia) EA2 Hev c Hc).
    unfold cubic_system. cbv zeta. cbn [fst snd]. rewrite !T. cbn [Nat.eqb orb].
    rewrite app_nth2 by lia. rewrite app_nth2 by lia. replace (length t + 1 - length x - length tang)%nat with 0%nat by lia.
    cbn [nth]. apply nth_repeat0.
Qed.
End CubicEnds.

(* ================= 2. tensor-product tools ================= *)
Definition okn (dim : nat) (shape : list nat) (cps : list (list R)) : Prop :=
  Forall (fun p => length p = dim) cps /\ length cps = prodl shape.

Lemma okn_apply_dir dim (C : list (list R)) r n shape d cps : mat r n C -> (d < length shape)%nat -> (0 < prodl shape)%nat ->
  okn dim shape cps -> okn dim (@upd nat shape d r) (@apply_dir R NumR dim shape d C cps).
Proof.
  intros [LC _] Hd Hpos [Fc Lc]. split; [apply Forall_apply_dir; exact Fc|].
  rewrite length_apply_dir by assumption. rewrite LC. reflexivity.
Qed.

(* the chain step with the shape as a free parameter (to be matched against the model's literal shape) *)
Lemma tsum_step' dim c (C : list (list R)) r n (rows old : list (list R)) d shape (cps : list (list R)) :
  old = @upd (list R) rows d (rowmat (nth d rows []) C) -> shape = map (@length R) old ->
  (d < length rows)%nat -> (c < dim)%nat -> mat r n C -> (0 < r)%nat -> length (nth d rows []) = r ->
  okn dim shape cps -> (0 < prodl shape)%nat ->
  tsum rows (cnet dim c (@apply_dir R NumR dim shape d C cps)) = tsum old (cnet dim c cps).
Proof.
  intros -> -> Hd Hc HC Hr HN [Fc Lc] Hpos. apply (tsum_step dim c C r n rows d cps); try assumption. split; assumption.
Qed.

(* unit rows select one entry of the net *)
Lemma tsum_units2 n1 n2 i j f : (i < n1)%nat -> (j < n2)%nat -> tsum [unit_row n1 i; unit_row n2 j] f = f (i * n2 + j)%nat.
Proof.
  intros Hi Hj. change [unit_row n1 i; unit_row n2 j] with ([unit_row n1 i] ++ [unit_row n2 j]). rewrite tsum_unit_last by exact Hj.
  change [unit_row n1 i] with ([] ++ [unit_row n1 i]). rewrite tsum_unit_last by exact Hi. cbn [tsum]. f_equal.
Qed.
Lemma tsum_units3 n1 n2 n3 i j k f : (i < n1)%nat -> (j < n2)%nat -> (k < n3)%nat ->
  tsum [unit_row n1 i; unit_row n2 j; unit_row n3 k] f = f ((i * n2 + j) * n3 + k)%nat.
Proof.
  intros Hi Hj Hk. change [unit_row n1 i; unit_row n2 j; unit_row n3 k] with ([unit_row n1 i; unit_row n2 j] ++ [unit_row n3 k]).
  rewrite tsum_unit_last by exact Hk. rewrite tsum_units2 by assumption. reflexivity.
Qed.

Lemma rowmat_unit n m (C : list (list R)) i : mat n m C -> (0 < n)%nat -> (i < n)%nat -> rowmat (unit_row n i) C = nth i C [].
Proof.
  intros HC Hn Hi. apply (nth_ext _ _ 0 0).
  - rewrite (rowmat_length n m _ C HC (unit_row_length n i) Hn). symmetry. apply (mat_row n m C i HC Hi).
  - intros j Hj. rewrite (rowmat_length n m _ C HC (unit_row_length n i) Hn) in Hj.
    rewrite (rowmat_nth n m _ C j HC (unit_row_length n i) Hn Hj).
    rewrite (sumf_ext _ (fun l => (if (l =? i)%nat then 1 else 0) * ment C l j)) by (intros l Hl; rewrite unit_row_nth by lia; reflexivity).
    rewrite (sumf_unit (fun l => ment C l j) i n Hi). reflexivity.
Qed.

Lemma matmul_ident_r r n (A : list (list R)) : mat r n A -> (0 < n)%nat -> @matmul R NumR A (@ident R NumR n) = A.
Proof.
  intros HA Hn. apply (mat_ext r n); [apply (matmul_mat r n n); [exact HA|apply ident_mat|exact Hn]|exact HA|].
  intros i j Hi Hj. rewrite (matmul_ent r n n) by (try assumption; apply ident_mat).
  rewrite (sumf_ext _ (fun l => (if (l =? j)%nat then 1 else 0) * ment A i l)) by (intros l Hl; rewrite ident_ent by lia; ring).
  apply (sumf_unit (fun l => ment A i l) j n Hj).
Qed.

Lemma idx2_lt i j a b : (i < a)%nat -> (j < b)%nat -> (i * b + j < a * b)%nat.
Proof. intros Hi Hj. assert (S i * b <= a * b)%nat by (apply Nat.mul_le_mono_r; lia). lia. Qed.
Lemma idx3_lt i j k a b c : (i < a)%nat -> (j < b)%nat -> (k < c)%nat -> ((i * b + j) * c + k < a * b * c)%nat.
Proof. intros Hi Hj Hk. apply idx2_lt; [apply idx2_lt; assumption|exact Hk]. Qed.

(* ================= 3. volume interpolation ================= *)
Section VolumeInterp.
Variables (tol : R) (bu bv bw : basis R) (us vs ws : list R) (x : list (list R)) (o : obj R).
Hypothesis Hres : @volume_interpolate R NumR tol bu bv bw us vs ws x = Ok o.
Local Notation nu := (@b_nfun R bu).
Local Notation nv := (@b_nfun R bv).
Local Notation nw := (@b_nfun R bw).
Local Notation Nu := (@colloc R NumR tol bu 0 us).
Local Notation Nv := (@colloc R NumR tol bv 0 vs).
Local Notation Nw := (@colloc R NumR tol bw 0 ws).
Local Notation dim := (length (hd [] x)).
Hypothesis Hu : length us = nu.
Hypothesis Hv : length vs = nv.
Hypothesis Hw : length ws = nw.
Hypothesis Hnu : (0 < nu)%nat.
Hypothesis Hnv : (0 < nv)%nat.
Hypothesis Hnw : (0 < nw)%nat.
Hypothesis Hx : mat (nu * nv * nw) dim x.

Lemma volume_interp_unpack : exists Iu Iv Iw,
  o = mkObj [bu; bv; bw] (@apply_dir R NumR dim [nu; nv; nw] 0 Iu (@apply_dir R NumR dim [nu; nv; nw] 1 Iv (@apply_dir R NumR dim [nu; nv; nw] 2 Iw x))) dim false /\
  mat nu nu Nu /\ mat nv nv Nv /\ mat nw nw Nw /\ mat nu nu Iu /\ mat nv nv Iv /\ mat nw nw Iw /\
  @matmul R NumR Nu Iu = @ident R NumR nu /\ @matmul R NumR Nv Iv = @ident R NumR nv /\ @matmul R NumR Nw Iw = @ident R NumR nw.
Proof.
  unfold volume_interpolate in Hres.
  destruct (@inverse R NumR Nw) as [Iw|e] eqn:EW; [|discriminate].
  destruct (@inverse R NumR Nv) as [Iv|e] eqn:EV; [|discriminate].
  destruct (@inverse R NumR Nu) as [Iu|e] eqn:EU; [|discriminate].
  exists Iu, Iv, Iw. rewrite Hu, Hv, Hw in Hres. split; [injection Hres as <-; reflexivity|].
  pose proof (colloc_mat tol bu 0 us) as HNu. rewrite Hu in HNu.
  pose proof (colloc_mat tol bv 0 vs) as HNv. rewrite Hv in HNv.
  pose proof (colloc_mat tol bw 0 ws) as HNw. rewrite Hw in HNw.
  assert (LU : length Nu = nu) by (destruct HNu; assumption). assert (LV : length Nv = nv) by (destruct HNv; assumption).
  assert (LW : length Nw = nw) by (destruct HNw; assumption).
  apply inverse_spec in EU. rewrite LU in EU. destruct EU as (EU1 & _ & HIu).
  apply inverse_spec in EV. rewrite LV in EV. destruct EV as (EV1 & _ & HIv).
  apply inverse_spec in EW. rewrite LW in EW. destruct EW as (EW1 & _ & HIw).
  repeat (split; [assumption|]). assumption.
Qed.

Lemma volume_interp_net : okn dim [nu; nv; nw] (o_cps o).
Proof.
  destruct volume_interp_unpack as (Iu & Iv & Iw & -> & _ & _ & _ & HIu & HIv & HIw & _). cbn [o_cps].
  assert (P : prodl [nu; nv; nw] = (nu * nv * nw)%nat) by (cbn [prodl fold_right]; lia).
  destruct Hx as [Lx Fx].
  apply (okn_apply_dir dim Iu nu nu [nu; nv; nw] 0); [exact HIu|cbn; lia|rewrite P; nia|].
  apply (okn_apply_dir dim Iv nv nv [nu; nv; nw] 1); [exact HIv|cbn; lia|rewrite P; nia|].
  apply (okn_apply_dir dim Iw nw nw [nu; nv; nw] 2); [exact HIw|cbn; lia|rewrite P; nia|].
  split; [exact Fx|rewrite P; exact Lx].
Qed.

(* the volume's defining triple sum at (u_i, v_j, w_k) is the grid point x_ijk *)
Theorem volume_interp_passes i j k c : (i < nu)%nat -> (j < nv)%nat -> (k < nw)%nat -> (c < dim)%nat ->
  coord c (@teval R NumR dim [nth i Nu []; nth j Nv []; nth k Nw []] (o_cps o)) = coord c (nth ((i * nv + j) * nw + k) x [])
  /\ o_bases o = [bu; bv; bw].
Proof.
  intros Hi Hj Hk Hc. pose proof volume_interp_net as [FO LO].
  destruct volume_interp_unpack as (Iu & Iv & Iw & EO & HNu & HNv & HNw & HIu & HIv & HIw & EU1 & EV1 & EW1).
  split; [|rewrite EO; reflexivity]. rewrite EO in FO, LO |- *. cbn [o_cps] in *.
  assert (P : prodl [nu; nv; nw] = (nu * nv * nw)%nat) by (cbn [prodl fold_right]; lia).
  destruct Hx as [Lx Fx].
  assert (Ok0 : okn dim [nu; nv; nw] x) by (split; [exact Fx|rewrite P; exact Lx]).
  set (y2 := @apply_dir R NumR dim [nu; nv; nw] 2 Iw x) in *.
  assert (Ok2 : okn dim [nu; nv; nw] y2) by (apply (okn_apply_dir dim Iw nw nw [nu; nv; nw] 2); [exact HIw|cbn; lia|rewrite P; nia|exact Ok0]).
  set (y1 := @apply_dir R NumR dim [nu; nv; nw] 1 Iv y2) in *.
  assert (Ok1 : okn dim [nu; nv; nw] y1) by (apply (okn_apply_dir dim Iv nv nv [nu; nv; nw] 1); [exact HIv|cbn; lia|rewrite P; nia|exact Ok2]).
  set (y0 := @apply_dir R NumR dim [nu; nv; nw] 0 Iu y1) in *.
  assert (RU : length (nth i Nu []) = nu) by (apply (mat_row nu nu); assumption).
  assert (RV : length (nth j Nv []) = nv) by (apply (mat_row nv nv); assumption).
  assert (RW : length (nth k Nw []) = nw) by (apply (mat_row nw nw); assumption).
  rewrite teval_tsum; [|exact Hc|split; [exact FO|rewrite LO; cbn [map length]; rewrite RU, RV, RW; reflexivity]].
  pose proof (tsum_apply_dir dim c Iu [unit_row nu i; nth j Nv []; nth k Nw []] 0 (nth i Nu []) y1) as T0.
  cbn [map nth upd length] in T0. rewrite unit_row_length, RV, RW in T0. fold y0 in T0.
  rewrite T0; clear T0; [|lia|exact Hc|split; [apply Ok1|cbn [map length]; rewrite ?unit_row_length, ?RV, ?RW; apply Ok1]
     |cbn [map length]; rewrite ?unit_row_length, ?RV, ?RW, P; nia|apply inverse_row_rel; assumption].
  pose proof (tsum_apply_dir dim c Iv [unit_row nu i; unit_row nv j; nth k Nw []] 1 (nth j Nv []) y2) as T1.
  cbn [map nth upd length] in T1. rewrite !unit_row_length, RW in T1. fold y1 in T1.
  rewrite T1; clear T1; [|lia|exact Hc|split; [apply Ok2|cbn [map length]; rewrite ?unit_row_length, ?RW; apply Ok2]
     |cbn [map length]; rewrite ?unit_row_length, ?RW, P; nia|apply inverse_row_rel; assumption].
  pose proof (tsum_apply_dir dim c Iw [unit_row nu i; unit_row nv j; unit_row nw k] 2 (nth k Nw []) x) as T2.
  cbn [map nth upd length] in T2. rewrite !unit_row_length in T2. fold y2 in T2.
  rewrite T2; clear T2; [|lia|exact Hc|split; [apply Ok0|cbn [map length]; rewrite ?unit_row_length; apply Ok0]
     |cbn [map length]; rewrite ?unit_row_length, P; nia|apply inverse_row_rel; assumption].
  rewrite tsum_units3 by assumption. unfold cnet. rewrite (nth_indep x _ []) by (rewrite Lx; apply idx3_lt; assumption). reflexivity.
Qed.

(* evaluate(): the interpolating volume passes through x_ijk at (u_i, v_j, w_k) *)
Theorem volume_interp_eval i j k v : sorted (kn (b_knots bu)) -> sorted (kn (b_knots bv)) -> sorted (kn (b_knots bw)) -> 0 < tol ->
  (i < nu)%nat -> (j < nv)%nat -> (k < nw)%nat ->
  @obj_eval R NumR tol o [nth i us 0; nth j vs 0; nth k ws 0] = Ok v ->
  forall c, (c < dim)%nat -> coord c v = coord c (nth ((i * nv + j) * nw + k) x []).
Proof.
  intros Su Sv Sw Htol Hi Hj Hk Hev c Hc.
  destruct (volume_interp_passes i j k c Hi Hj Hk Hc) as [P Eb]. rewrite <- P.
  destruct volume_interp_unpack as (Iu & Iv & Iw & EO & _).
  assert (Er : o_rat o = false) by (rewrite EO; reflexivity). assert (Ed : o_dim o = dim) by (rewrite EO; reflexivity).
  clear EO. unfold obj_eval in Hev. rewrite Eb in Hev. cbn [validate hd tl] in Hev.
  destruct (@validate1 R NumR tol bu (nth i us 0)) as [t1|e] eqn:E1; [|discriminate].
  destruct (@validate1 R NumR tol bv (nth j vs 0)) as [t2|e] eqn:E2; [|discriminate].
  destruct (@validate1 R NumR tol bw (nth k ws 0)) as [t3|e] eqn:E3; [|discriminate].
  assert (V : forall b t t', @validate1 R NumR tol b t = Ok t' -> t' = @snap1 R NumR (b_knots b) tol t).
  { intros b0 t0 t' EV. unfold validate1 in EV. cbv zeta in EV. destruct (_ && _); [discriminate|]. injection EV as <-. reflexivity. }
  apply V in E1, E2, E3. rewrite Er in Hev. injection Hev as <-.
  unfold eval_h, rows_at, o_ncomp. rewrite Eb, Er, Ed. cbn [length seq map nth]. rewrite Nat.add_0_r, E1, E2, E3.
  rewrite <- (colloc_row tol bu 0 us i Su Htol) by lia.
  rewrite <- (colloc_row tol bv 0 vs j Sv Htol) by lia.
  rewrite <- (colloc_row tol bw 0 ws k Sw Htol) by lia. reflexivity.
Qed.
End VolumeInterp.

(* surface interpolation at the level of evaluate() (complements InterpProofs.surface_interp_passes) *)
Theorem surface_interp_eval tol (bu bv : basis R) us vs x o i j v :
  @surface_interpolate R NumR tol bu bv us vs x = Ok o ->
  length us = @b_nfun R bu -> length vs = @b_nfun R bv -> (0 < @b_nfun R bu)%nat -> (0 < @b_nfun R bv)%nat ->
  mat (@b_nfun R bu * @b_nfun R bv) (length (hd [] x)) x ->
  sorted (kn (b_knots bu)) -> sorted (kn (b_knots bv)) -> 0 < tol -> (i < @b_nfun R bu)%nat -> (j < @b_nfun R bv)%nat ->
  @obj_eval R NumR tol o [nth i us 0; nth j vs 0] = Ok v ->
  forall c, (c < length (hd [] x))%nat -> coord c v = coord c (nth (i * @b_nfun R bv + j) x []).
Proof.
  intros Hres Hu Hv Hnu Hnv Hx Su Sv Htol Hi Hj Hev c Hc.
  destruct (surface_interp_passes tol bu bv us vs x o Hres Hu Hv Hnu Hnv Hx i j c Hi Hj Hc) as [P Eb]. rewrite <- P.
  assert (Er : o_rat o = false /\ o_dim o = length (hd [] x)).
  { unfold surface_interpolate in Hres. destruct (@inverse R NumR _); [|discriminate]. destruct (@inverse R NumR _); [|discriminate].
    injection Hres as <-. split; reflexivity. }
  destruct Er as [Er Ed]. unfold obj_eval in Hev. rewrite Eb in Hev. cbn [validate hd tl] in Hev.
  destruct (@validate1 R NumR tol bu (nth i us 0)) as [t1|e] eqn:E1; [|discriminate].
  destruct (@validate1 R NumR tol bv (nth j vs 0)) as [t2|e] eqn:E2; [|discriminate].
  assert (V : forall b t t', @validate1 R NumR tol b t = Ok t' -> t' = @snap1 R NumR (b_knots b) tol t).
  { intros b0 t0 t' EV. unfold validate1 in EV. cbv zeta in EV. destruct (_ && _); [discriminate|]. injection EV as <-. reflexivity. }
  apply V in E1, E2. rewrite Er in Hev. injection Hev as <-.
  unfold eval_h, rows_at, o_ncomp. rewrite Eb, Er, Ed. cbn [length seq map nth]. rewrite Nat.add_0_r, E1, E2.
  rewrite <- (colloc_row tol bu 0 us i Su Htol) by lia.
  rewrite <- (colloc_row tol bv 0 vs j Sv Htol) by lia. reflexivity.
Qed.

(* ================= 4. least squares for surfaces ================= *)
Section SurfaceLsq.
Variables (tol : R) (bu bv : basis R) (us vs : list R) (x : list (list R)) (o : obj R).
Hypothesis Hres : @surface_lsq R NumR tol bu bv us vs x = Ok o.
Local Notation nu := (@b_nfun R bu).
Local Notation nv := (@b_nfun R bv).
Local Notation lu := (length us).
Local Notation lv := (length vs).
Local Notation Nu := (@colloc R NumR tol bu 0 us).
Local Notation Nv := (@colloc R NumR tol bv 0 vs).
Local Notation NuT := (@transpose R NumR nu Nu).
Local Notation NvT := (@transpose R NumR nv Nv).
Local Notation Au := (@matmul R NumR NuT Nu).
Local Notation Av := (@matmul R NumR NvT Nv).
Local Notation dim := (length (hd [] x)).
Hypothesis Hnu : (0 < nu)%nat.
Hypothesis Hnv : (0 < nv)%nat.
Hypothesis Hlu : (0 < lu)%nat.
Hypothesis Hlv : (0 < lv)%nat.
Hypothesis Hx : mat (lu * lv) dim x.

Lemma surface_lsq_unpack : exists Gu Gv,
  o = mkObj [bu; bv] (@apply_dir R NumR dim [nu; nv] 0 Gu (@apply_dir R NumR dim [nu; nv] 1 Gv
        (@apply_dir R NumR dim [lu; nv] 0 NuT (@apply_dir R NumR dim [lu; lv] 1 NvT x)))) dim false /\
  mat lu nu Nu /\ mat lv nv Nv /\ mat nu lu NuT /\ mat nv lv NvT /\ mat nu nu Au /\ mat nv nv Av /\ mat nu nu Gu /\ mat nv nv Gv /\
  @matmul R NumR Au Gu = @ident R NumR nu /\ @matmul R NumR Gu Au = @ident R NumR nu /\
  @matmul R NumR Av Gv = @ident R NumR nv /\ @matmul R NumR Gv Av = @ident R NumR nv.
Proof.
  unfold surface_lsq in Hres. cbv zeta in Hres.
  destruct (@inverse R NumR Av) as [Gv|e] eqn:EV; [|discriminate].
  destruct (@inverse R NumR Au) as [Gu|e] eqn:EU; [|discriminate].
  exists Gu, Gv. split; [injection Hres as <-; reflexivity|].
  pose proof (colloc_mat tol bu 0 us) as HNu. pose proof (colloc_mat tol bv 0 vs) as HNv.
  pose proof (transpose_mat lu nu Nu HNu) as HNuT. pose proof (transpose_mat lv nv Nv HNv) as HNvT.
  pose proof (matmul_mat nu lu nu NuT Nu HNuT HNu Hlu) as HAu. pose proof (matmul_mat nv lv nv NvT Nv HNvT HNv Hlv) as HAv.
  assert (LU : length Au = nu) by (destruct HAu; assumption). assert (LV : length Av = nv) by (destruct HAv; assumption).
  apply inverse_spec in EU. rewrite LU in EU. destruct EU as (EU1 & EU2 & HGu).
  apply inverse_spec in EV. rewrite LV in EV. destruct EV as (EV1 & EV2 & HGv).
  repeat (split; [assumption|]). assumption.
Qed.

(* four chain steps: any pair of rows against the fitted net is the pair (R0 Gu NuT, R1 Gv NvT) against the data *)
Lemma surface_lsq_chain Gu Gv R0 R1 c :
  mat nu nu Gu -> mat nv nv Gv -> length R0 = nu -> length R1 = nv -> (c < dim)%nat ->
  tsum [R0; R1] (cnet dim c (@apply_dir R NumR dim [nu; nv] 0 Gu (@apply_dir R NumR dim [nu; nv] 1 Gv
        (@apply_dir R NumR dim [lu; nv] 0 NuT (@apply_dir R NumR dim [lu; lv] 1 NvT x)))))
  = tsum [rowmat (rowmat R0 Gu) NuT; rowmat (rowmat R1 Gv) NvT] (cnet dim c x).
Proof.
  intros HGu HGv L0 L1 Hc.
  pose proof (colloc_mat tol bu 0 us) as HNu. pose proof (colloc_mat tol bv 0 vs) as HNv.
  pose proof (transpose_mat lu nu Nu HNu) as HNuT. pose proof (transpose_mat lv nv Nv HNv) as HNvT.
  destruct Hx as [Lx Fx].
  assert (Ok0 : okn dim [lu; lv] x) by (split; [exact Fx|cbn [prodl fold_right]; lia]).
  set (y1 := @apply_dir R NumR dim [lu; lv] 1 NvT x).
  assert (Ok1 : okn dim [lu; nv] y1) by (apply (okn_apply_dir dim NvT nv lv [lu; lv] 1); [exact HNvT|cbn; lia|cbn [prodl fold_right]; nia|exact Ok0]).
  set (y2 := @apply_dir R NumR dim [lu; nv] 0 NuT y1).
  assert (Ok2 : okn dim [nu; nv] y2) by (apply (okn_apply_dir dim NuT nu lu [lu; nv] 0); [exact HNuT|cbn; lia|cbn [prodl fold_right]; nia|exact Ok1]).
  set (y3 := @apply_dir R NumR dim [nu; nv] 1 Gv y2).
  assert (Ok3 : okn dim [nu; nv] y3) by (apply (okn_apply_dir dim Gv nv nv [nu; nv] 1); [exact HGv|cbn; lia|cbn [prodl fold_right]; nia|exact Ok2]).
  set (A0 := rowmat R0 Gu). set (A1 := rowmat R1 Gv).
  assert (LA0 : length A0 = nu) by (apply (rowmat_length nu nu); assumption).
  assert (LA1 : length A1 = nv) by (apply (rowmat_length nv nv); assumption).
  set (B0 := rowmat A0 NuT). set (B1 := rowmat A1 NvT).
  assert (LB0 : length B0 = lu) by (apply (rowmat_length nu lu); assumption).
  assert (LB1 : length B1 = lv) by (apply (rowmat_length nv lv); assumption).
  rewrite (tsum_step' dim c Gu nu nu [R0; R1] [A0; R1] 0 [nu; nv] y3);
    [|reflexivity|cbn [map length]; rewrite LA0, L1; reflexivity|cbn; lia|exact Hc|exact HGu|exact Hnu|exact L0|exact Ok3|cbn [prodl fold_right]; nia].
  unfold y3. rewrite (tsum_step' dim c Gv nv nv [A0; R1] [A0; A1] 1 [nu; nv] y2);
    [|reflexivity|cbn [map length]; rewrite LA0, LA1; reflexivity|cbn; lia|exact Hc|exact HGv|exact Hnv|exact L1|exact Ok2|cbn [prodl fold_right]; nia].
  unfold y2. rewrite (tsum_step' dim c NuT nu lu [A0; A1] [B0; A1] 0 [lu; nv] y1);
    [|reflexivity|cbn [map length]; rewrite LB0, LA1; reflexivity|cbn; lia|exact Hc|exact HNuT|exact Hnu|exact LA0|exact Ok1|cbn [prodl fold_right]; nia].
  unfold y1. rewrite (tsum_step' dim c NvT nv lv [B0; A1] [B0; B1] 1 [lu; lv] x);
    [|reflexivity|cbn [map length]; rewrite LB0, LB1; reflexivity|cbn; lia|exact Hc|exact HNvT|exact Hnv|exact LA1|exact Ok0|cbn [prodl fold_right]; nia].
  reflexivity.
Qed.
Lemma surface_lsq_net : okn dim [nu; nv] (o_cps o) /\ o_bases o = [bu; bv] /\ o_rat o = false /\ o_dim o = dim.
Proof.
  destruct surface_lsq_unpack as (Gu & Gv & -> & HNu & HNv & HNuT & HNvT & _ & _ & HGu & HGv & _). cbn [o_cps o_bases o_rat o_dim].
  split; [|repeat split]. destruct Hx as [Lx Fx].
  apply (okn_apply_dir dim Gu nu nu [nu; nv] 0); [exact HGu|cbn; lia|cbn [prodl fold_right]; nia|].
  apply (okn_apply_dir dim Gv nv nv [nu; nv] 1); [exact HGv|cbn; lia|cbn [prodl fold_right]; nia|].
  apply (okn_apply_dir dim NuT nu lu [lu; nv] 0); [exact HNuT|cbn; lia|cbn [prodl fold_right]; nia|].
  apply (okn_apply_dir dim NvT nv lv [lu; lv] 1); [exact HNvT|cbn; lia|cbn [prodl fold_right]; nia|].
  split; [exact Fx|cbn [prodl fold_right]; lia].
Qed.

(* normal equations of the tensor-product fit, entry by entry:
     sum_{a',b'} (Nu^T Nu)[a,a'] (Nv^T Nv)[b,b'] cp[a',b']  =  sum_{i,j} Nu[i,a] Nv[j,b] x[i,j]
   i.e. the residual at the sample grid is orthogonal to every tensor-product basis function B_a(u) B_b(v) *)
Theorem surface_lsq_normal_equations a b c : (a < nu)%nat -> (b < nv)%nat -> (c < dim)%nat ->
  tsum [nth a Au []; nth b Av []] (cnet dim c (o_cps o)) = tsum [nth a NuT []; nth b NvT []] (cnet dim c x).
Proof.
  intros Ha Hb Hc.
  destruct surface_lsq_unpack as (Gu & Gv & -> & HNu & HNv & HNuT & HNvT & HAu & HAv & HGu & HGv & EU1 & EU2 & EV1 & EV2). cbn [o_cps].
  assert (RA : length (nth a Au []) = nu) by (apply (mat_row nu nu); assumption).
  assert (RB : length (nth b Av []) = nv) by (apply (mat_row nv nv); assumption).
  rewrite (surface_lsq_chain Gu Gv _ _ c HGu HGv RA RB Hc).
  rewrite <- (rowmat_unit nu nu Au a HAu Hnu Ha). rewrite <- (rowmat_unit nv nv Av b HAv Hnv Hb).
  rewrite (rowmat_assoc nu nu nu _ Au Gu (unit_row_length nu a) HAu HGu Hnu Hnu), EU1.
  rewrite (rowmat_assoc nv nv nv _ Av Gv (unit_row_length nv b) HAv HGv Hnv Hnv), EV1.
  rewrite !rowmat_ident by (try apply unit_row_length; assumption).
  rewrite (rowmat_unit nu lu NuT a HNuT Hnu Ha), (rowmat_unit nv lv NvT b HNvT Hnv Hb). reflexivity.
Qed.

(* projection: data sampled on the grid from a surface of the space (net c0) returns that surface *)
Theorem surface_lsq_projection c0 : okn dim [nu; nv] c0 ->
  x = @apply_dir R NumR dim [nu; lv] 0 Nu (@apply_dir R NumR dim [nu; nv] 1 Nv c0) -> o_cps o = c0.
Proof.
  intros Hc0 Ex. destruct surface_lsq_net as ([FO LO] & _).
  destruct surface_lsq_unpack as (Gu & Gv & EO & HNu & HNv & HNuT & HNvT & HAu & HAv & HGu & HGv & EU1 & EU2 & EV1 & EV2).
  destruct Hc0 as [F0 L0]. cbn [prodl fold_right] in LO, L0.
  apply (nth_ext _ _ (@vzero R NumR dim) (@vzero R NumR dim)); [lia|]. intros idx Hidx. rewrite LO in Hidx.
  assert (Hab : exists a b, (a < nu)%nat /\ (b < nv)%nat /\ idx = (a * nv + b)%nat).
  { exists (idx / nv)%nat, (idx mod nv)%nat. split; [apply Nat.div_lt_upper_bound; lia|]. split; [apply Nat.mod_upper_bound; lia|].
    rewrite (Nat.div_mod idx nv) at 1 by lia. lia. }
  destruct Hab as (a & b & Ha & Hb & ->).
  assert (Len1 : length (nth (a * nv + b) (o_cps o) (@vzero R NumR dim)) = dim).
  { rewrite Forall_forall in FO. apply FO, nth_In. lia. }
  assert (Len2 : length (nth (a * nv + b) c0 (@vzero R NumR dim)) = dim).
  { rewrite Forall_forall in F0. apply F0, nth_In. lia. }
  apply (nth_ext _ _ 0 0); [lia|]. intros c Hc. rewrite Len1 in Hc.
  change (cnet dim c (o_cps o) (a * nv + b)%nat = cnet dim c c0 (a * nv + b)%nat).
  rewrite <- (tsum_units2 nu nv a b (cnet dim c (o_cps o)) Ha Hb). rewrite <- (tsum_units2 nu nv a b (cnet dim c c0) Ha Hb).
  rewrite EO. cbn [o_cps].
  rewrite (surface_lsq_chain Gu Gv _ _ c HGu HGv (unit_row_length nu a) (unit_row_length nv b) Hc).
  set (A0 := rowmat (unit_row nu a) Gu). set (A1 := rowmat (unit_row nv b) Gv).
  assert (LA0 : length A0 = nu) by (apply (rowmat_length nu nu); try assumption; apply unit_row_length).
  assert (LA1 : length A1 = nv) by (apply (rowmat_length nv nv); try assumption; apply unit_row_length).
  set (B0 := rowmat A0 NuT). set (B1 := rowmat A1 NvT).
  assert (LB0 : length B0 = lu) by (apply (rowmat_length nu lu); assumption).
  assert (LB1 : length B1 = lv) by (apply (rowmat_length nv lv); assumption).
  assert (E0 : rowmat B0 Nu = unit_row nu a).
  { unfold B0. rewrite (rowmat_assoc nu lu nu A0 NuT Nu LA0 HNuT HNu Hnu Hlu). unfold A0.
    rewrite (rowmat_assoc nu nu nu _ Gu Au (unit_row_length nu a) HGu HAu Hnu Hnu), EU2. apply rowmat_ident; [apply unit_row_length|exact Hnu]. }
  assert (E1 : rowmat B1 Nv = unit_row nv b).
  { unfold B1. rewrite (rowmat_assoc nv lv nv A1 NvT Nv LA1 HNvT HNv Hnv Hlv). unfold A1.
    rewrite (rowmat_assoc nv nv nv _ Gv Av (unit_row_length nv b) HGv HAv Hnv Hnv), EV2. apply rowmat_ident; [apply unit_row_length|exact Hnv]. }
  assert (EX : cnet dim c x = cnet dim c (@apply_dir R NumR dim [nu; lv] 0 Nu (@apply_dir R NumR dim [nu; nv] 1 Nv c0)))
    by (rewrite <- Ex; reflexivity).
  rewrite EX.
  assert (Okc : okn dim [nu; nv] c0) by (split; [exact F0|cbn [prodl fold_right]; lia]).
  set (z1 := @apply_dir R NumR dim [nu; nv] 1 Nv c0).
  assert (Okz : okn dim [nu; lv] z1) by (apply (okn_apply_dir dim Nv lv nv [nu; nv] 1); [exact HNv|cbn; lia|cbn [prodl fold_right]; nia|exact Okc]).
  rewrite (tsum_step' dim c Nu lu nu [B0; B1] [unit_row nu a; B1] 0 [nu; lv] z1);
    [|cbn [upd nth]; rewrite E0; reflexivity|cbn [map length]; rewrite unit_row_length, LB1; reflexivity|cbn; lia|exact Hc|exact HNu|exact Hlu|exact LB0|exact Okz|cbn [prodl fold_right]; nia].
  unfold z1. rewrite (tsum_step' dim c Nv lv nv [unit_row nu a; B1] [unit_row nu a; unit_row nv b] 1 [nu; nv] c0);
    [|cbn [upd nth]; rewrite E1; reflexivity|cbn [map length]; rewrite !unit_row_length; reflexivity|cbn; lia|exact Hc|exact HNv|exact Hlv|exact LB1|exact Okc|cbn [prodl fold_right]; nia].
  reflexivity.
Qed.
End SurfaceLsq.

(* ================= 5. the evaluation rows at the two ends of the domain ================= *)
Section EndRows.
Variable k : list R.
Variables (p per1 : nat) (tol : R).
Hypothesis HK : sorted (kn k).
Hypothesis Hp : (1 <= p)%nat.
Hypothesis Hlen : (2 * p <= length k)%nat.
Hypothesis Htol : 0 < tol.
Local Notation K := (@kn R NumR k).
Local Notation n_all := (length k - p)%nat.
Hypothesis Hdom : tol <= K n_all - K (p - 1)%nat.        (* the domain is not shorter than the tolerance *)

Lemma normalise_start : @normalise R NumR k p per1 tol true (K (p - 1)%nat) = Some (K (p - 1)%nat, true).
Proof.
  unfold normalise, wrap_t. cbv zeta. rewrite !nabs_R. cbn [nltb nsub nadd NumR].
  set (s := K (p - 1)%nat) in *. set (e := K n_all) in *.
  assert (E1 : Rltb s s = false) by (destruct (Rltb_spec s s); [lra|reflexivity]).
  assert (E2 : Rltb e s = false) by (destruct (Rltb_spec e s); [lra|reflexivity]).
  assert (E3 : Rltb (Rabs (s - e)) tol = false).
  { destruct (Rltb_spec (Rabs (s - e)) tol) as [A|A]; [|reflexivity]. rewrite Rabs_left1 in A by lra. lra. }
  destruct (negb (per1 =? 0)%nat); cbn [negb andb]; rewrite ?E1, ?E2; cbn [orb]; rewrite ?andb_false_r, ?E3, ?E1, ?E2; cbn [orb]; rewrite ?andb_false_r; reflexivity.
Qed.

Lemma normalise_end (fr : bool) : (fr = true -> per1 = 0%nat) ->
  @normalise R NumR k p per1 tol fr (K n_all) = Some (K n_all, false).
Proof.
  intros Hfr. unfold normalise, wrap_t. cbv zeta. rewrite !nabs_R. cbn [nltb nsub nadd NumR].
  set (s := K (p - 1)%nat) in *. set (e := K n_all) in *.
  assert (E1 : Rltb e s = false) by (destruct (Rltb_spec e s); [lra|reflexivity]).
  assert (E2 : Rltb e e = false) by (destruct (Rltb_spec e e); [lra|reflexivity]).
  assert (E3 : Rltb (Rabs (e - s)) tol = false).
  { destruct (Rltb_spec (Rabs (e - s)) tol) as [A|A]; [|reflexivity]. rewrite Rabs_right in A by lra. lra. }
  assert (E4 : Rltb (Rabs (e - e)) tol = true).
  { destruct (Rltb_spec (Rabs (e - e)) tol) as [A|A]; [reflexivity|]. exfalso. apply A. replace (e - e) with 0 by ring. rewrite Rabs_R0. exact Htol. }
  destruct (Nat.eqb_spec per1 0) as [Z|Z]; cbn [negb].
  - rewrite E1, E2, E4, E3. cbn [orb andb]. reflexivity.
  - destruct fr; [exfalso; apply Z, Hfr; reflexivity|]. rewrite E1, E2. cbn [orb negb]. rewrite E3. cbn [andb]. rewrite E1, E2, E4, E3. reflexivity.
Qed.

Hypothesis Hn : (p - 1 < length k)%nat.
(* the dense rows the evaluator returns there are the property's reference rows (sums of wrapped images of dB) *)
Lemma basis_row_start (b : basis R) d : b_knots b = k -> b_order b = p -> b_per1 b = per1 -> (d < p)%nat ->
  @basis_row R NumR tol b d true (@snap1 R NumR k tol (K (p - 1)%nat)) = @ref_row R NumR true k p per1 d (K (p - 1)%nat).
Proof.
  intros E1 E2 E3 Hd. unfold basis_row. rewrite E1, E2, E3.
  pose proof (basis_evaluate_spec k p per1 HK Hp Hlen tol Htol d true [@snap1 R NumR k tol (K (p - 1)%nat)] 0 ltac:(cbn; lia)) as ES.
  cbv zeta in ES. cbn [nth] in ES. rewrite snap1_idem in ES by assumption.
  rewrite (snap1_knot k HK tol Htol (p - 1)) in ES |- * by lia.
  destruct (Nat.leb_spec p d); [lia|]. rewrite normalise_start in ES.
  destruct (@basis_evaluate R NumR k p per1 tol d true [K (p - 1)%nat]) as [|r0 rest]; cbn [hd nth] in *; [|exact ES].
  rewrite <- ES. reflexivity.
Qed.
Lemma basis_row_end (b : basis R) d fr : b_knots b = k -> b_order b = p -> b_per1 b = per1 -> (d < p)%nat ->
  (fr = true -> per1 = 0%nat) ->
  @basis_row R NumR tol b d fr (@snap1 R NumR k tol (K n_all)) = @ref_row R NumR false k p per1 d (K n_all).
Proof.
  intros E1 E2 E3 Hd Hfr. unfold basis_row. rewrite E1, E2, E3.
  pose proof (basis_evaluate_spec k p per1 HK Hp Hlen tol Htol d fr [@snap1 R NumR k tol (K n_all)] 0 ltac:(cbn; lia)) as ES.
  cbv zeta in ES. cbn [nth] in ES. rewrite snap1_idem in ES by assumption.
  rewrite (snap1_knot k HK tol Htol n_all) in ES |- * by lia.
  destruct (Nat.leb_spec p d); [lia|]. rewrite (normalise_end fr Hfr) in ES.
  destruct (@basis_evaluate R NumR k p per1 tol d fr [K n_all]) as [|r0 rest]; cbn [hd nth] in *; [|exact ES].
  rewrite <- ES. reflexivity.
Qed.
End EndRows.

(* ================= 6. cubic_curve, Boundary.PERIODIC ================= *)
Lemma last_nth (l : list R) : l <> [] -> last l 0 = nth (length l - 1) l 0.
Proof.
  induction l as [|a l IH]; intros H; [contradiction|]. destruct l as [|a' l']; [reflexivity|].
  change (last (a :: a' :: l') 0) with (last (a' :: l') 0). rewrite IH by discriminate.
  replace (length (a :: a' :: l') - 1)%nat with (S (length (a' :: l') - 1)) by (cbn [length]; lia). reflexivity.
Qed.

Section CubicPeriodic.
Variable t : list R.
Local Notation N := (length t).
Local Notation k := (@cubic_periodic_knots R NumR t).
Local Notation K := (@kn R NumR k).
Local Notation n := (N - 1)%nat.
Local Notation t0 := (hd 0 t).
Local Notation tn := (last t 0).
Hypothesis HN : (4 <= N)%nat.
Hypothesis HK : sorted K.
Hypothesis Hfirst : t0 < nth 1 t 0.                  (* the first and the last interval are not empty *)
Hypothesis Hlast : nth (N - 2) t 0 < tn.

Lemma cpk_length : length k = (N + 6)%nat.
Proof. unfold cubic_periodic_knots. cbv zeta. rewrite !app_length. cbn [length]. lia. Qed.
Lemma cpk_nfun : @b_nfun R (@cubic_periodic_basis R NumR t) = n.
Proof. unfold b_nfun, cubic_periodic_basis. cbn [b_knots b_order b_per1]. rewrite cpk_length. lia. Qed.
Lemma t0_nth : t0 = nth 0 t 0. Proof. destruct t; reflexivity. Qed.
Lemma tn_nth : tn = nth (N - 1) t 0. Proof. apply last_nth. destruct t; [cbn in HN; lia|discriminate]. Qed.

Lemma cpk_lo j : (j < 3)%nat -> K j = t0 + nth (N - 4 + j) t 0 - tn.
Proof.
  intros Hj. rewrite (kn_in k j ltac:(rewrite cpk_length; lia) 0). unfold cubic_periodic_knots. cbv zeta. cbn [nsub nadd NumR].
  destruct j as [|[|[|j]]]; [| | |lia]; cbn [app nth].
  - replace (N - 4 + 0)%nat with (N - 4)%nat by lia. reflexivity.
  - replace (N - 4 + 1)%nat with (N - 3)%nat by lia. reflexivity.
  - replace (N - 4 + 2)%nat with (N - 2)%nat by lia. reflexivity.
Qed.
Lemma cpk_mid j : (j < N)%nat -> K (3 + j) = nth j t 0.
Proof.
  intros Hj. rewrite (kn_in k (3 + j) ltac:(rewrite cpk_length; lia) 0). unfold cubic_periodic_knots. cbv zeta.
  cbn [app Nat.add nth]. apply app_nth1. exact Hj.
Qed.
Lemma cpk_hi j : (j < 3)%nat -> K (N + 3 + j) = tn + nth (1 + j) t 0 - t0.
Proof.
  intros Hj. rewrite (kn_in k (N + 3 + j) ltac:(rewrite cpk_length; lia) 0). unfold cubic_periodic_knots. cbv zeta. cbn [nsub nadd NumR].
  replace (N + 3 + j)%nat with (3 + (N + j))%nat by lia. cbn [app Nat.add nth].
  rewrite app_nth2 by lia. replace (N + j - N)%nat with j by lia.
  destruct j as [|[|[|j]]]; [| | |lia]; cbn [nth]; reflexivity.
Qed.

Lemma cpk_start : K 3 = t0. Proof. change 3%nat with (3 + 0)%nat. rewrite cpk_mid by lia. symmetry. apply t0_nth. Qed.
Lemma cpk_end : K (N + 2) = tn. Proof. replace (N + 2)%nat with (3 + (N - 1))%nat by lia. rewrite cpk_mid by lia. symmetry. apply tn_nth. Qed.

(* the ghost knots are exact periodic images: the knot vector has period tn - t0 over n = N - 1 functions *)
Lemma cpk_periodic i : (i + n <= n + 2 + 3 + 1)%nat -> K (i + n) = K i + (tn - t0).
Proof.
  intros Hi. assert (Hi' : (i <= 6)%nat) by lia.
  destruct (Nat.lt_ge_cases i 3) as [L|L].
  - rewrite (cpk_lo i L). replace (i + n)%nat with (3 + (N - 4 + i))%nat by lia. rewrite cpk_mid by lia. ring.
  - destruct (Nat.eq_dec i 3) as [->|Ne].
    + replace (3 + n)%nat with (N + 2)%nat by lia. rewrite cpk_end, cpk_start. ring.
    + replace (i + n)%nat with (N + 3 + (i - 4))%nat by lia. rewrite cpk_hi by lia.
      replace i with (3 + (1 + (i - 4)))%nat at 2 by lia. rewrite cpk_mid by lia. ring.
Qed.

(* closed C2 at the level of the rows the evaluator returns: the row of r-th derivatives from the right at t0 equals the
   row from the left at tn, column by column, r = 0, 1, 2 *)
Theorem cubic_periodic_seam_rows r : (r <= 2)%nat ->
  @ref_row R NumR true k 4 3 r t0 = @ref_row R NumR false k 4 3 r tn.
Proof.
  intros Hr. unfold ref_row. cbv zeta. rewrite cpk_length.
  replace (N + 6 - 4 - 3)%nat with n by lia. replace (N + 6 - 4)%nat with (n + 2 + 1)%nat by lia.
  apply map_ext. intros c. cbn [nadd n0 NumR]. change (4 - 1)%nat with 3%nat.
  rewrite (fold_cond_sum (fun i => (i mod n =? c)%nat) (fun i => @dBq R NumR true K r 3 i t0)).
  rewrite (fold_cond_sum (fun i => (i mod n =? c)%nat) (fun i => @dBq R NumR false K r 3 i tn)).
  f_equal.
  pose proof (seam_derivatives_list K HK 3 n 2 (tn - t0) ltac:(lia) ltac:(lia) cpk_periodic
                (fun i => if (i mod n =? c)%nat then 1 else 0)) as Q.
  assert (Hc : forall i, (if ((i + n) mod n =? c)%nat then 1 else 0) = (if (i mod n =? c)%nat then 1 else 0)).
  { intros i. replace (i + n)%nat with (i + 1 * n)%nat by lia. rewrite Nat.mod_add by lia. reflexivity. }
  specialize (Q Hc).
  assert (S1 : K 2 < K 3).
  { rewrite cpk_start, (cpk_lo 2) by lia. replace (N - 4 + 2)%nat with (N - 2)%nat by lia. lra. }
  assert (S3 : K 3 < K 4).
  { rewrite cpk_start. change 4%nat with (3 + 1)%nat. rewrite cpk_mid by lia. exact Hfirst. }
  specialize (Q S1 eq_refl S3 r Hr). rewrite cpk_start in Q. replace (3 + n)%nat with (N + 2)%nat in Q by lia. rewrite cpk_end in Q.
  etransitivity; [|etransitivity; [exact Q|]]; apply sumf_ext; intros i _; rewrite dBq_R;
    destruct (i mod n =? c)%nat; ring.
Qed.
End CubicPeriodic.

Lemma nth_removelast {A} (l : list A) i d : (i < length l - 1)%nat -> nth i (removelast l) d = nth i l d.
Proof. intros H. rewrite removelast_firstn_len. apply nth_firstn_lt. lia. Qed.
Lemma length_removelast {A} (l : list A) : length (removelast l) = (length l - 1)%nat.
Proof. rewrite removelast_firstn_len, firstn_length. lia. Qed.

Section CubicPeriodicObj.
Variables (tol : R) (t : list R) (x : list (list R)) (o : obj R).
Hypothesis Hres : @cubic_periodic R NumR tol t x = Ok o.
Local Notation N := (length t).
Local Notation k := (@cubic_periodic_knots R NumR t).
Local Notation b := (@cubic_periodic_basis R NumR t).
Local Notation n := (N - 1)%nat.
Local Notation dim := (length (hd [] x)).
Local Notation A := (@colloc R NumR tol b 0 (removelast t)).
Hypothesis HN : (4 <= N)%nat.
Hypothesis HK : sorted (kn k).
Hypothesis Hfirst : hd 0 t < nth 1 t 0.
Hypothesis Hlast : nth (N - 2) t 0 < last t 0.
Hypothesis Htol : 0 < tol.
Hypothesis Hdom : tol <= last t 0 - hd 0 t.
Hypothesis Hx : length x = N.

Lemma cubic_periodic_obj : o_bases o = [b] /\ o_rat o = false /\ o_dim o = dim /\
  @matmul R NumR A (o_cps o) = removelast x /\ mat n dim (o_cps o) /\ mat n n A.
Proof.
  unfold cubic_periodic in Hres. cbv zeta in Hres.
  destruct (@solve_shaped R NumR A (removelast x)) as [cp|e] eqn:E; [|discriminate]. injection Hres as <-. cbn [o_bases o_rat o_dim o_cps].
  apply solve_shaped_spec in E. destruct E as [E1 E2].
  pose proof (colloc_mat tol b 0 (removelast t)) as HA. rewrite length_removelast, (cpk_nfun t HN) in HA.
  destruct HA as [LA FA]. rewrite LA in E2.
  assert (Eh : hd [] (removelast x) = hd [] x).
  { destruct x as [|x0 [|x1 xr]]; [cbn in Hx; lia|cbn in Hx; lia|reflexivity]. }
  rewrite Eh in E2. split; [reflexivity|]. split; [reflexivity|]. split; [reflexivity|]. split; [exact E1|]. split; [exact E2|]. split; assumption.
Qed.

(* the closed curve passes through x_i at t_i (the closing point x_{N-1} = x_0 is reached at t_{N-1} by periodicity) *)
Theorem cubic_periodic_passes_through i v : (i < n)%nat ->
  @obj_eval R NumR tol o [nth i t 0] = Ok v -> forall c, (c < dim)%nat -> coord c v = nth c (nth i x []) 0.
Proof.
  intros Hi Hev c Hc. destruct cubic_periodic_obj as (Eb & Er & Ed & E & Hcp & HA).
  unfold obj_eval in Hev. rewrite Eb in Hev. cbn [validate hd tl] in Hev.
  destruct (@validate1 R NumR tol b (nth i t 0)) as [t'|e] eqn:EV; [|discriminate].
  assert (Et' : t' = @snap1 R NumR (b_knots b) tol (nth i t 0)).
  { unfold validate1 in EV. cbv zeta in EV. destruct (_ && _); [discriminate|]. injection EV as <-. reflexivity. }
  rewrite Er in Hev. injection Hev as <-.
  unfold eval_h, rows_at, o_ncomp. rewrite Eb, Er, Ed. cbn [length seq map nth]. rewrite Nat.add_0_r, Et'.
  rewrite <- (nth_removelast t i 0) by lia.
  rewrite <- (colloc_row tol b 0 (removelast t) i HK Htol) by (rewrite length_removelast; lia).
  destruct Hcp as [Lcp Fcp].
  rewrite teval_curve; [|exact Fcp|rewrite (mat_row n n A i HA Hi); exact Lcp|exact Hc].
  rewrite (matmul_row_lc n n dim A (o_cps o) i c HA (conj Lcp Fcp)) by (try assumption; lia).
  rewrite E. unfold ment. rewrite nth_removelast by lia. reflexivity.
Qed.

(* closed C2: value, first and second derivative of the returned curve from the right at the start t0 equal those from
   the left at the end tn *)
Theorem cubic_periodic_closed_C2 r : (r <= 2)%nat ->
  exists v, @obj_deriv R NumR tol o [r] [true] [hd 0 t] = Ok v /\ @obj_deriv R NumR tol o [r] [false] [last t 0] = Ok v.
Proof.
  intros Hr. destruct cubic_periodic_obj as (Eb & Er & Ed & _).
  pose proof (cpk_length t HN) as Lk.
  assert (Hdom' : tol <= @kn R NumR k (length k - 4) - @kn R NumR k (4 - 1)).
  { rewrite Lk. replace (N + 6 - 4)%nat with (N + 2)%nat by lia. change (4 - 1)%nat with 3%nat.
    rewrite (cpk_end t HN HK Hfirst Hlast), (cpk_start t HN HK Hfirst Hlast). exact Hdom. }
  pose proof (basis_row_start k 4 3 tol HK ltac:(lia) ltac:(rewrite Lk; lia) Htol Hdom' ltac:(rewrite Lk; lia) b r eq_refl eq_refl eq_refl ltac:(lia)) as RS.
  pose proof (basis_row_end k 4 3 tol HK ltac:(lia) ltac:(rewrite Lk; lia) Htol Hdom' ltac:(rewrite Lk; lia) b r false eq_refl eq_refl eq_refl ltac:(lia) ltac:(discriminate)) as RE.
  change (4 - 1)%nat with 3%nat in RS. rewrite (cpk_start t HN HK Hfirst Hlast) in RS.
  rewrite Lk in RE. replace (N + 6 - 4)%nat with (N + 2)%nat in RE by lia. rewrite (cpk_end t HN HK Hfirst Hlast) in RE.
  eexists. unfold obj_deriv. rewrite Eb, Er. cbn [validate hd tl]. unfold validate1. cbv zeta. cbn [b_per1 cubic_periodic_basis Nat.eqb andb].
  unfold eval_h, rows_at. rewrite Eb. cbn [length seq map nth b_knots].
  change (b_knots b) with k. rewrite RS, RE. rewrite (cubic_periodic_seam_rows t HN HK Hfirst Hlast r Hr). split; reflexivity.
Qed.
End CubicPeriodicObj.

(* ================= 7. manipulate ================= *)
Lemma eval_all_spec tol (o : obj R) : forall ts xs, @eval_all R NumR tol o ts = Ok xs ->
  length xs = length ts /\ forall i, (i < length ts)%nat -> @obj_eval R NumR tol o [nth i ts 0] = Ok (nth i xs []).
Proof.
  induction ts as [|t ts IH]; intros xs H; cbn [eval_all] in H.
  - injection H as <-. split; [reflexivity|]. intros i Hi. cbn in Hi. lia.
  - destruct (@obj_eval R NumR tol o [t]) as [p|e] eqn:E; [|discriminate].
    destruct (@eval_all R NumR tol o ts) as [ps|e]; [|discriminate]. injection H as <-.
    destruct (IH ps eq_refl) as [L Hn]. split; [cbn [length]; lia|].
    intros i Hi. destruct i as [|i]; cbn [nth]; [exact E|]. apply Hn. cbn in Hi. lia.
Qed.

(* manipulate(crv, f) interpolates the expression f(x, t) of the curve point x = crv(t) at the Greville points *)
Theorem manipulate_interpolates tol (crv : obj R) (f : list R -> R -> list R) d o i p v :
  @manipulate_xt R NumR tol crv f = Ok o ->
  let b := hd (@dflt_bas R) (o_bases crv) in
  (0 < @b_nfun R b)%nat -> sorted (kn (b_knots b)) -> 0 < tol -> (forall q s, length (f q s) = d) ->
  (i < @b_nfun R b)%nat ->
  let g := nth i (@greville_all R NumR b) 0 in
  @obj_eval R NumR tol crv [g] = Ok p -> @obj_eval R NumR tol o [g] = Ok v ->
  forall c, (c < d)%nat -> coord c v = nth c (f p g) 0.
Proof.
  intros H b Hn HK Htol Hf Hi g Hp Hv c Hc. unfold manipulate_xt in H. cbv zeta in H. fold b in H.
  destruct (@eval_all R NumR tol crv (@greville_all R NumR b)) as [xs|e] eqn:E; [|discriminate].
  destruct (eval_all_spec tol crv _ xs E) as [L Hx]. rewrite greville_all_length in L, Hx.
  set (dest := map (fun xt : list R * R => f (fst xt) (snd xt)) (combine xs (@greville_all R NumR b))) in *.
  assert (Ld : length dest = @b_nfun R b) by (unfold dest; rewrite map_length, combine_length, L, greville_all_length; lia).
  assert (Hhd : length (hd [] dest) = d).
  { destruct dest as [|d0 dr] eqn:ED; [cbn in Ld; lia|]. cbn [hd].
    assert (I : In d0 dest) by (rewrite ED; left; reflexivity). unfold dest in I. apply in_map_iff in I. destruct I as (xt & <- & _). apply Hf. }
  assert (Md : mat (@b_nfun R b) (length (hd [] dest)) dest).
  { split; [exact Ld|]. rewrite Hhd. apply Forall_forall. intros r Hr. unfold dest in Hr. apply in_map_iff in Hr. destruct Hr as (xt & <- & _). apply Hf. }
  rewrite (interp_eval tol b (@greville_all R NumR b) dest o H (greville_all_length b) Hn Md i v HK Htol Hi Hv c) by (rewrite Hhd; exact Hc).
  f_equal. unfold dest.
  rewrite (nth_map_gen _ (combine xs (@greville_all R NumR b)) i [] ([], 0)) by (rewrite combine_length, L, greville_all_length; lia).
  rewrite combine_nth by (rewrite L, greville_all_length; reflexivity). cbn [fst snd].
  specialize (Hx i Hi). fold g in Hx. rewrite Hp in Hx. injection Hx as <-. reflexivity.
Qed.

(* ================= 8. derivative() at the ends of a non-periodic curve is the defining sum of the derivative
   recurrence dB (from the right at the start, from the left at the end) ================= *)
Section CurveEndsSpec.
Variables (tol : R) (o : obj R) (b : basis R).
Local Notation k := (b_knots b).
Local Notation p := (b_order b).
Local Notation K := (@kn R NumR k).
Local Notation n := (@b_nfun R b).
Hypothesis Eb : o_bases o = [b].
Hypothesis Er : o_rat o = false.
Hypothesis Eper : b_per1 b = 0%nat.
Hypothesis HK : sorted K.
Hypothesis Hp : (1 <= p)%nat.
Hypothesis Hlen : (2 * p <= length k)%nat.
Hypothesis Htol : 0 < tol.
Hypothesis Hdom : tol <= K (length k - p)%nat - K (p - 1)%nat.
Hypothesis Hcp : mat n (o_dim o) (o_cps o).

Lemma ref_row_nonperiodic side d t c : (c < length k - p)%nat ->
  nth c (@ref_row R NumR side k p 0 d t) 0 = dB side K d (p - 1) c t.
Proof.
  intros Hc. rewrite ref_row_entry by lia. rewrite Nat.sub_0_r.
  rewrite (sumf_ext _ (fun i => if (c =? i)%nat then dB side K d (p - 1) c t else 0)).
  - apply sumf_indicator. lia.
  - intros i Hi. rewrite Nat.mod_small by lia. rewrite Nat.eqb_sym. destruct (Nat.eqb_spec c i) as [->|]; reflexivity.
Qed.

Lemma curve_end_core side d t c : (c < o_dim o)%nat ->
  coord c (@teval R NumR (o_dim o) [@ref_row R NumR side k p 0 d t] (o_cps o))
  = sumf (fun i => dB side K d (p - 1) i t * coord c (nth i (o_cps o) [])) 0 n.
Proof.
  intros Hc. destruct Hcp as [Lcp Fcp].
  assert (En : n = (length k - p)%nat) by (unfold b_nfun; rewrite Eper; lia).
  assert (Lr : length (@ref_row R NumR side k p 0 d t) = n) by (rewrite ref_row_length, En; lia).
  rewrite teval_curve; [|exact Fcp|lia|exact Hc]. rewrite lc_rowsum by lia. rewrite Lr.
  apply sumf_ext. intros i Hi. rewrite ref_row_nonperiodic by lia. reflexivity.
Qed.

Theorem curve_deriv_start_spec d v : (d < p)%nat -> @obj_deriv R NumR tol o [d] [true] [K (p - 1)%nat] = Ok v ->
  forall c, (c < o_dim o)%nat ->
  coord c v = sumf (fun i => dB true K d (p - 1) i (K (p - 1)%nat) * coord c (nth i (o_cps o) [])) 0 n.
Proof.
  intros Hd Hev c Hc. unfold obj_deriv in Hev. rewrite Eb, Er in Hev. cbn [validate hd tl] in Hev.
  destruct (@validate1 R NumR tol b (K (p - 1)%nat)) as [t'|e] eqn:EV; [|discriminate].
  assert (Et' : t' = @snap1 R NumR k tol (K (p - 1)%nat)).
  { unfold validate1 in EV. cbv zeta in EV. destruct (_ && _); [discriminate|]. injection EV as <-. reflexivity. }
  injection Hev as <-. unfold eval_h, rows_at, o_ncomp. rewrite Eb, Er. cbn [length seq map nth]. rewrite Nat.add_0_r, Et'.
  rewrite (basis_row_start k p 0 tol HK Hp Hlen Htol Hdom ltac:(lia) b d eq_refl eq_refl Eper Hd).
  apply curve_end_core. exact Hc.
Qed.

Theorem curve_deriv_end_spec d v : (d < p)%nat -> @obj_deriv R NumR tol o [d] [true] [K (length k - p)%nat] = Ok v ->
  forall c, (c < o_dim o)%nat ->
  coord c v = sumf (fun i => dB false K d (p - 1) i (K (length k - p)%nat) * coord c (nth i (o_cps o) [])) 0 n.
Proof.
  intros Hd Hev c Hc. unfold obj_deriv in Hev. rewrite Eb, Er in Hev. cbn [validate hd tl] in Hev.
  destruct (@validate1 R NumR tol b (K (length k - p)%nat)) as [t'|e] eqn:EV; [|discriminate].
  assert (Et' : t' = @snap1 R NumR k tol (K (length k - p)%nat)).
  { unfold validate1 in EV. cbv zeta in EV. destruct (_ && _); [discriminate|]. injection EV as <-. reflexivity. }
  injection Hev as <-. unfold eval_h, rows_at, o_ncomp. rewrite Eb, Er. cbn [length seq map nth]. rewrite Nat.add_0_r, Et'.
  rewrite (basis_row_end k p 0 tol HK Hp Hlen Htol Hdom ltac:(lia) b d true eq_refl eq_refl Eper Hd (fun _ => eq_refl)).
  apply curve_end_core. exact Hc.
Qed.
Lemma curve_deriv_ends_defined d :
  (exists v, @obj_deriv R NumR tol o [d] [true] [K (p - 1)%nat] = Ok v) /\
  (exists v, @obj_deriv R NumR tol o [d] [true] [K (length k - p)%nat] = Ok v).
Proof.
  assert (Hse : K (p - 1)%nat <= K (length k - p)%nat) by (apply HK; lia).
  split; [exists (@eval_h R NumR tol o [d] [true] [K (p - 1)%nat])|exists (@eval_h R NumR tol o [d] [true] [K (length k - p)%nat])];
    unfold obj_deriv; rewrite Eb, Er; cbn [validate hd tl]; unfold validate1; cbv zeta; unfold b_start, b_end.
  - rewrite (snap1_knot k HK tol Htol (p - 1)) by lia. cbn [nltb NumR].
    destruct (Rltb_spec (K (p - 1)%nat) (K (p - 1)%nat)); [lra|]. destruct (Rltb_spec (K (length k - p)%nat) (K (p - 1)%nat)); [lra|].
    cbn [orb]. rewrite andb_false_r. reflexivity.
  - rewrite (snap1_knot k HK tol Htol (length k - p)) by lia. cbn [nltb NumR].
    destruct (Rltb_spec (K (length k - p)%nat) (K (p - 1)%nat)); [lra|]. destruct (Rltb_spec (K (length k - p)%nat) (K (length k - p)%nat)); [lra|].
    cbn [orb]. rewrite andb_false_r. reflexivity.
Qed.
End CurveEndsSpec.

(* ================= 9. cubic_curve end conditions as identities between the control points and the derivative
   recurrence (NATURAL, TANGENT, TANGENTNATURAL: knots = [t0]*3 + t + [tn]*3) ================= *)
Section CubicSpec.
Variables (tol : R) (bt : nat) (t : list R) (x tang : list (list R)) (o : obj R).
Hypothesis Hres : @cubic_curve R NumR tol bt t x tang = Ok o.
Hypothesis Hbt : In bt [1; 4; 5]%nat.
Hypothesis Hx : length x = length t.
Hypothesis Ht : (2 <= length t)%nat.
Hypothesis Hsorted : sorted (kn (@cubic_knots R NumR bt t)).
Hypothesis Htol : 0 < tol.
Hypothesis Hdom : tol <= last t 0 - hd 0 t.
Local Notation N := (length t).
Local Notation k := (@cubic_knots R NumR bt t).
Local Notation K := (@kn R NumR k).
Local Notation b := (mkBasis 4 k 0).
Local Notation dim := (length (hd [] x)).
Local Notation cp := (fun (i c : nat) => coord c (nth i (o_cps o) [])).

Lemma cubic_base_knots : k = repeat (hd 0 t) 3 ++ t ++ repeat (last t 0) 3.
Proof. unfold cubic_knots. cbv zeta. cbn [In] in Hbt. destruct Hbt as [<-|[<-|[<-|[]]]]; reflexivity. Qed.
Lemma cubic_base_length : length k = (N + 6)%nat.
Proof. rewrite cubic_base_knots, !app_length, !repeat_length. lia. Qed.
Lemma cubic_base_start : K 3 = hd 0 t.
Proof.
  rewrite (kn_in k 3 ltac:(rewrite cubic_base_length; lia) 0), cubic_base_knots.
  rewrite app_nth2 by (rewrite repeat_length; lia). rewrite repeat_length. cbn [Nat.sub].
  rewrite app_nth1 by lia. destruct t; [cbn in Ht; lia|reflexivity].
Qed.
Lemma cubic_base_end : K (N + 2) = last t 0.
Proof.
  rewrite (kn_in k (N + 2) ltac:(rewrite cubic_base_length; lia) 0), cubic_base_knots.
  rewrite app_nth2 by (rewrite repeat_length; lia). rewrite repeat_length.
  rewrite app_nth1 by lia. replace (N + 2 - 3)%nat with (N - 1)%nat by lia. symmetry. apply last_nth.
  destruct t; [cbn in Ht; lia|discriminate].
Qed.

Lemma cubic_spec_setup :
  In bt [0; 1; 2; 4; 5]%nat /\ (bt = 2%nat -> length tang = N) /\ @b_nfun R b = (N + 2)%nat /\
  tol <= K (length k - 4) - K (4 - 1).
Proof.
  split; [cbn [In] in *; tauto|]. split; [intros E; cbn [In] in Hbt; lia|]. split.
  - unfold b_nfun. cbn [b_knots b_order b_per1]. rewrite cubic_base_length. lia.
  - rewrite cubic_base_length. replace (N + 6 - 4)%nat with (N + 2)%nat by lia. change (4 - 1)%nat with 3%nat.
    rewrite cubic_base_start, cubic_base_end. exact Hdom.
Qed.

(* the value the curve's d-th derivative takes at the start (from the right) and at the end (from the left) *)
Lemma cubic_deriv_ends_spec d : (d < 4)%nat -> exists v0 vn,
  @obj_deriv R NumR tol o [d] [true] [hd 0 t] = Ok v0 /\ @obj_deriv R NumR tol o [d] [true] [last t 0] = Ok vn /\
  (forall c, (c < dim)%nat -> coord c v0 = sumf (fun i => dB true K d 3 i (hd 0 t) * cp i c) 0 (N + 2)) /\
  (forall c, (c < dim)%nat -> coord c vn = sumf (fun i => dB false K d 3 i (last t 0) * cp i c) 0 (N + 2)).
Proof.
  intros Hd. destruct cubic_spec_setup as (Hbt' & Htang & En & Hdom').
  destruct (cubic_obj tol bt t x tang o Hres Hbt' Hx Ht Hsorted Htang) as (Eb & Er & Ed & Hcp).
  rewrite <- Ed in Hcp.
  assert (Hlen : (2 * b_order b <= length (b_knots b))%nat) by (cbn [b_order b_knots]; rewrite cubic_base_length; lia).
  destruct (curve_deriv_ends_defined tol o b Eb Er eq_refl Hsorted ltac:(cbn; lia) Hlen Htol d) as [[v0 E0] [vn En']].
  pose proof (curve_deriv_start_spec tol o b Eb Er eq_refl Hsorted ltac:(cbn; lia) Hlen Htol Hdom' Hcp d v0 Hd E0) as S0.
  pose proof (curve_deriv_end_spec tol o b Eb Er eq_refl Hsorted ltac:(cbn; lia) Hlen Htol Hdom' Hcp d vn Hd En') as Sn.
  cbn [b_knots b_order] in E0, En', S0, Sn. rewrite En in S0, Sn. rewrite Ed in S0, Sn.
  change (4 - 1)%nat with 3%nat in E0, S0, Sn. rewrite cubic_base_length in En', Sn. replace (N + 6 - 4)%nat with (N + 2)%nat in En', Sn by lia.
  rewrite cubic_base_start in E0, S0. rewrite cubic_base_end in En', Sn.
  exists v0, vn. repeat split; assumption.
Qed.

(* NATURAL: sum_i c_i B_i''(t0+) = 0 and sum_i c_i B_i''(tn-) = 0 *)
Theorem cubic_natural_spec c : bt = 1%nat -> (c < dim)%nat ->
  sumf (fun i => dB true K 2 3 i (hd 0 t) * cp i c) 0 (N + 2) = 0 /\
  sumf (fun i => dB false K 2 3 i (last t 0) * cp i c) 0 (N + 2) = 0.
Proof.
  intros E Hc. destruct cubic_spec_setup as (Hbt' & Htang & _).
  destruct (cubic_deriv_ends_spec 2 ltac:(lia)) as (v0 & vn & E0 & En & S0 & Sn).
  destruct (cubic_natural_ends tol bt t x tang o Hres Hbt' Hx Ht Hsorted Htol Htang v0 E) as [A _].
  destruct (cubic_natural_ends tol bt t x tang o Hres Hbt' Hx Ht Hsorted Htol Htang vn E) as [_ B].
  rewrite <- (S0 c Hc), <- (Sn c Hc). split; [apply A|apply B]; assumption.
Qed.

(* TANGENT: sum_i c_i B_i'(t0+) = tangent_0 and sum_i c_i B_i'(tn-) = tangent_1 *)
Theorem cubic_tangent_spec c : bt = 4%nat -> length tang = 2%nat -> (c < dim)%nat ->
  sumf (fun i => dB true K 1 3 i (hd 0 t) * cp i c) 0 (N + 2) = nth c (nth 0 tang []) 0 /\
  sumf (fun i => dB false K 1 3 i (last t 0) * cp i c) 0 (N + 2) = nth c (nth 1 tang []) 0.
Proof.
  intros E Lt Hc. destruct cubic_spec_setup as (Hbt' & Htang & _).
  destruct (cubic_deriv_ends_spec 1 ltac:(lia)) as (v0 & vn & E0 & En & S0 & Sn).
  destruct (cubic_tangent_ends tol bt t x tang o Hres Hbt' Hx Ht Hsorted Htol Htang v0 E Lt) as [A _].
  destruct (cubic_tangent_ends tol bt t x tang o Hres Hbt' Hx Ht Hsorted Htol Htang vn E Lt) as [_ B].
  rewrite <- (S0 c Hc), <- (Sn c Hc). split; [apply A|apply B]; assumption.
Qed.

(* TANGENTNATURAL *)
Theorem cubic_tangentnatural_spec c : bt = 5%nat -> length tang = 1%nat -> (c < dim)%nat ->
  sumf (fun i => dB true K 1 3 i (hd 0 t) * cp i c) 0 (N + 2) = nth c (nth 0 tang []) 0 /\
  sumf (fun i => dB false K 2 3 i (last t 0) * cp i c) 0 (N + 2) = 0.
Proof.
  intros E Lt Hc. destruct cubic_spec_setup as (Hbt' & Htang & _).
  destruct (cubic_deriv_ends_spec 1 ltac:(lia)) as (v0 & _ & E0 & _ & S0 & _).
  destruct (cubic_deriv_ends_spec 2 ltac:(lia)) as (_ & vn & _ & En & _ & Sn).
  destruct (cubic_tangentnatural_ends tol bt t x tang o Hres Hbt' Hx Ht Hsorted Htol Htang v0 E Lt) as [A _].
  destruct (cubic_tangentnatural_ends tol bt t x tang o Hres Hbt' Hx Ht Hsorted Htol Htang vn E Lt) as [_ B].
  rewrite <- (S0 c Hc), <- (Sn c Hc). split; [apply A|apply B]; assumption.
Qed.
End CubicSpec.

(* ================= 10. least squares for volumes ================= *)
Section VolumeLsq.
Variables (tol : R) (bu bv bw : basis R) (us vs ws : list R) (x : list (list R)) (o : obj R).
Hypothesis Hres : @volume_lsq R NumR tol bu bv bw us vs ws x = Ok o.
Local Notation nu := (@b_nfun R bu).
Local Notation nv := (@b_nfun R bv).
Local Notation nw := (@b_nfun R bw).
Local Notation lu := (length us).
Local Notation lv := (length vs).
Local Notation lw := (length ws).
Local Notation Nu := (@colloc R NumR tol bu 0 us).
Local Notation Nv := (@colloc R NumR tol bv 0 vs).
Local Notation Nw := (@colloc R NumR tol bw 0 ws).
Local Notation NuT := (@transpose R NumR nu Nu).
Local Notation NvT := (@transpose R NumR nv Nv).
Local Notation NwT := (@transpose R NumR nw Nw).
Local Notation Au := (@matmul R NumR NuT Nu).
Local Notation Av := (@matmul R NumR NvT Nv).
Local Notation Aw := (@matmul R NumR NwT Nw).
Local Notation dim := (length (hd [] x)).
Hypothesis Hnu : (0 < nu)%nat.
Hypothesis Hnv : (0 < nv)%nat.
Hypothesis Hnw : (0 < nw)%nat.
Hypothesis Hlu : (0 < lu)%nat.
Hypothesis Hlv : (0 < lv)%nat.
Hypothesis Hlw : (0 < lw)%nat.
Hypothesis Hx : mat (lu * lv * lw) dim x.

Local Notation fit := (fun Gu Gv Gw : list (list R) =>
  @apply_dir R NumR dim [nu; nv; nw] 0 Gu (@apply_dir R NumR dim [nu; nv; nw] 1 Gv (@apply_dir R NumR dim [nu; nv; nw] 2 Gw
    (@apply_dir R NumR dim [lu; nv; nw] 0 NuT (@apply_dir R NumR dim [lu; lv; nw] 1 NvT (@apply_dir R NumR dim [lu; lv; lw] 2 NwT x)))))).

Lemma volume_lsq_unpack : exists Gu Gv Gw,
  o = mkObj [bu; bv; bw] (fit Gu Gv Gw) dim false /\
  (mat lu nu Nu /\ mat lv nv Nv /\ mat lw nw Nw) /\ (mat nu lu NuT /\ mat nv lv NvT /\ mat nw lw NwT) /\
  (mat nu nu Au /\ mat nv nv Av /\ mat nw nw Aw) /\ (mat nu nu Gu /\ mat nv nv Gv /\ mat nw nw Gw) /\
  (@matmul R NumR Au Gu = @ident R NumR nu /\ @matmul R NumR Av Gv = @ident R NumR nv /\ @matmul R NumR Aw Gw = @ident R NumR nw) /\
  (@matmul R NumR Gu Au = @ident R NumR nu /\ @matmul R NumR Gv Av = @ident R NumR nv /\ @matmul R NumR Gw Aw = @ident R NumR nw).
Proof.
  unfold volume_lsq in Hres. cbv zeta in Hres.
  destruct (@inverse R NumR Aw) as [Gw|e] eqn:EW; [|discriminate].
  destruct (@inverse R NumR Av) as [Gv|e] eqn:EV; [|discriminate].
  destruct (@inverse R NumR Au) as [Gu|e] eqn:EU; [|discriminate].
  exists Gu, Gv, Gw. split; [injection Hres as <-; reflexivity|].
  pose proof (colloc_mat tol bu 0 us) as HNu. pose proof (colloc_mat tol bv 0 vs) as HNv. pose proof (colloc_mat tol bw 0 ws) as HNw.
  pose proof (transpose_mat lu nu Nu HNu) as HNuT. pose proof (transpose_mat lv nv Nv HNv) as HNvT. pose proof (transpose_mat lw nw Nw HNw) as HNwT.
  pose proof (matmul_mat nu lu nu NuT Nu HNuT HNu Hlu) as HAu. pose proof (matmul_mat nv lv nv NvT Nv HNvT HNv Hlv) as HAv.
  pose proof (matmul_mat nw lw nw NwT Nw HNwT HNw Hlw) as HAw.
  assert (LU : length Au = nu) by (destruct HAu; assumption). assert (LV : length Av = nv) by (destruct HAv; assumption).
  assert (LW : length Aw = nw) by (destruct HAw; assumption).
  apply inverse_spec in EU. rewrite LU in EU. destruct EU as (EU1 & EU2 & HGu).
  apply inverse_spec in EV. rewrite LV in EV. destruct EV as (EV1 & EV2 & HGv).
  apply inverse_spec in EW. rewrite LW in EW. destruct EW as (EW1 & EW2 & HGw).
  exact (conj (conj HNu (conj HNv HNw)) (conj (conj HNuT (conj HNvT HNwT)) (conj (conj HAu (conj HAv HAw))
        (conj (conj HGu (conj HGv HGw)) (conj (conj EU1 (conj EV1 EW1)) (conj EU2 (conj EV2 EW2))))))).
Qed.

Lemma volume_lsq_chain Gu Gv Gw R0 R1 R2 c :
  mat nu nu Gu -> mat nv nv Gv -> mat nw nw Gw -> length R0 = nu -> length R1 = nv -> length R2 = nw -> (c < dim)%nat ->
  tsum [R0; R1; R2] (cnet dim c (fit Gu Gv Gw))
  = tsum [rowmat (rowmat R0 Gu) NuT; rowmat (rowmat R1 Gv) NvT; rowmat (rowmat R2 Gw) NwT] (cnet dim c x).
Proof.
  intros HGu HGv HGw L0 L1 L2 Hc.
  pose proof (colloc_mat tol bu 0 us) as HNu. pose proof (colloc_mat tol bv 0 vs) as HNv. pose proof (colloc_mat tol bw 0 ws) as HNw.
  pose proof (transpose_mat lu nu Nu HNu) as HNuT. pose proof (transpose_mat lv nv Nv HNv) as HNvT. pose proof (transpose_mat lw nw Nw HNw) as HNwT.
  destruct Hx as [Lx Fx].
  assert (PP : forall a b c0 : nat, (0 < a)%nat -> (0 < b)%nat -> (0 < c0)%nat -> (0 < prodl [a; b; c0])%nat) by (intros; cbn [prodl fold_right]; nia).
  assert (Ok0 : okn dim [lu; lv; lw] x) by (split; [exact Fx|cbn [prodl fold_right]; lia]).
  set (y1 := @apply_dir R NumR dim [lu; lv; lw] 2 NwT x).
  assert (Ok1 : okn dim [lu; lv; nw] y1) by (apply (okn_apply_dir dim NwT nw lw [lu; lv; lw] 2); [exact HNwT|cbn; lia|apply PP; assumption|exact Ok0]).
  set (y2 := @apply_dir R NumR dim [lu; lv; nw] 1 NvT y1).
  assert (Ok2 : okn dim [lu; nv; nw] y2) by (apply (okn_apply_dir dim NvT nv lv [lu; lv; nw] 1); [exact HNvT|cbn; lia|apply PP; assumption|exact Ok1]).
  set (y3 := @apply_dir R NumR dim [lu; nv; nw] 0 NuT y2).
  assert (Ok3 : okn dim [nu; nv; nw] y3) by (apply (okn_apply_dir dim NuT nu lu [lu; nv; nw] 0); [exact HNuT|cbn; lia|apply PP; assumption|exact Ok2]).
  set (y4 := @apply_dir R NumR dim [nu; nv; nw] 2 Gw y3).
  assert (Ok4 : okn dim [nu; nv; nw] y4) by (apply (okn_apply_dir dim Gw nw nw [nu; nv; nw] 2); [exact HGw|cbn; lia|apply PP; assumption|exact Ok3]).
  set (y5 := @apply_dir R NumR dim [nu; nv; nw] 1 Gv y4).
  assert (Ok5 : okn dim [nu; nv; nw] y5) by (apply (okn_apply_dir dim Gv nv nv [nu; nv; nw] 1); [exact HGv|cbn; lia|apply PP; assumption|exact Ok4]).
  set (A0 := rowmat R0 Gu). set (A1 := rowmat R1 Gv). set (A2 := rowmat R2 Gw).
  assert (LA0 : length A0 = nu) by (apply (rowmat_length nu nu); assumption).
  assert (LA1 : length A1 = nv) by (apply (rowmat_length nv nv); assumption).
  assert (LA2 : length A2 = nw) by (apply (rowmat_length nw nw); assumption).
  set (B0 := rowmat A0 NuT). set (B1 := rowmat A1 NvT). set (B2 := rowmat A2 NwT).
  assert (LB0 : length B0 = lu) by (apply (rowmat_length nu lu); assumption).
  assert (LB1 : length B1 = lv) by (apply (rowmat_length nv lv); assumption).
  assert (LB2 : length B2 = lw) by (apply (rowmat_length nw lw); assumption).
  rewrite (tsum_step' dim c Gu nu nu [R0; R1; R2] [A0; R1; R2] 0 [nu; nv; nw] y5);
    [|reflexivity|cbn [map length]; rewrite LA0, L1, L2; reflexivity|cbn; lia|exact Hc|exact HGu|exact Hnu|exact L0|exact Ok5|apply PP; assumption].
  unfold y5. rewrite (tsum_step' dim c Gv nv nv [A0; R1; R2] [A0; A1; R2] 1 [nu; nv; nw] y4);
    [|reflexivity|cbn [map length]; rewrite LA0, LA1, L2; reflexivity|cbn; lia|exact Hc|exact HGv|exact Hnv|exact L1|exact Ok4|apply PP; assumption].
  unfold y4. rewrite (tsum_step' dim c Gw nw nw [A0; A1; R2] [A0; A1; A2] 2 [nu; nv; nw] y3);
    [|reflexivity|cbn [map length]; rewrite LA0, LA1, LA2; reflexivity|cbn; lia|exact Hc|exact HGw|exact Hnw|exact L2|exact Ok3|apply PP; assumption].
  unfold y3. rewrite (tsum_step' dim c NuT nu lu [A0; A1; A2] [B0; A1; A2] 0 [lu; nv; nw] y2);
    [|reflexivity|cbn [map length]; rewrite LB0, LA1, LA2; reflexivity|cbn; lia|exact Hc|exact HNuT|exact Hnu|exact LA0|exact Ok2|apply PP; assumption].
  unfold y2. rewrite (tsum_step' dim c NvT nv lv [B0; A1; A2] [B0; B1; A2] 1 [lu; lv; nw] y1);
    [|reflexivity|cbn [map length]; rewrite LB0, LB1, LA2; reflexivity|cbn; lia|exact Hc|exact HNvT|exact Hnv|exact LA1|exact Ok1|apply PP; assumption].
  unfold y1. rewrite (tsum_step' dim c NwT nw lw [B0; B1; A2] [B0; B1; B2] 2 [lu; lv; lw] x);
    [|reflexivity|cbn [map length]; rewrite LB0, LB1, LB2; reflexivity|cbn; lia|exact Hc|exact HNwT|exact Hnw|exact LA2|exact Ok0|apply PP; assumption].
  reflexivity.
Qed.

Lemma volume_lsq_net : okn dim [nu; nv; nw] (o_cps o) /\ o_bases o = [bu; bv; bw] /\ o_rat o = false /\ o_dim o = dim.
Proof.
  destruct volume_lsq_unpack as (Gu & Gv & Gw & -> & _ & (HNuT & HNvT & HNwT) & _ & (HGu & HGv & HGw) & _). cbn [o_cps o_bases o_rat o_dim].
  split; [|repeat split]. destruct Hx as [Lx Fx].
  assert (PP : forall a b c0 : nat, (0 < a)%nat -> (0 < b)%nat -> (0 < c0)%nat -> (0 < prodl [a; b; c0])%nat) by (intros; cbn [prodl fold_right]; nia).
  apply (okn_apply_dir dim Gu nu nu [nu; nv; nw] 0); [exact HGu|cbn; lia|apply PP; assumption|].
  apply (okn_apply_dir dim Gv nv nv [nu; nv; nw] 1); [exact HGv|cbn; lia|apply PP; assumption|].
  apply (okn_apply_dir dim Gw nw nw [nu; nv; nw] 2); [exact HGw|cbn; lia|apply PP; assumption|].
  apply (okn_apply_dir dim NuT nu lu [lu; nv; nw] 0); [exact HNuT|cbn; lia|apply PP; assumption|].
  apply (okn_apply_dir dim NvT nv lv [lu; lv; nw] 1); [exact HNvT|cbn; lia|apply PP; assumption|].
  apply (okn_apply_dir dim NwT nw lw [lu; lv; lw] 2); [exact HNwT|cbn; lia|apply PP; assumption|].
  split; [exact Fx|cbn [prodl fold_right]; lia].
Qed.

(* normal equations of the trivariate fit, entry by entry *)
Theorem volume_lsq_normal_equations a b c e : (a < nu)%nat -> (b < nv)%nat -> (c < nw)%nat -> (e < dim)%nat ->
  tsum [nth a Au []; nth b Av []; nth c Aw []] (cnet dim e (o_cps o)) = tsum [nth a NuT []; nth b NvT []; nth c NwT []] (cnet dim e x).
Proof.
  intros Ha Hb Hc He.
  destruct volume_lsq_unpack as (Gu & Gv & Gw & -> & _ & (HNuT & HNvT & HNwT) & (HAu & HAv & HAw) & (HGu & HGv & HGw) & (EU1 & EV1 & EW1) & _). cbn [o_cps].
  assert (RA : length (nth a Au []) = nu) by (apply (mat_row nu nu); assumption).
  assert (RB : length (nth b Av []) = nv) by (apply (mat_row nv nv); assumption).
  assert (RC : length (nth c Aw []) = nw) by (apply (mat_row nw nw); assumption).
  rewrite (volume_lsq_chain Gu Gv Gw _ _ _ e HGu HGv HGw RA RB RC He).
  rewrite <- (rowmat_unit nu nu Au a HAu Hnu Ha). rewrite <- (rowmat_unit nv nv Av b HAv Hnv Hb). rewrite <- (rowmat_unit nw nw Aw c HAw Hnw Hc).
  rewrite (rowmat_assoc nu nu nu _ Au Gu (unit_row_length nu a) HAu HGu Hnu Hnu), EU1.
  rewrite (rowmat_assoc nv nv nv _ Av Gv (unit_row_length nv b) HAv HGv Hnv Hnv), EV1.
  rewrite (rowmat_assoc nw nw nw _ Aw Gw (unit_row_length nw c) HAw HGw Hnw Hnw), EW1.
  rewrite !rowmat_ident by (try apply unit_row_length; assumption).
  rewrite (rowmat_unit nu lu NuT a HNuT Hnu Ha), (rowmat_unit nv lv NvT b HNvT Hnv Hb), (rowmat_unit nw lw NwT c HNwT Hnw Hc). reflexivity.
Qed.

(* projection: data sampled on the grid from a volume of the space (net c0) returns that volume *)
Theorem volume_lsq_projection c0 : okn dim [nu; nv; nw] c0 ->
  x = @apply_dir R NumR dim [nu; lv; lw] 0 Nu (@apply_dir R NumR dim [nu; nv; lw] 1 Nv (@apply_dir R NumR dim [nu; nv; nw] 2 Nw c0)) ->
  o_cps o = c0.
Proof.
  intros Hc0 Ex. destruct volume_lsq_net as ([FO LO] & _).
  destruct volume_lsq_unpack as (Gu & Gv & Gw & EO & (HNu & HNv & HNw) & (HNuT & HNvT & HNwT) & (HAu & HAv & HAw) & (HGu & HGv & HGw) & _ & (EU2 & EV2 & EW2)).
  destruct Hc0 as [F0 L0]. cbn [prodl fold_right] in LO, L0.
  assert (PP : forall a b c1 : nat, (0 < a)%nat -> (0 < b)%nat -> (0 < c1)%nat -> (0 < prodl [a; b; c1])%nat) by (intros; cbn [prodl fold_right]; nia).
  apply (nth_ext _ _ (@vzero R NumR dim) (@vzero R NumR dim)); [lia|]. intros idx Hidx. rewrite LO in Hidx.
  assert (Habc : exists a b c, (a < nu)%nat /\ (b < nv)%nat /\ (c < nw)%nat /\ idx = ((a * nv + b) * nw + c)%nat).
  { exists (idx / nw / nv)%nat, ((idx / nw) mod nv)%nat, (idx mod nw)%nat.
    assert (H1 : (idx / nw < nu * nv)%nat) by (apply Nat.div_lt_upper_bound; lia).
    split; [apply Nat.div_lt_upper_bound; lia|]. split; [apply Nat.mod_upper_bound; lia|]. split; [apply Nat.mod_upper_bound; lia|].
    rewrite (Nat.div_mod idx nw) at 1 by lia. rewrite (Nat.div_mod (idx / nw) nv) at 1 by lia. lia. }
  destruct Habc as (a & b & c & Ha & Hb & Hc & ->).
  assert (Hlt : ((a * nv + b) * nw + c < nu * nv * nw)%nat) by (apply idx3_lt; assumption).
  assert (Len1 : length (nth ((a * nv + b) * nw + c) (o_cps o) (@vzero R NumR dim)) = dim).
  { rewrite Forall_forall in FO. apply FO, nth_In. lia. }
  assert (Len2 : length (nth ((a * nv + b) * nw + c) c0 (@vzero R NumR dim)) = dim).
  { rewrite Forall_forall in F0. apply F0, nth_In. lia. }
  apply (nth_ext _ _ 0 0); [lia|]. intros e He. rewrite Len1 in He.
  change (cnet dim e (o_cps o) ((a * nv + b) * nw + c)%nat = cnet dim e c0 ((a * nv + b) * nw + c)%nat).
  rewrite <- (tsum_units3 nu nv nw a b c (cnet dim e (o_cps o)) Ha Hb Hc). rewrite <- (tsum_units3 nu nv nw a b c (cnet dim e c0) Ha Hb Hc).
  rewrite EO. cbn [o_cps].
  rewrite (volume_lsq_chain Gu Gv Gw _ _ _ e HGu HGv HGw (unit_row_length nu a) (unit_row_length nv b) (unit_row_length nw c) He).
  set (A0 := rowmat (unit_row nu a) Gu). set (A1 := rowmat (unit_row nv b) Gv). set (A2 := rowmat (unit_row nw c) Gw).
  assert (LA0 : length A0 = nu) by (apply (rowmat_length nu nu); try assumption; apply unit_row_length).
  assert (LA1 : length A1 = nv) by (apply (rowmat_length nv nv); try assumption; apply unit_row_length).
  assert (LA2 : length A2 = nw) by (apply (rowmat_length nw nw); try assumption; apply unit_row_length).
  set (B0 := rowmat A0 NuT). set (B1 := rowmat A1 NvT). set (B2 := rowmat A2 NwT).
  assert (LB0 : length B0 = lu) by (apply (rowmat_length nu lu); assumption).
  assert (LB1 : length B1 = lv) by (apply (rowmat_length nv lv); assumption).
  assert (LB2 : length B2 = lw) by (apply (rowmat_length nw lw); assumption).
  assert (E0 : rowmat B0 Nu = unit_row nu a).
  { unfold B0. rewrite (rowmat_assoc nu lu nu A0 NuT Nu LA0 HNuT HNu Hnu Hlu). unfold A0.
    rewrite (rowmat_assoc nu nu nu _ Gu Au (unit_row_length nu a) HGu HAu Hnu Hnu), EU2. apply rowmat_ident; [apply unit_row_length|exact Hnu]. }
  assert (E1 : rowmat B1 Nv = unit_row nv b).
  { unfold B1. rewrite (rowmat_assoc nv lv nv A1 NvT Nv LA1 HNvT HNv Hnv Hlv). unfold A1.
    rewrite (rowmat_assoc nv nv nv _ Gv Av (unit_row_length nv b) HGv HAv Hnv Hnv), EV2. apply rowmat_ident; [apply unit_row_length|exact Hnv]. }
  assert (E2 : rowmat B2 Nw = unit_row nw c).
  { unfold B2. rewrite (rowmat_assoc nw lw nw A2 NwT Nw LA2 HNwT HNw Hnw Hlw). unfold A2.
    rewrite (rowmat_assoc nw nw nw _ Gw Aw (unit_row_length nw c) HGw HAw Hnw Hnw), EW2. apply rowmat_ident; [apply unit_row_length|exact Hnw]. }
  assert (EX : cnet dim e x = cnet dim e (@apply_dir R NumR dim [nu; lv; lw] 0 Nu (@apply_dir R NumR dim [nu; nv; lw] 1 Nv (@apply_dir R NumR dim [nu; nv; nw] 2 Nw c0))))
    by (rewrite <- Ex; reflexivity).
  rewrite EX.
  assert (Okc : okn dim [nu; nv; nw] c0) by (split; [exact F0|cbn [prodl fold_right]; lia]).
  set (z1 := @apply_dir R NumR dim [nu; nv; nw] 2 Nw c0).
  assert (Okz1 : okn dim [nu; nv; lw] z1) by (apply (okn_apply_dir dim Nw lw nw [nu; nv; nw] 2); [exact HNw|cbn; lia|apply PP; assumption|exact Okc]).
  set (z2 := @apply_dir R NumR dim [nu; nv; lw] 1 Nv z1).
  assert (Okz2 : okn dim [nu; lv; lw] z2) by (apply (okn_apply_dir dim Nv lv nv [nu; nv; lw] 1); [exact HNv|cbn; lia|apply PP; assumption|exact Okz1]).
  rewrite (tsum_step' dim e Nu lu nu [B0; B1; B2] [unit_row nu a; B1; B2] 0 [nu; lv; lw] z2);
    [|cbn [upd nth]; rewrite E0; reflexivity|cbn [map length]; rewrite unit_row_length, LB1, LB2; reflexivity|cbn; lia|exact He|exact HNu|exact Hlu|exact LB0|exact Okz2|apply PP; assumption].
  unfold z2. rewrite (tsum_step' dim e Nv lv nv [unit_row nu a; B1; B2] [unit_row nu a; unit_row nv b; B2] 1 [nu; nv; lw] z1);
    [|cbn [upd nth]; rewrite E1; reflexivity|cbn [map length]; rewrite !unit_row_length, LB2; reflexivity|cbn; lia|exact He|exact HNv|exact Hlv|exact LB1|exact Okz1|apply PP; assumption].
  unfold z1. rewrite (tsum_step' dim e Nw lw nw [unit_row nu a; unit_row nv b; B2] [unit_row nu a; unit_row nv b; unit_row nw c] 2 [nu; nv; nw] c0);
    [|cbn [upd nth]; rewrite E2; reflexivity|cbn [map length]; rewrite !unit_row_length; reflexivity|cbn; lia|exact He|exact HNw|exact Hlw|exact LB2|exact Okc|apply PP; assumption].
  reflexivity.
Qed.
End VolumeLsq.

(* ================= non-vacuity: exact rational runs of the models (numbers compared with the real code, see report) ================= *)
From Coq Require Import QArith.
Definition exq_tol : Q := (1#100000000000)%Q.
Definition exq_t : list Q := [0; 1; 5#2; 3; 4]%Q.
Definition exq_x : list (list Q) := [[0; 0]; [2; 1]; [3; 3]; [1; 4]; [-1; 2]]%Q.
Definition exq_d (o : obj Q) (d : nat) (t : Q) : list Q :=
  match @obj_deriv Q NumQ exq_tol o [d] [true] [t] with Ok v => map Qred v | Err _ => [] end.
(* NATURAL: second derivative zero at both ends; first control points 583/936 = 0.622863..., 649/1872 = 0.346688... *)
Example cubic_natural_example :
  match @cubic_curve Q NumQ exq_tol 1 exq_t exq_x [] with
  | Ok o => map Qred (nth 1 (o_cps o) []) = [583#936; 649#1872]%Q /\ exq_d o 2 0 = [0; 0]%Q /\ exq_d o 2 4 = [0; 0]%Q
  | Err _ => False end.
Proof. vm_compute. repeat split; reflexivity. Qed.
Example cubic_tangent_example :
  match @cubic_curve Q NumQ exq_tol 4 exq_t exq_x [[1; 0]; [0; -2]]%Q with
  | Ok o => map Qred (nth 2 (o_cps o) []) = [327#136; 605#408]%Q /\ exq_d o 1 0 = [1; 0]%Q /\ exq_d o 1 4 = [0; -2]%Q
  | Err _ => False end.
Proof. vm_compute. repeat split; reflexivity. Qed.
Example cubic_hermite_example :
  match @cubic_curve Q NumQ exq_tol 2 exq_t exq_x [[1; 0]; [1; 1]; [0; 1]; [-1; 0]; [0; -2]]%Q with
  | Ok o => map Qred (nth 5 (o_cps o) []) = [3; 19#6]%Q /\
            map (fun t => exq_d o 1 t) exq_t = [[1; 0]; [1; 1]; [0; 1]; [-1; 0]; [0; -2]]%Q
  | Err _ => False end.
Proof. vm_compute. repeat split; reflexivity. Qed.
Example cubic_tangentnatural_example :
  match @cubic_curve Q NumQ exq_tol 5 exq_t exq_x [[1; 1#2]]%Q with
  | Ok o => map Qred (nth 2 (o_cps o) []) = [5293#2214; 5953#4428]%Q /\ exq_d o 1 0 = [1; 1#2]%Q /\ exq_d o 2 4 = [0; 0]%Q
  | Err _ => False end.
Proof. vm_compute. repeat split; reflexivity. Qed.
Example cubic_free_example :
  match @cubic_curve Q NumQ exq_tol 0 exq_t exq_x [] with
  | Ok o => map b_knots (o_bases o) = [[0; 0; 0; 0; 5#2; 4; 4; 4; 4]]%Q /\ map Qred (nth 1 (o_cps o) []) = [223#378; 257#252]%Q /\
            map (fun t => match @obj_eval Q NumQ exq_tol o [t] with Ok v => map Qred v | Err _ => [] end) exq_t = exq_x
  | Err _ => False end.
Proof. vm_compute. repeat split; reflexivity. Qed.
(* PERIODIC: t = [0,1,5/2,3,4,6], closed data; knots and control points as the real code (-2545/1494 = -1.703480589...);
   value, first and second derivative from the right at 0 = from the left at 6 *)
Example cubic_periodic_example :
  match @cubic_periodic Q NumQ exq_tol [0; 1; 5#2; 3; 4; 6]%Q (exq_x ++ [[0; 0]]%Q) with
  | Ok o => map b_knots (o_bases o) = [[-7#2; -3; -2; 0; 1; 5#2; 3; 4; 6; 7; 17#2; 9]]%Q /\
            map (map Qred) (o_cps o) = [[-2545#1494; 281#747]; [-1265#1494; -509#747]; [26915#11952; 15787#11952];
                                         [59885#11952; 22921#11952]; [-529#11952; 58207#11952]]%Q /\
            map (fun d => exq_d o d 0) [0; 1; 2]%nat = [[0; 0]; [1585#996; 623#996]; [315#332; 471#332]]%Q /\
            map (fun d => match @obj_deriv Q NumQ exq_tol o [d] [false] [6%Q] with Ok v => map Qred v | Err _ => [] end) [0; 1; 2]%nat
              = [[0; 0]; [1585#996; 623#996]; [315#332; 471#332]]%Q
  | Err _ => False end.
Proof. vm_compute. repeat split; reflexivity. Qed.
(* tensor product fits *)
Definition exq_bu : basis Q := mkBasis 3 [0; 0; 0; 1; 2; 2; 2]%Q 0.
Definition exq_bv : basis Q := mkBasis 2 [0; 0; 1; 1]%Q 0.
Example surface_lsq_example :
  let us := [0; 1#2; 1; 3#2; 2]%Q in let vs := [0; 1#4; 1]%Q in
  let X := flat_map (fun u => map (fun v => [u*u+v; u-v*u; 1+v*v]%Q) vs) us in
  match @surface_lsq Q NumQ exq_tol exq_bu exq_bv us vs X with
  | Ok o => map (map Qred) (o_cps o) = [[0; 0; 95#104]; [1; 0; 205#104]; [0; 1#2; 95#104]; [1; 0; 205#104];
                                         [2; 3#2; 95#104]; [3; 0; 205#104]; [4; 2; 95#104]; [5; 0; 205#104]]%Q
  | Err _ => False end.
Proof. vm_compute. reflexivity. Qed.
Example volume_interpolate_example :
  let gu := [0; 1#2; 3#2; 2]%Q in let gv := [0; 1]%Q in
  let X := flat_map (fun u => flat_map (fun v => map (fun w => [u*u+v+w; u-v*u*w; 1+v*w]%Q) gv) gv) gu in
  match @volume_interpolate Q NumQ exq_tol exq_bu exq_bv exq_bv gu gv gv X with
  | Ok o => map (map Qred) (firstn 8 (o_cps o)) = [[0; 0; 1]; [1; 0; 1]; [1; 0; 1]; [2; 0; 2]; [0; 1#2; 1]; [1; 1#2; 1]; [1; 1#2; 1]; [2; 0; 2]]%Q /\
            (match @obj_eval Q NumQ exq_tol o [3#2; 1; 1]%Q with Ok v => map Qred v | Err _ => [] end) = [17#4; 0; 2]%Q
  | Err _ => False end.
Proof. vm_compute. repeat split; reflexivity. Qed.
Example manipulate_example :
  let crv := mkObj [exq_bu] [[0; 0]; [1; 2]; [3; -2]; [4; 0]]%Q 2 false in
  match @manipulate_xt Q NumQ exq_tol crv (fun x t => [nth 0 x 0 + t; 2 * nth 1 x 0 - t * nth 0 x 0]%Q) with
  | Ok o => map (map Qred) (o_cps o) = [[0; 0]; [3#2; 4]; [9#2; -8]; [6; -8]]%Q
  | Err _ => False end.
Proof. vm_compute. reflexivity. Qed.

