(* C14, continued: cubic_curve end conditions stated on the curve (evaluate / derivative of the returned object) for every
   non-periodic boundary type; Boundary.PERIODIC (closed C2); volume interpolation; least squares for surfaces (normal
   equations, projection); manipulate. *)
From Coq Require Import List Arith Reals Lra Lia Bool ZArith.
From SplipyModel Require Import Spec.BSpline Spec.Deriv Model.Num Model.BasisDef Model.BasisEval Model.Tensor Model.Obj Model.KnotInsert Model.Solve
  Model.Interp Model.Loft Model.InterpMore
  Proofs.Bridge Proofs.EvaluateSpec Proofs.EvalConsequences Proofs.TensorLemmas Proofs.TensorApply Proofs.SnapSpec Proofs.ObjEval Proofs.AffineProofs Proofs.OrderProofs
  Proofs.LinAlg Proofs.InterpProofs Proofs.LoftProofs Proofs.SeamContinuity Proofs.KnotList Proofs.InsertMatrix.
Import ListNotations.
Open Scope R_scope.

(* ================= 1. cubic_curve: end conditions on the curve ================= *)
Lemma remove_at_length {A} i (l : list A) : (i < length l)%nat -> length (remove_at i l) = (length l - 1)%nat.
Proof.
  revert i; induction l as [|a l IH]; intros i H; [cbn in H; lia|].
  destruct i; cbn [remove_at length]; [lia|]. rewrite IH by (cbn in H; lia). cbn in H. lia.
Qed.

Lemma colloc_length tol (b : basis R) d ts : length (@colloc R NumR tol b d ts) = length ts.
Proof. destruct (colloc_mat tol b d ts); assumption. Qed.
Lemma colloc_rows tol (b : basis R) d ts : Forall (fun r => length r = @b_nfun R b) (@colloc R NumR tol b d ts).
Proof. destruct (colloc_mat tol b d ts); assumption. Qed.

Section CubicEnds.
Variables (tol : R) (bt : nat) (t : list R) (x tang : list (list R)) (o : obj R).
Hypothesis Hres : @cubic_curve R NumR tol bt t x tang = Ok o.
Local Notation b := (mkBasis 4 (@cubic_knots R NumR bt t) 0).
Local Notation sys := (@cubic_system R NumR tol bt t x tang).
Local Notation A := (snd (fst sys)).
Local Notation rhs := (snd sys).
Local Notation n := (@b_nfun R b).
Local Notation dim := (length (hd [] x)).
Hypothesis Hbt : In bt [0; 1; 2; 4; 5]%nat.            (* FREE, NATURAL, HERMITE, TANGENT, TANGENTNATURAL *)
Hypothesis Hx : length x = length t.
Hypothesis Ht : (2 <= length t)%nat.
Hypothesis Hsorted : sorted (kn (@cubic_knots R NumR bt t)).
Hypothesis Htol : 0 < tol.

Lemma cubic_b : fst (fst sys) = b. Proof. reflexivity. Qed.

(* number of basis functions per boundary type *)
Lemma cubic_nfun : n = (if (bt =? 0)%nat then length t else if (bt =? 2)%nat then 2 * length t else length t + 2)%nat.
Proof.
  unfold b_nfun, cubic_knots. cbn [b_knots b_order b_per1]. cbv zeta.
  destruct (Nat.eqb_spec bt 0) as [E0|E0].
  - rewrite remove_at_length; rewrite ?remove_at_length; rewrite ?app_length, ?repeat_length; lia.
  - destruct (Nat.eqb_spec bt 2) as [E2|E2].
    + rewrite !app_length, !repeat_length.
      assert (L : length (flat_map (fun y : R => [y; y]) (removelast (tl t))) = (2 * (length t - 2))%nat).
      { assert (G : forall l : list R, length (flat_map (fun y : R => [y; y]) l) = (2 * length l)%nat).
        { induction l as [|a l IH]; [reflexivity|]. cbn [flat_map app length]. rewrite IH. lia. }
        rewrite G. destruct t as [|a [|a' r]]; [cbn in Ht; lia|cbn in Ht; lia|]. cbn [tl].
        rewrite removelast_firstn_len, firstn_length. cbn [length]. lia. }
      rewrite L. lia.
    + rewrite !app_length, !repeat_length. lia.
Qed.

(* the stacked system is square *)
Hypothesis Htang : (bt = 2 -> length tang = length t)%nat.
Lemma cubic_square : mat n n A.
Proof.
  pose proof cubic_nfun as En.
  unfold cubic_system. cbv zeta. cbn [fst snd]. split.
  - rewrite !app_length. rewrite colloc_length.
    cbn [In] in Hbt. destruct Hbt as [<-|[<-|[<-|[<-|[<-|[]]]]]]; cbn [Nat.eqb] in En |- *; rewrite ?colloc_length; cbn [length]; lia.
  - apply Forall_app. split; [apply colloc_rows|]. apply Forall_app. split.
    + destruct (bt =? 4)%nat; [apply colloc_rows|]. destruct (bt =? 5)%nat; [apply colloc_rows|]. destruct (bt =? 2)%nat; [apply colloc_rows|constructor].
    + destruct (bt =? 1)%nat; [apply colloc_rows|]. destruct (bt =? 5)%nat; [apply colloc_rows|constructor].
Qed.

Lemma cubic_npos : (0 < n)%nat.
Proof. rewrite cubic_nfun. destruct (bt =? 0)%nat; [lia|]. destruct (bt =? 2)%nat; lia. Qed.

Lemma cubic_hd_rhs : length (hd [] rhs) = dim.
Proof. unfold cubic_system. cbv zeta. cbn [snd]. destruct x as [|x0 xr]; [cbn in Hx; lia|]. reflexivity. Qed.

Lemma cubic_obj : o_bases o = [b] /\ o_rat o = false /\ o_dim o = dim /\ mat n dim (o_cps o).
Proof.
  destruct (cubic_system_holds tol bt t x tang o Hres cubic_square cubic_npos) as (_ & Eb & Hcp).
  rewrite cubic_hd_rhs in Hcp. split; [exact Eb|]. split; [|split; [|exact Hcp]].
  - unfold cubic_curve in Hres. destruct sys as [[b0 A0] rhs0]. destruct (@solve_shaped R NumR A0 rhs0); [|discriminate]. injection Hres as <-. reflexivity.
  - unfold cubic_curve in Hres. destruct sys as [[b0 A0] rhs0]. destruct (@solve_shaped R NumR A0 rhs0); [|discriminate]. injection Hres as <-. reflexivity.
Qed.

(* core: a row of the system that is a collocation row of derivative order d at the parameter p_q, read on the curve *)
Lemma cubic_row_core r d ps q c : (r < n)%nat -> (q < length ps)%nat -> (c < dim)%nat ->
  nth r A [] = nth q (@colloc R NumR tol b d ps) [] ->
  coord c (@teval R NumR dim [@basis_row R NumR tol b d true (@snap1 R NumR (b_knots b) tol (nth q ps 0))] (o_cps o))
  = nth c (nth r rhs []) 0.
Proof.
  intros Hr Hq Hc Erow. destruct cubic_obj as (_ & _ & _ & [Lcp Fcp]).
  rewrite <- (colloc_row tol b d ps q Hsorted Htol Hq). rewrite <- Erow.
  rewrite teval_curve; [|exact Fcp| |exact Hc].
  - apply (cubic_rows tol bt t x tang o Hres cubic_square cubic_npos r c Hr). rewrite cubic_hd_rhs. exact Hc.
  - rewrite Lcp. symmetry. apply (mat_row n n A r cubic_square Hr).
Qed.

(* evaluate() and derivative() of the returned curve at p_q *)
Lemma cubic_row_eval r ps q v : (r < n)%nat -> (q < length ps)%nat ->
  nth r A [] = nth q (@colloc R NumR tol b 0 ps) [] ->
  @obj_eval R NumR tol o [nth q ps 0] = Ok v -> forall c, (c < dim)%nat -> coord c v = nth c (nth r rhs []) 0.
Proof.
  intros Hr Hq Erow Hev c Hc. destruct cubic_obj as (Eb & Er & Ed & _).
  unfold obj_eval in Hev. rewrite Eb in Hev. cbn [validate hd tl] in Hev.
  destruct (@validate1 R NumR tol b (nth q ps 0)) as [t'|e] eqn:EV; [|discriminate].
  assert (Et' : t' = @snap1 R NumR (b_knots b) tol (nth q ps 0)).
  { unfold validate1 in EV. cbv zeta in EV. destruct (_ && _); [discriminate|]. injection EV as <-. reflexivity. }
  rewrite Er in Hev. injection Hev as <-.
  unfold eval_h, rows_at, o_ncomp. rewrite Eb, Er, Ed. cbn [length seq map nth]. rewrite Nat.add_0_r, Et'.
  apply cubic_row_core; assumption.
Qed.
Lemma cubic_row_deriv r d ps q v : (r < n)%nat -> (q < length ps)%nat ->
  nth r A [] = nth q (@colloc R NumR tol b d ps) [] ->
  @obj_deriv R NumR tol o [d] [true] [nth q ps 0] = Ok v -> forall c, (c < dim)%nat -> coord c v = nth c (nth r rhs []) 0.
Proof.
  intros Hr Hq Erow Hev c Hc. destruct cubic_obj as (Eb & Er & Ed & _).
  unfold obj_deriv in Hev. rewrite Eb in Hev. cbn [validate hd tl] in Hev.
  destruct (@validate1 R NumR tol b (nth q ps 0)) as [t'|e] eqn:EV; [|discriminate].
  assert (Et' : t' = @snap1 R NumR (b_knots b) tol (nth q ps 0)).
  { unfold validate1 in EV. cbv zeta in EV. destruct (_ && _); [discriminate|]. injection EV as <-. reflexivity. }
  rewrite Er in Hev. injection Hev as <-.
  unfold eval_h, rows_at, o_ncomp. rewrite Eb, Er, Ed. cbn [length seq map nth]. rewrite Nat.add_0_r, Et'.
  apply cubic_row_core; assumption.
Qed.
Lemma cubic_n_ge : (length t <= n)%nat.
Proof. rewrite cubic_nfun. destruct (bt =? 0)%nat; [lia|]. destruct (bt =? 2)%nat; lia. Qed.

(* every boundary type: the curve passes through x_i at t_i *)
Theorem cubic_passes_through i v : (i < length t)%nat ->
  @obj_eval R NumR tol o [nth i t 0] = Ok v -> forall c, (c < dim)%nat -> coord c v = nth c (nth i x []) 0.
Proof.
  intros Hi Hev c Hc. pose proof cubic_n_ge as Hn.
  rewrite (cubic_row_eval i t i v ltac:(lia) Hi) by
    (try assumption; unfold cubic_system; cbv zeta; cbn [fst snd]; apply app_nth1; rewrite colloc_length; exact Hi).
  unfold cubic_system. cbv zeta. cbn [snd]. rewrite app_nth1 by lia. reflexivity.
Qed.

Lemma nth_repeat0 c m : nth c (repeat 0 m) 0 = 0.
Proof. revert c; induction m as [|m IH]; intros c; destruct c; cbn [repeat nth]; try reflexivity. apply IH. Qed.

(* NATURAL: the second derivative of the curve vanishes at both ends *)
Theorem cubic_natural_ends v : bt = 1%nat ->
  (@obj_deriv R NumR tol o [2%nat] [true] [hd 0 t] = Ok v -> forall c, (c < dim)%nat -> coord c v = 0) /\
  (@obj_deriv R NumR tol o [2%nat] [true] [last t 0] = Ok v -> forall c, (c < dim)%nat -> coord c v = 0).
Proof.
  intros E.   assert (T : forall k, (bt =? k)%nat = (1 =? k)%nat) by (intros k; rewrite E; reflexivity).
  pose proof cubic_nfun as En. rewrite !T in En. cbn [Nat.eqb] in En.
  assert (EA : forall q, (q < 2)%nat -> nth (length t + q) A [] = nth q (@colloc R NumR tol b 2 [hd 0 t; last t 0]) []).
  { intros q Hq. unfold cubic_system. cbv zeta. cbn [fst snd]. rewrite !T. cbn [Nat.eqb app].
    rewrite app_nth2 by (rewrite colloc_length; lia). rewrite colloc_length. f_equal. lia. }
  assert (ER : forall q c, (q < 2)%nat -> nth c (nth (length t + q) rhs []) 0 = 0).
  { intros q c Hq. unfold cubic_system. cbv zeta. cbn [fst snd]. rewrite !T. cbn [Nat.eqb orb app].
    rewrite app_nth2 by lia. replace (length t + q - length x)%nat with q by lia.
    destruct q as [|[|q]]; [| |lia]; cbn [nth]; apply nth_repeat0. }
  split; intros Hev c Hc.
  - rewrite (cubic_row_deriv (length t + 0) 2 [hd 0 t; last t 0] 0 v ltac:(lia) ltac:(cbn; lia) (EA 0%nat ltac:(lia)) Hev c Hc). apply ER. lia.
  - rewrite (cubic_row_deriv (length t + 1) 2 [hd 0 t; last t 0] 1 v ltac:(lia) ltac:(cbn; lia) (EA 1%nat ltac:(lia)) Hev c Hc). apply ER. lia.
Qed.

(* TANGENT: the first derivative of the curve at the two ends is the prescribed tangent *)
Theorem cubic_tangent_ends v : bt = 4%nat -> length tang = 2%nat ->
  (@obj_deriv R NumR tol o [1%nat] [true] [hd 0 t] = Ok v -> forall c, (c < dim)%nat -> coord c v = nth c (nth 0 tang []) 0) /\
  (@obj_deriv R NumR tol o [1%nat] [true] [last t 0] = Ok v -> forall c, (c < dim)%nat -> coord c v = nth c (nth 1 tang []) 0).
Proof.
  intros E Lt.   assert (T : forall k, (bt =? k)%nat = (4 =? k)%nat) by (intros k; rewrite E; reflexivity).
  pose proof cubic_nfun as En. rewrite !T in En. cbn [Nat.eqb] in En.
  assert (EA : forall q, (q < 2)%nat -> nth (length t + q) A [] = nth q (@colloc R NumR tol b 1 [hd 0 t; last t 0]) []).
  { intros q Hq. unfold cubic_system. cbv zeta. cbn [fst snd]. rewrite !T. cbn [Nat.eqb]. rewrite app_nil_r.
    rewrite app_nth2 by (rewrite colloc_length; lia). rewrite colloc_length. f_equal. lia. }
  assert (ER : forall q, (q < 2)%nat -> nth (length t + q) rhs [] = nth q tang []).
  { intros q Hq. unfold cubic_system. cbv zeta. cbn [fst snd]. rewrite !T. cbn [Nat.eqb orb]. rewrite app_nil_r.
    rewrite app_nth2 by lia. f_equal. lia. }
  split; intros Hev c Hc.
  - rewrite (cubic_row_deriv (length t + 0) 1 [hd 0 t; last t 0] 0 v ltac:(lia) ltac:(cbn; lia) (EA 0%nat ltac:(lia)) Hev c Hc). rewrite ER by lia. reflexivity.
  - rewrite (cubic_row_deriv (length t + 1) 1 [hd 0 t; last t 0] 1 v ltac:(lia) ltac:(cbn; lia) (EA 1%nat ltac:(lia)) Hev c Hc). rewrite ER by lia. reflexivity.
Qed.

(* HERMITE: the first derivative of the curve at every t_i is the prescribed tangent *)
Theorem cubic_hermite_tangents i v : bt = 2%nat -> (i < length t)%nat ->
  @obj_deriv R NumR tol o [1%nat] [true] [nth i t 0] = Ok v -> forall c, (c < dim)%nat -> coord c v = nth c (nth i tang []) 0.
Proof.
  intros E Hi Hev c Hc.   assert (T : forall k, (bt =? k)%nat = (2 =? k)%nat) by (intros k; rewrite E; reflexivity).
  pose proof cubic_nfun as En. rewrite !T in En. cbn [Nat.eqb] in En.
  assert (EA : nth (length t + i) A [] = nth i (@colloc R NumR tol b 1 t) []).
  { unfold cubic_system. cbv zeta. cbn [fst snd]. rewrite !T. cbn [Nat.eqb]. rewrite app_nil_r.
    rewrite app_nth2 by (rewrite colloc_length; lia). rewrite colloc_length. f_equal. lia. }
  rewrite (cubic_row_deriv (length t + i) 1 t i v ltac:(lia) Hi EA Hev c Hc).
  unfold cubic_system. cbv zeta. cbn [fst snd]. rewrite !T. cbn [Nat.eqb orb]. rewrite app_nil_r.
  rewrite app_nth2 by lia. do 2 f_equal. lia.
Qed.

(* TANGENTNATURAL: prescribed tangent at the start, vanishing second derivative at the end *)
Theorem cubic_tangentnatural_ends v : bt = 5%nat -> length tang = 1%nat ->
  (@obj_deriv R NumR tol o [1%nat] [true] [hd 0 t] = Ok v -> forall c, (c < dim)%nat -> coord c v = nth c (nth 0 tang []) 0) /\
  (@obj_deriv R NumR tol o [2%nat] [true] [last t 0] = Ok v -> forall c, (c < dim)%nat -> coord c v = 0).
Proof.
  intros E Lt.   assert (T : forall k, (bt =? k)%nat = (5 =? k)%nat) by (intros k; rewrite E; reflexivity).
  pose proof cubic_nfun as En. rewrite !T in En. cbn [Nat.eqb] in En.
  assert (EA1 : nth (length t + 0) A [] = nth 0 (@colloc R NumR tol b 1 [hd 0 t]) []).
  { unfold cubic_system. cbv zeta. cbn [fst snd]. rewrite !T. cbn [Nat.eqb].
    rewrite app_nth2 by (rewrite colloc_length; lia). rewrite colloc_length. rewrite app_nth1 by (rewrite colloc_length; cbn; lia). f_equal. lia. }
  assert (EA2 : nth (length t + 1) A [] = nth 0 (@colloc R NumR tol b 2 [last t 0]) []).
  { unfold cubic_system. cbv zeta. cbn [fst snd]. rewrite !T. cbn [Nat.eqb].
    rewrite app_nth2 by (rewrite colloc_length; lia). rewrite colloc_length. rewrite app_nth2 by (rewrite colloc_length; cbn; lia).
    rewrite colloc_length. f_equal. cbn [length]. lia. }
  split; intros Hev c Hc.
  - rewrite (cubic_row_deriv (length t + 0) 1 [hd 0 t] 0 v ltac:(lia) ltac:(cbn; lia) EA1 Hev c Hc).
    unfold cubic_system. cbv zeta. cbn [fst snd]. rewrite !T. cbn [Nat.eqb orb].
    rewrite app_nth2 by lia. rewrite app_nth1 by lia. do 2 f_equal. lia.
  - rewrite (cubic_row_deriv (length t + 1) 2 [last t 0] 0 v ltac:(lia) ltac:(cbn; lia) EA2 Hev c Hc).
    unfold cubic_system. cbv zeta. cbn [fst snd]. rewrite !T. cbn [Nat.eqb orb].
    rewrite app_nth2 by lia. rewrite app_nth2 by lia. replace (length t + 1 - length x - length tang)%nat with 0%nat by lia.
    cbn [nth]. apply nth_repeat0.
Qed.
End CubicEnds.

(* ================= 2. tensor-product tools ================= *)
Definition okn (dim : nat) (shape : list nat) (cps : list (list R)) : Prop :=
  Forall (fun p => length p = dim) cps /\ length cps = prodl shape.

Lemma okn_apply_dir dim (C : list (list R)) r n shape d cps : mat r n C -> (d < length shape)%nat -> (0 < prodl shape)%nat ->
  okn dim shape cps -> okn dim (@upd nat shape d r) (@apply_dir R NumR dim shape d C cps).
Proof.
  intros [LC _] Hd Hpos [Fc Lc]. split; [apply Forall_apply_dir; exact Fc|].
  rewrite length_apply_dir by assumption. rewrite LC. reflexivity.
Qed.

(* the chain step with the shape as a free parameter (to be matched against the model's literal shape) *)
Lemma tsum_step' dim c (C : list (list R)) r n (rows old : list (list R)) d shape (cps : list (list R)) :
  old = @upd (list R) rows d (rowmat (nth d rows []) C) -> shape = map (@length R) old ->
  (d < length rows)%nat -> (c < dim)%nat -> mat r n C -> (0 < r)%nat -> length (nth d rows []) = r ->
  okn dim shape cps -> (0 < prodl shape)%nat ->
  tsum rows (cnet dim c (@apply_dir R NumR dim shape d C cps)) = tsum old (cnet dim c cps).
Proof.
  intros -> -> Hd Hc HC Hr HN [Fc Lc] Hpos. apply (tsum_step dim c C r n rows d cps); try assumption. split; assumption.
Qed.

(* unit rows select one entry of the net *)
Lemma tsum_units2 n1 n2 i j f : (i < n1)%nat -> (j < n2)%nat -> tsum [unit_row n1 i; unit_row n2 j] f = f (i * n2 + j)%nat.
Proof.
  intros Hi Hj. change [unit_row n1 i; unit_row n2 j] with ([unit_row n1 i] ++ [unit_row n2 j]). rewrite tsum_unit_last by exact Hj.
  change [unit_row n1 i] with ([] ++ [unit_row n1 i]). rewrite tsum_unit_last by exact Hi. cbn [tsum]. f_equal.
Qed.
Lemma tsum_units3 n1 n2 n3 i j k f : (i < n1)%nat -> (j < n2)%nat -> (k < n3)%nat ->
  tsum [unit_row n1 i; unit_row n2 j; unit_row n3 k] f = f ((i * n2 + j) * n3 + k)%nat.
Proof.
  intros Hi Hj Hk. change [unit_row n1 i; unit_row n2 j; unit_row n3 k] with ([unit_row n1 i; unit_row n2 j] ++ [unit_row n3 k]).
  rewrite tsum_unit_last by exact Hk. rewrite tsum_units2 by assumption. reflexivity.
Qed.

Lemma rowmat_unit n m (C : list (list R)) i : mat n m C -> (0 < n)%nat -> (i < n)%nat -> rowmat (unit_row n i) C = nth i C [].
Proof.
  intros HC Hn Hi. apply (nth_ext _ _ 0 0).
  - rewrite (rowmat_length n m _ C HC (unit_row_length n i) Hn). symmetry. apply (mat_row n m C i HC Hi).
  - intros j Hj. rewrite (rowmat_length n m _ C HC (unit_row_length n i) Hn) in Hj.
    rewrite (rowmat_nth n m _ C j HC (unit_row_length n i) Hn Hj).
    rewrite (sumf_ext _ (fun l => (if (l =? i)%nat then 1 else 0) * ment C l j)) by (intros l Hl; rewrite unit_row_nth by lia; reflexivity).
    rewrite (sumf_unit (fun l => ment C l j) i n Hi). reflexivity.
Qed.

Lemma matmul_ident_r r n (A : list (list R)) : mat r n A -> (0 < n)%nat -> @matmul R NumR A (@ident R NumR n) = A.
Proof.
  intros HA Hn. apply (mat_ext r n); [apply (matmul_mat r n n); [exact HA|apply ident_mat|exact Hn]|exact HA|].
  intros i j Hi Hj. rewrite (matmul_ent r n n) by (try assumption; apply ident_mat).
  rewrite (sumf_ext _ (fun l => (if (l =? j)%nat then 1 else 0) * ment A i l)) by (intros l Hl; rewrite ident_ent by lia; ring).
  apply (sumf_unit (fun l => ment A i l) j n Hj).
Qed.

Lemma idx2_lt i j a b : (i < a)%nat -> (j < b)%nat -> (i * b + j < a * b)%nat.
Proof. intros Hi Hj. assert (S i * b <= a * b)%nat by (apply Nat.mul_le_mono_r; lia). lia. Qed.
Lemma idx3_lt i j k a b c : (i < a)%nat -> (j < b)%nat -> (k < c)%nat -> ((i * b + j) * c + k < a * b * c)%nat.
Proof. intros Hi Hj Hk. apply idx2_lt; [apply idx2_lt; assumption|exact Hk]. Qed.

(* ================= 3. volume interpolation ================= *)
Section VolumeInterp.
Variables (tol : R) (bu bv bw : basis R) (us vs ws : list R) (x : list (list R)) (o : obj R).
Hypothesis Hres : @volume_interpolate R NumR tol bu bv bw us vs ws x = Ok o.
Local Notation nu := (@b_nfun R bu).
Local Notation nv := (@b_nfun R bv).
Local Notation nw := (@b_nfun R bw).
Local Notation Nu := (@colloc R NumR tol bu 0 us).
Local Notation Nv := (@colloc R NumR tol bv 0 vs).
Local Notation Nw := (@colloc R NumR tol bw 0 ws).
Local Notation dim := (length (hd [] x)).
Hypothesis Hu : length us = nu.
Hypothesis Hv : length vs = nv.
Hypothesis Hw : length ws = nw.
Hypothesis Hnu : (0 < nu)%nat.
Hypothesis Hnv : (0 < nv)%nat.
Hypothesis Hnw : (0 < nw)%nat.
Hypothesis Hx : mat (nu * nv * nw) dim x.

Lemma volume_interp_unpack : exists Iu Iv Iw,
  o = mkObj [bu; bv; bw] (@apply_dir R NumR dim [nu; nv; nw] 0 Iu (@apply_dir R NumR dim [nu; nv; nw] 1 Iv (@apply_dir R NumR dim [nu; nv; nw] 2 Iw x))) dim false /\
  mat nu nu Nu /\ mat nv nv Nv /\ mat nw nw Nw /\ mat nu nu Iu /\ mat nv nv Iv /\ mat nw nw Iw /\
  @matmul R NumR Nu Iu = @ident R NumR nu /\ @matmul R NumR Nv Iv = @ident R NumR nv /\ @matmul R NumR Nw Iw = @ident R NumR nw.
Proof.
  unfold volume_interpolate in Hres.
  destruct (@inverse R NumR Nw) as [Iw|e] eqn:EW; [|discriminate].
  destruct (@inverse R NumR Nv) as [Iv|e] eqn:EV; [|discriminate].
  destruct (@inverse R NumR Nu) as [Iu|e] eqn:EU; [|discriminate].
  exists Iu, Iv, Iw. rewrite Hu, Hv, Hw in Hres. split; [injection Hres as <-; reflexivity|].
  pose proof (colloc_mat tol bu 0 us) as HNu. rewrite Hu in HNu.
  pose proof (colloc_mat tol bv 0 vs) as HNv. rewrite Hv in HNv.
  pose proof (colloc_mat tol bw 0 ws) as HNw. rewrite Hw in HNw.
  assert (LU : length Nu = nu) by (destruct HNu; assumption). assert (LV : length Nv = nv) by (destruct HNv; assumption).
  assert (LW : length Nw = nw) by (destruct HNw; assumption).
  apply inverse_spec in EU. rewrite LU in EU. destruct EU as (EU1 & _ & HIu).
  apply inverse_spec in EV. rewrite LV in EV. destruct EV as (EV1 & _ & HIv).
  apply inverse_spec in EW. rewrite LW in EW. destruct EW as (EW1 & _ & HIw).
  repeat (split; [assumption|]). assumption.
Qed.

Lemma volume_interp_net : okn dim [nu; nv; nw] (o_cps o).
Proof.
  destruct volume_interp_unpack as (Iu & Iv & Iw & -> & _ & _ & _ & HIu & HIv & HIw & _). cbn [o_cps].
  assert (P : prodl [nu; nv; nw] = (nu * nv * nw)%nat) by (cbn [prodl fold_right]; lia).
  destruct Hx as [Lx Fx].
  apply (okn_apply_dir dim Iu nu nu [nu; nv; nw] 0); [exact HIu|cbn; lia|rewrite P; nia|].
  apply (okn_apply_dir dim Iv nv nv [nu; nv; nw] 1); [exact HIv|cbn; lia|rewrite P; nia|].
  apply (okn_apply_dir dim Iw nw nw [nu; nv; nw] 2); [exact HIw|cbn; lia|rewrite P; nia|].
  split; [exact Fx|rewrite P; exact Lx].
Qed.

(* the volume's defining triple sum at (u_i, v_j, w_k) is the grid point x_ijk *)
Theorem volume_interp_passes i j k c : (i < nu)%nat -> (j < nv)%nat -> (k < nw)%nat -> (c < dim)%nat ->
  coord c (@teval R NumR dim [nth i Nu []; nth j Nv []; nth k Nw []] (o_cps o)) = coord c (nth ((i * nv + j) * nw + k) x [])
  /\ o_bases o = [bu; bv; bw].
Proof.
  intros Hi Hj Hk Hc. pose proof volume_interp_net as [FO LO].
  destruct volume_interp_unpack as (Iu & Iv & Iw & EO & HNu & HNv & HNw & HIu & HIv & HIw & EU1 & EV1 & EW1).
  split; [|rewrite EO; reflexivity]. rewrite EO in FO, LO |- *. cbn [o_cps] in *.
  assert (P : prodl [nu; nv; nw] = (nu * nv * nw)%nat) by (cbn [prodl fold_right]; lia).
  destruct Hx as [Lx Fx].
  assert (Ok0 : okn dim [nu; nv; nw] x) by (split; [exact Fx|rewrite P; exact Lx]).
  set (y2 := @apply_dir R NumR dim [nu; nv; nw] 2 Iw x) in *.
  assert (Ok2 : okn dim [nu; nv; nw] y2) by (apply (okn_apply_dir dim Iw nw nw [nu; nv; nw] 2); [exact HIw|cbn; lia|rewrite P; nia|exact Ok0]).
  set (y1 := @apply_dir R NumR dim [nu; nv; nw] 1 Iv y2) in *.
  assert (Ok1 : okn dim [nu; nv; nw] y1) by (apply (okn_apply_dir dim Iv nv nv [nu; nv; nw] 1); [exact HIv|cbn; lia|rewrite P; nia|exact Ok2]).
  set (y0 := @apply_dir R NumR dim [nu; nv; nw] 0 Iu y1) in *.
  assert (RU : length (nth i Nu []) = nu) by (apply (mat_row nu nu); assumption).
  assert (RV : length (nth j Nv []) = nv) by (apply (mat_row nv nv); assumption).
  assert (RW : length (nth k Nw []) = nw) by (apply (mat_row nw nw); assumption).
  rewrite teval_tsum; [|exact Hc|split; [exact FO|rewrite LO; cbn [map length]; rewrite RU, RV, RW; reflexivity]].
  pose proof (tsum_apply_dir dim c Iu [unit_row nu i; nth j Nv []; nth k Nw []] 0 (nth i Nu []) y1) as T0.
  cbn [map nth upd length] in T0. rewrite unit_row_length, RV, RW in T0. fold y0 in T0.
  rewrite T0; clear T0; [|lia|exact Hc|split; [apply Ok1|cbn [map length]; rewrite ?unit_row_length, ?RV, ?RW; apply Ok1]
     |cbn [map length]; rewrite ?unit_row_length, ?RV, ?RW, P; nia|apply inverse_row_rel; assumption].
  pose proof (tsum_apply_dir dim c Iv [unit_row nu i; unit_row nv j; nth k Nw []] 1 (nth j Nv []) y2) as T1.
  cbn [map nth upd length] in T1. rewrite !unit_row_length, RW in T1. fold y1 in T1.
  rewrite T1; clear T1; [|lia|exact Hc|split; [apply Ok2|cbn [map length]; rewrite ?unit_row_length, ?RW; apply Ok2]
     |cbn [map length]; rewrite ?unit_row_length, ?RW, P; nia|apply inverse_row_rel; assumption].
  pose proof (tsum_apply_dir dim c Iw [unit_row nu i; unit_row nv j; unit_row nw k] 2 (nth k Nw []) x) as T2.
  cbn [map nth upd length] in T2. rewrite !unit_row_length in T2. fold y2 in T2.
  rewrite T2; clear T2; [|lia|exact Hc|split; [apply Ok0|cbn [map length]; rewrite ?unit_row_length; apply Ok0]
     |cbn [map length]; rewrite ?unit_row_length, P; nia|apply inverse_row_rel; assumption].
  rewrite tsum_units3 by assumption. unfold cnet. rewrite (nth_indep x _ []) by (rewrite Lx; apply idx3_lt; assumption). reflexivity.
Qed.

(* evaluate(): the interpolating volume passes through x_ijk at (u_i, v_j, w_k) *)
Theorem volume_interp_eval i j k v : sorted (kn (b_knots bu)) -> sorted (kn (b_knots bv)) -> sorted (kn (b_knots bw)) -> 0 < tol ->
  (i < nu)%nat -> (j < nv)%nat -> (k < nw)%nat ->
  @obj_eval R NumR tol o [nth i us 0; nth j vs 0; nth k ws 0] = Ok v ->
  forall c, (c < dim)%nat -> coord c v = coord c (nth ((i * nv + j) * nw + k) x []).
Proof.
  intros Su Sv Sw Htol Hi Hj Hk Hev c Hc.
  destruct (volume_interp_passes i j k c Hi Hj Hk Hc) as [P Eb]. rewrite <- P.
  destruct volume_interp_unpack as (Iu & Iv & Iw & EO & _).
  assert (Er : o_rat o = false) by (rewrite EO; reflexivity). assert (Ed : o_dim o = dim) by (rewrite EO; reflexivity).
  clear EO. unfold obj_eval in Hev. rewrite Eb in Hev. cbn [validate hd tl] in Hev.
  destruct (@validate1 R NumR tol bu (nth i us 0)) as [t1|e] eqn:E1; [|discriminate].
  destruct (@validate1 R NumR tol bv (nth j vs 0)) as [t2|e] eqn:E2; [|discriminate].
  destruct (@validate1 R NumR tol bw (nth k ws 0)) as [t3|e] eqn:E3; [|discriminate].
  assert (V : forall b t t', @validate1 R NumR tol b t = Ok t' -> t' = @snap1 R NumR (b_knots b) tol t).
  { intros b0 t0 t' EV. unfold validate1 in EV. cbv zeta in EV. destruct (_ && _); [discriminate|]. injection EV as <-. reflexivity. }
  apply V in E1, E2, E3. rewrite Er in Hev. injection Hev as <-.
  unfold eval_h, rows_at, o_ncomp. rewrite Eb, Er, Ed. cbn [length seq map nth]. rewrite Nat.add_0_r, E1, E2, E3.
  rewrite <- (colloc_row tol bu 0 us i Su Htol) by lia.
  rewrite <- (colloc_row tol bv 0 vs j Sv Htol) by lia.
  rewrite <- (colloc_row tol bw 0 ws k Sw Htol) by lia. reflexivity.
Qed.
End VolumeInterp.

(* surface interpolation at the level of evaluate() (complements InterpProofs.surface_interp_passes) *)
Theorem surface_interp_eval tol (bu bv : basis R) us vs x o i j v :
  @surface_interpolate R NumR tol bu bv us vs x = Ok o ->
  length us = @b_nfun R bu -> length vs = @b_nfun R bv -> (0 < @b_nfun R bu)%nat -> (0 < @b_nfun R bv)%nat ->
  mat (@b_nfun R bu * @b_nfun R bv) (length (hd [] x)) x ->
  sorted (kn (b_knots bu)) -> sorted (kn (b_knots bv)) -> 0 < tol -> (i < @b_nfun R bu)%nat -> (j < @b_nfun R bv)%nat ->
  @obj_eval R NumR tol o [nth i us 0; nth j vs 0] = Ok v ->
  forall c, (c < length (hd [] x))%nat -> coord c v = coord c (nth (i * @b_nfun R bv + j) x []).
Proof.
  intros Hres Hu Hv Hnu Hnv Hx Su Sv Htol Hi Hj Hev c Hc.
  destruct (surface_interp_passes tol bu bv us vs x o Hres Hu Hv Hnu Hnv Hx i j c Hi Hj Hc) as [P Eb]. rewrite <- P.
  assert (Er : o_rat o = false /\ o_dim o = length (hd [] x)).
  { unfold surface_interpolate in Hres. destruct (@inverse R NumR _); [|discriminate]. destruct (@inverse R NumR _); [|discriminate].
    injection Hres as <-. split; reflexivity. }
  destruct Er as [Er Ed]. unfold obj_eval in Hev. rewrite Eb in Hev. cbn [validate hd tl] in Hev.
  destruct (@validate1 R NumR tol bu (nth i us 0)) as [t1|e] eqn:E1; [|discriminate].
  destruct (@validate1 R NumR tol bv (nth j vs 0)) as [t2|e] eqn:E2; [|discriminate].
  assert (V : forall b t t', @validate1 R NumR tol b t = Ok t' -> t' = @snap1 R NumR (b_knots b) tol t).
  { intros b0 t0 t' EV. unfold validate1 in EV. cbv zeta in EV. destruct (_ && _); [discriminate|]. injection EV as <-. reflexivity. }
  apply V in E1, E2. rewrite Er in Hev. injection Hev as <-.
  unfold eval_h, rows_at, o_ncomp. rewrite Eb, Er, Ed. cbn [length seq map nth]. rewrite Nat.add_0_r, E1, E2.
  rewrite <- (colloc_row tol bu 0 us i Su Htol) by lia.
  rewrite <- (colloc_row tol bv 0 vs j Sv Htol) by lia. reflexivity.
Qed.

(* ================= 4. least squares for surfaces ================= *)
Section SurfaceLsq.
Variables (tol : R) (bu bv : basis R) (us vs : list R) (x : list (list R)) (o : obj R).
Hypothesis Hres : @surface_lsq R NumR tol bu bv us vs x = Ok o.
Local Notation nu := (@b_nfun R bu).
Local Notation nv := (@b_nfun R bv).
Local Notation lu := (length us).
Local Notation lv := (length vs).
Local Notation Nu := (@colloc R NumR tol bu 0 us).
Local Notation Nv := (@colloc R NumR tol bv 0 vs).
Local Notation NuT := (@transpose R NumR nu Nu).
Local Notation NvT := (@transpose R NumR nv Nv).
Local Notation Au := (@matmul R NumR NuT Nu).
Local Notation Av := (@matmul R NumR NvT Nv).
Local Notation dim := (length (hd [] x)).
Hypothesis Hnu : (0 < nu)%nat.
Hypothesis Hnv : (0 < nv)%nat.
Hypothesis Hlu : (0 < lu)%nat.
Hypothesis Hlv : (0 < lv)%nat.
Hypothesis Hx : mat (lu * lv) dim x.

Lemma surface_lsq_unpack : exists Gu Gv,
  o = mkObj [bu; bv] (@apply_dir R NumR dim [nu; nv] 0 Gu (@apply_dir R NumR dim [nu; nv] 1 Gv
        (@apply_dir R NumR dim [lu; nv] 0 NuT (@apply_dir R NumR dim [lu; lv] 1 NvT x)))) dim false /\
  mat lu nu Nu /\ mat lv nv Nv /\ mat nu lu NuT /\ mat nv lv NvT /\ mat nu nu Au /\ mat nv nv Av /\ mat nu nu Gu /\ mat nv nv Gv /\
  @matmul R NumR Au Gu = @ident R NumR nu /\ @matmul R NumR Gu Au = @ident R NumR nu /\
  @matmul R NumR Av Gv = @ident R NumR nv /\ @matmul R NumR Gv Av = @ident R NumR nv.
Proof.
  unfold surface_lsq in Hres. cbv zeta in Hres.
  destruct (@inverse R NumR Av) as [Gv|e] eqn:EV; [|discriminate].
  destruct (@inverse R NumR Au) as [Gu|e] eqn:EU; [|discriminate].
  exists Gu, Gv. split; [injection Hres as <-; reflexivity|].
  pose proof (colloc_mat tol bu 0 us) as HNu. pose proof (colloc_mat tol bv 0 vs) as HNv.
  pose proof (transpose_mat lu nu Nu HNu) as HNuT. pose proof (transpose_mat lv nv Nv HNv) as HNvT.
  pose proof (matmul_mat nu lu nu NuT Nu HNuT HNu Hlu) as HAu. pose proof (matmul_mat nv lv nv NvT Nv HNvT HNv Hlv) as HAv.
  assert (LU : length Au = nu) by (destruct HAu; assumption). assert (LV : length Av = nv) by (destruct HAv; assumption).
  apply inverse_spec in EU. rewrite LU in EU. destruct EU as (EU1 & EU2 & HGu).
  apply inverse_spec in EV. rewrite LV in EV. destruct EV as (EV1 & EV2 & HGv).
  repeat (split; [assumption|]). assumption.
Qed.

(* four chain steps: any pair of rows against the fitted net is the pair (R0 Gu NuT, R1 Gv NvT) against the data *)
Lemma surface_lsq_chain Gu Gv R0 R1 c :
  mat nu nu Gu -> mat nv nv Gv -> length R0 = nu -> length R1 = nv -> (c < dim)%nat ->
  tsum [R0; R1] (cnet dim c (@apply_dir R NumR dim [nu; nv] 0 Gu (@apply_dir R NumR dim [nu; nv] 1 Gv
        (@apply_dir R NumR dim [lu; nv] 0 NuT (@apply_dir R NumR dim [lu; lv] 1 NvT x)))))
  = tsum [rowmat (rowmat R0 Gu) NuT; rowmat (rowmat R1 Gv) NvT] (cnet dim c x).
Proof.
  intros HGu HGv L0 L1 Hc.
  pose proof (colloc_mat tol bu 0 us) as HNu. pose proof (colloc_mat tol bv 0 vs) as HNv.
  pose proof (transpose_mat lu nu Nu HNu) as HNuT. pose proof (transpose_mat lv nv Nv HNv) as HNvT.
  destruct Hx as [Lx Fx].
  assert (Ok0 : okn dim [lu; lv] x) by (split; [exact Fx|cbn [prodl fold_right]; lia]).
  set (y1 := @apply_dir R NumR dim [lu; lv] 1 NvT x).
  assert (Ok1 : okn dim [lu; nv] y1) by (apply (okn_apply_dir dim NvT nv lv [lu; lv] 1); [exact HNvT|cbn; lia|cbn [prodl fold_right]; nia|exact Ok0]).
  set (y2 := @apply_dir R NumR dim [lu; nv] 0 NuT y1).
  assert (Ok2 : okn dim [nu; nv] y2) by (apply (okn_apply_dir dim NuT nu lu [lu; nv] 0); [exact HNuT|cbn; lia|cbn [prodl fold_right]; nia|exact Ok1]).
  set (y3 := @apply_dir R NumR dim [nu; nv] 1 Gv y2).
  assert (Ok3 : okn dim [nu; nv] y3) by (apply (okn_apply_dir dim Gv nv nv [nu; nv] 1); [exact HGv|cbn; lia|cbn [prodl fold_right]; nia|exact Ok2]).
  set (A0 := rowmat R0 Gu). set (A1 := rowmat R1 Gv).
  assert (LA0 : length A0 = nu) by (apply (rowmat_length nu nu); assumption).
  assert (LA1 : length A1 = nv) by (apply (rowmat_length nv nv); assumption).
  set (B0 := rowmat A0 NuT). set (B1 := rowmat A1 NvT).
  assert (LB0 : length B0 = lu) by (apply (rowmat_length nu lu); assumption).
  assert (LB1 : length B1 = lv) by (apply (rowmat_length nv lv); assumption).
  rewrite (tsum_step' dim c Gu nu nu [R0; R1] [A0; R1] 0 [nu; nv] y3);
    [|reflexivity|cbn [map length]; rewrite LA0, L1; reflexivity|cbn; lia|exact Hc|exact HGu|exact Hnu|exact L0|exact Ok3|cbn [prodl fold_right]; nia].
  unfold y3. rewrite (tsum_step' dim c Gv nv nv [A0; R1] [A0; A1] 1 [nu; nv] y2);
    [|reflexivity|cbn [map length]; rewrite LA0, LA1; reflexivity|cbn; lia|exact Hc|exact HGv|exact Hnv|exact L1|exact Ok2|cbn [prodl fold_right]; nia].
  unfold y2. rewrite (tsum_step' dim c NuT nu lu [A0; A1] [B0; A1] 0 [lu; nv] y1);
    [|reflexivity|cbn [map length]; rewrite LB0, LA1; reflexivity|cbn; lia|exact Hc|exact HNuT|exact Hnu|exact LA0|exact Ok1|cbn [prodl fold_right]; nia].
  unfold y1. rewrite (tsum_step' dim c NvT nv lv [B0; A1] [B0; B1] 1 [lu; lv] x);
    [|reflexivity|cbn [map length]; rewrite LB0, LB1; reflexivity|cbn; lia|exact Hc|exact HNvT|exact Hnv|exact LA1|exact Ok0|cbn [prodl fold_right]; nia].
  reflexivity.
Qed.
Lemma surface_lsq_net : okn dim [nu; nv] (o_cps o) /\ o_bases o = [bu; bv] /\ o_rat o = false /\ o_dim o = dim.
Proof.
  destruct surface_lsq_unpack as (Gu & Gv & -> & HNu & HNv & HNuT & HNvT & _ & _ & HGu & HGv & _). cbn [o_cps o_bases o_rat o_dim].
  split; [|repeat split]. destruct Hx as [Lx Fx].
  apply (okn_apply_dir dim Gu nu nu [nu; nv] 0); [exact HGu|cbn; lia|cbn [prodl fold_right]; nia|].
  apply (okn_apply_dir dim Gv nv nv [nu; nv] 1); [exact HGv|cbn; lia|cbn [prodl fold_right]; nia|].
  apply (okn_apply_dir dim NuT nu lu [lu; nv] 0); [exact HNuT|cbn; lia|cbn [prodl fold_right]; nia|].
  apply (okn_apply_dir dim NvT nv lv [lu; lv] 1); [exact HNvT|cbn; lia|cbn [prodl fold_right]; nia|].
  split; [exact Fx|cbn [prodl fold_right]; lia].
Qed.

(* normal equations of the tensor-product fit, entry by entry:
     sum_{a',b'} (Nu^T Nu)[a,a'] (Nv^T Nv)[b,b'] cp[a',b']  =  sum_{i,j} Nu[i,a] Nv[j,b] x[i,j]
   i.e. the residual at the sample grid is orthogonal to every tensor-product basis function B_a(u) B_b(v) *)
Theorem surface_lsq_normal_equations a b c : (a < nu)%nat -> (b < nv)%nat -> (c < dim)%nat ->
  tsum [nth a Au []; nth b Av []] (cnet dim c (o_cps o)) = tsum [nth a NuT []; nth b NvT []] (cnet dim c x).
Proof.
  intros Ha Hb Hc.
  destruct surface_lsq_unpack as (Gu & Gv & -> & HNu & HNv & HNuT & HNvT & HAu & HAv & HGu & HGv & EU1 & EU2 & EV1 & EV2). cbn [o_cps].
  assert (RA : length (nth a Au []) = nu) by (apply (mat_row nu nu); assumption).
  assert (RB : length (nth b Av []) = nv) by (apply (mat_row nv nv); assumption).
  rewrite (surface_lsq_chain Gu Gv _ _ c HGu HGv RA RB Hc).
  rewrite <- (rowmat_unit nu nu Au a HAu Hnu Ha). rewrite <- (rowmat_unit nv nv Av b HAv Hnv Hb).
  rewrite (rowmat_assoc nu nu nu _ Au Gu (unit_row_length nu a) HAu HGu Hnu Hnu), EU1.
  rewrite (rowmat_assoc nv nv nv _ Av Gv (unit_row_length nv b) HAv HGv Hnv Hnv), EV1.
  rewrite !rowmat_ident by (try apply unit_row_length; assumption).
  rewrite (rowmat_unit nu lu NuT a HNuT Hnu Ha), (rowmat_unit nv lv NvT b HNvT Hnv Hb). reflexivity.
Qed.

(* projection: data sampled on the grid from a surface of the space (net c0) returns that surface *)
Theorem surface_lsq_projection c0 : okn dim [nu; nv] c0 ->
  x = @apply_dir R NumR dim [nu; lv] 0 Nu (@apply_dir R NumR dim [nu; nv] 1 Nv c0) -> o_cps o = c0.
Proof.
  intros Hc0 Ex. destruct surface_lsq_net as ([FO LO] & _).
  destruct surface_lsq_unpack as (Gu & Gv & EO & HNu & HNv & HNuT & HNvT & HAu & HAv & HGu & HGv & EU1 & EU2 & EV1 & EV2).
  destruct Hc0 as [F0 L0]. cbn [prodl fold_right] in LO, L0.
  apply (nth_ext _ _ (@vzero R NumR dim) (@vzero R NumR dim)); [lia|]. intros idx Hidx. rewrite LO in Hidx.
  assert (Hab : exists a b, (a < nu)%nat /\ (b < nv)%nat /\ idx = (a * nv + b)%nat).
  { exists (idx / nv)%nat, (idx mod nv)%nat. split; [apply Nat.div_lt_upper_bound; lia|]. split; [apply Nat.mod_upper_bound; lia|].
    rewrite (Nat.div_mod idx nv) at 1 by lia. lia. }
  destruct Hab as (a & b & Ha & Hb & ->).
  assert (Len1 : length (nth (a * nv + b) (o_cps o) (@vzero R NumR dim)) = dim).
  { rewrite Forall_forall in FO. apply FO, nth_In. lia. }
  assert (Len2 : length (nth (a * nv + b) c0 (@vzero R NumR dim)) = dim).
  { rewrite Forall_forall in F0. apply F0, nth_In. lia. }
  apply (nth_ext _ _ 0 0); [lia|]. intros c Hc. rewrite Len1 in Hc.
  change (cnet dim c (o_cps o) (a * nv + b)%nat = cnet dim c c0 (a * nv + b)%nat).
  rewrite <- (tsum_units2 nu nv a b (cnet dim c (o_cps o)) Ha Hb). rewrite <- (tsum_units2 nu nv a b (cnet dim c c0) Ha Hb).
  rewrite EO. cbn [o_cps].
  rewrite (surface_lsq_chain Gu Gv _ _ c HGu HGv (unit_row_length nu a) (unit_row_length nv b) Hc).
  set (A0 := rowmat (unit_row nu a) Gu). set (A1 := rowmat (unit_row nv b) Gv).
  assert (LA0 : length A0 = nu) by (apply (rowmat_length nu nu); try assumption; apply unit_row_length).
  assert (LA1 : length A1 = nv) by (apply (rowmat_length nv nv); try assumption; apply unit_row_length).
  set (B0 := rowmat A0 NuT). set (B1 := rowmat A1 NvT).
  assert (LB0 : length B0 = lu) by (apply (rowmat_length nu lu); assumption).
  assert (LB1 : length B1 = lv) by (apply (rowmat_length nv lv); assumption).
  assert (E0 : rowmat B0 Nu = unit_row nu a).
  { unfold B0. rewrite (rowmat_assoc nu lu nu A0 NuT Nu LA0 HNuT HNu Hnu Hlu). unfold A0.
    rewrite (rowmat_assoc nu nu nu _ Gu Au (unit_row_length nu a) HGu HAu Hnu Hnu), EU2. apply rowmat_ident; [apply unit_row_length|exact Hnu]. }
  assert (E1 : rowmat B1 Nv = unit_row nv b).
  { unfold B1. rewrite (rowmat_assoc nv lv nv A1 NvT Nv LA1 HNvT HNv Hnv Hlv). unfold A1.
    rewrite (rowmat_assoc nv nv nv _ Gv Av (unit_row_length nv b) HGv HAv Hnv Hnv), EV2. apply rowmat_ident; [apply unit_row_length|exact Hnv]. }
  assert (EX : cnet dim c x = cnet dim c (@apply_dir R NumR dim [nu; lv] 0 Nu (@apply_dir R NumR dim [nu; nv] 1 Nv c0)))
    by (rewrite <- Ex; reflexivity).
  rewrite EX.
  assert (Okc : okn dim [nu; nv] c0) by (split; [exact F0|cbn [prodl fold_right]; lia]).
  set (z1 := @apply_dir R NumR dim [nu; nv] 1 Nv c0).
  assert (Okz : okn dim [nu; lv] z1) by (apply (okn_apply_dir dim Nv lv nv [nu; nv] 1); [exact HNv|cbn; lia|cbn [prodl fold_right]; nia|exact Okc]).
  rewrite (tsum_step' dim c Nu lu nu [B0; B1] [unit_row nu a; B1] 0 [nu; lv] z1);
    [|cbn [upd nth]; rewrite E0; reflexivity|cbn [map length]; rewrite unit_row_length, LB1; reflexivity|cbn; lia|exact Hc|exact HNu|exact Hlu|exact LB0|exact Okz|cbn [prodl fold_right]; nia].
  unfold z1. rewrite (tsum_step' dim c Nv lv nv [unit_row nu a; B1] [unit_row nu a; unit_row nv b] 1 [nu; nv] c0);
    [|cbn [upd nth]; rewrite E1; reflexivity|cbn [map length]; rewrite !unit_row_length; reflexivity|cbn; lia|exact Hc|exact HNv|exact Hlv|exact LB1|exact Okc|cbn [prodl fold_right]; nia].
  reflexivity.
Qed.
End SurfaceLsq.

(* ================= 5. the evaluation rows at the two ends of the domain ================= *)
Section EndRows.
Variable k : list R.
Variables (p per1 : nat) (tol : R).
Hypothesis HK : sorted (kn k).
Hypothesis Hp : (1 <= p)%nat.
Hypothesis Hlen : (2 * p <= length k)%nat.
Hypothesis Htol : 0 < tol.
Local Notation K := (@kn R NumR k).
Local Notation n_all := (length k - p)%nat.
Hypothesis Hdom : tol <= K n_all - K (p - 1)%nat.        (* the domain is not shorter than the tolerance *)

Lemma normalise_start : @normalise R NumR k p per1 tol true (K (p - 1)%nat) = Some (K (p - 1)%nat, true).
Proof.
  unfold normalise, wrap_t. cbv zeta. rewrite !nabs_R. cbn [nltb nsub nadd NumR].
  set (s := K (p - 1)%nat) in *. set (e := K n_all) in *.
  assert (E1 : Rltb s s = false) by (destruct (Rltb_spec s s); [lra|reflexivity]).
  assert (E2 : Rltb e s = false) by (destruct (Rltb_spec e s); [lra|reflexivity]).
  assert (E3 : Rltb (Rabs (s - e)) tol = false).
  { destruct (Rltb_spec (Rabs (s - e)) tol) as [A|A]; [|reflexivity]. rewrite Rabs_left1 in A by lra. lra. }
  destruct (negb (per1 =? 0)%nat); cbn [negb andb]; rewrite ?E1, ?E2; cbn [orb]; rewrite ?andb_false_r, ?E3, ?E1, ?E2; cbn [orb]; rewrite ?andb_false_r; reflexivity.
Qed.

Lemma normalise_end (fr : bool) : (fr = true -> per1 = 0%nat) ->
  @normalise R NumR k p per1 tol fr (K n_all) = Some (K n_all, false).
Proof.
  intros Hfr. unfold normalise, wrap_t. cbv zeta. rewrite !nabs_R. cbn [nltb nsub nadd NumR].
  set (s := K (p - 1)%nat) in *. set (e := K n_all) in *.
  assert (E1 : Rltb e s = false) by (destruct (Rltb_spec e s); [lra|reflexivity]).
  assert (E2 : Rltb e e = false) by (destruct (Rltb_spec e e); [lra|reflexivity]).
  assert (E3 : Rltb (Rabs (e - s)) tol = false).
  { destruct (Rltb_spec (Rabs (e - s)) tol) as [A|A]; [|reflexivity]. rewrite Rabs_right in A by lra. lra. }
  assert (E4 : Rltb (Rabs (e - e)) tol = true).
  { destruct (Rltb_spec (Rabs (e - e)) tol) as [A|A]; [reflexivity|]. exfalso. apply A. replace (e - e) with 0 by ring. rewrite Rabs_R0. exact Htol. }
  destruct (Nat.eqb_spec per1 0) as [Z|Z]; cbn [negb].
  - rewrite E1, E2, E4, E3. cbn [orb andb]. reflexivity.
  - destruct fr; [exfalso; apply Z, Hfr; reflexivity|]. rewrite E1, E2. cbn [orb negb]. rewrite E3. cbn [andb]. rewrite E1, E2, E4, E3. reflexivity.
Qed.

Hypothesis Hn : (p - 1 < length k)%nat.
(* the dense rows the evaluator returns there are the property's reference rows (sums of wrapped images of dB) *)
Lemma basis_row_start (b : basis R) d : b_knots b = k -> b_order b = p -> b_per1 b = per1 -> (d < p)%nat ->
  @basis_row R NumR tol b d true (@snap1 R NumR k tol (K (p - 1)%nat)) = @ref_row R NumR true k p per1 d (K (p - 1)%nat).
Proof.
  intros E1 E2 E3 Hd. unfold basis_row. rewrite E1, E2, E3.
  pose proof (basis_evaluate_spec k p per1 HK Hp Hlen tol Htol d true [@snap1 R NumR k tol (K (p - 1)%nat)] 0 ltac:(cbn; lia)) as ES.
  cbv zeta in ES. cbn [nth] in ES. rewrite snap1_idem in ES by assumption.
  rewrite (snap1_knot k HK tol Htol (p - 1)) in ES |- * by lia.
  destruct (Nat.leb_spec p d); [lia|]. rewrite normalise_start in ES.
  destruct (@basis_evaluate R NumR k p per1 tol d true [K (p - 1)%nat]) as [|r0 rest]; cbn [hd nth] in *; [|exact ES].
  rewrite <- ES. reflexivity.
Qed.
Lemma basis_row_end (b : basis R) d fr : b_knots b = k -> b_order b = p -> b_per1 b = per1 -> (d < p)%nat ->
  (fr = true -> per1 = 0%nat) ->
  @basis_row R NumR tol b d fr (@snap1 R NumR k tol (K n_all)) = @ref_row R NumR false k p per1 d (K n_all).
Proof.
  intros E1 E2 E3 Hd Hfr. unfold basis_row. rewrite E1, E2, E3.
  pose proof (basis_evaluate_spec k p per1 HK Hp Hlen tol Htol d fr [@snap1 R NumR k tol (K n_all)] 0 ltac:(cbn; lia)) as ES.
  cbv zeta in ES. cbn [nth] in ES. rewrite snap1_idem in ES by assumption.
  rewrite (snap1_knot k HK tol Htol n_all) in ES |- * by lia.
  destruct (Nat.leb_spec p d); [lia|]. rewrite (normalise_end fr Hfr) in ES.
  destruct (@basis_evaluate R NumR k p per1 tol d fr [K n_all]) as [|r0 rest]; cbn [hd nth] in *; [|exact ES].
  rewrite <- ES. reflexivity.
Qed.
End EndRows.

(* ================= 6. cubic_curve, Boundary.PERIODIC ================= *)
Lemma last_nth (l : list R) : l <> [] -> last l 0 = nth (length l - 1) l 0.
Proof.
  induction l as [|a l IH]; intros H; [contradiction|]. destruct l as [|a' l']; [reflexivity|].
  change (last (a :: a' :: l') 0) with (last (a' :: l') 0). rewrite IH by discriminate.
  replace (length (a :: a' :: l') - 1)%nat with (S (length (a' :: l') - 1)) by (cbn [length]; lia). reflexivity.
Qed.

Section CubicPeriodic.
Variable t : list R.
Local Notation N := (length t).
Local Notation k := (@cubic_periodic_knots R NumR t).
Local Notation K := (@kn R NumR k).
Local Notation n := (N - 1)%nat.
Local Notation t0 := (hd 0 t).
Local Notation tn := (last t 0).
Hypothesis HN : (4 <= N)%nat.
Hypothesis HK : sorted K.
Hypothesis Hfirst : t0 < nth 1 t 0.                  (* the first and the last interval are not empty *)
Hypothesis Hlast : nth (N - 2) t 0 < tn.

Lemma cpk_length : length k = (N + 6)%nat.
Proof. unfold cubic_periodic_knots. cbv zeta. rewrite !app_length. cbn [length]. lia. Qed.
Lemma cpk_nfun : @b_nfun R (@cubic_periodic_basis R NumR t) = n.
Proof. unfold b_nfun, cubic_periodic_basis. cbn [b_knots b_order b_per1]. rewrite cpk_length. lia. Qed.
Lemma t0_nth : t0 = nth 0 t 0. Proof. destruct t; reflexivity. Qed.
Lemma tn_nth : tn = nth (N - 1) t 0. Proof. apply last_nth. destruct t; [cbn in HN; lia|discriminate]. Qed.

Lemma cpk_lo j : (j < 3)%nat -> K j = t0 + nth (N - 4 + j) t 0 - tn.
Proof.
  intros Hj. rewrite (kn_in k j ltac:(rewrite cpk_length; lia) 0). unfold cubic_periodic_knots. cbv zeta. cbn [nsub nadd NumR].
  destruct j as [|[|[|j]]]; [| | |lia]; cbn [app nth].
  - replace (N - 4 + 0)%nat with (N - 4)%nat by lia. reflexivity.
  - replace (N - 4 + 1)%nat with (N - 3)%nat by lia. reflexivity.
  - replace (N - 4 + 2)%nat with (N - 2)%nat by lia. reflexivity.
Qed.
Lemma cpk_mid j : (j < N)%nat -> K (3 + j) = nth j t 0.
Proof.
  intros Hj. rewrite (kn_in k (3 + j) ltac:(rewrite cpk_length; lia) 0). unfold cubic_periodic_knots. cbv zeta.
  cbn [app Nat.add nth]. apply app_nth1. exact Hj.
Qed.
Lemma cpk_hi j : (j < 3)%nat -> K (N + 3 + j) = tn + nth (1 + j) t 0 - t0.
Proof.
  intros Hj. rewrite (kn_in k (N + 3 + j) ltac:(rewrite cpk_length; lia) 0). unfold cubic_periodic_knots. cbv zeta. cbn [nsub nadd NumR].
  replace (N + 3 + j)%nat with (3 + (N + j))%nat by lia. cbn [app Nat.add nth].
  rewrite app_nth2 by lia. replace (N + j - N)%nat with j by lia.
  destruct j as [|[|[|j]]]; [| | |lia]; cbn [nth]; reflexivity.
Qed.

Lemma cpk_start : K 3 = t0. Proof. change 3%nat with (3 + 0)%nat. rewrite cpk_mid by lia. symmetry. apply t0_nth. Qed.
Lemma cpk_end : K (N + 2) = tn. Proof. replace (N + 2)%nat with (3 + (N - 1))%nat by lia. rewrite cpk_mid by lia. symmetry. apply tn_nth. Qed.

(* the ghost knots are exact periodic images: the knot vector has period tn - t0 over n = N - 1 functions *)
Lemma cpk_periodic i : (i + n <= n + 2 + 3 + 1)%nat -> K (i + n) = K i + (tn - t0).
Proof.
  intros Hi. assert (Hi' : (i <= 6)%nat) by lia.
  destruct (Nat.lt_ge_cases i 3) as [L|L].
  - rewrite (cpk_lo i L). replace (i + n)%nat with (3 + (N - 4 + i))%nat by lia. rewrite cpk_mid by lia. ring.
  - destruct (Nat.eq_dec i 3) as [->|Ne].
    + replace (3 + n)%nat with (N + 2)%nat by lia. rewrite cpk_end, cpk_start. ring.
    + replace (i + n)%nat with (N + 3 + (i - 4))%nat by lia. rewrite cpk_hi by lia.
      replace i with (3 + (1 + (i - 4)))%nat at 2 by lia. rewrite cpk_mid by lia. ring.
Qed.

(* closed C2 at the level of the rows the evaluator returns: the row of r-th derivatives from the right at t0 equals the
   row from the left at tn, column by column, r = 0, 1, 2 *)
Theorem cubic_periodic_seam_rows r : (r <= 2)%nat ->
  @ref_row R NumR true k 4 3 r t0 = @ref_row R NumR false k 4 3 r tn.
Proof.
  intros Hr. unfold ref_row. cbv zeta. rewrite cpk_length.
  replace (N + 6 - 4 - 3)%nat with n by lia. replace (N + 6 - 4)%nat with (n + 2 + 1)%nat by lia.
  apply map_ext. intros c. cbn [nadd n0 NumR]. change (4 - 1)%nat with 3%nat.
  rewrite (fold_cond_sum (fun i => (i mod n =? c)%nat) (fun i => @dBq R NumR true K r 3 i t0)).
  rewrite (fold_cond_sum (fun i => (i mod n =? c)%nat) (fun i => @dBq R NumR false K r 3 i tn)).
  f_equal.
  pose proof (seam_derivatives_list K HK 3 n 2 (tn - t0) ltac:(lia) ltac:(lia) cpk_periodic
                (fun i => if (i mod n =? c)%nat then 1 else 0)) as Q.
  assert (Hc : forall i, (if ((i + n) mod n =? c)%nat then 1 else 0) = (if (i mod n =? c)%nat then 1 else 0)).
  { intros i. replace (i + n)%nat with (i + 1 * n)%nat by lia. rewrite Nat.mod_add by lia. reflexivity. }
  specialize (Q Hc).
  assert (S1 : K 2 < K 3).
  { rewrite cpk_start, (cpk_lo 2) by lia. replace (N - 4 + 2)%nat with (N - 2)%nat by lia. lra. }
  assert (S3 : K 3 < K 4).
  { rewrite cpk_start. change 4%nat with (3 + 1)%nat. rewrite cpk_mid by lia. exact Hfirst. }
  specialize (Q S1 eq_refl S3 r Hr). rewrite cpk_start in Q. replace (3 + n)%nat with (N + 2)%nat in Q by lia. rewrite cpk_end in Q.
  etransitivity; [|etransitivity; [exact Q|]]; apply sumf_ext; intros i _; rewrite dBq_R;
    destruct (i mod n =? c)%nat; ring.
Qed.
End CubicPeriodic.

Lemma nth_removelast {A} (l : list A) i d : (i < length l - 1)%nat -> nth i (removelast l) d = nth i l d.
Proof. intros H. rewrite removelast_firstn_len. apply nth_firstn_lt. lia. Qed.
Lemma length_removelast {A} (l : list A) : length (removelast l) = (length l - 1)%nat.
Proof. rewrite removelast_firstn_len, firstn_length. lia. Qed.

Section CubicPeriodicObj.
Variables (tol : R) (t : list R) (x : list (list R)) (o : obj R).
Hypothesis Hres : @cubic_periodic R NumR tol t x = Ok o.
Local Notation N := (length t).
Local Notation k := (@cubic_periodic_knots R NumR t).
Local Notation b := (@cubic_periodic_basis R NumR t).
Local Notation n := (N - 1)%nat.
Local Notation dim := (length (hd [] x)).
Local Notation A := (@colloc R NumR tol b 0 (removelast t)).
Hypothesis HN : (4 <= N)%nat.
Hypothesis HK : sorted (kn k).
Hypothesis Hfirst : hd 0 t < nth 1 t 0.
Hypothesis Hlast : nth (N - 2) t 0 < last t 0.
Hypothesis Htol : 0 < tol.
Hypothesis Hdom : tol <= last t 0 - hd 0 t.
Hypothesis Hx : length x = N.

Lemma cubic_periodic_obj : o_bases o = [b] /\ o_rat o = false /\ o_dim o = dim /\
  @matmul R NumR A (o_cps o) = removelast x /\ mat n dim (o_cps o) /\ mat n n A.
Proof.
  unfold cubic_periodic in Hres. cbv zeta in Hres.
  destruct (@solve_shaped R NumR A (removelast x)) as [cp|e] eqn:E; [|discriminate]. injection Hres as <-. cbn [o_bases o_rat o_dim o_cps].
  apply solve_shaped_spec in E. destruct E as [E1 E2].
  pose proof (colloc_mat tol b 0 (removelast t)) as HA. rewrite length_removelast, (cpk_nfun t HN) in HA.
  destruct HA as [LA FA]. rewrite LA in E2.
  assert (Eh : hd [] (removelast x) = hd [] x).
  { destruct x as [|x0 [|x1 xr]]; [cbn in Hx; lia|cbn in Hx; lia|reflexivity]. }
  rewrite Eh in E2. split; [reflexivity|]. split; [reflexivity|]. split; [reflexivity|]. split; [exact E1|]. split; [exact E2|]. split; assumption.
Qed.

(* the closed curve passes through x_i at t_i (the closing point x_{N-1} = x_0 is reached at t_{N-1} by periodicity) *)
Theorem cubic_periodic_passes_through i v : (i < n)%nat ->
  @obj_eval R NumR tol o [nth i t 0] = Ok v -> forall c, (c < dim)%nat -> coord c v = nth c (nth i x []) 0.
Proof.
  intros Hi Hev c Hc. destruct cubic_periodic_obj as (Eb & Er & Ed & E & Hcp & HA).
  unfold obj_eval in Hev. rewrite Eb in Hev. cbn [validate hd tl] in Hev.
  destruct (@validate1 R NumR tol b (nth i t 0)) as [t'|e] eqn:EV; [|discriminate].
  assert (Et' : t' = @snap1 R NumR (b_knots b) tol (nth i t 0)).
  { unfold validate1 in EV. cbv zeta in EV. destruct (_ && _); [discriminate|]. injection EV as <-. reflexivity. }
  rewrite Er in Hev. injection Hev as <-.
  unfold eval_h, rows_at, o_ncomp. rewrite Eb, Er, Ed. cbn [length seq map nth]. rewrite Nat.add_0_r, Et'.
  rewrite <- (nth_removelast t i 0) by lia.
  rewrite <- (colloc_row tol b 0 (removelast t) i HK Htol) by (rewrite length_removelast; lia).
  destruct Hcp as [Lcp Fcp].
  rewrite teval_curve; [|exact Fcp|rewrite (mat_row n n A i HA Hi); exact Lcp|exact Hc].
  rewrite (matmul_row_lc n n dim A (o_cps o) i c HA (conj Lcp Fcp)) by (try assumption; lia).
  rewrite E. unfold ment. rewrite nth_removelast by lia. reflexivity.
Qed.

(* closed C2: value, first and second derivative of the returned curve from the right at the start t0 equal those from
   the left at the end tn *)
Theorem cubic_periodic_closed_C2 r : (r <= 2)%nat ->
  exists v, @obj_deriv R NumR tol o [r] [true] [hd 0 t] = Ok v /\ @obj_deriv R NumR tol o [r] [false] [last t 0] = Ok v.
Proof.
  intros Hr. destruct cubic_periodic_obj as (Eb & Er & Ed & _).
  pose proof (cpk_length t HN) as Lk.
  assert (Hdom' : tol <= @kn R NumR k (length k - 4) - @kn R NumR k (4 - 1)).
  { rewrite Lk. replace (N + 6 - 4)%nat with (N + 2)%nat by lia. change (4 - 1)%nat with 3%nat.
    rewrite (cpk_end t HN), (cpk_start t HN). exact Hdom. }
  pose proof (basis_row_start k 4 3 tol HK ltac:(lia) ltac:(rewrite Lk; lia) Htol Hdom' ltac:(rewrite Lk; lia) b r eq_refl eq_refl eq_refl ltac:(lia)) as RS.
  pose proof (basis_row_end k 4 3 tol HK ltac:(lia) ltac:(rewrite Lk; lia) Htol Hdom' b r false eq_refl eq_refl eq_refl ltac:(lia) ltac:(discriminate)) as RE.
  change (4 - 1)%nat with 3%nat in RS. rewrite (cpk_start t HN) in RS.
  rewrite Lk in RE. replace (N + 6 - 4)%nat with (N + 2)%nat in RE by lia. rewrite (cpk_end t HN) in RE.
  eexists. unfold obj_deriv. rewrite Eb, Er. cbn [validate hd tl]. unfold validate1. cbv zeta. cbn [b_per1 cubic_periodic_basis Nat.eqb andb].
  unfold eval_h, rows_at. rewrite Eb. cbn [length seq map nth b_knots].
  rewrite RS, RE. rewrite (cubic_periodic_seam_rows t HN HK Hfirst Hlast r Hr). split; reflexivity.
Qed.
End CubicPeriodicObj.
