(* ------------------------------------------------------------------------- *)
(*  C18, mesh export: the face ordering and the boundary blocks written by     *)
(*  OpenFOAM.write (splipy/io/ofoam.py), model in Model/OFoam.v.               *)
(*  Everything below holds for EVERY list of faces.                            *)
(* ------------------------------------------------------------------------- *)
From Coq Require Import List Arith ZArith Bool Lia Permutation Sorted.
From SplipyModel Require Import Model.OFoam.
Import ListNotations.

(* ========================================================================= *)
(*  Generic list facts                                                       *)
(* ========================================================================= *)

Lemma SSorted_weaken {A} (R R' : A -> A -> Prop) l :
  (forall x y, R x y -> R' x y) -> StronglySorted R l -> StronglySorted R' l.
Proof.
  intros HW HS. induction HS as [|a l HS IH HF]; constructor; auto.
  eapply Forall_impl; [|exact HF]. intros; auto.
Qed.

Lemma SSorted_filter_weaken {A} (R R' : A -> A -> Prop) (p : A -> bool) l :
  StronglySorted R l ->
  (forall x y, p x = true -> p y = true -> R x y -> R' x y) ->
  StronglySorted R' (filter p l).
Proof.
  intros HS HW. induction HS as [|a l HS IH HF]; cbn; [constructor|].
  destruct (p a) eqn:E; [|exact IH].
  constructor; [exact IH|].
  apply Forall_forall. intros z Hz. apply filter_In in Hz. destruct Hz as [Hz Pz].
  apply HW; auto. rewrite Forall_forall in HF. apply HF, Hz.
Qed.

Lemma SSorted_filter {A} (R : A -> A -> Prop) (p : A -> bool) l :
  StronglySorted R l -> StronglySorted R (filter p l).
Proof. intros HS. apply SSorted_filter_weaken with (R := R); auto. Qed.

Lemma SSorted_True {A} (l : list A) : StronglySorted (fun _ _ => True) l.
Proof.
  induction l; constructor; auto. apply Forall_forall; auto.
Qed.

(* index formulation of StronglySorted *)
Lemma SSorted_nth {A} (R : A -> A -> Prop) l :
  StronglySorted R l ->
  forall i j x y, i < j -> nth_error l i = Some x -> nth_error l j = Some y -> R x y.
Proof.
  intros HS. induction HS as [|a l HS IH HF]; intros i j x y Hij Hi Hj.
  - destruct i; discriminate.
  - destruct j as [|j]; [lia|]. cbn in Hj. destruct i as [|i]; cbn in Hi.
    + injection Hi as <-. rewrite Forall_forall in HF. apply HF.
      eapply nth_error_In; eauto.
    + eapply IH; [|eauto|eauto]. lia.
Qed.

Lemma SSorted_of_nth {A} (R : A -> A -> Prop) l :
  (forall i j x y, i < j -> nth_error l i = Some x -> nth_error l j = Some y -> R x y) ->
  StronglySorted R l.
Proof.
  induction l as [|a l IH]; intros H; constructor.
  - apply IH. intros i j x y Hij Hi Hj. apply (H (S i) (S j)); auto. lia.
  - apply Forall_forall. intros z Hz. apply In_nth_error in Hz. destruct Hz as [n Hn].
    apply (H 0 (S n)); auto. lia.
Qed.

Lemma filter_all_false {A} (p : A -> bool) l :
  (forall x, In x l -> p x = false) -> filter p l = [].
Proof.
  induction l as [|a l IH]; intros H; cbn; auto.
  rewrite (H a (or_introl eq_refl)). apply IH. intros; apply H; right; auto.
Qed.

Lemma filter_all_true {A} (p : A -> bool) l :
  (forall x, In x l -> p x = true) -> filter p l = l.
Proof.
  induction l as [|a l IH]; intros H; cbn; auto.
  rewrite (H a (or_introl eq_refl)). f_equal. apply IH. intros; apply H; right; auto.
Qed.

(* a list sorted by R, p downward closed under R: the p-elements come first *)
Lemma sorted_partition {A} (R : A -> A -> Prop) (p : A -> bool) l :
  StronglySorted R l ->
  (forall x y, R x y -> p y = true -> p x = true) ->
  l = filter p l ++ filter (fun x => negb (p x)) l.
Proof.
  intros HS HD. induction HS as [|a l HS IH HF]; cbn; auto.
  destruct (p a) eqn:E; cbn.
  - f_equal. exact IH.
  - rewrite Forall_forall in HF.
    assert (HA : forall x, In x l -> p x = false).
    { intros x Hx. destruct (p x) eqn:Ex; auto.
      rewrite (HD a x (HF x Hx) Ex) in E. discriminate. }
    rewrite (filter_all_false p l HA). cbn. f_equal.
    symmetry. apply filter_all_true. intros x Hx. rewrite (HA x Hx). reflexivity.
Qed.

Lemma filter_perm {A} (p : A -> bool) l l' :
  Permutation l l' -> Permutation (filter p l) (filter p l').
Proof.
  induction 1; cbn.
  - constructor.
  - destruct (p x); auto.
  - destruct (p x), (p y); auto. apply perm_swap.
  - eapply perm_trans; eauto.
Qed.

Lemma filter_compl_length {A} (p : A -> bool) l :
  length (filter p l) + length (filter (fun x => negb (p x)) l) = length l.
Proof.
  induction l as [|a l IH]; cbn; auto. destruct (p a); cbn; lia.
Qed.

Lemma app_firstn_skipn {A} (l a b : list A) n :
  l = a ++ b -> length a = n -> firstn n l = a /\ skipn n l = b.
Proof.
  intros -> <-. split.
  - rewrite firstn_app, firstn_all, Nat.sub_diag. cbn. apply app_nil_r.
  - rewrite skipn_app, skipn_all, Nat.sub_diag. reflexivity.
Qed.

Lemma SSorted_lt_NoDup l : StronglySorted lt l -> NoDup l.
Proof.
  induction 1 as [|a l HS IH HF]; constructor; auto.
  intros Hin. rewrite Forall_forall in HF. specialize (HF a Hin). lia.
Qed.

(* ========================================================================= *)
(*  Generic facts about the stable insertion sort                             *)
(* ========================================================================= *)

Section SortGeneric.
  Context {A K : Type} (key : A -> K) (leb : K -> K -> bool).

  Lemma sinsert_perm x s : Permutation (x :: s) (sinsert key leb x s).
  Proof.
    induction s as [|y t IH]; cbn.
    - reflexivity.
    - destruct (leb (key x) (key y)).
      + reflexivity.
      + eapply perm_trans; [apply perm_swap|]. apply perm_skip. exact IH.
  Qed.

  Lemma ssort_perm l : Permutation l (ssort key leb l).
  Proof.
    induction l as [|x t IH]; cbn.
    - constructor.
    - eapply perm_trans; [apply perm_skip; exact IH|]. apply sinsert_perm.
  Qed.

  Lemma ssort_In l x : In x (ssort key leb l) <-> In x l.
  Proof.
    split; apply Permutation_in; [symmetry|]; apply ssort_perm.
  Qed.

  (* stability: a predicate whose members have pairwise <=-related keys sees
     its members in the input order *)
  Lemma sinsert_filter (p : A -> bool) x s :
    (forall y, p x = true -> p y = true -> leb (key x) (key y) = true) ->
    filter p (sinsert key leb x s) = if p x then x :: filter p s else filter p s.
  Proof.
    intros H. induction s as [|y t IH]; cbn.
    - reflexivity.
    - destruct (leb (key x) (key y)) eqn:E; cbn.
      + reflexivity.
      + rewrite IH. destruct (p x) eqn:Px, (p y) eqn:Py; auto.
        rewrite (H y eq_refl Py) in E. discriminate.
  Qed.

  Lemma ssort_filter_stable (p : A -> bool) l :
    (forall x y, p x = true -> p y = true -> leb (key x) (key y) = true) ->
    filter p (ssort key leb l) = filter p l.
  Proof.
    intros H. induction l as [|x t IH]; cbn; auto.
    rewrite sinsert_filter; [|intros; apply H; auto].
    rewrite IH. reflexivity.
  Qed.

  Hypothesis leb_total : forall a b, leb a b = true \/ leb b a = true.
  Hypothesis leb_trans : forall a b c, leb a b = true -> leb b c = true -> leb a c = true.

  Variable R : A -> A -> Prop.

  (* lexicographic: by key, ties (keys equivalent) by R *)
  Definition lexR (x y : A) : Prop :=
    leb (key x) (key y) = true /\ (leb (key y) (key x) = true -> R x y).

  Lemma sinsert_lex x s :
    StronglySorted lexR s -> Forall (R x) s -> StronglySorted lexR (sinsert key leb x s).
  Proof.
    induction s as [|y t IH]; intros HS HR; cbn.
    - constructor; constructor.
    - apply StronglySorted_inv in HS. destruct HS as [HS Hy].
      inversion HR as [|? ? Rxy HRt]; subst.
      rewrite Forall_forall in Hy, HRt.
      destruct (leb (key x) (key y)) eqn:E.
      + constructor.
        * constructor; auto. apply Forall_forall. exact Hy.
        * constructor.
          -- split; auto.
          -- apply Forall_forall. intros z Hz. split.
             ++ eapply leb_trans; [exact E|]. apply (Hy z Hz).
             ++ intros _. apply HRt, Hz.
      + constructor.
        * apply IH; auto. apply Forall_forall. exact HRt.
        * apply Forall_forall. intros z Hz.
          apply (Permutation_in _ (Permutation_sym (sinsert_perm x t))) in Hz.
          destruct Hz as [<-|Hz].
          -- split.
             ++ destruct (leb_total (key x) (key y)) as [H|H]; [congruence|exact H].
             ++ intros H. congruence.
          -- apply Hy, Hz.
  Qed.

  (* a list sorted by R (the previous, less important sort) becomes sorted
     lexicographically by (key, R) *)
  Lemma ssort_lex l : StronglySorted R l -> StronglySorted lexR (ssort key leb l).
  Proof.
    induction l as [|x t IH]; intros HS; cbn.
    - constructor.
    - apply StronglySorted_inv in HS. destruct HS as [HS HF].
      apply sinsert_lex; [apply IH, HS|].
      rewrite Forall_forall in *. intros z Hz. apply HF. apply (proj1 (ssort_In t z)). exact Hz.
  Qed.
End SortGeneric.

Lemma ssort_sorted {A K} (key : A -> K) (leb : K -> K -> bool) :
  (forall a b, leb a b = true \/ leb b a = true) ->
  (forall a b c, leb a b = true -> leb b c = true -> leb a c = true) ->
  forall l, StronglySorted (fun x y => leb (key x) (key y) = true) (ssort key leb l).
Proof.
  intros Ht Htr l.
  eapply SSorted_weaken; [|apply (ssort_lex key leb Ht Htr (fun _ _ => True)), SSorted_True].
  intros x y [H _]. exact H.
Qed.

(* ========================================================================= *)
(*  The three key orders                                                      *)
(* ========================================================================= *)

Definition name_le (a b : option nat) : Prop :=
  match a, b with
  | None, _ => True
  | Some _, None => False
  | Some x, Some y => x <= y
  end.

Definition name_lt (a b : option nat) : Prop :=
  match a, b with
  | None, None => False
  | None, Some _ => True
  | Some _, None => False
  | Some x, Some y => x < y
  end.

Lemma name_leb_le a b : name_leb a b = true <-> name_le a b.
Proof.
  destruct a, b; cbn; try (split; auto; discriminate). apply Nat.leb_le.
Qed.

Lemma name_leb_total a b : name_leb a b = true \/ name_leb b a = true.
Proof.
  destruct a as [a|], b as [b|]; cbn; auto.
  destruct (le_ge_dec a b); [left|right]; apply Nat.leb_le; lia.
Qed.

Lemma name_leb_trans a b c : name_leb a b = true -> name_leb b c = true -> name_leb a c = true.
Proof.
  destruct a, b, c; cbn; auto; try discriminate. rewrite !Nat.leb_le. lia.
Qed.

Lemma name_leb_refl a : name_leb a a = true.
Proof. destruct a; cbn; auto. apply Nat.leb_refl. Qed.

Lemma name_eqb_spec a b : reflect (a = b) (name_eqb a b).
Proof.
  destruct a as [a|], b as [b|]; cbn; try (constructor; congruence).
  destruct (Nat.eqb_spec a b); constructor; congruence.
Qed.

Lemma name_le_neq_lt a b : name_le a b -> a <> b -> name_lt a b.
Proof.
  destruct a as [a|], b as [b|]; cbn; intros H Hn; auto; try congruence.
  assert (a <> b) by congruence. lia.
Qed.

Lemma name_lt_trans a b c : name_lt a b -> name_lt b c -> name_lt a c.
Proof. destruct a, b, c; cbn; auto; try tauto. lia. Qed.

Lemma name_lt_le a b : name_lt a b -> name_le a b.
Proof. destruct a, b; cbn; auto. lia. Qed.

Lemma name_le_antisym a b : name_le a b -> name_le b a -> a = b.
Proof. destruct a, b; cbn; auto; try tauto. intros. f_equal. lia. Qed.

Lemma nat_leb_total a b : Nat.leb a b = true \/ Nat.leb b a = true.
Proof. destruct (le_ge_dec a b); [left|right]; apply Nat.leb_le; lia. Qed.

Lemma nat_leb_trans a b c : Nat.leb a b = true -> Nat.leb b c = true -> Nat.leb a c = true.
Proof. rewrite !Nat.leb_le. lia. Qed.

Lemma Z_leb_total a b : Z.leb a b = true \/ Z.leb b a = true.
Proof. destruct (Z_le_gt_dec a b); [left|right]; apply Z.leb_le; lia. Qed.

Lemma Z_leb_trans a b c : Z.leb a b = true -> Z.leb b c = true -> Z.leb a c = true.
Proof. rewrite !Z.leb_le. lia. Qed.

(* ========================================================================= *)
(*  Specification relations on faces                                          *)
(* ========================================================================= *)

(* (owner, neighbor) lexicographic *)
Definition own_nb_le (x y : face) : Prop :=
  f_owner x < f_owner y \/ (f_owner x = f_owner y /\ (f_neighbor x <= f_neighbor y)%Z).

(* (name, owner, neighbor) lexicographic, None before every name *)
Definition face_le (x y : face) : Prop :=
  name_lt (f_name x) (f_name y) \/ (f_name x = f_name y /\ own_nb_le x y).

Definition has_name (n : option nat) (f : face) : bool := name_eqb (f_name f) n.

Definition same_key (f0 f : face) : bool :=
  name_eqb (f_name f) (f_name f0) && Nat.eqb (f_owner f) (f_owner f0)
  && Z.eqb (f_neighbor f) (f_neighbor f0).

(* ========================================================================= *)
(*  1. permutation                                                            *)
(* ========================================================================= *)

Theorem ofoam_order_perm : forall faces, Permutation faces (ofoam_order faces).
Proof.
  intros faces. unfold ofoam_order.
  eapply perm_trans; [apply (ssort_perm f_neighbor Z.leb)|].
  eapply perm_trans; [apply (ssort_perm f_owner Nat.leb)|].
  apply ssort_perm.
Qed.

Corollary ofoam_order_length : forall faces, length (ofoam_order faces) = length faces.
Proof. intros. symmetry. apply Permutation_length, ofoam_order_perm. Qed.

Corollary ofoam_order_In : forall faces f, In f (ofoam_order faces) <-> In f faces.
Proof.
  intros; split; apply Permutation_in; [symmetry|]; apply ofoam_order_perm.
Qed.

(* ========================================================================= *)
(*  master sortedness: (name, owner, neighbor) lexicographic                  *)
(* ========================================================================= *)

Theorem ofoam_order_sorted : forall faces, StronglySorted face_le (ofoam_order faces).
Proof.
  intros faces. unfold ofoam_order.
  pose proof (ssort_sorted f_neighbor Z.leb Z_leb_total Z_leb_trans faces) as H1.
  pose proof (ssort_lex f_owner Nat.leb nat_leb_total nat_leb_trans _ _ H1) as H2.
  pose proof (ssort_lex f_name name_leb name_leb_total name_leb_trans _ _ H2) as H3.
  eapply SSorted_weaken; [|exact H3].
  clear. intros x y [Hn Ht]. unfold face_le.
  destruct (name_eqb_spec (f_name x) (f_name y)) as [E|NE].
  - right. split; auto.
    rewrite E in Ht. specialize (Ht (name_leb_refl _)). destruct Ht as [Ho Ht].
    apply Nat.leb_le in Ho. unfold own_nb_le.
    destruct (Nat.eq_dec (f_owner x) (f_owner y)) as [Eo|NEo].
    + right. split; auto. apply Z.leb_le. apply Ht. rewrite Eo. apply Nat.leb_refl.
    + left. lia.
  - left. apply name_le_neq_lt; auto. apply name_leb_le. exact Hn.
Qed.

Corollary ofoam_order_sorted_index : forall faces i j x y,
  i < j ->
  nth_error (ofoam_order faces) i = Some x ->
  nth_error (ofoam_order faces) j = Some y ->
  face_le x y.
Proof. intros faces. apply SSorted_nth, ofoam_order_sorted. Qed.

(* ========================================================================= *)
(*  2. internal faces first                                                   *)
(* ========================================================================= *)

Lemma face_le_internal x y : face_le x y -> is_internal y = true -> is_internal x = true.
Proof.
  unfold face_le, is_internal. intros H Hy.
  destruct (f_name y) eqn:Ey; [discriminate|].
  destruct (f_name x) eqn:Ex; auto.
  destruct H as [H|[H _]]; [cbn in H; tauto|discriminate].
Qed.

Theorem ofoam_internal_first : forall faces,
  ofoam_order faces =
  filter is_internal (ofoam_order faces) ++ filter is_boundary (ofoam_order faces).
Proof.
  intros faces.
  apply (sorted_partition face_le is_internal); [apply ofoam_order_sorted|].
  apply face_le_internal.
Qed.

Lemma n_internal_order faces : n_internal (ofoam_order faces) = n_internal faces.
Proof.
  unfold n_internal. symmetry. apply Permutation_length, filter_perm, ofoam_order_perm.
Qed.

(* the first ninternal faces are exactly the internal ones *)
Theorem ofoam_internal_index : forall faces i f,
  nth_error (ofoam_order faces) i = Some f ->
  (is_internal f = true <-> i < n_internal faces).
Proof.
  intros faces i f Hi.
  rewrite <- n_internal_order. unfold n_internal.
  rewrite ofoam_internal_first in Hi.
  set (I := filter is_internal (ofoam_order faces)) in *.
  set (B := filter is_boundary (ofoam_order faces)) in *.
  destruct (lt_dec i (length I)) as [Hlt|Hge].
  - rewrite nth_error_app1 in Hi by exact Hlt.
    apply nth_error_In in Hi. apply filter_In in Hi. tauto.
  - rewrite nth_error_app2 in Hi by lia.
    apply nth_error_In in Hi. apply filter_In in Hi. destruct Hi as [_ Hb].
    unfold is_boundary in Hb. destruct (is_internal f); [discriminate|].
    split; [discriminate|lia].
Qed.

Corollary ofoam_internal_before_boundary : forall faces i j f g,
  nth_error (ofoam_order faces) i = Some f ->
  nth_error (ofoam_order faces) j = Some g ->
  f_name f = None -> f_name g <> None -> i < j.
Proof.
  intros faces i j f g Hi Hj Hf Hg.
  pose proof (ofoam_internal_index faces i f Hi) as [Hi1 _].
  pose proof (ofoam_internal_index faces j g Hj) as [_ Hj2].
  unfold is_internal in *. rewrite Hf in Hi1. specialize (Hi1 eq_refl).
  destruct (lt_dec j (n_internal faces)) as [Hlt|]; [|lia].
  specialize (Hj2 Hlt). destruct (f_name g); [discriminate|]. congruence.
Qed.

Theorem ofoam_firstn_internal : forall faces,
  firstn (n_internal faces) (ofoam_order faces) = filter is_internal (ofoam_order faces) /\
  skipn (n_internal faces) (ofoam_order faces) = filter is_boundary (ofoam_order faces).
Proof.
  intros faces. apply app_firstn_skipn.
  - apply ofoam_internal_first.
  - apply n_internal_order.
Qed.

(* ========================================================================= *)
(*  3. internal faces sorted by (owner, neighbor)                             *)
(* ========================================================================= *)

Lemma face_le_same_name n x y :
  has_name n x = true -> has_name n y = true -> face_le x y -> own_nb_le x y.
Proof.
  unfold has_name. intros Hx Hy H.
  destruct (name_eqb_spec (f_name x) n) as [Ex|]; [|discriminate].
  destruct (name_eqb_spec (f_name y) n) as [Ey|]; [|discriminate].
  destruct H as [H|[_ H]]; auto.
  rewrite Ex, Ey in H. destruct n; cbn in H; [lia|tauto].
Qed.

(* 4c (and 3 for n = None): within one name the faces are sorted by (owner, neighbor) *)
Theorem ofoam_same_name_sorted : forall faces n,
  StronglySorted own_nb_le (filter (has_name n) (ofoam_order faces)).
Proof.
  intros faces n.
  eapply SSorted_filter_weaken; [apply ofoam_order_sorted|].
  apply face_le_same_name.
Qed.

Theorem ofoam_internal_sorted : forall faces,
  StronglySorted own_nb_le (firstn (n_internal faces) (ofoam_order faces)).
Proof.
  intros faces. destruct (ofoam_firstn_internal faces) as [-> _].
  apply (ofoam_same_name_sorted faces None).
Qed.

Corollary ofoam_internal_sorted_index : forall faces i j x y,
  i < j -> j < n_internal faces ->
  nth_error (ofoam_order faces) i = Some x ->
  nth_error (ofoam_order faces) j = Some y ->
  own_nb_le x y.
Proof.
  intros faces i j x y Hij Hj Hi Hjj.
  assert (HN : forall f, has_name None f = is_internal f).
  { intros f. unfold has_name, is_internal. destruct (f_name f); reflexivity. }
  apply (face_le_same_name None).
  - rewrite HN. apply (proj2 (ofoam_internal_index faces i x Hi)). lia.
  - rewrite HN. apply (proj2 (ofoam_internal_index faces j y Hjj)). lia.
  - exact (ofoam_order_sorted_index faces i j x y Hij Hi Hjj).
Qed.

(* ========================================================================= *)
(*  4. boundary faces: names increasing, same name contiguous                 *)
(* ========================================================================= *)

Theorem ofoam_names_increasing : forall faces,
  StronglySorted (fun x y => name_le (f_name x) (f_name y)) (ofoam_order faces).
Proof.
  intros faces. eapply SSorted_weaken; [|apply ofoam_order_sorted].
  intros x y [H|[H _]].
  - apply name_lt_le, H.
  - rewrite H. apply name_leb_le, name_leb_refl.
Qed.

Theorem ofoam_names_increasing_index : forall faces i j x y,
  i <= j ->
  nth_error (ofoam_order faces) i = Some x ->
  nth_error (ofoam_order faces) j = Some y ->
  name_le (f_name x) (f_name y).
Proof.
  intros faces i j x y Hij Hi Hj.
  destruct (Nat.eq_dec i j) as [->|NE].
  - rewrite Hi in Hj. injection Hj as <-. apply name_leb_le, name_leb_refl.
  - eapply (SSorted_nth _ _ (ofoam_names_increasing faces) i j); eauto. lia.
Qed.

(* faces of equal name are contiguous (for None as well) *)
Theorem ofoam_same_name_contiguous : forall faces i j k f g h,
  i <= j -> j <= k ->
  nth_error (ofoam_order faces) i = Some f ->
  nth_error (ofoam_order faces) j = Some g ->
  nth_error (ofoam_order faces) k = Some h ->
  f_name f = f_name h ->
  f_name g = f_name f.
Proof.
  intros faces i j k f g h Hij Hjk Hi Hj Hk E.
  pose proof (ofoam_names_increasing_index faces i j f g Hij Hi Hj) as H1.
  pose proof (ofoam_names_increasing_index faces j k g h Hjk Hj Hk) as H2.
  rewrite <- E in H2. apply name_le_antisym; auto.
Qed.

(* ========================================================================= *)
(*  6. stability                                                              *)
(* ========================================================================= *)

Theorem ofoam_order_stable : forall faces f0,
  filter (same_key f0) (ofoam_order faces) = filter (same_key f0) faces.
Proof.
  intros faces f0. unfold ofoam_order.
  assert (HK : forall x, same_key f0 x = true ->
            f_name x = f_name f0 /\ f_owner x = f_owner f0 /\ f_neighbor x = f_neighbor f0).
  { intros x H. unfold same_key in H. apply andb_prop in H. destruct H as [H H3].
    apply andb_prop in H. destruct H as [H1 H2].
    destruct (name_eqb_spec (f_name x) (f_name f0)); [|discriminate].
    apply Nat.eqb_eq in H2. apply Z.eqb_eq in H3. auto. }
  rewrite ssort_filter_stable.
  2:{ intros x y Hx Hy. destruct (HK x Hx) as [-> _], (HK y Hy) as [-> _]. apply name_leb_refl. }
  rewrite ssort_filter_stable.
  2:{ intros x y Hx Hy. destruct (HK x Hx) as [_ [-> _]], (HK y Hy) as [_ [-> _]]. apply Nat.leb_refl. }
  rewrite ssort_filter_stable; auto.
  intros x y Hx Hy. destruct (HK x Hx) as [_ [_ ->]], (HK y Hy) as [_ [_ ->]]. apply Z.leb_refl.
Qed.

(* ========================================================================= *)
(*  itertools.groupby: the left-to-right model equals the structural one      *)
(* ========================================================================= *)

(* structural (right-to-left) description of the maximal runs of equal names *)
Fixpoint groupby_r (l : list face) : list (option nat * list face) :=
  match l with
  | [] => []
  | x :: t => match groupby_r t with
              | (k, g) :: r => if name_eqb (f_name x) k
                               then (k, x :: g) :: r
                               else (f_name x, [x]) :: (k, g) :: r
              | [] => [(f_name x, [x])]
              end
  end.

Lemma groupby_r_cons x t :
  groupby_r (x :: t) =
  match groupby_r t with
  | (k, g) :: r => if name_eqb (f_name x) k
                   then (k, x :: g) :: r
                   else (f_name x, [x]) :: (k, g) :: r
  | [] => [(f_name x, [x])]
  end.
Proof. reflexivity. Qed.

Lemma groupby_r_head x t : exists g r, groupby_r (x :: t) = (f_name x, x :: g) :: r.
Proof.
  rewrite groupby_r_cons. destruct (groupby_r t) as [|[k g] r]; [eauto|].
  destruct (name_eqb_spec (f_name x) k) as [->|]; eauto.
Qed.

Lemma groupby_r_run : forall g k rest,
  g <> [] -> Forall (fun f => f_name f = k) g ->
  match rest with [] => True | y :: _ => f_name y <> k end ->
  groupby_r (g ++ rest) = (k, g) :: groupby_r rest.
Proof.
  induction g as [|x g IH]; intros k rest Hne HF Hrest; [congruence|].
  inversion HF as [|? ? Hx HF']; subst.
  destruct g as [|x' g'].
  - cbn [app]. rewrite groupby_r_cons.
    destruct rest as [|y t]; [reflexivity|].
    destruct (groupby_r_head y t) as [g0 [r0 E]]. rewrite E.
    destruct (name_eqb_spec (f_name x) (f_name y)) as [E'|]; [|reflexivity].
    congruence.
  - change ((x :: x' :: g') ++ rest) with (x :: ((x' :: g') ++ rest)).
    rewrite groupby_r_cons. rewrite (IH (f_name x) rest); auto; [|congruence].
    destruct (name_eqb_spec (f_name x) (f_name x)); [reflexivity|congruence].
Qed.

Lemma groupby_run_eq : forall l k cur,
  cur <> [] -> Forall (fun f => f_name f = k) cur ->
  groupby_run k cur l = groupby_r (rev cur ++ l).
Proof.
  induction l as [|x t IH]; intros k cur Hne HF.
  - cbn [groupby_run]. rewrite (groupby_r_run (rev cur) k []); auto.
    + intros E. apply (f_equal (@rev face)) in E. rewrite rev_involutive in E. auto.
    + apply Forall_rev. exact HF.
  - cbn [groupby_run].
    destruct (name_eqb_spec (f_name x) k) as [E|NE].
    + rewrite IH; [|congruence|constructor; auto].
      cbn [rev]. rewrite <- app_assoc. reflexivity.
    + rewrite IH; [|congruence|constructor; auto]. cbn [rev app].
      rewrite (groupby_r_run (rev cur) k (x :: t)); auto.
      * intros E. apply (f_equal (@rev face)) in E. rewrite rev_involutive in E. auto.
      * apply Forall_rev. exact HF.
Qed.

Theorem groupby_name_eq : forall l, groupby_name l = groupby_r l.
Proof.
  intros [|x t]; [reflexivity|].
  unfold groupby_name. rewrite groupby_run_eq; [reflexivity|congruence|].
  constructor; auto.
Qed.

(* ----- specification of groupby: maximal runs ----- *)

Definition group_ok (kg : option nat * list face) : Prop :=
  snd kg <> [] /\ Forall (fun f => f_name f = fst kg) (snd kg).

Fixpoint adj_diff (ks : list (option nat)) : Prop :=
  match ks with
  | a :: t => match t with b :: _ => a <> b | [] => True end /\ adj_diff t
  | [] => True
  end.

Lemma groupby_r_concat l : concat (map snd (groupby_r l)) = l.
Proof.
  induction l as [|a l IH]; [reflexivity|].
  rewrite groupby_r_cons. destruct (groupby_r l) as [|[k g] r]; cbn in *.
  - rewrite <- IH. reflexivity.
  - destruct (name_eqb (f_name a) k); cbn; rewrite IH; reflexivity.
Qed.

Lemma groupby_r_ok l : Forall group_ok (groupby_r l).
Proof.
  induction l as [|a l IH]; [constructor|].
  rewrite groupby_r_cons. destruct (groupby_r l) as [|[k g] r].
  - constructor; [|constructor]. split; cbn; [congruence|auto].
  - inversion IH as [|? ? [H1 H2] Hr]; subst. cbn in H1, H2.
    destruct (name_eqb_spec (f_name a) k) as [E|NE].
    + constructor; auto. split; cbn; [congruence|auto].
    + constructor; auto. split; cbn; [congruence|auto].
Qed.

Lemma groupby_r_adjacent l : adj_diff (map fst (groupby_r l)).
Proof.
  induction l as [|a l IH]; [exact I|].
  rewrite groupby_r_cons. destruct (groupby_r l) as [|[k g] r].
  - cbn. auto.
  - destruct (name_eqb_spec (f_name a) k) as [E|NE].
    + exact IH.
    + cbn [map fst adj_diff]. split; auto.
Qed.

(* the three facts characterise itertools.groupby *)
Theorem groupby_name_spec : forall l,
  concat (map snd (groupby_name l)) = l /\
  Forall group_ok (groupby_name l) /\
  adj_diff (map fst (groupby_name l)).
Proof.
  intros l. rewrite groupby_name_eq.
  split; [apply groupby_r_concat|]. split; [apply groupby_r_ok|apply groupby_r_adjacent].
Qed.

Lemma groups_member (gs : list (option nat * list face)) k g f :
  In (k, g) gs -> In f g -> In f (concat (map snd gs)).
Proof.
  intros Hg Hf. apply in_concat. exists g. split; auto.
  apply in_map_iff. exists (k, g). auto.
Qed.

Lemma groupby_r_key_in l k :
  In k (map fst (groupby_r l)) -> exists f, In f l /\ f_name f = k.
Proof.
  intros H. apply in_map_iff in H. destruct H as [[k' g] [E Hin]]. cbn in E. subst k'.
  pose proof (groupby_r_ok l) as Hok. rewrite Forall_forall in Hok.
  destruct (Hok _ Hin) as [Hne HF]. cbn in Hne, HF.
  destruct g as [|f g]; [congruence|]. exists f. split.
  - rewrite <- (groupby_r_concat l). eapply groups_member; [exact Hin|left; reflexivity].
  - inversion HF; auto.
Qed.

Lemma groupby_r_keys_sorted l :
  StronglySorted (fun x y => name_le (f_name x) (f_name y)) l ->
  StronglySorted name_lt (map fst (groupby_r l)).
Proof.
  induction l as [|a l IH]; intros HS; [constructor|].
  apply StronglySorted_inv in HS. destruct HS as [HS HF]. specialize (IH HS).
  pose proof (groupby_r_key_in l) as Hkey.
  rewrite groupby_r_cons. destruct (groupby_r l) as [|[k g] r].
  - cbn. constructor; constructor.
  - destruct (name_eqb_spec (f_name a) k) as [E|NE]; [exact IH|].
    cbn [map fst] in *. constructor; [exact IH|].
    apply StronglySorted_inv in IH. destruct IH as [_ HK].
    assert (Hak : name_lt (f_name a) k).
    { apply name_le_neq_lt; auto.
      destruct (Hkey k (or_introl eq_refl)) as [f [Hf <-]].
      rewrite Forall_forall in HF. apply HF, Hf. }
    constructor; auto.
    eapply Forall_impl; [|exact HK]. intros k' Hk'. eapply name_lt_trans; eauto.
Qed.

(* ========================================================================= *)
(*  blocks                                                                    *)
(* ========================================================================= *)

Definition somes (ks : list (option nat)) : list nat :=
  flat_map (fun k => match k with Some n => [n] | None => [] end) ks.

Lemma blocks_from_names gs s : map b_name (blocks_from s gs) = somes (map fst gs).
Proof.
  revert s. induction gs as [|[[n|] g] r IH]; intros s; cbn; auto.
  f_equal. apply IH.
Qed.

Lemma somes_In n ks : In n (somes ks) <-> In (Some n) ks.
Proof.
  unfold somes. rewrite in_flat_map. split.
  - intros [[m|] [H1 H2]]; cbn in H2; [|tauto]. destruct H2 as [->|[]]. exact H1.
  - intros H. exists (Some n). split; auto. left; reflexivity.
Qed.

Lemma somes_sorted ks : StronglySorted name_lt ks -> StronglySorted lt (somes ks).
Proof.
  induction 1 as [|a ks HS IH HF]; [constructor|].
  destruct a as [n|]; cbn; [|exact IH].
  constructor; [exact IH|].
  apply Forall_forall. intros m Hm. apply somes_In in Hm.
  rewrite Forall_forall in HF. apply (HF _ Hm).
Qed.

Lemma face_names_In n l : In n (face_names l) <-> exists f, In f l /\ f_name f = Some n.
Proof.
  unfold face_names. rewrite in_flat_map. split.
  - intros [f [Hf Hn]]. exists f. split; auto.
    destruct (f_name f); cbn in Hn; [|tauto]. destruct Hn as [->|[]]. reflexivity.
  - intros [f [Hf Hn]]. exists f. split; auto. rewrite Hn. left; reflexivity.
Qed.

(* for every list: the set of block names is the set of face names *)
Theorem boundary_blocks_names : forall l n,
  In n (map b_name (boundary_blocks l)) <-> In n (face_names l).
Proof.
  intros l n. unfold boundary_blocks. rewrite groupby_name_eq, blocks_from_names.
  rewrite somes_In, face_names_In. split.
  - apply groupby_r_key_in.
  - intros [f [Hf Hn]]. rewrite <- (groupby_r_concat l) in Hf.
    apply in_concat in Hf. destruct Hf as [g [Hg Hfg]].
    apply in_map_iff in Hg. destruct Hg as [[k g'] [E Hin]]. cbn in E. subst g'.
    pose proof (groupby_r_ok l) as Hok. rewrite Forall_forall in Hok.
    destruct (Hok _ Hin) as [_ HF]. cbn in HF. rewrite Forall_forall in HF.
    rewrite <- Hn, (HF f Hfg). apply in_map_iff. exists (k, g). auto.
Qed.

Fixpoint total_nfaces (bs : list block) : nat :=
  match bs with [] => 0 | b :: r => b_nfaces b + total_nfaces r end.

Lemma blocks_from_total gs : Forall group_ok gs -> forall s,
  total_nfaces (blocks_from s gs) = length (filter is_boundary (concat (map snd gs))).
Proof.
  induction 1 as [|[k g] r [Hne HF] Hr IH]; intros s; [reflexivity|].
  cbn in Hne, HF. cbn [map snd concat]. rewrite filter_app, app_length.
  rewrite Forall_forall in HF.
  destruct k as [n|]; cbn [blocks_from total_nfaces b_nfaces].
  - rewrite IH. f_equal. rewrite filter_all_true; [reflexivity|].
    intros f Hf. unfold is_boundary, is_internal. rewrite (HF f Hf). reflexivity.
  - rewrite IH. rewrite (filter_all_false is_boundary g); [reflexivity|].
    intros f Hf. unfold is_boundary, is_internal. rewrite (HF f Hf). reflexivity.
Qed.

(* every block covers faces of its own name only (any list) *)
Lemma blocks_from_cover gs : Forall group_ok gs -> forall s b,
  In b (blocks_from s gs) ->
  s <= b_start b /\ 0 < b_nfaces b /\
  b_start b + b_nfaces b <= s + length (concat (map snd gs)) /\
  forall i, b_start b <= i < b_start b + b_nfaces b ->
    exists f, nth_error (concat (map snd gs)) (i - s) = Some f /\ f_name f = Some (b_name b).
Proof.
  induction 1 as [|[k g] r [Hne HF] Hr IH]; intros s b Hb; [destruct Hb|].
  cbn in Hne, HF. cbn [map snd concat]. rewrite app_length.
  assert (Hrest : In b (blocks_from (s + length g) r) ->
    s <= b_start b /\ 0 < b_nfaces b /\
    b_start b + b_nfaces b <= s + (length g + length (concat (map snd r))) /\
    forall i, b_start b <= i < b_start b + b_nfaces b ->
      exists f, nth_error (g ++ concat (map snd r)) (i - s) = Some f /\
                f_name f = Some (b_name b)).
  { intros Hin. destruct (IH _ _ Hin) as [H1 [H2 [H3 H4]]].
    repeat split; try lia. intros i Hi. destruct (H4 i Hi) as [f [Hf Hn]].
    exists f. split; auto. rewrite nth_error_app2 by lia.
    replace (i - s - length g) with (i - (s + length g)) by lia. exact Hf. }
  destruct k as [n|]; cbn [blocks_from] in Hb; [|auto].
  destruct Hb as [<-|Hb]; [|auto]. cbn [b_start b_nfaces b_name].
  assert (0 < length g) by (destruct g; [congruence|cbn; lia]).
  repeat split; try lia. intros i Hi.
  rewrite nth_error_app1 by lia.
  destruct (nth_error g (i - s)) as [f|] eqn:E.
  - exists f. split; auto. rewrite Forall_forall in HF. apply HF.
    eapply nth_error_In; eauto.
  - apply nth_error_None in E. lia.
Qed.

(* every named face lies in a block of its name (any list) *)
Lemma blocks_from_cover_conv gs : Forall group_ok gs -> forall s j f n,
  nth_error (concat (map snd gs)) j = Some f -> f_name f = Some n ->
  exists b, In b (blocks_from s gs) /\ b_name b = n /\
            b_start b <= s + j < b_start b + b_nfaces b.
Proof.
  induction 1 as [|[k g] r [Hne HF] Hr IH]; intros s j f n Hj Hn.
  - destruct j; discriminate.
  - cbn in Hne, HF. cbn [map snd concat] in Hj.
    destruct (lt_dec j (length g)) as [Hlt|Hge].
    + rewrite nth_error_app1 in Hj by exact Hlt.
      rewrite Forall_forall in HF. pose proof (HF f (nth_error_In _ _ Hj)) as Hk.
      cbn in Hk. rewrite Hn in Hk. subst k. cbn [blocks_from].
      eexists. split; [left; reflexivity|]. cbn. split; auto. lia.
    + rewrite nth_error_app2 in Hj by lia.
      destruct (IH (s + length g) _ _ _ Hj Hn) as [b [Hb [Hbn Hrange]]].
      exists b. split; [|split; auto; lia].
      destruct k; cbn [blocks_from]; [right|]; exact Hb.
Qed.

(* start positions are chained *)
Inductive chained : nat -> list block -> Prop :=
| chained_nil : forall s, chained s []
| chained_cons : forall s b r, b_start b = s -> chained (s + b_nfaces b) r -> chained s (b :: r).

Lemma blocks_from_chained gs : Forall (fun kg => fst kg <> None) gs -> forall s,
  chained s (blocks_from s gs).
Proof.
  induction 1 as [|[k g] r Hk Hr IH]; intros s; [constructor|].
  cbn in Hk. destruct k as [n|]; [|congruence]. cbn [blocks_from].
  constructor; [reflexivity|]. cbn. apply IH.
Qed.

Lemma chained_hd s bs b : chained s bs -> hd_error bs = Some b -> b_start b = s.
Proof. intros H. inversion H; subst; cbn; [discriminate|]. intros E. injection E as <-. reflexivity. Qed.

Lemma chained_next s bs : chained s bs -> forall i b b',
  nth_error bs i = Some b -> nth_error bs (S i) = Some b' ->
  b_start b' = b_start b + b_nfaces b.
Proof.
  induction 1 as [|s b0 r Hs Hc IH]; intros i b b' Hi Hi'.
  - destruct i; discriminate.
  - destruct i as [|i].
    + cbn in Hi. injection Hi as <-. cbn in Hi'.
      rewrite Hs. apply (chained_hd _ r); auto.
    + cbn in Hi, Hi'. eapply IH; eauto.
Qed.

(* on a list with the internal faces in front the blocks start after them *)
Lemma blocks_split I B :
  Forall (fun f => f_name f = None) I ->
  Forall (fun f => f_name f <> None) B ->
  blocks_from 0 (groupby_r (I ++ B)) = blocks_from (length I) (groupby_r B).
Proof.
  intros HI HB. destruct I as [|x I']; [reflexivity|].
  rewrite (groupby_r_run (x :: I') None B).
  - reflexivity.
  - congruence.
  - exact HI.
  - destruct B; [exact I|]. inversion HB; auto.
Qed.

Lemma groupby_r_boundary_keys B :
  Forall (fun f => f_name f <> None) B -> Forall (fun kg => fst kg <> None) (groupby_r B).
Proof.
  intros HB. apply Forall_forall. intros [k g] Hin. cbn.
  destruct (groupby_r_key_in B k) as [f [Hf <-]].
  - apply in_map_iff. exists (k, g). auto.
  - rewrite Forall_forall in HB. apply HB, Hf.
Qed.

Lemma ofoam_blocks_split faces :
  boundary_blocks (ofoam_order faces) =
  blocks_from (n_internal faces) (groupby_r (filter is_boundary (ofoam_order faces))).
Proof.
  unfold boundary_blocks. rewrite groupby_name_eq.
  rewrite <- n_internal_order. unfold n_internal.
  rewrite (ofoam_internal_first faces) at 1.
  apply blocks_split; apply Forall_forall; intros f Hf; apply filter_In in Hf;
    destruct Hf as [_ Hf]; unfold is_boundary, is_internal in Hf;
    destruct (f_name f); cbn in Hf; congruence.
Qed.

Lemma ofoam_blocks_chained faces :
  chained (n_internal faces) (boundary_blocks (ofoam_order faces)).
Proof.
  rewrite ofoam_blocks_split. apply blocks_from_chained, groupby_r_boundary_keys.
  apply Forall_forall. intros f Hf. apply filter_In in Hf. destruct Hf as [_ Hf].
  unfold is_boundary, is_internal in Hf. destruct (f_name f); cbn in Hf; congruence.
Qed.

(* ========================================================================= *)
(*  5. the boundary file of the ordered faces                                 *)
(* ========================================================================= *)

Lemma declared_blocks_perm l l' : Permutation l l' -> declared_blocks l = declared_blocks l'.
Proof.
  intros HP. unfold declared_blocks. apply Permutation_length.
  apply NoDup_Permutation; try apply NoDup_nodup.
  intros n. rewrite !nodup_In, !face_names_In.
  split; intros [f [Hf Hn]]; exists f; split; auto.
  - eapply Permutation_in; eauto.
  - eapply Permutation_in; [symmetry|]; eauto.
Qed.

(* 5a: block names strictly increasing (hence pairwise distinct) *)
Theorem ofoam_blocks_names_increasing : forall faces,
  StronglySorted lt (map b_name (boundary_blocks (ofoam_order faces))).
Proof.
  intros faces. unfold boundary_blocks. rewrite groupby_name_eq, blocks_from_names.
  apply somes_sorted, groupby_r_keys_sorted, ofoam_names_increasing.
Qed.

(* 5b: one block per distinct name: the declared number of blocks is right,
       whether it is computed on the input or on the ordered faces *)
Theorem ofoam_blocks_count : forall faces,
  length (boundary_blocks (ofoam_order faces)) = declared_blocks faces /\
  declared_blocks (ofoam_order faces) = declared_blocks faces.
Proof.
  intros faces.
  assert (E : declared_blocks (ofoam_order faces) = declared_blocks faces).
  { symmetry. apply declared_blocks_perm, ofoam_order_perm. }
  split; auto. rewrite <- E. unfold declared_blocks.
  rewrite <- (map_length b_name). apply Permutation_length.
  apply NoDup_Permutation.
  - apply SSorted_lt_NoDup, ofoam_blocks_names_increasing.
  - apply NoDup_nodup.
  - intros n. rewrite nodup_In. apply boundary_blocks_names.
Qed.

Theorem ofoam_blocks_names : forall faces n,
  In n (map b_name (boundary_blocks (ofoam_order faces))) <->
  exists f, In f faces /\ f_name f = Some n.
Proof.
  intros faces n. rewrite boundary_blocks_names, face_names_In.
  split; intros [f [Hf Hn]]; exists f; split; auto; apply ofoam_order_In; auto.
Qed.

(* 5c: the first block starts right after the internal faces *)
Theorem ofoam_blocks_first_start : forall faces b,
  hd_error (boundary_blocks (ofoam_order faces)) = Some b ->
  b_start b = n_internal faces.
Proof. intros faces b. apply chained_hd, ofoam_blocks_chained. Qed.

(* 5d: each next block starts where the previous one ends *)
Theorem ofoam_blocks_next_start : forall faces i b b',
  nth_error (boundary_blocks (ofoam_order faces)) i = Some b ->
  nth_error (boundary_blocks (ofoam_order faces)) (S i) = Some b' ->
  b_start b' = b_start b + b_nfaces b.
Proof. intros faces. apply (chained_next _ _ (ofoam_blocks_chained faces)). Qed.

(* 5e: the blocks account for all boundary faces *)
Theorem ofoam_blocks_total : forall faces,
  total_nfaces (boundary_blocks (ofoam_order faces)) = length (filter is_boundary faces) /\
  n_internal faces + total_nfaces (boundary_blocks (ofoam_order faces)) = length faces.
Proof.
  intros faces.
  assert (E : total_nfaces (boundary_blocks (ofoam_order faces)) = length (filter is_boundary faces)).
  { unfold boundary_blocks. rewrite groupby_name_eq.
    rewrite blocks_from_total by apply groupby_r_ok. rewrite groupby_r_concat.
    symmetry. apply Permutation_length, filter_perm, ofoam_order_perm. }
  split; auto. rewrite E. unfold n_internal. apply filter_compl_length.
Qed.

(* 5f: face number i of the ordered list, startFace <= i < startFace + nFaces,
       carries the name of the block; blocks are non-empty and inside the list *)
Theorem ofoam_blocks_cover : forall faces b,
  In b (boundary_blocks (ofoam_order faces)) ->
  0 < b_nfaces b /\
  n_internal faces <= b_start b /\
  b_start b + b_nfaces b <= length faces /\
  forall i, b_start b <= i < b_start b + b_nfaces b ->
    exists f, nth_error (ofoam_order faces) i = Some f /\ f_name f = Some (b_name b).
Proof.
  intros faces b Hb.
  assert (Hb' := Hb). unfold boundary_blocks in Hb'. rewrite groupby_name_eq in Hb'.
  destruct (blocks_from_cover _ (groupby_r_ok _) _ _ Hb') as [_ [H2 [H3 H4]]].
  rewrite groupby_r_concat in H3, H4. rewrite ofoam_order_length in H3. cbn in H3.
  split; auto. split; [|split; auto].
  - rewrite ofoam_blocks_split in Hb.
    destruct (blocks_from_cover _ (groupby_r_ok _) _ _ Hb) as [H1 _]. exact H1.
  - intros i Hi. destruct (H4 i Hi) as [f [Hf Hn]].
    rewrite Nat.sub_0_r in Hf. eauto.
Qed.

(* 5g: conversely every named face of the ordered list lies in the range of
       the (unique, by 5a) block of its name *)
Theorem ofoam_blocks_cover_conv : forall faces i f n,
  nth_error (ofoam_order faces) i = Some f -> f_name f = Some n ->
  exists b, In b (boundary_blocks (ofoam_order faces)) /\ b_name b = n /\
            b_start b <= i < b_start b + b_nfaces b.
Proof.
  intros faces i f n Hi Hn. unfold boundary_blocks. rewrite groupby_name_eq.
  rewrite <- (groupby_r_concat (ofoam_order faces)) in Hi.
  destruct (blocks_from_cover_conv _ (groupby_r_ok _) 0 _ _ _ Hi Hn) as [b [Hb [Hbn Hr]]].
  exists b. split; auto.
Qed.

(* the two coverage statements hold for the blocks of ANY face list, ordered or not *)
Theorem boundary_blocks_cover_any : forall l b,
  In b (boundary_blocks l) ->
  0 < b_nfaces b /\ b_start b + b_nfaces b <= length l /\
  forall i, b_start b <= i < b_start b + b_nfaces b ->
    exists f, nth_error l i = Some f /\ f_name f = Some (b_name b).
Proof.
  intros l b Hb. unfold boundary_blocks in Hb. rewrite groupby_name_eq in Hb.
  destruct (blocks_from_cover _ (groupby_r_ok _) _ _ Hb) as [_ [H2 [H3 H4]]].
  rewrite groupby_r_concat in H3, H4. cbn in H3. split; auto. split; auto.
  intros i Hi. destruct (H4 i Hi) as [f [Hf Hn]]. rewrite Nat.sub_0_r in Hf. eauto.
Qed.

(* ========================================================================= *)
(*  Concrete examples (checked against the Python code of OpenFOAM.write:     *)
(*  same order, same blocks)                                                  *)
(* ========================================================================= *)

Module OFoamExamples.
  Local Open Scope Z_scope.
  (* the first field (nodes) is used as a tag to follow the faces *)
  Definition F (id : nat) (o : nat) (nb : Z) (nm : option nat) : face := mkFace [id] o nb nm.

  (* nine faces, four internal, names 0 and 1; tags 0 and 8 have the same key *)
  Definition ex1 : list face :=
    [ F 0 1 (-1) (Some 1%nat); F 1 0 1 None;           F 2 2 (-1) (Some 0%nat);
      F 3 0 (-1) (Some 1%nat); F 4 1 3 None;           F 5 1 2 None;
      F 6 0 (-1) (Some 0%nat); F 7 0 2 None;           F 8 1 (-1) (Some 1%nat) ].

  Example ex1_order :
    ofoam_order ex1 =
    [ F 1 0 1 None; F 7 0 2 None; F 5 1 2 None; F 4 1 3 None;
      F 6 0 (-1) (Some 0%nat); F 2 2 (-1) (Some 0%nat);
      F 3 0 (-1) (Some 1%nat); F 0 1 (-1) (Some 1%nat); F 8 1 (-1) (Some 1%nat) ].
  Proof. vm_compute. reflexivity. Qed.

  Example ex1_blocks :
    boundary_blocks (ofoam_order ex1) = [ mkBlock 0 2 4; mkBlock 1 3 6 ] /\
    declared_blocks ex1 = 2%nat /\ n_internal ex1 = 4%nat.
  Proof. vm_compute. auto. Qed.

  (* groupby is a grouping of consecutive runs, not a global one: on the
     UNORDERED list the boundary file would have five blocks for two names *)
  Example ex1_unordered_blocks :
    boundary_blocks ex1 =
    [ mkBlock 1 1 0; mkBlock 0 1 2; mkBlock 1 1 3; mkBlock 0 1 6; mkBlock 1 1 8 ].
  Proof. vm_compute. reflexivity. Qed.

  (* no internal faces (an interface face with a name keeps its neighbour) *)
  Definition ex2 : list face :=
    [ F 0 2 (-1) (Some 5%nat); F 1 0 (-1) (Some 3%nat); F 2 1 4 (Some 5%nat);
      F 3 1 (-1) (Some 5%nat); F 4 0 (-1) (Some 5%nat); F 5 0 (-1) (Some 3%nat) ].

  Example ex2_order :
    ofoam_order ex2 =
    [ F 1 0 (-1) (Some 3%nat); F 5 0 (-1) (Some 3%nat);
      F 4 0 (-1) (Some 5%nat); F 3 1 (-1) (Some 5%nat); F 2 1 4 (Some 5%nat);
      F 0 2 (-1) (Some 5%nat) ].
  Proof. vm_compute. reflexivity. Qed.

  Example ex2_blocks :
    boundary_blocks (ofoam_order ex2) = [ mkBlock 3 2 0; mkBlock 5 4 2 ] /\
    declared_blocks ex2 = 2%nat /\ n_internal ex2 = 0%nat.
  Proof. vm_compute. auto. Qed.

  (* only internal faces, and the empty model *)
  Example ex3_blocks :
    boundary_blocks (ofoam_order [F 0 1 2 None; F 1 0 1 None]) = [] /\
    boundary_blocks (ofoam_order []) = [] /\ declared_blocks [] = 0%nat.
  Proof. vm_compute. auto. Qed.
End OFoamExamples.

Print Assumptions ofoam_order_perm.
Print Assumptions ofoam_order_sorted.
Print Assumptions ofoam_internal_first.
Print Assumptions ofoam_internal_index.
Print Assumptions ofoam_internal_before_boundary.
Print Assumptions ofoam_firstn_internal.
Print Assumptions ofoam_internal_sorted.
Print Assumptions ofoam_internal_sorted_index.
Print Assumptions ofoam_same_name_sorted.
Print Assumptions ofoam_names_increasing.
Print Assumptions ofoam_same_name_contiguous.
Print Assumptions ofoam_order_stable.
Print Assumptions groupby_name_eq.
Print Assumptions groupby_name_spec.
Print Assumptions boundary_blocks_names.
Print Assumptions boundary_blocks_cover_any.
Print Assumptions ofoam_blocks_names_increasing.
Print Assumptions ofoam_blocks_count.
Print Assumptions ofoam_blocks_names.
Print Assumptions ofoam_blocks_first_start.
Print Assumptions ofoam_blocks_next_start.
Print Assumptions ofoam_blocks_total.
Print Assumptions ofoam_blocks_cover.
Print Assumptions ofoam_blocks_cover_conv.
