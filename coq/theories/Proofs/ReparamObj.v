(* C06: reparam and reverse at model level (R instance). *)
From Coq Require Import List Arith Reals Lra Lia Bool ZArith.
From SplipyModel Require Import Spec.BSpline Spec.Reparam Model.Num Model.BasisDef Model.BasisEval Model.Tensor Model.Obj
  Model.KnotInsert Model.Reparam Proofs.KnotList Proofs.TensorLemmas Proofs.EvalConsequences Proofs.InsertMatrix Proofs.TensorApply.
Import ListNotations.
Open Scope R_scope.

Lemma last_map {A B} (f : A -> B) l d : l <> [] -> last (map f l) (f d) = f (last l d).
Proof.
  induction l as [|a l IH]; intros H; [congruence|]. destruct l as [|b l]; [reflexivity|].
  cbn [map last] in *. apply IH. congruence.
Qed.

Lemma kn_map (f : R -> R) (k : list R) i : k <> [] -> @kn R NumR (map f k) i = f (@kn R NumR k i).
Proof.
  intros Hne. unfold kn.
  destruct (Nat.lt_ge_cases i (length k)) as [L|L].
  - rewrite (nth_indep _ _ (f 0)) by (rewrite map_length; exact L). rewrite map_nth.
    f_equal. apply nth_indep. exact L.
  - rewrite !nth_overflow by (try rewrite map_length; exact L).
    destruct k as [|a k]; [congruence|].
    assert (E : forall d1 d2, last (a :: k) d1 = last (a :: k) d2).
    { clear. revert a. induction k as [|b k IH]; intros a d1 d2; [reflexivity|]. cbn [last]. apply IH. }
    assert (E' : forall d1 d2, last (map f (a :: k)) d1 = last (map f (a :: k)) d2).
    { intros. cbn [map]. generalize (f a) (map f k). clear. intros x l. revert x. induction l as [|b l IH]; intros x; [reflexivity|]. cbn [last]. apply IH. }
    rewrite (E' _ (f 0)). rewrite last_map by congruence. reflexivity.
Qed.

Lemma map_nonempty {A B} (f : A -> B) l : l <> [] -> map f l <> [].
Proof. destruct l; [congruence|discriminate]. Qed.

Section Rep.
Variable b : basis R.
Hypothesis Hne : b_knots b <> [].
Local Notation st := (@b_start R NumR b).
Local Notation en := (@b_end R NumR b).
Hypothesis Hdom : st < en.
Variables s e : R.

(* C06.2: reparam raises exactly for end <= start; otherwise every knot is mapped by the increasing
   affine map taking [start,end] onto [s,e]; order and periodicity are untouched *)
Theorem basis_reparam_spec :
  (e <= s -> @basis_reparam R NumR b s e = Err ValueError) /\
  (s < e -> exists b', @basis_reparam R NumR b s e = Ok b' /\
      b_order b' = b_order b /\ b_per1 b' = b_per1 b /\ length (b_knots b') = length (b_knots b) /\
      (forall i, @kn R NumR (b_knots b') i = (e - s) / (en - st) * (@kn R NumR (b_knots b) i - st) + s) /\
      @b_start R NumR b' = s /\ @b_end R NumR b' = e).
Proof.
  unfold basis_reparam. cbn [nleb NumR]. split.
  - intros H. destruct (Rleb_spec e s); [reflexivity|lra].
  - intros H. destruct (Rleb_spec e s) as [A|A]; [lra|]. eexists. split; [reflexivity|].
    unfold basis_shift. cbn [b_order b_per1 b_knots].
    assert (E1 : @b_end R NumR (mkBasis (b_order b) (map (fun x => @nsub R NumR x st) (b_knots b)) (b_per1 b)) = en - st).
    { unfold b_end. cbn [b_order b_knots]. rewrite map_length. rewrite kn_map by exact Hne. reflexivity. }
    rewrite E1.
    assert (Kn : forall i, @kn R NumR (map (fun x => @nadd R NumR x s)
                   (map (fun x => @nmul R NumR x (@nsub R NumR e s))
                      (map (fun x => @ndiv R NumR x (en - st)) (map (fun x => @nsub R NumR x st) (b_knots b))))) i
                 = (e - s) / (en - st) * (@kn R NumR (b_knots b) i - st) + s).
    { intros i. rewrite !kn_map by (repeat apply map_nonempty; exact Hne). cbn [nadd nsub nmul ndiv NumR]. field. lra. }
    repeat split; try reflexivity.
    + rewrite !map_length. reflexivity.
    + exact Kn.
    + unfold b_start at 1. cbn [b_order b_knots]. rewrite Kn. unfold b_start, b_end in *. field. lra.
    + unfold b_end at 1. cbn [b_order b_knots]. rewrite !map_length, Kn. unfold b_start, b_end in *. field. lra.
Qed.
End Rep.

(* reversal matrix, non-periodic: row r has its single 1 in column n-1-r *)
Lemma rev_matrix_entry n r j : (r < n)%nat -> (j < n)%nat ->
  nth j (nth r (@rev_matrix R NumR n 0) []) 0 = if (j =? n - 1 - r)%nat then 1 else 0.
Proof.
  intros Hr Hj. unfold rev_matrix.
  rewrite (nth_map_gen _ _ r [] 0%nat) by (rewrite seq_length; exact Hr). rewrite seq_nth by exact Hr.
  rewrite (nth_map_gen _ _ j 0 0%nat) by (rewrite seq_length; exact Hj). rewrite seq_nth by exact Hj.
  cbn [Nat.add]. rewrite Nat.mod_0_l by lia. rewrite Nat.sub_0_r.
  replace ((r + n) mod n)%nat with r.
  2:{ rewrite <- (Nat.mod_small r n) at 1 by exact Hr. rewrite <- Nat.add_mod_idemp_r by lia.
      rewrite Nat.mod_same by lia. rewrite Nat.add_0_r. reflexivity. }
  reflexivity.
Qed.

Lemma row_rel_reverse (N : list R) : row_rel N (rev N) (@rev_matrix R NumR (length N) 0).
Proof.
  unfold row_rel. rewrite rev_length. split; [unfold rev_matrix; rewrite map_length, seq_length; reflexivity|]. split.
  - apply Forall_forall. intros row Hin. unfold rev_matrix in Hin. apply in_map_iff in Hin. destruct Hin as (r & <- & _).
    rewrite map_length, seq_length. reflexivity.
  - intros j Hj.
    rewrite (sumf_ext _ (fun r => if (r =? length N - 1 - j)%nat then nth j N 0 else 0)).
    + symmetry. rewrite (sumf_ext _ (fun r => if (length N - 1 - j =? r)%nat then nth j N 0 else 0)).
      * apply sumf_indicator. lia.
      * intros r _. rewrite Nat.eqb_sym. reflexivity.
    + intros r Hr. rewrite rev_matrix_entry by lia.
      destruct (Nat.eqb_spec j (length N - 1 - r)) as [E|E]; destruct (Nat.eqb_spec r (length N - 1 - j)) as [E2|E2]; try lia.
      * rewrite rev_nth by lia. subst r. replace (length N - S (length N - 1 - j))%nat with j by lia. ring.
      * ring.
Qed.

(* C06.1 (object level, non-periodic direction): reversing the net along direction d and the row of
   basis values in that direction leaves every coordinate of the evaluation unchanged *)
Theorem reverse_preserves_map dim c (rows : list (list R)) d cps :
  (d < length rows)%nat -> (c < dim)%nat -> net_ok dim rows cps -> (0 < prodl (map (@length R) rows))%nat ->
  coord c (@teval R NumR dim (@upd (list R) rows d (rev (nth d rows [])))
             (@apply_dir R NumR dim (map (@length R) rows) d (@rev_matrix R NumR (length (nth d rows [])) 0) cps))
  = coord c (@teval R NumR dim rows cps).
Proof.
  intros Hd Hc Hnet Hpos.
  pose proof (row_rel_reverse (nth d rows [])) as RR.
  rewrite (teval_tsum dim c rows Hc cps Hnet).
  rewrite <- (tsum_apply_dir dim c _ rows d (rev (nth d rows [])) cps Hd Hc Hnet Hpos RR).
  apply teval_tsum; [exact Hc|].
  destruct Hnet as [Hv Hl]. split; [apply Forall_apply_dir; exact Hv|].
  rewrite length_apply_dir; [| rewrite map_length; exact Hd | exact Hl | exact Hpos ].
  f_equal. unfold rev_matrix. rewrite map_length, seq_length.
  clear. revert d. induction rows as [|a rows IHr]; intros d; [reflexivity|]. destruct d; cbn [upd map nth].
  - rewrite rev_length. reflexivity.
  - f_equal. apply IHr.
Qed.

(* the knot function of basis_reverse is the mirrored knot function of Spec.Reparam *)
Lemma basis_reverse_knots (b : basis R) i : (i < length (b_knots b))%nat ->
  @b_start R NumR b < @b_end R NumR b ->
  @kn R NumR (b_knots (@basis_reverse R NumR b)) i
  = kr (@kn R NumR (b_knots b)) (length (b_knots b)) (@b_start R NumR b) (@b_end R NumR b) i.
Proof.
  intros Hi Hdom. unfold basis_reverse, kr. cbn [b_knots].
  unfold kn at 1. rewrite (nth_map_gen _ _ i _ 0) by (rewrite rev_length; exact Hi).
  rewrite rev_nth by exact Hi.
  cbn [nadd nsub nmul ndiv NumR].
  replace (length (b_knots b) - S i)%nat with (length (b_knots b) - 1 - i)%nat by lia.
  unfold kn. rewrite (nth_indep (b_knots b) 0 (last (b_knots b) 0)) by lia.
  change (@n0 R NumR) with 0. field. lra.
Qed.

(* swap for surfaces at the level of the scalar contraction *)
Lemma tsum_swap2 (N M : list R) (f : nat -> R) :
  tsum [N; M] f = tsum [M; N] (fun idx => f ((idx mod length N) * length M + idx / length N)%nat).
Proof.
  cbn [tsum map prodl fold_right]. unfold lcf. cbn [tsum].
  transitivity (sumf (fun i => sumf (fun j => nth i N 0 * nth j M 0 * f (i * length M + j)%nat) 0 (length M)) 0 (length N)).
  { apply sumf_ext. intros i _. rewrite <- sumf_scal. apply sumf_ext. intros j _.
    rewrite Rmult_assoc. do 2 f_equal. f_equal. lia. }
  rewrite sumf_exchange.
  apply sumf_ext. intros j Hj. rewrite <- sumf_scal. apply sumf_ext. intros i Hi.
  assert (HN : (0 < length N)%nat) by lia.
  replace ((j * (length N * 1) + (i * 1 + 0)) mod length N)%nat with i.
  2:{ replace (j * (length N * 1) + (i * 1 + 0))%nat with (i + j * length N)%nat by lia.
      rewrite Nat.mod_add by lia. rewrite Nat.mod_small by lia. reflexivity. }
  replace ((j * (length N * 1) + (i * 1 + 0)) / length N)%nat with j.
  2:{ replace (j * (length N * 1) + (i * 1 + 0))%nat with (i + j * length N)%nat by lia.
      rewrite Nat.div_add by lia. rewrite Nat.div_small by lia. reflexivity. }
  ring.
Qed.
